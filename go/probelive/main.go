// probelive: the REAL control flow of replication.replicate() — the probe loop (request without entries →
// response → onAppendEntriesResp → checkLeaderUpdate → … until matchIndex+1 == nextIndex), the fall-back
// to sendInstallSnapReq, the switch to pipelining — run in a goroutine over a scripted in-memory
// connection (hook raft.VerifRepl.RunProbe) on a real leader node, against a REAL follower node that is fed
// the decoded requests, compared exchange by exchange with the Lean model Raft.Repl.replicate
// (Model/ReplProbe.lean). The harness never plays the loop; it only answers what the loop asks.
package main

import (
	"encoding/json"
	"flag"
	"fmt"
	"io/ioutil"
	"math/rand"
	"os"
	"path/filepath"
	"sort"
	"strings"
	"sync"
	"time"

	"github.com/santhosh-tekuri/raft"
	"verif/internal/harness"
	"verif/internal/nodesim"
)

// ---------------------------------------------------------------------------------------------------
// follower: a real node on its own storage directory

type follower struct {
	n     *raft.VerifNode
	base  string
	id    uint64
	opt   raft.Options
	shape string
	wipes int
}

func openFollower(id uint64, opt raft.Options) (*follower, error) {
	base, err := ioutil.TempDir("", "probeflr")
	if err != nil {
		return nil, err
	}
	dir := filepath.Join(base, "node")
	if err := os.MkdirAll(dir, 0700); err != nil {
		return nil, err
	}
	if err := raft.SetIdentity(dir, 7, id); err != nil {
		return nil, err
	}
	n, err := raft.VerifOpen(dir, opt)
	if err != nil {
		return nil, err
	}
	return &follower{n: n, base: base, id: id, opt: opt}, nil
}

func (f *follower) destroy() {
	if f == nil {
		return
	}
	if f.n != nil {
		f.n.Close()
	}
	_ = os.RemoveAll(f.base)
}

// wipe: "someone restarted the follower with empty storage"
func (f *follower) wipe() error {
	g, err := openFollower(f.id, f.opt)
	if err != nil {
		return err
	}
	f.n.Close()
	_ = os.RemoveAll(f.base)
	f.n, f.base = g.n, g.base
	f.wipes++
	return nil
}

// mflr is the follower as the model sees it (Lean: Repl.Follower).
type mflr struct {
	Term      uint64   `json:"term"`
	SnapIndex uint64   `json:"snapIndex"`
	SnapTerm  uint64   `json:"snapTerm"`
	Commit    uint64   `json:"commit"`
	Terms     []uint64 `json:"terms"`
}

func (f *follower) model() (mflr, raft.VNode, bool) {
	d := f.n.Digest()
	m := mflr{Term: d.Term, SnapIndex: d.SnapIndex, SnapTerm: d.SnapTerm, Commit: d.CommitIndex, Terms: []uint64{}}
	for _, e := range d.Log.Entries {
		m.Terms = append(m.Terms, e.Term)
	}
	// the model's follower keeps its log right after its snapshot
	ok := d.Log.Prev == d.SnapIndex && d.LastLogIndex == d.Log.Prev+uint64(len(d.Log.Entries))
	return m, d, ok
}

// ---------------------------------------------------------------------------------------------------

type tick struct {
	Upd   *raft.VLeaderUpd `json:"upd,omitempty"`
	Fault int              `json:"fault"`
}

type run struct {
	rng    *rand.Rand
	d      *harness.Driver
	st     *nodesim.Stats
	seed   int64
	w      *nodesim.World
	ledger map[uint64]raft.VEntry // every entry the leader ever held, by index
	hb     time.Duration
	log    []interface{}
	stop   bool
	// share (percent) of the runs that go on into the pipeline, and a forced way of ending it (debugging)
	pipeShare int
	pipeEnd   string
}

func (r *run) fail(kind, note string, prop interface{}, extra map[string]interface{}) {
	m := map[string]interface{}{"engine": "probelive", "seed": r.seed, "kind": kind, "note": note, "property_failed": prop,
		"history": r.log}
	for k, v := range extra {
		m[k] = v
	}
	r.st.Fail(m)
	r.stop = true
}

func (r *run) sync() raft.VNode {
	d := r.w.Node.Digest()
	for _, e := range d.Log.Entries {
		r.ledger[e.Index] = e
	}
	return d
}

func (r *run) step(op nodesim.Op) bool {
	ok := r.w.Step(op)
	r.sync()
	if len(r.st.Disagreements) > 0 {
		r.stop = true
		return false
	}
	return ok
}

func (r *run) isLeader() bool {
	d := r.w.Node.Digest()
	return d.Role == "leader" && d.Closed == "" && r.w.Node.Panic == ""
}

// leaderUp brings node 1 to leadership of {1,2,3}.
func (r *run) leaderUp() bool {
	w := r.w
	cfg := raft.VConfig{Nodes: []raft.VCNode{}}
	for _, id := range []uint64{1, 2, 3} {
		cfg.Nodes = append(cfg.Nodes, raft.VCNode{ID: id, Addr: nodesim.AddrOf(id), Voter: id != 3 || r.rng.Intn(2) == 0})
	}
	if !r.step(nodesim.Op{Kind: "changeConfig", Task: w.NextTask(), Config: &cfg}) {
		return false
	}
	return r.elect()
}

func (r *run) elect() bool {
	d := r.w.Node.Digest()
	if d.Role == "candidate" {
		if !r.step(nodesim.Op{Kind: "voteResult", Src: 2, Term: d.Term, Result: 1}) {
			return false
		}
	}
	return r.isLeader()
}

func (r *run) payload() string {
	if r.rng.Intn(3) == 0 {
		b := make([]byte, 120+r.rng.Intn(200))
		for i := range b {
			b[i] = "abcdefghijklmnopqrstuvwxyz"[r.rng.Intn(26)]
		}
		return fmt.Sprintf("B%d-%s", r.rng.Intn(1000000), b)
	}
	return r.w.Payload()
}

func (r *run) grow(batches int) bool {
	w := r.w
	for i := 0; i < batches; i++ {
		op := nodesim.Op{Kind: "newEntries"}
		for k := 0; k < 1+r.rng.Intn(4); k++ {
			op.Batch = append(op.Batch, raft.VNewEntry{Typ: 2, Data: r.payload(), Task: w.NextTask()})
		}
		if !r.step(op) {
			return false
		}
	}
	return true
}

// ack: both followers of the leader's own bookkeeping acknowledge up to idx (lets the leader commit and compact).
func (r *run) ack(idx uint64, ids ...uint64) bool {
	if !r.isLeader() {
		return false
	}
	var us []raft.VReplUpdate
	for _, id := range ids {
		u := raft.VReplUpdate{ID: id, Kind: "matchIndex", Val: idx}
		if r.w.Node.CanReplUpdate(u) {
			us = append(us, u)
		}
	}
	if len(us) == 0 {
		return true
	}
	return r.step(nodesim.Op{Kind: "replUpdates", Updates: us})
}

func (r *run) snapshot() bool {
	w := r.w
	return r.step(nodesim.Op{Kind: "takeSnapshot", Task: w.NextTask()}) && r.step(nodesim.Op{Kind: "snapRun"}) && r.step(nodesim.Op{Kind: "snapTaken"})
}

// reelect: another node led for a while in a higher term (its entries reach us), then we win the next election.
func (r *run) reelect() bool {
	d := r.w.Node.Digest()
	t := d.Term + 2 + uint64(r.rng.Intn(3)) // leaves a term no entry of ours carries (another node's history)
	q := &raft.VAppendReq{Term: t, Src: 2, PrevLogIndex: d.LastLogIndex, PrevLogTerm: d.LastLogTerm, LdrCommitIndex: d.CommitIndex, Entries: []raft.VEntry{}}
	for k := 0; k < r.rng.Intn(3); k++ {
		q.Entries = append(q.Entries, raft.VEntry{Index: d.LastLogIndex + uint64(k) + 1, Term: t, Typ: 2, Data: r.payload()})
	}
	if !r.step(nodesim.Op{Kind: "append", Append: q, Adv: true}) {
		return false
	}
	if r.w.Node.Digest().Role != "follower" {
		return false
	}
	if !r.step(nodesim.Op{Kind: "timeout"}) {
		return false
	}
	return r.elect()
}

func (r *run) buildLeader() bool {
	if !r.leaderUp() {
		return false
	}
	phases := 1 + r.rng.Intn(4)
	for ph := 0; ph < phases; ph++ {
		if !r.grow(1 + r.rng.Intn(4)) {
			return false
		}
		if r.rng.Intn(3) > 0 {
			if !r.ack(r.w.Node.Digest().LastLogIndex, 2, 3) {
				return false
			}
		}
		if ph < phases-1 {
			if !r.reelect() {
				return false
			}
		}
	}
	// now and then a long log: more than maxAppendEntries (64) entries ahead of a follower
	if r.rng.Intn(12) == 0 {
		if !r.grow(28 + r.rng.Intn(12)) {
			return false
		}
	}
	// snapshots; compaction needs both followers' acknowledgements
	switch r.rng.Intn(10) {
	case 0, 1, 2:
	default:
		n := 1 + r.rng.Intn(2)
		for i := 0; i < n; i++ {
			d := r.w.Node.Digest()
			ids := []uint64{2, 3}
			if r.rng.Intn(4) == 0 {
				ids = []uint64{2} // node 3 lags: the leader does not compact
			}
			if !r.ack(d.LastLogIndex-uint64(r.rng.Intn(2)), ids...) || !r.snapshot() {
				return false
			}
			if r.rng.Intn(3) > 0 && !r.grow(1+r.rng.Intn(3)) {
				return false
			}
		}
	}
	return r.isLeader()
}

// unusedTerms: terms ≤ max that no entry of the leader's log carries (what another leader could have used)
func (r *run) unusedTerms(max uint64) []uint64 {
	used := map[uint64]bool{}
	for _, e := range r.ledger {
		used[e.Term] = true
	}
	var out []uint64
	for t := uint64(1); t <= max; t++ {
		if !used[t] {
			out = append(out, t)
		}
	}
	return out
}

// ("ahead of the leader on the leader's own history" is not a shape: the leader's log ends with an entry of its
// own term, so whoever holds more is of a higher term — that is staleLeader; longer logs occur as diverge*.)
var shapes = []string{"empty", "shorter", "shorter", "equal", "divergeOld", "divergeOld", "divergeNew", "divergeNew", "staleLeader", "snapshotted", "snapshotted", "farBehind"}

// makeFollower preloads a real node with a log of the chosen shape relative to the leader's (ledger).
func (r *run) makeFollower(id uint64, ld raft.VNode) (*follower, bool) {
	f, err := openFollower(id, nodesim.Options(r.rng))
	if err != nil {
		r.fail("setup", "follower: "+err.Error(), nil, nil)
		return nil, false
	}
	L := ld.LastLogIndex
	shape := shapes[r.rng.Intn(len(shapes))]
	ft := ld.Term
	if r.rng.Intn(3) == 0 && ld.Term > 1 {
		ft = 1 + uint64(r.rng.Intn(int(ld.Term)))
	}
	var start uint64 // follower snapshot index
	var entries []raft.VEntry
	prefix := func(from, to uint64) bool {
		for i := from; i <= to; i++ {
			e, ok := r.ledger[i]
			if !ok {
				return false
			}
			entries = append(entries, e)
		}
		return true
	}
	suffix := func(p uint64, older bool) bool {
		// entries after p in a term the leader never used at these indexes
		un := r.unusedTerms(ld.Term)
		var cands []uint64
		pt := uint64(0)
		if e, ok := r.ledger[p]; ok {
			pt = e.Term
		}
		nt := ld.Term
		if e, ok := r.ledger[p+1]; ok {
			nt = e.Term
		}
		for _, t := range un {
			if t < pt {
				continue
			}
			if older && t < nt || !older && t > nt {
				cands = append(cands, t)
			}
		}
		if len(cands) == 0 {
			for _, t := range un {
				if t >= pt {
					cands = append(cands, t)
				}
			}
		}
		if len(cands) == 0 {
			return false
		}
		t := cands[r.rng.Intn(len(cands))]
		n := 1 + r.rng.Intn(6)
		switch r.rng.Intn(5) {
		case 0:
			n += int(L - p) // longer than the leader's log
		case 1:
			n += r.rng.Intn(20)
		}
		for k := 0; k < n; k++ {
			entries = append(entries, raft.VEntry{Index: p + uint64(k) + 1, Term: t, Typ: 2, Data: fmt.Sprintf("x%d-%d", t, k)})
			if r.rng.Intn(4) == 0 {
				// a later term of that other history
				for _, u := range un {
					if u > t {
						t = u
						break
					}
				}
			}
		}
		return true
	}
	switch shape {
	case "empty":
	case "shorter":
		if L < 2 || !prefix(1, 1+uint64(r.rng.Intn(int(L-1)))) {
			shape = "empty"
			entries = nil
		}
	case "farBehind":
		// behind the leader's compaction point
		p := ld.Log.Prev
		if p == 0 || !prefix(1, uint64(r.rng.Intn(int(p)+1))) {
			shape = "empty"
			entries = nil
		}
	case "equal":
		if !prefix(1, L) {
			shape, entries = "empty", nil
		}
	case "divergeOld", "divergeNew":
		// the histories can part only below the first entry of the leader's current term
		lim := uint64(0)
		for i := uint64(1); i <= L; i++ {
			if e, ok := r.ledger[i]; ok && e.Term < ld.Term {
				lim = i
			}
		}
		p := uint64(r.rng.Intn(int(lim) + 1))
		if r.rng.Intn(2) == 0 {
			p = lim - uint64(r.rng.Intn(int(lim)+1))/3
		}
		if !prefix(1, p) || !suffix(p, shape == "divergeOld") {
			entries = nil
			shape = "shorter"
			if L < 2 || !prefix(1, 1+uint64(r.rng.Intn(int(L-1)))) {
				shape, entries = "empty", nil
			}
		}
	case "staleLeader":
		ft = ld.Term + 1 + uint64(r.rng.Intn(2))
		if L >= 1 {
			_ = prefix(1, uint64(r.rng.Intn(int(L)+1)))
		}
	case "snapshotted":
		// an older snapshot of the leader's history was installed on the follower
		if L < 2 {
			shape = "empty"
			break
		}
		start = 1 + uint64(r.rng.Intn(int(L-1)))
		if ld.SnapIndex > 0 && r.rng.Intn(2) == 0 {
			start = ld.SnapIndex
		}
		se, ok := r.ledger[start]
		if !ok {
			shape, start = "empty", 0
			break
		}
		f.n.Install(raft.VInstallReq{Term: ft, Src: 3, LastIndex: start, LastTerm: se.Term, LastConfig: ld.Configs.Committed, Data: []string{"snap"}})
		if rp := f.n.Digest().RpcReply; rp == nil || rp.Result != 1 || f.n.Panic != "" {
			r.fail("setup", "follower did not take the preload snapshot", nil, nil)
			f.destroy()
			return nil, false
		}
		to := start + uint64(r.rng.Intn(int(L-start)+1))
		if !prefix(start+1, to) {
			entries = nil
		} else if r.rng.Intn(3) == 0 {
			_ = suffix(to, r.rng.Intn(2) == 0)
		}
	}
	for _, e := range entries {
		if e.Term > ft {
			ft = e.Term
		}
	}
	if shape != "staleLeader" && ft > ld.Term {
		ft = ld.Term
	}
	if len(entries) > 0 || ft > 0 {
		var pt uint64
		if start > 0 {
			pt = r.ledger[start].Term
		}
		// a follower's commit index never covers an entry the leader's history does not hold (state-machine
		// safety): it stays within the prefix on which the preloaded log agrees with the leader's ledger
		agree := 0
		for _, e := range entries {
			if le, ok := r.ledger[e.Index]; !ok || !entryEq(le, e) {
				break
			}
			agree++
		}
		commit := uint64(0)
		if r.rng.Intn(3) == 0 && agree > 0 {
			commit = start + uint64(r.rng.Intn(agree+1))
		}
		f.n.Append(raft.VAppendReq{Term: ft, Src: 3, PrevLogIndex: start, PrevLogTerm: pt, LdrCommitIndex: commit, Entries: entries})
		if rp := f.n.Digest().RpcReply; rp == nil || rp.Result != 1 || f.n.Panic != "" {
			r.fail("setup", fmt.Sprintf("follower did not take the preload (%s): %+v", shape, rp), nil, nil)
			f.destroy()
			return nil, false
		}
	}
	f.shape = shape
	return f, true
}

// ---------------------------------------------------------------------------------------------------
// one run of the real replicate()

// samples for the report: per category the case of the smallest sequence seed (independent of scheduling)
var (
	sampleMu   sync.Mutex
	sampleBest = map[string]int64{}
	sampleOf   = map[string]interface{}{}
)

func sampleCat(installs, mism, fault, postProbe int) string {
	switch {
	case fault != 0:
		return fmt.Sprintf("fault-%d", fault)
	case postProbe > 0:
		return "install-snapshot-fallback-after-probe"
	case installs > 0:
		return "install-snapshot-fallback-in-probe"
	}
	return "probe-with-several-mismatches"
}

func putSample(cat string, seed int64, s map[string]interface{}) {
	sampleMu.Lock()
	defer sampleMu.Unlock()
	if b, ok := sampleBest[cat]; !ok || seed < b {
		s["category"] = cat
		sampleBest[cat], sampleOf[cat] = seed, s
	}
}

func bucket(n int) string {
	switch {
	case n == 0:
		return "0"
	case n == 1:
		return "1"
	case n <= 3:
		return "2-3"
	case n <= 8:
		return "4-8"
	case n <= 63:
		return "9-63"
	case n == 64:
		return "64"
	}
	return ">64"
}

func exchCanon(x raft.VProbeExchange) map[string]interface{} {
	return map[string]interface{}{"kind": x.Req.Kind, "pipelined": x.Req.Pipelined, "st": x.Req.St, "append": x.Req.Append,
		"install": x.Req.Install, "resp": x.Resp}
}

func entryEq(a, b raft.VEntry) bool {
	return harness.Equal(harness.ToCanon(a), harness.ToCanon(b))
}

func (r *run) leaderTerm(ld *raft.VNode, i uint64) (uint64, bool) {
	if i == 0 {
		return 0, true
	}
	if e, ok := r.ledger[i]; ok {
		return e.Term, true
	}
	if i == ld.SnapIndex {
		return ld.SnapTerm, true
	}
	return 0, false
}

// monitors evaluates C17 / C04 / C06 / C09 on the REAL trace only (no model involved).
// p0 >= 0: the run went on into the pipeline at exchange p0 (from there on pipeMonitors judges matchIndex by the notes).
func (r *run) monitors(st0 raft.VReplState, ld raft.VNode, rep raft.VProbeReport, ticks []tick, fd raft.VNode, modelSpin bool, p0 int) (string, string) {
	ex := rep.Exchanges
	stFinal := rep.Pipeline == nil || rep.Pipeline.StValid // the final state was read
	stAfter := func(k int) (raft.VReplState, bool) {       // replication state observed after exchange k was handled
		if k+1 < len(ex) {
			return ex[k+1].Req.St, true
		}
		if rep.Unanswered != nil {
			return rep.Unanswered.St, true
		}
		if !strings.Contains(rep.End, "stuck") && rep.End != "watchdog" && stFinal {
			return rep.St, true
		}
		return raft.VReplState{}, false
	}
	// ---- C04: what the requests carry
	for k, x := range ex {
		q := x.Req
		if q.Kind == "garbage" || q.Bad != "" {
			return "C04", fmt.Sprintf("exchange %d: the loop wrote a malformed request (%s %s)", k, q.Kind, q.Bad)
		}
		if a := q.Append; a != nil {
			want := q.St.NextIndex // nextIndex is advanced past the entries only after they were written
			if a.PrevLogIndex+1 != want {
				return "C04", fmt.Sprintf("exchange %d: request covers (%d, %d] but nextIndex is %d", k, a.PrevLogIndex, a.PrevLogIndex+uint64(len(a.Entries)), want)
			}
			if t, ok := r.leaderTerm(&ld, a.PrevLogIndex); !ok || t != a.PrevLogTerm {
				return "C04", fmt.Sprintf("exchange %d: prevLogTerm %d, the leader's term at %d is %d (known %v)", k, a.PrevLogTerm, a.PrevLogIndex, t, ok)
			}
			if !q.Pipelined && len(a.Entries) != 0 {
				return "C04", fmt.Sprintf("exchange %d: a probe request carries %d entries", k, len(a.Entries))
			}
			if len(a.Entries) > 64 {
				return "C04", fmt.Sprintf("exchange %d: %d entries in one request", k, len(a.Entries))
			}
			for j, e := range a.Entries {
				le, ok := r.ledger[a.PrevLogIndex+uint64(j)+1]
				if !ok || !entryEq(le, e) {
					return "C04", fmt.Sprintf("exchange %d: entry %d of the request differs from the leader's log", k, a.PrevLogIndex+uint64(j)+1)
				}
			}
			if a.Term != ld.Term || a.Src != ld.NID {
				return "C04", fmt.Sprintf("exchange %d: request from (%d, term %d), leader is (%d, term %d)", k, a.Src, a.Term, ld.NID, ld.Term)
			}
		}
		// ---- C09: an install request carries the newest snapshot
		if in := q.Install; in != nil {
			var sf *raft.VSnapFile
			for i := range ld.SnapsDisk {
				if ld.SnapsDisk[i].Index == ld.SnapIndex {
					sf = &ld.SnapsDisk[i]
				}
			}
			if sf == nil || in.LastIndex != ld.SnapIndex || in.LastTerm != ld.SnapTerm ||
				!harness.Equal(harness.ToCanon(in.Data), harness.ToCanon(sf.Data)) || !harness.Equal(harness.ToCanon(in.LastConfig), harness.ToCanon(sf.Config)) {
				return "C09", fmt.Sprintf("exchange %d: install request (%d, term %d) is not the leader's newest snapshot (%d, term %d)", k, in.LastIndex, in.LastTerm, ld.SnapIndex, ld.SnapTerm)
			}
		}
	}
	// ---- C06: matchIndex rises only on success, to the acknowledged index
	prevMatch := st0.MatchIndex
	for k := -1; k < len(ex) && (p0 < 0 || k < p0); k++ {
		var cur raft.VReplState
		var ok bool
		if k == -1 {
			if len(ex) == 0 {
				break
			}
			cur, ok = ex[0].Req.St, true
		} else {
			cur, ok = stAfter(k)
		}
		if !ok {
			break
		}
		if cur.MatchIndex < prevMatch {
			return "C06", fmt.Sprintf("matchIndex fell %d -> %d around exchange %d", prevMatch, cur.MatchIndex, k)
		}
		if cur.MatchIndex > prevMatch {
			good := false
			if k >= 0 && ex[k].Resp.Result == 1 {
				if a := ex[k].Req.Append; a != nil && ex[k].Resp.Kind == "append" && cur.MatchIndex == a.PrevLogIndex+uint64(len(a.Entries)) {
					good = true
				}
				if in := ex[k].Req.Install; in != nil && ex[k].Resp.Kind == "install" && cur.MatchIndex == in.LastIndex {
					good = true
				}
			}
			if !good {
				return "C06", fmt.Sprintf("matchIndex rose %d -> %d after exchange %d without a success for that index", prevMatch, cur.MatchIndex, k)
			}
		}
		prevMatch = cur.MatchIndex
	}
	for _, n := range rep.Notes {
		if n.Kind == "matchIndex" && n.Val > rep.St.MatchIndex && !strings.Contains(rep.End, "stuck") && rep.End != "watchdog" && stFinal {
			return "C06", fmt.Sprintf("the leader was told matchIndex %d, the replication holds %d", n.Val, rep.St.MatchIndex)
		}
	}
	// ---- C17: progress of the probe
	faulty := false
	for _, t := range ticks {
		if t.Fault != 0 {
			faulty = true
		}
	}
	segStart, segLen := st0.NextIndex, 0
	for k, x := range ex {
		if x.Req.Kind != "append" || x.Req.Pipelined {
			segLen = 0
			if after, ok := stAfter(k); ok {
				segStart = after.NextIndex
			}
			continue
		}
		if segLen == 0 {
			segStart = x.Req.St.NextIndex
		}
		segLen++
		if !faulty && uint64(segLen) > segStart+2 {
			return "C17", fmt.Sprintf("the probe that started at nextIndex %d is still running after %d exchanges", segStart, segLen)
		}
		if (x.Resp.Result == 7 || x.Resp.Result == 8) && x.Resp.Kind == "append" && x.Resp.LastLogIndex >= x.Req.St.MatchIndex {
			after, ok := stAfter(k)
			if ok && !(after.NextIndex < x.Req.St.NextIndex && after.NextIndex <= x.Resp.LastLogIndex+1) {
				return "C17", fmt.Sprintf("exchange %d: the follower answered mismatch (result %d, last index %d) and nextIndex went %d -> %d: the probe does not progress",
					k, x.Resp.Result, x.Resp.LastLogIndex, x.Req.St.NextIndex, after.NextIndex)
			}
		}
	}
	if rep.End == "maxExchanges" || (rep.End == "watchdog" && !modelSpin) || strings.Contains(rep.End, "stuck") {
		return "C17", fmt.Sprintf("replicate() did not reach its pipeline: stopped by the harness (%s) after %d exchanges, nextIndex started at %d", rep.End, len(ex), st0.NextIndex)
	}
	// ---- C04: at the end of a successful probe the follower's log agrees with the leader's up to matchIndex
	if rep.End == "pipelined" && !faulty && stFinal {
		m := rep.St.MatchIndex
		if fd.LastLogIndex < m {
			return "C04", fmt.Sprintf("matchIndex %d but the follower's last index is %d", m, fd.LastLogIndex)
		}
		for _, e := range fd.Log.Entries {
			if e.Index > m {
				break
			}
			if le, ok := r.ledger[e.Index]; !ok || !entryEq(le, e) {
				return "C04", fmt.Sprintf("matchIndex %d but the follower's entry %d differs from the leader's", m, e.Index)
			}
		}
	}
	return "", ""
}

func (r *run) oneRun(vr *raft.VerifRepl, f *follower, runNo int) bool {
	st0 := vr.State()
	if st0.MatchIndex >= st0.NextIndex {
		return false // runLoop asserts this before calling replicate
	}
	f0, _, ok := f.model()
	if !ok {
		r.st.Hist["skip:follower-log-not-at-snapshot"]++
		return false
	}
	ld0 := r.sync()
	var pending *raft.VLeaderUpd // a leader update an earlier run left in the replication's channel
	if u, ok := vr.PendingLeaderUpdate(); ok {
		pending = &u
		r.st.Hist["run:starts-with-pending-update"]++
	}
	ticks := []tick{}
	faults := 0
	installs, mism := 0, 0
	maxEx := int(st0.NextIndex) + 8
	cfg := raft.VProbeCfg{HbTimeout: r.hb, MaxExchanges: maxEx, Watchdog: 2 * time.Second}
	var px *pipePlan
	if r.pipeShare > 0 && r.rng.Intn(100) < r.pipeShare {
		px = r.planPipeline(r.pipeEnd)
		cfg.PipelineEnd, cfg.PipelineExtra = px.cfgEnd(), px.Extra
		// the pipelined requests, the probe after a mismatch (the leader grows meanwhile), the next pipeline
		cfg.MaxExchanges = 2*maxEx + px.Extra + 24
	}
	setupBroken := false
	rep := vr.RunProbe(cfg, func(k int, q raft.VProbeReq) raft.VProbeResp {
		t := tick{}
		if q.Pipelined && px != nil {
			if q.PipeSeq == 1 {
				ldp := r.sync()
				px.ldPipe, px.nticks = &ldp, len(ticks)+1
			}
			if !setupBroken && !r.stimulate(px, vr, q, &t) {
				setupBroken = true
			}
			if px.Slow == q.PipeSeq && q.St.Voter {
				time.Sleep(r.hb + r.hb/4) // the idle timer fires twice meanwhile
			}
		}
		// the leader moves on while the loop waits (entries, commits) and notifies as notifyFlr does
		if !q.Pipelined && r.rng.Intn(6) == 0 && r.isLeader() && !setupBroken {
			switch r.rng.Intn(3) {
			case 0:
				if !r.ack(r.w.Node.Digest().LastLogIndex, 2, 3) {
					setupBroken = true
				}
			default:
				if !r.grow(1) {
					setupBroken = true
				}
			}
			if !setupBroken && r.isLeader() {
				if u, ok := vr.PushLeaderUpdate(r.rng.Intn(3) == 0); ok {
					t.Upd = &u
				}
			}
		}
		// the snapshot being sent ends beyond the view the replication holds: sendInstallSnapReq will wait for the
		// leader's notification — which often arrives while the snapshot travels
		if t.Upd == nil && q.Install != nil && q.Install.LastIndex > q.St.LdrLastIndex && r.rng.Intn(3) > 0 && r.isLeader() && !setupBroken {
			if u, ok := vr.PushLeaderUpdate(r.rng.Intn(3) == 0); ok {
				t.Upd = &u
			}
		}
		// (never together with a leader update: an update that a failed exchange leaves in the channel would be
		// taken by the pipeline writer while the harness ends the run)
		if !q.Pipelined && faults == 0 && t.Upd == nil && (px == nil || px.ldPipe == nil) && r.rng.Intn(40) == 0 {
			t.Fault = 1 + r.rng.Intn(3)
			faults++
		}
		if px != nil && px.ending != nil && px.End == "stale" && q.Append != nil {
			// a follower that has moved on to a higher term rejects everything this leader sends from then on
			t.Fault = faultStale
		}
		if q.Ending && px != nil && q.Append != nil && px.End != "stopHeld" {
			qq := q
			px.ending, px.lied = &qq, true
			switch px.End {
			case "readErr", "readErrPaused":
				t.Fault = faultReadErr
				if px.Feed {
					f.n.Append(*q.Append) // the request arrived, its answer did not
				}
			case "stale":
				t.Fault = faultStale
			case "mismatch":
				t.Fault = faultMismatch
				px.endingLast = f.n.Digest().LastLogIndex
			case "faulty":
				t.Fault = faultWipe
			case "stopDrain":
				if px.Feed {
					px.lied = false // answered as usual, after stopCh was closed
				} else {
					t.Fault = faultNone
				}
			}
		}
		ticks = append(ticks, t)
		kind := q.Kind
		switch t.Fault {
		case 1, faultWipe:
			if err := f.wipe(); err != nil {
				setupBroken = true
			}
		case 2:
			return raft.VProbeResp{Kind: kind, Term: 0, Result: 11}
		case 3, faultReadErr:
			return raft.VProbeResp{Kind: "eof"}
		case faultStale:
			return raft.VProbeResp{Kind: "append", Term: q.Append.Term + 1, Result: 3}
		case faultMismatch:
			res := uint64(7)
			if px.Sev {
				res = 8
			}
			return raft.VProbeResp{Kind: "append", Term: q.Append.Term, Result: res, LastLogIndex: px.endingLast}
		case faultNone:
			return raft.VProbeResp{Kind: "none"}
		}
		switch kind {
		case "append":
			f.n.Append(*q.Append)
			if rp := f.n.Digest().RpcReply; rp != nil && f.n.Panic == "" {
				if (rp.Result == 7 || rp.Result == 8) && (px == nil || px.ldPipe == nil) {
					mism++
				}
				if px != nil && q.PipeSeq == 1 {
					m1, d1, _ := f.model()
					px.f1, px.fd1 = &m1, &d1
				}
				return raft.VProbeResp{Kind: "append", Term: rp.Term, Result: rp.Result, LastLogIndex: rp.LastLogIndex}
			}
		case "install":
			installs++
			f.n.Install(*q.Install)
			if rp := f.n.Digest().RpcReply; rp != nil && f.n.Panic == "" {
				return raft.VProbeResp{Kind: "install", Term: rp.Term, Result: rp.Result}
			}
		}
		setupBroken = true
		return raft.VProbeResp{Kind: "eof"}
	})
	r.st.Steps++
	if r.stop {
		return false
	}
	if setupBroken || f.n.Panic != "" {
		r.fail("follower", fmt.Sprintf("the real follower did not answer a request (panic %q)", f.n.Panic), nil, map[string]interface{}{"report": rep})
		return false
	}
	ld := r.sync()
	f1, fd, _ := f.model()
	// a run that went on into the pipeline: the model describes it up to its first pipelined request
	full, fullLd, fullFd, fullTicks := rep, ld, fd, ticks
	p0 := -1
	if px != nil {
		for k, x := range rep.Exchanges {
			if x.Req.Pipelined {
				p0 = k
				break
			}
		}
		if p0 < 0 || px.ldPipe == nil || px.f1 == nil {
			r.st.Hist["pipeline:not-reached"]++
			p0 = -1
		} else {
			rep = truncated(full, p0)
			ld, f1, fd, ticks = *px.ldPipe, *px.f1, *px.fd1, ticks[:px.nticks]
		}
	}

	// ---- the model's run
	ans, err := r.d.Ask(map[string]interface{}{"engine": "repl", "what": "probe", "id": r.st.Steps, "st": st0, "leader": ld,
		"flr": f0, "ticks": ticks, "fuel": maxEx + 4, "pending": pending})
	if err != nil {
		r.fail("driver", fmt.Sprint(err), nil, nil)
		return false
	}
	delete(ans, "id")
	mending, _ := ans["ending"].(string)

	// ---- real run in the model's shape
	ending := rep.End
	rerr, rpanic := rep.Err, rep.Panic
	switch rep.End {
	case "pipelined":
		rerr = "" // stopped by the harness: whatever replicate returned then is the harness' doing
	case "returned":
		ending = "failed"
	case "watchdog":
		ending = "spin"
		rerr = ""
	}
	trace := []interface{}{}
	for _, x := range rep.Exchanges {
		trace = append(trace, exchCanon(x))
	}
	realSt := rep.St
	real := map[string]interface{}{"trace": trace, "st": realSt, "flr": f1, "err": rerr, "panic": rpanic, "notes": rep.Notes, "ending": ending}
	rc := harness.ToCanon(real).(map[string]interface{})
	mc := harness.Canon(ans).(map[string]interface{})
	if ending == "pipelined" && mending == "pipelined" && p0 < 0 {
		// the pipeline writer keeps writing while the harness stops the run: nextIndex may be ahead of the
		// first pipelined request, never behind it
		ms, _ := mc["st"].(map[string]interface{})
		rs, _ := rc["st"].(map[string]interface{})
		if ms != nil && rs != nil {
			var mn uint64
			fmt.Sscanf(fmt.Sprint(ms["nextIndex"]), "#%d", &mn)
			if realSt.NextIndex >= mn && realSt.NextIndex <= realSt.LdrLastIndex+1 {
				rs["nextIndex"] = ms["nextIndex"]
			}
		}
	}

	// ---- statistics
	h := r.st.Hist
	postProbe := 0
	h["run:end:"+ending+":"+rerr+rpanic]++
	h["run:shape:"+f.shape]++
	if st0.ViewPrev > 0 {
		h["run:leader-compacted:"+f.shape]++
	}
	if runNo > 0 {
		h["run:reentry"]++
	}
	for k, x := range rep.Exchanges {
		ph := "probe"
		if x.Req.Pipelined {
			ph = "pipeline"
		}
		h[fmt.Sprintf("exch:%s:%s:%s:%d", ph, x.Req.Kind, x.Resp.Kind, x.Resp.Result)]++
		if x.Req.Kind == "install" {
			// which of the two fall-backs of replicate() sent it: ErrNotFound from writeAppendEntriesReq inside the
			// probe loop, or "nextIndex is not in the log" after the probe loop ended (matchIndex+1 == nextIndex
			// then; the rare in-probe case with matchIndex+1 == nextIndex is counted there too)
			_ = k
			if x.Req.Install != nil && x.Req.Install.LastIndex > x.Req.St.LdrLastIndex {
				// sendInstallSnapReq has to wait for the leader update that tells it about the snapshot's index
				h["install:snapshot-beyond-view:waits-for-leader-update"]++
			}
			if x.Req.St.MatchIndex+1 == x.Req.St.NextIndex {
				h["install:after-probe:next-entry-not-in-log"]++
				postProbe++
			} else {
				h["install:in-probe:prev-entry-not-in-log"]++
			}
		}
		if x.Req.Pipelined && x.Req.Append != nil {
			h["pipeline:entries:"+bucket(len(x.Req.Append.Entries))]++
		}
	}
	nupd := 0
	for _, t := range ticks {
		if t.Upd != nil {
			nupd++
		}
		if t.Fault != 0 {
			h[fmt.Sprintf("fault:%d", t.Fault)]++
		}
	}
	if nupd > 0 {
		h["run:with-leader-update"]++
	}
	if installs > 0 {
		h["run:with-install"]++
	}
	h["probe:mismatches:"+bucket(mism)]++
	h["probe:exchanges:"+bucket(len(rep.Exchanges))]++
	if rep.Extra > 0 {
		h["timing:requests-written-after-the-run-ended"]++
	}
	pe := -1
	if n := len(rep.Exchanges); n > 0 && rep.Exchanges[n-1].Req.Pipelined && rep.Exchanges[n-1].Req.Append != nil {
		pe = len(rep.Exchanges[n-1].Req.Append.Entries)
	}
	fk := 0
	for _, t := range ticks {
		if t.Fault != 0 {
			fk = t.Fault
		}
	}
	key := fmt.Sprintf("probe|%s|%s|%s%s|mis%s|inst%d|upd%v|pe%s|f%d|re%v|m0%v", f.shape, ending, rerr, rpanic, bucket(mism), installs, nupd > 0,
		bucket(pe), fk, runNo > 0, st0.MatchIndex > 0)
	if (mism > 0 || installs > 0 || fk != 0 || ending != "pipelined") && !r.st.Distinct[key] {
		r.st.Distinct[key] = true
		if installs > 0 || mism > 1 || fk != 0 {
			var sum []string
			for _, x := range rep.Exchanges {
				switch {
				case x.Req.Append != nil:
					sum = append(sum, fmt.Sprintf("append(prev %d/%d, %d entries, pipelined %v) -> result %d last %d", x.Req.Append.PrevLogIndex, x.Req.Append.PrevLogTerm,
						len(x.Req.Append.Entries), x.Req.Pipelined, x.Resp.Result, x.Resp.LastLogIndex))
				case x.Req.Install != nil:
					sum = append(sum, fmt.Sprintf("install(%d/%d) -> result %d", x.Req.Install.LastIndex, x.Req.Install.LastTerm, x.Resp.Result))
				}
			}
			putSample(sampleCat(installs, mism, fk, postProbe), r.seed, map[string]interface{}{"seed": r.seed, "follower_shape": f.shape, "st0": st0, "exchanges": sum,
				"end": ending, "st": rep.St, "leader_log": fmt.Sprintf("(%d, %d] snap %d term %d", ld.Log.Prev, ld.LastLogIndex, ld.SnapIndex, ld.Term)})
		}
	}
	hist := map[string]interface{}{"run": runNo, "shape": f.shape, "st0": st0, "end": rep.End, "err": rep.Err, "exchanges": len(rep.Exchanges), "st": rep.St}
	if p0 >= 0 {
		hist["pipeline"] = map[string]interface{}{"plan": px.End, "extra": px.Extra, "report": full.Pipeline, "end": full.End, "err": full.Err, "exchanges": len(full.Exchanges), "st": full.St}
		r.pipeStats(px, full, p0)
	}
	r.log = append(r.log, hist)

	// ---- monitors on the real trace
	r.st.MonitorChecks++
	prop, note := r.monitors(st0, ld, rep, ticks, fd, mending == "spin", -1)
	casefile := map[string]interface{}{"st0": st0, "follower0": f0, "follower_shape": f.shape, "ticks": ticks, "report": rep,
		"leader": map[string]interface{}{"term": ld.Term, "log_prev": ld.Log.Prev, "last": ld.LastLogIndex, "snapIndex": ld.SnapIndex, "snapTerm": ld.SnapTerm, "commit": ld.CommitIndex, "last0": ld0.LastLogIndex},
		"run":    runNo}
	if prop != "" {
		r.fail("monitor", note, prop, map[string]interface{}{"case": casefile, "real": rc, "model": mc})
		return false
	}
	if !harness.Equal(rc, mc) {
		r.fail("correspondence", "the real replicate() run differs from the model's", nil,
			map[string]interface{}{"case": casefile, "real": rc, "model": map[string]interface{}{"first": mc, "diff": harness.Diff(rc, mc)}})
		return false
	}
	if p0 >= 0 {
		// ---- the pipeline part: monitors on the real trace (the whole run once more through the request monitors)
		r.st.MonitorChecks++
		casefile["report"], casefile["ticks"] = full, fullTicks
		casefile["pipeline"] = map[string]interface{}{"plan": px.End, "extra": px.Extra, "first_pipelined_exchange": p0, "stimuli": px.stims}
		prop, note := r.pipeMonitors(px, full, p0, fullLd)
		if prop == "" && full.Pipeline.Returned && len(full.Pipeline.Left) == 0 {
			prop, note = r.monitors(st0, fullLd, full, fullTicks, fullFd, false, p0)
		}
		if prop != "" {
			r.fail("monitor", note, prop, map[string]interface{}{"case": casefile})
			return false
		}
		if !full.Pipeline.StValid {
			// replicate returned without waiting for its writer goroutine (drainRespsTimeout closed the connection): the
			// harness has no ordered way to read the replication any more - the sequence ends here
			r.st.Hist["pipeline:state-not-read:return-not-ordered-after-writer"]++
			return false
		}
		return full.End == "pipelined" || full.Err == "error"
	}
	return rep.End == "pipelined" || rep.Err == "error" || rep.Err == "remote"
}

func (r *run) sequence() {
	if !r.buildLeader() || r.stop {
		return
	}
	fid := uint64(2 + r.rng.Intn(2))
	ld := r.sync()
	var fnode raft.VCNode
	for _, n := range ld.Configs.Latest.Nodes {
		if n.ID == fid {
			fnode = n
		}
	}
	if fnode.ID == 0 {
		return
	}
	f, ok := r.makeFollower(fid, ld)
	if !ok {
		return
	}
	defer f.destroy()
	vr := r.w.Node.NewRepl(fnode)
	runs := 1 + r.rng.Intn(3)
	for i := 0; i < runs && !r.stop; i++ {
		if i > 0 || r.rng.Intn(3) == 0 {
			// between two calls of replicate() (runLoop) — or between the creation of the replication and its
			// first connection: the leader moves on, the follower may lose its storage
			if !r.isLeader() {
				return
			}
			prevBefore := r.w.Node.Digest().Log.Prev
			switch r.rng.Intn(7) {
			case 0:
				d := r.w.Node.Digest()
				if !r.ack(d.LastLogIndex, 2, 3) || !r.snapshot() {
					return
				}
			case 1, 6:
				// node 3 lags: the commit index moves, a snapshot is taken, the log is (mostly) not compacted;
				// the view this replication holds may end below the new snapshot
				if !r.grow(1+r.rng.Intn(2)) || !r.ack(r.w.Node.Digest().LastLogIndex, 2) || !r.snapshot() {
					return
				}
			case 2, 3:
				if !r.grow(1 + r.rng.Intn(3)) {
					return
				}
			}
			if !r.isLeader() {
				return
			}
			compacted := r.w.Node.Digest().Log.Prev != prevBefore
			switch {
			case compacted || vr.ViewStale():
				// the leader's own bookkeeping (not this detached replication) decided the compaction: the view
				// must be renewed before it is read again, and an older waiting update must not overwrite it
				vr.DropPendingLeaderUpdate()
				if out := vr.LeaderUpdate(r.rng.Intn(3) == 0); out.Err != "" || out.Panic != "" {
					return
				}
			case r.rng.Intn(3) == 0:
				if out := vr.LeaderUpdate(r.rng.Intn(3) == 0); out.Err != "" || out.Panic != "" {
					return
				}
			case r.rng.Intn(2) == 0:
				// notifyFlr while the replication is between two connections: the update waits in the channel
				_, _ = vr.PushLeaderUpdate(r.rng.Intn(3) == 0)
			}
			if r.rng.Intn(6) == 0 {
				if err := f.wipe(); err != nil {
					return
				}
				f.shape = "wiped"
			}
		}
		if !r.oneRun(vr, f, i) {
			return
		}
	}
}

func main() {
	driver := flag.String("driver", "/verif/lean/.lake/build/bin/driver", "model driver")
	seed := flag.Int64("seed", 1, "seed")
	tier := flag.String("tier", "quick", "quick|thorough")
	report := flag.String("report", "", "report file")
	replay := flag.String("replay", "", "replay file")
	workers := flag.Int("workers", 8, "parallel workers (child processes)")
	seqs := flag.Int("seqs", 0, "sequences")
	replayDir := flag.String("replaydir", "/verif/replays", "where failing cases are written")
	hbms := flag.Int("hb", 50, "heartbeat timeout of the replication under test, milliseconds")
	props := flag.String("props", "", "ignored (all monitors always run)")
	pipe := flag.Int("pipe", 60, "share (percent) of the runs that go on into the pipelining phase of replicate()")
	pipeEnd := flag.String("pipeend", "", "force the way the pipeline is ended (stop|stopDrain|stopHeld|readErr|readErrPaused|stale|mismatch|faulty|leaderUpdate|heartbeat)")
	isolate := flag.Bool("isolate", false, "one child process per sequence (slow; a dying sequence is found by re-running its batch anyway)")
	batch := flag.Int("batch", 0, "sequences per child process (0: nseq/(4*workers))")
	child := flag.Bool("child", false, "internal: run sequences -from..-to in this process and write the statistics to -out")
	from := flag.Int("from", 0, "internal")
	to := flag.Int("to", 0, "internal")
	out := flag.String("out", "", "internal")
	flag.Parse()
	_ = props
	nseq := 250
	if *tier == "thorough" {
		nseq = 5000
	}
	if *seqs > 0 {
		nseq = *seqs
	}
	nodesim.InstallPointFn()
	start := time.Now()
	one := func(d *harness.Driver, total *nodesim.Stats, sseed int64) {
		// own statistics per sequence: what a sequence does never depends on the sequences before it (replay)
		st := nodesim.NewStats()
		defer func() { total.Merge(st) }()
		rng := rand.New(rand.NewSource(sseed))
		w, err := nodesim.NewWorld(rng, d, st)
		if err != nil {
			st.Fail(map[string]interface{}{"note": "setup: " + err.Error(), "seed": sseed})
			return
		}
		defer w.Destroy()
		w.Seed = sseed
		r := &run{rng: rng, d: d, st: st, seed: sseed, w: w, ledger: map[uint64]raft.VEntry{}, hb: time.Duration(*hbms) * time.Millisecond,
			pipeShare: *pipe, pipeEnd: *pipeEnd}
		r.sequence()
	}
	seqSeed := func(i int) int64 { return *seed*7000003 + int64(i) }
	if *replay != "" {
		b, err := ioutil.ReadFile(*replay)
		if err != nil {
			fmt.Fprintln(os.Stderr, err)
			os.Exit(2)
		}
		var rec struct {
			Seed int64 `json:"seed"`
		}
		_ = json.Unmarshal(b, &rec)
		d, err := harness.StartDriver(*driver)
		if err != nil {
			fmt.Fprintln(os.Stderr, err)
			os.Exit(2)
		}
		defer d.Close()
		st := nodesim.NewStats()
		// (a sequence that kills the process does so here too: the panic's stack is the evidence)
		fmt.Fprintf(os.Stderr, "EPISODE -1 %d\n", rec.Seed)
		one(d, st, rec.Seed)
		if len(st.Disagreements) > 0 {
			dg := st.Disagreements[0]
			fmt.Printf("replay of sequence seed %d: property_failed=%v kind=%v\n  %v\n", rec.Seed, dg["property_failed"], dg["kind"], dg["note"])
			if c, ok := dg["case"].(map[string]interface{}); ok {
				if rep, ok := c["report"].(raft.VProbeReport); ok {
					for k, x := range rep.Exchanges {
						switch {
						case x.Req.Append != nil:
							fmt.Printf("  %2d append prev=%d/%d entries=%d pipelined=%v next=%d match=%d -> %s result=%d last=%d\n", k, x.Req.Append.PrevLogIndex, x.Req.Append.PrevLogTerm,
								len(x.Req.Append.Entries), x.Req.Pipelined, x.Req.St.NextIndex, x.Req.St.MatchIndex, x.Resp.Kind, x.Resp.Result, x.Resp.LastLogIndex)
						case x.Req.Install != nil:
							fmt.Printf("  %2d install %d/%d -> result=%d\n", k, x.Req.Install.LastIndex, x.Req.Install.LastTerm, x.Resp.Result)
						}
					}
					fmt.Printf("  end=%s err=%q panic=%q final next=%d match=%d\n", rep.End, rep.Err, rep.Panic, rep.St.NextIndex, rep.St.MatchIndex)
					if rep.Pipeline != nil {
						fmt.Printf("  pipeline: %+v\n", *rep.Pipeline)
					}
				}
			}
			os.Exit(1)
		}
		fmt.Println("replay: no disagreement")
		return
	}
	if *child {
		os.Exit(runChild(*driver, *from, *to, *out, seqSeed, one))
	}
	// the sequences run in child processes: a panic of the pipeline writer goroutine that escapes (its deferred function
	// re-panics runtime errors) kills the process - the child's, and the parent finds the sequence that does it
	par := &parent{driver: *driver, seed: *seed, tier: *tier, hb: *hbms, pipe: *pipe, pipeEnd: *pipeEnd, seqs: nseq, seqSeed: seqSeed,
		total: nodesim.NewStats()}
	bs := *batch
	if bs <= 0 {
		bs = (nseq + 4**workers - 1) / (4 * *workers)
	}
	if *isolate {
		bs = 1
	}
	par.runAll(nseq, bs, *workers)
	total := par.total
	// only this engine's own evaluations count: runs of the real replicate()
	runs := 0
	hist := map[string]int{}
	for k, v := range total.Hist {
		if strings.HasPrefix(k, "run:") || strings.HasPrefix(k, "exch:") || strings.HasPrefix(k, "probe:") || strings.HasPrefix(k, "pipeline:") ||
			strings.HasPrefix(k, "fault:") || strings.HasPrefix(k, "install:") || strings.HasPrefix(k, "skip:") || k == "pipeline-exchanges" {
			hist[k] = v
		}
		if strings.HasPrefix(k, "run:end:") {
			runs += v
		}
	}
	hist["leader-setup-steps-validated-against-node-model"] = total.Steps - runs
	samples := []interface{}{}
	cats := []string{}
	for c := range sampleOf {
		cats = append(cats, c)
	}
	sort.Strings(cats)
	for _, c := range cats {
		samples = append(samples, sampleOf[c])
	}
	keys := []string{}
	for k := range total.Distinct {
		if strings.HasPrefix(k, "probe|") {
			keys = append(keys, k)
		}
	}
	sort.Strings(keys)
	pipeRuns := 0
	for k, v := range hist {
		if strings.HasPrefix(k, "pipeline:applied:") {
			pipeRuns += v
		}
	}
	rep := &harness.Report{Engine: "probelive", Seed: *seed, Tier: *tier, Evaluations: runs, DistinctNontrivial: len(keys),
		Rule:      "one evaluation = one complete run of the real replication.replicate() in a goroutine over a scripted connection (real leader node, real follower node fed the decoded requests) until its first pipelined request is answered or it returns, compared exchange by exchange (request, replication state at the request, response; final state, follower, notes, error class) with Raft.Repl.replicate; a share of the runs goes on INTO the pipeline (writer goroutine + reader loop of the real code; further requests answered by the real follower while the real leader grows / commits / stays idle) and ends it by stop, stop with a response outstanding, a failing Read (also with the writer goroutine held between header and entries), a staleTerm answer, a mismatch answer (back to probing), a follower that lost its storage - judged by monitors on the real execution (C15: returns, goroutines gone, no panic, process alive; C15/C09: conn.rwc==nil iff replicate closed the connection; C06/C17: notes vs acknowledgements, contiguous requests, re-probe after mismatch; C04 on every request); non-trivial = the run had a mismatch answer, an install-snapshot exchange, an injected fault, did not end in the pipeline, or went on into the pipeline; distinct by (follower shape, ending, error, #mismatches bucket, #installs, leader update seen, entries of the first pipelined request bucket, fault, re-entry, matchIndex>0 at start) resp. for the pipeline part by (way of ending, what was applied, end, error, closed, #pipelines, writer held, #requests bucket, #requests with entries bucket)",
		Histogram: hist, Samples: samples, WallS: time.Since(start).Seconds(),
		Extra: map[string]interface{}{"monitor_checks": total.MonitorChecks, "distinct_keys": keys,
			"timing_dependent_runs_with_requests_written_after_the_end": total.Hist["timing:requests-written-after-the-run-ended"],
			"pipeline_episodes": pipeRuns,
			"child_processes":   par.children, "child_processes_died": par.died, "race_reports": par.races, "race_reports_harness_only": par.harnessRaces}}
	for _, dg := range total.Disagreements {
		path := filepath.Join(*replayDir, fmt.Sprintf("probelive-%d-%d.json", *seed, len(rep.Disagreements)))
		_ = os.MkdirAll(*replayDir, 0755)
		b, _ := json.MarshalIndent(dg, "", " ")
		_ = ioutil.WriteFile(path, b, 0644)
		dg["replay"] = path
		rep.Disagreements = append(rep.Disagreements, dg)
	}
	if len(rep.Samples) == 0 {
		rep.Samples = []interface{}{map[string]interface{}{"note": "see histogram"}}
	}
	if *report != "" {
		_ = rep.Write(*report)
	}
	fmt.Printf("probelive: %d runs of replicate() (%d went on into the pipeline, %d pipelined exchanges), %d distinct non-trivial, %d disagreements, %.1fs\n", runs, pipeRuns, hist["pipeline-exchanges"], len(keys), len(rep.Disagreements), rep.WallS)
	for _, dg := range rep.Disagreements {
		fmt.Printf("DISAGREEMENT property_failed=%v kind=%v note=%v replay=%v\n", dg["property_failed"], dg["kind"], dg["note"], dg["replay"])
	}
	if len(rep.Disagreements) > 0 {
		os.Exit(1)
	}
}
