// Crash attribution. A panic in the pipeline writer goroutine of replicate() that escapes its deferred function (recoverErr
// re-panics runtime errors) kills the process. The sequences therefore run in CHILD processes (this binary with -child
// -from i -to j), a batch each; a child says on stderr which sequence it starts ("EPISODE <index> <seed>") before it
// starts it. When a child dies (no result file), the parent re-runs its batch one sequence per process and records the
// sequence that dies alone as a disagreement (kind process-death, C15) with the tail of its stderr. Race reports of a
// -race build are taken from the children's stderr: a report with library frames only is a disagreement (kind
// data-race, C15), one that involves hook / harness frames is counted as a harness artefact.
package main

import (
	"bytes"
	"context"
	"encoding/json"
	"fmt"
	"io/ioutil"
	"os"
	"os/exec"
	"strings"
	"sync"
	"time"

	"verif/internal/harness"
	"verif/internal/nodesim"
)

type sampleRec struct {
	Seed   int64                  `json:"seed"`
	Sample map[string]interface{} `json:"sample"`
}

type childOut struct {
	Stats   *nodesim.Stats       `json:"stats"`
	Samples map[string]sampleRec `json:"samples"`
	Done    int                  `json:"done"` // sequences run
}

func runChild(driver string, from, to int, out string, seqSeed func(int) int64, one func(*harness.Driver, *nodesim.Stats, int64)) int {
	d, err := harness.StartDriver(driver)
	if err != nil {
		fmt.Fprintln(os.Stderr, "driver:", err)
		return 2
	}
	defer d.Close()
	st := nodesim.NewStats()
	n := 0
	for i := from; i < to; i++ {
		// unbuffered: it is on the parent's side before the sequence starts
		fmt.Fprintf(os.Stderr, "EPISODE %d %d\n", i, seqSeed(i))
		one(d, st, seqSeed(i))
		n++
		if len(st.Disagreements) >= 2 {
			break
		}
	}
	fmt.Fprintf(os.Stderr, "EPISODES-DONE\n")
	co := childOut{Stats: st, Samples: map[string]sampleRec{}, Done: n}
	sampleMu.Lock()
	for c, s := range sampleOf {
		if m, ok := s.(map[string]interface{}); ok {
			co.Samples[c] = sampleRec{sampleBest[c], m}
		}
	}
	sampleMu.Unlock()
	b, err := json.Marshal(co)
	if err != nil {
		fmt.Fprintln(os.Stderr, "result:", err)
		return 2
	}
	if err := ioutil.WriteFile(out+".tmp", b, 0644); err != nil {
		fmt.Fprintln(os.Stderr, "result:", err)
		return 2
	}
	if err := os.Rename(out+".tmp", out); err != nil {
		fmt.Fprintln(os.Stderr, "result:", err)
		return 2
	}
	return 0
}

type parent struct {
	driver  string
	seed    int64
	tier    string
	hb      int
	pipe    int
	pipeEnd string
	seqs    int
	seqSeed func(int) int64

	mu           sync.Mutex
	total        *nodesim.Stats
	children     int
	died         int
	races        int
	harnessRaces int
	raceSeen     map[string]bool
}

func (p *parent) enough() bool {
	p.mu.Lock()
	defer p.mu.Unlock()
	return len(p.total.Disagreements) >= 2
}

// spawn runs sequences [from,to) in a child; ok=false: the child died (or hung) before it wrote its result.
func (p *parent) spawn(from, to int) (co *childOut, stderr string, ok bool, how string) {
	self, err := os.Executable()
	if err != nil {
		self = os.Args[0]
	}
	f, err := ioutil.TempFile("", "probelive-child")
	if err != nil {
		return nil, err.Error(), false, "setup"
	}
	outPath := f.Name()
	f.Close()
	os.Remove(outPath)
	defer os.Remove(outPath)
	// generous: the engine's own watchdogs end a run that hangs; this one is for a deadlock outside them
	ctx, cancel := context.WithTimeout(context.Background(), time.Duration(60+15*(to-from))*time.Second)
	defer cancel()
	cmd := exec.CommandContext(ctx, self, "-child", "-driver", p.driver, "-seed", fmt.Sprint(p.seed), "-tier", p.tier, "-hb", fmt.Sprint(p.hb),
		"-pipe", fmt.Sprint(p.pipe), "-pipeend", p.pipeEnd, "-from", fmt.Sprint(from), "-to", fmt.Sprint(to), "-out", outPath)
	var eb bytes.Buffer
	cmd.Stderr = &eb
	cmd.Stdout = &eb
	runErr := cmd.Run()
	p.mu.Lock()
	p.children++
	p.mu.Unlock()
	stderr = eb.String()
	b, err := ioutil.ReadFile(outPath)
	if err == nil {
		co = &childOut{}
		if json.Unmarshal(b, co) == nil && co.Stats != nil {
			if co.Stats.Hist == nil {
				co.Stats.Hist = map[string]int{}
			}
			if co.Stats.Distinct == nil {
				co.Stats.Distinct = map[string]bool{}
			}
			return co, stderr, true, ""
		}
	}
	how = fmt.Sprint(runErr)
	if ctx.Err() != nil {
		how = "killed by the parent after its time limit (deadlock?)"
	}
	return nil, stderr, false, how
}

func tail(s string, n int) string {
	lines := strings.Split(strings.TrimRight(s, "\n"), "\n")
	if len(lines) > n {
		lines = lines[len(lines)-n:]
	}
	return strings.Join(lines, "\n")
}

// panicHead: the interesting part of a dying process' stderr - from the panic line to the end of the first goroutine
func panicHead(s string) string {
	i := strings.Index(s, "panic: ")
	if j := strings.Index(s, "fatal error: "); j >= 0 && (i < 0 || j < i) {
		i = j
	}
	if i < 0 {
		return ""
	}
	s = s[i:]
	if j := strings.Index(s, "\n\ngoroutine "); j >= 0 {
		if k := strings.Index(s[j+2:], "\n\n"); k >= 0 {
			s = s[:j+2+k]
		}
	}
	return tail(s, 60)
}

func (p *parent) merge(co *childOut) {
	p.mu.Lock()
	p.total.Merge(co.Stats)
	p.mu.Unlock()
	for c, s := range co.Samples {
		putSample(c, s.Seed, s.Sample)
	}
}

// races: the race detector's reports in a child's stderr, each attributed to the sequence announced before it
func (p *parent) raceReports(stderr string) {
	if !strings.Contains(stderr, "WARNING: DATA RACE") {
		return
	}
	idx, sseed := -1, int64(0)
	lines := strings.Split(stderr, "\n")
	for i := 0; i < len(lines); i++ {
		ln := lines[i]
		if strings.HasPrefix(ln, "EPISODE ") {
			fmt.Sscanf(ln, "EPISODE %d %d", &idx, &sseed)
			continue
		}
		if !strings.HasPrefix(ln, "WARNING: DATA RACE") {
			continue
		}
		j := i + 1
		for j < len(lines) && !strings.HasPrefix(lines[j], "==================") {
			j++
		}
		block := lines[i:j]
		i = j
		// the two accesses: the first two stacks of the report. An access is the library's own when, from the accessing
		// frame downwards, only library frames come up to and including replicate()/runLoop() (the hook merely starts
		// replicate on a goroutine); a hook / harness frame before that means the harness made the access (a hook
		// function reading a field, a harness call into the library).
		var tops []string
		harnessFrames := false
		for k := 0; k < len(block) && len(tops) < 2; k++ {
			if !(strings.Contains(block[k], " by goroutine ") || strings.Contains(block[k], " by main goroutine")) {
				continue
			}
			own := true
			for f := k + 1; f+1 < len(block) && strings.TrimSpace(block[f]) != ""; f += 2 {
				fn, loc := strings.TrimSpace(block[f]), strings.TrimSpace(block[f+1])
				if sp := strings.Index(loc, " "); sp > 0 {
					loc = loc[:sp]
				}
				if f == k+1 {
					tops = append(tops, fn+" "+loc)
				}
				if strings.Contains(loc, "/verif_") || strings.Contains(loc, "/verifgo/") || strings.Contains(loc, "/probelive/") {
					own = false
					break
				}
				if strings.Contains(fn, "(*replication).replicate") || strings.Contains(fn, "(*replication).runLoop") {
					break
				}
			}
			harnessFrames = harnessFrames || !own
		}
		sig := strings.Join(tops, " | ")
		p.mu.Lock()
		if harnessFrames {
			p.harnessRaces++
		} else {
			p.races++
		}
		if p.raceSeen == nil {
			p.raceSeen = map[string]bool{}
		}
		seen := p.raceSeen[sig]
		p.raceSeen[sig] = true
		if !seen && !harnessFrames {
			p.total.Fail(map[string]interface{}{"engine": "probelive", "seed": sseed, "episode": idx, "kind": "data-race", "property_failed": "C15",
				"note":   "the race detector reports a data race between two accesses in library code: " + sig,
				"report": strings.Join(block, "\n")})
		} else if !seen {
			p.total.Hist["run:race-report-involving-harness-frames"]++
			fmt.Fprintf(os.Stderr, "probelive: race report involving hook/harness frames (not a finding), sequence %d:\n%s\n", idx, strings.Join(block, "\n"))
		}
		p.mu.Unlock()
	}
}

func (p *parent) runBatch(from, to int) {
	co, stderr, ok, how := p.spawn(from, to)
	p.raceReports(stderr)
	if ok {
		p.merge(co)
		return
	}
	p.mu.Lock()
	p.died++
	p.mu.Unlock()
	if to-from > 1 {
		// which sequence kills the process? the one the child announced last: the ones before it again as a batch, that
		// one alone (it has to die alone to be recorded), the rest as a batch
		last := -1
		for _, ln := range strings.Split(stderr, "\n") {
			if strings.HasPrefix(ln, "EPISODE ") {
				var i int
				var sd int64
				if n, _ := fmt.Sscanf(ln, "EPISODE %d %d", &i, &sd); n == 2 && i >= from && i < to {
					last = i
				}
			}
		}
		if last < 0 {
			for i := from; i < to && !p.enough(); i++ {
				p.runBatch(i, i+1)
			}
			return
		}
		p.runBatch(last, last+1)
		if last > from && !p.enough() {
			p.runBatch(from, last)
		}
		if last+1 < to && !p.enough() {
			p.runBatch(last+1, to)
		}
		return
	}
	note := "the process that ran this sequence died: " + how
	if h := panicHead(stderr); h != "" {
		note += " - " + strings.SplitN(h, "\n", 2)[0]
	}
	p.mu.Lock()
	p.total.Fail(map[string]interface{}{"engine": "probelive", "seed": p.seqSeed(from), "episode": from, "kind": "process-death", "property_failed": "C15",
		"note": note, "stderr tail": tail(stderr, 80), "panic": panicHead(stderr),
		"rerun": fmt.Sprintf("probelive -child -seed %d -from %d -to %d -out /dev/null (or -replay <this file>)", p.seed, from, from+1)})
	p.mu.Unlock()
}

func (p *parent) runAll(nseq, bs, workers int) {
	type job struct{ from, to int }
	jobs := make(chan job, nseq)
	for i := 0; i < nseq; i += bs {
		j := i + bs
		if j > nseq {
			j = nseq
		}
		jobs <- job{i, j}
	}
	close(jobs)
	var wg sync.WaitGroup
	for w := 0; w < workers; w++ {
		wg.Add(1)
		go func() {
			defer wg.Done()
			for j := range jobs {
				if p.enough() {
					return
				}
				p.runBatch(j.from, j.to)
			}
		}()
	}
	wg.Wait()
}
