// The pipelining phase of replication.replicate() on the real code: after the compared probe phase a share of the runs
// goes on (hook: raft.VProbeCfg.PipelineEnd / PipelineExtra). The writer goroutine, the reader loop, resultCh, the local
// stopCh, drainResps / drainRespsTimeout and the hand-over of the connection are the library's; the harness answers the
// pipelined requests from the REAL follower node, lets the real leader grow / commit and notifies the replication the
// way leader.notifyFlr does (or lets the idle timer fire), and then ends the pipeline through one of the reader's exits.
// There is no model of the pipeline: the monitors below judge the real execution only.
package main

import (
	"fmt"
	"strings"
	"time"

	"github.com/santhosh-tekuri/raft"
)

// tick.Fault codes of the pipeline phase (1..3 are the probe phase's: wipe, unexpectedErr, eof)
const (
	faultReadErr  = 4 // the Read of the response fails
	faultStale    = 5 // staleTerm answer (made up: the real follower did not get the request)
	faultMismatch = 6 // mismatch answer (made up: the real follower did not get the request)
	faultWipe     = 7 // the follower lost its storage, then answered itself
	faultNone     = 8 // the request is never answered
)

// endKinds: how an episode in the pipeline is ended (engine level; see pipeCfgEnd for the hook's name)
var endKinds = []string{"stop", "stop", "stopDrain", "stopDrain", "readErr", "readErr", "readErrPaused", "readErrPaused", "readErrPaused",
	"stale", "stale", "mismatch", "mismatch", "faulty", "leaderUpdate", "leaderUpdate", "heartbeat",
	// stopHeld: the leader stops the replication while the writer is stalled between the header and the entries of a
	// request and a response is outstanding — the schedule of finding F20 (drainRespsTimeout cleared c.rwc under the
	// writer: nil dereference / data race). Repaired; kept in the mix as the regression guard
	"stopHeld", "stopHeld"}

type pipePlan struct {
	End   string
	Extra int
	Stim  string // what makes the writer send its next request: mixed | entries | hb
	Slow  int    // pipelined request (PipeSeq) whose answer takes longer than the idle timer (0: none)
	Feed  bool   // the ending request reaches the real follower although its answer does not reach the leader
	Sev   bool   // mismatch: prevTermMismatch instead of prevEntryNotFound
	// what happened
	ending     *raft.VProbeReq
	endingLast uint64 // the real follower's last index when the made-up mismatch was given
	lied       bool   // an answer was made up / the follower lost its storage / an answer got lost
	stims      map[string]int
	ldPipe     *raft.VNode // the leader when the first pipelined request was written
	f1         *mflr       // the follower after the first pipelined request
	fd1        *raft.VNode
	nticks     int // ticks up to the first pipelined request
}

func (r *run) planPipeline(force string) *pipePlan {
	p := &pipePlan{End: endKinds[r.rng.Intn(len(endKinds))], Extra: r.rng.Intn(7), Stim: "mixed", stims: map[string]int{}}
	if force != "" {
		p.End = force
	}
	switch p.End {
	case "leaderUpdate":
		p.Stim = "entries"
		if p.Extra < 2 {
			p.Extra = 2 + r.rng.Intn(4)
		}
	case "heartbeat":
		p.Stim = "hb"
		if p.Extra < 1 {
			p.Extra = 1 + r.rng.Intn(3)
		}
	}
	if r.rng.Intn(5) == 0 && p.Extra > 0 {
		p.Slow = 1 + r.rng.Intn(p.Extra+1)
	}
	p.Feed = r.rng.Intn(2) == 0
	p.Sev = r.rng.Intn(2) == 0
	return p
}

// pipeCfgEnd: the hook's name of the ending
func (p *pipePlan) cfgEnd() string {
	if p.End == "faulty" {
		return "mismatch"
	}
	return p.End
}

// hasEnding: the pipeline is ended by the answer to pipelined request Extra+2 (else: by stop after request Extra+1)
func (p *pipePlan) hasEnding() bool {
	switch p.End {
	case "stop", "leaderUpdate", "heartbeat":
		return false
	}
	return true
}

// stimulate: called while pipelined request q waits for its answer - the leader moves on and notifies (the writer goroutine
// is running: it takes the update and writes its next request while the reader is still blocked), or nothing happens and
// the idle timer of checkLeaderUpdate fires.
func (r *run) stimulate(p *pipePlan, vr *raft.VerifRepl, q raft.VProbeReq, t *tick) bool {
	last := p.Extra + 1
	if p.hasEnding() {
		last++
	}
	held := (p.End == "readErrPaused" || p.End == "stopHeld") && q.Ending // the writer shall start one more request (and be held in it)
	if (q.PipeSeq >= last && !held) || !r.isLeader() {
		return true
	}
	how := p.Stim
	if how == "mixed" {
		how = []string{"entries", "entries", "commit", "hb", "hb"}[r.rng.Intn(5)]
	}
	// the request that ends the pipeline by a mismatch / is followed by the held request carries entries
	if q.PipeSeq+1 == last && (p.End == "mismatch" || p.End == "faulty") && r.rng.Intn(4) > 0 {
		how = "entries"
	}
	if how == "hb" && !q.St.Voter {
		how = "entries" // a nonvoter gets no heartbeats: without news from the leader nothing is sent
	}
	if held {
		how = "entries"
	}
	p.stims[how]++
	switch how {
	case "entries":
		n := 1
		switch r.rng.Intn(12) {
		case 0:
			n = 6
		case 1, 2, 3:
			n = 2
		}
		if !r.grow(n) {
			return false
		}
	case "commit":
		if !r.ack(r.w.Node.Digest().LastLogIndex, 2, 3) {
			return false
		}
	case "hb":
		return true
	}
	if !r.isLeader() {
		return false
	}
	if u, ok := vr.PushLeaderUpdate(r.rng.Intn(4) == 0); ok {
		t.Upd = &u
	}
	return true
}

// truncated: the run as it would have been reported had it been stopped after its first pipelined request (what the
// model of the probe loop describes).
func truncated(full raft.VProbeReport, p0 int) raft.VProbeReport {
	rep := full
	rep.Exchanges = full.Exchanges[:p0+1]
	rep.Notes, rep.NoteAt = []raft.VReplNote{}, []int{}
	for i, n := range full.Notes {
		if full.NoteAt[i] <= p0+1 {
			rep.Notes = append(rep.Notes, n)
			rep.NoteAt = append(rep.NoteAt, full.NoteAt[i])
		}
	}
	x := full.Exchanges[p0]
	st := x.Req.St // the first request of a pipeline: the whole state was read when it was written
	if a := x.Req.Append; a != nil {
		// nextIndex is advanced when the entries have been written, matchIndex when the answer says success
		st.NextIndex += uint64(len(a.Entries))
		if last := a.PrevLogIndex + uint64(len(a.Entries)); x.Resp.Kind == "append" && x.Resp.Result == 1 && last > st.MatchIndex {
			st.MatchIndex = last
		}
	}
	rep.St = st
	rep.End, rep.Err, rep.Panic = "pipelined", "", ""
	rep.Unanswered, rep.Extra, rep.Pipeline = nil, 0, nil
	return rep
}

// pipeMonitors judges the pipeline part of a run on the real trace.
func (r *run) pipeMonitors(p *pipePlan, full raft.VProbeReport, p0 int, ld raft.VNode) (string, string) {
	pr := full.Pipeline
	ex := full.Exchanges
	if pr == nil {
		return "", ""
	}
	// ---- C15: replicate() ends, and so do its goroutines
	if full.Panic != "" {
		return "C15", fmt.Sprintf("replicate() panicked (%s) in the pipeline ended by %s", full.Panic, pr.Applied)
	}
	if strings.Contains(full.End, "stuck") {
		return "C15", fmt.Sprintf("replicate() did not return within the watchdog after its pipeline was ended (%s; stopCh closed, connection closed); still alive: %v", pr.Applied, pr.Left)
	}
	if full.End == "watchdog" {
		return "C15", fmt.Sprintf("the pipeline neither wrote a request nor ended within the watchdog (ending applied: %q)", pr.Applied)
	}
	if !pr.Returned {
		return "C15", fmt.Sprintf("replicate() did not return (end %s)", full.End)
	}
	if len(pr.Left) > 0 {
		return "C15", fmt.Sprintf("replicate() returned (%s, error class %q) but goroutines it started are still running after the watchdog: %v", pr.Applied, full.Err, pr.Left)
	}
	if pr.Held && !pr.Resumed {
		return "C15", "the pipeline writer was held right after the header of a request with entries was written; released, it never came back to the connection for the entries: it ended by a panic that it swallowed"
	}
	switch pr.Applied {
	case "readErr", "readErr+held":
		if full.End != "returned" || full.Err != "error" {
			return "C15", fmt.Sprintf("the reader's Read failed: replicate() should return that error, it ended %s with error class %q", full.End, full.Err)
		}
	case "stale":
		if full.End != "returned" || full.Err != "stop" {
			return "C15", fmt.Sprintf("a pipelined request was answered staleTerm: replicate() should return errStop, it ended %s with error class %q", full.End, full.Err)
		}
		told := false
		for _, n := range full.Notes {
			if n.Kind == "newTerm" && p.ending != nil && n.Val == p.ending.Append.Term+1 {
				told = true
			}
		}
		if !told {
			return "C03", "a pipelined request was answered staleTerm: the leader was not told the new term"
		}
	case "stop", "stop(idle)", "stopDrain", "stopHeld", "stopHeld+held":
		if full.Err != "stop" && !(full.Err == "error" && (pr.ClosedByHarness || pr.ClosedByReplicate)) {
			return "C15", fmt.Sprintf("stopCh was closed: replicate() returned error class %q (connection closed by replicate %v, by the harness' deadline %v)", full.Err, pr.ClosedByReplicate, pr.ClosedByHarness)
		}
	}
	// ---- C15/C09: the hand-over of the connection (runLoop returns a connection with rwc != nil to the pool and
	// closes it otherwise; it must not get a closed one as open, nor leak an open one as "closed")
	if pr.ClosedByReplicate != pr.RwcNil {
		return "C15", fmt.Sprintf("hand-over of the connection after %s: replicate closed it: %v, conn.rwc == nil: %v", pr.Applied, pr.ClosedByReplicate, pr.RwcNil)
	}
	// ---- C06: what the leader is told is what was acknowledged. Judged on the SETS of the whole run (probe phase
	// and pipeline): every matchIndex the leader is told equals the last index of a request that got a success answer,
	// and the final matchIndex does not exceed the highest acknowledged index. Which exchange a note belongs to, and
	// whether an answer that was put on the wire was still read before the episode ended, depends on goroutine
	// scheduling (an earlier, order-based form of this monitor raised sporadic alarms on the unchanged code under
	// load: corrected here, see DESIGN 7.5); the answers are recorded before they are sent, so the sets are exact.
	endK := -1
	for k := p0; k < len(ex); k++ {
		if ex[k].Req.Ending && endK < 0 {
			endK = k
		}
	}
	acked := map[uint64]bool{}
	m := ex[0].Req.St.MatchIndex
	for k := 0; k < len(ex); k++ {
		x := ex[k]
		if x.Resp.Result != 1 {
			continue
		}
		if a := x.Req.Append; a != nil && x.Resp.Kind == "append" {
			last := a.PrevLogIndex + uint64(len(a.Entries))
			acked[last] = true
			if last > m {
				m = last
			}
		}
		if in := x.Req.Install; in != nil && x.Resp.Kind == "install" {
			acked[in.LastIndex] = true
			if in.LastIndex > m {
				m = in.LastIndex
			}
		}
	}
	for _, n := range full.Notes {
		if n.Kind == "matchIndex" && !acked[n.Val] {
			return "C06", fmt.Sprintf("the leader was told matchIndex %d: no success answer of this run acknowledged that index", n.Val)
		}
	}
	if pr.StValid && full.St.MatchIndex > m {
		return "C06", fmt.Sprintf("matchIndex is %d at the end, the answers acknowledged %d", full.St.MatchIndex, m)
	}
	// ---- C06/C17: the writer moves on past what it sent: within one pipeline the requests are contiguous
	for k := p0 + 1; k < len(ex); k++ {
		a, b := ex[k-1].Req, ex[k].Req
		if !a.Pipelined || !b.Pipelined || a.Session != b.Session || a.Append == nil || b.Append == nil {
			continue
		}
		if b.Append.PrevLogIndex != a.Append.PrevLogIndex+uint64(len(a.Append.Entries)) {
			return "C17", fmt.Sprintf("pipelined request %d covered (%d, %d], the next one starts after %d", k-1, a.Append.PrevLogIndex,
				a.Append.PrevLogIndex+uint64(len(a.Append.Entries)), b.Append.PrevLogIndex)
		}
		if b.Append.LdrCommitIndex < a.Append.LdrCommitIndex || b.Append.LdrCommitIndex > ld.CommitIndex {
			return "C04", fmt.Sprintf("pipelined request %d announces commit index %d (previous request %d, the leader's %d)", k, b.Append.LdrCommitIndex, a.Append.LdrCommitIndex, ld.CommitIndex)
		}
	}
	if n := len(ex); pr.StValid && ex[n-1].Req.Pipelined && ex[n-1].Req.Append != nil {
		a := ex[n-1].Req.Append
		if full.St.NextIndex < a.PrevLogIndex+uint64(len(a.Entries))+1 {
			return "C17", fmt.Sprintf("the last pipelined request covered (%d, %d], nextIndex is %d at the end", a.PrevLogIndex, a.PrevLogIndex+uint64(len(a.Entries)), full.St.NextIndex)
		}
	}
	// ---- C17: a mismatch answer ends the pipeline and the loop probes again, down to what the follower holds
	if endK >= 0 && pr.Applied == "mismatch" && p.End == "mismatch" {
		e := ex[endK].Req
		probed, next := false, -1
		holds := p.endingLast // what the follower holds: requests written after the rejected one may have reached it
		for k := endK + 1; k < len(ex); k++ {
			if a := ex[k].Req.Append; a != nil && next < 0 && ex[k].Resp.Kind == "append" && ex[k].Resp.Result == 1 && a.PrevLogIndex+uint64(len(a.Entries)) > holds {
				holds = a.PrevLogIndex + uint64(len(a.Entries))
			}
			if !ex[k].Req.Pipelined {
				probed = true
			}
			if ex[k].Req.Pipelined && ex[k].Req.Session > e.Session && next < 0 {
				next = k
			}
			if ex[k].Req.Pipelined && ex[k].Req.Session == e.Session && probed {
				return "C17", fmt.Sprintf("exchange %d belongs to the pipeline that exchange %d ended", k, endK)
			}
		}
		if full.End == "returned" {
			return "C17", fmt.Sprintf("a pipelined request was answered with a mismatch (follower's last index %d, acknowledged %d): replicate() returned error class %q instead of probing", p.endingLast, e.St.MatchIndex, full.Err)
		}
		if next >= 0 {
			if !probed {
				return "C17", "a new pipeline was started after the mismatch answer without a probe"
			}
			if a := ex[next].Req.Append; a != nil && a.PrevLogIndex > holds {
				return "C17", fmt.Sprintf("after the mismatch answer (the follower's log ends at %d) the next pipeline starts after %d", holds, a.PrevLogIndex)
			}
		}
	}
	return "", ""
}

// pipeStats: histogram of the pipeline part
func (r *run) pipeStats(p *pipePlan, full raft.VProbeReport, p0 int) {
	h := r.st.Hist
	pr := full.Pipeline
	h["pipeline:"+p.End]++
	h["pipeline:applied:"+pr.Applied]++
	h[fmt.Sprintf("pipeline:return:%s:%s%s", full.End, full.Err, full.Panic)]++
	h[fmt.Sprintf("pipeline:handover:closed-by-replicate=%v,rwc-nil=%v,deadline-close-by-harness=%v", pr.ClosedByReplicate, pr.RwcNil, pr.ClosedByHarness)]++
	if pr.Held {
		h["pipeline:writer-held-between-header-and-entries"]++
	}
	if pr.Sessions > 1 {
		h["pipeline:back-to-probing-and-pipelining-again"]++
	}
	for how, n := range p.stims {
		h["pipeline:next-request-by:"+how] += n
	}
	if p.Slow > 0 {
		h["pipeline:slow-answer"]++
	}
	n, withEntries, reprobe := 0, 0, 0
	for k := p0; k < len(full.Exchanges); k++ {
		x := full.Exchanges[k]
		if !x.Req.Pipelined {
			reprobe++
			continue
		}
		n++
		if k > p0 {
			h[fmt.Sprintf("exch:pipeline:%s:%s:%d", x.Req.Kind, x.Resp.Kind, x.Resp.Result)]++
			if x.Req.Append != nil {
				h["pipeline:entries:"+bucket(len(x.Req.Append.Entries))]++
			}
		}
		if x.Req.Append != nil && len(x.Req.Append.Entries) > 0 {
			withEntries++
		}
	}
	h["pipeline-exchanges"] += n
	h["pipeline:requests-per-episode:"+bucket(n)]++
	if reprobe > 0 {
		h["pipeline:probe-exchanges-after-pipeline"] += reprobe
	}
	if full.Extra > 0 {
		h["pipeline:requests-left-unanswered-at-the-end"]++
	}
	key := fmt.Sprintf("probe|pipe|%s|%s|%s|%s%s|closed%v|sess%d|held%v|n%s|e%s", p.End, pr.Applied, full.End, full.Err, full.Panic, pr.ClosedByReplicate, pr.Sessions, pr.Held, bucket(n), bucket(withEntries))
	r.st.Distinct[key] = true
}

var _ = time.Now
