// repldiff: the step functions of replication.go (writeAppendEntriesReq, onAppendEntriesResp,
// sendInstallSnapReq, onLeaderUpdate) on a real leader node, compared step by step with the Lean
// model Raft.Repl; the harness plays replicate()'s control flow and the follower.
package main

import (
	"encoding/json"
	"flag"
	"fmt"
	"io/ioutil"
	"math/rand"
	"os"
	"path/filepath"
	"strings"
	"sync"
	"time"

	"github.com/santhosh-tekuri/raft"
	"verif/internal/harness"
	"verif/internal/nodesim"
)

type run struct {
	rng  *rand.Rand
	d    *harness.Driver
	st   *nodesim.Stats
	seed int64
	w    *nodesim.World
	log  []interface{}
}

func (r *run) fail(kind, note string, prop interface{}, extra map[string]interface{}) {
	m := map[string]interface{}{"engine": "repldiff", "seed": r.seed, "kind": kind, "note": note, "property_failed": prop,
		"steps": r.log}
	for k, v := range extra {
		m[k] = v
	}
	r.st.Fail(m)
}

// leaderUp brings the node to leadership of a 3-node configuration with some log.
func (r *run) leaderUp() bool {
	w := r.w
	cfg := raft.VConfig{Nodes: []raft.VCNode{}}
	for _, id := range []uint64{1, 2, 3} {
		cfg.Nodes = append(cfg.Nodes, raft.VCNode{ID: id, Addr: nodesim.AddrOf(id), Voter: id != 3 || r.rng.Intn(2) == 0})
	}
	if !w.Step(nodesim.Op{Kind: "changeConfig", Task: w.NextTask(), Config: &cfg}) {
		return false
	}
	d := w.Node.Digest()
	if d.Role == "candidate" {
		if !w.Step(nodesim.Op{Kind: "voteResult", Src: 2, Term: d.Term, Result: 1}) {
			return false
		}
	}
	return w.Node.Digest().Role == "leader"
}

func (r *run) grow(n int) bool {
	w := r.w
	for i := 0; i < n; i++ {
		op := nodesim.Op{Kind: "newEntries"}
		for k := 0; k < 1+r.rng.Intn(4); k++ {
			op.Batch = append(op.Batch, raft.VNewEntry{Typ: 2, Data: w.Payload(), Task: w.NextTask()})
		}
		if !w.Step(op) {
			return false
		}
	}
	return true
}

func (r *run) commitAll() bool {
	d := r.w.Node.Digest()
	if d.Role != "leader" {
		return false
	}
	return r.w.Step(nodesim.Op{Kind: "replUpdates", Updates: []raft.VReplUpdate{{ID: 2, Kind: "matchIndex", Val: d.LastLogIndex}}})
}

func (r *run) snapshot() bool {
	w := r.w
	return w.Step(nodesim.Op{Kind: "takeSnapshot", Task: w.NextTask()}) && w.Step(nodesim.Op{Kind: "snapRun"}) && w.Step(nodesim.Op{Kind: "snapTaken"})
}

func (r *run) compare(what string, req map[string]interface{}, before raft.VReplState, out raft.VReplOut, after raft.VReplState) bool {
	r.st.Steps++
	req["engine"], req["what"], req["st"], req["id"] = "repl", what, before, r.st.Steps
	ans, err := r.d.Ask(req)
	if err != nil {
		r.fail("driver", fmt.Sprint(err), nil, map[string]interface{}{"req": what})
		return false
	}
	real := map[string]interface{}{"st": after, "err": out.Err, "panic": out.Panic, "append": out.Append, "install": out.Install, "notes": out.Notes}
	rc := harness.ToCanon(real)
	delete(ans, "id")
	mc := harness.Canon(ans)
	r.st.Hist["repl:"+what+":"+out.Err+out.Panic]++
	key := fmt.Sprintf("%s|%s|%s|m%v|n%v|e%d", what, out.Err, out.Panic, after.MatchIndex > before.MatchIndex, int64(after.NextIndex)-int64(before.NextIndex), func() int {
		if out.Append != nil {
			return len(out.Append.Entries)
		}
		return -1
	}())
	r.st.Distinct[key] = true
	r.log = append(r.log, map[string]interface{}{"what": what, "before": before, "err": out.Err, "after": after})
	if len(r.log) > 30 {
		r.log = r.log[len(r.log)-30:]
	}
	if !harness.Equal(rc, mc) {
		r.fail("correspondence", "replication step differs from the model: "+what, nil,
			map[string]interface{}{"real": rc, "model": map[string]interface{}{"first": mc, "diff": harness.Diff(rc, mc)}, "op": map[string]interface{}{"kind": "repl:" + what}})
		return false
	}
	return true
}

// backoffs compares util.go backOff with the model on random (round, max) pairs: the retry delay of runLoop.
func (r *run) backoffs(n int) bool {
	for i := 0; i < n; i++ {
		round := uint64(r.rng.Intn(16))
		if r.rng.Intn(10) == 0 {
			round = uint64(r.rng.Int63())
		}
		hb := []int64{1, 2, 3, 1000, 5e6, 2e7, 5e7, 1e8, 1e9, 3e9, 1e10, 6e10}[r.rng.Intn(12)]
		max := []int64{hb / 2, hb, 2 * hb, hb/2 + int64(r.rng.Intn(1000)), int64(r.rng.Int63n(4e10))}[r.rng.Intn(5)]
		real := int64(raft.VerifBackOff(round, time.Duration(max)))
		r.st.Steps++
		ans, err := r.d.Ask(map[string]interface{}{"engine": "repl", "what": "backOff", "round": round, "max": max, "id": r.st.Steps})
		if err != nil {
			r.fail("driver", fmt.Sprint(err), nil, map[string]interface{}{"req": "backOff"})
			return false
		}
		r.st.Hist["repl:backOff"]++
		rb := round
		if rb > 13 {
			rb = 13
		}
		r.st.Distinct[fmt.Sprintf("backOff|capped%v|r%d", real == max, rb)] = true
		if !harness.Equal(harness.ToCanon(real), harness.Canon(ans["backOff"])) {
			r.fail("correspondence", "backOff differs from the model", "C17",
				map[string]interface{}{"real": real, "model": map[string]interface{}{"first": ans}, "round": round, "max": max, "op": map[string]interface{}{"kind": "repl:backOff"}})
			return false
		}
	}
	// durationFor (write deadlines): floating point in Go, exact rational arithmetic in the model — compared up to the
	// rounding error of the float computation (relative 2^-40, absolute 1ns)
	for i := 0; i < n/2; i++ {
		bw := []int64{1, 1000, 16 << 10, 256 << 10, 1 << 20, 256 << 20, 1 << 34}[r.rng.Intn(7)] + int64(r.rng.Intn(3))
		size := []int64{0, 1, 100, 4096, 1 << 20, 1 << 30, 1 << 36}[r.rng.Intn(7)] + int64(r.rng.Intn(1000))
		real := int64(raft.VerifDurationFor(bw, size))
		r.st.Steps++
		ans, err := r.d.Ask(map[string]interface{}{"engine": "repl", "what": "durationFor", "bandwidth": bw, "n": size, "id": r.st.Steps})
		if err != nil {
			r.fail("driver", fmt.Sprint(err), nil, map[string]interface{}{"req": "durationFor"})
			return false
		}
		r.st.Hist["repl:durationFor"]++
		ms, _ := harness.Canon(ans["durationFor"]).(string)
		var model int64
		fmt.Sscanf(strings.TrimPrefix(ms, "#"), "%d", &model)
		tol := int64(1) + model>>40
		r.st.Distinct[fmt.Sprintf("durationFor|bw%d|sz%d", bits(bw), bits(size))] = true
		if real-model > tol || model-real > tol {
			r.fail("correspondence", "durationFor differs from the model", "C17",
				map[string]interface{}{"real": real, "model": map[string]interface{}{"first": ans}, "bandwidth": bw, "n": size, "op": map[string]interface{}{"kind": "repl:durationFor"}})
			return false
		}
	}
	return true
}

func bits(x int64) int {
	n := 0
	for x > 0 {
		n++
		x >>= 1
	}
	return n / 8
}

// checkRequest evaluates C04/C06 directly on the real request against the real leader log.
func (r *run) checkRequest(ld raft.VNode, before raft.VReplState, out raft.VReplOut) bool {
	q := out.Append
	if q == nil {
		return true
	}
	if q.PrevLogIndex+1 != before.NextIndex {
		r.fail("monitor", fmt.Sprintf("append request prev %d but nextIndex was %d", q.PrevLogIndex, before.NextIndex), "C04", nil)
		return false
	}
	if t, ok := nodesim.TermAt(&ld, q.PrevLogIndex); ok && t != q.PrevLogTerm {
		r.fail("monitor", fmt.Sprintf("append request carries prev term %d, the leader holds term %d at %d", q.PrevLogTerm, t, q.PrevLogIndex), "C04", nil)
		return false
	}
	for k, e := range q.Entries {
		idx := before.NextIndex + uint64(k)
		if idx <= ld.Log.Prev || idx > ld.LastLogIndex {
			r.fail("monitor", fmt.Sprintf("append request carries entry %d the leader does not hold", idx), "C04", nil)
			return false
		}
		le := ld.Log.Entries[idx-ld.Log.Prev-1]
		if le.Index != e.Index || le.Term != e.Term || le.Typ != e.Typ || le.Data != e.Data {
			r.fail("monitor", fmt.Sprintf("append request entry at %d differs from the leader's log", idx), "C04", nil)
			return false
		}
	}
	if len(q.Entries) > 64 {
		r.fail("monitor", "more than maxAppendEntries entries in one request", "C04", nil)
		return false
	}
	return true
}

func (r *run) sequence(nsteps int) {
	if !r.leaderUp() {
		return
	}
	if !r.grow(2+r.rng.Intn(10)) || !r.commitAll() {
		return
	}
	if r.rng.Intn(2) == 0 {
		if !r.snapshot() || !r.grow(1+r.rng.Intn(6)) {
			return
		}
	}
	if r.w.Node.Digest().Role != "leader" {
		return
	}
	fid := uint64(2 + r.rng.Intn(2))
	ld := r.w.Node.Digest()
	var fnode raft.VCNode
	for _, n := range ld.Configs.Latest.Nodes {
		if n.ID == fid {
			fnode = n
		}
	}
	vr := r.w.Node.NewRepl(fnode)
	var lastReq *raft.VAppendReq
	for i := 0; i < nsteps && len(r.st.Disagreements) == 0; i++ {
		ld = r.w.Node.Digest()
		if ld.Role != "leader" || ld.Closed != "" {
			return
		}
		before := vr.State()
		switch k := r.rng.Intn(100); {
		case k < 40:
			send := r.rng.Intn(3) != 0
			out := vr.WriteAppend(send)
			after := vr.State()
			if !r.compare("writeAppend", map[string]interface{}{"leader": ld, "sendEntries": send}, before, out, after) || !r.checkRequest(ld, before, out) {
				return
			}
			if out.Append != nil {
				lastReq = out.Append
			}
		case k < 70:
			var term, result, lastLog, reqLast uint64
			term = ld.Term
			reqLast = before.NextIndex - 1
			if lastReq != nil {
				reqLast = lastReq.PrevLogIndex + uint64(len(lastReq.Entries))
			}
			switch r.rng.Intn(10) {
			case 0:
				result, term = 3, ld.Term+1
			case 1, 2, 3:
				if before.NextIndex < 2 {
					continue // a follower never rejects prevLogIndex 0
				}
				result = uint64(7 + r.rng.Intn(2))
				lastLog = uint64(r.rng.Intn(int(before.NextIndex) + 2))
				if r.rng.Intn(3) != 0 && lastLog < before.MatchIndex {
					lastLog = before.MatchIndex + uint64(r.rng.Intn(3))
				}
			case 4:
				result = 11
			default:
				result, lastLog = 1, reqLast
			}
			out := vr.OnAppendResp(term, result, lastLog, reqLast)
			after := vr.State()
			// C17: a mismatch answer from a follower that is not faulty makes the probe progress: nextIndex
			// strictly decreases and never stays above the follower's last index + 1
			if (result == 7 || result == 8) && lastLog >= before.MatchIndex && out.Err == "" && out.Panic == "" {
				if !(after.NextIndex < before.NextIndex && after.NextIndex <= lastLog+1) {
					r.fail("monitor", fmt.Sprintf("probe does not progress: follower answered mismatch with last index %d, nextIndex %d -> %d", lastLog, before.NextIndex, after.NextIndex), "C17", nil)
					return
				}
			}
			if !r.compare("onResp", map[string]interface{}{"term": term, "result": result, "lastLogIndex": lastLog, "reqLastIndex": reqLast}, before, out, after) {
				return
			}
			// C06: the match index rises only on a success response, to the request's last index
			if after.MatchIndex != before.MatchIndex && !(result == 1 && after.MatchIndex == reqLast && reqLast > before.MatchIndex) {
				r.fail("monitor", fmt.Sprintf("matchIndex %d -> %d on result %d (request last %d)", before.MatchIndex, after.MatchIndex, result, reqLast), "C06", nil)
				return
			}
			if result == 3 {
				return // errStop: the replication ends
			}
		case k < 80:
			if ld.SnapIndex == 0 || vr.SnapIndexWaitNeeded() {
				continue
			}
			term, result := ld.Term, uint64(1)
			switch r.rng.Intn(6) {
			case 0:
				result, term = 3, ld.Term+1
			case 1:
				result = 11
			}
			out := vr.InstallSnap(term, result)
			after := vr.State()
			if !r.compare("install", map[string]interface{}{"leader": ld, "term": term, "result": result}, before, out, after) {
				return
			}
			if out.Install != nil && (out.Install.LastIndex != ld.SnapIndex || out.Install.LastTerm != ld.SnapTerm) {
				r.fail("monitor", "install request does not carry the latest snapshot's index/term", "C09", nil)
				return
			}
			if result == 3 {
				return
			}
			lastReq = nil
		case k < 92:
			// the leader moves on, then notifies
			switch r.rng.Intn(4) {
			case 0:
				if !r.snapshot() {
					return
				}
			case 1:
				if !r.commitAll() {
					return
				}
			default:
				if !r.grow(1 + r.rng.Intn(3)) {
					return
				}
			}
			ld = r.w.Node.Digest()
			if ld.Role != "leader" {
				return
			}
			before = vr.State()
			withCfg := r.rng.Intn(3) == 0
			out := vr.LeaderUpdate(withCfg)
			after := vr.State()
			if !r.compare("leaderUpdate", map[string]interface{}{"leader": ld, "withConfig": withCfg, "follower": fid}, before, out, after) {
				return
			}
		default:
			withCfg := r.rng.Intn(3) == 0
			out := vr.LeaderUpdate(withCfg)
			after := vr.State()
			if !r.compare("leaderUpdate", map[string]interface{}{"leader": ld, "withConfig": withCfg, "follower": fid}, before, out, after) {
				return
			}
		}
	}
}

func main() {
	driver := flag.String("driver", "/verif/lean/.lake/build/bin/driver", "model driver")
	seed := flag.Int64("seed", 1, "seed")
	tier := flag.String("tier", "quick", "quick|thorough")
	report := flag.String("report", "", "report file")
	replay := flag.String("replay", "", "replay file")
	workers := flag.Int("workers", 8, "parallel workers")
	seqs := flag.Int("seqs", 0, "sequences")
	replayDir := flag.String("replaydir", "/verif/replays", "where failing cases are written")
	flag.Parse()
	nseq, nsteps := 300, 40
	if *tier == "thorough" {
		nseq, nsteps = 10000, 120
	}
	if *seqs > 0 {
		nseq = *seqs
	}
	nodesim.InstallPointFn()
	start := time.Now()
	one := func(d *harness.Driver, st *nodesim.Stats, sseed int64) {
		rng := rand.New(rand.NewSource(sseed))
		w, err := nodesim.NewWorld(rng, d, st)
		if err != nil {
			st.Fail(map[string]interface{}{"note": "setup: " + err.Error(), "seed": sseed})
			return
		}
		defer w.Destroy()
		w.Seed = sseed
		r := &run{rng: rng, d: d, st: st, seed: sseed, w: w}
		if !r.backoffs(8) {
			return
		}
		r.sequence(nsteps)
	}
	if *replay != "" {
		b, err := ioutil.ReadFile(*replay)
		if err != nil {
			fmt.Fprintln(os.Stderr, err)
			os.Exit(2)
		}
		var rec struct {
			Seed int64 `json:"seed"`
		}
		_ = json.Unmarshal(b, &rec)
		d, err := harness.StartDriver(*driver)
		if err != nil {
			fmt.Fprintln(os.Stderr, err)
			os.Exit(2)
		}
		defer d.Close()
		st := nodesim.NewStats()
		one(d, st, rec.Seed)
		if len(st.Disagreements) > 0 {
			b, _ := json.MarshalIndent(st.Disagreements[0], "", " ")
			fmt.Println(string(b))
			os.Exit(1)
		}
		fmt.Println("replay: no disagreement")
		return
	}
	var wg sync.WaitGroup
	results := make([]*nodesim.Stats, *workers)
	for w := 0; w < *workers; w++ {
		wg.Add(1)
		go func(w int) {
			defer wg.Done()
			d, err := harness.StartDriver(*driver)
			if err != nil {
				fmt.Fprintln(os.Stderr, "driver:", err)
				os.Exit(2)
			}
			defer d.Close()
			st := nodesim.NewStats()
			results[w] = st
			for i := w; i < nseq; i += *workers {
				one(d, st, *seed*9000011+int64(i))
				if len(st.Disagreements) >= 3 {
					break
				}
			}
		}(w)
	}
	wg.Wait()
	total := nodesim.NewStats()
	for _, st := range results {
		total.Merge(st)
	}
	rep := &harness.Report{Engine: "repldiff", Seed: *seed, Tier: *tier, Evaluations: total.Steps, DistinctNontrivial: len(total.Distinct),
		Rule:      "each evaluation is either one validated step of the real leader node (as in nodediff) or one step function of a real replication object (writeAppendEntriesReq / onAppendEntriesResp / sendInstallSnapReq / onLeaderUpdate over an in-memory connection) compared with Raft.Repl; distinct by (function, error class, match/next movement, entries sent)",
		Histogram: total.Hist, Samples: total.Samples, WallS: time.Since(start).Seconds()}
	for _, dg := range total.Disagreements {
		path := filepath.Join(*replayDir, fmt.Sprintf("repldiff-%d-%d.json", *seed, len(rep.Disagreements)))
		_ = os.MkdirAll(*replayDir, 0755)
		b, _ := json.MarshalIndent(dg, "", " ")
		_ = ioutil.WriteFile(path, b, 0644)
		dg["replay"] = path
		rep.Disagreements = append(rep.Disagreements, dg)
	}
	if len(rep.Samples) == 0 {
		rep.Samples = []interface{}{map[string]interface{}{"note": "see histogram keys repl:*"}}
	}
	if *report != "" {
		_ = rep.Write(*report)
	}
	fmt.Printf("repldiff: %d steps, %d distinct, %d disagreements, %.1fs\n", total.Steps, len(total.Distinct), len(rep.Disagreements), rep.WallS)
	for _, dg := range rep.Disagreements {
		fmt.Printf("DISAGREEMENT property_failed=%v note=%v replay=%v\n", dg["property_failed"], dg["note"], dg["replay"])
	}
	if len(rep.Disagreements) > 0 {
		os.Exit(1)
	}
}
