// livestress: the search for a failing input on the REAL code after an obligation of the regenerated tier
// (RaftGen: channel skeletons and timing facts translated from the Go source) no longer checks. It is never what decides
// a property on the unchanged tree — it only turns a broken theorem into a replay on the implementation when it can.
//
//	-mode notify : a real leader node; leader.notifyFlr is called in a tight loop on one goroutine while one goroutine
//	               per replication keeps taking updates out of leaderUpdateCh (hook VerifNode.NotifyStress). A call
//	               that never returns is the deadlock C15 forbids.
//	-mode retry  : the real replication.runLoop against a peer that cannot be reached (hook VerifRepl.RunRetry); the
//	               time between consecutive connection attempts, minimum over several runs (a sleep is never shorter
//	               than requested, so the minimum bounds the requested retry delay from above). A retry delay that
//	               reaches the minimal election timeout (= heartbeat timeout) lets a reachable follower time out
//	               between two attempts: C17.
package main

import (
	"encoding/json"
	"flag"
	"fmt"
	"io/ioutil"
	"math/rand"
	"os"
	"path/filepath"
	"time"

	"github.com/santhosh-tekuri/raft"
	"verif/internal/harness"
	"verif/internal/nodesim"
)

func leaderUp(w *nodesim.World) bool {
	cfg := raft.VConfig{Nodes: []raft.VCNode{}}
	for _, id := range []uint64{1, 2, 3} {
		cfg.Nodes = append(cfg.Nodes, raft.VCNode{ID: id, Addr: nodesim.AddrOf(id), Voter: true})
	}
	if !w.Step(nodesim.Op{Kind: "changeConfig", Task: w.NextTask(), Config: &cfg}) {
		return false
	}
	d := w.Node.Digest()
	if d.Role == "candidate" {
		if !w.Step(nodesim.Op{Kind: "voteResult", Src: 2, Term: d.Term, Result: 1}) {
			return false
		}
	}
	d = w.Node.Digest()
	return d.Role == "leader" && d.Closed == "" && w.Node.Panic == ""
}

func main() {
	driver := flag.String("driver", "/verif/lean/.lake/build/bin/driver", "model driver")
	mode := flag.String("mode", "notify", "notify|retry")
	seed := flag.Int64("seed", 1, "seed")
	rounds := flag.Int("rounds", 3000000, "notify: calls of notifyFlr")
	patience := flag.Duration("patience", 3*time.Second, "notify: no progress for this long = stuck")
	hb := flag.Duration("hb", 20*time.Millisecond, "retry: heartbeat timeout")
	dials := flag.Int("dials", 9, "retry: connection attempts per run")
	runs := flag.Int("runs", 4, "retry: runs (minimum gap over runs)")
	out := flag.String("out", "", "replay file written when a failing input is found")
	prop := flag.String("prop", "C17", "retry: which property the caller searches a failing input for (C17: retry delay; C15: blocked goroutine)")
	flag.Parse()
	nodesim.InstallPointFn()
	d, err := harness.StartDriver(*driver)
	if err != nil {
		fmt.Fprintln(os.Stderr, "driver:", err)
		os.Exit(2)
	}
	defer d.Close()
	st := nodesim.NewStats()
	w, err := nodesim.NewWorld(rand.New(rand.NewSource(*seed)), d, st)
	if err != nil {
		fmt.Fprintln(os.Stderr, "setup:", err)
		os.Exit(2)
	}
	defer w.Destroy()
	if !leaderUp(w) || len(st.Disagreements) > 0 {
		fmt.Println("livestress: could not bring up a leader")
		os.Exit(2)
	}
	found := map[string]interface{}(nil)
	switch *mode {
	case "notify":
		start := time.Now()
		done, stuck := w.Node.NotifyStress(*rounds, *patience)
		fmt.Printf("livestress notify: %d/%d calls of leader.notifyFlr completed, stuck=%v, %.1fs\n", done, *rounds, stuck, time.Since(start).Seconds())
		if stuck {
			found = map[string]interface{}{"engine": "livestress", "mode": "notify", "property_failed": "C15", "seed": *seed,
				"note":  fmt.Sprintf("leader.notifyFlr blocked forever after %d completed calls while the replication goroutines kept receiving from leaderUpdateCh: the state loop is deadlocked", done),
				"rerun": fmt.Sprintf("livestress -mode notify -rounds %d", *rounds)}
		}
	case "retry":
		var mins []time.Duration
		for k := 0; k < *runs; k++ {
			vr := w.Node.NewRepl(raft.VCNode{ID: 2, Addr: nodesim.AddrOf(2), Voter: true})
			gaps, end := vr.RunRetry(*hb, *dials, 6*time.Second)
			fmt.Printf("livestress retry: run %d end=%s gaps=%v\n", k, end, gaps)
			if *prop == "C15" && end != "dials" {
				found = map[string]interface{}{"engine": "livestress", "mode": "retry", "property_failed": "C15", "seed": *seed,
					"note":  fmt.Sprintf("the real replication.runLoop against an unreachable peer made only %d of %d connection attempts and then stopped making progress (end=%s): the goroutine is blocked forever — after its retry timer fired once, the next safeTimer.reset waits in stop() for a value that was already received", len(gaps)+1, *dials, end),
					"rerun": fmt.Sprintf("livestress -mode retry -prop C15 -hb %v -dials %d", *hb, *dials)}
				break
			}
			for i, g := range gaps {
				if i >= len(mins) {
					mins = append(mins, g)
				} else if g < mins[i] {
					mins[i] = g
				}
			}
		}
		for i, g := range mins {
			if *prop == "C17" && found == nil && g >= *hb {
				found = map[string]interface{}{"engine": "livestress", "mode": "retry", "property_failed": "C17", "seed": *seed,
					"note":     fmt.Sprintf("with heartbeat timeout %v the real runLoop waited at least %v between its connection attempts %d and %d (minimum over %d runs): not shorter than the minimal election timeout %v, a follower that became reachable again times out before the leader retries", *hb, g, i+1, i+2, *runs, *hb),
					"min_gaps": fmt.Sprint(mins), "rerun": fmt.Sprintf("livestress -mode retry -hb %v -dials %d -runs %d", *hb, *dials, *runs)}
				break
			}
		}
		fmt.Printf("livestress retry: minimal gaps %v, heartbeat timeout %v\n", mins, *hb)
	}
	if *mode == "deadline" || (*mode == "retry" && *prop == "C17" && found == nil) {
		// the real replication.deadlineSize: is the write deadline of a payload reachable at the declared bandwidth?
		vr := w.Node.NewRepl(raft.VCNode{ID: 2, Addr: nodesim.AddrOf(2), Voter: true})
		for _, c := range []struct{ size, bw int64 }{{256 << 10, 16 << 10}, {1 << 20, 64 << 10}, {64 << 10, 1 << 20}} {
			hbt := time.Second
			got := vr.WriteTimeoutFor(c.size, c.bw, hbt)
			need := time.Duration(float64(c.size) / float64(c.bw) * 1e9)
			fmt.Printf("livestress deadline: payload %dB, declared bandwidth %dB/s, hbTimeout %v: write timeout %v, the declared bandwidth needs %v\n", c.size, c.bw, hbt, got.Round(time.Millisecond), need)
			if got+50*time.Millisecond < need && found == nil {
				found = map[string]interface{}{"engine": "livestress", "mode": "deadline", "property_failed": "C17", "seed": *seed,
					"note":  fmt.Sprintf("the real replication.deadlineSize gives a payload of %d bytes a write timeout of %v although a link delivering the declared Options.Bandwidth of %d B/s needs %v: every attempt to send such a batch or snapshot times out, the same payload is resent with the same deadline, a lagging follower never catches up", c.size, got.Round(time.Millisecond), c.bw, need),
					"rerun": "livestress -mode deadline"}
			}
		}
	}
	if found != nil {
		if *out != "" {
			_ = os.MkdirAll(filepath.Dir(*out), 0755)
			b, _ := json.MarshalIndent(found, "", " ")
			_ = ioutil.WriteFile(*out, b, 0644)
		}
		fmt.Println("FOUND", found["note"])
		os.Exit(1)
	}
}
