// conndiff: property C20 — identity handshake isolation and storage-directory exclusivity.
//
// Connection part: the REAL connPool.getConn/doRPC/returnConn/closeAll, resolver.update/lookupID,
// Raft.getConnPool, server.serve/handleConn and the identity branch of Raft.replyRPC run over
// in-memory net.Pipe connections (hooks in /repo/verif_conn.go). A scenario is a list of
// operations; the same list goes to the Lean model (Raft.Conn), and after every operation the
// error class the dialer saw, the open/closed/pooled state of every connection and the requests
// that reached onRequest (and at which listener) are compared.  Independently of the model the
// property is evaluated on the real outcome.
//
// Lock part: lockDir/unlockDir/SetIdentity/New/Serve (all real) on temp dirs against Raft.Lock,
// plus N goroutines racing the real lockDir.
package main

import (
	"encoding/json"
	"flag"
	"fmt"
	"io/ioutil"
	"math/rand"
	"os"
	"path/filepath"
	"sort"
	"strings"
	"sync"
	"time"

	raft "github.com/santhosh-tekuri/raft"

	"verif/internal/harness"
)

type M = map[string]interface{}

// ---------------------------------------------------------------------------------- scenarios

type Scenario struct {
	Part      string `json:"part"` // "conn" | "lock"
	Seed      int64  `json:"seed"`
	Listeners []M    `json:"listeners,omitempty"`
	Dialers   []M    `json:"dialers,omitempty"`
	Stored    []int  `json:"stored,omitempty"`
	Locked    bool   `json:"locked,omitempty"`
	Ops       []M    `json:"ops"`
}

func num(m M, k string) int {
	switch v := m[k].(type) {
	case int:
		return v
	case int64:
		return int(v)
	case uint64:
		return int(v)
	case float64:
		return int(v)
	case json.Number:
		i, _ := v.Int64()
		return int(i)
	}
	return 0
}

func str(m M, k string) string { s, _ := m[k].(string); return s }

func addrName(a int) string {
	if a < 0 {
		return ""
	}
	return fmt.Sprintf("a%d", a)
}

func addrNum(s string) int {
	var a int
	if _, err := fmt.Sscanf(s, "a%d", &a); err != nil {
		return -1
	}
	return a
}

// identities: equal cid / different nid, different cid / equal nid, identical pairs all occur
var cids = []int{7, 8}
var nids = []int{1, 2, 3}

func genConn(rng *rand.Rand, seed int64) *Scenario {
	sc := &Scenario{Part: "conn", Seed: seed}
	nl := 2 + rng.Intn(3)
	naddr := 4
	used := map[int]bool{}
	at := map[int][2]int{} // generator's view: address -> identity listening there
	for i := 0; i < nl; i++ {
		a := rng.Intn(naddr)
		for used[a] {
			a = rng.Intn(naddr)
		}
		used[a] = true
		id := [2]int{cids[rng.Intn(len(cids))], nids[rng.Intn(len(nids))]}
		at[a] = id
		sc.Listeners = append(sc.Listeners, M{"addr": a, "cid": id[0], "nid": id[1]})
	}
	// pickAddr: the right address for (dialer d, nid) half of the time if there is one, else any
	pickAddr := func(d, nid int) int {
		if rng.Intn(2) == 0 {
			good := []int{}
			for a := 0; a < naddr; a++ {
				if id, ok := at[a]; ok && id[0] == num(sc.Dialers[d], "cid") && id[1] == nid {
					good = append(good, a)
				}
			}
			if len(good) > 0 {
				return good[rng.Intn(len(good))]
			}
		}
		return rng.Intn(naddr)
	}
	nd := 1 + rng.Intn(3)
	for i := 0; i < nd; i++ {
		sc.Dialers = append(sc.Dialers, M{"cid": cids[rng.Intn(len(cids))], "nid": nids[rng.Intn(len(nids))], "max": 1, "resolver": rng.Intn(2) == 0})
	}
	// start with an address map that is right for some destinations and wrong for others
	for d := 0; d < nd; d++ {
		binds := [][]int{}
		for _, n := range nids {
			if rng.Intn(4) > 0 {
				binds = append(binds, []int{n, pickAddr(d, n)})
			}
		}
		sc.Ops = append(sc.Ops, M{"op": "config", "d": d, "binds": binds})
	}
	nops := 6 + rng.Intn(30)
	gets, raws := 0, 0
	for i := 0; i < nops; i++ {
		d := rng.Intn(nd)
		dest := nids[rng.Intn(len(nids))]
		kind := 1 + rng.Intn(4)
		switch x := rng.Intn(100); {
		case x < 34:
			sc.Ops = append(sc.Ops, M{"op": "rpc", "d": d, "dest": dest, "kind": kind})
		case x < 44:
			binds := [][]int{}
			seen := map[int]bool{}
			for k := 1 + rng.Intn(2); k > 0; k-- {
				n := nids[rng.Intn(len(nids))]
				if !seen[n] {
					seen[n] = true
					binds = append(binds, []int{n, pickAddr(d, n)})
				}
			}
			sc.Ops = append(sc.Ops, M{"op": "config", "d": d, "binds": binds})
		case x < 52:
			if sc.Dialers[d]["resolver"].(bool) {
				a := pickAddr(d, dest)
				if rng.Intn(5) == 0 {
					a = -1
				}
				sc.Ops = append(sc.Ops, M{"op": "resolver", "d": d, "nid": dest, "addr": a})
			}
		case x < 56:
			sc.Ops = append(sc.Ops, M{"op": "lookup", "d": d, "nid": dest})
		case x < 64:
			sc.Ops = append(sc.Ops, M{"op": "get", "d": d, "dest": dest})
			gets++
		case x < 72:
			if gets > 0 {
				slot := gets - 1 // mostly the connection fetched last
				if rng.Intn(3) == 0 {
					slot = rng.Intn(gets)
				}
				sc.Ops = append(sc.Ops, M{"op": "use", "slot": slot, "kind": kind})
			}
		case x < 78:
			if gets > 0 {
				slot := gets - 1
				if rng.Intn(3) == 0 {
					slot = rng.Intn(gets)
				}
				sc.Ops = append(sc.Ops, M{"op": "put", "slot": slot})
			}
		case x < 81:
			sc.Ops = append(sc.Ops, M{"op": "closeAll", "d": d, "dest": dest})
		case x < 89:
			a := rng.Intn(naddr)
			id := [2]int{cids[rng.Intn(len(cids))], nids[rng.Intn(len(nids))]}
			at[a] = id
			sc.Ops = append(sc.Ops, M{"op": "start", "addr": a, "cid": id[0], "nid": id[1]})
		case x < 92:
			a := rng.Intn(naddr)
			delete(at, a)
			sc.Ops = append(sc.Ops, M{"op": "stop", "addr": a})
		case x < 95:
			sc.Ops = append(sc.Ops, M{"op": "rawdial", "addr": rng.Intn(naddr)})
			raws++
		default:
			if raws > 0 {
				k := rng.Intn(5)
				sc.Ops = append(sc.Ops, M{"op": "rawsend", "slot": rng.Intn(raws), "kind": k, "src": 1 + rng.Intn(3),
					"cid": cids[rng.Intn(len(cids))], "nid": nids[rng.Intn(len(nids))]})
			}
		}
	}
	return sc
}

func genLock(rng *rand.Rand, seed int64) *Scenario {
	sc := &Scenario{Part: "lock", Seed: seed}
	switch rng.Intn(5) {
	case 0, 1:
		sc.Stored = []int{0, 0}
	case 2:
		sc.Stored = []int{cids[rng.Intn(2)], nids[rng.Intn(3)]}
	case 3:
		sc.Stored = []int{cids[rng.Intn(2)], 0} // not producible through the API; exercises the `&&`
	default:
		sc.Stored = []int{0, nids[rng.Intn(3)]}
	}
	sc.Locked = rng.Intn(6) == 0
	nops := 4 + rng.Intn(14)
	tried := []int{}   // slots that called lockDir
	started := []int{} // slots that called Serve
	for i := 0; i < nops; i++ {
		p := rng.Intn(4)
		switch x := rng.Intn(100); {
		case x < 18:
			sc.Ops = append(sc.Ops, M{"op": "lock", "p": p})
			tried = append(tried, p)
		case x < 30:
			if len(tried) > 0 && rng.Intn(4) > 0 {
				p = tried[rng.Intn(len(tried))]
			}
			sc.Ops = append(sc.Ops, M{"op": "unlock", "p": p})
		case x < 33:
			sc.Ops = append(sc.Ops, M{"op": "rogueUnlock"})
		case x < 63:
			cid, nid := cids[rng.Intn(2)], nids[rng.Intn(3)]
			if rng.Intn(8) == 0 {
				cid = 0
			}
			if rng.Intn(8) == 0 {
				nid = 0
			}
			sc.Ops = append(sc.Ops, M{"op": "setid", "p": p, "cid": cid, "nid": nid})
		case x < 75:
			sc.Ops = append(sc.Ops, M{"op": "new"})
		case x < 83:
			sc.Ops = append(sc.Ops, M{"op": "serveStart", "p": p})
			started = append(started, p)
		case x < 90:
			if len(started) > 0 && rng.Intn(4) > 0 {
				p = started[rng.Intn(len(started))]
			}
			sc.Ops = append(sc.Ops, M{"op": "serveEnd", "p": p})
		default:
			n := 2 + rng.Intn(5)
			procs := []int{}
			pos := map[int]int{}
			for k := 0; k < n; k++ {
				procs = append(procs, 10+k)
			}
			names := []string{"create", "link", "stat", "cleanup"}
			evs := [][]interface{}{}
			for left := 4 * n; left > 0; {
				q := procs[rng.Intn(n)]
				if pos[q] < 4 {
					evs = append(evs, []interface{}{names[pos[q]], q})
					pos[q]++
					left--
				}
			}
			for _, q := range procs {
				evs = append(evs, []interface{}{"unlock", q})
			}
			sc.Ops = append(sc.Ops, M{"op": "micro", "procs": procs, "evs": evs})
		}
	}
	return sc
}

// ---------------------------------------------------------------------------------- real runs

type result struct {
	real      M      // same shape as the model's answer
	modelReq  M      // request for the driver (slots resolved to connection ids)
	propFail  string // non-empty: the property itself failed on the real outcome
	findKey   string // stable key of that failure
	keys      []string
	nontriv   []bool
	histogram []string
	panicSite string
}

func recoverTo(r *result, site string) {
	if v := recover(); v != nil {
		r.panicSite = fmt.Sprintf("panic:%s:%v", site, v)
	}
}

func runConn(sc *Scenario) (res *result) {
	res = &result{}
	defer recoverTo(res, "conn")
	net := raft.NewVerifNet()
	defer net.Close()
	for _, l := range sc.Listeners {
		net.StartListener(addrName(num(l, "addr")), uint64(num(l, "cid")), uint64(num(l, "nid")))
	}
	var dialers []*raft.VerifDialer
	for _, d := range sc.Dialers {
		wr, _ := d["resolver"].(bool)
		dialers = append(dialers, net.NewDialer(uint64(num(d, "cid")), uint64(num(d, "nid")), wr))
	}
	type held struct {
		d, dest, handle, pipe int
		live                  bool
	}
	var gets []held
	type rawc struct {
		c    *raft.VerifRawConn
		pipe int
	}
	var raws []rawc
	steps := []interface{}{}
	mops := []interface{}{}
	connState := func() []raft.VerifPipeState {
		if !net.Quiesce() {
			panic("listener side did not quiesce")
		}
		return net.Pipes()
	}
	prevPipes := connState()
	for _, op := range sc.Ops {
		name := str(op, "op")
		out := M{}
		mop := M{}
		for k, v := range op {
			mop[k] = v
		}
		key := name
		switch name {
		case "config":
			m := map[uint64]string{}
			if bl, ok := op["binds"].([][]int); ok {
				for _, b := range bl {
					m[uint64(b[0])] = addrName(b[1])
				}
			} else if bl, ok := op["binds"].([]interface{}); ok {
				for _, b := range bl {
					bb := b.([]interface{})
					m[uint64(num(M{"x": bb[0]}, "x"))] = addrName(num(M{"x": bb[1]}, "x"))
				}
			}
			dialers[num(op, "d")].UpdateConfig(m)
			out["out"] = "ok"
		case "resolver":
			a := num(op, "addr")
			dialers[num(op, "d")].SetResolver(uint64(num(op, "nid")), addrName(a), a >= 0)
			out["out"] = "ok"
		case "lookup":
			out["out"] = addrNum(dialers[num(op, "d")].Lookup(uint64(num(op, "nid"))))
		case "rpc":
			d := dialers[num(op, "d")]
			pooledBefore := d.PoolLen(uint64(num(op, "dest")))
			cls, err := d.DoRPC(uint64(num(op, "dest")), num(op, "kind"))
			if err != nil {
				panic(err)
			}
			out["out"] = cls
			key = fmt.Sprintf("rpc k%d %s pooled%d", num(op, "kind"), cls, pooledBefore)
		case "get":
			d := dialers[num(op, "d")]
			pooledBefore := d.PoolLen(uint64(num(op, "dest")))
			h, pipe, cls := d.GetConn(uint64(num(op, "dest")))
			gets = append(gets, held{num(op, "d"), num(op, "dest"), h, pipe, h >= 0})
			out["out"], out["conn"] = cls, pipe
			key = fmt.Sprintf("get %s pooled%d", cls, pooledBefore)
		case "use":
			g := held{handle: -1, pipe: 9999}
			slot := num(op, "slot")
			if slot < len(gets) {
				g = gets[slot]
			}
			cls := "noConn"
			mop["conn"] = 9999
			if g.live {
				var err error
				if cls, err = dialers[g.d].Use(g.handle, num(op, "kind")); err != nil {
					panic(err)
				}
				mop["conn"] = connID(g.pipe)
				if cls != "ok" {
					gets[slot].live = false
				}
			}
			out["out"] = cls
			key = fmt.Sprintf("use k%d %s", num(op, "kind"), cls)
		case "put":
			g := held{handle: -1, pipe: 9999}
			slot := num(op, "slot")
			if slot < len(gets) {
				g = gets[slot]
			}
			did := false
			if g.live {
				did = dialers[g.d].ReturnConn(uint64(g.dest), g.handle)
				gets[slot].live = false
			}
			out["out"] = "ok"
			if did {
				mop["conn"] = connID(g.pipe)
			} else {
				mop["conn"] = 9999
			}
			key = fmt.Sprintf("put %v", did)
		case "closeAll":
			dialers[num(op, "d")].CloseAll(uint64(num(op, "dest")))
			out["out"] = "ok"
		case "start":
			net.StartListener(addrName(num(op, "addr")), uint64(num(op, "cid")), uint64(num(op, "nid")))
			out["out"] = "ok"
		case "stop":
			net.StopListener(addrName(num(op, "addr")))
			out["out"] = "ok"
		case "rawdial":
			rc, ok := net.RawDial(addrName(num(op, "addr")))
			if ok {
				raws = append(raws, rawc{rc, rc.Pipe})
				out["out"], out["conn"] = "ok", rc.Pipe
			} else {
				raws = append(raws, rawc{nil, 9999})
				out["out"], out["conn"] = "dialErr", -1
			}
			key = "rawdial " + str(out, "out")
		case "rawsend":
			r := rawc{nil, 9999}
			if s := num(op, "slot"); s < len(raws) {
				r = raws[s]
			}
			o := "err"
			if r.c != nil {
				o = r.c.Send(num(op, "kind"), uint64(num(op, "src")), uint64(num(op, "cid")), uint64(num(op, "nid")))
			}
			out["out"] = o
			mop["conn"] = r.pipe
			key = fmt.Sprintf("rawsend k%d %s", num(op, "kind"), o)
		default:
			panic("unknown op " + name)
		}
		pipes := connState()
		out["conns"] = pipes
		out["nproc"] = len(net.Processed())
		steps = append(steps, out)
		mops = append(mops, mop)
		// how the connection table changed is part of the outcome class
		key += fmt.Sprintf(" | +%d conns", len(pipes)-len(prevPipes))
		for i, p := range prevPipes {
			q := pipes[i]
			if p.DialerClosed != q.DialerClosed || p.ListenerClosed != q.ListenerClosed || p.Pooled != q.Pooled {
				key += fmt.Sprintf(" [%v%v%v>%v%v%v]", b2i(p.DialerClosed), b2i(p.ListenerClosed), b2i(p.Pooled), b2i(q.DialerClosed), b2i(q.ListenerClosed), b2i(q.Pooled))
			}
		}
		if len(pipes) > len(prevPipes) {
			key += " " + relation(net, pipes[len(pipes)-1], sc)
		}
		prevPipes = pipes
		res.keys = append(res.keys, key)
		res.nontriv = append(res.nontriv, name != "config" && name != "resolver" && name != "lookup")
		res.histogram = append(res.histogram, name+":"+fmt.Sprint(out["out"]))
	}
	for _, r := range raws {
		if r.c != nil {
			r.c.Close()
		}
	}
	processed := net.Processed()
	res.real = M{"steps": steps, "processed": processed}
	res.modelReq = M{"engine": "conn", "part": "conn", "listeners": sc.Listeners, "dialers": sc.Dialers, "ops": mops}

	// the property itself, on what the real code did
	pidIdent := map[int][2]uint64{}
	for _, p := range processed {
		pidIdent[p.PID] = [2]uint64{p.ListenerCID, p.ListenerNID}
		if p.Lib && (p.ListenerCID != p.IntendedCID || p.ListenerNID != p.IntendedNID) {
			res.propFail = fmt.Sprintf("request kind %d written by dialer (%d,%d) for (%d,%d) on connection %d was processed by listener (%d,%d)",
				p.Kind, p.SrcCID, p.SrcNID, p.IntendedCID, p.IntendedNID, p.Conn, p.ListenerCID, p.ListenerNID)
		}
		if p.Lib && p.SrcCID != p.ListenerCID {
			res.propFail = fmt.Sprintf("listener of cluster %d processed a request from a dialer of cluster %d", p.ListenerCID, p.SrcCID)
		}
	}
	return res
}

func connID(pipe int) int {
	if pipe < 0 {
		return 9999
	}
	return pipe
}

func b2i(b bool) int {
	if b {
		return 1
	}
	return 0
}

// relation classifies a freshly dialled connection: does the listener match the intended identity?
func relation(net *raft.VerifNet, p raft.VerifPipeState, sc *Scenario) string {
	if !p.Lib {
		return "raw"
	}
	lc, ln := listenerIdent(sc, p.PID)
	switch {
	case lc == int(p.IntendedCID) && ln == int(p.IntendedNID):
		return "match"
	case lc == int(p.IntendedCID):
		return "sameCid"
	case ln == int(p.IntendedNID):
		return "sameNid"
	}
	return "foreign"
}

// listenerIdent replays the start order to find the identity of process pid.
func listenerIdent(sc *Scenario, pid int) (int, int) {
	i := 0
	for _, l := range sc.Listeners {
		if i == pid {
			return num(l, "cid"), num(l, "nid")
		}
		i++
	}
	for _, op := range sc.Ops {
		if str(op, "op") == "start" {
			if i == pid {
				return num(op, "cid"), num(op, "nid")
			}
			i++
		}
	}
	return -1, -1
}

func lockClass(err error) string {
	switch {
	case err == nil:
		return "ok"
	case err == raft.ErrLockExists:
		return "lockExists"
	case err == raft.ErrIdentityAlreadySet:
		return "alreadySet"
	case err == raft.ErrIdentityNotSet:
		return "identityNotSet"
	case err == raft.ErrServerClosed:
		return "serverClosed"
	case strings.Contains(err.Error(), "cid is zero"):
		return "cidZero"
	case strings.Contains(err.Error(), "nid is zero"):
		return "nidZero"
	}
	return "ioErr"
}

func lockOptions() raft.Options {
	opt := raft.DefaultOptions()
	opt.LogSegmentSize = 4096
	opt.Logger = nil
	return opt
}

var tempRoot string
var corpusDir string

func runLock(sc *Scenario) (res *result) {
	res = &result{}
	defer recoverTo(res, "lock")
	dir, err := ioutil.TempDir(tempRoot, "lock")
	if err != nil {
		panic(err)
	}
	defer os.RemoveAll(dir)
	if sc.Stored[0] != 0 || sc.Stored[1] != 0 {
		if err := ioutil.WriteFile(filepath.Join(dir, fmt.Sprintf("%d-%d.id", sc.Stored[0], sc.Stored[1])), nil, 0600); err != nil {
			panic(err)
		}
	}
	if sc.Locked {
		if err := ioutil.WriteFile(filepath.Join(dir, "lock"), []byte("stale\n"), 0600); err != nil {
			panic(err)
		}
	}
	holders := map[int]bool{}
	serving := map[int]*raft.VerifServing{}
	defer func() {
		for _, s := range serving {
			_ = s.Stop()
		}
	}()
	stored := func() [2]int {
		c, n, err := raft.VerifStoredIdentity(dir)
		if err != nil {
			panic(err)
		}
		return [2]int{int(c), int(n)}
	}
	locked := func() bool { _, err := os.Lstat(filepath.Join(dir, "lock")); return err == nil }
	prev := stored()
	steps := []interface{}{}
	mops := []interface{}{}
	for _, op := range sc.Ops {
		name := str(op, "op")
		p := num(op, "p")
		out := M{}
		skip := false
		lockedBefore := locked()
		switch name {
		case "lock":
			if holders[p] {
				skip = true
				break
			}
			cls := lockClass(raft.VerifLockDir(dir))
			if cls == "ok" {
				holders[p] = true
			}
			out["out"] = cls
		case "unlock":
			if !holders[p] || serving[p] != nil {
				skip = true
				break
			}
			_ = raft.VerifUnlockDir(dir)
			delete(holders, p)
			out["out"] = "ok"
		case "rogueUnlock":
			_ = raft.VerifUnlockDir(dir)
			out["out"] = "ok"
		case "setid":
			if holders[p] {
				skip = true
				break
			}
			cid, nid := num(op, "cid"), num(op, "nid")
			cls := lockClass(raft.SetIdentity(dir, uint64(cid), uint64(nid)))
			out["out"] = cls
			// SetIdentity must not report success for an identity the directory does not carry afterwards
			if after := stored(); cls == "ok" && (after[0] != cid || after[1] != nid) {
				res.propFail = fmt.Sprintf("SetIdentity(dir, %d, %d) returned nil but the directory stores %v", cid, nid, after)
				res.findKey = "C20-setidentity-mismatch-reported-nil"
			}
		case "new":
			c, n, err := raft.VerifNew(dir, lockOptions())
			out["out"], out["ident"] = lockClass(err), []int{int(c), int(n)}
			if err == nil && (c == 0 || n == 0) {
				res.propFail = "New succeeded on a directory without identity"
			}
		case "serveStart":
			if holders[p] {
				skip = true
				break
			}
			s, err := raft.VerifServeStart(dir, lockOptions())
			out["out"] = lockClass(err)
			if err == nil {
				serving[p], holders[p] = s, true
				if !locked() {
					res.propFail = "Serve is serving without the lock file"
				}
			}
		case "serveEnd":
			s := serving[p]
			if s == nil {
				skip = true
				break
			}
			err := s.Stop()
			delete(serving, p)
			delete(holders, p)
			if lockClass(err) != "serverClosed" {
				panic(fmt.Sprintf("Serve returned %v", err))
			}
			out["out"] = "ok"
		case "micro":
			procs := intList(op["procs"])
			results := make([]string, len(procs))
			var wg sync.WaitGroup
			start := make(chan struct{})
			for i := range procs {
				wg.Add(1)
				go func(i int) {
					defer wg.Done()
					<-start
					results[i] = lockClass(raft.VerifLockDir(dir))
				}(i)
			}
			close(start)
			wg.Wait()
			wins := 0
			for _, r := range results {
				if r == "ok" {
					wins++
				}
			}
			if wins > 1 {
				res.propFail = fmt.Sprintf("%d concurrent lockDir calls returned nil", wins)
			}
			if wins > 0 && len(holders) > 0 {
				rogue := false
				for _, o := range sc.Ops {
					if str(o, "op") == "rogueUnlock" {
						rogue = true
					}
				}
				if !rogue {
					res.propFail = "lockDir returned nil while another holder had not unlocked"
				}
			}
			if wins > 0 {
				_ = raft.VerifUnlockDir(dir)
			}
			sort.Strings(results)
			out["out"] = results
		default:
			panic("unknown op " + name)
		}
		if skip {
			continue
		}
		now := stored()
		if prev[0] != 0 && prev[1] != 0 && now != prev {
			res.propFail = fmt.Sprintf("stored identity changed from %v to %v", prev, now)
		}
		hs := []int{}
		for h := range holders {
			hs = append(hs, h)
		}
		sort.Ints(hs)
		if len(hs) > 1 {
			rogue := false
			for _, o := range sc.Ops {
				if str(o, "op") == "rogueUnlock" {
					rogue = true
				}
			}
			if !rogue {
				res.propFail = fmt.Sprintf("%d holders of one directory lock", len(hs))
			}
		}
		out["stored"], out["locked"], out["holders"] = now, locked(), hs
		steps = append(steps, out)
		mops = append(mops, op)
		res.keys = append(res.keys, fmt.Sprintf("%s %v locked%v storedZero%v/%v changed%v holders%d", name, out["out"], lockedBefore, prev[0] == 0, prev[1] == 0, now != prev, len(hs)))
		res.nontriv = append(res.nontriv, true)
		res.histogram = append(res.histogram, name+":"+fmt.Sprint(out["out"]))
		prev = now
	}
	res.real = M{"steps": steps}
	res.modelReq = M{"engine": "conn", "part": "lock", "stored": sc.Stored, "locked": sc.Locked, "ops": mops,
		"procs": []int{0, 1, 2, 3, 10, 11, 12, 13, 14, 15, 16}}
	return res
}

func intList(v interface{}) []int {
	switch x := v.(type) {
	case []int:
		return x
	case []interface{}:
		out := []int{}
		for _, e := range x {
			out = append(out, num(M{"x": e}, "x"))
		}
		return out
	}
	return nil
}

// ---------------------------------------------------------------------------------- comparison

type outcome struct {
	disagreement M
	res          *result
	setidMisrep  int
}

// sortMicro puts the model's per-process results of a "micro" op in sorted order (the real race has
// no process order) — everything else is compared as is.
func normalizeModel(ans M) {
	delete(ans, "id")
	steps, _ := ans["steps"].([]interface{})
	for _, s := range steps {
		m, ok := s.(map[string]interface{})
		if !ok {
			continue
		}
		if l, ok := m["out"].([]interface{}); ok {
			ss := []string{}
			for _, e := range l {
				ss = append(ss, fmt.Sprint(e))
			}
			sort.Strings(ss)
			o := []interface{}{}
			for _, e := range ss {
				o = append(o, e)
			}
			m["out"] = o
		}
	}
}

func check(d *harness.Driver, sc *Scenario) *outcome {
	var res *result
	if sc.Part == "conn" {
		res = runConn(sc)
	} else {
		res = runLock(sc)
	}
	oc := &outcome{res: res}
	if res.panicSite != "" {
		oc.disagreement = M{"case": sc, "real": res.panicSite, "model": nil, "property_failed": nil, "note": "the real code (or the hook layer) panicked"}
		return oc
	}
	ans, err := d.Ask(res.modelReq)
	if err != nil {
		oc.disagreement = M{"case": sc, "real": res.real, "model": fmt.Sprint(err), "property_failed": nil, "note": "driver error"}
		return oc
	}
	if res.findKey == "C20-setidentity-mismatch-reported-nil" {
		oc.setidMisrep++
	}
	normalizeModel(ans)
	real := harness.ToCanon(res.real)
	if res.propFail != "" {
		key := res.findKey
		if key == "" {
			key = "C20-" + sc.Part + "-property"
		}
		oc.disagreement = M{"case": sc, "real": real, "model": ans, "property_failed": "C20", "note": res.propFail, "finding_key": key}
		return oc
	}
	if !harness.Equal(real, ans) {
		oc.disagreement = M{"case": sc, "real": real, "model": ans, "property_failed": nil,
			"note": "model and implementation differ: " + strings.Join(harness.Diff(real, ans), "; ")}
	}
	return oc
}

// shrink removes operations while the scenario still fails in the same way.
func shrink(d *harness.Driver, sc *Scenario, failed func(*outcome) bool) *Scenario {
	cur := *sc
	for changed := true; changed; {
		changed = false
		for i := len(cur.Ops) - 1; i >= 0; i-- {
			cand := cur
			cand.Ops = append(append([]M{}, cur.Ops[:i]...), cur.Ops[i+1:]...)
			if failed(check(d, &cand)) {
				cur = cand
				changed = true
			}
		}
	}
	return &cur
}

// ---------------------------------------------------------------------------------- lockDir race

// raceLock: `rounds` times, n goroutines call the real lockDir on one directory at the same moment.
func raceLock(rng *rand.Rand, rounds int) (evals int, maxHolders int, note string) {
	dir, err := ioutil.TempDir(tempRoot, "race")
	if err != nil {
		return 0, 0, err.Error()
	}
	defer os.RemoveAll(dir)
	for r := 0; r < rounds; r++ {
		n := 2 + rng.Intn(15)
		results := make([]error, n)
		var wg sync.WaitGroup
		start := make(chan struct{})
		for i := 0; i < n; i++ {
			wg.Add(1)
			go func(i int) {
				defer wg.Done()
				<-start
				results[i] = raft.VerifLockDir(dir)
			}(i)
		}
		close(start)
		wg.Wait()
		wins := 0
		for _, e := range results {
			if e == nil {
				wins++
			} else if e != raft.ErrLockExists {
				note = "unexpected lockDir error: " + e.Error()
			}
		}
		if wins > maxHolders {
			maxHolders = wins
		}
		if wins != 1 && note == "" {
			note = fmt.Sprintf("round %d: %d of %d concurrent lockDir calls returned nil", r, wins, n)
		}
		// a late comer while the winner still holds must fail
		if raft.VerifLockDir(dir) == nil {
			maxHolders = 2
			note = "lockDir returned nil while the lock was held"
		}
		_ = raft.VerifUnlockDir(dir)
		m, _ := filepath.Glob(filepath.Join(dir, "*"))
		if len(m) != 0 && note == "" {
			note = fmt.Sprintf("files left after unlock: %v", m)
		}
		evals += n + 1
	}
	return
}

// ---------------------------------------------------------------------------------- main

func main() {
	driver := flag.String("driver", "/verif/lean/.lake/build/bin/driver", "model driver")
	seed := flag.Int64("seed", 1, "seed")
	tier := flag.String("tier", "quick", "quick|thorough")
	report := flag.String("report", "", "report file")
	replay := flag.String("replay", "", "replay file")
	_ = flag.String("props", "", "ignored (the engine serves C20 only)")
	replayDir := flag.String("replaydir", "/verif/replays", "where failing cases are written")
	nconn := flag.Int("conn", 0, "number of connection scenarios (0 = tier default)")
	nlock := flag.Int("lock", 0, "number of lock scenarios (0 = tier default)")
	nrace := flag.Int("race", 0, "number of lockDir race rounds (0 = tier default)")
	flag.StringVar(&corpusDir, "corpus", "/verif/go/conndiff/corpus", "regression scenarios, run first; each must pass")
	flag.Parse()

	var err error
	if tempRoot, err = ioutil.TempDir("", "conndiff"); err != nil {
		fmt.Fprintln(os.Stderr, err)
		os.Exit(2)
	}
	code := run(*driver, *seed, *tier, *report, *replay, *replayDir, *nconn, *nlock, *nrace)
	_ = os.RemoveAll(tempRoot)
	os.Exit(code)
}

func run(driver string, seed int64, tier, report, replay, replayDir string, nconn, nlock, nrace int) int {
	start := time.Now()
	raft.VerifRPCTimeout = 10 * time.Second
	d, err := harness.StartDriver(driver)
	if err != nil {
		fmt.Fprintln(os.Stderr, "driver:", err)
		return 2
	}
	defer d.Close()

	if replay != "" {
		sc, err := readCase(replay)
		if err != nil {
			fmt.Fprintln(os.Stderr, err)
			return 2
		}
		oc := check(d, sc)
		if oc.disagreement != nil {
			out, _ := json.MarshalIndent(oc.disagreement, "", " ")
			fmt.Println(string(out))
			return 1
		}
		fmt.Println("replay: no disagreement")
		return 0
	}

	cN, lN, rN := 4000, 1100, 600
	if tier == "thorough" {
		cN, lN, rN = 90000, 22000, 20000
	}
	if nconn > 0 {
		cN = nconn
	}
	if nlock > 0 {
		lN = nlock
	}
	if nrace > 0 {
		rN = nrace
	}

	rep := &harness.Report{Engine: "conndiff", Seed: seed, Tier: tier, Histogram: map[string]int{},
		Rule: "one evaluation = one operation of a scenario executed by the real code (connPool/resolver/server.handleConn/replyRPC identity branch over net.Pipe; " +
			"lockDir/unlockDir/SetIdentity/New/Serve on a temp dir) and compared with the Lean model after the listener side is quiescent, plus one per lockDir call of the race rounds; " +
			"distinct = (operation, error class, pool state before, how the open/closed/pooled flags of every connection changed, identity relation of a newly dialled connection) " +
			"resp. (operation, result, lock/identity state before and after); trivial = config/resolver/lookup bookkeeping operations"}
	distinct := map[string]bool{}
	misrep := 0 // SetIdentity mis-reports seen on the real code: must stay 0 (a hit is a C20 failure)
	record := func(sc *Scenario, oc *outcome) bool {
		for i, k := range oc.res.keys {
			rep.Evaluations++
			if oc.res.nontriv[i] {
				distinct[sc.Part+" "+k] = true
			}
			rep.Histogram[sc.Part+"."+oc.res.histogram[i]]++
		}
		misrep += oc.setidMisrep
		if len(rep.Samples) < 4 && len(sc.Ops) > 5 && rep.Evaluations%7 == 0 {
			rep.Samples = append(rep.Samples, M{"case": sc, "real": oc.res.real})
		}
		if oc.disagreement == nil {
			return true
		}
		pf := oc.disagreement["property_failed"]
		small := shrink(d, sc, func(o *outcome) bool {
			return o.disagreement != nil && o.disagreement["property_failed"] == pf
		})
		final := check(d, small)
		dg := final.disagreement
		if dg == nil {
			dg = oc.disagreement
		}
		_ = os.MkdirAll(replayDir, 0755)
		path := filepath.Join(replayDir, fmt.Sprintf("conndiff-%d-%d.json", seed, len(rep.Disagreements)))
		b, _ := json.MarshalIndent(dg, "", " ")
		_ = ioutil.WriteFile(path, b, 0644)
		dg["replay"] = path
		rep.Disagreements = append(rep.Disagreements, dg)
		return len(rep.Disagreements) < 5
	}

	corpusN := 0
	if files, _ := filepath.Glob(filepath.Join(corpusDir, "*.json")); len(files) > 0 {
		sort.Strings(files)
		for _, f := range files {
			sc, err := readCase(f)
			if err != nil {
				fmt.Fprintln(os.Stderr, "corpus:", f, err)
				return 2
			}
			corpusN++
			before := len(rep.Disagreements)
			more := record(sc, check(d, sc))
			for _, dg := range rep.Disagreements[before:] {
				dg["corpus"] = f
			}
			if !more {
				break
			}
		}
	}
	for i := 0; i < cN && len(rep.Disagreements) < 5; i++ {
		s := seed*1000003 + int64(i)
		if !record2(record, d, genConn(rand.New(rand.NewSource(s)), s)) {
			break
		}
	}
	for i := 0; i < lN && len(rep.Disagreements) < 5; i++ {
		s := seed*2000003 + int64(i)
		if !record2(record, d, genLock(rand.New(rand.NewSource(s)), s)) {
			break
		}
	}
	raceEvals, maxHolders, note := raceLock(rand.New(rand.NewSource(seed*3000017)), rN)
	rep.Evaluations += raceEvals
	rep.Histogram["race.lockDir"] = raceEvals
	if maxHolders > 1 {
		rep.Disagreements = append(rep.Disagreements, M{"case": M{"part": "race", "seed": seed, "rounds": rN}, "real": note, "model": "at most one holder (lock_exclusive)",
			"property_failed": "C20", "note": note, "finding_key": "C20-lockdir-race-two-holders"})
	} else if note != "" {
		rep.Disagreements = append(rep.Disagreements, M{"case": M{"part": "race", "seed": seed, "rounds": rN}, "real": note, "model": "exactly one winner per round, nothing left behind",
			"property_failed": nil, "note": note})
	}

	rep.DistinctNontrivial = len(distinct)
	rep.WallS = time.Since(start).Seconds()
	rep.Extra = M{"conn_scenarios": cN, "lock_scenarios": lN, "race_rounds": rN, "race_max_holders": maxHolders,
		"corpus_cases": corpusN, "setid_misreports": misrep}
	if report != "" {
		if err := rep.Write(report); err != nil {
			fmt.Fprintln(os.Stderr, err)
			return 2
		}
	}
	fmt.Printf("conndiff: %d evaluations (%d corpus cases), %d distinct, %d disagreements, %.1fs (%.0f eval/s)\n",
		rep.Evaluations, corpusN, rep.DistinctNontrivial, len(rep.Disagreements), rep.WallS, float64(rep.Evaluations)/rep.WallS)
	for _, dg := range rep.Disagreements {
		fmt.Printf("DISAGREEMENT property_failed=%v note=%v replay=%v\n", dg["property_failed"], dg["note"], dg["replay"])
	}
	if len(rep.Disagreements) > 0 {
		return 1
	}
	return 0
}

// readCase reads a replay / corpus file: {"case": scenario, ...}.
func readCase(file string) (*Scenario, error) {
	b, err := ioutil.ReadFile(file)
	if err != nil {
		return nil, err
	}
	var rec struct {
		Case Scenario `json:"case"`
	}
	if err := json.Unmarshal(b, &rec); err != nil {
		return nil, err
	}
	if rec.Case.Part != "conn" && rec.Case.Part != "lock" {
		return nil, fmt.Errorf("%s: no case", file)
	}
	return &rec.Case, nil
}

func record2(record func(*Scenario, *outcome) bool, d *harness.Driver, sc *Scenario) bool {
	// scenarios go through JSON once so that generated and replayed cases have the same Go types
	b, _ := json.Marshal(sc)
	var sc2 Scenario
	dec := json.NewDecoder(strings.NewReader(string(b)))
	if err := dec.Decode(&sc2); err != nil {
		panic(err)
	}
	return record(&sc2, check(d, &sc2))
}
