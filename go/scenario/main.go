// scenario: directed histories against the REAL code, found by proof attempts (counterexamples of the model that were then
// replayed on the implementation). Every step is a real function of the library called through the verif hooks; the
// harness only plays the scheduler (which goroutine runs next), i.e. the history is one legal interleaving.
//
//	-case F19 : delayed log compaction (leader.checkLogCompact) removes a segment that the log view of a running
//	            replication still covers, because onSnapshotTaken LOWERED leader.removeLTE in between and
//	            replication.onLeaderUpdate reports a new view start only when it is HIGHER than the old one.
//	            exit 1 = reproduced (the leader's bookkeeping says the replication switched to the new view although
//	            its view starts below the compacted log, and the replication's next read faults); exit 0 = not reproduced.
package main

import (
	"flag"
	"fmt"
	"math/rand"
	"os"
	"runtime/debug"
	"strings"
	"time"

	"github.com/santhosh-tekuri/raft"
	"verif/internal/harness"
	"verif/internal/nodesim"
)

var w *nodesim.World

func die(format string, a ...interface{}) {
	fmt.Printf("scenario: setup failed: "+format+"\n", a...)
	os.Exit(2)
}

func step(op nodesim.Op) raft.VNode {
	if !w.Step(op) && w.Node.Panic != "" {
		die("node panicked on %s: %s", op.Kind, w.Node.Panic)
	}
	if len(w.St.Disagreements) > 0 {
		die("model and implementation disagree on %s: %v", op.Kind, w.St.Disagreements[0]["note"])
	}
	return w.Node.Digest()
}

func upd(us ...raft.VReplUpdate) raft.VNode {
	return step(nodesim.Op{Kind: "replUpdates", Updates: us})
}
func match(id, v uint64) raft.VReplUpdate {
	return raft.VReplUpdate{ID: id, Kind: "matchIndex", Val: v}
}
func contact(id uint64, lost bool) raft.VReplUpdate {
	return raft.VReplUpdate{ID: id, Kind: "noContact", Flag: lost}
}
func rm(id, v uint64) raft.VReplUpdate { return raft.VReplUpdate{ID: id, Kind: "removeLTE", Val: v} }

func snapshot() raft.VNode {
	step(nodesim.Op{Kind: "takeSnapshot", Task: w.NextTask(), Threshold: 0})
	step(nodesim.Op{Kind: "snapRun"})
	return step(nodesim.Op{Kind: "snapTaken"})
}

func grow(n int) raft.VNode {
	var d raft.VNode
	for i := 0; i < n; i++ {
		d = step(nodesim.Op{Kind: "newEntries", Batch: []raft.VNewEntry{{Typ: 2, Data: fmt.Sprintf("u%d-%s", w.NextTask(), strings.Repeat("x", 180)), Task: w.NextTask()}}})
	}
	return d
}

func statuses(d raft.VNode) string {
	var b strings.Builder
	for _, r := range d.Ldr.Repls {
		fmt.Fprintf(&b, " %d:{match %d removeLTE %d noContact %v}", r.ID, r.MatchIndex, r.RemoveLTE, r.NoContact)
	}
	return b.String()
}

func f19(driver string) int {
	d0, err := harness.StartDriver(driver)
	if err != nil {
		die("driver: %v", err)
	}
	defer d0.Close()
	st := nodesim.NewStats()
	w, err = nodesim.NewWorld(rand.New(rand.NewSource(1)), d0, st)
	if err != nil {
		die("%v", err)
	}
	defer w.Destroy()
	// voters 1 (the leader), 2, 3; non-voters 4 (slow: V), 5 (flapping: Z), 6 (away: W)
	cfg := raft.VConfig{Nodes: []raft.VCNode{}}
	for _, id := range []uint64{1, 2, 3} {
		cfg.Nodes = append(cfg.Nodes, raft.VCNode{ID: id, Addr: nodesim.AddrOf(id), Voter: true})
	}
	step(nodesim.Op{Kind: "changeConfig", Task: w.NextTask(), Config: &cfg})
	d := step(nodesim.Op{Kind: "timeout"})
	if d.Role == "candidate" {
		d = step(nodesim.Op{Kind: "voteResult", Src: 2, Term: d.Term, Result: 1})
	}
	if d.Role != "leader" {
		die("not leader: %s", d.Role)
	}
	d = upd(match(2, d.LastLogIndex), match(3, d.LastLogIndex))
	cfg2 := d.Configs.Latest
	cfg2.Nodes = append([]raft.VCNode{}, cfg2.Nodes...)
	for _, id := range []uint64{4, 5, 6} {
		cfg2.Nodes = append(cfg2.Nodes, raft.VCNode{ID: id, Addr: nodesim.AddrOf(id), Voter: false})
	}
	d = step(nodesim.Op{Kind: "changeConfig", Task: w.NextTask(), Config: &cfg2})
	d = upd(match(2, d.LastLogIndex), match(3, d.LastLogIndex))
	if len(d.Ldr.Repls) != 5 {
		die("expected 5 replications, have %d (%s)", len(d.Ldr.Repls), statuses(d))
	}
	// three segments
	for len(d.Log.Segs) < 3 {
		d = grow(1)
	}
	d = grow(2)
	a, b := d.Log.Segs[1], d.Log.Segs[2]
	last := d.LastLogIndex
	fmt.Printf("leader 1, term %d, log 1..%d in segments starting after %v: a=%d b=%d\n", d.Term, last, d.Log.Segs, a, b)
	if !(a > 0 && a+1 < b && b < last) {
		die("unsuitable segment layout %v", d.Log.Segs)
	}
	// the replication goroutine of the slow follower 4, played by the harness: created with the leader (view from 0);
	// follower 4 has acknowledged everything up to b and is busy with the next batch
	g := w.Node.NewRepl(raft.VCNode{ID: 4, Addr: nodesim.AddrOf(4), Voter: false})
	g.OnAppendResp(d.Term, 7, b, last) // prevEntryNotFound, its log ends at b: nextIndex = b+1
	g.OnAppendResp(d.Term, 1, 0, b)    // success up to b: matchIndex = b
	if s := g.State(); s.MatchIndex != b || s.NextIndex != b+1 {
		die("goroutine 4: match %d next %d", s.MatchIndex, s.NextIndex)
	}
	mZ := a + 1
	d = upd(match(2, last), match(3, last), match(4, b), match(5, mZ), contact(5, true), contact(6, true))
	if d.CommitIndex != last {
		die("commit index %d, expected %d", d.CommitIndex, last)
	}
	// snapshot 1: follower 6 holds nothing (nothing can be discarded at once), the followers in contact allow b
	d = snapshot()
	fmt.Printf("snapshot 1 (index %d): leader.removeLTE=%d log.prev=%d\n", d.SnapIndex, d.Ldr.RemoveLTE, d.Log.Prev)
	if d.Ldr.RemoveLTE != b {
		die("expected removeLTE %d", b)
	}
	// the replication goroutines of 2, 3, 4 and 5 take the update (5 from its back-off loop) and report; the goroutine of
	// follower 6 sleeps in its back-off timer
	o := g.LeaderUpdate(false)
	fmt.Printf("  goroutine 4 takes the update: view starts at %d, reports %v\n", g.State().ViewPrev, o.Notes)
	d = upd(rm(2, b), rm(3, b), rm(4, b), rm(5, b))
	fmt.Printf("  reports delivered:%s   log.prev=%d (goroutine 6 has not switched, nothing discarded)\n", statuses(d), d.Log.Prev)
	if d.Log.Prev != 0 {
		die("compacted too early")
	}
	// follower 5 is in contact again (its goroutine connected and starts sending it the snapshot)
	d = upd(contact(5, false))
	d = grow(1)
	last = d.LastLogIndex
	d = upd(match(2, last), match(3, last))
	// snapshot 2: the followers in contact now allow only a: the bound is LOWERED
	d = snapshot()
	fmt.Printf("snapshot 2 (index %d): leader.removeLTE=%d  <-- lowered from %d\n", d.SnapIndex, d.Ldr.RemoveLTE, b)
	if d.Ldr.RemoveLTE != a {
		die("expected removeLTE %d, got %d", a, d.Ldr.RemoveLTE)
	}
	o = g.LeaderUpdate(false)
	fmt.Printf("  goroutine 4 takes the update: view starts at %d, reports %v\n", g.State().ViewPrev, o.Notes)
	if len(o.Notes) != 0 {
		// the goroutines of 2, 3 and 5 are the same code: they report what goroutine 4 reports
		fmt.Printf("  (the replication reports the lowered view start: delivered to the leader for 2, 3, 4, 5)\n")
		d = upd(rm(2, o.Notes[0].Val), rm(3, o.Notes[0].Val), rm(4, o.Notes[0].Val), rm(5, o.Notes[0].Val))
	} else {
		fmt.Printf("  <-- no report: %d is not above %d; the leader's statuses keep %d\n", a, b, b)
	}
	// follower 5 has installed the snapshot; one more entry
	d = upd(match(5, d.SnapIndex))
	d = grow(1)
	last = d.LastLogIndex
	d = upd(match(2, last), match(3, last))
	// snapshot 3: the bound is b again
	d = snapshot()
	fmt.Printf("snapshot 3 (index %d): leader.removeLTE=%d log.prev=%d\n", d.SnapIndex, d.Ldr.RemoveLTE, d.Log.Prev)
	if d.Ldr.RemoveLTE != b {
		die("expected removeLTE %d", b)
	}
	// goroutine 6 wakes up from its back-off timer, takes the update and reports b; goroutine 4 has not polled yet
	d = upd(rm(6, b))
	fmt.Printf("  goroutine 6 reports %d:%s\n  => leader.checkLogCompact: log.prev=%d segments %v\n", b, statuses(d), d.Log.Prev, d.Log.Segs)
	if d.Log.Prev != b {
		fmt.Printf("  the leader waits: the replication of follower 4 has not reported %d yet\n", b)
		// goroutine 4 polls, takes the third update and reports; then the leader may compact
		o = g.LeaderUpdate(false)
		fmt.Printf("  goroutine 4 takes the update: view starts at %d, reports %v\n", g.State().ViewPrev, o.Notes)
		d = upd(rm(2, b), rm(3, b), rm(4, b), rm(5, b))
		fmt.Printf("  => leader.checkLogCompact: log.prev=%d; goroutine 4's view starts at %d; ViewStale=%v\n", d.Log.Prev, g.State().ViewPrev, g.ViewStale())
		if d.Log.Prev == b && !g.ViewStale() {
			fmt.Println("scenario F19: not reproduced — the leader compacted only after every replication had switched to the new view")
			return 0
		}
		fmt.Println("scenario F19: unexpected end state")
		return 2
	}
	vp := g.State().ViewPrev
	s := g.State()
	fmt.Printf("  goroutine 4 (match %d, next %d) still reads through the view starting at %d: the leader discarded (%d,%d] under it although its status says removeLTE %d; ViewStale=%v\n", s.MatchIndex, s.NextIndex, vp, vp, b, b, g.ViewStale())
	// goroutine 4 builds its next request: prevLogIndex = b, whose term it reads through its view
	debug.SetPanicOnFault(true)
	o = g.WriteAppend(false)
	fmt.Printf("  goroutine 4 writeAppendEntriesReq: err=%q panic=%q\n", o.Err, o.Panic)
	if o.Panic != "" || (o.Err != "" && o.Err != "ok" && o.Err != "notFound") {
		fmt.Printf("scenario F19: REPRODUCED — the leader compacted its log to %d while the replication of follower 4 held a view starting at %d that the leader believed replaced (status removeLTE %d); the replication's next read, of entry %d through that view, failed: %s%s\n", b, vp, b, s.NextIndex-1, o.Err, o.Panic)
		return 1
	}
	if vp < b {
		fmt.Printf("scenario F19: REPRODUCED (bookkeeping only) — the leader compacted to %d under a live view starting at %d; the read at %d returned %q\n", b, vp, s.NextIndex-1, o.Err)
		return 1
	}
	fmt.Println("scenario F19: not reproduced")
	return 0
}

// pairing: request/response pairing on a pooled connection. Replies carry no request id: they are paired with requests by
// their position on the connection, so a connection on which an RPC was given up (deadline) must never be used again —
// its late reply would be read as the answer to the next request (a vote granted for term T counted in the election of
// term T+1: C01; a success of an older append credited to a newer one: C06). The real connPool.doRPC over the in-memory
// network of the conn hooks, a listener that stamps its replies with a counter, one reply held beyond the deadline.
func pairing() int {
	nw := raft.NewVerifNet()
	nw.Buffered = true
	defer nw.Close()
	l := nw.StartListener("a2", 7, 2)
	d := nw.NewDialer(7, 1, false)
	d.UpdateConfig(map[uint64]string{2: "a2"})
	l.SetTerm(1)
	cls, t := d.DoRPCTerm(2, 1, 2*time.Second)
	fmt.Printf("vote RPC 1 (warm-up, pools the connection): %s, reply stamped %d\n", cls, t)
	if cls != "ok" || t != 1 {
		fmt.Println("scenario pairing: setup failed")
		return 2
	}
	l.SetTerm(2)
	l.SlowNext(700 * time.Millisecond)
	cls, t = d.DoRPCTerm(2, 1, 150*time.Millisecond)
	fmt.Printf("vote RPC 2 (the peer is busy, the reply comes after the deadline): %s\n", cls)
	if cls != "timeout" {
		fmt.Println("scenario pairing: setup failed (no timeout)")
		return 2
	}
	time.Sleep(900 * time.Millisecond) // the late reply (stamp 2) is on the wire now
	l.SetTerm(3)
	cls, t = d.DoRPCTerm(2, 1, 2*time.Second)
	fmt.Printf("vote RPC 3: %s, reply stamped %d (expected 3), connections pooled for the peer now: %d\n", cls, t, d.PoolLen(2))
	if cls == "ok" && t != 3 {
		fmt.Printf("scenario pairing: REPRODUCED — the reply to the request that had timed out (stamp %d) was read as the answer to the NEXT request on the same pooled connection: a connection on which an RPC was given up went back to the pool\n", t)
		return 1
	}
	fmt.Println("scenario pairing: not reproduced — the connection of the timed-out RPC was not used again")
	return 0
}

func main() {
	driver := flag.String("driver", "/verif/lean/.lake/build/bin/driver", "model driver")
	which := flag.String("case", "F19", "scenario")
	flag.Parse()
	nodesim.InstallPointFn()
	switch *which {
	case "F19":
		os.Exit(f19(*driver))
	case "pairing":
		os.Exit(pairing())
	}
	fmt.Println("unknown case")
	os.Exit(2)
}
