// clustersim: several real nodes, the harness is scheduler and network. Every node step is
// validated against the Lean model (nodesim.World.Step); global safety predicates are evaluated
// on the real digests after every event (election safety, log matching, commit stability, leader
// completeness, state-machine agreement, durability of committed entries, client semantics).
package main

import (
	"encoding/json"
	"flag"
	"fmt"
	"io/ioutil"
	"math/rand"
	"os"
	"path/filepath"
	"sort"
	"strings"
	"sync"
	"time"

	"github.com/santhosh-tekuri/raft"
	"verif/internal/harness"
	"verif/internal/nodesim"
)

type msg struct {
	From, To uint64
	Op       nodesim.Op // request delivered to `To` (vote / append / install / timeoutNow)
	Kind     string     // "voteReq" "voteResp" "appReq" "appResp" "instReq" "instResp" "tnReq" "tnResp"
	Epoch    uint64     // term of the election / leadership the message belongs to
	Resp     *raft.VRpcReply
	ReqLast  uint64 // last index covered by an append/install request
	Sent     int
}

type repl struct{ next, match uint64 }

type entryKey struct{ index, term uint64 }
type entryVal struct {
	typ  uint64
	data string
	prev uint64 // term of the entry at index-1 (0 if unknown/none)
}

type cluster struct {
	rng    *rand.Rand
	d      *harness.Driver
	st     *nodesim.Stats
	seed   int64
	ids    []uint64
	nodes  map[uint64]*nodesim.World
	up     map[uint64]bool
	net    []*msg
	repls  map[uint64]map[uint64]*repl // leader -> follower -> state (for the leader's current term)
	epoch  map[uint64]uint64           // leader -> term of the repl state
	voted  map[string]bool             // election/voter responses delivered
	parts  map[uint64]bool             // isolated nodes
	events []string

	// ledgers
	leaders   map[uint64]uint64 // term -> leader id
	entries   map[entryKey]entryVal
	committed map[uint64]entryKey // index -> (index, term) known committed
	seenTerm  map[uint64]uint64   // index -> current term of the node on which it was first seen committed (>= the committing leader's term)
	applied   []string            // longest applied sequence seen
	tasks     map[string]string   // "<node>/<task>" -> payload of update tasks
	rejected  map[string]bool     // payloads definitively rejected
	bad       *nodesim.Bad
}

func (c *cluster) logf(f string, a ...interface{}) { c.events = append(c.events, fmt.Sprintf(f, a...)) }

func (c *cluster) digest(id uint64) raft.VNode { return c.nodes[id].Node.Digest() }

func newCluster(rng *rand.Rand, d *harness.Driver, st *nodesim.Stats, n int, seed int64) (*cluster, error) {
	c := &cluster{rng: rng, d: d, st: st, seed: seed, nodes: map[uint64]*nodesim.World{}, up: map[uint64]bool{},
		repls: map[uint64]map[uint64]*repl{}, epoch: map[uint64]uint64{}, voted: map[string]bool{}, parts: map[uint64]bool{},
		leaders: map[uint64]uint64{}, entries: map[entryKey]entryVal{}, committed: map[uint64]entryKey{}, seenTerm: map[uint64]uint64{},
		tasks: map[string]string{}, rejected: map[string]bool{}}
	for i := 1; i <= n; i++ {
		id := uint64(i)
		w, err := nodesim.NewWorldID(rng, d, st, id)
		if err != nil {
			return nil, err
		}
		w.Seed = seed
		c.nodes[id], c.up[id] = w, true
		c.ids = append(c.ids, id)
	}
	return c, nil
}

func (c *cluster) destroy() {
	for _, w := range c.nodes {
		w.Destroy()
	}
}

// step performs op on node id; false if the run must stop.
func (c *cluster) step(id uint64, op nodesim.Op) bool {
	w := c.nodes[id]
	if w.Node == nil || w.Node.Dead {
		return true
	}
	pre := w.Node.Digest()
	nfail := c.st.PropertyFailures()
	ok := w.Step(op)
	c.logf("n%d %s", id, op.Kind)
	if !ok && (c.st.PropertyFailures() > nfail || w.Node == nil || w.Node.Panic != "") {
		return false
	}
	if w.Node == nil {
		return false
	}
	post := w.Node.Digest()
	c.afterStep(id, pre, post, op)
	if c.bad == nil {
		c.checkGlobal(id)
	}
	return c.bad == nil
}

func votersOf(cfg raft.VConfig) []uint64 {
	var vs []uint64
	for _, n := range cfg.Nodes {
		if n.Voter {
			vs = append(vs, n.ID)
		}
	}
	return vs
}

// afterStep turns state changes into network messages (what the node's goroutines would send).
func (c *cluster) afterStep(id uint64, pre, post raft.VNode, op nodesim.Op) {
	// a new election: vote requests to every other voter of the latest configuration
	if post.Role == "candidate" && (pre.Role != "candidate" || post.Term != pre.Term) {
		c.purgeVotes(id, post.Term)
		for _, v := range votersOf(post.Configs.Latest) {
			if v != id {
				c.send(&msg{From: id, To: v, Kind: "voteReq", Epoch: post.Term,
					Op: nodesim.Op{Kind: "vote", Vote: &raft.VVoteReq{Term: post.Term, Src: id, LastLogIndex: post.LastLogIndex, LastLogTerm: post.LastLogTerm, Transfer: post.CandTransfer}}})
			}
		}
	}
	// leadership acquired: fresh replication state
	if post.Role == "leader" && (pre.Role != "leader" || c.epoch[id] != post.Term) {
		if c.rng.Intn(4) != 0 {
			c.purgeVotes(0, post.Term+1)
		}
		c.repls[id], c.epoch[id] = map[uint64]*repl{}, post.Term
	}
	if post.Role == "leader" {
		for _, r := range post.Ldr.Repls {
			if c.repls[id][r.ID] == nil {
				c.repls[id][r.ID] = &repl{next: post.LastLogIndex + 1}
			}
		}
		for f := range c.repls[id] {
			found := false
			for _, r := range post.Ldr.Repls {
				if r.ID == f {
					found = true
				}
			}
			if !found {
				delete(c.repls[id], f)
			}
		}
		// timeout-now for a transfer with explicit target
		if post.Ldr.Transfer.RespPending && !pre.Ldr.Transfer.RespPending && post.Ldr.Transfer.Target != 0 {
			c.send(&msg{From: id, To: post.Ldr.Transfer.Target, Kind: "tnReq", Epoch: post.Term,
				Op: nodesim.Op{Kind: "timeoutNow", Term: post.Term, Src: id}})
		}
	}
	// replies to requests
	if post.RpcReply != nil {
		switch op.Kind {
		case "vote", "append", "install", "timeoutNow":
			// filled in by deliver()
		}
	}
}

func (c *cluster) send(m *msg) { c.net = append(c.net, m) }

// purgeVotes loses the vote traffic of elections older than term (message loss is always legal; without
// it the queue fills with stale vote requests and the cluster spends its time electing).
func (c *cluster) purgeVotes(from uint64, term uint64) {
	out := c.net[:0:0]
	for _, m := range c.net {
		if (m.Kind == "voteReq" || m.Kind == "voteResp") && m.Epoch < term && (from == 0 || m.From == from || m.To == from) {
			// late replies to an earlier election round of a node that is still campaigning stay in flight
			// half of the time: the candidate must not count them in its new round
			if !(from != 0 && m.Kind == "voteResp" && m.To == from && c.rng.Intn(2) == 0) {
				continue
			}
		}
		out = append(out, m)
	}
	c.net = out
}

func (c *cluster) voteTraffic() bool {
	for _, m := range c.net {
		if m.Kind == "voteReq" || m.Kind == "voteResp" {
			return true
		}
	}
	return false
}

// replicate: what the replication goroutine of leader l for follower f would send now.
func (c *cluster) replicate(l, f uint64) {
	d := c.digest(l)
	if d.Role != "leader" || c.repls[l] == nil || c.repls[l][f] == nil {
		return
	}
	r := c.repls[l][f]
	prev := r.next - 1
	var prevTerm uint64
	ok := true
	if prev == 0 {
		prevTerm = 0
	} else if prev == d.SnapIndex {
		prevTerm = d.SnapTerm
	} else if prev > d.Log.Prev && prev <= d.LastLogIndex {
		prevTerm = d.Log.Entries[prev-d.Log.Prev-1].Term
	} else {
		ok = false
	}
	needSnap := !ok || (r.match+1 == r.next && r.next <= d.LastLogIndex && r.next <= d.Log.Prev)
	if needSnap {
		if len(d.SnapsDisk) == 0 {
			return
		}
		s := d.SnapsDisk[0]
		c.send(&msg{From: l, To: f, Kind: "instReq", Epoch: d.Term, ReqLast: s.Index,
			Op: nodesim.Op{Kind: "install", Install: &raft.VInstallReq{Term: d.Term, Src: l, LastIndex: s.Index, LastTerm: s.Term, LastConfig: s.Config, Data: s.Data}}})
		return
	}
	q := &raft.VAppendReq{Term: d.Term, Src: l, PrevLogIndex: prev, PrevLogTerm: prevTerm, LdrCommitIndex: d.CommitIndex, Entries: []raft.VEntry{}}
	if r.match+1 == r.next { // matched: send entries
		n := uint64(1 + c.rng.Intn(4))
		for i := r.next; i <= d.LastLogIndex && i < r.next+n; i++ {
			q.Entries = append(q.Entries, d.Log.Entries[i-d.Log.Prev-1])
		}
	}
	c.send(&msg{From: l, To: f, Kind: "appReq", Epoch: d.Term, ReqLast: prev + uint64(len(q.Entries)),
		Op: nodesim.Op{Kind: "append", Append: q}})
}

// deliver hands message i to its destination.
func (c *cluster) deliver(i int, consume bool) bool {
	m := c.net[i]
	if consume {
		c.net = append(c.net[:i:i], c.net[i+1:]...)
	}
	if !c.up[m.To] {
		return true
	}
	switch m.Kind {
	case "voteReq", "appReq", "instReq", "tnReq":
		if !c.step(m.To, m.Op) {
			return false
		}
		if m.Kind == "tnReq" && c.rng.Intn(3) == 0 && len(c.parts) < (len(c.ids)-1)/2 {
			// the transfer target is cut off right after it was told to campaign: its vote requests will be late
			c.parts[m.To] = true
		}
		d := c.digest(m.To)
		if d.RpcReply != nil {
			rk := map[string]string{"voteReq": "voteResp", "appReq": "appResp", "instReq": "instResp", "tnReq": "tnResp"}[m.Kind]
			rep := *d.RpcReply
			c.send(&msg{From: m.To, To: m.From, Kind: rk, Epoch: m.Epoch, Resp: &rep, ReqLast: m.ReqLast})
		}
	case "voteResp":
		d := c.digest(m.To)
		key := fmt.Sprintf("%d/%d/%d", m.To, m.Epoch, m.From)
		// a reply reaches the candidate over the channel of the election that asked (m.Epoch), also when
		// the candidate has moved on to a later election round in the meantime
		if d.Role == "candidate" && d.Term >= m.Epoch && !c.voted[key] {
			c.voted[key] = true
			return c.step(m.To, nodesim.Op{Kind: "voteResult", Src: m.From, Term: m.Resp.Term, Result: m.Resp.Result, Elect: m.Epoch})
		}
	case "appResp", "instResp":
		d := c.digest(m.To)
		if d.Role != "leader" || d.Term != m.Epoch || c.repls[m.To] == nil || c.repls[m.To][m.From] == nil {
			return true
		}
		r := c.repls[m.To][m.From]
		switch m.Resp.Result {
		case 3: // staleTerm
			return c.step(m.To, nodesim.Op{Kind: "replUpdates", Updates: []raft.VReplUpdate{{ID: m.From, Kind: "newTerm", Val: m.Resp.Term}}})
		case 1:
			if m.Kind == "instResp" {
				if m.ReqLast > d.LastLogIndex {
					return true
				}
				r.match, r.next = m.ReqLast, m.ReqLast+1
				return c.step(m.To, nodesim.Op{Kind: "replUpdates", Updates: []raft.VReplUpdate{{ID: m.From, Kind: "matchIndex", Val: r.match}}})
			}
			if m.ReqLast+1 > r.next {
				r.next = m.ReqLast + 1
			}
			if m.ReqLast > r.match {
				r.match = m.ReqLast
				if r.next <= r.match {
					r.next = r.match + 1
				}
				return c.step(m.To, nodesim.Op{Kind: "replUpdates", Updates: []raft.VReplUpdate{{ID: m.From, Kind: "matchIndex", Val: r.match}}})
			}
			if r.match+1 < r.next && m.ReqLast+1 == r.next {
				// probe matched at next-1
				r.match = m.ReqLast
			}
		case 7, 8:
			if m.Resp.LastLogIndex < r.match {
				return true // ErrFaultyFollower: replication restarts; ignore
			}
			nx := r.next - 1
			if m.Resp.LastLogIndex+1 < nx {
				nx = m.Resp.LastLogIndex + 1
			}
			if nx < 1 {
				nx = 1
			}
			r.next = nx
			if r.match >= r.next {
				r.match = r.next - 1
			}
		}
	case "tnResp":
		d := c.digest(m.To)
		if d.Role == "leader" && d.Term == m.Epoch && d.Ldr.Transfer.RespPending {
			return c.step(m.To, nodesim.Op{Kind: "timeoutNowResult", Src: m.From, Result: m.Resp.Result})
		}
	}
	return true
}

func hashEntry(e raft.VEntry) string {
	if e.Cfg != nil {
		b, _ := json.Marshal(e.Cfg.Nodes)
		return string(b)
	}
	return e.Data
}

func (c *cluster) fail(prop, note string) { c.bad = &nodesim.Bad{Prop: prop, Note: note} }

// checkGlobal evaluates the cluster-level predicates on the real state of every node.
func (c *cluster) checkGlobal(touched uint64) {
	c.st.MonitorChecks++
	ds := map[uint64]raft.VNode{}
	for _, id := range c.ids {
		if c.nodes[id].Node != nil {
			ds[id] = c.digest(id)
		}
	}
	// C01: at most one leader per term, ever
	for id, d := range ds {
		if d.Role == "leader" && d.Closed == "" {
			if l, ok := c.leaders[d.Term]; ok && l != id {
				c.fail("C01", fmt.Sprintf("nodes %d and %d are both leaders of term %d", l, id, d.Term))
				return
			}
			c.leaders[d.Term] = id
		}
	}
	// C04: (index, term) identifies the entry and its predecessor
	for id, d := range ds {
		for k, e := range d.Log.Entries {
			key := entryKey{e.Index, e.Term}
			var prev uint64
			if k > 0 {
				prev = d.Log.Entries[k-1].Term
			} else if e.Index-1 == d.SnapIndex {
				prev = d.SnapTerm
			}
			val := entryVal{e.Typ, hashEntry(e), prev}
			if old, ok := c.entries[key]; ok {
				if old.typ != val.typ || old.data != val.data {
					c.fail("C04", fmt.Sprintf("entry (%d,%d) differs between logs (node %d)", e.Index, e.Term, id))
					return
				}
				if old.prev != 0 && val.prev != 0 && old.prev != val.prev {
					c.fail("C04", fmt.Sprintf("entry (%d,%d) has predecessors of term %d and %d (node %d)", e.Index, e.Term, old.prev, val.prev, id))
					return
				}
				if old.prev == 0 {
					c.entries[key] = val
				}
			} else {
				c.entries[key] = val
			}
		}
	}
	// C02: committed entries are never replaced; every leader holds them
	for _, d := range ds {
		for _, e := range d.Log.Entries {
			if e.Index <= d.CommitIndex {
				if old, ok := c.committed[e.Index]; ok && old.term != e.Term {
					c.fail("C02/C03", fmt.Sprintf("index %d committed with term %d and with term %d", e.Index, old.term, e.Term))
					return
				}
				if _, ok := c.committed[e.Index]; !ok {
					c.seenTerm[e.Index] = d.Term
				}
				c.committed[e.Index] = entryKey{e.Index, e.Term}
			}
		}
	}
	for id, d := range ds {
		for _, e := range d.Log.Entries {
			if ck, ok := c.committed[e.Index]; ok && ck.term != e.Term {
				// a different entry at a committed index: allowed while not yet overwritten on a stale follower
				// or on an isolated leader of an OLDER term; a leader of a later term must hold the committed one
				if d.Role == "leader" && d.Term > c.seenTerm[e.Index] {
					c.fail("C02", fmt.Sprintf("leader %d of term %d holds (%d,%d) but (%d,%d) is committed", id, d.Term, e.Index, e.Term, ck.index, ck.term))
					return
				}
			}
		}
		if d.Role == "leader" && d.Closed == "" {
			for idx, ck := range c.committed {
				if d.Term <= c.seenTerm[idx] {
					continue // not a LATER leader
				}
				if idx > d.LastLogIndex {
					c.fail("C02", fmt.Sprintf("leader %d of term %d lacks committed index %d (its log ends at %d)", id, d.Term, idx, d.LastLogIndex))
					return
				}
				if idx > d.Log.Prev {
					if t := d.Log.Entries[idx-d.Log.Prev-1].Term; t != ck.term {
						c.fail("C02", fmt.Sprintf("leader %d of term %d holds term %d at committed index %d (committed term %d)", id, d.Term, t, idx, ck.term))
						return
					}
				}
			}
		}
	}
	// C03: applied sequences are prefixes of one sequence
	for id, d := range ds {
		a := d.Fsm.Applied
		n := len(a)
		if len(c.applied) < n {
			n = len(c.applied)
		}
		for i := 0; i < n; i++ {
			if a[i] != c.applied[i] {
				c.fail("C03", fmt.Sprintf("node %d applied %q at position %d, another node applied %q", id, a[i], i+1, c.applied[i]))
				return
			}
		}
		if len(a) > len(c.applied) {
			c.applied = append([]string{}, a...)
		}
	}
	// C09: every state machine holds exactly the replay of the committed log up to its index, whatever
	// mixture of log application, restart from snapshot + suffix and snapshot installation produced it;
	// a stored snapshot covers committed entries only
	for id, d := range ds {
		if d.Closed != "" {
			continue
		}
		want, complete := []string{}, true
		for i := uint64(1); i <= d.Fsm.Index; i++ {
			ck, ok := c.committed[i]
			if !ok {
				complete = false
				break
			}
			if v := c.entries[ck]; v.typ == 2 {
				want = append(want, v.data)
			}
		}
		if !complete {
			c.fail("C09/C03", fmt.Sprintf("node %d applied up to %d but not every index up to there is known committed", id, d.Fsm.Index))
			return
		}
		if len(want) != len(d.Fsm.Applied) {
			c.fail("C09/C03", fmt.Sprintf("node %d at applied index %d holds %d updates, replaying the committed log gives %d", id, d.Fsm.Index, len(d.Fsm.Applied), len(want)))
			return
		}
		for i := range want {
			if want[i] != d.Fsm.Applied[i] {
				c.fail("C09/C03", fmt.Sprintf("node %d at applied index %d: update %d is %q, replaying the committed log gives %q", id, d.Fsm.Index, i+1, d.Fsm.Applied[i], want[i]))
				return
			}
		}
		if d.SnapIndex > 0 {
			if ck, ok := c.committed[d.SnapIndex]; !ok || ck.term != d.SnapTerm {
				c.fail("C09/C12", fmt.Sprintf("node %d stores a snapshot labelled (%d,%d) but that entry is not committed", id, d.SnapIndex, d.SnapTerm))
				return
			}
		}
		if d.Log.Prev > d.SnapIndex {
			c.fail("C09", fmt.Sprintf("node %d compacted its log up to %d beyond its snapshot %d: it can neither restart nor serve a lagging follower", id, d.Log.Prev, d.SnapIndex))
			return
		}
	}
	// C06: a commit observed at the leader is durable on a majority of the voters (disk state of every node)
	w := c.nodes[touched]
	for _, ob := range w.Obs() {
		if ob.Point != "commitLog" || ob.O.Role != "leader" || ob.O.Arg <= ob.O.CommitIndex {
			continue
		}
		d := ds[touched]
		var term uint64
		if ob.O.Arg > d.Log.Prev && ob.O.Arg <= d.LastLogIndex {
			term = d.Log.Entries[ob.O.Arg-d.Log.Prev-1].Term
		} else {
			continue
		}
		vs := votersOf(ob.O.Latest)
		cnt := 0
		for _, v := range vs {
			dv, ok := ds[v]
			if !ok {
				continue
			}
			fl := dv.Log.Flushed
			if v == touched {
				fl = ob.O.Flushed
			}
			if dv.SnapIndex >= ob.O.Arg {
				cnt++
			} else if fl >= ob.O.Arg && ob.O.Arg > dv.Log.Prev && ob.O.Arg <= dv.LastLogIndex &&
				dv.Log.Entries[ob.O.Arg-dv.Log.Prev-1].Term == term {
				cnt++
			}
		}
		if 2*cnt <= len(vs) {
			c.fail("C06", fmt.Sprintf("leader %d commits index %d but only %d of %d voters hold it durably", touched, ob.O.Arg, cnt, len(vs)))
			return
		}
	}
	// C07: results of update tasks are positions in the one applied sequence
	d := ds[touched]
	for _, r := range d.Replies {
		key := fmt.Sprintf("%d/%d", touched, r.Task)
		payload, isUpdate := c.tasks[key]
		if !isUpdate {
			continue
		}
		if strings.HasPrefix(r.Result, "val:") {
			var pos int
			fmt.Sscanf(r.Result, "val:%d", &pos)
			if pos < 1 || pos > len(c.applied) || c.applied[pos-1] != payload {
				c.fail("C07", fmt.Sprintf("update %q completed with position %d but that position holds something else", payload, pos))
				return
			}
		} else if strings.HasPrefix(r.Result, "notLeader:") && strings.HasSuffix(r.Result, ":false") || strings.HasPrefix(r.Result, "inProgress:") {
			c.rejected[payload] = true
		}
	}
	seen := map[string]int{}
	for _, p := range c.applied {
		seen[p]++
		if seen[p] > 1 {
			c.fail("C07", fmt.Sprintf("update %q applied twice", p))
			return
		}
		if c.rejected[p] {
			c.fail("C07", fmt.Sprintf("update %q was rejected definitively but took effect", p))
			return
		}
	}
}

func (c *cluster) leaderIDs() []uint64 {
	var ls []uint64
	for _, id := range c.ids {
		if c.up[id] && c.nodes[id].Node != nil && !c.nodes[id].Node.Dead {
			if d := c.digest(id); d.Role == "leader" {
				ls = append(ls, id)
			}
		}
	}
	return ls
}

func (c *cluster) run(nevents int) {
	rng := c.rng
	// bootstrap every node with the same configuration (all voters, sometimes one non-voter)
	cfg := raft.VConfig{Nodes: []raft.VCNode{}}
	nv := len(c.ids)
	if nv > 2 && rng.Intn(3) == 0 {
		nv--
	}
	for i, id := range c.ids {
		cfg.Nodes = append(cfg.Nodes, raft.VCNode{ID: id, Addr: nodesim.AddrOf(id), Voter: i < nv})
	}
	for i, id := range c.ids {
		if i < nv {
			cc := cfg
			if !c.step(id, nodesim.Op{Kind: "changeConfig", Task: c.nodes[id].NextTask(), Config: &cc}) {
				return
			}
		}
	}
	parts := c.parts // isolated nodes
	for ev := 0; ev < nevents && c.bad == nil; ev++ {
		alive := []uint64{}
		for _, id := range c.ids {
			w := c.nodes[id]
			if c.up[id] && w.Node != nil && !w.Node.Dead {
				alive = append(alive, id)
			}
		}
		if len(alive) == 0 {
			return
		}
		// alternate calm phases (mostly delivery and replication) and stormy phases
		storm := (ev/150)%4 == 3
		r := rng.Intn(1000)
		tmo, lose, rst, prt := 3, 4, 2, 4
		if storm {
			tmo, lose, rst, prt = 45, 50, 20, 20
		}
		switch {
		case r < 500 && len(c.net) > 0:
			i := rng.Intn(len(c.net))
			if rng.Intn(3) != 0 {
				i = 0 // mostly in order
			}
			m := c.net[i]
			if parts[m.From] || parts[m.To] {
				if rng.Intn(3) == 0 {
					c.net = append(c.net[:i:i], c.net[i+1:]...) // lost
				} else if len(c.net) > 1 {
					c.net = append(c.net[1:], c.net[0]) // rotate
				}
				continue
			}
			dup := rng.Intn(15) == 0 && (m.Kind == "voteReq" || m.Kind == "appReq" || m.Kind == "instReq")
			if !c.deliver(i, !dup) {
				return
			}
		case r < 500+lose && len(c.net) > 0:
			i := rng.Intn(len(c.net))
			c.net = append(c.net[:i:i], c.net[i+1:]...) // lost
		case r < 760:
			ls := c.leaderIDs()
			reach := 0
			for _, l := range ls {
				if !parts[l] {
					reach++
				}
			}
			if reach == 0 {
				// nobody leads the connected part: once the vote traffic has drained somebody there times out
				// (an isolated leader keeps leading its side and keeps accepting entries)
				if c.voteTraffic() && rng.Intn(8) != 0 {
					continue
				}
				id := alive[rng.Intn(len(alive))]
				if parts[id] && rng.Intn(3) != 0 {
					continue
				}
				if d := c.digest(id); d.Role == "leader" {
					continue
				}
				if !c.step(id, nodesim.Op{Kind: "timeout"}) {
					return
				}
				continue
			}
			l := ls[rng.Intn(len(ls))]
			for f := range c.repls[l] {
				if rng.Intn(2) == 0 && len(c.net) < 40 {
					c.replicate(l, f)
				}
			}
		case r < 760+tmo:
			id := alive[rng.Intn(len(alive))]
			d := c.digest(id)
			if d.Role == "leader" && rng.Intn(4) != 0 {
				continue // leaders rarely lose quorum contact here
			}
			if !c.step(id, nodesim.Op{Kind: "timeout"}) {
				return
			}
		case r < 900:
			id := alive[rng.Intn(len(alive))]
			if ls := c.leaderIDs(); len(ls) > 0 && rng.Intn(6) != 0 {
				id = ls[rng.Intn(len(ls))]
			}
			w := c.nodes[id]
			op := nodesim.Op{Kind: "newEntries"}
			for k := 0; k < 1+rng.Intn(3); k++ {
				b := raft.VNewEntry{Task: w.NextTask()}
				if rng.Intn(5) == 0 {
					b.Typ = uint64(1 + 2*rng.Intn(2)) // barrier or read
				} else {
					b.Typ, b.Data = 2, w.Payload()
					c.tasks[fmt.Sprintf("%d/%d", id, b.Task)] = b.Data
				}
				op.Batch = append(op.Batch, b)
			}
			if !c.step(id, op) {
				return
			}
		case r < 930:
			id := alive[rng.Intn(len(alive))]
			d := c.digest(id)
			var op nodesim.Op
			switch {
			case d.SnapResult != nil:
				op = nodesim.Op{Kind: "snapTaken"}
			case d.SnapPending != nil:
				op = nodesim.Op{Kind: "snapRun"}
			default:
				op = nodesim.Op{Kind: "takeSnapshot", Task: c.nodes[id].NextTask()}
			}
			if !c.step(id, op) {
				return
			}
		case r < 930+rst:
			id := alive[rng.Intn(len(alive))]
			if !c.step(id, nodesim.Op{Kind: "restart"}) {
				return
			}
			// replication state of a restarted leader is gone; in-flight elections too
			delete(c.repls, id)
			delete(c.epoch, id)
		case r < 975:
			ls := c.leaderIDs()
			if len(ls) == 0 {
				continue
			}
			l := ls[rng.Intn(len(ls))]
			d := c.digest(l)
			cc := raft.VConfig{Index: d.Configs.Latest.Index, Term: d.Configs.Latest.Term, Nodes: append([]raft.VCNode{}, d.Configs.Latest.Nodes...)}
			if len(cc.Nodes) > 0 {
				i := rng.Intn(len(cc.Nodes))
				if cc.Nodes[i].Voter {
					cc.Nodes[i].Action = []uint64{2, 0, 3}[rng.Intn(3)]
				} else {
					cc.Nodes[i].Action = []uint64{1, 1, 3, 0}[rng.Intn(4)]
				}
			}
			if !c.step(l, nodesim.Op{Kind: "changeConfig", Task: c.nodes[l].NextTask(), Config: &cc}) {
				return
			}
		case r < 989:
			ls := c.leaderIDs()
			if len(ls) == 0 {
				continue
			}
			l := ls[rng.Intn(len(ls))]
			d := c.digest(l)
			if len(d.Ldr.Repls) == 0 {
				continue
			}
			if d.Ldr.Transfer.Active {
				// a transfer is running: its timers fire (the target may be cut off, the new term may not show up)
				if rng.Intn(4) != 0 {
					continue
				}
				op := nodesim.Op{Kind: "transferTimeout"}
				if d.Ldr.Transfer.NewTermTimer {
					op = nodesim.Op{Kind: "newTermTimeout"}
				}
				if !c.step(l, op) {
					return
				}
				continue
			}
			tgt := d.Ldr.Repls[rng.Intn(len(d.Ldr.Repls))].ID
			if rng.Intn(3) == 0 {
				tgt = 0
			}
			if !c.step(l, nodesim.Op{Kind: "transfer", Task: c.nodes[l].NextTask(), Target: tgt}) {
				return
			}
		case r < 989+prt:
			id := c.ids[rng.Intn(len(c.ids))]
			if ls := c.leaderIDs(); len(ls) > 0 && rng.Intn(2) == 0 {
				id = ls[rng.Intn(len(ls))] // isolating a leader is what makes logs diverge
			}
			if parts[id] {
				delete(parts, id)
			} else if len(parts) < (len(c.ids)-1)/2 {
				parts[id] = true
			}
		default:
			if !storm {
				for k := range parts {
					delete(parts, k)
				}
			}
		}
	}
}

func main() {
	driver := flag.String("driver", "/verif/lean/.lake/build/bin/driver", "model driver")
	seed := flag.Int64("seed", 1, "seed")
	tier := flag.String("tier", "quick", "quick|thorough")
	report := flag.String("report", "", "report file")
	replay := flag.String("replay", "", "replay file (seed + size + events are re-generated from the seed)")
	workers := flag.Int("workers", 8, "parallel workers")
	runs := flag.Int("runs", 0, "number of schedules")
	events := flag.Int("events", 0, "events per schedule")
	replayDir := flag.String("replaydir", "/verif/replays", "where failing cases are written")
	flag.Parse()
	nruns, nev := 60, 250
	if *tier == "thorough" {
		nruns, nev = 1500, 900
	}
	if *runs > 0 {
		nruns = *runs
	}
	if *events > 0 {
		nev = *events
	}
	nodesim.InstallPointFn()
	start := time.Now()

	one := func(d *harness.Driver, st *nodesim.Stats, sseed int64, nev int) {
		rng := rand.New(rand.NewSource(sseed))
		n := 3 + rng.Intn(3)
		c, err := newCluster(rng, d, st, n, sseed)
		if err != nil {
			st.Fail(map[string]interface{}{"note": "setup: " + err.Error(), "seed": sseed})
			return
		}
		defer c.destroy()
		before := len(st.Disagreements)
		c.run(nev)
		if c.bad != nil {
			tail := c.events
			if len(tail) > 60 {
				tail = tail[len(tail)-60:]
			}
			st.Fail(map[string]interface{}{"engine": "clustersim", "seed": sseed, "events": nev, "nodes": n,
				"kind": "global", "note": c.bad.Note, "property_failed": c.bad.Prop, "last_events": tail})
		}
		for i := before; i < len(st.Disagreements); i++ {
			st.Disagreements[i]["engine"] = "clustersim"
			st.Disagreements[i]["cluster_seed"] = sseed
			st.Disagreements[i]["events"] = nev
		}
		st.Hist[fmt.Sprintf("cluster-size-%d", n)]++
		st.Hist["leader-terms"] += len(c.leaders)
		st.Hist["committed-indexes"] += len(c.committed)
		st.Hist["applied-updates"] += len(c.applied)
	}

	if *replay != "" {
		b, err := ioutil.ReadFile(*replay)
		if err != nil {
			fmt.Fprintln(os.Stderr, err)
			os.Exit(2)
		}
		var rec struct {
			Seed   int64 `json:"seed"`
			CSeed  int64 `json:"cluster_seed"`
			Events int   `json:"events"`
		}
		_ = json.Unmarshal(b, &rec)
		if rec.CSeed != 0 {
			rec.Seed = rec.CSeed
		}
		d, err := harness.StartDriver(*driver)
		if err != nil {
			fmt.Fprintln(os.Stderr, err)
			os.Exit(2)
		}
		defer d.Close()
		st := nodesim.NewStats()
		one(d, st, rec.Seed, rec.Events)
		if len(st.Disagreements) > 0 {
			b, _ := json.MarshalIndent(st.Disagreements[0], "", " ")
			fmt.Println(string(b))
			os.Exit(1)
		}
		fmt.Println("replay: no disagreement")
		return
	}

	var wg sync.WaitGroup
	results := make([]*nodesim.Stats, *workers)
	for w := 0; w < *workers; w++ {
		wg.Add(1)
		go func(w int) {
			defer wg.Done()
			d, err := harness.StartDriver(*driver)
			if err != nil {
				fmt.Fprintln(os.Stderr, "driver:", err)
				os.Exit(2)
			}
			defer d.Close()
			st := nodesim.NewStats()
			results[w] = st
			for i := w; i < nruns; i += *workers {
				one(d, st, *seed*7000003+int64(i), nev)
				if st.PropertyFailures() >= 2 || len(st.Disagreements) >= 8 {
					break
				}
			}
		}(w)
	}
	wg.Wait()
	total := nodesim.NewStats()
	for _, st := range results {
		total.Merge(st)
	}
	rep := &harness.Report{
		Engine: "clustersim", Seed: *seed, Tier: *tier, Evaluations: total.Steps, DistinctNontrivial: len(total.Distinct),
		Rule:      "each evaluation is one step of one real node inside a 3-5 node cluster scheduled by the harness (delivery, duplication, loss, partition, crash/restart, client batches, snapshots, membership changes, transfer), validated against Raft.Node.step; after every event the cluster predicates (one leader per term, log matching, committed entries stable and held by every leader, applied sequences prefix-compatible, commit durable on a majority, client results) are evaluated on the real digests; distinctness as in nodediff",
		Histogram: total.Hist, Samples: total.Samples, WallS: time.Since(start).Seconds(),
		Extra: map[string]interface{}{"schedules": nruns, "events_per_schedule": nev, "global_checks": total.MonitorChecks},
	}
	for _, dg := range total.Disagreements {
		path := filepath.Join(*replayDir, fmt.Sprintf("clustersim-%d-%d.json", *seed, len(rep.Disagreements)))
		_ = os.MkdirAll(*replayDir, 0755)
		b, _ := json.MarshalIndent(dg, "", " ")
		_ = ioutil.WriteFile(path, b, 0644)
		dg["replay"] = path
		rep.Disagreements = append(rep.Disagreements, dg)
	}
	if *report != "" {
		if err := rep.Write(*report); err != nil {
			fmt.Fprintln(os.Stderr, err)
			os.Exit(2)
		}
	}
	keys := []string{}
	for k := range total.Hist {
		if strings.HasPrefix(k, "cluster") || strings.HasPrefix(k, "leader") || strings.HasPrefix(k, "committed") || strings.HasPrefix(k, "applied") {
			keys = append(keys, fmt.Sprintf("%s=%d", k, total.Hist[k]))
		}
	}
	sort.Strings(keys)
	fmt.Printf("clustersim: %d steps, %d distinct, %d global checks, %d disagreements, %.1fs %v\n",
		total.Steps, len(total.Distinct), total.MonitorChecks, len(rep.Disagreements), rep.WallS, keys)
	for _, dg := range rep.Disagreements {
		fmt.Printf("DISAGREEMENT property_failed=%v note=%v replay=%v\n", dg["property_failed"], dg["note"], dg["replay"])
	}
	if len(rep.Disagreements) > 0 {
		os.Exit(1)
	}
}
