// nodediff: one real *Raft driven synchronously through the verif hook API, every step
// compared with the Lean model's step function (stateless: pre-state + op -> post-state).
package main

import (
	"encoding/json"
	"flag"
	"fmt"
	"io/ioutil"
	"math/rand"
	"os"
	"path/filepath"
	"sort"
	"strings"
	"sync"
	"time"

	"verif/internal/harness"
	"verif/internal/nodesim"
)

func main() {
	driver := flag.String("driver", "/verif/lean/.lake/build/bin/driver", "model driver")
	seed := flag.Int64("seed", 1, "seed")
	tier := flag.String("tier", "quick", "quick|thorough")
	report := flag.String("report", "", "report file")
	replay := flag.String("replay", "", "replay file")
	workers := flag.Int("workers", 8, "parallel workers")
	seqs := flag.Int("seqs", 0, "number of sequences (0 = tier default)")
	steps := flag.Int("steps", 0, "max steps per sequence (0 = tier default)")
	replayDir := flag.String("replaydir", "/verif/replays", "where failing cases are written")
	flag.Parse()

	nseq, nsteps := 600, 40
	if *tier == "thorough" {
		nseq, nsteps = 12000, 100
	}
	if *seqs > 0 {
		nseq = *seqs
	}
	if *steps > 0 {
		nsteps = *steps
	}
	start := time.Now()
	nodesim.InstallPointFn()

	if *replay != "" {
		os.Exit(runReplay(*driver, *replay))
	}

	var wg sync.WaitGroup
	results := make([]*nodesim.Stats, *workers)
	for w := 0; w < *workers; w++ {
		wg.Add(1)
		go func(w int) {
			defer wg.Done()
			d, err := harness.StartDriver(*driver)
			if err != nil {
				fmt.Fprintln(os.Stderr, "driver:", err)
				os.Exit(2)
			}
			defer d.Close()
			st := nodesim.NewStats()
			results[w] = st
			for i := w; i < nseq; i += *workers {
				sseed := *seed*1000003 + int64(i)
				if os.Getenv("ND_DEBUG") != "" {
					fmt.Fprintln(os.Stderr, "seq", i, sseed)
				}
				runSequence(d, st, sseed, nsteps)
				if i%4 == 0 {
					cfgEdits(d, st, sseed, 12)
				}
				if st.PropertyFailures() >= 2 || len(st.Disagreements) >= 8 {
					break
				}
			}
		}(w)
	}
	wg.Wait()

	total := nodesim.NewStats()
	for _, st := range results {
		total.Merge(st)
	}
	rep := &harness.Report{
		Engine: "nodediff", Seed: *seed, Tier: *tier,
		Evaluations:        total.Steps,
		DistinctNontrivial: len(total.Distinct),
		Rule: "each evaluation is one stateLoop iteration of a real node (handler + role transitions) compared with Raft.Node.step " +
			"on the same pre-state and input, plus one restart comparison per crash point; a case is counted distinct by " +
			"(role, op kind, reply/result class, role after, #crash points, log/commit/config relation flags) and trivial when the op is a no-op for the role",
		Histogram: total.Hist,
		Samples:   total.Samples,
		WallS:     time.Since(start).Seconds(),
		Extra:     map[string]interface{}{"sequences": nseq, "crash_restarts_compared": total.Crash, "monitor_checks": total.MonitorChecks},
	}
	for _, dg := range total.Disagreements {
		path := filepath.Join(*replayDir, fmt.Sprintf("nodediff-%d-%d.json", *seed, len(rep.Disagreements)))
		_ = os.MkdirAll(*replayDir, 0755)
		b, _ := json.MarshalIndent(dg, "", " ")
		_ = ioutil.WriteFile(path, b, 0644)
		dg["replay"] = path
		rep.Disagreements = append(rep.Disagreements, dg)
	}
	if *report != "" {
		if err := rep.Write(*report); err != nil {
			fmt.Fprintln(os.Stderr, err)
			os.Exit(2)
		}
	}
	keys := make([]string, 0, len(total.Hist))
	for k := range total.Hist {
		keys = append(keys, k)
	}
	sort.Strings(keys)
	fmt.Printf("nodediff: %d steps, %d distinct, %d crash restarts, %d disagreements, %.1fs\n",
		total.Steps, len(total.Distinct), total.Crash, len(rep.Disagreements), rep.WallS)
	for _, dg := range rep.Disagreements {
		fmt.Printf("DISAGREEMENT property_failed=%v note=%v replay=%v\n", dg["property_failed"], dg["note"], dg["replay"])
	}
	if len(rep.Disagreements) > 0 {
		os.Exit(1)
	}
}

func runSequence(d *harness.Driver, st *nodesim.Stats, seed int64, nsteps int) {
	rng := rand.New(rand.NewSource(seed))
	w, err := nodesim.NewWorld(rng, d, st)
	if err != nil {
		st.Fail(map[string]interface{}{"note": "setup: " + err.Error(), "seed": seed})
		return
	}
	defer w.Destroy()
	w.Seed = seed
	n := 5 + rng.Intn(nsteps)
	extended := false
	for i := 0; i < n; i++ {
		op := w.GenOp()
		if !w.Step(op) {
			return
		}
		if w.Broken && !extended {
			// search mode: the sequence gets a budget of its own to reach a state in which a property fails
			extended = true
			n = i + 1 + 80
		}
	}
}

func runReplay(driver, file string) int {
	b, err := ioutil.ReadFile(file)
	if err != nil {
		fmt.Fprintln(os.Stderr, err)
		return 2
	}
	var rec struct {
		Seed  int64        `json:"seed"`
		Trail []nodesim.Op `json:"trail"`
	}
	if err := json.Unmarshal(b, &rec); err != nil {
		fmt.Fprintln(os.Stderr, err)
		return 2
	}
	d, err := harness.StartDriver(driver)
	if err != nil {
		fmt.Fprintln(os.Stderr, err)
		return 2
	}
	defer d.Close()
	st := nodesim.NewStats()
	rng := rand.New(rand.NewSource(rec.Seed))
	w, err := nodesim.NewWorld(rng, d, st)
	if err != nil {
		fmt.Fprintln(os.Stderr, err)
		return 2
	}
	defer w.Destroy()
	w.Seed = rec.Seed
	for _, op := range rec.Trail {
		if !w.Step(op) {
			break
		}
	}
	if len(st.Disagreements) > 0 {
		b, _ := json.MarshalIndent(st.Disagreements[0], "", " ")
		fmt.Println(strings.TrimSpace(string(b)))
		return 1
	}
	fmt.Println("replay: no disagreement")
	return 0
}
