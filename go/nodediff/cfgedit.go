package main

// cfgEdits: the public editing helpers of raft.Config (AddVoter, AddNonvoter, SetAction, SetAddr, SetData) on the
// real code, compared call by call with Raft.Config.applyEdit / afterEdit (lean/RaftVerif/Model/ConfigEdit.lean), and
// judged against what Props/C08Edit.lean proves of the model: on a bootstrapped configuration no call changes who
// votes, removes a node or touches Index/Term, and a failed call changes nothing.

import (
	"fmt"
	"math/rand"
	"sort"
	"strings"

	"github.com/santhosh-tekuri/raft"
	"verif/internal/harness"
	"verif/internal/nodesim"
)

func cfgJSON(c raft.Config) map[string]interface{} {
	ids := []uint64{}
	for id := range c.Nodes {
		ids = append(ids, id)
	}
	sort.Slice(ids, func(i, j int) bool { return ids[i] < ids[j] })
	nodes := []interface{}{}
	for _, id := range ids {
		n := c.Nodes[id]
		nodes = append(nodes, map[string]interface{}{"id": n.ID, "addr": n.Addr, "voter": n.Voter, "data": n.Data, "action": uint64(n.Action)})
	}
	return map[string]interface{}{"nodes": nodes, "index": c.Index, "term": c.Term}
}

func editErrKind(err error) string {
	if err == nil {
		return "ok"
	}
	s := err.Error()
	switch {
	case strings.Contains(s, "bootstrapped config"):
		return "bootstrapped"
	case strings.Contains(s, "already exists"):
		return "exists"
	case strings.Contains(s, "not found"):
		return "notFound"
	case strings.Contains(s, "is used by node"):
		return "addrUsed"
	}
	return "invalid"
}

var cfgAddrs = []string{"a:1", "b:2", "c:3", "d:4", "e:5", ":80", "h:007", "x:65536", "", "h", "h:", "h:0", "h:x", "a:b:1", "h:-1", ":"}

func voterSet(c raft.Config) string {
	ids := []uint64{}
	for id, n := range c.Nodes {
		if n.Voter {
			ids = append(ids, id)
		}
	}
	sort.Slice(ids, func(i, j int) bool { return ids[i] < ids[j] })
	return fmt.Sprint(ids)
}

func cfgEdits(d *harness.Driver, st *nodesim.Stats, seed int64, n int) {
	rng := rand.New(rand.NewSource(seed ^ 0x5eed))
	c := raft.Config{Nodes: map[uint64]raft.Node{}}
	if rng.Intn(4) != 0 {
		c.Index, c.Term = uint64(1+rng.Intn(9)), uint64(1+rng.Intn(3))
	}
	nn := 1 + rng.Intn(4)
	for i := 1; i <= nn; i++ {
		v := i == 1 || rng.Intn(2) == 0
		node := raft.Node{ID: uint64(i), Addr: cfgAddrs[i-1], Voter: v}
		if rng.Intn(3) == 0 {
			if v {
				node.Action = []raft.Action{raft.Demote, raft.Remove, raft.ForceRemove}[rng.Intn(3)]
			} else {
				node.Action = []raft.Action{raft.Promote, raft.Remove, raft.ForceRemove}[rng.Intn(3)]
			}
		}
		c.Nodes[node.ID] = node
	}
	var log []interface{}
	for i := 0; i < n; i++ {
		id := uint64(rng.Intn(7))
		if rng.Intn(3) != 0 && len(c.Nodes) > 0 {
			id = uint64(1 + rng.Intn(len(c.Nodes)+1))
		}
		addr := cfgAddrs[rng.Intn(len(cfgAddrs))]
		if rng.Intn(2) == 0 {
			addr = cfgAddrs[rng.Intn(8)]
		}
		var edit map[string]interface{}
		var call func() error
		switch rng.Intn(5) {
		case 0:
			edit = map[string]interface{}{"kind": "addVoter", "id": id, "addr": addr}
			call = func() error { return c.AddVoter(id, addr) }
		case 1:
			p := rng.Intn(2) == 0
			edit = map[string]interface{}{"kind": "addNonvoter", "id": id, "addr": addr, "promote": p}
			call = func() error { return c.AddNonvoter(id, addr, p) }
		case 2:
			a := raft.Action(rng.Intn(6))
			if rng.Intn(20) == 0 {
				a = raft.Action(rng.Intn(256))
			}
			edit = map[string]interface{}{"kind": "setAction", "id": id, "action": uint64(a)}
			call = func() error { return c.SetAction(id, a) }
		case 3:
			// nodeForAddr iterates a Go map: when the node itself and another node are both at `addr` the answer
			// depends on the iteration order — the one shape the model does not describe; not generated
			self, other := false, false
			for nid, nd := range c.Nodes {
				if nd.Addr == addr {
					if nid == id {
						self = true
					} else {
						other = true
					}
				}
			}
			if self && other {
				st.Hist["cfgEdit:setAddr:skipped-nondeterministic"]++
				continue
			}
			edit = map[string]interface{}{"kind": "setAddr", "id": id, "addr": addr}
			call = func() error { return c.SetAddr(id, addr) }
		default:
			data := []string{"", "x", "some data"}[rng.Intn(3)]
			edit = map[string]interface{}{"kind": "setData", "id": id, "data": data}
			call = func() error { return c.SetData(id, data) }
		}
		before := cfgJSON(c)
		votersBefore, nBefore, boot := voterSet(c), len(c.Nodes), c.Index > 0
		idsBefore := []uint64{}
		for nid := range c.Nodes {
			idsBefore = append(idsBefore, nid)
		}
		err := call()
		kind := editErrKind(err)
		after := cfgJSON(c)
		st.Steps++
		st.Hist["cfgEdit:"+edit["kind"].(string)+":"+kind]++
		st.Distinct[fmt.Sprintf("cfgEdit|%s|%s|boot%v|n%d", edit["kind"], kind, boot, nBefore)] = true
		log = append(log, map[string]interface{}{"edit": edit, "err": kind})
		fail := func(k, note string, prop interface{}, extra map[string]interface{}) {
			m := map[string]interface{}{"engine": "nodediff", "seed": seed, "kind": k, "note": note, "property_failed": prop,
				"op": map[string]interface{}{"kind": "cfgEdit"}, "edit": edit, "before": before, "after": after, "err": fmt.Sprint(err), "edits": log}
			for kk, v := range extra {
				m[kk] = v
			}
			st.Fail(m)
		}
		// what Props/C08Edit.lean proves of the model, judged on the real configuration
		st.MonitorChecks++
		lost := false
		for _, nid := range idsBefore {
			if _, ok := c.Nodes[nid]; !ok {
				lost = true
			}
		}
		switch {
		case boot && voterSet(c) != votersBefore:
			fail("property", "an editing helper changed who votes in a bootstrapped configuration: "+votersBefore+" -> "+voterSet(c), "C08", nil)
			return
		case lost:
			fail("property", "an editing helper removed a node", "C08", nil)
			return
		case after["index"] != before["index"] || after["term"] != before["term"]:
			fail("property", "an editing helper changed Index/Term", "C08", nil)
			return
		case err != nil && !harness.Equal(harness.ToCanon(before), harness.ToCanon(after)):
			fail("property", "a failed editing call changed the configuration", "C08", nil)
			return
		}
		ans, aerr := d.Ask(map[string]interface{}{"engine": "node", "what": "cfgEdit", "config": before, "edit": edit, "id": st.Steps})
		if aerr != nil {
			fail("driver", fmt.Sprint(aerr), nil, nil)
			return
		}
		real := harness.ToCanon(map[string]interface{}{"err": kind, "config": after})
		delete(ans, "id")
		delete(ans, "valid")
		model := harness.Canon(ans)
		if !harness.Equal(real, model) {
			fail("correspondence", "Config editing helper differs from the model", nil,
				map[string]interface{}{"real": real, "model": map[string]interface{}{"first": model, "diff": harness.Diff(real, model)}})
			return
		}
	}
}
