package main

import (
	"fmt"
	"time"

	raft "github.com/santhosh-tekuri/raft"
)

func main() {
	b := make([]byte, 21+5)
	b[17], b[18], b[19], b[20] = 0xff, 0xff, 0xff, 0x00
	t0 := time.Now()
	for i := 0; i < 200; i++ {
		raft.VerifCodecDecode("entry", b)
	}
	fmt.Println("200 16MB-length decodes:", time.Since(t0))
	b[19] = 0
	t0 = time.Now()
	for i := 0; i < 2000; i++ {
		raft.VerifCodecDecode("entry", b)
	}
	fmt.Println("2000 64KB-length decodes:", time.Since(t0))
	raft.VerifTempDir = "/dev/shm"
	t0 = time.Now()
	for i := 0; i < 2000; i++ {
		raft.VerifValueRoundTrip(uint64(i), 7)
	}
	fmt.Println("2000 value roundtrips (shm):", time.Since(t0))
	raft.VerifTempDir = ""
	t0 = time.Now()
	for i := 0; i < 100; i++ {
		raft.VerifValueRoundTrip(uint64(i), 7)
	}
	fmt.Println("100 value roundtrips (tmp):", time.Since(t0))
}
