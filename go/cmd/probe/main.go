package main

import (
	"fmt"
	"github.com/santhosh-tekuri/raft"
)

func main() { fmt.Println(raft.DefaultOptions().HeartbeatTimeout) }
