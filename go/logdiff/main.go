// logdiff: differential correspondence engine for the segmented log (package raft/log).
//
// One PROGRAM = a segment size and a list of operations.  The program is first run on the REAL
// package (built with -tags verif): every op's output, the full state after every op (segment
// descriptors + a digest of every entry read back through Get), the sequence of verifPoint step
// points, and crash images (process kill = directory copy; power loss = durable bytes plus a random
// subset of the later 8-byte words) are collected.  Then ONE request is sent to the Lean model
// driver (engine "seglog") and everything is compared op by op.  Independently of the model a
// 10-line shadow log is kept and the direct predicates C13 (reads) and C14 (crash images) are
// evaluated on the real code.
//
//	logdiff -driver <driver> -seed N -tier quick|thorough -report report.json
//	        [-replay program.json] [-props C13,C14]
//	        [-workers N] [-programs N] [-maxops N] [-keys keys.txt]
//
// Exit 0: no disagreement and no property failure; exit 1: something failed (there is no
// known-finding downgrade any more: "known_findings" in the report stays {}); exit 2: the engine
// could not run.  A built-in corpus of regression programs (see `corpus`) runs before the random ones.
// Temp dirs: /tmp/logdiff-tmp-<pid>-*, removed on every exit path.
package main

import (
	"bufio"
	"bytes"
	"encoding/binary"
	"encoding/json"
	"flag"
	"fmt"
	"hash/maphash"
	"io"
	"math/rand"
	"os"
	"os/exec"
	"os/signal"
	"path/filepath"
	"runtime"
	"sort"
	"strconv"
	"strings"
	"sync"
	"sync/atomic"
	"syscall"
	"time"

	rlog "github.com/santhosh-tekuri/raft/log"
)

const (
	kFinished   = 1 << 20
	maxEntryLen = 8192
	maxSlots    = 4
)

// ---------------------------------------------------------------------------------------------
// payloads and digests (must match Driver/SegLog.lean)

func genBytes(seed uint64, n int) []byte {
	st := seed*0x9E3779B97F4A7C15 + 0x632BE59BD9B4E019
	b := make([]byte, n)
	for i := range b {
		st = st*6364136223846793005 + 1442695040888963407
		b[i] = byte(st >> 56)
	}
	return b
}

const (
	fnvInit  uint64 = 14695981039346656037
	fnvPrime uint64 = 1099511628211
)

func fnvEntry(h uint64, b []byte) uint64 {
	n := uint32(len(b))
	for k := uint(0); k < 4; k++ {
		h = (h ^ uint64(byte(n>>(8*k)))) * fnvPrime
	}
	for _, c := range b {
		h = (h ^ uint64(c)) * fnvPrime
	}
	return h
}

type digest struct {
	Len int    `json:"len"`
	H   string `json:"h"`
}

func bytesDigest(b []byte) digest {
	return digest{Len: len(b), H: strconv.FormatUint(fnvEntry(fnvInit, b), 10)}
}

// canon re-encodes any value (or raw JSON) into canonical JSON text: object keys sorted, numbers
// kept literally.
func canon(v interface{}) string {
	var raw []byte
	switch x := v.(type) {
	case json.RawMessage:
		raw = x
	case []byte:
		raw = x
	default:
		b, err := json.Marshal(v)
		if err != nil {
			return fmt.Sprintf("\"<marshal error %v>\"", err)
		}
		raw = b
	}
	dec := json.NewDecoder(bytes.NewReader(raw))
	dec.UseNumber()
	var g interface{}
	if err := dec.Decode(&g); err != nil {
		return fmt.Sprintf("\"<bad json %v>\"", err)
	}
	b, _ := json.Marshal(g)
	return string(b)
}

func raws(ss []string) []json.RawMessage {
	out := []json.RawMessage{}
	for _, s := range ss {
		out = append(out, rawOf(s))
	}
	return out
}

func rawOf(s string) json.RawMessage {
	if s == "" {
		return json.RawMessage("null")
	}
	return json.RawMessage(s)
}

// ---------------------------------------------------------------------------------------------
// ops and programs

type Op struct {
	Kind string
	Seed uint64 // append
	Len  int    // append
	N    uint64 // commitN, getN
	I    uint64 // index argument
	P, L uint64 // viewAt
	Slot int    // viewAt
	View int    // get/getN/contains: slot or -1
	SS   int    // reopen
}

func (o Op) toMap() map[string]interface{} {
	m := map[string]interface{}{"op": o.Kind}
	switch o.Kind {
	case "append":
		m["seed"], m["len"] = o.Seed, o.Len
	case "commitN":
		m["n"] = o.N
	case "removeLTE", "removeGTE", "reset", "canLTE":
		m["i"] = o.I
	case "reopen":
		m["segmentSize"] = o.SS
	case "viewAt":
		m["p"], m["l"], m["slot"] = o.P, o.L, o.Slot
	case "get", "contains":
		m["i"], m["view"] = o.I, o.View
	case "getN":
		m["i"], m["n"], m["view"] = o.I, o.N, o.View
	}
	return m
}

func (o Op) MarshalJSON() ([]byte, error) { return json.Marshal(o.toMap()) }

func (o *Op) UnmarshalJSON(b []byte) error {
	var m struct {
		Op          string `json:"op"`
		Seed        uint64 `json:"seed"`
		Len         int    `json:"len"`
		N           uint64 `json:"n"`
		I           uint64 `json:"i"`
		P           uint64 `json:"p"`
		L           uint64 `json:"l"`
		Slot        int    `json:"slot"`
		View        *int   `json:"view"`
		SegmentSize int    `json:"segmentSize"`
	}
	if err := json.Unmarshal(b, &m); err != nil {
		return err
	}
	*o = Op{Kind: m.Op, Seed: m.Seed, Len: m.Len, N: m.N, I: m.I, P: m.P, L: m.L, Slot: m.Slot, View: -1, SS: m.SegmentSize}
	if m.View != nil {
		o.View = *m.View
	}
	return nil
}

// withOps copies a program (same seed, segment size, flags) with another op list.
func (p *Program) withOps(ops []Op, tier string) *Program {
	c := *p
	c.Ops = append([]Op(nil), ops...)
	c.Note = ""
	if tier != "" {
		c.Tier = tier
	}
	return &c
}

func isMutating(kind string) bool {
	switch kind {
	case "append", "commitN", "commit", "removeLTE", "removeGTE", "reset", "reopen":
		return true
	}
	return false
}

type Program struct {
	Engine      string `json:"engine"`
	Seed        int64  `json:"seed"`
	Tier        string `json:"tier"`
	SegmentSize int    `json:"segmentSize"`
	Ops         []Op   `json:"ops"`
	AllPoints   bool   `json:"allPoints,omitempty"` // evaluate every crash point whatever the tier
	Note        string `json:"note,omitempty"`
}

// corpus: regression programs that run first in every tier and for every seed, with all crash
// points.  Entry 0 is the minimal program of the (repaired) finding
// "seglog-zero-length-segment-after-create": a roll-over; every crash image must reopen.
var corpus = []Program{
	{Engine: "logdiff", Seed: 3433448078539403959, SegmentSize: 1235, AllPoints: true, Ops: []Op{
		{Kind: "append", Seed: 1736286543, Len: 23, View: -1},
		{Kind: "append", Seed: 1690342847, Len: 1212, View: -1}}},
	{Engine: "logdiff", Seed: 11, SegmentSize: 1024, AllPoints: true, Ops: []Op{ // roll-over, reset, removeGTE below prev: all create paths
		{Kind: "append", Seed: 1, Len: 500, View: -1}, {Kind: "append", Seed: 2, Len: 600, View: -1},
		{Kind: "reset", I: 7, View: -1}, {Kind: "append", Seed: 3, Len: 40, View: -1},
		{Kind: "removeGTE", I: 3, View: -1}, {Kind: "reopen", SS: 2000, View: -1}, {Kind: "append", Seed: 4, Len: 1976, View: -1}}},
}

// ---------------------------------------------------------------------------------------------
// configuration

type config struct {
	tier      string
	maxOpsLo  int
	maxOpsHi  int
	powerImgs int
	junkProb  float64
	junkVars  int
	c13, c14  bool
	ptKeep    float64 // probability that a crash point is evaluated
}

// setTier fixes everything that influences how a program runs (a replay uses the tier saved with it).
func (c *config) setTier(tier string) bool {
	c.tier = tier
	switch tier {
	case "quick":
		c.maxOpsLo, c.maxOpsHi, c.powerImgs, c.junkProb, c.junkVars, c.ptKeep = 20, 60, 3, 0.5, 2, 1
	case "thorough":
		c.maxOpsLo, c.maxOpsHi, c.powerImgs, c.junkProb, c.junkVars, c.ptKeep = 50, 250, 6, 0.5, 3, 0.35
	default:
		return false
	}
	return true
}

// ---------------------------------------------------------------------------------------------
// model driver

type driver struct {
	cmd *exec.Cmd
	in  io.WriteCloser
	out *bufio.Reader
}

func startDriver(path string) (*driver, error) {
	cmd := exec.Command(path)
	in, err := cmd.StdinPipe()
	if err != nil {
		return nil, err
	}
	out, err := cmd.StdoutPipe()
	if err != nil {
		return nil, err
	}
	cmd.Stderr = os.Stderr
	if err := cmd.Start(); err != nil {
		return nil, err
	}
	return &driver{cmd: cmd, in: in, out: bufio.NewReaderSize(out, 1<<20)}, nil
}

func (d *driver) call(req interface{}) ([]byte, error) {
	b, err := json.Marshal(req)
	if err != nil {
		return nil, err
	}
	if _, err := d.in.Write(append(b, '\n')); err != nil {
		return nil, err
	}
	line, err := d.out.ReadBytes('\n')
	if err != nil {
		return nil, fmt.Errorf("driver: %v", err)
	}
	return line, nil
}

func (d *driver) close() {
	_ = d.in.Close()
	_ = d.cmd.Wait()
}

// ---------------------------------------------------------------------------------------------
// temp dirs (only under /tmp/logdiff-*), removed on every exit path

var (
	rootsMu sync.Mutex
	roots   []string
)

func newRoot(tag string) string {
	dir := fmt.Sprintf("/tmp/logdiff-tmp-%d-%s", os.Getpid(), tag)
	_ = os.RemoveAll(dir)
	if err := os.MkdirAll(dir, 0700); err != nil {
		fatal("mkdir %s: %v", dir, err)
	}
	rootsMu.Lock()
	roots = append(roots, dir)
	rootsMu.Unlock()
	return dir
}

func cleanup() {
	rootsMu.Lock()
	defer rootsMu.Unlock()
	for _, r := range roots {
		_ = os.RemoveAll(r)
	}
	roots = nil
}

// guard removes the temp dirs if the engine itself panics (deferred in every goroutine that works).
func guard() {
	if r := recover(); r != nil {
		cleanup()
		panic(r)
	}
}

func fatal(format string, args ...interface{}) {
	fmt.Fprintf(os.Stderr, "logdiff: "+format+"\n", args...)
	cleanup()
	os.Exit(2)
}

// ---------------------------------------------------------------------------------------------
// the verifPoint hook is package-global: dispatch on the directory of the file argument

var hookReg sync.Map // live dir -> *runner

func hookFn(name string, args ...interface{}) {
	if len(args) == 0 {
		return // "append:committed": no file, no micro-step
	}
	path, ok := args[0].(string)
	if !ok {
		return
	}
	v, ok := hookReg.Load(filepath.Dir(path))
	if !ok {
		return // an image directory being evaluated
	}
	v.(*runner).point(name, path, args[1:])
}

// ---------------------------------------------------------------------------------------------
// real-side state

type segST struct {
	Prev   uint64 `json:"prev"`
	N      int    `json:"n"`
	Size   int    `json:"size"`
	Synced int    `json:"synced"`
	Cap    int    `json:"cap"`
	H      string `json:"h"`
}

type logST struct {
	Segs        []segST `json:"segs"`
	Prev        uint64  `json:"prev"`
	Last        uint64  `json:"last"`
	Count       uint64  `json:"count"`
	SegmentSize int     `json:"segmentSize"`
}

// digestLog reads every entry of every segment through Get.  Panics of the real code propagate.
func digestLog(l *rlog.Log, visit func(i uint64, b []byte)) logST {
	st := logST{Segs: []segST{}}
	for _, s := range l.VerifSegments() {
		h := fnvInit
		for k := 1; k <= s.N; k++ {
			i := s.PrevIndex + uint64(k)
			b, err := l.Get(i)
			if err != nil {
				panic(fmt.Sprintf("digest: Get(%d): %v", i, err))
			}
			if visit != nil {
				visit(i, b)
			}
			h = fnvEntry(h, b)
		}
		st.Segs = append(st.Segs, segST{Prev: s.PrevIndex, N: s.N, Size: s.Size, Synced: s.Synced, Cap: s.FileSize,
			H: strconv.FormatUint(h, 10)})
	}
	st.Prev, st.Last, st.Count, st.SegmentSize = l.PrevIndex(), l.LastIndex(), l.Count(), l.VerifSegmentSize()
	return st
}

func panicName(r interface{}) string {
	msg := fmt.Sprint(r)
	switch {
	case strings.Contains(msg, ">lastIndex"):
		return "panic:gtLastIndex"
	case strings.Contains(msg, "i<=prevIndex"):
		return "panic:lePrevIndex"
	}
	return "panic:other:" + msg
}

// ---------------------------------------------------------------------------------------------
// shadow abstract log

type absLog struct {
	prev    uint64
	entries [][]byte
}

func (a absLog) last() uint64      { return a.prev + uint64(len(a.entries)) }
func (a absLog) has(j uint64) bool { return j > a.prev && j <= a.last() }
func (a absLog) get(j uint64) []byte {
	return a.entries[j-a.prev-1]
}
func (a absLog) snapshot() absLog {
	return absLog{prev: a.prev, entries: append([][]byte(nil), a.entries...)}
}

type entMeta struct {
	Seed uint64 `json:"seed"`
	Len  int    `json:"len"`
}

// ---------------------------------------------------------------------------------------------
// views: a private copy of the range and a goroutine that keeps re-reading it

type viewState struct {
	v    *rlog.Log
	p, l uint64
	priv [][]byte
	kick chan struct{}
	stop chan struct{}
	done chan struct{}
	busy *int32
	mu   sync.Mutex
	err  string
	runs int
}

func (vs *viewState) pass() (msg string) {
	defer func() {
		if r := recover(); r != nil {
			msg = fmt.Sprintf("concurrent view reader panicked: %v", r)
		}
	}()
	for i := vs.p + 1; i <= vs.l; i++ {
		b, err := vs.v.Get(i)
		if err != nil {
			return fmt.Sprintf("concurrent view Get(%d): %v", i, err)
		}
		if !bytes.Equal(b, vs.priv[i-vs.p-1]) {
			return fmt.Sprintf("concurrent view Get(%d) changed (view [%d,%d])", i, vs.p, vs.l)
		}
	}
	if vs.l > vs.p {
		chunks, err := vs.v.GetN(vs.p+1, vs.l-vs.p)
		if err != nil {
			return fmt.Sprintf("concurrent view GetN(%d,%d): %v", vs.p+1, vs.l-vs.p, err)
		}
		if !bytes.Equal(bytes.Join(chunks, nil), bytes.Join(vs.priv, nil)) {
			return fmt.Sprintf("concurrent view GetN(%d,%d) changed", vs.p+1, vs.l-vs.p)
		}
	}
	return ""
}

func (vs *viewState) loop() {
	defer close(vs.done)
	for {
		select {
		case <-vs.stop:
			return
		case <-vs.kick:
		}
		for {
			msg := vs.pass()
			vs.mu.Lock()
			vs.runs++
			if msg != "" && vs.err == "" {
				vs.err = msg
			}
			vs.mu.Unlock()
			if msg != "" || atomic.LoadInt32(vs.busy) == 0 {
				break
			}
			select {
			case <-vs.stop:
				return
			default:
				runtime.Gosched()
			}
		}
	}
}

// ---------------------------------------------------------------------------------------------
// failures, results

type fail struct {
	Kind       string          `json:"kind"` // out|script|state|crash-kill|crash-power|reopen|junk|C13|C14|engine
	Prop       string          `json:"-"`
	FindingKey string          `json:"finding_key,omitempty"`
	OpIndex    int             `json:"op_index"`
	Note       string          `json:"note"`
	Real       json.RawMessage `json:"real"`
	Model      json.RawMessage `json:"model"`
}

func (f *fail) sig() string { return f.Kind + "|" + f.Prop + "|" + f.FindingKey }

type crashPt struct {
	at     int
	k      int
	point  string
	opKind string
	kill   map[string][]byte
	dur    map[string][]byte
	liveN  map[string]int
}

type crashRec struct {
	At, K, SS int
	Point     string
	OpKind    string
	Kill      string
	Power     []string
	PowerMode []string
}

type junkRec struct {
	Req   map[string]interface{}
	Real  string
	Model string
}

type sample struct {
	Kind string      `json:"kind"`
	Case interface{} `json:"case"`
}

type progResult struct {
	prog     *Program
	outs     []string
	states   []string
	observed [][]string
	crashes  []crashRec
	junk     []junkRec
	fails    []*fail
	known    map[string]int
	evals    int
	keys     map[string]bool // key -> non-trivial
	hist     map[string]int
	samples  []sample
	nKill    int
	nPower   int
	firstBad int // first op index at which real and model differ (-1: none)
	viewRuns int
	tReal    float64
	tModel   float64
}

func (res *progResult) addFail(f *fail) {
	for _, g := range res.fails {
		if g.sig() == f.sig() {
			return
		}
	}
	res.fails = append(res.fails, f)
}

func (res *progResult) key(k string, nontrivial bool) {
	if nontrivial {
		res.keys[k] = true
	} else if _, ok := res.keys[k]; !ok {
		res.keys[k] = false
	}
}

// ---------------------------------------------------------------------------------------------
// worker: one temp root, one driver process

type worker struct {
	id      int
	cfg     *config
	liveDir string
	imgDir  string
	drv     *driver
	imgCur  map[string][]byte // what is believed to be in imgDir (nil value: unknown content)
	reqID   int
}

func newWorker(id int, cfg *config, driverPath string) *worker {
	root := newRoot(fmt.Sprintf("w%d", id))
	d, err := startDriver(driverPath)
	if err != nil {
		fatal("start driver: %v", err)
	}
	return &worker{id: id, cfg: cfg, liveDir: filepath.Join(root, "live"), imgDir: filepath.Join(root, "img"), drv: d,
		imgCur: map[string][]byte{}}
}

// syncImg makes imgDir hold exactly `files`, rewriting only what differs.
func (w *worker) syncImg(files map[string][]byte) {
	if err := os.MkdirAll(w.imgDir, 0700); err != nil {
		fatal("mkdir img: %v", err)
	}
	for name, cur := range w.imgCur {
		if _, ok := files[name]; !ok {
			_ = os.Remove(filepath.Join(w.imgDir, name))
			delete(w.imgCur, name)
			_ = cur
		}
	}
	for name, b := range files {
		cur, ok := w.imgCur[name]
		if ok && cur != nil && bytes.Equal(cur, b) {
			continue
		}
		if err := writeInPlace(filepath.Join(w.imgDir, name), b, ok && cur != nil && len(cur) == len(b)); err != nil {
			fatal("write image file: %v", err)
		}
		if b == nil {
			b = []byte{}
		}
		w.imgCur[name] = b
	}
}

// writeInPlace overwrites a file without O_TRUNC when the length is unchanged (no block
// reallocation, so the fsync the real Open does on every file stays cheap).
func writeInPlace(path string, b []byte, sameLen bool) error {
	if !sameLen {
		return os.WriteFile(path, b, 0600)
	}
	f, err := os.OpenFile(path, os.O_WRONLY, 0600)
	if err != nil {
		return os.WriteFile(path, b, 0600)
	}
	_, err = f.WriteAt(b, 0)
	if e := f.Close(); err == nil {
		err = e
	}
	return err
}

func listLogs(dir string) []string {
	ents, err := os.ReadDir(dir)
	if err != nil {
		return nil
	}
	var names []string
	for _, e := range ents {
		names = append(names, e.Name())
	}
	return names
}

func namesAscending(names []string) []uint64 {
	out := []uint64{}
	for _, n := range names {
		if v, err := strconv.ParseUint(strings.TrimSuffix(n, ".log"), 10, 64); err == nil {
			out = append(out, v)
		}
	}
	sort.Slice(out, func(i, j int) bool { return out[i] < out[j] })
	return out
}

type c14ctx struct {
	A, B      absLog
	committed uint64
}

type imgResult struct {
	outcome string // canonical OUTCOME json
	class   string // ok|openFail|panic
	openErr string
	c14     string // "" = predicate holds (or not evaluated)
	tamper  string
}

// evalImage writes the image, opens it with the real code, digests it, evaluates C14, closes it.
func (w *worker) evalImage(files map[string][]byte, ss int, ctx *c14ctx, verify bool) (res imgResult) {
	w.syncImg(files)
	var l *rlog.Log
	func() {
		defer func() {
			if r := recover(); r != nil {
				res.class = "panic"
				res.outcome = canon(map[string]string{"err": "real:" + panicName(r)})
				if ctx != nil {
					res.c14 = fmt.Sprintf("reopened image not readable: %v", r)
				}
				if l != nil {
					func() {
						defer func() { _ = recover() }()
						_ = l.Close()
					}()
				}
			}
		}()
		var err error
		l, err = rlog.Open(w.imgDir, 0700, rlog.Options{FileMode: 0600, SegmentSize: ss})
		if err != nil {
			l = nil
			res.class = "openFail"
			res.openErr = err.Error()
			res.outcome = canon(map[string]string{"err": "openFail"})
			if ctx != nil {
				res.c14 = "log.Open on the crash image failed: " + err.Error()
			}
			return
		}
		var bad string
		st := digestLog(l, func(j uint64, b []byte) {
			if ctx == nil || bad != "" {
				return
			}
			okA := ctx.A.has(j) && bytes.Equal(ctx.A.get(j), b)
			okB := ctx.B.has(j) && bytes.Equal(ctx.B.get(j), b)
			if !okA && !okB {
				bad = fmt.Sprintf("entry %d of the reopened log (len %d) is neither the pre-op nor the post-op entry", j, len(b))
			}
		})
		if ctx != nil && bad == "" {
			lo := ctx.A.prev
			if ctx.B.prev > lo {
				lo = ctx.B.prev
			}
			for j := lo + 1; j <= ctx.committed; j++ {
				if ctx.A.has(j) && ctx.B.has(j) && bytes.Equal(ctx.A.get(j), ctx.B.get(j)) && !(j > st.Prev && j <= st.Last) {
					bad = fmt.Sprintf("committed entry %d (committed=%d) is missing from the reopened log (%d,%d]", j, ctx.committed, st.Prev, st.Last)
					break
				}
			}
		}
		res.c14 = bad
		cerr := l.Close()
		l = nil
		res.class = "ok"
		out := map[string]interface{}{"ok": st, "files": namesAscending(listLogs(w.imgDir))}
		if cerr != nil {
			out["closeErr"] = cerr.Error()
		}
		res.outcome = canon(out)
	}()
	// reconcile our idea of the image directory with what Open left behind
	present := map[string]bool{}
	for _, n := range listLogs(w.imgDir) {
		present[n] = true
		if _, ok := w.imgCur[n]; !ok {
			w.imgCur[n] = nil
		}
	}
	for n := range w.imgCur {
		if !present[n] {
			delete(w.imgCur, n)
		}
	}
	if verify {
		for n, want := range w.imgCur {
			if want == nil {
				continue
			}
			got, err := os.ReadFile(filepath.Join(w.imgDir, n))
			if err != nil || !bytes.Equal(got, want) {
				res.tamper = fmt.Sprintf("Open/Close of a crash image changed the bytes of %s", n)
				w.imgCur[n] = nil
			}
		}
	}
	return res
}

// ---------------------------------------------------------------------------------------------
// runner: one program on the real code

type runner struct {
	w   *worker
	cfg *config
	res *progResult
	rng *rand.Rand // crash-image randomness

	l       *rlog.Log
	closing bool
	dead    bool

	sh        absLog
	meta      []entMeta
	committed uint64

	views    [maxSlots]*viewState
	busy     int32
	lastRead map[string][]byte
	durable  map[string][]byte

	inOp     bool
	opIndex  int
	opKind   string
	kSteps   int
	observed []string
	pending  []*crashPt
}

func (r *runner) readFile(path string) []byte {
	b, err := os.ReadFile(path)
	if err != nil {
		return nil
	}
	name := filepath.Base(path)
	if old, ok := r.lastRead[name]; ok && bytes.Equal(old, b) {
		return old
	}
	if b == nil {
		b = []byte{}
	}
	r.lastRead[name] = b
	return b
}

func (r *runner) snapshotLive() map[string][]byte {
	m := map[string][]byte{}
	for _, n := range listLogs(r.w.liveDir) {
		if b := r.readFile(filepath.Join(r.w.liveDir, n)); b != nil {
			m[n] = b
		}
	}
	return m
}

func (r *runner) liveN() map[string]int {
	m := map[string]int{}
	if r.l == nil || r.closing {
		return m
	}
	func() {
		defer func() { _ = recover() }()
		for _, s := range r.l.VerifSegments() {
			m[filepath.Base(s.Name)] = s.N
		}
	}()
	return m
}

// point is the verifPoint callback for this runner's live directory.
func (r *runner) point(name, path string, args []interface{}) {
	base := filepath.Base(path)
	num := strings.TrimSuffix(strings.TrimSuffix(base, ".tmp"), ".log")
	arg := func() string {
		if len(args) > 0 {
			return fmt.Sprint(args[0])
		}
		return "?"
	}
	step := ""
	switch name {
	case "sync:msync1", "sync:msync2":
		step = "msync " + num
		r.durable[base] = r.readFile(path)
	case "sync:header", "removeGTE:lowered":
		step = "store " + num + " " + arg()
	case "create:created":
		step = "tmpcreate " + num // base is <N>.log.tmp (O_CREATE|O_TRUNC: empty, durable at once)
		r.durable[base] = []byte{}
	case "create:truncated":
		step = "tmptruncate " + num + " " + arg()
		if n, err := strconv.Atoi(arg()); err == nil && n >= 0 {
			r.durable[base] = make([]byte, n)
		}
	case "create:zeroed":
		step = "tmpzero16 " + num
	case "create:synced":
		step = "tmpfsync " + num
		r.durable[base] = r.readFile(path)
	case "create:renamed":
		// path is the FINAL name; rename is durable at once: the durable bytes move with the file
		step = "rename " + num
		tmp := base + ".tmp"
		if d, ok := r.durable[tmp]; ok {
			r.durable[base] = d
		} else {
			r.durable[base] = r.readFile(path)
		}
		delete(r.durable, tmp)
		delete(r.lastRead, tmp)
	case "reset:removed", "removeLTE:removed", "removeGTE:removed":
		step = "remove " + num
		delete(r.durable, base)
		delete(r.lastRead, base)
	default:
		return // non-step points: nothing happened on disk since the previous step point
	}
	if !r.inOp {
		return
	}
	r.kSteps++
	r.observed = append(r.observed, step)
	r.copyPoint(name, r.kSteps)
}

func (r *runner) copyPoint(name string, k int) {
	if keep := r.cfg.ptKeep; keep < 1 && !r.res.prog.AllPoints && r.rng.Float64() >= keep {
		return
	}
	dur := make(map[string][]byte, len(r.durable))
	for n, b := range r.durable {
		dur[n] = b
	}
	r.pending = append(r.pending, &crashPt{at: r.opIndex, k: k, point: name, opKind: r.opKind,
		kill: r.snapshotLive(), dur: dur, liveN: r.liveN()})
}

// ---- views

func (r *runner) stopView(slot int) {
	vs := r.views[slot]
	if vs == nil {
		return
	}
	close(vs.stop)
	<-vs.done
	vs.mu.Lock()
	msg := vs.err
	r.res.viewRuns += vs.runs
	vs.mu.Unlock()
	if msg != "" {
		r.direct("C13", msg, nil)
	}
	r.views[slot] = nil
}

func (r *runner) dropViews() {
	for s := range r.views {
		r.stopView(s)
	}
}

func (r *runner) kickViews() {
	for _, vs := range r.views {
		if vs != nil {
			select {
			case vs.kick <- struct{}{}:
			default:
			}
		}
	}
}

func (r *runner) direct(prop, note string, real interface{}) {
	if (prop == "C13" && !r.cfg.c13) || (prop == "C14" && !r.cfg.c14) {
		return
	}
	f := &fail{Kind: prop, Prop: prop, OpIndex: r.opIndex, Note: note}
	if real != nil {
		f.Real = rawOf(canon(real))
	}
	r.res.addFail(f)
}

// ---- executing one op

func (r *runner) errOut(err error) interface{} {
	if err == nil {
		return "ok"
	}
	return "error:" + err.Error()
}

func (r *runner) apply(op *Op) (out interface{}) {
	defer func() {
		if rec := recover(); rec != nil {
			out = panicName(rec)
			if isMutating(op.Kind) {
				r.dead = true
			}
		}
	}()
	l := r.l
	switch op.Kind {
	case "append":
		b := genBytes(op.Seed, op.Len)
		atomic.StoreInt32(&r.busy, 1)
		r.kickViews()
		err := l.Append(b)
		atomic.StoreInt32(&r.busy, 0)
		if err == rlog.ErrExceedsSegmentSize {
			return "exceeds"
		}
		if err != nil {
			r.dead = true
			return r.errOut(err)
		}
		r.sh.entries = append(r.sh.entries, b)
		r.meta = append(r.meta, entMeta{op.Seed, op.Len})
		return "ok"
	case "commitN":
		r.kickViews()
		err := l.CommitN(op.N)
		if err == nil {
			c := op.N
			if c > l.LastIndex() {
				c = l.LastIndex()
			}
			if c > r.committed {
				r.committed = c
			}
		}
		return r.errOut(err)
	case "commit":
		r.kickViews()
		err := l.Commit()
		if err == nil {
			r.committed = l.LastIndex()
		}
		return r.errOut(err)
	case "removeLTE":
		r.dropViews()
		c := l.CanLTE(op.I)
		oldPrev := r.sh.prev
		whole := false
		for _, s := range l.VerifSegments() {
			if s.PrevIndex == c {
				whole = true
			}
		}
		err := l.RemoveLTE(op.I)
		if err != nil {
			r.dead = true
			return r.errOut(err)
		}
		bound := op.I
		if oldPrev > bound {
			bound = oldPrev
		}
		if c > bound || c < oldPrev || !whole || l.PrevIndex() != c {
			r.direct("C13", fmt.Sprintf("RemoveLTE(%d): CanLTE said %d, old prev %d, whole-segment=%v, PrevIndex()=%d", op.I, c, oldPrev, whole, l.PrevIndex()), nil)
		}
		if c >= r.sh.prev && c <= r.sh.last() {
			d := int(c - r.sh.prev)
			r.sh.entries = r.sh.entries[d:]
			r.meta = r.meta[d:]
			r.sh.prev = c
		}
		r.committed = l.LastIndex()
		return "ok"
	case "removeGTE":
		r.dropViews()
		i := op.I
		lim := uint64(0)
		if i > 0 {
			lim = i - 1
		}
		if r.committed > lim {
			r.committed = lim
		}
		err := l.RemoveGTE(i)
		if err != nil {
			r.dead = true
			return r.errOut(err)
		}
		if i <= r.sh.prev {
			r.sh.prev, r.sh.entries, r.meta = lim, nil, nil
		} else if keep := i - r.sh.prev - 1; keep < uint64(len(r.sh.entries)) {
			r.sh.entries, r.meta = r.sh.entries[:keep], r.meta[:keep]
		}
		r.committed = l.LastIndex()
		return "ok"
	case "reset":
		r.dropViews()
		err := l.Reset(op.I)
		if err != nil {
			r.dead = true
			return r.errOut(err)
		}
		r.sh.prev, r.sh.entries, r.meta = op.I, nil, nil
		r.committed = op.I
		return "ok"
	case "reopen":
		r.dropViews()
		r.closing = true
		err := l.Close()
		r.l = nil
		if err != nil {
			r.dead = true
			return "error:close:" + err.Error()
		}
		nl, err := rlog.Open(r.w.liveDir, 0700, rlog.Options{FileMode: 0600, SegmentSize: op.SS})
		if err != nil {
			r.dead = true
			return "error:open:" + err.Error()
		}
		r.l = nl
		r.closing = false
		r.durable = r.snapshotLive()
		r.committed = nl.LastIndex()
		return map[string]bool{"reopenAgrees": true}
	case "canLTE":
		return l.CanLTE(op.I)
	case "viewAt":
		v := l.ViewAt(op.P, op.L)
		if v == nil {
			return "nil"
		}
		if op.Slot < 0 || op.Slot >= maxSlots {
			return "ok"
		}
		r.stopView(op.Slot)
		vs := &viewState{v: v, p: op.P, l: op.L, kick: make(chan struct{}, 1), stop: make(chan struct{}),
			done: make(chan struct{}), busy: &r.busy}
		for i := op.P + 1; i <= op.L; i++ {
			b, err := v.Get(i)
			if err != nil {
				r.direct("C13", fmt.Sprintf("fresh view [%d,%d]: Get(%d): %v", op.P, op.L, i, err), nil)
				b = nil
			} else if r.sh.has(i) && !bytes.Equal(b, r.sh.get(i)) {
				r.direct("C13", fmt.Sprintf("fresh view [%d,%d]: Get(%d) differs from the appended entry", op.P, op.L, i), nil)
			}
			vs.priv = append(vs.priv, append([]byte(nil), b...))
		}
		r.views[op.Slot] = vs
		if r.cfg.c13 {
			go vs.loop()
		} else {
			close(vs.done)
		}
		return "ok"
	case "get", "getN", "contains":
		return r.read(op)
	}
	return "unknown op " + op.Kind
}

// read performs get/getN/contains on the log or a live view, with the direct C13 checks.
func (r *runner) read(op *Op) (out interface{}) {
	target := r.l
	ref := r.sh // what the reader is supposed to see
	what := "log"
	if op.View >= 0 && op.View < maxSlots && r.views[op.View] != nil {
		vs := r.views[op.View]
		target = vs.v
		ref = absLog{prev: vs.p, entries: vs.priv}
		what = fmt.Sprintf("view[%d,%d]", vs.p, vs.l)
	}
	prev, last := ref.prev, ref.last()
	var expect string // "", "notFound", "panic:gtLastIndex"
	defer func() {
		if rec := recover(); rec != nil {
			out = panicName(rec)
			if expect != "panic:gtLastIndex" || out != "panic:gtLastIndex" {
				r.direct("C13", fmt.Sprintf("%s %s(%d,%d): %v, expected %q", what, op.Kind, op.I, op.N, out, expect), nil)
			}
		}
	}()
	switch op.Kind {
	case "get":
		switch {
		case op.I > last:
			expect = "panic:gtLastIndex"
		case op.I <= prev:
			expect = "notFound"
		}
		b, err := target.Get(op.I)
		if err == rlog.ErrNotFound {
			if expect != "notFound" {
				r.direct("C13", fmt.Sprintf("%s Get(%d)=ErrNotFound, bounds (%d,%d]", what, op.I, prev, last), nil)
			}
			return "notFound"
		}
		if err != nil {
			return "error:" + err.Error()
		}
		if expect != "" || !bytes.Equal(b, ref.get(op.I)) {
			r.direct("C13", fmt.Sprintf("%s Get(%d) returned %d bytes; expected %q / entry of %d bytes", what, op.I, len(b), expect, func() int {
				if ref.has(op.I) {
					return len(ref.get(op.I))
				}
				return -1
			}()), bytesDigest(b))
		}
		return map[string]interface{}{"ok": bytesDigest(b)}
	case "getN":
		i, n := op.I, op.N
		switch {
		case n == 0 && (i == 0 || i-1 > last), n > 0 && i+(n-1) > last, i > last:
			expect = "panic:gtLastIndex"
		case i <= prev:
			expect = "notFound"
		}
		chunks, err := target.GetN(i, n)
		if err == rlog.ErrNotFound {
			if expect != "notFound" {
				r.direct("C13", fmt.Sprintf("%s GetN(%d,%d)=ErrNotFound, bounds (%d,%d]", what, i, n, prev, last), nil)
			}
			return "notFound"
		}
		if err != nil {
			return "error:" + err.Error()
		}
		ds := []digest{}
		for _, c := range chunks {
			ds = append(ds, bytesDigest(c))
		}
		if expect != "" {
			r.direct("C13", fmt.Sprintf("%s GetN(%d,%d) succeeded, expected %q", what, i, n, expect), ds)
		} else {
			want := bytes.Join(ref.entries[i-prev-1:i-prev-1+n], nil)
			if !bytes.Equal(bytes.Join(chunks, nil), want) {
				r.direct("C13", fmt.Sprintf("%s GetN(%d,%d): concatenation differs from the appended entries", what, i, n), ds)
			}
		}
		return map[string]interface{}{"ok": ds}
	case "contains":
		c, p, la, cnt := target.Contains(op.I), target.PrevIndex(), target.LastIndex(), target.Count()
		if c != (op.I > prev && op.I <= last) || p != prev || la != last || cnt != last-prev {
			r.direct("C13", fmt.Sprintf("%s Contains(%d)=%v prev=%d last=%d count=%d; expected bounds (%d,%d]", what, op.I, c, p, la, cnt, prev, last), nil)
		}
		return map[string]interface{}{"contains": c, "prev": p, "last": la, "count": cnt}
	}
	return "unknown"
}

// ---- crash images

func wordsOf(n int) int { return (n + 7) / 8 }

type fileDiff struct {
	name  string
	d, c  []byte
	words []int // indices of differing 8-byte words
	table int   // byte offset where the offset table (incl. header) starts
}

func (r *runner) diffs(cp *crashPt) (out []fileDiff, total int) {
	names := make([]string, 0, len(cp.kill))
	for n := range cp.kill {
		names = append(names, n)
	}
	sort.Strings(names)
	for _, n := range names {
		c := cp.kill[n]
		d, ok := cp.dur[n]
		if !ok {
			d = c
		}
		if len(d) != len(c) { // size changes are durable at once; pad/cut the durable bytes
			dd := make([]byte, len(c))
			copy(dd, d)
			d = dd
		}
		fd := fileDiff{name: n, d: d, c: c}
		for w := 0; w < wordsOf(len(c)); w++ {
			lo, hi := 8*w, 8*w+8
			if hi > len(c) {
				hi = len(c)
			}
			if !bytes.Equal(d[lo:hi], c[lo:hi]) {
				fd.words = append(fd.words, w)
			}
		}
		nmax := cp.liveN[n]
		if len(c) >= 8 {
			for _, img := range [][]byte{d, c} {
				if h := binary.LittleEndian.Uint64(img[len(img)-8:]); h < uint64(len(c)/8) && int(h) > nmax {
					nmax = int(h)
				}
			}
		}
		fd.table = len(c) - 8*(nmax+3)
		if fd.table < 0 {
			fd.table = 0
		}
		total += len(fd.words)
		out = append(out, fd)
	}
	return out, total
}

// strayTmp invents a leftover "<K>.log.tmp": K is an existing segment, the next segment name or
// anything; the content is empty, zeros or random bytes.
func strayTmp(rng *rand.Rand, files map[string][]byte, ss int) (string, []byte) {
	nums := namesAscending(func() []string {
		var ns []string
		for n := range files {
			ns = append(ns, n)
		}
		return ns
	}())
	var k uint64
	switch {
	case len(nums) > 0 && rng.Intn(3) == 0:
		k = nums[rng.Intn(len(nums))]
	case len(nums) > 0 && rng.Intn(2) == 0:
		k = nums[len(nums)-1] + 1 + uint64(rng.Intn(3))
	default:
		k = uint64(rng.Intn(40))
	}
	var b []byte
	switch rng.Intn(3) {
	case 0:
		b = []byte{}
	case 1:
		b = make([]byte, ss)
	default:
		b = make([]byte, 1+rng.Intn(ss))
		rng.Read(b)
	}
	return fmt.Sprintf("%d.log.tmp", k), b
}

var hashSeed = maphash.MakeSeed()

// imgKey identifies the byte content of an image (within one process run).
func imgKey(img map[string][]byte) string {
	names := make([]string, 0, len(img))
	for n := range img {
		names = append(names, n)
	}
	sort.Strings(names)
	var sb strings.Builder
	for _, n := range names {
		fmt.Fprintf(&sb, "%s:%d:%x;", n, len(img[n]), maphash.Bytes(hashSeed, img[n]))
	}
	return sb.String()
}

var modeNames = []string{"durable-only", "each-word-1/2", "prefix", "suffix", "table-only", "data-only"}

func (r *runner) synth(fds []fileDiff, mode int) map[string][]byte {
	img := map[string][]byte{}
	for _, fd := range fds {
		if len(fd.words) == 0 || mode == 0 {
			img[fd.name] = fd.d
			continue
		}
		b := append([]byte(nil), fd.d...)
		take := func(w int) {
			lo, hi := 8*w, 8*w+8
			if hi > len(b) {
				hi = len(b)
			}
			copy(b[lo:hi], fd.c[lo:hi])
		}
		switch mode {
		case 1:
			for _, w := range fd.words {
				if r.rng.Intn(2) == 0 {
					take(w)
				}
			}
		case 2:
			k := r.rng.Intn(len(fd.words) + 1)
			for _, w := range fd.words[:k] {
				take(w)
			}
		case 3:
			k := r.rng.Intn(len(fd.words) + 1)
			for _, w := range fd.words[k:] {
				take(w)
			}
		case 4:
			for _, w := range fd.words {
				if 8*w+8 > fd.table {
					take(w)
				}
			}
		case 5:
			for _, w := range fd.words {
				if 8*w+8 <= fd.table {
					take(w)
				}
			}
		}
		img[fd.name] = b
	}
	return img
}

func (r *runner) evalCrashes(A, B absLog, committed uint64, curSS int) {
	ctx := &c14ctx{A: A, B: B, committed: committed}
	if !r.cfg.c14 {
		ctx = nil
	}
	for _, cp := range r.pending {
		ss := curSS
		if r.rng.Intn(5) == 0 {
			ss = 1024 + r.rng.Intn(3073)
		}
		rec := crashRec{At: cp.at, K: cp.k, SS: ss, Point: cp.point, OpKind: cp.opKind}
		note := func(which string, ir imgResult) {
			if ir.tamper != "" {
				r.res.addFail(&fail{Kind: "engine", OpIndex: cp.at, Note: ir.tamper + " (" + which + " image at " + cp.point + ")"})
			}
			if ir.c14 == "" || ctx == nil {
				return
			}
			f := &fail{Kind: "C14", Prop: "C14", OpIndex: cp.at,
				Note: fmt.Sprintf("%s image at point %s (k=%d) of op %d (%s), reopened with SegmentSize %d: %s", which, cp.point, cp.k, cp.at, cp.opKind, ss, ir.c14),
				Real: rawOf(ir.outcome)}
			r.res.addFail(f)
		}
		if cp.point == "op:finished" && r.rng.Intn(4) == 0 {
			// a stray <K>.log.tmp (left behind by some earlier crash): Open must ignore it
			name, content := strayTmp(r.rng, cp.kill, ss)
			if _, exists := cp.kill[name]; !exists {
				kill2 := make(map[string][]byte, len(cp.kill)+1)
				for n, b := range cp.kill {
					kill2[n] = b
				}
				kill2[name] = content
				cp.kill = kill2
				cp.dur[name] = content
				r.res.hist["stray-tmp-in-crash-image"]++
			}
		}
		verify := r.rng.Intn(8) == 0
		kill := r.w.evalImage(cp.kill, ss, ctx, verify)
		rec.Kill = kill.outcome
		r.res.nKill++
		note("kill", kill)
		fds, total := r.diffs(cp)
		if total == 0 {
			// durable bytes == current bytes in every file: the only power image IS the kill image
			rec.Power = []string{kill.outcome}
			rec.PowerMode = []string{"identical-to-kill"}
		} else {
			// byte-identical images (e.g. only the header word differs: every subset is either the
			// durable or the kill image) are opened once
			seen := map[string]bool{imgKey(cp.kill): true}
			for pi := 0; pi < r.cfg.powerImgs; pi++ {
				mode := 0
				if pi > 0 {
					mode = 1 + r.rng.Intn(5)
				}
				img := r.synth(fds, mode)
				if key := imgKey(img); seen[key] {
					if pi == 0 || len(rec.Power) == 0 && pi == r.cfg.powerImgs-1 {
						rec.Power = append(rec.Power, kill.outcome)
						rec.PowerMode = append(rec.PowerMode, modeNames[mode]+"(=kill image)")
					}
					continue
				} else {
					seen[key] = true
				}
				ir := r.w.evalImage(img, ss, ctx, false)
				rec.Power = append(rec.Power, ir.outcome)
				rec.PowerMode = append(rec.PowerMode, modeNames[mode])
				r.res.nPower++
				note("power("+modeNames[mode]+")", ir)
			}
		}
		r.res.hist["crash:"+cp.point]++
		r.res.crashes = append(r.res.crashes, rec)
	}
	r.pending = nil
}

// ---- classification for the coverage keys

func idxClass(i uint64, segs []rlog.VerifSegment) string {
	if len(segs) == 0 {
		return "?"
	}
	prev := segs[0].PrevIndex
	ls := segs[len(segs)-1]
	last := ls.PrevIndex + uint64(ls.N)
	switch {
	case i == 0 && prev > 0:
		return "zero"
	case i < prev:
		return "<prev"
	case i == prev:
		return "=prev"
	case i > last+1:
		return ">last+1"
	case i == last+1:
		return "last+1"
	case i == last:
		return "=last"
	}
	for k := 1; k < len(segs); k++ {
		if i == segs[k].PrevIndex {
			return "segEnd"
		}
		if i == segs[k].PrevIndex+1 {
			return "segStart"
		}
	}
	if i == prev+1 {
		return "first"
	}
	return "interior"
}

func sizeClass(n int, seg rlog.VerifSegment, ss int) string {
	avail := seg.FileSize - 8*(seg.N+3) - seg.Size
	switch {
	case n == avail:
		return "=avail"
	case n == avail+1:
		return "avail+1"
	case n == avail-1:
		return "avail-1"
	case n == ss-24:
		return "=ss-24"
	case n == ss-23:
		return "=ss-23"
	case n > ss-24:
		return ">ss-24"
	case n == 0:
		return "0"
	case n == 1:
		return "1"
	case n > avail:
		return ">avail"
	case n < 64:
		return "small"
	}
	return "mid"
}

func outClass(kind string, out interface{}) string {
	switch v := out.(type) {
	case string:
		if strings.HasPrefix(v, "panic:other") {
			return "panic:other"
		}
		if strings.HasPrefix(v, "error:") {
			return "error"
		}
		return v
	case map[string]interface{}:
		if kind == "getN" {
			if ds, ok := v["ok"].([]digest); ok {
				if len(ds) >= 3 {
					return "ok:3+chunks"
				}
				return fmt.Sprintf("ok:%dchunks", len(ds))
			}
		}
		if c, ok := v["contains"]; ok {
			return fmt.Sprint("contains=", c)
		}
		return "ok"
	case uint64:
		return "num"
	}
	return "ok"
}

func nsegClass(n int) string {
	if n >= 3 {
		return "3+"
	}
	return strconv.Itoa(n)
}

// ---- the program loop

func (w *worker) runReal(p *Program, g *gen) *progResult {
	res := &progResult{prog: p, known: map[string]int{}, keys: map[string]bool{}, hist: map[string]int{}, firstBad: -1}
	r := &runner{w: w, cfg: w.cfg, res: res, rng: rand.New(rand.NewSource(p.Seed ^ 0x5DEECE66D)),
		lastRead: map[string][]byte{}, durable: map[string][]byte{}}
	_ = os.RemoveAll(w.liveDir)
	hookReg.Store(w.liveDir, r)
	defer hookReg.Delete(w.liveDir)
	l, err := rlog.Open(w.liveDir, 0700, rlog.Options{FileMode: 0600, SegmentSize: p.SegmentSize})
	if err != nil {
		res.addFail(&fail{Kind: "engine", Note: "initial Open failed: " + err.Error()})
		return res
	}
	r.l = l
	r.durable = r.snapshotLive()
	nops := len(p.Ops)
	if g != nil {
		nops = g.nops
	}
	for idx := 0; idx < nops && !r.dead; idx++ {
		if g != nil {
			p.Ops = append(p.Ops, g.next(r))
		}
		op := &p.Ops[idx]
		mut := isMutating(op.Kind)
		r.opIndex, r.opKind, r.kSteps, r.observed, r.pending = idx, op.Kind, 0, nil, nil
		segsBefore := r.l.VerifSegments()
		ssBefore := r.l.VerifSegmentSize()
		hadEntries := r.l.Count() > 0
		var A absLog
		committedBefore := r.committed
		if mut {
			A = r.sh.snapshot()
		}
		r.inOp = mut
		out := r.apply(op)
		r.inOp = false
		res.outs = append(res.outs, canon(out))
		res.observed = append(res.observed, r.observed)
		res.hist[op.Kind]++
		if r.dead || r.l == nil {
			res.states = append(res.states, canon("dead"))
			r.dead = true
			break
		}
		if mut && (r.kSteps > 0 || (op.Kind == "append" && out == "ok")) {
			r.copyPoint("op:finished", kFinished)
		}
		// full state, read back through Get, with the direct C13 check against the shadow log
		var st logST
		func() {
			defer func() {
				if rec := recover(); rec != nil {
					r.direct("C13", fmt.Sprintf("reading back the log after op %d panicked: %v", idx, rec), nil)
					res.states = append(res.states, canon(map[string]string{"err": "real:" + panicName(rec)}))
					r.dead = true
				}
			}()
			bad := ""
			st = digestLog(r.l, func(i uint64, b []byte) {
				if bad == "" && (!r.sh.has(i) || !bytes.Equal(b, r.sh.get(i))) {
					bad = fmt.Sprintf("after op %d (%s): Get(%d) differs from the abstract log (%d,%d]", idx, op.Kind, i, r.sh.prev, r.sh.last())
				}
			})
			if bad == "" && (st.Prev != r.sh.prev || st.Last != r.sh.last() || st.Count != uint64(len(r.sh.entries))) {
				bad = fmt.Sprintf("after op %d (%s): bounds (%d,%d] count %d, abstract log (%d,%d]", idx, op.Kind, st.Prev, st.Last, st.Count, r.sh.prev, r.sh.last())
			}
			if bad != "" {
				r.direct("C13", bad, st)
			}
			res.states = append(res.states, canon(st))
		}()
		if r.dead {
			break
		}
		// coverage key
		rolled := len(st.Segs) > len(segsBefore) && op.Kind == "append"
		cls := ""
		switch op.Kind {
		case "append":
			cls = sizeClass(op.Len, segsBefore[len(segsBefore)-1], ssBefore)
		case "commitN":
			cls = idxClass(op.N, segsBefore)
		case "viewAt":
			cls = idxClass(op.P, segsBefore) + "," + idxClass(op.L, segsBefore)
		case "getN":
			cls = idxClass(op.I, segsBefore)
			if op.N == 0 {
				cls += ",n=0"
			}
		case "reopen":
			if op.SS == ssBefore {
				cls = "same"
			} else {
				cls = "other"
			}
		case "commit":
		default:
			cls = idxClass(op.I, segsBefore)
		}
		if (op.Kind == "get" || op.Kind == "getN" || op.Kind == "contains") && op.View >= 0 && r.views[op.View%maxSlots] != nil {
			cls = "view:" + cls
		}
		oc := outClass(op.Kind, out)
		key := fmt.Sprintf("%s|%s|%s|segs=%s|rolled=%v", op.Kind, cls, oc, nsegClass(len(segsBefore)), rolled)
		res.hist[op.Kind+"="+oc]++
		if rolled {
			res.hist["append(rolled over)"]++
		}
		res.key(key, hadEntries || strings.HasPrefix(oc, "panic") || oc == "exceeds" || oc == "notFound" || oc == "error")
		if rolled && len(res.samples) < 1 {
			res.samples = append(res.samples, sample{"append-rollover", map[string]interface{}{"segmentSize": ssBefore, "op": op,
				"real_out": out, "observed_steps": r.observed, "state_after": st}})
		}
		if mut {
			r.evalCrashes(A, r.sh.snapshot(), committedBefore, st.SegmentSize)
		}
	}
	r.dropViews()
	if r.l != nil && !r.dead {
		segs := r.l.VerifSegments()
		ss := r.l.VerifSegmentSize()
		if err := r.l.Close(); err != nil {
			res.addFail(&fail{Kind: "engine", OpIndex: len(p.Ops), Note: "final Close: " + err.Error()})
		} else if r.rng.Float64() < r.cfg.junkProb {
			r.junkDirs(segs, ss)
		}
		r.l = nil
	}
	return res
}

// ---- junk directories: clean directory with files deleted / a foreign segment copied in

func (r *runner) junkDirs(segs []rlog.VerifSegment, ss int) {
	type fmeta struct {
		name  uint64
		bytes []byte
		hdr   int
		units []entMeta
	}
	var files []fmeta
	for _, s := range segs {
		b, err := os.ReadFile(s.Name)
		if err != nil {
			return
		}
		lo := int(s.PrevIndex - r.sh.prev)
		if lo < 0 || lo+s.N > len(r.meta) {
			return
		}
		files = append(files, fmeta{name: s.PrevIndex, bytes: b, hdr: s.N, units: append([]entMeta{}, r.meta[lo:lo+s.N]...)})
	}
	for v := 0; v < r.cfg.junkVars; v++ {
		var keep []fmeta
		used := map[uint64]bool{}
		pDel := []float64{0.15, 0.3, 0.6}[r.rng.Intn(3)]
		for _, f := range files {
			if r.rng.Float64() >= pDel {
				keep = append(keep, f)
				used[f.name] = true
			}
		}
		if r.rng.Intn(5) < 2 && len(files) > 0 {
			src := files[r.rng.Intn(len(files))]
			var name uint64
			switch r.rng.Intn(4) {
			case 0: // where a deleted segment used to be, or right after some segment
				f := files[r.rng.Intn(len(files))]
				name = f.name + uint64(f.hdr)
			case 1:
				name = files[r.rng.Intn(len(files))].name + 1
			case 2:
				name = uint64(r.rng.Intn(int(files[len(files)-1].name) + 20))
			default:
				name = files[len(files)-1].name + uint64(files[len(files)-1].hdr) + uint64(r.rng.Intn(3))
			}
			if !used[name] {
				keep = append(keep, fmeta{name: name, bytes: src.bytes, hdr: src.hdr, units: src.units})
				used[name] = true
			}
		}
		if len(keep) == len(files) && r.rng.Intn(4) != 0 && len(keep) > 1 {
			k := r.rng.Intn(len(keep))
			keep = append(keep[:k:k], keep[k+1:]...)
		}
		jss := ss
		if r.rng.Intn(3) == 0 {
			jss = 1024 + r.rng.Intn(3073)
		}
		img := map[string][]byte{}
		mfiles := []map[string]interface{}{}
		for _, f := range keep {
			img[fmt.Sprintf("%d.log", f.name)] = f.bytes
			mfiles = append(mfiles, map[string]interface{}{"name": f.name, "cap": len(f.bytes), "hdr": f.hdr, "units": f.units})
		}
		if r.rng.Intn(3) == 0 {
			name, content := strayTmp(r.rng, img, jss)
			img[name] = content
			r.res.hist["stray-tmp-in-junk-dir"]++
		}
		ir := r.w.evalImage(img, jss, nil, false)
		req := map[string]interface{}{"engine": "seglog", "mode": "img", "ss": jss, "files": mfiles}
		r.res.junk = append(r.res.junk, junkRec{Req: req, Real: ir.outcome})
	}
}

// ---------------------------------------------------------------------------------------------
// program generation (online: looks at the real log to aim at the boundaries)

type gen struct {
	rng  *rand.Rand
	nops int
}

func pick(rng *rand.Rand, c []uint64) uint64 { return c[rng.Intn(len(c))] }

func dec(x uint64) uint64 {
	if x == 0 {
		return 0
	}
	return x - 1
}

func boundaries(segs []rlog.VerifSegment) []uint64 {
	prev := segs[0].PrevIndex
	ls := segs[len(segs)-1]
	last := ls.PrevIndex + uint64(ls.N)
	c := []uint64{0, dec(prev), prev, prev + 1, dec(last), last, last + 1, last + 2}
	for _, s := range segs {
		c = append(c, s.PrevIndex, s.PrevIndex+1, s.PrevIndex+uint64(s.N), s.PrevIndex+uint64(s.N)+1)
	}
	return c
}

func (g *gen) index(segs []rlog.VerifSegment) uint64 {
	ls := segs[len(segs)-1]
	last := ls.PrevIndex + uint64(ls.N)
	switch y := g.rng.Intn(10); {
	case y < 5:
		return pick(g.rng, boundaries(segs))
	case y < 9: // inside the log
		prev := segs[0].PrevIndex
		return prev + uint64(g.rng.Int63n(int64(last-prev)+2))
	}
	return uint64(g.rng.Int63n(int64(last) + 4))
}

func (g *gen) next(r *runner) Op {
	rng := g.rng
	segs := r.l.VerifSegments()
	ss := r.l.VerifSegmentSize()
	ls := segs[len(segs)-1]
	prev := segs[0].PrevIndex
	last := ls.PrevIndex + uint64(ls.N)
	var live []int
	for s, vs := range r.views {
		if vs != nil {
			live = append(live, s)
		}
	}
	x := rng.Intn(1000)
	switch {
	case x < 430: // append
		avail := ls.FileSize - 8*(ls.N+3) - ls.Size
		n := 0
		switch y := rng.Intn(24); {
		case y < 1:
			n = 0
		case y < 2:
			n = 1
		case y < 8:
			n = 2 + rng.Intn(40)
		case y < 11:
			n = 8 + rng.Intn(200)
		case y < 14:
			n = ss/4 + rng.Intn(33) - 16
		case y < 16:
			n = avail
		case y < 17:
			n = avail - 1
		case y < 18:
			n = avail + 1
		case y < 19:
			n = ss - 24
		case y < 20:
			n = ss - 23
		case y < 21:
			n = ss + 1 + rng.Intn(50)
		case y < 22:
			n = ss + rng.Intn(ss)
		default:
			n = rng.Intn(ss)
		}
		if n < 0 {
			n = 0
		}
		if n > maxEntryLen {
			n = maxEntryLen
		}
		return Op{Kind: "append", Seed: uint64(rng.Uint32()), Len: n}
	case x < 490:
		c := append(boundaries(segs), last+5, uint64(rng.Int63n(int64(last)+2)))
		return Op{Kind: "commitN", N: pick(rng, c)}
	case x < 530:
		return Op{Kind: "commit"}
	case x < 565:
		return Op{Kind: "removeLTE", I: g.index(segs)}
	case x < 595:
		return Op{Kind: "canLTE", I: g.index(segs)}
	case x < 640:
		i := g.index(segs)
		if rng.Intn(2) == 0 {
			if j := g.index(segs); j > i {
				i = j
			}
		}
		return Op{Kind: "removeGTE", I: i}
	case x < 652:
		c := []uint64{0, dec(prev), prev, prev + 1, (prev + last) / 2, dec(last), last, last + 1, last + 10, uint64(rng.Int63n(int64(last) + 50))}
		return Op{Kind: "reset", I: pick(rng, c)}
	case x < 680:
		s2 := ss
		if s2 > 4096 {
			s2 = 4096
		}
		if rng.Intn(2) == 0 {
			s2 = 1024 + rng.Intn(3073)
		}
		return Op{Kind: "reopen", SS: s2}
	case x < 750: // viewAt
		var p, l uint64
		switch y := rng.Intn(10); {
		case y < 2:
			p, l = prev, prev
		case y < 3:
			p, l = g.index(segs), g.index(segs) // anything, incl. p>l, l>last, p<prev
		case y < 4:
			l = last + 1 + uint64(rng.Intn(2))
			p = g.index(segs)
		case y < 5:
			p = dec(prev)
			l = g.index(segs)
		default:
			a, b := g.index(segs), g.index(segs)
			if a > b {
				a, b = b, a
			}
			if b > last {
				b = last
			}
			if a < prev {
				a = prev
			}
			if a > b {
				a = b
			}
			p, l = a, b
		}
		return Op{Kind: "viewAt", P: p, L: l, Slot: rng.Intn(maxSlots)}
	}
	// reads: get / getN / contains, through the log or (if any) a live view
	view := -1
	lo, hi := prev, last
	cands := boundaries(segs)
	if len(live) > 0 && rng.Intn(5) < 3 {
		view = live[rng.Intn(len(live))]
		vs := r.views[view]
		lo, hi = vs.p, vs.l
		cands = append(cands, dec(lo), lo, lo+1, dec(hi), hi, hi+1, lo, lo+1, hi, hi+1)
	}
	i := pick(rng, cands)
	if rng.Intn(10) < 3 {
		i = lo + uint64(rng.Int63n(int64(hi-lo)+3))
		i = dec(i)
	}
	switch y := rng.Intn(10); {
	case y < 4:
		return Op{Kind: "get", I: i, View: view}
	case y < 8:
		var n uint64
		switch z := rng.Intn(20); {
		case z < 1:
			n = 0
		case z < 4:
			n = 1
		case z < 14:
			e := pick(rng, cands)
			if e >= i {
				n = e - i + 1
			} else {
				n = 1 + uint64(rng.Intn(4))
			}
		default:
			n = uint64(rng.Int63n(int64(hi-lo) + 3))
		}
		if n > 2000 {
			n = 2000
		}
		if i > lo && i <= hi && n > hi-i+1 && rng.Intn(10) < 7 {
			n = hi - i + 1 // mostly keep the range inside the bounds
		}
		return Op{Kind: "getN", I: i, N: n, View: view}
	}
	return Op{Kind: "contains", I: i, View: view}
}

// ---------------------------------------------------------------------------------------------
// comparison with the model

type modelStep struct {
	Out    json.RawMessage `json:"out"`
	Script []string        `json:"script"`
	State  json.RawMessage `json:"state"`
}

type modelCrash struct {
	Kill  json.RawMessage   `json:"kill"`
	Power []json.RawMessage `json:"power"`
	Done  int               `json:"done"`
	Of    int               `json:"of"`
	Error string            `json:"error"`
}

type modelResp struct {
	Steps   []modelStep  `json:"steps"`
	Crashes []modelCrash `json:"crashes"`
}

var corruptOutcome = canon(map[string]string{"err": "corrupt"})

func (w *worker) compare(res *progResult) {
	p := res.prog
	nops := len(res.outs)
	crashReq := []map[string]int{}
	for _, c := range res.crashes {
		crashReq = append(crashReq, map[string]int{"at": c.At, "k": c.K, "ss": c.SS})
	}
	w.reqID++
	req := map[string]interface{}{"engine": "seglog", "id": w.reqID, "segmentSize": p.SegmentSize, "ops": p.Ops[:nops], "crash": crashReq}
	line, err := w.drv.call(req)
	if err != nil {
		fatal("model driver: %v", err)
	}
	var mr modelResp
	if err := json.Unmarshal(line, &mr); err != nil || len(mr.Steps) != nops || len(mr.Crashes) != len(res.crashes) {
		res.addFail(&fail{Kind: "engine", Note: fmt.Sprintf("bad model answer (err=%v, %d steps for %d ops, %d crashes for %d): %.300s", err, len(mr.Steps), nops, len(mr.Crashes), len(res.crashes), line)})
		return
	}
	for i := 0; i < nops; i++ {
		ms := mr.Steps[i]
		mo, mst := canon(ms.Out), canon(ms.State)
		var msc []string
		for _, s := range ms.Script {
			if !strings.HasPrefix(s, "write ") {
				msc = append(msc, s)
			}
		}
		res.evals += 3
		kind := ""
		switch {
		case mo != res.outs[i]:
			kind = "out"
		case strings.Join(msc, ";") != strings.Join(res.observed[i], ";"):
			kind = "script"
		case mst != res.states[i]:
			kind = "state"
		}
		if kind != "" {
			res.firstBad = i
			res.addFail(&fail{Kind: kind, OpIndex: i,
				Note:  fmt.Sprintf("first difference at op %d %s: %s differs", i, canon(p.Ops[i]), kind),
				Real:  rawOf(canon(map[string]interface{}{"out": rawOf(res.outs[i]), "steps": res.observed[i], "state": rawOf(res.states[i])})),
				Model: rawOf(canon(map[string]interface{}{"out": rawOf(mo), "script": ms.Script, "state": rawOf(mst)}))})
			break
		}
		if p.Ops[i].Kind == "getN" && len(res.samples) < 3 && strings.Count(mo, "\"h\"") >= 2 {
			dup := false
			for _, s := range res.samples {
				dup = dup || s.Kind == "getN-multi-segment"
			}
			if !dup {
				res.samples = append(res.samples, sample{"getN-multi-segment", map[string]interface{}{"op": p.Ops[i], "real_out": rawOf(res.outs[i]), "model_out": rawOf(mo)}})
			}
		}
	}
	crashSampled := false
	for ci, c := range res.crashes {
		if res.firstBad >= 0 && c.At >= res.firstBad {
			break
		}
		mc := mr.Crashes[ci]
		mk := canon(mc.Kill)
		res.evals++
		oc := "ok"
		if strings.Contains(c.Kill, "\"err\"") {
			oc = "err"
		}
		res.key(fmt.Sprintf("crash|%s|%s|kill:%s", c.Point, c.OpKind, oc), true)
		describe := func() map[string]interface{} {
			return map[string]interface{}{"at": c.At, "op": p.Ops[c.At], "point": c.Point, "k": c.K, "ss": c.SS, "model_done": mc.Done, "model_of": mc.Of}
		}
		if mc.Error != "" || (c.K != kFinished && mc.Done != c.K) || (c.K == kFinished && mc.Done != mc.Of) {
			d := describe()
			res.addFail(&fail{Kind: "crash-kill", OpIndex: c.At, Note: fmt.Sprintf("crash point bookkeeping differs (model error %q, done %d of %d, real k=%d)", mc.Error, mc.Done, mc.Of, c.K), Real: rawOf(canon(d))})
			continue
		}
		if mk != c.Kill || mk == corruptOutcome {
			d := describe()
			res.addFail(&fail{Kind: "crash-kill", OpIndex: c.At, Note: fmt.Sprintf("kill image at %s (k=%d) of op %d: reopen outcome differs; case=%s", c.Point, c.K, c.At, canon(d)),
				Real: rawOf(c.Kill), Model: rawOf(mk)})
		}
		var mps []string
		for _, m := range mc.Power {
			mps = append(mps, canon(m))
		}
		for pi, po := range c.Power {
			res.evals++
			found := false
			for _, m := range mps {
				if m == po && m != corruptOutcome {
					found = true
				}
			}
			pc := "same-as-kill"
			if strings.Contains(po, "\"err\"") {
				pc = "err"
			} else if po != c.Kill {
				pc = "older-than-kill"
			}
			res.key(fmt.Sprintf("crash|%s|%s|power:%s", c.Point, c.OpKind, pc), true)
			if !found {
				d := describe()
				d["power_mode"] = c.PowerMode[pi]
				res.addFail(&fail{Kind: "crash-power", OpIndex: c.At, Note: fmt.Sprintf("power image (%s) at %s (k=%d) of op %d: real outcome is not among the model's %d power outcomes; case=%s", c.PowerMode[pi], c.Point, c.K, c.At, len(mps), canon(d)),
					Real: rawOf(po), Model: rawOf(canon(mc.Power))})
			}
		}
		if !crashSampled && len(c.Power) >= 1 && c.Power[0] != c.Kill && len(res.samples) < 4 {
			crashSampled = true
			res.samples = append(res.samples, sample{"crash-point", map[string]interface{}{"case": describe(), "real_kill": rawOf(c.Kill), "real_power": raws(c.Power), "power_modes": c.PowerMode, "model_kill": rawOf(mk)}})
		}
	}
	for ji := range res.junk {
		j := &res.junk[ji]
		w.reqID++
		j.Req["id"] = w.reqID
		line, err := w.drv.call(j.Req)
		if err != nil {
			fatal("model driver: %v", err)
		}
		var ans struct {
			Reopen json.RawMessage `json:"reopen"`
		}
		_ = json.Unmarshal(line, &ans)
		j.Model = canon(ans.Reopen)
		res.evals++
		res.hist["junk-dir"]++
		oc := "ok"
		if strings.Contains(j.Real, "\"err\"") {
			oc = "err"
		}
		res.key(fmt.Sprintf("junk|files=%s|%s", nsegClass(len(j.Req["files"].([]map[string]interface{}))), oc), true)
		if j.Model != j.Real {
			res.addFail(&fail{Kind: "junk", OpIndex: len(p.Ops), Note: "junk directory: reopen outcome differs; request=" + canon(j.Req), Real: rawOf(j.Real), Model: rawOf(j.Model)})
		} else if ji == 0 && len(res.samples) < 5 {
			res.samples = append(res.samples, sample{"junk-dir", map[string]interface{}{"request": j.Req, "real": rawOf(j.Real), "model": rawOf(j.Model)}})
		}
	}
}

func (w *worker) runProgram(p *Program, g *gen) *progResult {
	t0 := time.Now()
	res := w.runReal(p, g)
	t1 := time.Now()
	w.compare(res)
	res.tReal, res.tModel = t1.Sub(t0).Seconds(), time.Since(t1).Seconds()
	return res
}

// shrink drops ops one at a time (from the end, then from the start) while the same failure stays.
func (w *worker) shrink(p *Program, sig string, budget int) *Program {
	cur := p.withOps(p.Ops, "")
	still := func(c *Program) bool {
		res := w.runProgram(c, nil)
		for _, f := range res.fails {
			if f.sig() == sig {
				return true
			}
		}
		return false
	}
	try := func(ops []Op) bool {
		if budget <= 0 {
			return false
		}
		budget--
		c := cur.withOps(ops, "")
		if still(c) {
			cur = c
			return true
		}
		return false
	}
	// cut the tail in halves first, then single ops
	for len(cur.Ops) > 1 && try(cur.Ops[:len(cur.Ops)/2]) {
	}
	for len(cur.Ops) > 1 && try(cur.Ops[:len(cur.Ops)-1]) {
	}
	for len(cur.Ops) > 1 && try(cur.Ops[1:]) {
	}
	for i := len(cur.Ops) - 2; i >= 0 && budget > 0; i-- {
		if i < len(cur.Ops) {
			ops := append(append([]Op(nil), cur.Ops[:i]...), cur.Ops[i+1:]...)
			try(ops)
		}
	}
	return cur
}

// ---------------------------------------------------------------------------------------------
// report

type disagreement struct {
	Case           interface{}     `json:"case"`
	Real           json.RawMessage `json:"real"`
	Model          json.RawMessage `json:"model"`
	PropertyFailed *string         `json:"property_failed"`
	Note           string          `json:"note"`
	FindingKey     string          `json:"finding_key,omitempty"`
	Kind           string          `json:"kind"`
	OpIndex        int             `json:"op_index"`
	Replay         string          `json:"replay,omitempty"`
	Occurrences    int             `json:"occurrences"`
}

type report struct {
	Engine        string         `json:"engine"`
	Seed          int64          `json:"seed"`
	Tier          string         `json:"tier"`
	Evaluations   int            `json:"evaluations"`
	DistinctNT    int            `json:"distinct_nontrivial"`
	DistinctAll   int            `json:"distinct_keys_total"`
	Rule          string         `json:"rule"`
	Histogram     map[string]int `json:"histogram"`
	Samples       []sample       `json:"samples"`
	Disagreements []disagreement `json:"disagreements"`
	WallS         float64        `json:"wall_s"`
	Programs      int            `json:"programs"`
	Ops           int            `json:"ops"`
	CrashKill     int            `json:"crash_images_kill"`
	CrashPower    int            `json:"crash_images_power"`
	JunkDirs      int            `json:"junk_dirs"`
	KnownFindings map[string]int `json:"known_findings"`
	ViewPasses    int            `json:"concurrent_view_passes"`
	Props         []string       `json:"props"`
	Workers       int            `json:"workers"`
	CPURealS      float64        `json:"worker_seconds_real_code"`
	CPUModelS     float64        `json:"worker_seconds_model_and_compare"`
}

const ruleText = "MEASURED: distinct keys (op kind, size class of an append relative to available()/segmentSize or index class relative to " +
	"PrevIndex/LastIndex/segment boundaries, outcome class, #segments class 1/2/3+, rolled-over?); for crash images (step-point name, op kind, " +
	"kill/power outcome class); for junk directories (#files class, outcome class). A key is non-trivial if the log held >=1 entry before the op " +
	"or the outcome is an error/panic; crash and junk keys always count."

func splitmix(x uint64) uint64 {
	x += 0x9E3779B97F4A7C15
	x = (x ^ (x >> 30)) * 0xBF58476D1CE4E5B9
	x = (x ^ (x >> 27)) * 0x94D049BB133111EB
	return x ^ (x >> 31)
}

func main() {
	driverPath := flag.String("driver", "/verif/lean/.lake/build/bin/driver", "model driver binary")
	seed := flag.Int64("seed", 1, "seed")
	tier := flag.String("tier", "quick", "quick|thorough")
	reportPath := flag.String("report", "", "report.json path")
	replay := flag.String("replay", "", "replay one saved program")
	props := flag.String("props", "C13,C14", "direct predicates to evaluate")
	_ = flag.Bool("skip-known", true, "no-op (kept for old command lines): every failure makes the exit code 1")
	workers := flag.Int("workers", 8, "parallel workers")
	nprog := flag.Int("programs", 0, "number of programs (0 = tier default)")
	maxOps := flag.Int("maxops", 0, "max ops per program (0 = tier default)")
	keysPath := flag.String("keys", "", "also write the list of distinct coverage keys to this file")
	flag.Parse()

	defer guard()
	start := time.Now()
	cfg := &config{}
	programs := 250 // quick: ~17-35 s with 8 workers depending on disk load (the fsync per file inside the real Open dominates)
	if *tier == "thorough" {
		programs = 8000
	}
	if !cfg.setTier(*tier) {
		fatal("unknown tier %q", *tier)
	}
	if *nprog > 0 {
		programs = *nprog
	}
	if *maxOps > 0 {
		cfg.maxOpsHi = *maxOps
		if cfg.maxOpsLo > *maxOps {
			cfg.maxOpsLo = *maxOps
		}
	}
	var propList []string
	for _, p := range strings.Split(*props, ",") {
		switch strings.TrimSpace(p) {
		case "C13":
			cfg.c13 = true
			propList = append(propList, "C13")
		case "C14":
			cfg.c14 = true
			propList = append(propList, "C14")
		}
	}
	nw := *workers
	if nw <= 0 {
		nw = runtime.NumCPU()
		if nw > 8 {
			nw = 8
		}
	}
	if _, err := os.Stat(*driverPath); err != nil {
		fatal("driver: %v", err)
	}
	sigc := make(chan os.Signal, 1)
	signal.Notify(sigc, os.Interrupt, syscall.SIGTERM)
	go func() {
		<-sigc
		fatal("interrupted")
	}()
	rlog.VerifPointFn = hookFn

	var results []*progResult
	if *replay != "" {
		b, err := os.ReadFile(*replay)
		if err != nil {
			fatal("replay: %v", err)
		}
		var p Program
		if err := json.Unmarshal(b, &p); err != nil {
			fatal("replay: %v", err)
		}
		if p.SegmentSize < 1024 {
			fatal("replay: segmentSize %d", p.SegmentSize)
		}
		if p.Tier != "" && !cfg.setTier(p.Tier) {
			fatal("replay: unknown tier %q", p.Tier)
		}
		nw = 1
		w := newWorker(0, cfg, *driverPath)
		res := w.runProgram(&p, nil)
		w.drv.close()
		results = []*progResult{res}
		fmt.Printf("replay %s: %d ops, %d crash points\n", *replay, len(res.outs), len(res.crashes))
	} else {
		total := len(corpus) + programs
		if total < nw {
			nw = total
		}
		results = make([]*progResult, total)
		var next int64 = -1
		var wg sync.WaitGroup
		for k := 0; k < nw; k++ {
			wg.Add(1)
			go func(k int) {
				defer wg.Done()
				defer guard()
				w := newWorker(k, cfg, *driverPath)
				defer w.drv.close()
				for {
					i := int(atomic.AddInt64(&next, 1))
					if i >= total {
						return
					}
					if i < len(corpus) { // regression corpus first (order of results is by index)
						results[i] = w.runProgram(corpus[i].withOps(corpus[i].Ops, *tier), nil)
						continue
					}
					ps := int64(splitmix(uint64(*seed)*0x10001+uint64(i-len(corpus))) >> 1)
					rng := rand.New(rand.NewSource(ps))
					p := &Program{Engine: "logdiff", Seed: ps, Tier: *tier, SegmentSize: 1024 + rng.Intn(3073)}
					if rng.Intn(4) == 0 { // multiples of 8 and the extremes get extra weight
						p.SegmentSize = []int{1024, 1032, 2048, 4096, 4095, 1025}[rng.Intn(6)]
					}
					g := &gen{rng: rng, nops: cfg.maxOpsLo + rng.Intn(cfg.maxOpsHi-cfg.maxOpsLo+1)}
					results[i] = w.runProgram(p, g)
				}
			}(k)
		}
		wg.Wait()
	}

	// aggregate in program order (deterministic)
	rep := &report{Engine: "logdiff", Seed: *seed, Tier: *tier, Rule: ruleText, Histogram: map[string]int{}, Samples: []sample{},
		Disagreements: []disagreement{}, KnownFindings: map[string]int{}, Props: propList, Workers: nw}
	keys := map[string]bool{}
	type pending struct {
		f   *fail
		p   *Program
		cnt int
	}
	var fails []*pending
	bySig := map[string]*pending{}
	sampleKinds := map[string]bool{}
	for _, res := range results {
		if res == nil {
			continue
		}
		rep.Programs++
		rep.Ops += len(res.outs)
		rep.Evaluations += res.evals
		rep.CrashKill += res.nKill
		rep.CrashPower += res.nPower
		rep.JunkDirs += len(res.junk)
		rep.ViewPasses += res.viewRuns
		rep.CPURealS += res.tReal
		rep.CPUModelS += res.tModel
		for k, v := range res.hist {
			rep.Histogram[k] += v
		}
		for k, nt := range res.keys {
			keys[k] = keys[k] || nt
		}
		for k, v := range res.known {
			rep.KnownFindings[k] += v
		}
		for _, s := range res.samples {
			if !sampleKinds[s.Kind] && len(rep.Samples) < 5 {
				sampleKinds[s.Kind] = true
				rep.Samples = append(rep.Samples, s)
			}
		}
		for _, f := range res.fails {
			if pf, ok := bySig[f.sig()]; ok {
				pf.cnt++
				continue
			}
			pf := &pending{f: f, p: res.prog, cnt: 1}
			bySig[f.sig()] = pf
			fails = append(fails, pf)
		}
	}
	rep.DistinctAll = len(keys)
	if *keysPath != "" {
		var ks []string
		for k, nt := range keys {
			ks = append(ks, fmt.Sprintf("%s\tnontrivial=%v", k, nt))
		}
		sort.Strings(ks)
		_ = os.WriteFile(*keysPath, []byte(strings.Join(ks, "\n")+"\n"), 0644)
	}
	for _, nt := range keys {
		if nt {
			rep.DistinctNT++
		}
	}

	exit := 0
	if len(fails) > 0 {
		w := newWorker(99, cfg, *driverPath)
		for n, pf := range fails {
			f := pf.f
			exit = 1 // any property failure or disagreement fails the run
			prog := pf.p
			if *replay == "" && f.Kind != "junk" && n < 12 {
				prog = w.shrink(pf.p, f.sig(), 150)
				// re-run the shrunk program to report ITS failure
				r2 := w.runProgram(prog.withOps(prog.Ops, ""), nil)
				for _, f2 := range r2.fails {
					if f2.sig() == f.sig() {
						f = f2
					}
				}
			}
			prog.Engine = "logdiff"
			d := disagreement{Case: prog, Real: f.Real, Model: f.Model, Note: f.Note, FindingKey: f.FindingKey, Kind: f.Kind, OpIndex: f.OpIndex, Occurrences: pf.cnt}
			if f.Prop != "" {
				pr := f.Prop
				d.PropertyFailed = &pr
			}
			if d.Real == nil {
				d.Real = json.RawMessage("null")
			}
			if d.Model == nil {
				d.Model = json.RawMessage("null")
			}
			if *reportPath != "" && *replay == "" {
				path := fmt.Sprintf("%s.replay-%d.json", *reportPath, n)
				pp := *prog
				pp.Note = f.Kind + ": " + f.Note
				if b, err := json.MarshalIndent(&pp, "", " "); err == nil && os.WriteFile(path, b, 0644) == nil {
					d.Replay = path
				}
			}
			rep.Disagreements = append(rep.Disagreements, d)
		}
		w.drv.close()
	}
	rep.WallS = time.Since(start).Seconds()
	cleanup()
	if *reportPath != "" {
		b, err := json.MarshalIndent(rep, "", " ")
		if err != nil {
			fatal("report: %v", err)
		}
		if err := os.WriteFile(*reportPath, b, 0644); err != nil {
			fatal("report: %v", err)
		}
	}
	fmt.Printf("logdiff seed=%d tier=%s programs=%d ops=%d evaluations=%d distinct_nontrivial=%d kill_images=%d power_images=%d junk_dirs=%d known=%v disagreements=%d wall=%.1fs\n",
		*seed, *tier, rep.Programs, rep.Ops, rep.Evaluations, rep.DistinctNT, rep.CrashKill, rep.CrashPower, rep.JunkDirs, rep.KnownFindings, len(rep.Disagreements), rep.WallS)
	for _, d := range rep.Disagreements {
		pf := "-"
		if d.PropertyFailed != nil {
			pf = *d.PropertyFailed
		}
		fmt.Printf("  [%s prop=%s key=%s x%d] %s\n", d.Kind, pf, d.FindingKey, d.Occurrences, d.Note)
	}
	os.Exit(exit)
}
