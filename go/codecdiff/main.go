// codecdiff — correspondence engine for property C18 (encodings round-trip and stay framed).
//
// It drives the REAL encoders/decoders of /repo (through the verif-tagged hook API in
// verif_codec.go) and the Lean model (Driver/Codec.lean, spawned as a subprocess), on
// seeded, type-directed values, and compares: bytes produced, value decoded, bytes
// consumed, error kind, no panic. It also evaluates the PROPERTY itself on the real code
// (decode(encode x) == canon x, consumed == len, proper prefix ⇒ error) and flags
// property_failed:"C18" when the implementation violates it.
//
// usage: codecdiff -driver /verif/lean/.lake/build/bin/driver -seed N -tier quick|thorough
//
//	-report report.json [-replay case.json] [-props C18] [-workers W] [-n perType]
package main

import (
	"bufio"
	"bytes"
	"encoding/hex"
	"encoding/json"
	"flag"
	"fmt"
	"io"
	"math/rand"
	"os"
	"os/exec"
	"reflect"
	"runtime"
	"runtime/pprof"
	"sort"
	"strconv"
	"strings"
	"sync"
	"time"

	raft "github.com/santhosh-tekuri/raft"
)

type vmap = map[string]interface{}

// ------------------------------------------------------------------ cases

// Case is one generated input; it is also the replay file format.
type Case struct {
	ID    int             `json:"id"`
	Class string          `json:"class"` // value | malformed | valuefile | valueparse | buffered | client
	Kind  string          `json:"kind,omitempty"`
	Value json.RawMessage `json:"value,omitempty"`
	Tail  string          `json:"tail,omitempty"`  // hex
	Bytes string          `json:"bytes,omitempty"` // hex (malformed / buffered / client response)
	A     string          `json:"a,omitempty"`
	B     string          `json:"b,omitempty"`
	Name  string          `json:"name,omitempty"`
	PSeed int64           `json:"pseed,omitempty"` // seed for prefix sampling
	Wf    bool            `json:"wf,omitempty"`    // inside the guard of the round-trip theorem
}

// Disagreement is one reported difference.
type Disagreement struct {
	Case           Case        `json:"case"`
	What           string      `json:"what"`
	Real           interface{} `json:"real"`
	Model          interface{} `json:"model"`
	PropertyFailed interface{} `json:"property_failed"`
	FindingKey     string      `json:"finding_key,omitempty"`
	Note           string      `json:"note,omitempty"`
	Replay         string      `json:"replay,omitempty"`
}

// ------------------------------------------------------------------ driver

// driver is one model subprocess. Several case goroutines share it: requests carry an
// "id" (echoed by Driver/Main.lean), a reader goroutine hands every answer line to the
// goroutine waiting for that id, and writes are flushed once per burst. Keeping several
// requests in flight hides the pipe round-trip latency.
type driver struct {
	cmd *exec.Cmd
	wc  io.WriteCloser

	wmu     sync.Mutex // writer side
	in      *bufio.Writer
	flushCh chan struct{}

	pmu     sync.Mutex // pending answers
	pending map[int]chan []byte
	nextID  int
	dead    error
}

func startDriver(path string) (*driver, error) {
	cmd := exec.Command(path)
	wc, err := cmd.StdinPipe()
	if err != nil {
		return nil, err
	}
	rc, err := cmd.StdoutPipe()
	if err != nil {
		return nil, err
	}
	cmd.Stderr = os.Stderr
	if err := cmd.Start(); err != nil {
		return nil, err
	}
	d := &driver{cmd: cmd, wc: wc, in: bufio.NewWriterSize(wc, 1<<16), flushCh: make(chan struct{}, 1), pending: map[int]chan []byte{}}
	go d.readLoop(bufio.NewReaderSize(rc, 1<<16))
	go d.flushLoop()
	return d, nil
}

var idKey = []byte(`"id":`)

func (d *driver) readLoop(out *bufio.Reader) {
	for {
		line, err := out.ReadBytes('\n')
		if err != nil {
			d.pmu.Lock()
			d.dead = fmt.Errorf("driver: %v", err)
			for id, ch := range d.pending {
				close(ch)
				delete(d.pending, id)
			}
			d.pmu.Unlock()
			return
		}
		// the request id is the only "id" member whose value is a number (node and
		// follower ids are decimal strings)
		id := -1
		for rest := line; id < 0; {
			k := bytes.Index(rest, idKey)
			if k < 0 {
				break
			}
			rest = rest[k+len(idKey):]
			n, digits := 0, 0
			for _, ch := range rest {
				if ch < '0' || ch > '9' {
					break
				}
				n = n*10 + int(ch-'0')
				digits++
			}
			if digits > 0 {
				id = n
			}
		}
		if id < 0 {
			var a struct {
				ID int `json:"id"`
			}
			if json.Unmarshal(line, &a) == nil {
				id = a.ID
			}
		}
		d.pmu.Lock()
		ch := d.pending[id]
		delete(d.pending, id)
		d.pmu.Unlock()
		if ch != nil {
			ch <- line
		}
	}
}

func (d *driver) flushLoop() {
	for range d.flushCh {
		d.wmu.Lock()
		_ = d.in.Flush()
		d.wmu.Unlock()
	}
}

func (d *driver) call(req vmap) (vmap, error) {
	req["engine"] = "codec"
	ch := make(chan []byte, 1)
	d.pmu.Lock()
	if d.dead != nil {
		d.pmu.Unlock()
		return nil, d.dead
	}
	d.nextID++
	id := d.nextID
	d.pending[id] = ch
	d.pmu.Unlock()
	req["id"] = id
	b, err := json.Marshal(req)
	if err != nil {
		return nil, err
	}
	d.wmu.Lock()
	_, err = d.in.Write(b)
	if err == nil {
		err = d.in.WriteByte('\n')
	}
	d.wmu.Unlock()
	if err != nil {
		return nil, err
	}
	select {
	case d.flushCh <- struct{}{}:
	default:
	}
	line, ok := <-ch
	if !ok {
		return nil, fmt.Errorf("driver died")
	}
	var ans vmap
	if err := json.Unmarshal(line, &ans); err != nil {
		return nil, fmt.Errorf("driver answer: %v: %s", err, line)
	}
	if got, ok := ans["id"].(float64); !ok || int(got) != id {
		return nil, fmt.Errorf("driver answer for the wrong request: %s", line)
	}
	delete(ans, "id")
	if e, ok := ans["error"]; ok {
		return nil, fmt.Errorf("driver error: %v", e)
	}
	return ans, nil
}

func (d *driver) close() {
	d.wmu.Lock()
	_ = d.in.Flush()
	d.wmu.Unlock()
	_ = d.wc.Close()
	_ = d.cmd.Wait()
}

// ------------------------------------------------------------------ generators

var boundaries = []uint64{0, 1, 1 << 31, 1<<32 - 1, 1 << 32, 1<<63 - 1, 1 << 63, 1<<64 - 1}

type gen struct {
	r    *rand.Rand
	tame bool // every byte small: safe to misalign (the real readBytes allocates what the length says)
}

func (g *gen) u64v() uint64 {
	if g.tame {
		return uint64(g.r.Intn(4))
	}
	switch p := g.r.Intn(100); {
	case p < 40:
		return boundaries[g.r.Intn(len(boundaries))]
	case p < 50:
		return boundaries[g.r.Intn(len(boundaries))] + uint64(g.r.Intn(3)) - 1
	case p < 75:
		return uint64(g.r.Intn(1000))
	default:
		return g.r.Uint64() >> uint(g.r.Intn(64))
	}
}

func (g *gen) u64() string { return strconv.FormatUint(g.u64v(), 10) }

func (g *gen) rawBytes() []byte {
	var n int
	if g.tame {
		n = g.r.Intn(6)
	} else {
		switch p := g.r.Intn(100); {
		case p < 30:
			n = 0
		case p < 70:
			n = 1 + g.r.Intn(16)
		case p < 94:
			n = 17 + g.r.Intn(240)
		case p < 99:
			n = 257 + g.r.Intn(1024)
		default:
			n = 1281 + g.r.Intn(3000)
		}
	}
	b := make([]byte, n)
	for i := range b {
		if g.tame {
			b[i] = byte(g.r.Intn(4))
		} else {
			b[i] = byte(g.r.Intn(256))
		}
	}
	return b
}

func (g *gen) bytes() string { return hex.EncodeToString(g.rawBytes()) }

// a string that looks like text (addresses, error messages)
func (g *gen) text() string {
	if g.tame || g.r.Intn(3) == 0 {
		return g.bytes()
	}
	const alphabet = "abcdefghijklmnopqrstuvwxyz0123456789.:-_ /"
	n := g.r.Intn(24)
	b := make([]byte, n)
	for i := range b {
		b[i] = alphabet[g.r.Intn(len(alphabet))]
	}
	return hex.EncodeToString(b)
}

func (g *gen) boolean() bool { return g.r.Intn(2) == 0 }

func (g *gen) enum(valid ...int) int {
	if g.tame {
		return g.r.Intn(4)
	}
	if g.r.Intn(10) < 8 {
		return valid[g.r.Intn(len(valid))]
	}
	return []int{0, 7, 12, 127, 128, 255, g.r.Intn(256)}[g.r.Intn(7)]
}

func (g *gen) tail() string {
	if g.tame || g.r.Intn(2) == 0 {
		n := g.r.Intn(12)
		b := make([]byte, n)
		for i := range b {
			b[i] = byte(g.r.Intn(4))
		}
		return hex.EncodeToString(b)
	}
	if g.r.Intn(4) == 0 {
		return ""
	}
	b := make([]byte, 1+g.r.Intn(40))
	g.r.Read(b)
	return hex.EncodeToString(b)
}

func (g *gen) entry() vmap {
	return vmap{"index": g.u64(), "term": g.u64(), "typ": g.enum(1, 2, 3, 4, 5, 6), "data": g.bytes()}
}

func (g *gen) req() vmap { return vmap{"term": g.u64(), "src": g.u64()} }

func with(m vmap, kv ...interface{}) vmap {
	for i := 0; i < len(kv); i += 2 {
		m[kv[i].(string)] = kv[i+1]
	}
	return m
}

func (g *gen) node(id string) vmap {
	return vmap{"id": id, "addr": g.text(), "voter": g.boolean(), "data": g.text(), "action": g.enum(0, 1, 2, 3, 4)}
}

func (g *gen) distinctIDs(n int) []string {
	seen := map[uint64]bool{}
	ids := make([]string, 0, n)
	for len(ids) < n {
		v := g.u64v()
		if g.tame {
			v = uint64(len(ids)) // tame ids must stay small and distinct
		}
		if seen[v] {
			v = g.r.Uint64()
			if g.tame || seen[v] {
				continue
			}
		}
		seen[v] = true
		ids = append(ids, strconv.FormatUint(v, 10))
	}
	g.r.Shuffle(len(ids), func(i, j int) { ids[i], ids[j] = ids[j], ids[i] })
	return ids
}

func (g *gen) config() vmap {
	n := g.r.Intn(9)
	if g.tame {
		n = g.r.Intn(3)
	}
	nodes := make([]interface{}, 0, n)
	for _, id := range g.distinctIDs(n) {
		nodes = append(nodes, g.node(id))
	}
	return vmap{"index": g.u64(), "term": g.u64(), "nodes": nodes}
}

func (g *gen) respErr() interface{} {
	switch g.r.Intn(4) {
	case 0:
		return vmap{"op": nil, "text": g.text()}
	case 1:
		return vmap{"op": "", "text": g.text()} // OpError with empty Op: comes back as a plain error
	default:
		return vmap{"op": g.text(), "text": g.text()}
	}
}

func (g *gen) resp() (vmap, bool) {
	result := g.enum(1, 2, 3, 4, 5, 6, 7, 8, 9, 10, 11, 11, 11, 11)
	var e interface{}
	if g.r.Intn(10) < 7 {
		e = g.respErr()
	}
	if result == 11 && e == nil && g.r.Intn(10) < 8 {
		e = g.respErr() // keep the nil-error panic case rare
	}
	return vmap{"term": g.u64(), "result": result, "err": e}, !(result == 11 && e == nil)
}

func (g *gen) replication(id string) vmap {
	m := vmap{"id": id, "matchIndex": g.u64(), "unreachable": nil, "err": nil, "errMessage": "", "round": g.u64()}
	switch u := g.r.Intn(4); {
	case u == 0 || u == 1 && g.tame:
		m["unreachable"] = g.u64() // includes "0": the epoch corner
	case u == 1:
		m["unreachable"] = strconv.FormatInt(time.Date(2019+g.r.Intn(30), 1, 1, 0, 0, 0, g.r.Intn(1e9), time.UTC).UnixNano(), 10)
	}
	switch g.r.Intn(4) {
	case 0: // the way Raft.info() fills it
		t := g.text()
		m["err"], m["errMessage"] = t, t
	case 1: // inconsistent pair: Err is not carried
		m["err"] = g.text()
	case 2:
		m["errMessage"] = g.text()
	}
	if e, ok := m["err"].(string); ok && e == "" && g.r.Intn(2) == 0 {
		m["err"] = nil
	}
	return m
}

func (g *gen) info() vmap {
	n := g.r.Intn(6)
	if g.tame {
		n = g.r.Intn(2)
	}
	flrs := make([]interface{}, 0, n)
	for _, id := range g.distinctIDs(n) {
		flrs = append(flrs, g.replication(id))
	}
	return vmap{"cid": g.u64(), "nid": g.u64(), "addr": g.text(), "term": g.u64(), "state": g.enum('F', 'C', 'L'),
		"leader": g.u64(), "snapshotIndex": g.u64(), "firstLogIndex": g.u64(), "lastLogIndex": g.u64(),
		"lastLogTerm": g.u64(), "committed": g.u64(), "lastApplied": g.u64(),
		"cfgCommitted": g.config(), "cfgLatest": g.config(), "followers": flrs}
}

var taskTypes = []int{127, 126, 125, 124, 123}

func (g *gen) taskErr() vmap {
	switch g.r.Intn(11) {
	case 0, 1:
		id := g.u64()
		if g.r.Intn(3) == 0 {
			id = "0"
		}
		return vmap{"kind": "notLeader", "leader": g.node(id), "lost": g.boolean()}
	case 2:
		return vmap{"kind": "plain", "s": g.text()}
	case 3:
		return vmap{"kind": "temporary", "s": g.text()}
	case 4:
		return vmap{"kind": "inProgress", "s": g.text()}
	case 5:
		return vmap{"kind": "other", "ctor": "timeout", "s": g.text()}
	case 6:
		return vmap{"kind": "other", "ctor": "errorString", "s": g.text()}
	case 7:
		return vmap{"kind": "other", "ctor": "opError", "op": g.text(), "s": g.text()}
	case 8:
		return vmap{"kind": "other", "ctor": "identity", "s": g.text()}
	case 9:
		return vmap{"kind": "other", "ctor": []string{"verifA", "verifB"}[g.r.Intn(2)], "s": g.text()}
	default:
		return vmap{"kind": "other", "ctor": "ptrNotLeader", "s": g.text()}
	}
}

// sentinel errors of the library, as (kind, text)
var sentinels = [][2]string{
	{"temporary", "raft.configChange: not ready to commit"},
	{"plain", "raft.changeConfig: submitted config is stale"},
	{"plain", "raft.takeSnapshot: not enough outstanding logs to snapshot"},
	{"plain", "raft.takeSnapshot: no updates since last snapshot"},
	{"plain", "raft: quorum unreachable"},
	{"plain", "raft.transferLeadership: no other voter to transfer"},
	{"plain", "raft.transferLeadership: target is already leader"},
	{"plain", "raft.transferLeadership: target is nonvoter"},
	{"plain", "raft.transferLeadership: no such target found"},
	{"plain", "raft: server closed"},
	{"plain", "raft: invalid task"},
	{"inProgress", "takeSnapshot"},
	{"inProgress", "configChange"},
	{"inProgress", "transferLeadership"},
}

func (g *gen) taskResult(task int) (vmap, bool) {
	if g.r.Intn(100) < 45 {
		if g.r.Intn(4) == 0 && !g.tame {
			s := sentinels[g.r.Intn(len(sentinels))]
			return vmap{"kind": "err", "err": vmap{"kind": s[0], "s": hex.EncodeToString([]byte(s[1]))}}, true
		}
		return vmap{"kind": "err", "err": g.taskErr()}, true
	}
	want := map[int]string{127: "info", 126: "none", 125: "config", 124: "index", 123: "none"}[task]
	kind, compat := want, true
	if g.r.Intn(100) < 4 {
		kind = []string{"info", "none", "config", "index"}[g.r.Intn(4)]
		compat = kind == want
	}
	gg := g
	if !compat {
		gg = &gen{r: g.r, tame: true} // the decoder will misread: keep every byte small
	}
	switch kind {
	case "info":
		return vmap{"kind": "info", "i": gg.info()}, compat
	case "config":
		return vmap{"kind": "config", "c": gg.config()}, compat
	case "index":
		return vmap{"kind": "index", "v": gg.u64()}, compat
	}
	return vmap{"kind": "none"}, compat
}

func (g *gen) adminReq() vmap {
	switch g.r.Intn(5) {
	case 0:
		return vmap{"kind": "info"}
	case 1:
		return vmap{"kind": "changeConfig", "c": g.config()}
	case 2:
		return vmap{"kind": "waitForStable"}
	case 3:
		return vmap{"kind": "takeSnapshot", "threshold": g.u64()}
	default:
		return vmap{"kind": "transferLdr", "target": g.u64(), "timeout": g.u64()}
	}
}

func (g *gen) msg() vmap {
	switch g.r.Intn(8) {
	case 0:
		return vmap{"kind": "identity", "r": with(g.req(), "cid", g.u64(), "nid", g.u64())}
	case 1:
		return vmap{"kind": "vote", "r": with(g.req(), "lastLogIndex", g.u64(), "lastLogTerm", g.u64(), "transfer", g.boolean())}
	case 2, 3, 4:
		n := g.r.Intn(5)
		entries := make([]interface{}, 0, n)
		for i := 0; i < n; i++ {
			entries = append(entries, g.entry())
		}
		return vmap{"kind": "append", "entries": entries, "h": with(g.req(), "prevLogIndex", g.u64(), "prevLogTerm", g.u64(),
			"ldrCommitIndex", g.u64(), "numEntries", strconv.Itoa(n))}
	case 5:
		body := g.rawBytes()
		size := strconv.Itoa(len(body))
		if len(body) == 0 && g.r.Intn(2) == 0 {
			// int64(size) <= 0: nothing follows
			size = strconv.FormatUint([]uint64{1 << 63, 1<<64 - 1, 1<<63 + 5}[g.r.Intn(3)], 10)
		}
		return vmap{"kind": "installSnap", "body": hex.EncodeToString(body),
			"h": with(g.req(), "lastIndex", g.u64(), "lastTerm", g.u64(), "lastConfig", g.config(), "size", size)}
	case 6:
		return vmap{"kind": "timeoutNow", "r": g.req()}
	default:
		return vmap{"kind": "admin", "r": g.adminReq()}
	}
}

// value of a kind; wf = inside the guard of the round-trip theorem
func (g *gen) value(kind string) (vmap, bool) {
	switch kind {
	case "entry":
		return g.entry(), true
	case "req", "timeoutNowReq":
		return g.req(), true
	case "identityReq":
		return with(g.req(), "cid", g.u64(), "nid", g.u64()), true
	case "voteReq":
		return with(g.req(), "lastLogIndex", g.u64(), "lastLogTerm", g.u64(), "transfer", g.boolean()), true
	case "appendReq":
		return with(g.req(), "prevLogIndex", g.u64(), "prevLogTerm", g.u64(), "ldrCommitIndex", g.u64(), "numEntries", g.u64()), true
	case "installSnapReq":
		return with(g.req(), "lastIndex", g.u64(), "lastTerm", g.u64(), "lastConfig", g.config(), "size", g.u64()), true
	case "resp", "identityResp", "voteResp", "installSnapResp", "timeoutNowResp":
		return g.resp()
	case "appendResp":
		m, wf := g.resp()
		return with(m, "lastLogIndex", g.u64()), wf
	case "node":
		return g.node(g.u64()), true
	case "config":
		return g.config(), true
	case "snapshotMeta":
		return vmap{"index": g.u64(), "term": g.u64(), "config": g.config(), "size": g.u64()}, true
	case "replication":
		return g.replication(g.u64()), true
	case "info":
		return g.info(), true
	case "taskResp":
		task := taskTypes[g.r.Intn(len(taskTypes))]
		res, compat := g.taskResult(task)
		return vmap{"task": task, "result": res}, compat
	case "adminReq":
		return g.adminReq(), true
	case "msg":
		return g.msg(), true
	case "stream":
		n := 2 + g.r.Intn(3)
		msgs := make([]interface{}, 0, n)
		for i := 0; i < n; i++ {
			msgs = append(msgs, g.msg())
		}
		return vmap{"msgs": msgs}, true
	}
	panic("unknown kind " + kind)
}

var valueKinds = []string{"entry", "req", "identityReq", "voteReq", "appendReq", "installSnapReq", "timeoutNowReq",
	"resp", "identityResp", "voteResp", "installSnapResp", "timeoutNowResp", "appendResp", "node", "config",
	"snapshotMeta", "replication", "info", "taskResp", "adminReq", "msg", "stream"}

var respAlias = map[string]bool{"identityResp": true, "voteResp": true, "installSnapResp": true, "timeoutNowResp": true}

// ------------------------------------------------------------------ canonical form used by the property check

func normalize(v interface{}) interface{} {
	b, err := json.Marshal(v)
	if err != nil {
		panic(err)
	}
	var out interface{}
	if err := json.Unmarshal(b, &out); err != nil {
		panic(err)
	}
	return out
}

func idOf(x interface{}) uint64 {
	v, _ := strconv.ParseUint(x.(vmap)["id"].(string), 10, 64)
	return v
}

func sortByID(l []interface{}) []interface{} {
	out := append(make([]interface{}, 0, len(l)), l...)
	sort.SliceStable(out, func(i, j int) bool { return idOf(out[i]) < idOf(out[j]) })
	return out
}

func cp(m vmap) vmap {
	out := vmap{}
	for k, v := range m {
		out[k] = v
	}
	return out
}

func list(v interface{}) []interface{} {
	if v == nil {
		return []interface{}{}
	}
	return v.([]interface{})
}

func canonConfig(c vmap) vmap {
	c = cp(c)
	c["nodes"] = sortByID(list(c["nodes"]))
	return c
}

func canonResp(r vmap) vmap {
	r = cp(r)
	if r["result"].(float64) != 11 {
		r["err"] = nil
	} else if e, ok := r["err"].(vmap); ok {
		if op, ok := e["op"].(string); ok && op == "" {
			e = cp(e)
			e["op"] = nil
			r["err"] = e
		}
	}
	return r
}

func canonRepl(r vmap) vmap {
	r = cp(r)
	if u, ok := r["unreachable"].(string); ok && u == "0" {
		r["unreachable"] = nil
	}
	if r["errMessage"].(string) == "" {
		r["err"] = nil
	} else {
		r["err"] = r["errMessage"]
	}
	return r
}

func canonInfo(i vmap) vmap {
	i = cp(i)
	i["cfgCommitted"] = canonConfig(i["cfgCommitted"].(vmap))
	i["cfgLatest"] = canonConfig(i["cfgLatest"].(vmap))
	fl := []interface{}{}
	for _, r := range list(i["followers"]) {
		fl = append(fl, canonRepl(r.(vmap)))
	}
	i["followers"] = sortByID(fl)
	return i
}

var errorStringName = hex.EncodeToString([]byte("*errors.errorString"))

// what the property promises for a task error ("by kind or equality"): NotLeaderError,
// plainError and temporaryError come back EQUAL; InProgressError keeps its kind and carries
// Error() = "raft: another "+s+" in progress" as its text (recoverable); any other error
// keeps its text as an *errors.errorString
func canonTaskErr(e vmap) vmap {
	switch e["kind"] {
	case "other":
		return vmap{"kind": "other", "typeName": errorStringName, "text": e["text"]}
	case "inProgress":
		s := unhex(e["s"].(string))
		return vmap{"kind": "inProgress", "s": hex.EncodeToString([]byte("raft: another " + string(s) + " in progress"))}
	}
	return e
}

func canonAdmin(r vmap) vmap {
	if r["kind"] == "changeConfig" {
		r = cp(r)
		r["c"] = canonConfig(r["c"].(vmap))
	}
	return r
}

func canonMsg(m vmap) vmap {
	m = cp(m)
	switch m["kind"] {
	case "installSnap":
		h := cp(m["h"].(vmap))
		h["lastConfig"] = canonConfig(h["lastConfig"].(vmap))
		m["h"] = h
	case "admin":
		m["r"] = canonAdmin(m["r"].(vmap))
	}
	return m
}

// canon is the value the property says decode(encode x) must equal (x normalized JSON)
func canon(kind string, x vmap) vmap {
	switch kind {
	case "installSnapReq":
		x = cp(x)
		x["lastConfig"] = canonConfig(x["lastConfig"].(vmap))
	case "resp", "identityResp", "voteResp", "installSnapResp", "timeoutNowResp", "appendResp":
		x = canonResp(x)
	case "config":
		x = canonConfig(x)
	case "snapshotMeta":
		x = cp(x)
		x["config"] = canonConfig(x["config"].(vmap))
	case "replication":
		x = canonRepl(x)
	case "info":
		x = canonInfo(x)
	case "taskResp":
		x = cp(x)
		res := cp(x["result"].(vmap))
		switch res["kind"] {
		case "err":
			res["err"] = canonTaskErr(res["err"].(vmap))
		case "config":
			res["c"] = canonConfig(res["c"].(vmap))
		case "info":
			res["i"] = canonInfo(res["i"].(vmap))
		}
		x["result"] = res
	case "adminReq":
		x = canonAdmin(x)
	case "msg":
		x = canonMsg(x)
	case "stream":
		x = cp(x)
		ms := []interface{}{}
		for _, m := range list(x["msgs"]) {
			ms = append(ms, canonMsg(m.(vmap)))
		}
		x["msgs"] = ms
	}
	return x
}

// ------------------------------------------------------------------ run state

type stats struct {
	mu            sync.Mutex
	evaluations   int
	cases         int
	histogram     map[string]int
	keys          map[string]bool // distinct (input-class, outcome-class), non-trivial only
	samples       []interface{}
	disagreements []Disagreement
	counts        map[string]int // disagreement counts per finding key / "what"
	replayBase    string
	slowest       []vmap
}

func (s *stats) hist(k string, n int) {
	s.histogram[k] += n
}

func sizeBucket(n int) string {
	switch {
	case n == 0:
		return "0"
	case n <= 16:
		return "1-16"
	case n <= 64:
		return "17-64"
	case n <= 256:
		return "65-256"
	case n <= 1024:
		return "257-1024"
	default:
		return ">1024"
	}
}

type result struct {
	dur     time.Duration
	evals   int
	hist    map[string]int
	keys    []string
	sample  interface{}
	disagre []Disagreement
}

func (r *result) h(k string) { r.hist[k]++ }

func (r *result) differ(c Case, what string, real, model interface{}, prop bool, key, note string) {
	d := Disagreement{Case: c, What: what, Real: real, Model: model, FindingKey: key, Note: note}
	if prop {
		d.PropertyFailed = "C18"
	}
	r.disagre = append(r.disagre, d)
}

func unhex(s string) []byte {
	b, err := hex.DecodeString(s)
	if err != nil {
		panic(err)
	}
	return b
}

func decodeKindOf(kind string, v vmap) string {
	switch kind {
	case "taskResp":
		return fmt.Sprintf("taskResp:%d", int(v["task"].(float64)))
	case "stream":
		return fmt.Sprintf("stream:%d", len(list(v["msgs"])))
	case "msg":
		return "stream:1"
	}
	return kind
}

// real decode in the shape the model answers ({"value","consumed"} | {"err"})
func realDecode(dkind string, b []byte, unwrapMsg bool) vmap {
	vj, consumed, ek := raft.VerifCodecDecode(dkind, b)
	if ek != "" {
		return vmap{"err": ek}
	}
	var v interface{}
	if err := json.Unmarshal(vj, &v); err != nil {
		panic(err)
	}
	if unwrapMsg {
		v = v.(vmap)["msgs"].([]interface{})[0]
	}
	return vmap{"value": v, "consumed": float64(consumed)}
}

func choosePrefixes(n int, seed int64) []int {
	if n <= 32 {
		p := make([]int, n)
		for i := range p {
			p[i] = i
		}
		return p
	}
	r := rand.New(rand.NewSource(seed))
	set := map[int]bool{0: true, 1: true, n - 1: true, n - 2: true, n / 2: true}
	for len(set) < 10 {
		switch r.Intn(3) {
		case 0:
			set[r.Intn(n)] = true
		case 1:
			set[r.Intn(64)%n] = true
		default:
			set[n-1-r.Intn(32)%n] = true
		}
	}
	p := make([]int, 0, len(set))
	for k := range set {
		p = append(p, k)
	}
	sort.Ints(p)
	return p
}

func isInProgressCase(kind string, v vmap) bool {
	if kind != "taskResp" {
		return false
	}
	res := v["result"].(vmap)
	if res["kind"] != "err" {
		return false
	}
	return res["err"].(vmap)["kind"] == "inProgress"
}

// ------------------------------------------------------------------ case evaluation

func runCase(c Case, d *driver) (res *result) {
	res = &result{hist: map[string]int{}}
	defer func() {
		if r := recover(); r != nil {
			res.differ(c, "engine-panic", fmt.Sprint(r), nil, false, "", "harness failure")
		}
	}()
	res.h("class/" + c.Class)
	switch c.Class {
	case "value":
		runValue(c, d, res)
	case "malformed":
		runMalformed(c, d, res)
	case "valuefile":
		runValueFile(c, d, res)
	case "valueparse":
		runValueParse(c, d, res)
	case "buffered":
		runBuffered(c, d, res)
	case "client":
		runClient(c, d, res)
	default:
		panic("unknown class " + c.Class)
	}
	return res
}

func runValue(c Case, d *driver, res *result) {
	kind := c.Kind
	res.h("kind/" + kind)
	b, asEnc, ek := raft.VerifCodecEncode(kind, c.Value)
	var x vmap
	if err := json.Unmarshal(c.Value, &x); err != nil {
		panic(err)
	}
	if ek != "" {
		// the only legitimate encoder panic: resp with unexpectedErr and a nil error
		ans, err := d.call(vmap{"op": "encode", "kind": kind, "value": x})
		if err != nil {
			panic(err)
		}
		res.evals++
		res.h("encode/" + ek)
		if ek != "panic" || ans["encPanics"] != true {
			res.differ(c, "encode-outcome", ek, ans, ek == "panic" && c.Wf, "", "real encoder failed")
		}
		res.keys = append(res.keys, kind+"|encode|"+ek)
		return
	}
	var as vmap
	if err := json.Unmarshal(asEnc, &as); err != nil {
		panic(err)
	}
	tail := unhex(c.Tail)
	prefixes := choosePrefixes(len(b), c.PSeed)
	ans, err := d.call(vmap{"op": "full", "kind": kind, "value": as, "bytes": hex.EncodeToString(b), "tail": c.Tail, "prefixes": prefixes})
	if err != nil {
		panic(err)
	}
	res.h("size/" + sizeBucket(len(b)))

	// 1. bytes produced
	res.evals++
	if ans["enc"] != hex.EncodeToString(b) || ans["encPanics"] == true {
		res.differ(c, "encode-bytes", hex.EncodeToString(b), ans["enc"], false, "", "model and real encoders produce different bytes")
	}

	// 2. decode(real bytes ++ tail): value, consumed, error kind
	dkind := decodeKindOf(kind, x)
	real := realDecode(dkind, append(append([]byte(nil), b...), tail...), kind == "msg")
	res.evals++
	modelDec := ans["dec"]
	if !reflect.DeepEqual(real, modelDec) {
		res.differ(c, "decode", real, modelDec, false, "", "decode(encode x ++ tail) differs between model and real code")
	}
	outcome := "ok"
	if e, ok := real["err"]; ok {
		outcome = "err:" + e.(string)
	}
	res.h("decode/" + outcome)

	// 3. the property on the real code
	if c.Wf {
		res.evals++
		want := normalize(canon(kind, normalize(x).(vmap)))
		if kind == "taskResp" {
			// "other" errors are described by %T / Error() on the real side
			want = normalize(canon(kind, normalize(as).(vmap)))
		}
		got := real["value"]
		if real["err"] != nil || !reflect.DeepEqual(got, want) || real["consumed"] != float64(len(b)) {
			res.differ(c, "property-roundtrip", vmap{"decoded": real, "len": len(b)}, vmap{"expected": want}, true, "", "decode(encode x) != canon x on the real code")
		}
		if isInProgressCase(kind, x) {
			res.h("taskresp/inprogress-rewrapped") // kind kept, text wrapped by Error(): allowed by the property
		}
	}

	// 4. every (sampled) proper prefix: both must error, no panic
	mp := list(ans["pref"])
	for i, n := range prefixes {
		rp := realDecode(dkind, b[:n], false)
		ro := "ok"
		if e, ok := rp["err"]; ok {
			ro = e.(string)
		}
		res.evals++
		res.h("prefix/" + ro)
		if i >= len(mp) || mp[i] != ro {
			var mo interface{}
			if i < len(mp) {
				mo = mp[i]
			}
			res.differ(c, fmt.Sprintf("prefix-%d", n), ro, mo, false, "", "outcome of decoding a proper prefix differs")
		}
		if c.Wf && (ro == "ok" || ro == "panic" || strings.HasPrefix(ro, "harness")) {
			res.differ(c, fmt.Sprintf("property-prefix-%d", n), ro, nil, true, "", "a proper prefix of an encoding did not decode to an error")
		}
	}
	nontrivial := len(b) > 17 || outcome != "ok"
	if nontrivial {
		res.keys = append(res.keys, kind+"|value|"+sizeBucket(len(b))+"|"+outcome+"|tail"+sizeBucket(len(tail)))
	}
	if c.ID%100 == 1 && (c.ID/100)%4001 == 7 || c.ID <= 2000 && c.ID%500 < 30 && c.ID%7 == 1 {
		res.sample = vmap{"case": c, "real_bytes": hex.EncodeToString(b), "real_decode": real, "model": ans}
	}
}

func runMalformed(c Case, d *driver, res *result) {
	res.h("kind/" + c.Kind)
	b := unhex(c.Bytes)
	ans, err := d.call(vmap{"op": "decode", "kind": c.Kind, "bytes": c.Bytes, "pad": hazardPad})
	if err != nil {
		panic(err)
	}
	// The real readBytes allocates make([]byte, size) for whatever the 4-byte prefix says
	// (up to 4 GiB, ~0.5 s each) before failing. If the model says the input ends inside a
	// read and still does so after hazardPad more bytes, a length beyond the input may be
	// involved: the real decoder is not run on such an input (counted, not evaluated).
	isEOF := func(v interface{}) bool { return v == "eof" || v == "unexpectedEof" }
	if isEOF(ans["err"]) && isEOF(ans["padded"]) {
		res.h("malformed/skipped-alloc-hazard")
		return
	}
	delete(ans, "padded")
	real := realDecode(c.Kind, b, false)
	res.evals++
	if !reflect.DeepEqual(real, map[string]interface{}(ans)) {
		res.differ(c, "malformed-decode", real, ans, false, "", "outcome on a malformed input differs")
	}
	outcome := "ok"
	if e, ok := real["err"]; ok {
		outcome = "err:" + e.(string)
		if e == "panic" {
			res.differ(c, "malformed-panic", real, ans, true, "", "decoder panicked on malformed input")
		}
	}
	res.h("malformed/" + outcome)
	res.keys = append(res.keys, c.Kind+"|malformed|"+sizeBucket(len(b))+"|"+outcome)
	if c.ID%100 == 1 && (c.ID/100)%4001 == 7 || c.ID <= 2000 && c.ID%500 < 30 && c.ID%7 == 1 {
		res.sample = vmap{"case": c, "real": real, "model": ans}
	}
}

func runValueFile(c Case, d *driver, res *result) {
	a, _ := strconv.ParseUint(c.A, 10, 64)
	b, _ := strconv.ParseUint(c.B, 10, 64)
	name := raft.VerifValueFormat(a, b)
	ra, rb, rerr := raft.VerifValueRoundTrip(a, b)
	ans, err := d.call(vmap{"op": "valuefile", "a": c.A, "b": c.B})
	if err != nil {
		panic(err)
	}
	res.evals += 2
	if ans["name"] != name {
		res.differ(c, "valuefile-name", name, ans["name"], false, "", "file name differs")
	}
	var real vmap
	if rerr != nil {
		if !strings.Contains(rerr.Error(), "invalid value file") {
			panic(rerr)
		}
		real = vmap{"err": "invalid"}
	} else {
		real = vmap{"a": strconv.FormatUint(ra, 10), "b": strconv.FormatUint(rb, 10)}
	}
	if !reflect.DeepEqual(real, ans["parsed"]) {
		res.differ(c, "valuefile-parse", real, ans["parsed"], false, "", "openValue and parseValue disagree")
	}
	outcome := "ok"
	if rerr != nil || ra != a || rb != b {
		outcome = "lost"
		res.evals++
		res.differ(c, "property-valuefile", real, vmap{"written": vmap{"a": c.A, "b": c.B}}, true, "", "value file did not read back what was written")
	} else if a >= 1<<63 || b >= 1<<63 {
		res.h("valuefile/ge-2^63-ok") // regression for the repaired ParseInt defect
	}
	res.h("valuefile/" + outcome)
	cls := func(v uint64) string {
		switch {
		case v == 0:
			return "0"
		case v < 1<<63:
			return "<2^63"
		default:
			return ">=2^63"
		}
	}
	res.keys = append(res.keys, "valuefile|"+cls(a)+"|"+cls(b)+"|"+outcome)
	if c.ID%100 == 1 && (c.ID/100)%4001 == 7 || c.ID <= 2000 && c.ID%500 < 30 && c.ID%7 == 1 {
		res.sample = vmap{"case": c, "real": real, "model": ans}
	}
}

func runValueParse(c Case, d *driver, res *result) {
	ra, rb, rerr := raft.VerifValueParse(c.Name)
	ans, err := d.call(vmap{"op": "valueparse", "name": c.Name})
	if err != nil {
		panic(err)
	}
	var real vmap
	if rerr != nil {
		if !strings.Contains(rerr.Error(), "invalid value file") {
			panic(rerr)
		}
		real = vmap{"err": "invalid"}
	} else {
		real = vmap{"a": strconv.FormatUint(ra, 10), "b": strconv.FormatUint(rb, 10)}
	}
	res.evals++
	if !reflect.DeepEqual(real, ans["parsed"]) {
		res.differ(c, "valueparse", real, ans["parsed"], false, "", "openValue and parseValue disagree on a file name")
	}
	outcome := "ok"
	if rerr != nil {
		outcome = "invalid"
	}
	res.h("valueparse/" + outcome)
	res.keys = append(res.keys, fmt.Sprintf("valueparse|%s|dashes%d|plus%v", outcome, strings.Count(c.Name, "-"), strings.Contains(c.Name, "+")))
}

func runBuffered(c Case, d *driver, res *result) {
	b := unhex(c.Bytes)
	rb, ek := raft.VerifIsEntryBuffered(b)
	ans, err := d.call(vmap{"op": "buffered", "bytes": c.Bytes})
	if err != nil {
		panic(err)
	}
	res.evals++
	if ek != "" || ans["buffered"] != rb {
		res.differ(c, "isEntryBuffered", vmap{"buffered": rb, "err": ek}, ans["buffered"], ek == "panic", "", "isEntryBuffered differs")
	}
	// property: buffered ⇔ entry.decode succeeds on the buffered bytes
	_, _, dek := raft.VerifCodecDecode("entry", b)
	res.evals++
	if rb != (dek == "") {
		res.differ(c, "property-isEntryBuffered", rb, dek, true, "", "isEntryBuffered does not predict entry.decode")
	}
	res.h(fmt.Sprintf("buffered/%v", rb))
	res.keys = append(res.keys, fmt.Sprintf("buffered|%s|%v", sizeBucket(len(b)), rb))
}

// the real Client method writes the request and decodes the canned response
func runClient(c Case, d *driver, res *result) {
	var x vmap
	if err := json.Unmarshal(c.Value, &x); err != nil {
		panic(err)
	}
	resp := unhex(c.Bytes)
	written, rj, ek := raft.VerifClientCall(c.Value, resp)
	typ := map[string]int{"info": 127, "changeConfig": 126, "waitForStable": 125, "takeSnapshot": 124, "transferLdr": 123}[x["kind"].(string)]
	// request bytes: decode them with the model and compare with the request
	ansReq, err := d.call(vmap{"op": "decode", "kind": "adminReq", "bytes": hex.EncodeToString(written)})
	if err != nil {
		panic(err)
	}
	res.evals++
	wantReq := normalize(canon("adminReq", normalize(x).(vmap)))
	if !reflect.DeepEqual(ansReq["value"], wantReq) || ansReq["consumed"] != float64(len(written)) {
		res.differ(c, "client-request", hex.EncodeToString(written), ansReq, false, "", "model decoding of the bytes the Client wrote is not the request")
	}
	ans, err := d.call(vmap{"op": "decode", "kind": fmt.Sprintf("taskResp:%d", typ), "bytes": c.Bytes})
	if err != nil {
		panic(err)
	}
	var real vmap
	if ek != "" {
		real = vmap{"err": ek}
	} else {
		var v interface{}
		if err := json.Unmarshal(rj, &v); err != nil {
			panic(err)
		}
		real = vmap{"value": v}
	}
	model := vmap{}
	if e, ok := ans["err"]; ok {
		model["err"] = e
	} else {
		model["value"] = ans["value"]
		// the typed Client methods turn a nil result into the zero value of their result type
	}
	res.evals++
	if !clientResultEqual(real, model) {
		res.differ(c, "client-result", real, model, false, "", "what the Client returned differs from the model's decodeTaskResp")
	}
	outcome := "ok"
	if e, ok := real["err"]; ok {
		outcome = "err:" + e.(string)
	}
	res.h("client/" + outcome)
	res.keys = append(res.keys, fmt.Sprintf("client|%d|%s", typ, outcome))
}

func clientResultEqual(real, model vmap) bool {
	if real["err"] != nil || model["err"] != nil {
		return reflect.DeepEqual(real["err"], model["err"])
	}
	return reflect.DeepEqual(real["value"], model["value"])
}

// ------------------------------------------------------------------ case stream

// see runMalformed
const hazardPad = 4096

// generator goroutines (they share one model driver for the base bytes of malformed inputs)
const generators = 4

type plan struct {
	perType int
}

func tameMutate(r *rand.Rand, b []byte) []byte {
	b = append([]byte(nil), b...)
	small := func() byte {
		if r.Intn(8) == 0 {
			return byte(r.Intn(16))
		}
		return byte(r.Intn(4))
	}
	for k := 1 + r.Intn(3); k > 0; k-- {
		switch op := r.Intn(5); {
		case op == 0 && len(b) > 0: // overwrite
			b[r.Intn(len(b))] = small()
		case op == 1 && len(b) > 0: // delete
			i := r.Intn(len(b))
			b = append(b[:i], b[i+1:]...)
		case op == 2: // insert
			i := r.Intn(len(b) + 1)
			b = append(b[:i], append([]byte{small()}, b[i:]...)...)
		case op == 3 && len(b) > 0: // truncate
			b = b[:r.Intn(len(b))]
		default: // append
			for j := r.Intn(6); j >= 0; j-- {
				b = append(b, small())
			}
		}
	}
	return b
}

// modelEncode gives the base bytes of malformed / client cases: the model encoder is
// deterministic (the real one iterates Go maps in random order), and its agreement with
// the real encoder is what the value cases establish.
func modelEncode(d *driver, kind string, v interface{}) []byte {
	if kind == "taskResp" {
		// the model value of an arbitrary error is its (type name, text)
		x := normalize(v).(vmap)
		res := x["result"].(vmap)
		if e, ok := res["err"].(vmap); ok && e["kind"] == "other" {
			res["err"] = vmap{"kind": "other", "typeName": hex.EncodeToString([]byte("raft.TimeoutError")), "text": e["s"]}
		}
		v = x
	}
	ans, err := d.call(vmap{"op": "encode", "kind": kind, "value": v})
	if err != nil {
		panic(err)
	}
	return unhex(ans["enc"].(string))
}

// genCases generates rounds first, first+stride, … Round i is a pure function of
// (seed, i): its PRNG is seeded from both, and its case ids are 100*i+k, so that several
// generator goroutines produce the same SET of cases as one (only the order of
// evaluation, which nothing depends on, varies).
func genCases(seed int64, p plan, first, stride int, d *driver, out chan<- Case) {
	marshal := func(v interface{}) json.RawMessage {
		b, err := json.Marshal(v)
		if err != nil {
			panic(err)
		}
		return b
	}
	// every round covers all the kinds, so a prefix of the run already covers everything
	for i := first; i < p.perType; i += stride {
		r := rand.New(rand.NewSource(seed*1000003 + int64(i)))
		g := &gen{r: r}
		tg := &gen{r: r, tame: true}
		id := 100 * i
		emit := func(c Case) {
			id++
			c.ID = id
			out <- c
		}
		for _, kind := range valueKinds {
			if respAlias[kind] && i%4 != 0 {
				continue // same codec as "resp" (embedded struct): a quarter of the volume each
			}
			v, wf := g.value(kind)
			tail := g.tail()
			if !wf {
				tail = tg.tail() // a mismatched decoder reads into the tail: keep it small
			}
			emit(Case{Class: "value", Kind: kind, Value: marshal(v), Tail: tail, PSeed: r.Int63(), Wf: wf})
		}
		// Cases whose bytes start from a model encoding are finished concurrently (the
		// encode requests of a round travel together); everything that consumes the round's
		// PRNG happens here, in order, and each such case gets its own derived PRNG.
		var jobs sync.WaitGroup
		later := func(kind string, v interface{}, finish func(b []byte, r *rand.Rand) Case) {
			id++
			cid, jseed := id, r.Int63()
			jobs.Add(1)
			go func() {
				defer jobs.Done()
				c := finish(modelEncode(d, kind, v), rand.New(rand.NewSource(jseed)))
				c.ID = cid
				out <- c
			}()
		}
		if i%4 == 0 {
			// malformed: mutate the encoding of a tame value (every byte small, so that a
			// misread length stays small: the real readBytes allocates what the prefix says)
			for _, kind := range valueKinds {
				v, _ := tg.value(kind)
				dk := decodeKindOf(kind, normalize(v).(vmap))
				later(kind, v, func(b []byte, r *rand.Rand) Case {
					if r.Intn(6) == 0 {
						b = nil
						for j := r.Intn(40); j > 0; j-- {
							b = append(b, byte(r.Intn(4)))
						}
					} else {
						b = tameMutate(r, b)
					}
					return Case{Class: "malformed", Kind: dk, Bytes: hex.EncodeToString(b)}
				})
			}
			// well-formed bytes no Go encoder produces: duplicate ids in a node list / follower
			// list (the decoders build maps: the last one wins)
			dc := g.config()
			if ns := list(dc["nodes"]); len(ns) >= 2 {
				for k := 1 + r.Intn(2); k > 0; k-- {
					ns[r.Intn(len(ns))].(vmap)["id"] = ns[r.Intn(len(ns))].(vmap)["id"]
				}
			}
			later("config", dc, func(b []byte, r *rand.Rand) Case {
				return Case{Class: "malformed", Kind: "config", Bytes: hex.EncodeToString(b)}
			})
			di := g.info()
			if fs := list(di["followers"]); len(fs) >= 2 {
				fs[r.Intn(len(fs))].(vmap)["id"] = fs[r.Intn(len(fs))].(vmap)["id"]
			}
			later("info", di, func(b []byte, r *rand.Rand) Case {
				return Case{Class: "malformed", Kind: "info", Bytes: hex.EncodeToString(b)}
			})
			// client: the response the Client reads is the encoding of a task response
			av := g.adminReq()
			typ := map[string]int{"info": 127, "changeConfig": 126, "waitForStable": 125, "takeSnapshot": 124, "transferLdr": 123}[av["kind"].(string)]
			tr, _ := g.taskResult(typ)
			later("taskResp", vmap{"task": typ, "result": tr}, func(rb []byte, r *rand.Rand) Case {
				if r.Intn(5) == 0 && len(rb) > 0 {
					rb = rb[:r.Intn(len(rb))]
				}
				return Case{Class: "client", Value: marshal(av), Bytes: hex.EncodeToString(rb)}
			})
		}
		emit(Case{Class: "valuefile", A: g.u64(), B: g.u64()})
		if i%2 == 0 {
			emit(Case{Class: "valueparse", Name: genName(r, g)})
			// isEntryBuffered: an entry encoding, cut or extended
			extra := unhex(g.tail())
			later("entry", g.entry(), func(eb []byte, r *rand.Rand) Case {
				switch r.Intn(4) {
				case 0:
					eb = eb[:r.Intn(len(eb)+1)]
				case 1:
					eb = append(eb, extra...)
				case 2:
					if len(eb) > 21 {
						eb = eb[:21+r.Intn(len(eb)-21)]
					}
				}
				return Case{Class: "buffered", Bytes: hex.EncodeToString(eb)}
			})
		}
		jobs.Wait()
	}
}

func genName(r *rand.Rand, g *gen) string {
	num := func() string {
		switch r.Intn(8) {
		case 0:
			return ""
		case 1:
			return "-" + g.u64()
		case 2:
			return "+" + g.u64()
		case 3:
			return "0000" + g.u64()
		case 4:
			return g.u64() + string("x_ +-"[r.Intn(5)])
		case 5:
			return []string{"9223372036854775807", "9223372036854775808", "-9223372036854775808", "-9223372036854775809",
				"18446744073709551615", "18446744073709551616", "99999999999999999999999"}[r.Intn(7)]
		default:
			return g.u64()
		}
	}
	switch r.Intn(10) {
	case 0:
		return num()
	case 1:
		return num() + "-" + num() + "-" + num()
	default:
		return num() + "-" + num()
	}
}

// ------------------------------------------------------------------ main

func main() {
	driverPath := flag.String("driver", "/verif/lean/.lake/build/bin/driver", "model driver executable")
	seed := flag.Int64("seed", 1, "PRNG seed")
	tier := flag.String("tier", "quick", "quick | thorough")
	reportPath := flag.String("report", "", "report.json path")
	replay := flag.String("replay", "", "replay a single case file")
	props := flag.String("props", "", "comma separated property ids (this engine serves C18)")
	workers := flag.Int("workers", 0, "parallel workers, each with its own driver process (default 8)")
	inflight := flag.Int("inflight", 4, "cases in flight per driver process")
	perType := flag.Int("n", 0, "values per type (overrides the tier)")
	allow := flag.String("allow", "", "comma separated finding keys that do not affect the exit code")
	cpuprofile := flag.String("cpuprofile", "", "write a CPU profile of the engine")
	flag.Parse()
	if *cpuprofile != "" {
		f, err := os.Create(*cpuprofile)
		if err != nil {
			fatal(err)
		}
		if err := pprof.StartCPUProfile(f); err != nil {
			fatal(err)
		}
		defer pprof.StopCPUProfile()
	}

	if *props != "" && !strings.Contains(","+*props+",", ",C18,") {
		fmt.Println("codecdiff: nothing to do for props", *props)
		return
	}
	raft.VerifTempDir = os.Getenv("VERIF_TMPDIR")
	if raft.VerifTempDir == "" {
		if st, err := os.Stat("/dev/shm"); err == nil && st.IsDir() {
			raft.VerifTempDir = "/dev/shm"
		}
	}
	p := plan{perType: 10000}
	if *tier == "thorough" {
		p.perType = 500000
	}
	if *perType > 0 {
		p.perType = *perType
	}
	if *workers <= 0 {
		*workers = 8
		if n := runtime.NumCPU(); n < *workers {
			*workers = n
		}
	}
	st := &stats{histogram: map[string]int{}, keys: map[string]bool{}, counts: map[string]int{}, replayBase: *reportPath}
	start := time.Now()

	cases := make(chan Case, 1024)
	if *replay != "" {
		b, err := os.ReadFile(*replay)
		if err != nil {
			fatal(err)
		}
		var c Case
		if err := json.Unmarshal(b, &c); err != nil {
			fatal(err)
		}
		*workers, *inflight = 1, 1
		go func() { cases <- c; close(cases) }()
	} else {
		gd, err := startDriver(*driverPath)
		if err != nil {
			fatal(err)
		}
		go func() {
			defer gd.close()
			var gw sync.WaitGroup
			for k := 0; k < generators; k++ {
				gw.Add(1)
				go func(k int) {
					defer gw.Done()
					genCases(*seed, p, k, generators, gd, cases)
				}(k)
			}
			gw.Wait()
			close(cases)
		}()
	}

	dry := os.Getenv("CODECDIFF_DRY") != "" // generator throughput only
	var wg sync.WaitGroup
	for w := 0; w < *workers; w++ {
		d, err := startDriver(*driverPath)
		if err != nil {
			fatal(err)
		}
		wg.Add(1)
		go func(d *driver) {
			defer wg.Done()
			defer d.close()
			var inner sync.WaitGroup
			for k := 0; k < *inflight; k++ {
				inner.Add(1)
				go func() {
					defer inner.Done()
					for c := range cases {
						if dry {
							continue
						}
						t0 := time.Now()
						res := runCase(c, d)
						res.dur = time.Since(t0)
						st.merge(c, res)
					}
				}()
			}
			inner.Wait()
		}(d)
	}
	wg.Wait()

	allowed := map[string]bool{}
	for _, k := range strings.Split(*allow, ",") {
		if k != "" {
			allowed[k] = true
		}
	}
	failed := false
	for k := range st.counts {
		if !allowed[k] {
			failed = true
		}
	}
	rep := vmap{
		"engine": "codecdiff", "seed": *seed, "tier": *tier, "per_type": p.perType, "workers": *workers,
		"cases": st.cases, "evaluations": st.evaluations, "distinct_nontrivial": len(st.keys),
		"rule": "distinct (kind, class, encoded-size bucket, decode outcome incl. error kind, tail-size bucket) keys; " +
			"a value case counts only if its encoding is longer than 17 bytes or its outcome is not ok; " +
			"malformed / valuefile / valueparse / buffered / client cases are keyed by (kind, size or value class, outcome)",
		"histogram": st.histogram, "samples": st.samples,
		"disagreements": st.disagreements, "disagreement_counts": st.counts,
		"wall_s": time.Since(start).Seconds(), "slowest_cases": st.slowest,
	}
	if len(st.samples) == 0 {
		rep["samples"] = []interface{}{}
	}
	if len(st.disagreements) == 0 {
		rep["disagreements"] = []Disagreement{}
	}
	out, err := json.MarshalIndent(rep, "", " ")
	if err != nil {
		fatal(err)
	}
	if *reportPath != "" {
		if err := os.WriteFile(*reportPath, out, 0644); err != nil {
			fatal(err)
		}
	}
	fmt.Printf("codecdiff: seed=%d tier=%s cases=%d evaluations=%d distinct_nontrivial=%d disagreements=%v wall=%.1fs\n",
		*seed, *tier, st.cases, st.evaluations, len(st.keys), st.counts, time.Since(start).Seconds())
	if *replay != "" || *reportPath == "" {
		if len(st.disagreements) > 0 {
			b, _ := json.MarshalIndent(st.disagreements, "", " ")
			fmt.Println(string(b))
		}
	}
	if failed {
		pprof.StopCPUProfile()
		os.Exit(1)
	}
}

func fatal(err error) {
	fmt.Fprintln(os.Stderr, "codecdiff:", err)
	os.Exit(2)
}

const maxStored = 40

func (s *stats) merge(c Case, r *result) {
	s.mu.Lock()
	defer s.mu.Unlock()
	s.cases++
	s.evaluations += r.evals
	for k, n := range r.hist {
		s.hist(k, n)
	}
	for _, k := range r.keys {
		s.keys[k] = true
	}
	if len(s.slowest) < 5 || r.dur.Seconds() > s.slowest[len(s.slowest)-1]["s"].(float64) {
		s.slowest = append(s.slowest, vmap{"s": r.dur.Seconds(), "class": c.Class, "kind": c.Kind, "id": c.ID, "bytes": c.Bytes})
		sort.Slice(s.slowest, func(i, j int) bool { return s.slowest[i]["s"].(float64) > s.slowest[j]["s"].(float64) })
		if len(s.slowest) > 5 {
			s.slowest = s.slowest[:5]
		}
	}
	if r.sample != nil && len(s.samples) < 5 {
		s.samples = append(s.samples, r.sample)
	}
	for _, d := range r.disagre {
		key := d.FindingKey
		if key == "" {
			key = d.What
			if i := strings.LastIndex(key, "-"); i > 0 {
				if _, err := strconv.Atoi(key[i+1:]); err == nil {
					key = key[:i]
				}
			}
		}
		s.counts[key]++
		// keep the first few of every key, shrunk where cheap, with a replay file
		if s.counts[key] <= 3 && len(s.disagreements) < maxStored {
			d.Case = shrink(d.Case)
			if s.replayBase != "" {
				name := fmt.Sprintf("%s.replay-%s-%d.json", strings.TrimSuffix(s.replayBase, ".json"), sanitize(key), s.counts[key])
				if b, err := json.MarshalIndent(d.Case, "", " "); err == nil {
					if os.WriteFile(name, b, 0644) == nil {
						d.Replay = name
					}
				}
			}
			s.disagreements = append(s.disagreements, d)
		}
	}
}

func sanitize(k string) string {
	return strings.Map(func(r rune) rune {
		if r >= 'a' && r <= 'z' || r >= 'A' && r <= 'Z' || r >= '0' && r <= '9' || r == '-' {
			return r
		}
		return '_'
	}, k)
}

// shrink: cheap reductions that keep the case in its class (the tail is irrelevant to
// every finding seen so far, so it is dropped when the failure does not depend on it)
func shrink(c Case) Case {
	if c.Class == "valuefile" {
		// keep the offending component, zero the other
		a, _ := strconv.ParseUint(c.A, 10, 64)
		b, _ := strconv.ParseUint(c.B, 10, 64)
		try := func(a, b uint64) bool {
			ra, rb, err := raft.VerifValueRoundTrip(a, b)
			return err != nil || ra != a || rb != b
		}
		if try(a, 0) {
			b = 0
		} else if try(0, b) {
			a = 0
		}
		c.A, c.B = strconv.FormatUint(a, 10), strconv.FormatUint(b, 10)
	}
	return c
}
