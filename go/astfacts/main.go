// astfacts: the translator of the "regenerated model" tie.
//
// Reads the library source (package raft at -repo, files without the verif build tag, no tests) with go/ast and writes
// Lean definitions to -out (RaftGen/Gen/Skel.lean):
//
//   - the channel skeleton of selected functions as control-flow graphs over Raft.Chan.Node (data erased: every
//     data-dependent branch becomes a nondeterministic choice; callees named in the target's inline list are inlined, any
//     other callee that can reach a channel operation is listed in `opaqueCalls`);
//   - a census of every channel operation (make/send/recv/close/nil) in the package per channel name and function;
//   - timing facts: the Go expressions that set the retry back-off bound, the idle heartbeat period and the election
//     timeout, translated to Lean functions of the heartbeat timeout.
//
// The translator fails closed: a construct it does not understand inside a target is an error (exit 2, message on stderr),
// which ./check reports as a broken obligation.
package main

import (
	"bytes"
	"flag"
	"fmt"
	"go/ast"
	"go/parser"
	"go/printer"
	"go/token"
	"os"
	"path/filepath"
	"regexp"
	"sort"
	"strconv"
	"strings"
)

type target struct {
	Name   string   // Lean name
	Func   string   // recv.func or func
	Inline []string // callees (by name) to inline
}

var targets = []target{
	{"notifyFlr", "leader.notifyFlr", nil},
	{"notifyLdr", "replication.notifyLdr", nil},
	{"checkLeaderUpdate", "replication.checkLeaderUpdate", []string{"onLeaderUpdate", "notifyLdr"}},
	{"timerStop", "safeTimer.stop", nil},
	{"timerReset", "safeTimer.reset", []string{"stop"}},
	// "go:" = the body of the (first) goroutine started by that function with `go func(…){…}(…)`
	{"snapGoroutine", "go:Raft.onTakeSnapshot", nil},
}

type comm struct {
	send bool
	ch   int
	next int
}
type node struct {
	kind  string // comm close choice halt
	cases []comm
	dflt  int
	ch    int
	next  int
	nexts []int
	note  string
}

type pkg struct {
	fset  *token.FileSet
	funcs map[string]*ast.FuncDecl // "recv.name" or "name"
	byNm  map[string][]string      // name -> keys
	files []*ast.File
}

var chanIndex = map[string]int{}
var chanNames []string

func chanID(name string) int {
	if i, ok := chanIndex[name]; ok {
		return i
	}
	chanIndex[name] = len(chanNames)
	chanNames = append(chanNames, name)
	return len(chanNames) - 1
}

func fail(fset *token.FileSet, pos token.Pos, format string, a ...interface{}) {
	fmt.Fprintf(os.Stderr, "astfacts: %s: %s\n", fset.Position(pos), fmt.Sprintf(format, a...))
	os.Exit(2)
}

func recvTypeName(fd *ast.FuncDecl) string {
	if fd.Recv == nil || len(fd.Recv.List) == 0 {
		return ""
	}
	t := fd.Recv.List[0].Type
	if s, ok := t.(*ast.StarExpr); ok {
		t = s.X
	}
	if id, ok := t.(*ast.Ident); ok {
		return id.Name
	}
	return "?"
}

func load(dir string) *pkg {
	p := &pkg{fset: token.NewFileSet(), funcs: map[string]*ast.FuncDecl{}, byNm: map[string][]string{}}
	names, _ := filepath.Glob(filepath.Join(dir, "*.go"))
	sort.Strings(names)
	for _, fn := range names {
		base := filepath.Base(fn)
		if strings.HasSuffix(base, "_test.go") || strings.HasPrefix(base, "verif_") || base == "trace.go" {
			continue
		}
		f, err := parser.ParseFile(p.fset, fn, nil, parser.ParseComments)
		if err != nil {
			fmt.Fprintln(os.Stderr, "astfacts:", err)
			os.Exit(2)
		}
		p.files = append(p.files, f)
		for _, d := range f.Decls {
			if fd, ok := d.(*ast.FuncDecl); ok && fd.Body != nil {
				key := fd.Name.Name
				if r := recvTypeName(fd); r != "" {
					key = r + "." + key
				}
				p.funcs[key] = fd
				p.byNm[fd.Name.Name] = append(p.byNm[fd.Name.Name], key)
			}
		}
	}
	return p
}

// ---------------------------------------------------------------------------------------------------------------
// channel names

func chanName(e ast.Expr) string {
	switch x := e.(type) {
	case *ast.ParenExpr:
		return chanName(x.X)
	case *ast.Ident:
		if x.Name == "timerCh" {
			return "timer"
		}
		return x.Name
	case *ast.SelectorExpr:
		if x.Sel.Name == "C" {
			return "timer"
		}
		return x.Sel.Name
	case *ast.CallExpr: // time.After(..), rtime.after(..)
		return "timer"
	}
	return "?"
}

// ---------------------------------------------------------------------------------------------------------------
// effects of an expression / simple statement, in evaluation order

type effect struct {
	recv string // channel name, or ""
	call string // callee name, or ""
	isCl bool   // close(ch)
	pos  token.Pos
}

func calleeName(c *ast.CallExpr) string {
	switch f := c.Fun.(type) {
	case *ast.Ident:
		return f.Name
	case *ast.SelectorExpr:
		return f.Sel.Name
	}
	return ""
}

func effectsOf(n ast.Node) []effect {
	var out []effect
	if n == nil {
		return nil
	}
	var walk func(n ast.Node)
	walk = func(n ast.Node) {
		switch x := n.(type) {
		case nil:
			return
		case *ast.FuncLit:
			return // a closure is not executed here
		case *ast.UnaryExpr:
			walk(x.X)
			if x.Op == token.ARROW {
				out = append(out, effect{recv: chanName(x.X), pos: x.Pos()})
			}
			return
		case *ast.CallExpr:
			for _, a := range x.Args {
				walk(a)
			}
			if s, ok := x.Fun.(*ast.SelectorExpr); ok {
				walk(s.X)
			}
			nm := calleeName(x)
			if id, ok := x.Fun.(*ast.Ident); ok && id.Name == "close" && len(x.Args) == 1 {
				out = append(out, effect{recv: chanName(x.Args[0]), isCl: true, pos: x.Pos()})
				return
			}
			if nm != "" {
				out = append(out, effect{call: nm, pos: x.Pos()})
			}
			return
		}
		ast.Inspect(n, func(m ast.Node) bool {
			if m == n {
				return true
			}
			if m == nil {
				return false
			}
			walk(m)
			return false
		})
	}
	walk(n)
	return out
}

// ---------------------------------------------------------------------------------------------------------------
// which functions can reach a channel operation (by name, over-approximation)

func (p *pkg) effectful() map[string]bool {
	direct := map[string]bool{}
	calls := map[string]map[string]bool{}
	for key, fd := range p.funcs {
		calls[key] = map[string]bool{}
		ast.Inspect(fd.Body, func(n ast.Node) bool {
			switch x := n.(type) {
			case *ast.FuncLit:
				return false
			case *ast.SendStmt, *ast.SelectStmt:
				direct[key] = true
			case *ast.UnaryExpr:
				if x.Op == token.ARROW {
					direct[key] = true
				}
			case *ast.CallExpr:
				if id, ok := x.Fun.(*ast.Ident); ok && id.Name == "close" {
					direct[key] = true
				}
				if nm := calleeName(x); nm != "" {
					calls[key][nm] = true
				}
			}
			return true
		})
	}
	eff := map[string]bool{}
	for k := range direct {
		eff[k] = true
	}
	for changed := true; changed; {
		changed = false
		for key := range p.funcs {
			if eff[key] {
				continue
			}
			for nm := range calls[key] {
				for _, ck := range p.byNm[nm] {
					if eff[ck] {
						eff[key] = true
						changed = true
					}
				}
			}
		}
	}
	return eff
}

// ---------------------------------------------------------------------------------------------------------------
// CFG builder (continuation passing, compiled back to front)

type ctx struct {
	brk, cont, ret int
	labels         map[string][2]int // label -> (brk, cont)
}

type builder struct {
	p      *pkg
	nodes  []node
	eff    map[string]bool
	inline map[string]bool
	opaque map[string]bool
	depth  int
	tname  string
}

func (b *builder) add(n node) int {
	b.nodes = append(b.nodes, n)
	return len(b.nodes) - 1
}

func (b *builder) skipTo(k int) int { return k }

func (b *builder) effects(effs []effect, k int, c ctx) int {
	for i := len(effs) - 1; i >= 0; i-- {
		e := effs[i]
		switch {
		case e.isCl:
			k = b.add(node{kind: "close", ch: chanID(e.recv), next: k})
		case e.recv != "":
			k = b.add(node{kind: "comm", cases: []comm{{false, chanID(e.recv), k}}, dflt: -1})
		case e.call != "":
			k = b.call(e, k)
		}
	}
	return k
}

func (b *builder) call(e effect, k int) int {
	keys := b.p.byNm[e.call]
	var effKeys []string
	for _, key := range keys {
		if b.eff[key] {
			effKeys = append(effKeys, key)
		}
	}
	if len(effKeys) == 0 {
		return k
	}
	if !b.inline[e.call] {
		b.opaque[e.call] = true
		return k
	}
	if b.depth > 6 {
		fail(b.p.fset, e.pos, "inlining too deep at %s", e.call)
	}
	sort.Strings(effKeys)
	var entries []int
	for _, key := range effKeys {
		fd := b.p.funcs[key]
		b.depth++
		entries = append(entries, b.block(fd.Body.List, k, ctx{brk: -1, cont: -1, ret: k, labels: map[string][2]int{}}))
		b.depth--
	}
	if len(entries) == 1 {
		return entries[0]
	}
	return b.add(node{kind: "choice", nexts: entries})
}

func (b *builder) block(list []ast.Stmt, k int, c ctx) int {
	for i := len(list) - 1; i >= 0; i-- {
		k = b.stmt(list[i], k, c)
	}
	return k
}

func (b *builder) commOf(s ast.Stmt, next int) (comm, bool) {
	switch x := s.(type) {
	case *ast.SendStmt:
		return comm{true, chanID(chanName(x.Chan)), next}, true
	case *ast.ExprStmt:
		if u, ok := x.X.(*ast.UnaryExpr); ok && u.Op == token.ARROW {
			return comm{false, chanID(chanName(u.X)), next}, true
		}
	case *ast.AssignStmt:
		if len(x.Rhs) == 1 {
			if u, ok := x.Rhs[0].(*ast.UnaryExpr); ok && u.Op == token.ARROW {
				return comm{false, chanID(chanName(u.X)), next}, true
			}
		}
	}
	return comm{}, false
}

func (b *builder) stmt(s ast.Stmt, k int, c ctx) int {
	fset := b.p.fset
	switch x := s.(type) {
	case nil:
		return k
	case *ast.EmptyStmt, *ast.DeclStmt, *ast.IncDecStmt:
		return k
	case *ast.ExprStmt, *ast.AssignStmt:
		if cm, ok := b.commOf(s, k); ok {
			// operands of the receive itself carry no effects we track
			return b.add(node{kind: "comm", cases: []comm{cm}, dflt: -1})
		}
		return b.effects(effectsOf(s), k, c)
	case *ast.SendStmt:
		cm, _ := b.commOf(s, k)
		n := b.add(node{kind: "comm", cases: []comm{cm}, dflt: -1})
		return b.effects(effectsOf(x.Value), n, c)
	case *ast.BlockStmt:
		return b.block(x.List, k, c)
	case *ast.LabeledStmt:
		// only loops / selects are labelled in this code base
		c2 := c
		c2.labels = map[string][2]int{}
		for l, v := range c.labels {
			c2.labels[l] = v
		}
		switch x.Stmt.(type) {
		case *ast.ForStmt, *ast.RangeStmt:
			return b.loop(x.Stmt, k, c2, x.Label.Name)
		}
		c2.labels[x.Label.Name] = [2]int{k, -1}
		return b.stmt(x.Stmt, k, c2)
	case *ast.ReturnStmt:
		var effs []effect
		for _, r := range x.Results {
			effs = append(effs, effectsOf(r)...)
		}
		return b.effects(effs, c.ret, c)
	case *ast.BranchStmt:
		switch x.Tok {
		case token.BREAK:
			if x.Label != nil {
				return c.labels[x.Label.Name][0]
			}
			if c.brk < 0 {
				fail(fset, x.Pos(), "break outside loop/select")
			}
			return c.brk
		case token.CONTINUE:
			if x.Label != nil {
				return c.labels[x.Label.Name][1]
			}
			if c.cont < 0 {
				fail(fset, x.Pos(), "continue outside loop")
			}
			return c.cont
		}
		fail(fset, x.Pos(), "unsupported branch statement %s", x.Tok)
	case *ast.IfStmt:
		thenE := b.block(x.Body.List, k, c)
		elseE := k
		if x.Else != nil {
			elseE = b.stmt(x.Else, k, c)
		}
		ch := b.add(node{kind: "choice", nexts: []int{thenE, elseE}})
		n := b.effects(effectsOf(x.Cond), ch, c)
		return b.stmt(x.Init, n, c)
	case *ast.SwitchStmt, *ast.TypeSwitchStmt:
		var body *ast.BlockStmt
		var init ast.Stmt
		var tag ast.Node
		if sw, ok := x.(*ast.SwitchStmt); ok {
			body, init, tag = sw.Body, sw.Init, sw.Tag
		} else {
			ts := x.(*ast.TypeSwitchStmt)
			body, init, tag = ts.Body, ts.Init, ts.Assign
		}
		c2 := c
		c2.brk = k
		var nexts []int
		hasDefault := false
		for _, cl := range body.List {
			cc := cl.(*ast.CaseClause)
			if cc.List == nil {
				hasDefault = true
			}
			for _, st := range cc.Body {
				if br, ok := st.(*ast.BranchStmt); ok && br.Tok == token.FALLTHROUGH {
					fail(fset, br.Pos(), "fallthrough not supported")
				}
			}
			nexts = append(nexts, b.block(cc.Body, k, c2))
		}
		if !hasDefault {
			nexts = append(nexts, k)
		}
		ch := b.add(node{kind: "choice", nexts: nexts})
		var n int
		if tag != nil {
			n = b.effects(effectsOf(tag), ch, c)
		} else {
			n = ch
		}
		return b.stmt(init, n, c)
	case *ast.ForStmt, *ast.RangeStmt:
		return b.loop(s, k, c, "")
	case *ast.SelectStmt:
		c2 := c
		c2.brk = k
		nd := node{kind: "comm", dflt: -1}
		for _, cl := range x.Body.List {
			cc := cl.(*ast.CommClause)
			body := b.block(cc.Body, k, c2)
			if cc.Comm == nil {
				nd.dflt = body
				continue
			}
			cm, ok := b.commOf(cc.Comm, body)
			if !ok {
				fail(fset, cc.Pos(), "unsupported select case")
			}
			nd.cases = append(nd.cases, cm)
		}
		return b.add(nd)
	case *ast.GoStmt:
		fail(fset, x.Pos(), "go statement inside a target is not supported")
	case *ast.DeferStmt:
		fail(fset, x.Pos(), "defer inside a target is not supported")
	}
	fail(fset, s.Pos(), "unsupported statement %T", s)
	return k
}

func (b *builder) loop(s ast.Stmt, k int, c ctx, label string) int {
	head := b.add(node{kind: "choice"}) // patched below
	c2 := c
	c2.brk, c2.cont = k, head
	c2.labels = map[string][2]int{}
	for l, v := range c.labels {
		c2.labels[l] = v
	}
	if label != "" {
		c2.labels[label] = [2]int{k, head}
	}
	switch x := s.(type) {
	case *ast.ForStmt:
		post := head
		if x.Post != nil {
			post = b.stmt(x.Post, head, c)
			c2.cont = post
			if label != "" {
				c2.labels[label] = [2]int{k, post}
			}
		}
		body := b.block(x.Body.List, post, c2)
		if x.Cond == nil {
			b.nodes[head] = node{kind: "choice", nexts: []int{body}}
		} else {
			condE := b.effects(effectsOf(x.Cond), -2, c)
			if condE != -2 {
				fail(b.p.fset, x.Pos(), "loop condition with channel effects is not supported")
			}
			b.nodes[head] = node{kind: "choice", nexts: []int{body, k}}
		}
		return b.stmt(x.Init, head, c)
	case *ast.RangeStmt:
		body := b.block(x.Body.List, head, c2)
		b.nodes[head] = node{kind: "choice", nexts: []int{body, k}}
		return b.effects(effectsOf(x.X), head, c)
	}
	return head
}

// ---------------------------------------------------------------------------------------------------------------
// census

type censusRow struct{ ch, fn, op string }

func (p *pkg) census() (rows []censusRow, makes map[string][]string) {
	makes = map[string][]string{}
	seen := map[censusRow]bool{}
	addRow := func(r censusRow) {
		if !seen[r] {
			seen[r] = true
			rows = append(rows, r)
		}
	}
	capOf := func(c *ast.CallExpr) (string, bool) {
		if id, ok := c.Fun.(*ast.Ident); !ok || id.Name != "make" || len(c.Args) == 0 {
			return "", false
		}
		if _, ok := c.Args[0].(*ast.ChanType); !ok {
			return "", false
		}
		if len(c.Args) == 1 {
			return "0", true
		}
		if bl, ok := c.Args[1].(*ast.BasicLit); ok {
			return bl.Value, true
		}
		return "dynamic", true
	}
	keys := make([]string, 0, len(p.funcs))
	for k := range p.funcs {
		keys = append(keys, k)
	}
	sort.Strings(keys)
	for _, key := range keys {
		fd := p.funcs[key]
		ast.Inspect(fd.Body, func(n ast.Node) bool {
			switch x := n.(type) {
			case *ast.SendStmt:
				addRow(censusRow{chanName(x.Chan), key, "send"})
			case *ast.UnaryExpr:
				if x.Op == token.ARROW {
					addRow(censusRow{chanName(x.X), key, "recv"})
				}
			case *ast.CallExpr:
				if id, ok := x.Fun.(*ast.Ident); ok && id.Name == "close" && len(x.Args) == 1 {
					addRow(censusRow{chanName(x.Args[0]), key, "close"})
				}
			case *ast.KeyValueExpr:
				if c, ok := x.Value.(*ast.CallExpr); ok {
					if cp, ok := capOf(c); ok {
						nm := chanName(x.Key)
						makes[nm] = append(makes[nm], cp)
						addRow(censusRow{nm, key, "make " + cp})
					}
				}
			case *ast.AssignStmt:
				for i, r := range x.Rhs {
					if i >= len(x.Lhs) {
						break
					}
					if c, ok := r.(*ast.CallExpr); ok {
						if cp, ok := capOf(c); ok {
							nm := chanName(x.Lhs[i])
							makes[nm] = append(makes[nm], cp)
							addRow(censusRow{nm, key, "make " + cp})
						}
					}
					if id, ok := r.(*ast.Ident); ok && id.Name == "nil" {
						nm := chanName(x.Lhs[i])
						if strings.HasSuffix(nm, "Ch") {
							addRow(censusRow{nm, key, "nil"})
						}
					}
				}
			case *ast.ValueSpec:
				for i, r := range x.Values {
					if c, ok := r.(*ast.CallExpr); ok && i < len(x.Names) {
						if cp, ok := capOf(c); ok {
							makes[x.Names[i].Name] = append(makes[x.Names[i].Name], cp)
							addRow(censusRow{x.Names[i].Name, key, "make " + cp})
						}
					}
				}
			}
			return true
		})
	}
	sort.Slice(rows, func(i, j int) bool {
		a, b := rows[i], rows[j]
		if a.ch != b.ch {
			return a.ch < b.ch
		}
		if a.fn != b.fn {
			return a.fn < b.fn
		}
		return a.op < b.op
	})
	return
}

// ---------------------------------------------------------------------------------------------------------------
// timing facts: Go duration arithmetic -> Lean Nat expression

func (p *pkg) leanExpr(e ast.Expr, vars map[string]string) string {
	switch x := e.(type) {
	case *ast.ParenExpr:
		return "(" + p.leanExpr(x.X, vars) + ")"
	case *ast.BasicLit:
		if x.Kind == token.INT {
			return x.Value
		}
	case *ast.Ident:
		if v, ok := vars[x.Name]; ok {
			return v
		}
	case *ast.SelectorExpr:
		if id, ok := x.X.(*ast.Ident); ok && id.Name == "time" {
			switch x.Sel.Name {
			case "Nanosecond":
				return "1"
			case "Microsecond":
				return "1000"
			case "Millisecond":
				return "1000000"
			case "Second":
				return "1000000000"
			}
		}
		if v, ok := vars["."+x.Sel.Name]; ok {
			return v
		}
	case *ast.CallExpr:
		// conversions time.Duration(x), uint64(x), int64(x)
		if len(x.Args) == 1 {
			switch calleeName(x) {
			case "Duration", "uint64", "int64":
				return p.leanExpr(x.Args[0], vars)
			}
		}
		if len(x.Args) == 0 {
			if v, ok := vars[calleeName(x)+"()"]; ok {
				return v
			}
		}
	case *ast.BinaryExpr:
		op := ""
		switch x.Op {
		case token.ADD:
			op = "+"
		case token.SUB:
			op = "-"
		case token.MUL:
			op = "*"
		case token.QUO:
			op = "/"
		case token.REM:
			op = "%"
		}
		if op != "" {
			return "(" + p.leanExpr(x.X, vars) + " " + op + " " + p.leanExpr(x.Y, vars) + ")"
		}
	}
	fail(p.fset, e.Pos(), "timing expression not understood")
	return ""
}

// findCall returns the argument expressions of every call to `callee` (by name) in function key, in source order
func (p *pkg) findCalls(key, callee string) [][]ast.Expr {
	fd := p.funcs[key]
	if fd == nil {
		fmt.Fprintf(os.Stderr, "astfacts: function %s not found\n", key)
		os.Exit(2)
	}
	var out [][]ast.Expr
	ast.Inspect(fd.Body, func(n ast.Node) bool {
		if c, ok := n.(*ast.CallExpr); ok && calleeName(c) == callee {
			out = append(out, c.Args)
		}
		return true
	})
	return out
}

func (p *pkg) constExpr(name string) ast.Expr {
	for _, f := range p.files {
		for _, d := range f.Decls {
			gd, ok := d.(*ast.GenDecl)
			if !ok || gd.Tok != token.CONST {
				continue
			}
			for _, sp := range gd.Specs {
				vs := sp.(*ast.ValueSpec)
				for i, n := range vs.Names {
					if n.Name == name && i < len(vs.Values) {
						return vs.Values[i]
					}
				}
			}
		}
	}
	fmt.Fprintf(os.Stderr, "astfacts: constant %s not found\n", name)
	os.Exit(2)
	return nil
}

// ---------------------------------------------------------------------------------------------------------------

func leanNode(n node) string {
	switch n.kind {
	case "comm":
		var cs []string
		for _, c := range n.cases {
			cs = append(cs, fmt.Sprintf("⟨%v, %d, %d⟩", c.send, c.ch, c.next))
		}
		d := "none"
		if n.dflt >= 0 {
			d = fmt.Sprintf("(some %d)", n.dflt)
		}
		return fmt.Sprintf("Node.comm [%s] %s", strings.Join(cs, ", "), d)
	case "close":
		return fmt.Sprintf("Node.close %d %d", n.ch, n.next)
	case "choice":
		var ns []string
		for _, x := range n.nexts {
			ns = append(ns, strconv.Itoa(x))
		}
		return fmt.Sprintf("Node.choice [%s]", strings.Join(ns, ", "))
	}
	return "Node.halt"
}

func main() {
	repo := flag.String("repo", "/repo", "library source")
	out := flag.String("out", "", "generated Lean file")
	what := flag.String("what", "skel", "skel: channel skeletons and census; timing: timing facts")
	flag.Parse()
	p := load(*repo)
	eff := p.effectful()

	var sb strings.Builder
	sb.WriteString("-- GENERATED by /verif/go/astfacts from the Go source on every run of ./check. Do not edit.\n")
	if *what == "timer" {
		sb.WriteString("\nnamespace Raft.Gen\n\n")
		p.timerFacts(&sb)
		sb.WriteString("end Raft.Gen\n")
		write(*out, sb.String())
		return
	}
	if *what == "timing" {
		sb.WriteString("\nnamespace Raft.Gen\n\n")
		p.timing(&sb)
		sb.WriteString("end Raft.Gen\n")
		write(*out, sb.String())
		return
	}
	sb.WriteString("import RaftGen.Chan.Model\n\nnamespace Raft.Gen\nopen Raft.Chan\n\n")

	// fixed channel numbering for the channels the targets use
	for _, nm := range []string{"leaderUpdateCh", "stopCh", "replUpdateCh", "timer", "fsmRestoredCh", "snapTakenCh", "close"} {
		chanID(nm)
	}

	type procOut struct {
		t      target
		nodes  []node
		entry  int
		opaque []string
	}
	var procs []procOut
	for _, t := range targets {
		fd := p.funcs[strings.TrimPrefix(t.Func, "go:")]
		if fd == nil {
			fmt.Fprintf(os.Stderr, "astfacts: target %s not found\n", t.Func)
			os.Exit(2)
		}
		body := fd.Body.List
		if strings.HasPrefix(t.Func, "go:") {
			body = nil
			ast.Inspect(fd.Body, func(n ast.Node) bool {
				if g, ok := n.(*ast.GoStmt); ok && body == nil {
					if fl, ok := g.Call.Fun.(*ast.FuncLit); ok {
						body = fl.Body.List
					}
				}
				return body == nil
			})
			if body == nil {
				fmt.Fprintf(os.Stderr, "astfacts: %s starts no goroutine with a function literal\n", t.Func)
				os.Exit(2)
			}
		}
		b := &builder{p: p, eff: eff, inline: map[string]bool{}, opaque: map[string]bool{}, tname: t.Name}
		for _, i := range t.Inline {
			b.inline[i] = true
		}
		halt := b.add(node{kind: "halt"})
		entry := b.block(body, halt, ctx{brk: -1, cont: -1, ret: halt, labels: map[string][2]int{}})
		var op []string
		for k := range b.opaque {
			op = append(op, k)
		}
		sort.Strings(op)
		procs = append(procs, procOut{t, b.nodes, entry, op})
	}

	census, makes := p.census()

	sb.WriteString("/-- channel numbering used by the skeletons below -/\n")
	sb.WriteString("def chanNames : List String := [")
	for i, n := range chanNames {
		if i > 0 {
			sb.WriteString(", ")
		}
		sb.WriteString(strconv.Quote(n))
	}
	sb.WriteString("]\n\n")
	sb.WriteString("/-- kinds from the `make(chan …)` sites of the package (`timer` = a time.Timer / time.After channel) -/\n")
	sb.WriteString("def kinds : List Kind := [")
	for i, n := range chanNames {
		if i > 0 {
			sb.WriteString(", ")
		}
		if n == "timer" {
			sb.WriteString(".external")
			continue
		}
		caps := makes[n]
		if len(caps) == 0 {
			fmt.Fprintf(os.Stderr, "astfacts: no make(chan) site found for channel %s\n", n)
			os.Exit(2)
		}
		c0 := caps[0]
		for _, c := range caps {
			if c != c0 {
				fmt.Fprintf(os.Stderr, "astfacts: channel %s is made with different capacities %v\n", n, caps)
				os.Exit(2)
			}
		}
		switch c0 {
		case "0":
			sb.WriteString(".sync")
		case "dynamic":
			fmt.Fprintf(os.Stderr, "astfacts: channel %s has a non-constant capacity\n", n)
			os.Exit(2)
		default:
			sb.WriteString(".buffered " + c0)
		}
	}
	sb.WriteString("]\n\n")

	for _, po := range procs {
		fmt.Fprintf(&sb, "/-- channel skeleton of `%s` (one call; `halt` = return) -/\n", po.t.Func)
		fmt.Fprintf(&sb, "def %s : Proc := { name := %s, entry := %d, code := [\n", po.t.Name, strconv.Quote(po.t.Func), po.entry)
		for i, n := range po.nodes {
			sep := ","
			if i == len(po.nodes)-1 {
				sep = ""
			}
			fmt.Fprintf(&sb, "    %s%s  -- %d\n", leanNode(n), sep, i)
		}
		sb.WriteString("  ] }\n")
		fmt.Fprintf(&sb, "/-- callees of `%s` that can reach a channel operation and are NOT inlined above -/\n", po.t.Func)
		fmt.Fprintf(&sb, "def %s_opaque : List String := [", po.t.Name)
		for i, o := range po.opaque {
			if i > 0 {
				sb.WriteString(", ")
			}
			sb.WriteString(strconv.Quote(o))
		}
		sb.WriteString("]\n\n")
	}

	for _, nm := range []string{"leaderUpdateCh", "replUpdateCh", "stopCh", "fsmRestoredCh", "snapTakenCh"} {
		fmt.Fprintf(&sb, "/-- every operation on a channel named `%s` in the package: (function, operation) -/\n", nm)
		fmt.Fprintf(&sb, "def ops_%s : List (String × String) := [", nm)
		first := true
		for _, r := range census {
			if r.ch != nm {
				continue
			}
			if !first {
				sb.WriteString(", ")
			}
			first = false
			fmt.Fprintf(&sb, "(%s, %s)", strconv.Quote(r.fn), strconv.Quote(r.op))
		}
		sb.WriteString("]\n\n")
	}
	// which channel is handed to the fsm goroutine inside a restore request (the field `err` of fsmRestoreReq)
	var rr []string
	for _, f := range p.files {
		ast.Inspect(f, func(n ast.Node) bool {
			if cl, ok := n.(*ast.CompositeLit); ok {
				if id, ok := cl.Type.(*ast.Ident); ok && id.Name == "fsmRestoreReq" {
					for _, e := range cl.Elts {
						if kv, ok := e.(*ast.KeyValueExpr); ok {
							e = kv.Value
						}
						rr = append(rr, chanName(e))
					}
				}
			}
			return true
		})
	}
	sb.WriteString("/-- the channel put into every `fsmRestoreReq{…}` literal of the package (the fsm goroutine answers on it: `t.err <- err`) -/\n")
	sb.WriteString("def restoreReqChans : List String := [")
	for i, x := range rr {
		if i > 0 {
			sb.WriteString(", ")
		}
		sb.WriteString(strconv.Quote(x))
	}
	sb.WriteString("]\n\n")
	sb.WriteString("/-- every channel operation of the package: (channel, function, operation) -/\n")
	sb.WriteString("def census : List (String × String × String) := [\n")
	for i, r := range census {
		sep := ","
		if i == len(census)-1 {
			sep = ""
		}
		fmt.Fprintf(&sb, "    (%s, %s, %s)%s\n", strconv.Quote(r.ch), strconv.Quote(r.fn), strconv.Quote(r.op), sep)
	}
	sb.WriteString("  ]\n\n")

	sb.WriteString("end Raft.Gen\n")

	write(*out, sb.String())
}

func write(out, text string) {
	if out == "" {
		fmt.Print(text)
		return
	}
	if err := os.MkdirAll(filepath.Dir(out), 0755); err != nil {
		fmt.Fprintln(os.Stderr, err)
		os.Exit(2)
	}
	if err := os.WriteFile(out, []byte(text), 0644); err != nil {
		fmt.Fprintln(os.Stderr, err)
		os.Exit(2)
	}
}

func (p *pkg) timing(sb *strings.Builder) {
	// ---- timing facts
	hbVars := map[string]string{".hbTimeout": "hb"}
	bo := p.findCalls("replication.runLoop", "backOff")
	if len(bo) != 1 || len(bo[0]) != 2 {
		fmt.Fprintf(os.Stderr, "astfacts: expected exactly one backOff(round, max) call in replication.runLoop, found %d\n", len(bo))
		os.Exit(2)
	}
	fmt.Fprintf(sb, "/-- replication.runLoop: the bound passed to backOff for the retry timer, as a function of the heartbeat timeout (ns) -/\n")
	fmt.Fprintf(sb, "def retryMax (hb : Nat) : Nat := %s\n\n", p.leanExpr(bo[0][1], hbVars))

	// idle heartbeat: checkLeaderUpdate r.timer.reset(E)
	rs := p.findCalls("replication.checkLeaderUpdate", "reset")
	if len(rs) != 1 || len(rs[0]) != 1 {
		fmt.Fprintf(os.Stderr, "astfacts: expected exactly one timer.reset call in replication.checkLeaderUpdate, found %d\n", len(rs))
		os.Exit(2)
	}
	fmt.Fprintf(sb, "/-- replication.checkLeaderUpdate: the idle heartbeat period -/\n")
	fmt.Fprintf(sb, "def heartbeatPeriod (hb : Nat) : Nat := %s\n\n", p.leanExpr(rs[0][0], hbVars))

	// election timers: follower.go / candidate.go rtime.duration(E)
	var elect []string
	for _, fn := range []string{"follower.init", "follower.resetTimer", "follower.onTimeout", "candidate.startElection"} {
		if p.funcs[fn] == nil {
			continue
		}
		for _, a := range p.findCalls(fn, "duration") {
			if len(a) == 1 {
				elect = append(elect, "fun hb => "+p.leanExpr(a[0], hbVars))
			}
		}
	}
	// any other function of follower.go / candidate.go calling rtime.duration
	keys := make([]string, 0)
	for k := range p.funcs {
		if strings.HasPrefix(k, "follower.") || strings.HasPrefix(k, "candidate.") {
			keys = append(keys, k)
		}
	}
	sort.Strings(keys)
	elect = nil
	var electSites []string
	for _, k := range keys {
		for _, a := range p.findCalls(k, "duration") {
			if len(a) == 1 {
				elect = append(elect, "fun hb => "+p.leanExpr(a[0], hbVars))
				electSites = append(electSites, k)
			}
		}
	}
	if len(elect) == 0 {
		fmt.Fprintln(os.Stderr, "astfacts: no election timer site (rtime.duration) found in follower/candidate")
		os.Exit(2)
	}
	fmt.Fprintf(sb, "/-- the minimum handed to randTime.duration at every election-timer site (%s) -/\n", strings.Join(electSites, ", "))
	fmt.Fprintf(sb, "def electionArgs : List (Nat → Nat) := [%s]\n\n", strings.Join(elect, ", "))

	// randTime.duration body: single return expression
	dfd := p.funcs["randTime.duration"]
	if dfd == nil || len(dfd.Body.List) != 1 {
		fmt.Fprintln(os.Stderr, "astfacts: randTime.duration is not a single return statement")
		os.Exit(2)
	}
	ret, ok := dfd.Body.List[0].(*ast.ReturnStmt)
	if !ok || len(ret.Results) != 1 {
		fmt.Fprintln(os.Stderr, "astfacts: randTime.duration is not a single return statement")
		os.Exit(2)
	}
	pname := dfd.Type.Params.List[0].Names[0].Name
	fmt.Fprintf(sb, "/-- randTime.duration(min) with the random draw `x` (rt.r.Int63()) made explicit -/\n")
	fmt.Fprintf(sb, "def randDuration (min x : Nat) : Nat := %s\n\n", p.leanExpr(ret.Results[0], map[string]string{pname: "min", "Int63()": "x"}))

	// write deadline: replication.deadlineSize
	df := p.findCalls("replication.deadlineSize", "durationFor")
	if len(df) != 1 || len(df[0]) != 2 {
		fmt.Fprintf(os.Stderr, "astfacts: expected exactly one durationFor(bandwidth, n) call in replication.deadlineSize, found %d\n", len(df))
		os.Exit(2)
	}
	dsfd := p.funcs["replication.deadlineSize"]
	sizeName := dsfd.Type.Params.List[0].Names[0].Name
	dv := map[string]string{".bandwidth": "bw", sizeName: "size", ".hbTimeout": "hb"}
	fmt.Fprintf(sb, "/-- replication.deadlineSize: the arguments handed to durationFor(bandwidth, n), as functions of the declared bandwidth and the payload size -/\n")
	fmt.Fprintf(sb, "def deadlineArgs (bw size : Nat) : Nat × Nat := (%s, %s)\n\n", p.leanExpr(df[0][0], dv), p.leanExpr(df[0][1], dv))
	// the floor: `if timeout < E { timeout = E }`
	floor := ""
	ast.Inspect(dsfd.Body, func(n ast.Node) bool {
		if is, ok := n.(*ast.IfStmt); ok && is.Else == nil && len(is.Body.List) == 1 {
			if be, ok := is.Cond.(*ast.BinaryExpr); ok && be.Op == token.LSS {
				if as, ok := is.Body.List[0].(*ast.AssignStmt); ok && len(as.Lhs) == 1 && len(as.Rhs) == 1 &&
					p.src(as.Lhs[0]) == p.src(be.X) && p.src(as.Rhs[0]) == p.src(be.Y) {
					floor = p.leanExpr(be.Y, dv)
				}
			}
		}
		return true
	})
	if floor == "" {
		fmt.Fprintln(os.Stderr, "astfacts: replication.deadlineSize has no `if timeout < E { timeout = E }` floor")
		os.Exit(2)
	}
	fmt.Fprintf(sb, "/-- replication.deadlineSize: the minimum write timeout -/\ndef deadlineFloor (hb : Nat) : Nat := %s\n\n", floor)
	fmt.Fprintf(sb, "/-- the whole body of replication.deadlineSize and of util.go durationFor, whitespace normalised -/\n")
	fmt.Fprintf(sb, "def deadlineSizeSrc : String := %s\n", strconv.Quote(p.src(dsfd.Body)))
	if p.funcs["durationFor"] == nil {
		fmt.Fprintln(os.Stderr, "astfacts: durationFor not found")
		os.Exit(2)
	}
	fmt.Fprintf(sb, "def durationForSrc : String := %s\n\n", strconv.Quote(p.src(p.funcs["durationFor"].Type)+" "+p.src(p.funcs["durationFor"].Body)))

	fmt.Fprintf(sb, "/-- util.go constants -/\ndef failureWait : Nat := %s\n", p.leanExpr(p.constExpr("failureWait"), nil))
	fmt.Fprintf(sb, "def maxFailureScale : Nat := %s\n\n", p.leanExpr(p.constExpr("maxFailureScale"), nil))

}

// ---------------------------------------------------------------------------------------------------------------
// safeTimer protocol facts

var wsRe = regexp.MustCompile(`\s+`)

func (p *pkg) src(n ast.Node) string {
	var b bytes.Buffer
	_ = printer.Fprint(&b, p.fset, n)
	return strings.TrimSpace(wsRe.ReplaceAllString(b.String(), " "))
}

// timerFacts: every receive from a safeTimer channel (`X.C`, or an alias variable assigned from `X.C`) that is the
// communication of a select clause or a statement of its own, with whether the statement that follows at once is
// `X.active = false`; and the source text of safeTimer.stop / reset / newSafeTimer.
func (p *pkg) timerFacts(sb *strings.Builder) {
	type site struct {
		fn, timer string
		clears    bool
		line      int
	}
	var sites []site
	keys := make([]string, 0, len(p.funcs))
	for k := range p.funcs {
		keys = append(keys, k)
	}
	sort.Strings(keys)
	isTimerChan := func(fd *ast.FuncDecl, e ast.Expr) (string, bool) {
		switch x := e.(type) {
		case *ast.SelectorExpr:
			if x.Sel.Name == "C" {
				return p.src(x.X), true
			}
		case *ast.Ident:
			// alias: some assignment `x = Y.C` in the same function
			timer := ""
			ast.Inspect(fd.Body, func(n ast.Node) bool {
				if as, ok := n.(*ast.AssignStmt); ok && len(as.Lhs) == 1 && len(as.Rhs) == 1 {
					if id, ok := as.Lhs[0].(*ast.Ident); ok && id.Name == x.Name {
						if se, ok := as.Rhs[0].(*ast.SelectorExpr); ok && se.Sel.Name == "C" {
							timer = p.src(se.X)
						}
					}
				}
				return true
			})
			if timer != "" {
				return timer, true
			}
		}
		return "", false
	}
	clearsActive := func(timer string, st ast.Stmt) bool {
		as, ok := st.(*ast.AssignStmt)
		if !ok || len(as.Lhs) != 1 || len(as.Rhs) != 1 {
			return false
		}
		return p.src(as.Lhs[0]) == timer+".active" && p.src(as.Rhs[0]) == "false"
	}
	recvOf := func(st ast.Stmt) ast.Expr {
		switch x := st.(type) {
		case *ast.ExprStmt:
			if u, ok := x.X.(*ast.UnaryExpr); ok && u.Op == token.ARROW {
				return u.X
			}
		case *ast.AssignStmt:
			if len(x.Rhs) == 1 {
				if u, ok := x.Rhs[0].(*ast.UnaryExpr); ok && u.Op == token.ARROW {
					return u.X
				}
			}
		}
		return nil
	}
	for _, key := range keys {
		if strings.HasPrefix(key, "safeTimer.") || key == "newSafeTimer" {
			continue // the implementation of the protocol itself, given as source text below
		}
		fd := p.funcs[key]
		ast.Inspect(fd.Body, func(n ast.Node) bool {
			switch x := n.(type) {
			case *ast.CommClause:
				if x.Comm == nil {
					return true
				}
				if ch := recvOf(x.Comm); ch != nil {
					if timer, ok := isTimerChan(fd, ch); ok {
						sites = append(sites, site{key, timer, len(x.Body) > 0 && clearsActive(timer, x.Body[0]), p.fset.Position(x.Pos()).Line})
					}
				}
			case *ast.BlockStmt:
				for i, st := range x.List {
					if ch := recvOf(st); ch != nil {
						if timer, ok := isTimerChan(fd, ch); ok {
							sites = append(sites, site{key, timer, i+1 < len(x.List) && clearsActive(timer, x.List[i+1]), p.fset.Position(st.Pos()).Line})
						}
					}
				}
			}
			return true
		})
	}
	// is `timer` a safeTimer at all? time.After(...) and plain *time.Timer values have no `active` flag: keep only
	// receivers whose `.active` field is used somewhere in the package
	usesActive := map[string]bool{}
	for _, f := range p.files {
		ast.Inspect(f, func(n ast.Node) bool {
			if se, ok := n.(*ast.SelectorExpr); ok && se.Sel.Name == "active" {
				usesActive[p.src(se.X)] = true
			}
			return true
		})
	}
	sb.WriteString("/-- every receive from a safeTimer's channel outside safeTimer itself: (function, timer, is the next statement `timer.active = false`) -/\n")
	sb.WriteString("def timerRecvSites : List (String × String × Bool) := [\n")
	first := true
	for _, s := range sites {
		if !usesActive[s.timer] {
			continue
		}
		if !first {
			sb.WriteString(",\n")
		}
		first = false
		fmt.Fprintf(sb, "    (%s, %s, %v)", strconv.Quote(s.fn), strconv.Quote(s.timer), s.clears)
	}
	sb.WriteString("\n  ]\n\n")
	for _, fn := range []struct{ lean, key string }{{"safeTimerStopSrc", "safeTimer.stop"}, {"safeTimerResetSrc", "safeTimer.reset"}, {"newSafeTimerSrc", "newSafeTimer"}} {
		fd := p.funcs[fn.key]
		if fd == nil {
			fmt.Fprintf(os.Stderr, "astfacts: %s not found\n", fn.key)
			os.Exit(2)
		}
		fmt.Fprintf(sb, "/-- the body of `%s`, whitespace normalised -/\ndef %s : String := %s\n\n", fn.key, fn.lean, strconv.Quote(p.src(fd.Body)))
	}
}
