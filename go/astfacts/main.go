// astfacts: the translator of the "regenerated model" tie.
//
// Reads the library source (package raft at -repo, files without the verif build tag, no tests) with go/ast and writes
// Lean definitions to -out (RaftGen/Gen/Skel.lean):
//
//   - the channel skeleton of selected functions as control-flow graphs over Raft.Chan.Node (data erased: every
//     data-dependent branch becomes a nondeterministic choice; callees named in the target's inline list are inlined, any
//     other callee that can reach a channel operation is listed in `opaqueCalls`);
//
//   - a census of every channel operation (make/send/recv/close/nil) in the package per channel name and function;
//
//   - timing facts: the Go expressions that set the retry back-off bound, the idle heartbeat period and the election
//     timeout, translated to Lean functions of the heartbeat timeout.
//
//   - multi-goroutine targets (`pipeTargets`: one pipelining episode of replication.replicate): `go func(){…}()` becomes a
//     process of its own started by a spawn signal (the spawner closes a private `start:` channel), `defer func(){…}()` runs at
//     every return (`if v := recover(); v != nil` is dead there; variant P: declared panic sites may jump into the deferred
//     function with the recover branch taken), `for range ch` becomes `recvOrClosed`, local channels (`x := make(chan …)`)
//     get their own names (`function.variable@call-site`), channel parameters of inlined callees are bound to the channel the
//     argument denotes, closures bound to local variables are inlined at every call, the error carried by (a field of) or
//     being the message of declared local channels (`Tags`) and a few `x != nil` conditions are tracked (the rest of the block
//     is compiled once per truth value; `NilMark` marks the nil side of a fork statement).
//
// The translator fails closed: a construct it does not understand inside a target is an error (exit 2, message on stderr),
// which ./check reports as a broken obligation. For the multi-goroutine targets this includes: a local channel that escapes
// (any use that is not a channel operation, len/cap, or an argument bound to a channel parameter of an inlined function), a
// `make(chan)` or go statement that can run twice in one episode (it lies on a cycle of the control-flow graph), a defer that
// is not at the top level of its function, recover() outside the supported pattern, a channel operation before the episode.
package main

import (
	"bytes"
	"flag"
	"fmt"
	"go/ast"
	"go/parser"
	"go/printer"
	"go/token"
	"os"
	"path/filepath"
	"regexp"
	"sort"
	"strconv"
	"strings"
)

type target struct {
	Name   string   // Lean name
	Func   string   // recv.func or func
	Inline []string // callees (by name) to inline
}

var targets = []target{
	{"notifyFlr", "leader.notifyFlr", nil},
	{"notifyLdr", "replication.notifyLdr", nil},
	{"checkLeaderUpdate", "replication.checkLeaderUpdate", []string{"onLeaderUpdate", "notifyLdr"}},
	{"timerStop", "safeTimer.stop", nil},
	{"timerReset", "safeTimer.reset", []string{"stop"}},
	// "go:" = the body of the (first) goroutine started by that function with `go func(…){…}(…)`
	{"snapGoroutine", "go:Raft.onTakeSnapshot", nil},
}

type comm struct {
	send bool
	ch   int
	next int
}
type node struct {
	kind  string // comm close choice halt range
	cases []comm
	dflt  int
	ch    int
	next  int
	next2 int // range: where the loop exits (channel closed and empty)
	nexts []int
	note  string
	once  string // non-empty: this node must not lie on a cycle of its CFG (a make(chan) / go site)
	mark  string // non-empty: a marker node (kept by compress)
	line  int    // source line of the statement the node was made for
}

type pkg struct {
	fset  *token.FileSet
	funcs map[string]*ast.FuncDecl // "recv.name" or "name"
	byNm  map[string][]string      // name -> keys
	files []*ast.File
}

var chanIndex = map[string]int{}
var chanNames []string

func chanID(name string) int {
	if i, ok := chanIndex[name]; ok {
		return i
	}
	chanIndex[name] = len(chanNames)
	chanNames = append(chanNames, name)
	return len(chanNames) - 1
}

func fail(fset *token.FileSet, pos token.Pos, format string, a ...interface{}) {
	fmt.Fprintf(os.Stderr, "astfacts: %s: %s\n", fset.Position(pos), fmt.Sprintf(format, a...))
	os.Exit(2)
}

func recvTypeName(fd *ast.FuncDecl) string {
	if fd.Recv == nil || len(fd.Recv.List) == 0 {
		return ""
	}
	t := fd.Recv.List[0].Type
	if s, ok := t.(*ast.StarExpr); ok {
		t = s.X
	}
	if id, ok := t.(*ast.Ident); ok {
		return id.Name
	}
	return "?"
}

func load(dir string) *pkg {
	p := &pkg{fset: token.NewFileSet(), funcs: map[string]*ast.FuncDecl{}, byNm: map[string][]string{}}
	names, _ := filepath.Glob(filepath.Join(dir, "*.go"))
	sort.Strings(names)
	for _, fn := range names {
		base := filepath.Base(fn)
		if strings.HasSuffix(base, "_test.go") || strings.HasPrefix(base, "verif_") || base == "trace.go" {
			continue
		}
		f, err := parser.ParseFile(p.fset, fn, nil, parser.ParseComments)
		if err != nil {
			fmt.Fprintln(os.Stderr, "astfacts:", err)
			os.Exit(2)
		}
		p.files = append(p.files, f)
		for _, im := range f.Imports {
			nm := ""
			if im.Name != nil {
				nm = im.Name.Name
			} else if path, err := strconv.Unquote(im.Path.Value); err == nil {
				nm = path[strings.LastIndex(path, "/")+1:]
			}
			if nm != "" && nm != "_" && nm != "." {
				importNames[nm] = true
			}
		}
		for _, d := range f.Decls {
			if fd, ok := d.(*ast.FuncDecl); ok && fd.Body != nil {
				key := fd.Name.Name
				if r := recvTypeName(fd); r != "" {
					key = r + "." + key
				}
				p.funcs[key] = fd
				p.byNm[fd.Name.Name] = append(p.byNm[fd.Name.Name], key)
			}
		}
	}
	return p
}

// ---------------------------------------------------------------------------------------------------------------
// channel names

func chanName(e ast.Expr) string {
	switch x := e.(type) {
	case *ast.ParenExpr:
		return chanName(x.X)
	case *ast.Ident:
		if x.Name == "timerCh" {
			return "timer"
		}
		return x.Name
	case *ast.SelectorExpr:
		if x.Sel.Name == "C" {
			return "timer"
		}
		return x.Sel.Name
	case *ast.CallExpr: // time.After(..), rtime.after(..)
		return "timer"
	}
	return "?"
}

// ---------------------------------------------------------------------------------------------------------------
// effects of an expression / simple statement, in evaluation order

type effect struct {
	recv  string        // channel name (by last selector), or ""
	chX   ast.Expr      // the channel expression (resolved against the scope by the builder)
	call  string        // callee name, or ""
	callX *ast.CallExpr // the call (arguments are needed when the callee is inlined)
	isCl  bool          // close(ch)
	pos   token.Pos
}

func calleeName(c *ast.CallExpr) string {
	switch f := c.Fun.(type) {
	case *ast.Ident:
		return f.Name
	case *ast.SelectorExpr:
		return f.Sel.Name
	}
	return ""
}

// importNames: the names under which the files of the package import other packages (`errors.New` is not `New`)
var importNames = map[string]bool{}

// localCallee: the name of the callee if it can be a function of this package ("" for `pkg.F(…)` with pkg imported)
func localCallee(c *ast.CallExpr) string {
	if s, ok := c.Fun.(*ast.SelectorExpr); ok {
		if id, ok := s.X.(*ast.Ident); ok && importNames[id.Name] && id.Obj == nil {
			return ""
		}
	}
	return calleeName(c)
}

func effectsOf(n ast.Node) []effect {
	var out []effect
	if n == nil {
		return nil
	}
	var walk func(n ast.Node)
	walk = func(n ast.Node) {
		switch x := n.(type) {
		case nil:
			return
		case *ast.FuncLit:
			return // a closure is not executed here
		case *ast.UnaryExpr:
			walk(x.X)
			if x.Op == token.ARROW {
				out = append(out, effect{recv: chanName(x.X), chX: x.X, pos: x.Pos()})
			}
			return
		case *ast.CallExpr:
			for _, a := range x.Args {
				walk(a)
			}
			if s, ok := x.Fun.(*ast.SelectorExpr); ok {
				walk(s.X)
			}
			nm := localCallee(x)
			if id, ok := x.Fun.(*ast.Ident); ok && id.Name == "close" && len(x.Args) == 1 {
				out = append(out, effect{recv: chanName(x.Args[0]), chX: x.Args[0], isCl: true, pos: x.Pos()})
				return
			}
			if _, ok := x.Fun.(*ast.FuncLit); ok {
				out = append(out, effect{call: "func literal", callX: x, pos: x.Pos()})
				return
			}
			if nm != "" {
				out = append(out, effect{call: nm, callX: x, pos: x.Pos()})
			}
			return
		}
		ast.Inspect(n, func(m ast.Node) bool {
			if m == n {
				return true
			}
			if m == nil {
				return false
			}
			walk(m)
			return false
		})
	}
	walk(n)
	return out
}

// ---------------------------------------------------------------------------------------------------------------
// which functions can reach a channel operation (by name, over-approximation)

func (p *pkg) effectful() map[string]bool {
	direct := map[string]bool{}
	calls := map[string]map[string]bool{}
	for key, fd := range p.funcs {
		calls[key] = map[string]bool{}
		ast.Inspect(fd.Body, func(n ast.Node) bool {
			switch x := n.(type) {
			case *ast.FuncLit:
				return false
			case *ast.SendStmt, *ast.SelectStmt:
				direct[key] = true
			case *ast.UnaryExpr:
				if x.Op == token.ARROW {
					direct[key] = true
				}
			case *ast.CallExpr:
				if id, ok := x.Fun.(*ast.Ident); ok && id.Name == "close" {
					direct[key] = true
				}
				if nm := localCallee(x); nm != "" {
					calls[key][nm] = true
				}
			}
			return true
		})
	}
	eff := map[string]bool{}
	for k := range direct {
		eff[k] = true
	}
	for changed := true; changed; {
		changed = false
		for key := range p.funcs {
			if eff[key] {
				continue
			}
			for nm := range calls[key] {
				for _, ck := range p.byNm[nm] {
					if eff[ck] {
						eff[key] = true
						changed = true
					}
				}
			}
		}
	}
	return eff
}

// ---------------------------------------------------------------------------------------------------------------
// lexical scopes: local channel variables, channel-typed parameters, closures bound to variables

type closure struct {
	lit *ast.FuncLit
	env *scope
}

type scope struct {
	parent *scope
	chans  map[string]string   // identifier -> channel name
	funcs  map[string]*closure // identifier -> function literal assigned to it
}

func (s *scope) child() *scope {
	return &scope{parent: s, chans: map[string]string{}, funcs: map[string]*closure{}}
}

func (s *scope) chanOf(name string) (string, bool) {
	for ; s != nil; s = s.parent {
		if v, ok := s.chans[name]; ok {
			return v, true
		}
	}
	return "", false
}

func (s *scope) funcOf(name string) (*closure, bool) {
	for ; s != nil; s = s.parent {
		if v, ok := s.funcs[name]; ok {
			return v, true
		}
	}
	return nil, false
}

// makeChanCap: is e `make(chan T[, cap])`, and its capacity ("0", a literal, or "dynamic")
func makeChanCap(e ast.Expr) (string, bool) {
	c, ok := e.(*ast.CallExpr)
	if !ok {
		return "", false
	}
	if id, ok := c.Fun.(*ast.Ident); !ok || id.Name != "make" || len(c.Args) == 0 {
		return "", false
	}
	if _, ok := c.Args[0].(*ast.ChanType); !ok {
		return "", false
	}
	if len(c.Args) == 1 {
		return "0", true
	}
	if bl, ok := c.Args[1].(*ast.BasicLit); ok {
		return bl.Value, true
	}
	return "dynamic", true
}

// ---------------------------------------------------------------------------------------------------------------
// CFG builder (continuation passing, compiled back to front)

type ctx struct {
	brk, cont, ret int
	labels         map[string][2]int // label -> (brk, cont)
	env            *scope            // local channels / closures visible here (nil: none)
	fn             string            // prefix of the names of channels declared here (the function's name)
	inst           string            // call-site path of the inlined closures / callees we are in ("@251")
	recov          int               // 0: not in a deferred function; 1: deferred function, no panic in flight; 2: run by a panic
	panicTo        int               // where a panic goes (entry of the deferred function in mode 2); -1: no recovering frame
	facts          map[string]bool   // known truth values of tracked conditions ("err != nil"), by source text
	dual           *dualK            // for the statement that establishes a fact: its two continuations
	retT, retF     int               // inlined closure whose error result is tracked: where `return non-nil` / `return nil` go; -1: none
}

// dualK: the continuations of the statement that establishes `fact` (the rest of its block, compiled once per truth value)
type dualK struct {
	fact   string
	v      string // the variable the fact is about
	kT, kF int
}

func (c ctx) withFact(f string, v bool) ctx {
	m := map[string]bool{}
	for k, x := range c.facts {
		m[k] = x
	}
	m[f] = v
	c.facts = m
	return c
}

// tagSpec: messages on the local channel `Chan` are struct literals whose field `Field` (an error) is nil or not — or, with
// Field == "", the message itself is the error; the model splits the channel in two: `name` carries the messages with a
// nil error, `name#err` (`name#Field`) those with a non-nil one. (Order between the two is lost — an over-approximation;
// what is kept is that the branch the receiver takes on `x.Field != nil` / `x != nil` is the one the sender took.)
type tagSpec struct {
	Chan, Field string
}

// suffix of the name of the half that carries the non-nil errors
func (t *tagSpec) suffix() string {
	if t.Field == "" {
		return "#err"
	}
	return "#" + t.Field
}

func newCtx(ret int) ctx {
	return ctx{brk: -1, cont: -1, ret: ret, labels: map[string][2]int{}, panicTo: -1, retT: -1, retF: -1}
}

type mark struct {
	Name  string // Lean name suffix
	Text  string // whitespace-normalised source of the statement (or of the communication of a select clause)
	After bool   // the marker node stands after the statement (for a select clause: at the start of its body)
}

// state shared by the builders of one multi-goroutine target
type shared struct {
	allowGo    bool
	panicMode  bool
	panicAt    map[string]bool
	canPanic   map[string]bool
	marks      []mark
	spawned    []*spawnOut
	localKinds map[string]string // channel name -> capacity ("start": a spawn signal)
	localIdent map[string]bool   // identifiers bound to local channels (escape check)
	closIdent  map[string]bool   // identifiers bound to closures
	knownChans map[string]bool   // channel names of the package census
	declStmt   map[ast.Stmt]bool // statements whose `make(chan)` was bound by `declare`
	usedPanic  map[string]bool
	tags       []tagSpec
	tagged     map[string]*tagSpec // channel names (resolved) that are split by a tag
	forks      map[string]bool     // source text of the statements `v := …` after which `v != nil` is tracked
	nilMark    string              // marker on the `v == nil` side of a fork
	usedFork   map[string]bool
	fd         *ast.FuncDecl
}

// errChan: the name of the half of the tagged channel `name` that carries the non-nil errors (`fn.var#err@call-site`)
func (sh *shared) errChan(name string) string {
	suf := sh.tagged[name].suffix()
	if i := strings.Index(name, "@"); i >= 0 {
		return name[:i] + suf + name[i:]
	}
	return name + suf
}

// isTagged: is the channel called `name` split by the tag
func (b *builder) isTagged(name string) bool {
	return b.sh != nil && b.sh.tagged[name] != nil
}

// nilness of an expression that is an error: 0 = nil, 1 = known non-nil, -1 = unknown
func (b *builder) nilness(e ast.Expr, c ctx) int {
	if id, ok := e.(*ast.Ident); ok {
		if id.Name == "nil" {
			return 0
		}
		if v, known := c.facts[id.Name+" != nil"]; known {
			if v {
				return 1
			}
			return 0
		}
	}
	return -1
}

// sendTag: which half of a tagged channel a send of `v` goes to: 0 = Field is nil, 1 = Field is not nil, -1 = unknown
func (b *builder) sendTag(v ast.Expr, c ctx, spec *tagSpec) int {
	if spec.Field == "" {
		return b.nilness(v, c)
	}
	lit, ok := v.(*ast.CompositeLit)
	if !ok {
		return -1
	}
	var fe ast.Expr
	for _, e := range lit.Elts {
		if kv, ok := e.(*ast.KeyValueExpr); ok {
			if id, ok := kv.Key.(*ast.Ident); ok && id.Name == spec.Field {
				fe = kv.Value
			}
		}
	}
	if fe == nil && len(lit.Elts) > 0 {
		if _, keyed := lit.Elts[0].(*ast.KeyValueExpr); !keyed {
			// positional literal: the index of the field in the (local) struct type
			tid, ok := lit.Type.(*ast.Ident)
			if !ok {
				return -1
			}
			idx := -1
			ast.Inspect(b.sh.fd.Body, func(n ast.Node) bool {
				if ts, ok := n.(*ast.TypeSpec); ok && ts.Name.Name == tid.Name {
					if st, ok := ts.Type.(*ast.StructType); ok {
						i := 0
						for _, f := range st.Fields.List {
							for _, nm := range f.Names {
								if nm.Name == spec.Field {
									idx = i
								}
								i++
							}
						}
					}
				}
				return true
			})
			if idx >= 0 && idx < len(lit.Elts) {
				fe = lit.Elts[idx]
			}
		}
	}
	if fe == nil {
		return -1
	}
	return b.nilness(fe, c)
}

type spawnOut struct {
	b     *builder
	entry int
	pos   token.Pos
	path  string
	start string
	by    *builder // the spawner
	at    int      // the node of the go statement in the spawner
}

type builder struct {
	p          *pkg
	nodes      []node
	eff        map[string]bool
	inline     map[string]bool
	opaque     map[string]bool
	depth      int
	tname      string
	sh         *shared
	marks      map[string][]int
	curLine    int
	sawRecover bool
}

func (b *builder) add(n node) int {
	if n.line == 0 {
		n.line = b.curLine
	}
	b.nodes = append(b.nodes, n)
	return len(b.nodes) - 1
}

func (b *builder) skipTo(k int) int { return k }

// chanOf: the name of the channel denoted by expression e at this point
func (b *builder) chanOf(e ast.Expr, c ctx) string {
	for {
		pe, ok := e.(*ast.ParenExpr)
		if !ok {
			break
		}
		e = pe.X
	}
	if id, ok := e.(*ast.Ident); ok {
		if nm, ok := c.env.chanOf(id.Name); ok {
			return nm
		}
	}
	return chanName(e)
}

func (b *builder) effects(effs []effect, k int, c ctx) int {
	for i := len(effs) - 1; i >= 0; i-- {
		e := effs[i]
		switch {
		case e.isCl:
			nm := b.chanOf(e.chX, c)
			if b.isTagged(nm) {
				k = b.add(node{kind: "close", ch: chanID(b.sh.errChan(nm)), next: k})
			}
			k = b.add(node{kind: "close", ch: chanID(nm), next: k})
		case e.recv != "":
			nm := b.chanOf(e.chX, c)
			cs := []comm{{false, chanID(nm), k}}
			if b.isTagged(nm) {
				cs = append(cs, comm{false, chanID(b.sh.errChan(nm)), k})
			}
			k = b.add(node{kind: "comm", cases: cs, dflt: -1})
		case e.call != "":
			k = b.call(e, k, c)
		}
	}
	return k
}

// bindParams binds the channel-typed parameters of an inlined function to the channels the arguments denote
func (b *builder) bindParams(ft *ast.FuncType, args []ast.Expr, caller ctx, env *scope, pos token.Pos) {
	idx := 0
	if ft.Params == nil {
		return
	}
	for _, f := range ft.Params.List {
		n := len(f.Names)
		if n == 0 {
			n = 1
		}
		for j := 0; j < n; j++ {
			_, isChan := f.Type.(*ast.ChanType)
			if idx < len(args) {
				if isChan {
					if len(f.Names) > 0 {
						env.chans[f.Names[j].Name] = b.chanOf(args[idx], caller)
					}
				} else if id, ok := args[idx].(*ast.Ident); ok {
					if _, isLocal := caller.env.chanOf(id.Name); isLocal {
						fail(b.p.fset, pos, "local channel %s is passed for a parameter that is not of channel type", id.Name)
					}
				}
			}
			idx++
		}
	}
}

func (b *builder) call(e effect, k int, c ctx) int {
	fset := b.p.fset
	if e.call == "recover" {
		fail(fset, e.pos, "recover() outside the pattern `if v := recover(); v != nil {…}` of a deferred function is not supported")
	}
	// a closure bound to a local variable: inline its body at the call site
	if e.callX != nil {
		if id, ok := e.callX.Fun.(*ast.Ident); ok {
			if cl, ok := c.env.funcOf(id.Name); ok {
				return b.inlineClosure(cl, e.callX, k, nil, c)
			}
		}
	}
	if e.call == "func literal" {
		fail(fset, e.pos, "a function literal called in place is not supported")
	}
	keys := b.p.byNm[e.call]
	var effKeys []string
	for _, key := range keys {
		if b.eff[key] {
			effKeys = append(effKeys, key)
		}
	}
	if b.sh != nil && b.sh.panicAt[e.call] {
		// a declared panic site: the callee may panic (variant P only); it must not reach a channel operation itself
		if len(effKeys) != 0 {
			fail(fset, e.pos, "panic site %s can reach a channel operation: not supported", e.call)
		}
		can := false
		for _, key := range keys {
			if b.sh.canPanic[key] {
				can = true
			}
		}
		if !can {
			fail(fset, e.pos, "declared panic site %s cannot reach a panic(…) call", e.call)
		}
		b.sh.usedPanic[e.call] = true
		if b.sh.panicMode {
			if c.panicTo < 0 {
				fail(fset, e.pos, "panic site %s outside a function with a recovering deferred function", e.call)
			}
			return b.add(node{kind: "choice", nexts: []int{k, c.panicTo}})
		}
		return k
	}
	if len(effKeys) == 0 {
		return k
	}
	if !b.inline[e.call] {
		b.opaque[e.call] = true
		return k
	}
	if b.depth > 6 {
		fail(fset, e.pos, "inlining too deep at %s", e.call)
	}
	sort.Strings(effKeys)
	var entries []int
	for _, key := range effKeys {
		fd := b.p.funcs[key]
		c2 := newCtx(k)
		if b.sh != nil {
			env := (*scope)(nil).child()
			if e.callX != nil {
				b.bindParams(fd.Type, e.callX.Args, c, env, e.pos)
			}
			c2.env, c2.fn = env, fd.Name.Name
			c2.inst = c.inst + fmt.Sprintf("@%d", fset.Position(e.pos).Line)
			c2.panicTo = c.panicTo
		}
		b.depth++
		entries = append(entries, b.funcBody(fd.Body, k, c2))
		b.depth--
	}
	if len(entries) == 1 {
		return entries[0]
	}
	return b.add(node{kind: "choice", nexts: entries})
}

// inlineClosure inlines the body of a closure bound to a local variable at a call site; with `dual`, the closure has one
// result of type error and its `return nil` / `return <known non-nil>` go to dual.kF / dual.kT (anything else to k)
func (b *builder) inlineClosure(cl *closure, call *ast.CallExpr, k int, dual *dualK, c ctx) int {
	fset := b.p.fset
	if b.depth > 6 {
		fail(fset, call.Pos(), "inlining too deep at a closure call")
	}
	env := cl.env.child()
	b.bindParams(cl.lit.Type, call.Args, c, env, call.Pos())
	c2 := newCtx(k)
	c2.env, c2.fn = env, c.fn
	c2.inst = c.inst + fmt.Sprintf("@%d", fset.Position(call.Pos()).Line)
	c2.panicTo = c.panicTo
	if dual != nil {
		c2.retT, c2.retF = dual.kT, dual.kF
	}
	b.depth++
	entry := b.funcBody(cl.lit.Body, k, c2)
	b.depth--
	var effs []effect
	for _, a := range call.Args {
		effs = append(effs, effectsOf(a)...)
	}
	return b.effects(effs, entry, c)
}

// errClosureCall: is s `x = f()` / `x := f()` with f a local closure that returns exactly one error
func (b *builder) errClosureCall(s ast.Stmt, c ctx) (*closure, *ast.CallExpr, string, bool) {
	as, ok := s.(*ast.AssignStmt)
	if !ok || len(as.Lhs) != 1 || len(as.Rhs) != 1 {
		return nil, nil, "", false
	}
	id, ok := as.Lhs[0].(*ast.Ident)
	if !ok {
		return nil, nil, "", false
	}
	call, ok := as.Rhs[0].(*ast.CallExpr)
	if !ok {
		return nil, nil, "", false
	}
	fid, ok := call.Fun.(*ast.Ident)
	if !ok {
		return nil, nil, "", false
	}
	cl, ok := c.env.funcOf(fid.Name)
	if !ok {
		return nil, nil, "", false
	}
	if !isErrClosure(cl) {
		return nil, nil, "", false
	}
	return cl, call, id.Name, true
}

// isErrClosure: does the closure return exactly one value, of type error
func isErrClosure(cl *closure) bool {
	rs := cl.lit.Type.Results
	if rs == nil || len(rs.List) != 1 || len(rs.List[0].Names) > 1 {
		return false
	}
	t, ok := rs.List[0].Type.(*ast.Ident)
	return ok && t.Name == "error"
}

// nilCond: is cond `X != nil` / `X == nil`; the key "X != nil" and whether cond is its negation
func (b *builder) nilCond(cond ast.Expr) (key string, neg bool, x ast.Expr, ok bool) {
	be, isB := cond.(*ast.BinaryExpr)
	if !isB || (be.Op != token.NEQ && be.Op != token.EQL) {
		return "", false, nil, false
	}
	if id, isId := be.Y.(*ast.Ident); !isId || id.Name != "nil" {
		return "", false, nil, false
	}
	return b.p.src(be.X) + " != nil", be.Op == token.EQL, be.X, true
}

// funcBody compiles the body of a function (inlined callee, inlined closure, goroutine, deferred function).
// `after` is where the function returns to. Deferred calls at the top level of the body run at every return.
func (b *builder) funcBody(body *ast.BlockStmt, after int, c ctx) int {
	fset := b.p.fset
	var defers []*ast.DeferStmt
	top := map[*ast.DeferStmt]bool{}
	last := -1
	for i, st := range body.List {
		if d, ok := st.(*ast.DeferStmt); ok {
			defers = append(defers, d)
			top[d] = true
			last = i
		}
	}
	ast.Inspect(body, func(n ast.Node) bool {
		switch x := n.(type) {
		case *ast.FuncLit:
			return false
		case *ast.DeferStmt:
			if !top[x] {
				fail(fset, x.Pos(), "defer that is not at the top level of its function body is not supported")
			}
			return false
		}
		return true
	})
	// what precedes the last defer must be plain (no return, no channel operation): then every return runs every defer
	for i := 0; i < last; i++ {
		if _, ok := body.List[i].(*ast.DeferStmt); ok {
			continue
		}
		plain := true
		ast.Inspect(body.List[i], func(n ast.Node) bool {
			switch n.(type) {
			case *ast.FuncLit:
				return false
			case *ast.ReturnStmt, *ast.GoStmt, *ast.SendStmt, *ast.SelectStmt, *ast.RangeStmt, *ast.ForStmt:
				plain = false
			}
			return true
		})
		for _, e := range effectsOf(body.List[i]) {
			if e.recv != "" {
				plain = false
			}
			for _, key := range b.p.byNm[e.call] {
				if b.eff[key] {
					plain = false
				}
			}
		}
		if !plain {
			fail(fset, body.List[i].Pos(), "statement before a defer is not plain (return / channel operation): not supported")
		}
	}
	ret := after
	panicTo := c.panicTo // a panic in a frame without defers unwinds to the caller's recovering frame
	if len(defers) > 0 {
		if b.sh == nil || !b.sh.allowGo {
			fail(fset, defers[0].Pos(), "defer inside a target is not supported")
		}
		if c.retT >= 0 {
			fail(fset, defers[0].Pos(), "defer in a closure whose result is tracked: not supported")
		}
		panicTo = -1
		if b.sh.panicMode {
			if len(defers) != 1 {
				fail(fset, defers[1].Pos(), "variant P: more than one defer in a function is not supported")
			}
			panicTo = b.deferred(defers[0], after, c, 2)
		}
		for _, d := range defers { // LIFO: the last deferred call runs first
			ret = b.deferred(d, ret, c, 1)
		}
	}
	list := make([]ast.Stmt, 0, len(body.List))
	for _, st := range body.List {
		if _, ok := st.(*ast.DeferStmt); ok {
			continue
		}
		list = append(list, st)
	}
	c.ret, c.brk, c.cont, c.panicTo = ret, -1, -1, panicTo
	return b.block(list, ret, c)
}

// deferred compiles one deferred call; mode 1: run at a normal return, mode 2: run by a panic (must recover)
func (b *builder) deferred(d *ast.DeferStmt, next int, c ctx, mode int) int {
	fset := b.p.fset
	lit, ok := d.Call.Fun.(*ast.FuncLit)
	if !ok {
		// `defer f(x)`: only when nothing in it can reach a channel operation
		for _, e := range effectsOf(d.Call) {
			if e.recv != "" {
				fail(fset, d.Pos(), "deferred call with a channel operation is not supported")
			}
			for _, key := range b.p.byNm[e.call] {
				if b.eff[key] {
					fail(fset, d.Pos(), "deferred call %s can reach a channel operation: not supported", e.call)
				}
			}
		}
		if mode == 2 {
			fail(fset, d.Pos(), "variant P: the deferred call does not recover")
		}
		return next
	}
	if len(d.Call.Args) != 0 {
		fail(fset, d.Pos(), "deferred function literal with arguments is not supported")
	}
	c2 := newCtx(next)
	c2.env, c2.fn, c2.inst, c2.recov = c.env.child(), c.fn, c.inst, mode
	saw := b.sawRecover
	b.sawRecover = false
	e := b.funcBody(lit.Body, next, c2)
	if mode == 2 && !b.sawRecover {
		fail(fset, d.Pos(), "variant P: the deferred function does not recover")
	}
	b.sawRecover = saw
	return e
}

// declare: the scope after statement st (binds `x := make(chan …)`, `var x = make(chan …)`, `f := func(…){…}`)
func (b *builder) declare(st ast.Stmt, c ctx) (*scope, int) {
	fset := b.p.fset
	env := c.env
	made := 0
	bindChan := func(id *ast.Ident, capStr string) {
		if b.sh == nil {
			fail(fset, id.Pos(), "local channel %s in a target that does not support them", id.Name)
		}
		if capStr == "dynamic" {
			fail(fset, id.Pos(), "local channel %s has a non-constant capacity", id.Name)
		}
		name := c.fn + "." + id.Name + c.inst
		if old, dup := b.sh.localKinds[name]; dup && old != capStr {
			fail(fset, id.Pos(), "local channel %s made with two capacities", name)
		}
		b.sh.localKinds[name] = capStr
		for i := range b.sh.tags {
			if b.sh.tags[i].Chan == id.Name {
				b.sh.tagged[name] = &b.sh.tags[i]
				b.sh.localKinds[b.sh.errChan(name)] = capStr
			}
		}
		b.sh.localIdent[id.Name] = true
		env = env.child()
		env.chans[id.Name] = name
		made++
		b.sh.declStmt[st] = true
	}
	bindFunc := func(id *ast.Ident, lit *ast.FuncLit) {
		if b.sh == nil {
			return
		}
		cl := &closure{lit: lit, env: env}
		env = env.child()
		env.funcs[id.Name] = cl
		b.sh.closIdent[id.Name] = true
	}
	switch x := st.(type) {
	case *ast.DeclStmt:
		gd, ok := x.Decl.(*ast.GenDecl)
		if !ok || gd.Tok != token.VAR {
			break
		}
		for _, sp := range gd.Specs {
			vs := sp.(*ast.ValueSpec)
			for i, v := range vs.Values {
				if i >= len(vs.Names) {
					break
				}
				if cp, ok := makeChanCap(v); ok {
					bindChan(vs.Names[i], cp)
				} else if lit, ok := v.(*ast.FuncLit); ok {
					bindFunc(vs.Names[i], lit)
				}
			}
		}
	case *ast.AssignStmt:
		if len(x.Lhs) != len(x.Rhs) {
			break
		}
		for i, r := range x.Rhs {
			id, isId := x.Lhs[i].(*ast.Ident)
			if !isId {
				continue
			}
			if x.Tok == token.DEFINE {
				if cp, ok := makeChanCap(r); ok {
					bindChan(id, cp)
					continue
				}
				if lit, ok := r.(*ast.FuncLit); ok {
					bindFunc(id, lit)
					continue
				}
			}
			if _, isCh := env.chanOf(id.Name); isCh {
				fail(fset, x.Pos(), "local channel variable %s is assigned again: not supported", id.Name)
			}
			if _, isFn := env.funcOf(id.Name); isFn {
				fail(fset, x.Pos(), "closure variable %s is assigned again: not supported", id.Name)
			}
		}
	}
	return env, made
}

func (b *builder) block(list []ast.Stmt, k int, c ctx) int {
	envs := make([]*scope, len(list)+1)
	made := make([]int, len(list))
	envs[0] = c.env
	for i, st := range list {
		c1 := c
		c1.env = envs[i]
		envs[i+1], made[i] = b.declare(st, c1)
	}
	upto := len(list)
	for i, st := range list {
		c1 := c
		c1.env = envs[i]
		fact, v, ok := b.establishes(st, c1)
		if !ok {
			continue
		}
		// the rest of the block is compiled once per truth value of the condition (and once without, for the ways
		// through the statement that do not fix it); the variable must not change in the rest
		rest := list[i+1:]
		if assignsTo(rest, v) {
			fail(b.p.fset, st.Pos(), "tracked variable %s is assigned again in the rest of the block: not supported", v)
		}
		c2 := c
		c2.env = envs[i+1]
		kU := b.block(rest, k, c2)
		kT := b.block(rest, k, c2.withFact(fact, true))
		kF := b.block(rest, k, c2.withFact(fact, false))
		c1.dual = &dualK{fact: fact, v: v, kT: kT, kF: kF}
		k = b.stmt(st, kU, c1)
		if made[i] > 0 {
			fail(b.p.fset, st.Pos(), "make(chan) in a statement that establishes a tracked condition: not supported")
		}
		upto = i
		break
	}
	for i := upto - 1; i >= 0; i-- {
		c1 := c
		c1.env = envs[i]
		k = b.stmt(list[i], k, c1)
		if made[i] > 0 {
			// a `make(chan)` site: one name stands for one channel only if the site runs at most once (checked on the CFG)
			k = b.add(node{kind: "choice", nexts: []int{k}, once: "make(chan) at line " + strconv.Itoa(b.p.fset.Position(list[i].Pos()).Line), line: b.p.fset.Position(list[i].Pos()).Line})
		}
	}
	return k
}

// commOf: the communication(s) of a statement that is a bare send / receive (or the communication of a select clause).
// On a tagged channel a receive is two cases (one per half), a send goes to the half its tag says (both if unknown).
func (b *builder) commOf(s ast.Stmt, next int, c ctx) ([]comm, bool) {
	recv := func(e ast.Expr) []comm {
		nm := b.chanOf(e, c)
		cs := []comm{{false, chanID(nm), next}}
		if b.isTagged(nm) {
			cs = append(cs, comm{false, chanID(b.sh.errChan(nm)), next})
		}
		return cs
	}
	switch x := s.(type) {
	case *ast.SendStmt:
		nm := b.chanOf(x.Chan, c)
		if b.isTagged(nm) {
			switch b.sendTag(x.Value, c, b.sh.tagged[nm]) {
			case 0:
				return []comm{{true, chanID(nm), next}}, true
			case 1:
				return []comm{{true, chanID(b.sh.errChan(nm)), next}}, true
			}
			return []comm{{true, chanID(nm), next}, {true, chanID(b.sh.errChan(nm)), next}}, true
		}
		return []comm{{true, chanID(nm), next}}, true
	case *ast.ExprStmt:
		if u, ok := x.X.(*ast.UnaryExpr); ok && u.Op == token.ARROW {
			return recv(u.X), true
		}
	case *ast.AssignStmt:
		if len(x.Rhs) == 1 {
			if u, ok := x.Rhs[0].(*ast.UnaryExpr); ok && u.Op == token.ARROW {
				if len(x.Lhs) == 2 && b.sh != nil {
					fail(b.p.fset, x.Pos(), "`v, ok := <-ch` is not supported (use recvOrClosed by hand)")
				}
				return recv(u.X), true
			}
		}
	}
	return nil, false
}

// taggedRecv: is s `x = <-ch` / `x := <-ch` with ch a tagged channel and x an identifier; the fact it establishes
func (b *builder) taggedRecv(s ast.Stmt, c ctx) (string, string, bool) {
	as, ok := s.(*ast.AssignStmt)
	if !ok || len(as.Lhs) != 1 || len(as.Rhs) != 1 {
		return "", "", false
	}
	u, ok := as.Rhs[0].(*ast.UnaryExpr)
	if !ok || u.Op != token.ARROW {
		return "", "", false
	}
	id, ok := as.Lhs[0].(*ast.Ident)
	if !ok {
		return "", "", false
	}
	nm := b.chanOf(u.X, c)
	if !b.isTagged(nm) {
		return "", "", false
	}
	if f := b.sh.tagged[nm].Field; f != "" {
		return nm, id.Name + "." + f + " != nil", true
	}
	return nm, id.Name + " != nil", true
}

// establishes: does statement st fix the truth value of a tracked condition for the rest of its block
func (b *builder) establishes(st ast.Stmt, c ctx) (fact string, v string, ok bool) {
	if b.sh == nil {
		return "", "", false
	}
	switch x := st.(type) {
	case *ast.AssignStmt:
		if len(b.sh.forks) > 0 && len(x.Lhs) == 1 && b.sh.forks[b.p.src(st)] {
			if id, ok := x.Lhs[0].(*ast.Ident); ok {
				return id.Name + " != nil", id.Name, true
			}
		}
		if len(b.sh.tags) > 0 {
			if _, f, ok := b.taggedRecv(st, c); ok {
				return f, x.Lhs[0].(*ast.Ident).Name, true
			}
		}
		if _, _, v, ok := b.errClosureCall(st, c); ok {
			return v + " != nil", v, true
		}
	case *ast.SelectStmt:
		if len(b.sh.tags) == 0 {
			return "", "", false
		}
		for _, cl := range x.Body.List {
			cc := cl.(*ast.CommClause)
			if cc.Comm != nil {
				if _, f, ok := b.taggedRecv(cc.Comm, c); ok {
					return f, cc.Comm.(*ast.AssignStmt).Lhs[0].(*ast.Ident).Name, true
				}
			}
		}
	}
	return "", "", false
}

// assignsTo: is variable v assigned (or its address taken) anywhere in the statements
func assignsTo(list []ast.Stmt, v string) bool {
	found := false
	for _, st := range list {
		ast.Inspect(st, func(n ast.Node) bool {
			switch x := n.(type) {
			case *ast.AssignStmt:
				for _, l := range x.Lhs {
					if id, ok := l.(*ast.Ident); ok && id.Name == v {
						found = true
					}
				}
			case *ast.IncDecStmt:
				if id, ok := x.X.(*ast.Ident); ok && id.Name == v {
					found = true
				}
			case *ast.UnaryExpr:
				if id, ok := x.X.(*ast.Ident); ok && id.Name == v && x.Op == token.AND {
					found = true
				}
			case *ast.ValueSpec:
				for _, nm := range x.Names {
					if nm.Name == v {
						found = true
					}
				}
			case *ast.RangeStmt:
				for _, e := range []ast.Expr{x.Key, x.Value} {
					if id, ok := e.(*ast.Ident); ok && id.Name == v {
						found = true
					}
				}
			}
			return true
		})
	}
	return found
}

func (b *builder) markOf(text string, after bool) *mark {
	if b.sh == nil {
		return nil
	}
	for i := range b.sh.marks {
		if b.sh.marks[i].Text == text && b.sh.marks[i].After == after {
			return &b.sh.marks[i]
		}
	}
	return nil
}

func (b *builder) marker(m *mark, k int) int {
	n := b.add(node{kind: "choice", nexts: []int{k}, mark: m.Name})
	b.marks[m.Name] = append(b.marks[m.Name], n)
	return n
}

func (b *builder) stmt(s ast.Stmt, k int, c ctx) int {
	if s == nil {
		return k
	}
	saved := b.curLine
	b.curLine = b.p.fset.Position(s.Pos()).Line
	defer func() { b.curLine = saved }()
	if b.sh != nil && len(b.sh.marks) > 0 {
		text := b.p.src(s)
		if m := b.markOf(text, true); m != nil {
			k = b.marker(m, k)
		}
		if m := b.markOf(text, false); m != nil {
			return b.marker(m, b.stmt0(s, k, c))
		}
	}
	return b.stmt0(s, k, c)
}

func isRecoverCall(e ast.Expr) bool {
	c, ok := e.(*ast.CallExpr)
	if !ok {
		return false
	}
	id, ok := c.Fun.(*ast.Ident)
	return ok && id.Name == "recover" && len(c.Args) == 0
}

func (b *builder) stmt0(s ast.Stmt, k int, c ctx) int {
	fset := b.p.fset
	dual := c.dual
	c.dual = nil
	switch x := s.(type) {
	case nil:
		return k
	case *ast.EmptyStmt, *ast.IncDecStmt:
		return k
	case *ast.DeclStmt:
		if b.sh == nil {
			return k
		}
		var effs []effect
		if gd, ok := x.Decl.(*ast.GenDecl); ok && gd.Tok == token.VAR {
			for _, sp := range gd.Specs {
				for _, v := range sp.(*ast.ValueSpec).Values {
					if _, ok := makeChanCap(v); ok && !b.sh.declStmt[s] {
						fail(fset, x.Pos(), "make(chan) in a declaration that is not a statement of a block: not supported")
					}
					effs = append(effs, effectsOf(v)...)
				}
			}
		}
		return b.effects(effs, k, c)
	case *ast.ExprStmt, *ast.AssignStmt:
		if dual != nil {
			if nm, _, ok := b.taggedRecv(s, c); ok {
				// `x = <-ch` on a tagged channel: the half the message comes from fixes `x.Field != nil`
				return b.add(node{kind: "comm", cases: []comm{{false, chanID(nm), dual.kF}, {false, chanID(b.sh.errChan(nm)), dual.kT}}, dflt: -1})
			}
			if cl, call, _, ok := b.errClosureCall(s, c); ok {
				// `x = f()` with f a local closure returning an error: its returns fix `x != nil`
				return b.inlineClosure(cl, call, k, dual, c)
			}
			// a fork statement `v := f(…)`: both truth values of `v != nil` are possible
			b.sh.usedFork[b.p.src(s)] = true
			kF := dual.kF
			if b.sh.nilMark != "" {
				kF = b.marker(&mark{Name: b.sh.nilMark}, kF)
			}
			return b.effects(effectsOf(s), b.add(node{kind: "choice", nexts: []int{dual.kT, kF}}), c)
		}
		if cm, ok := b.commOf(s, k, c); ok {
			// operands of the receive itself carry no effects we track
			return b.add(node{kind: "comm", cases: cm, dflt: -1})
		}
		if as, ok := s.(*ast.AssignStmt); ok && b.sh != nil {
			for i, r := range as.Rhs {
				if _, ok := makeChanCap(r); ok && i < len(as.Lhs) {
					if _, isId := as.Lhs[i].(*ast.Ident); isId && !b.sh.declStmt[s] {
						fail(fset, as.Pos(), "make(chan) assigned to a variable outside a `:=` statement of a block: not supported")
					}
				}
			}
		}
		return b.effects(effectsOf(s), k, c)
	case *ast.SendStmt:
		if nm := b.chanOf(x.Chan, c); b.isTagged(nm) && b.sh.tagged[nm].Field == "" {
			if call, ok := x.Value.(*ast.CallExpr); ok {
				if fid, ok := call.Fun.(*ast.Ident); ok {
					if cl, ok := c.env.funcOf(fid.Name); ok && isErrClosure(cl) {
						// `ch <- f()`: the message is the error a local closure returns; its `return nil` / `return <non-nil>`
						// decide the half of the channel the message goes to
						nF := b.add(node{kind: "comm", cases: []comm{{true, chanID(nm), k}}, dflt: -1})
						nT := b.add(node{kind: "comm", cases: []comm{{true, chanID(b.sh.errChan(nm)), k}}, dflt: -1})
						nU := b.add(node{kind: "comm", cases: []comm{{true, chanID(nm), k}, {true, chanID(b.sh.errChan(nm)), k}}, dflt: -1})
						return b.inlineClosure(cl, call, nU, &dualK{kT: nT, kF: nF}, c)
					}
				}
			}
		}
		cm, _ := b.commOf(s, k, c)
		n := b.add(node{kind: "comm", cases: cm, dflt: -1})
		return b.effects(effectsOf(x.Value), n, c)
	case *ast.BlockStmt:
		return b.block(x.List, k, c)
	case *ast.LabeledStmt:
		// only loops / selects are labelled in this code base
		c2 := c
		c2.labels = map[string][2]int{}
		for l, v := range c.labels {
			c2.labels[l] = v
		}
		switch x.Stmt.(type) {
		case *ast.ForStmt, *ast.RangeStmt:
			return b.loop(x.Stmt, k, c2, x.Label.Name)
		}
		c2.labels[x.Label.Name] = [2]int{k, -1}
		return b.stmt(x.Stmt, k, c2)
	case *ast.ReturnStmt:
		var effs []effect
		for _, r := range x.Results {
			effs = append(effs, effectsOf(r)...)
		}
		if c.retT >= 0 && len(x.Results) == 1 {
			if id, ok := x.Results[0].(*ast.Ident); ok {
				if id.Name == "nil" {
					return c.retF
				}
				if v, known := c.facts[id.Name+" != nil"]; known {
					if v {
						return c.retT
					}
					return c.retF
				}
			}
		}
		return b.effects(effs, c.ret, c)
	case *ast.BranchStmt:
		switch x.Tok {
		case token.BREAK:
			if x.Label != nil {
				return c.labels[x.Label.Name][0]
			}
			if c.brk < 0 {
				fail(fset, x.Pos(), "break outside loop/select")
			}
			return c.brk
		case token.CONTINUE:
			if x.Label != nil {
				return c.labels[x.Label.Name][1]
			}
			if c.cont < 0 {
				fail(fset, x.Pos(), "continue outside loop")
			}
			return c.cont
		}
		fail(fset, x.Pos(), "unsupported branch statement %s", x.Tok)
	case *ast.IfStmt:
		// `if v := recover(); v != nil { A } [else B]` inside a deferred function
		if as, ok := x.Init.(*ast.AssignStmt); ok && len(as.Rhs) == 1 && isRecoverCall(as.Rhs[0]) {
			if c.recov == 0 {
				fail(fset, x.Pos(), "recover() outside a deferred function literal")
			}
			be, ok := x.Cond.(*ast.BinaryExpr)
			if !ok || be.Op != token.NEQ || len(as.Lhs) != 1 || b.p.src(be.X) != b.p.src(as.Lhs[0]) || b.p.src(be.Y) != "nil" {
				fail(fset, x.Pos(), "recover(): only `if v := recover(); v != nil {…}` is supported")
			}
			if c.recov == 1 { // no panic in flight: recover() returns nil
				if x.Else != nil {
					return b.stmt(x.Else, k, c)
				}
				return k
			}
			if b.sawRecover {
				fail(fset, x.Pos(), "variant P: second recover() in one deferred function")
			}
			b.sawRecover = true
			c2 := c
			c2.recov = 1
			return b.block(x.Body.List, k, c2)
		}
		if x.Init != nil && b.sh != nil {
			if _, _, ok := b.establishes(x.Init, c); ok {
				// `if init; cond {…}` is `{ init; if cond {…} }`: the block compiles the `if` once per truth value
				return b.block([]ast.Stmt{x.Init, &ast.IfStmt{If: x.If, Cond: x.Cond, Body: x.Body, Else: x.Else}}, k, c)
			}
		}
		cThen, cElse := c, c
		if b.sh != nil {
			if key, neg, xe, ok := b.nilCond(x.Cond); ok {
				if v, known := c.facts[key]; known && x.Init == nil {
					// a tracked condition whose truth value is fixed on this path
					if v != neg {
						return b.block(x.Body.List, k, c)
					}
					if x.Else != nil {
						return b.stmt(x.Else, k, c)
					}
					return k
				}
				// inside the branches the condition is known, as long as the variable is not assigned there
				if id, isId := xe.(*ast.Ident); isId {
					if !assignsTo(x.Body.List, id.Name) {
						cThen = c.withFact(key, !neg)
					}
					if x.Else != nil && !assignsTo([]ast.Stmt{x.Else}, id.Name) {
						cElse = c.withFact(key, neg)
					}
				}
			}
		}
		thenE := b.block(x.Body.List, k, cThen)
		elseE := k
		if x.Else != nil {
			elseE = b.stmt(x.Else, k, cElse)
		}
		ch := b.add(node{kind: "choice", nexts: []int{thenE, elseE}})
		n := b.effects(effectsOf(x.Cond), ch, c)
		return b.stmt(x.Init, n, c)
	case *ast.SwitchStmt, *ast.TypeSwitchStmt:
		var body *ast.BlockStmt
		var init ast.Stmt
		var tag ast.Node
		if sw, ok := x.(*ast.SwitchStmt); ok {
			body, init, tag = sw.Body, sw.Init, sw.Tag
		} else {
			ts := x.(*ast.TypeSwitchStmt)
			body, init, tag = ts.Body, ts.Init, ts.Assign
		}
		c2 := c
		c2.brk = k
		var nexts []int
		hasDefault := false
		for _, cl := range body.List {
			cc := cl.(*ast.CaseClause)
			if cc.List == nil {
				hasDefault = true
			}
			for _, st := range cc.Body {
				if br, ok := st.(*ast.BranchStmt); ok && br.Tok == token.FALLTHROUGH {
					fail(fset, br.Pos(), "fallthrough not supported")
				}
			}
			nexts = append(nexts, b.block(cc.Body, k, c2))
		}
		if !hasDefault {
			nexts = append(nexts, k)
		}
		ch := b.add(node{kind: "choice", nexts: nexts})
		var n int
		if tag != nil {
			n = b.effects(effectsOf(tag), ch, c)
		} else {
			n = ch
		}
		return b.stmt(init, n, c)
	case *ast.ForStmt, *ast.RangeStmt:
		return b.loop(s, k, c, "")
	case *ast.SelectStmt:
		c2 := c
		c2.brk = k
		nd := node{kind: "comm", dflt: -1}
		for _, cl := range x.Body.List {
			cc := cl.(*ast.CommClause)
			if cc.Comm != nil && dual != nil {
				if nm, _, ok := b.taggedRecv(cc.Comm, c); ok {
					// `case x = <-ch:` on a tagged channel: one case per half, each with its own continuation
					if assignsTo(cc.Body, dual.v) {
						fail(fset, cc.Pos(), "tracked variable %s is assigned again in the select clause: not supported", dual.v)
					}
					cF, cT := c2.withFact(dual.fact, false), c2.withFact(dual.fact, true)
					cF.brk, cT.brk = dual.kF, dual.kT
					nd.cases = append(nd.cases, comm{false, chanID(nm), b.block(cc.Body, dual.kF, cF)},
						comm{false, chanID(b.sh.errChan(nm)), b.block(cc.Body, dual.kT, cT)})
					continue
				}
			}
			body := b.block(cc.Body, k, c2)
			if cc.Comm == nil {
				nd.dflt = body
				continue
			}
			if b.sh != nil && len(b.sh.marks) > 0 {
				if m := b.markOf(b.p.src(cc.Comm), true); m != nil {
					body = b.marker(m, body)
				}
			}
			cm, ok := b.commOf(cc.Comm, body, c)
			if !ok {
				fail(fset, cc.Pos(), "unsupported select case")
			}
			if ss, ok := cc.Comm.(*ast.SendStmt); ok && b.sh != nil {
				for _, e := range effectsOf(ss.Value) {
					for _, key := range b.p.byNm[e.call] {
						if b.eff[key] {
							fail(fset, cc.Pos(), "value sent in a select case calls %s which can reach a channel operation: not supported", e.call)
						}
					}
					if e.recv != "" {
						fail(fset, cc.Pos(), "value sent in a select case has a channel operation: not supported")
					}
				}
			}
			nd.cases = append(nd.cases, cm...)
		}
		return b.add(nd)
	case *ast.GoStmt:
		if b.sh == nil || !b.sh.allowGo {
			fail(fset, x.Pos(), "go statement inside a target is not supported")
		}
		return b.spawn(x, k, c)
	case *ast.DeferStmt:
		fail(fset, x.Pos(), "defer that is not at the top level of its function body is not supported")
	}
	fail(fset, s.Pos(), "unsupported statement %T", s)
	return k
}

// spawn: `go func(){…}()` becomes a process of its own that waits at its entry for the spawn signal: a private
// channel `start:…` that the spawner CLOSES at the go statement (a second execution of the same go statement would be
// a double close, i.e. `bad`: so `noPanic` includes "every go statement runs at most once", which is what makes one
// process per go statement exact).
func (b *builder) spawn(x *ast.GoStmt, k int, c ctx) int {
	fset := b.p.fset
	var lit *ast.FuncLit
	env := c.env
	switch f := x.Call.Fun.(type) {
	case *ast.FuncLit:
		lit = f
	case *ast.Ident:
		if cl, ok := c.env.funcOf(f.Name); ok {
			lit, env = cl.lit, cl.env
		}
	}
	if lit == nil || len(x.Call.Args) != 0 {
		fail(fset, x.Pos(), "go statement: only `go func(){…}()` / `go f()` with f a local closure, without arguments, is supported")
	}
	line := fset.Position(x.Pos()).Line
	path := c.inst + fmt.Sprintf("@go%d", line)
	start := "start:" + c.fn + path
	b.sh.localKinds[start] = "start"
	nb := &builder{p: b.p, eff: b.eff, inline: b.inline, opaque: b.opaque, tname: b.tname, sh: b.sh, marks: map[string][]int{}, depth: b.depth}
	nb.curLine = line
	halt := nb.add(node{kind: "halt"})
	c2 := newCtx(halt)
	c2.env, c2.fn, c2.inst = env.child(), c.fn, path
	body := nb.funcBody(lit.Body, halt, c2)
	entry := nb.add(node{kind: "comm", cases: []comm{{false, chanID(start), body}}, dflt: -1, line: line})
	at := b.add(node{kind: "close", ch: chanID(start), next: k, once: "go statement at line " + strconv.Itoa(line), line: line})
	b.sh.spawned = append(b.sh.spawned, &spawnOut{b: nb, entry: entry, pos: x.Pos(), path: path, start: start, by: b, at: at})
	return at
}

// rangeChan: is `for range X` a receive loop, and on which channel
func (b *builder) rangeChan(e ast.Expr, c ctx) (string, bool) {
	if b.sh == nil {
		return "", false
	}
	if id, ok := e.(*ast.Ident); ok {
		if nm, ok := c.env.chanOf(id.Name); ok {
			return nm, true
		}
	}
	switch e.(type) {
	case *ast.Ident, *ast.SelectorExpr:
		if nm := chanName(e); b.sh.knownChans[nm] {
			return nm, true
		}
	}
	return "", false
}

func (b *builder) loop(s ast.Stmt, k int, c ctx, label string) int {
	head := b.add(node{kind: "choice"}) // patched below
	c2 := c
	c2.brk, c2.cont = k, head
	c2.labels = map[string][2]int{}
	for l, v := range c.labels {
		c2.labels[l] = v
	}
	if label != "" {
		c2.labels[label] = [2]int{k, head}
	}
	switch x := s.(type) {
	case *ast.ForStmt:
		post := head
		if x.Post != nil {
			post = b.stmt(x.Post, head, c)
			c2.cont = post
			if label != "" {
				c2.labels[label] = [2]int{k, post}
			}
		}
		body := b.block(x.Body.List, post, c2)
		if x.Cond == nil {
			b.nodes[head] = node{kind: "choice", nexts: []int{body}}
		} else {
			condE := b.effects(effectsOf(x.Cond), -2, c)
			if condE != -2 {
				fail(b.p.fset, x.Pos(), "loop condition with channel effects is not supported")
			}
			b.nodes[head] = node{kind: "choice", nexts: []int{body, k}}
		}
		return b.stmt(x.Init, head, c)
	case *ast.RangeStmt:
		if nm, ok := b.rangeChan(x.X, c); ok {
			// `for range ch`: receive until ch is closed and empty
			body := b.block(x.Body.List, head, c2)
			line := b.p.fset.Position(x.Pos()).Line
			if b.isTagged(nm) {
				// both halves: drain the first until it is closed and empty, then the second (an item of the second half
				// sends control back to the head, which falls through the first half again)
				second := b.add(node{kind: "range", ch: chanID(b.sh.errChan(nm)), next: body, next2: k, line: line})
				b.nodes[head] = node{kind: "range", ch: chanID(nm), next: body, next2: second, line: line}
				return head
			}
			b.nodes[head] = node{kind: "range", ch: chanID(nm), next: body, next2: k, line: line}
			return head
		}
		body := b.block(x.Body.List, head, c2)
		b.nodes[head] = node{kind: "choice", nexts: []int{body, k}}
		return b.effects(effectsOf(x.X), head, c)
	}
	return head
}

// ---------------------------------------------------------------------------------------------------------------
// post-processing of a CFG: run-at-most-once check, removal of skip nodes

func succsOf(n node) []int {
	switch n.kind {
	case "comm":
		var out []int
		for _, c := range n.cases {
			out = append(out, c.next)
		}
		if n.dflt >= 0 {
			out = append(out, n.dflt)
		}
		return out
	case "close":
		return []int{n.next}
	case "choice":
		return n.nexts
	case "range":
		return []int{n.next, n.next2}
	}
	return nil
}

// onCycle: can control come back to node i
func onCycle(nodes []node, i int) bool {
	seen := map[int]bool{}
	work := append([]int{}, succsOf(nodes[i])...)
	for len(work) > 0 {
		x := work[len(work)-1]
		work = work[:len(work)-1]
		if x == i {
			return true
		}
		if x < 0 || x >= len(nodes) || seen[x] {
			continue
		}
		seen[x] = true
		work = append(work, succsOf(nodes[x])...)
	}
	return false
}

// fuseBranches: also fuse data-dependent branches into the communication that precedes them (flag -fuse)
var fuseBranches = true

// compress removes skip nodes (`choice` with one distinct successor) that carry no mark, drops unreachable nodes and
// renumbers; the entry and the marks are mapped along. Halt nodes keep their relative order.
func compress(nodes []node, entry int, marks map[string][]int, keep []int) ([]node, int, map[string][]int, []int) {
	protected := map[int]bool{}
	for _, ns := range marks {
		for _, n := range ns {
			protected[n] = true
		}
	}
	distinct := func(xs []int) []int {
		var out []int
		seen := map[int]bool{}
		for _, x := range xs {
			if !seen[x] {
				seen[x] = true
				out = append(out, x)
			}
		}
		return out
	}
	var resolve func(x int, depth int) int
	resolve = func(x int, depth int) int {
		for depth < len(nodes)+1 {
			n := nodes[x]
			if n.kind != "choice" || protected[x] {
				return x
			}
			var ds []int
			for _, y := range n.nexts {
				ds = append(ds, y)
			}
			ds = distinct(ds)
			if len(ds) != 1 || ds[0] == x {
				return x
			}
			x = ds[0]
			depth++
		}
		return x
	}
	for changed := true; changed; {
		changed = false
		for i := range nodes {
			n := &nodes[i]
			upd := func(p *int) {
				if *p >= 0 {
					if r := resolve(*p, 0); r != *p {
						*p = r
						changed = true
					}
				}
			}
			switch n.kind {
			case "comm":
				for j := range n.cases {
					upd(&n.cases[j].next)
				}
				upd(&n.dflt)
			case "close":
				upd(&n.next)
			case "range":
				upd(&n.next)
				upd(&n.next2)
			case "choice":
				for j := range n.nexts {
					upd(&n.nexts[j])
				}
				if d := distinct(n.nexts); len(d) != len(n.nexts) {
					n.nexts = d
					changed = true
				}
			}
		}
	}
	entry = resolve(entry, 0)
	// fuse data-dependent branches into the communication that precedes them: a select case (or a branch) that leads to an
	// unmarked `choice [a, b, …]` becomes one case (branch) per successor. The branch is local and invisible to the other
	// goroutines, so this only removes the intermediate program counter.
	fusable := func(x int, self int) bool {
		if x < 0 || x == self || protected[x] || nodes[x].kind != "choice" || len(nodes[x].nexts) == 0 {
			return false
		}
		for _, y := range nodes[x].nexts {
			if y == x {
				return false
			}
		}
		return true
	}
	for round := 0; fuseBranches && round < 4*len(nodes)+4; round++ {
		changed := false
		for i := range nodes {
			n := &nodes[i]
			switch n.kind {
			case "comm":
				var cs []comm
				for _, c := range n.cases {
					if fusable(c.next, i) {
						for _, y := range nodes[c.next].nexts {
							cs = append(cs, comm{c.send, c.ch, y})
						}
						changed = true
					} else {
						cs = append(cs, c)
					}
				}
				// drop duplicates
				var ds []comm
				for _, c := range cs {
					dup := false
					for _, d := range ds {
						if d == c {
							dup = true
						}
					}
					if !dup {
						ds = append(ds, c)
					}
				}
				n.cases = ds
			case "choice":
				var ns []int
				for _, x := range n.nexts {
					if fusable(x, i) {
						ns = append(ns, nodes[x].nexts...)
						changed = true
					} else {
						ns = append(ns, x)
					}
				}
				n.nexts = distinct(ns)
			}
		}
		if !changed {
			break
		}
	}
	// reachable nodes
	reach := map[int]bool{}
	work := []int{entry}
	for len(work) > 0 {
		x := work[len(work)-1]
		work = work[:len(work)-1]
		if reach[x] {
			continue
		}
		reach[x] = true
		work = append(work, succsOf(nodes[x])...)
	}
	for _, h := range keep {
		reach[h] = true
	}
	remap := map[int]int{}
	var out []node
	for i, n := range nodes {
		if reach[i] {
			remap[i] = len(out)
			out = append(out, n)
		}
	}
	for i := range out {
		n := &out[i]
		switch n.kind {
		case "comm":
			cs := make([]comm, len(n.cases))
			for j, c := range n.cases {
				cs[j] = comm{c.send, c.ch, remap[c.next]}
			}
			n.cases = cs
			if n.dflt >= 0 {
				n.dflt = remap[n.dflt]
			}
		case "close":
			n.next = remap[n.next]
		case "range":
			n.next, n.next2 = remap[n.next], remap[n.next2]
		case "choice":
			ns := make([]int, len(n.nexts))
			for j, x := range n.nexts {
				ns[j] = remap[x]
			}
			n.nexts = ns
		}
	}
	newMarks := map[string][]int{}
	for nm, ns := range marks {
		for _, x := range ns {
			if reach[x] {
				newMarks[nm] = append(newMarks[nm], remap[x])
			}
		}
	}
	var newKeep []int
	for _, h := range keep {
		newKeep = append(newKeep, remap[h])
	}
	return out, remap[entry], newMarks, newKeep
}

// ---------------------------------------------------------------------------------------------------------------
// census

type censusRow struct{ ch, fn, op string }

func (p *pkg) census() (rows []censusRow, makes map[string][]string) {
	makes = map[string][]string{}
	seen := map[censusRow]bool{}
	addRow := func(r censusRow) {
		if !seen[r] {
			seen[r] = true
			rows = append(rows, r)
		}
	}
	capOf := func(c *ast.CallExpr) (string, bool) {
		if id, ok := c.Fun.(*ast.Ident); !ok || id.Name != "make" || len(c.Args) == 0 {
			return "", false
		}
		if _, ok := c.Args[0].(*ast.ChanType); !ok {
			return "", false
		}
		if len(c.Args) == 1 {
			return "0", true
		}
		if bl, ok := c.Args[1].(*ast.BasicLit); ok {
			return bl.Value, true
		}
		return "dynamic", true
	}
	keys := make([]string, 0, len(p.funcs))
	for k := range p.funcs {
		keys = append(keys, k)
	}
	sort.Strings(keys)
	for _, key := range keys {
		fd := p.funcs[key]
		ast.Inspect(fd.Body, func(n ast.Node) bool {
			switch x := n.(type) {
			case *ast.SendStmt:
				addRow(censusRow{chanName(x.Chan), key, "send"})
			case *ast.UnaryExpr:
				if x.Op == token.ARROW {
					addRow(censusRow{chanName(x.X), key, "recv"})
				}
			case *ast.CallExpr:
				if id, ok := x.Fun.(*ast.Ident); ok && id.Name == "close" && len(x.Args) == 1 {
					addRow(censusRow{chanName(x.Args[0]), key, "close"})
				}
			case *ast.KeyValueExpr:
				if c, ok := x.Value.(*ast.CallExpr); ok {
					if cp, ok := capOf(c); ok {
						nm := chanName(x.Key)
						makes[nm] = append(makes[nm], cp)
						addRow(censusRow{nm, key, "make " + cp})
					}
				}
			case *ast.AssignStmt:
				for i, r := range x.Rhs {
					if i >= len(x.Lhs) {
						break
					}
					if c, ok := r.(*ast.CallExpr); ok {
						if cp, ok := capOf(c); ok {
							nm := chanName(x.Lhs[i])
							makes[nm] = append(makes[nm], cp)
							addRow(censusRow{nm, key, "make " + cp})
						}
					}
					if id, ok := r.(*ast.Ident); ok && id.Name == "nil" {
						nm := chanName(x.Lhs[i])
						if strings.HasSuffix(nm, "Ch") {
							addRow(censusRow{nm, key, "nil"})
						}
					}
				}
			case *ast.ValueSpec:
				for i, r := range x.Values {
					if c, ok := r.(*ast.CallExpr); ok && i < len(x.Names) {
						if cp, ok := capOf(c); ok {
							makes[x.Names[i].Name] = append(makes[x.Names[i].Name], cp)
							addRow(censusRow{x.Names[i].Name, key, "make " + cp})
						}
					}
				}
			}
			return true
		})
	}
	sort.Slice(rows, func(i, j int) bool {
		a, b := rows[i], rows[j]
		if a.ch != b.ch {
			return a.ch < b.ch
		}
		if a.fn != b.fn {
			return a.fn < b.fn
		}
		return a.op < b.op
	})
	return
}

// ---------------------------------------------------------------------------------------------------------------
// timing facts: Go duration arithmetic -> Lean Nat expression

func (p *pkg) leanExpr(e ast.Expr, vars map[string]string) string {
	switch x := e.(type) {
	case *ast.ParenExpr:
		return "(" + p.leanExpr(x.X, vars) + ")"
	case *ast.BasicLit:
		if x.Kind == token.INT {
			return x.Value
		}
	case *ast.Ident:
		if v, ok := vars[x.Name]; ok {
			return v
		}
	case *ast.SelectorExpr:
		if id, ok := x.X.(*ast.Ident); ok && id.Name == "time" {
			switch x.Sel.Name {
			case "Nanosecond":
				return "1"
			case "Microsecond":
				return "1000"
			case "Millisecond":
				return "1000000"
			case "Second":
				return "1000000000"
			}
		}
		if v, ok := vars["."+x.Sel.Name]; ok {
			return v
		}
	case *ast.CallExpr:
		// conversions time.Duration(x), uint64(x), int64(x)
		if len(x.Args) == 1 {
			switch calleeName(x) {
			case "Duration", "uint64", "int64":
				return p.leanExpr(x.Args[0], vars)
			}
		}
		if len(x.Args) == 0 {
			if v, ok := vars[calleeName(x)+"()"]; ok {
				return v
			}
		}
	case *ast.BinaryExpr:
		op := ""
		switch x.Op {
		case token.ADD:
			op = "+"
		case token.SUB:
			op = "-"
		case token.MUL:
			op = "*"
		case token.QUO:
			op = "/"
		case token.REM:
			op = "%"
		}
		if op != "" {
			return "(" + p.leanExpr(x.X, vars) + " " + op + " " + p.leanExpr(x.Y, vars) + ")"
		}
	}
	fail(p.fset, e.Pos(), "timing expression not understood")
	return ""
}

// findCall returns the argument expressions of every call to `callee` (by name) in function key, in source order
func (p *pkg) findCalls(key, callee string) [][]ast.Expr {
	fd := p.funcs[key]
	if fd == nil {
		fmt.Fprintf(os.Stderr, "astfacts: function %s not found\n", key)
		os.Exit(2)
	}
	var out [][]ast.Expr
	ast.Inspect(fd.Body, func(n ast.Node) bool {
		if c, ok := n.(*ast.CallExpr); ok && calleeName(c) == callee {
			out = append(out, c.Args)
		}
		return true
	})
	return out
}

func (p *pkg) constExpr(name string) ast.Expr {
	for _, f := range p.files {
		for _, d := range f.Decls {
			gd, ok := d.(*ast.GenDecl)
			if !ok || gd.Tok != token.CONST {
				continue
			}
			for _, sp := range gd.Specs {
				vs := sp.(*ast.ValueSpec)
				for i, n := range vs.Names {
					if n.Name == name && i < len(vs.Values) {
						return vs.Values[i]
					}
				}
			}
		}
	}
	fmt.Fprintf(os.Stderr, "astfacts: constant %s not found\n", name)
	os.Exit(2)
	return nil
}

// ---------------------------------------------------------------------------------------------------------------

func leanNode(n node) string {
	switch n.kind {
	case "comm":
		var cs []string
		for _, c := range n.cases {
			cs = append(cs, fmt.Sprintf("⟨%v, %d, %d⟩", c.send, c.ch, c.next))
		}
		d := "none"
		if n.dflt >= 0 {
			d = fmt.Sprintf("(some %d)", n.dflt)
		}
		return fmt.Sprintf("Node.comm [%s] %s", strings.Join(cs, ", "), d)
	case "close":
		return fmt.Sprintf("Node.close %d %d", n.ch, n.next)
	case "range":
		return fmt.Sprintf("Node.recvOrClosed %d %d %d", n.ch, n.next, n.next2)
	case "choice":
		var ns []string
		for _, x := range n.nexts {
			ns = append(ns, strconv.Itoa(x))
		}
		return fmt.Sprintf("Node.choice [%s]", strings.Join(ns, ", "))
	}
	return "Node.halt"
}

func main() {
	repo := flag.String("repo", "/repo", "library source")
	out := flag.String("out", "", "generated Lean file")
	what := flag.String("what", "skel", "skel: channel skeletons and census; timing: timing facts")
	flag.BoolVar(&fuseBranches, "fuse", true, "multi-goroutine targets: fuse data-dependent branches into the preceding communication (fewer program counters)")
	flag.Parse()
	p := load(*repo)
	eff := p.effectful()

	var sb strings.Builder
	sb.WriteString("-- GENERATED by /verif/go/astfacts from the Go source on every run of ./check. Do not edit.\n")
	if *what == "timer" {
		sb.WriteString("\nnamespace Raft.Gen\n\n")
		p.timerFacts(&sb)
		sb.WriteString("end Raft.Gen\n")
		write(*out, sb.String())
		return
	}
	if *what == "order" {
		sb.WriteString("\nnamespace Raft.Gen\n\n")
		p.orderFacts(&sb)
		sb.WriteString("end Raft.Gen\n")
		write(*out, sb.String())
		return
	}
	if *what == "timing" {
		sb.WriteString("\nnamespace Raft.Gen\n\n")
		p.timing(&sb)
		sb.WriteString("end Raft.Gen\n")
		write(*out, sb.String())
		return
	}
	sb.WriteString("import RaftGen.Chan.Model\n\nnamespace Raft.Gen\nopen Raft.Chan\n\n")

	// fixed channel numbering for the channels the targets use
	for _, nm := range []string{"leaderUpdateCh", "stopCh", "replUpdateCh", "timer", "fsmRestoredCh", "snapTakenCh", "close"} {
		chanID(nm)
	}

	type procOut struct {
		t      target
		nodes  []node
		entry  int
		opaque []string
	}
	var procs []procOut
	for _, t := range targets {
		fd := p.funcs[strings.TrimPrefix(t.Func, "go:")]
		if fd == nil {
			fmt.Fprintf(os.Stderr, "astfacts: target %s not found\n", t.Func)
			os.Exit(2)
		}
		body := fd.Body.List
		if strings.HasPrefix(t.Func, "go:") {
			body = nil
			ast.Inspect(fd.Body, func(n ast.Node) bool {
				if g, ok := n.(*ast.GoStmt); ok && body == nil {
					if fl, ok := g.Call.Fun.(*ast.FuncLit); ok {
						body = fl.Body.List
					}
				}
				return body == nil
			})
			if body == nil {
				fmt.Fprintf(os.Stderr, "astfacts: %s starts no goroutine with a function literal\n", t.Func)
				os.Exit(2)
			}
		}
		b := &builder{p: p, eff: eff, inline: map[string]bool{}, opaque: map[string]bool{}, tname: t.Name, marks: map[string][]int{}}
		for _, i := range t.Inline {
			b.inline[i] = true
		}
		halt := b.add(node{kind: "halt"})
		entry := b.block(body, halt, newCtx(halt))
		var op []string
		for k := range b.opaque {
			op = append(op, k)
		}
		sort.Strings(op)
		procs = append(procs, procOut{t, b.nodes, entry, op})
	}

	census, makes := p.census()

	// the multi-goroutine targets (they may add channels: the legacy numbering above stays a prefix)
	legacyChans := append([]string{}, chanNames...)
	known := map[string]bool{}
	for nm := range makes {
		known[nm] = true
	}
	canPanic := p.reaches("panic")
	var pipes []*pipeOut
	for _, t := range pipeTargets {
		pipes = append(pipes, p.pipeline(t, eff, canPanic, known))
	}
	allChans := append([]string{}, chanNames...)
	chanNames = legacyChans

	sb.WriteString("/-- channel numbering used by the skeletons below -/\n")
	sb.WriteString("def chanNames : List String := [")
	for i, n := range chanNames {
		if i > 0 {
			sb.WriteString(", ")
		}
		sb.WriteString(strconv.Quote(n))
	}
	sb.WriteString("]\n\n")
	sb.WriteString("/-- kinds from the `make(chan …)` sites of the package (`timer` = a time.Timer / time.After channel) -/\n")
	sb.WriteString("def kinds : List Kind := [")
	for i, n := range chanNames {
		if i > 0 {
			sb.WriteString(", ")
		}
		if n == "timer" {
			sb.WriteString(".external")
			continue
		}
		caps := makes[n]
		if len(caps) == 0 {
			fmt.Fprintf(os.Stderr, "astfacts: no make(chan) site found for channel %s\n", n)
			os.Exit(2)
		}
		c0 := caps[0]
		for _, c := range caps {
			if c != c0 {
				fmt.Fprintf(os.Stderr, "astfacts: channel %s is made with different capacities %v\n", n, caps)
				os.Exit(2)
			}
		}
		switch c0 {
		case "0":
			sb.WriteString(".sync")
		case "dynamic":
			fmt.Fprintf(os.Stderr, "astfacts: channel %s has a non-constant capacity\n", n)
			os.Exit(2)
		default:
			sb.WriteString(".buffered " + c0)
		}
	}
	sb.WriteString("]\n\n")

	for _, po := range procs {
		fmt.Fprintf(&sb, "/-- channel skeleton of `%s` (one call; `halt` = return) -/\n", po.t.Func)
		fmt.Fprintf(&sb, "def %s : Proc := { name := %s, entry := %d, code := [\n", po.t.Name, strconv.Quote(po.t.Func), po.entry)
		for i, n := range po.nodes {
			sep := ","
			if i == len(po.nodes)-1 {
				sep = ""
			}
			fmt.Fprintf(&sb, "    %s%s  -- %d\n", leanNode(n), sep, i)
		}
		sb.WriteString("  ] }\n")
		fmt.Fprintf(&sb, "/-- callees of `%s` that can reach a channel operation and are NOT inlined above -/\n", po.t.Func)
		fmt.Fprintf(&sb, "def %s_opaque : List String := [", po.t.Name)
		for i, o := range po.opaque {
			if i > 0 {
				sb.WriteString(", ")
			}
			sb.WriteString(strconv.Quote(o))
		}
		sb.WriteString("]\n\n")
	}

	for _, po := range pipes {
		po.emit(&sb, p, allChans, makes)
	}

	for _, nm := range []string{"leaderUpdateCh", "replUpdateCh", "stopCh", "fsmRestoredCh", "snapTakenCh"} {
		fmt.Fprintf(&sb, "/-- every operation on a channel named `%s` in the package: (function, operation) -/\n", nm)
		fmt.Fprintf(&sb, "def ops_%s : List (String × String) := [", nm)
		first := true
		for _, r := range census {
			if r.ch != nm {
				continue
			}
			if !first {
				sb.WriteString(", ")
			}
			first = false
			fmt.Fprintf(&sb, "(%s, %s)", strconv.Quote(r.fn), strconv.Quote(r.op))
		}
		sb.WriteString("]\n\n")
	}
	// which channel is handed to the fsm goroutine inside a restore request (the field `err` of fsmRestoreReq)
	var rr []string
	for _, f := range p.files {
		ast.Inspect(f, func(n ast.Node) bool {
			if cl, ok := n.(*ast.CompositeLit); ok {
				if id, ok := cl.Type.(*ast.Ident); ok && id.Name == "fsmRestoreReq" {
					for _, e := range cl.Elts {
						if kv, ok := e.(*ast.KeyValueExpr); ok {
							e = kv.Value
						}
						rr = append(rr, chanName(e))
					}
				}
			}
			return true
		})
	}
	sb.WriteString("/-- the channel put into every `fsmRestoreReq{…}` literal of the package (the fsm goroutine answers on it: `t.err <- err`) -/\n")
	sb.WriteString("def restoreReqChans : List String := [")
	for i, x := range rr {
		if i > 0 {
			sb.WriteString(", ")
		}
		sb.WriteString(strconv.Quote(x))
	}
	sb.WriteString("]\n\n")
	sb.WriteString("/-- every channel operation of the package: (channel, function, operation) -/\n")
	sb.WriteString("def census : List (String × String × String) := [\n")
	for i, r := range census {
		sep := ","
		if i == len(census)-1 {
			sep = ""
		}
		fmt.Fprintf(&sb, "    (%s, %s, %s)%s\n", strconv.Quote(r.ch), strconv.Quote(r.fn), strconv.Quote(r.op), sep)
	}
	sb.WriteString("  ]\n\n")

	sb.WriteString("end Raft.Gen\n")

	write(*out, sb.String())
}

func write(out, text string) {
	if out == "" {
		fmt.Print(text)
		return
	}
	if err := os.MkdirAll(filepath.Dir(out), 0755); err != nil {
		fmt.Fprintln(os.Stderr, err)
		os.Exit(2)
	}
	if err := os.WriteFile(out, []byte(text), 0644); err != nil {
		fmt.Fprintln(os.Stderr, err)
		os.Exit(2)
	}
}

func (p *pkg) timing(sb *strings.Builder) {
	// ---- timing facts
	hbVars := map[string]string{".hbTimeout": "hb"}
	bo := p.findCalls("replication.runLoop", "backOff")
	if len(bo) != 1 || len(bo[0]) != 2 {
		fmt.Fprintf(os.Stderr, "astfacts: expected exactly one backOff(round, max) call in replication.runLoop, found %d\n", len(bo))
		os.Exit(2)
	}
	fmt.Fprintf(sb, "/-- replication.runLoop: the bound passed to backOff for the retry timer, as a function of the heartbeat timeout (ns) -/\n")
	fmt.Fprintf(sb, "def retryMax (hb : Nat) : Nat := %s\n\n", p.leanExpr(bo[0][1], hbVars))

	// idle heartbeat: checkLeaderUpdate r.timer.reset(E)
	rs := p.findCalls("replication.checkLeaderUpdate", "reset")
	if len(rs) != 1 || len(rs[0]) != 1 {
		fmt.Fprintf(os.Stderr, "astfacts: expected exactly one timer.reset call in replication.checkLeaderUpdate, found %d\n", len(rs))
		os.Exit(2)
	}
	fmt.Fprintf(sb, "/-- replication.checkLeaderUpdate: the idle heartbeat period -/\n")
	fmt.Fprintf(sb, "def heartbeatPeriod (hb : Nat) : Nat := %s\n\n", p.leanExpr(rs[0][0], hbVars))

	// election timers: follower.go / candidate.go rtime.duration(E)
	var elect []string
	for _, fn := range []string{"follower.init", "follower.resetTimer", "follower.onTimeout", "candidate.startElection"} {
		if p.funcs[fn] == nil {
			continue
		}
		for _, a := range p.findCalls(fn, "duration") {
			if len(a) == 1 {
				elect = append(elect, "fun hb => "+p.leanExpr(a[0], hbVars))
			}
		}
	}
	// any other function of follower.go / candidate.go calling rtime.duration
	keys := make([]string, 0)
	for k := range p.funcs {
		if strings.HasPrefix(k, "follower.") || strings.HasPrefix(k, "candidate.") {
			keys = append(keys, k)
		}
	}
	sort.Strings(keys)
	elect = nil
	var electSites []string
	for _, k := range keys {
		for _, a := range p.findCalls(k, "duration") {
			if len(a) == 1 {
				elect = append(elect, "fun hb => "+p.leanExpr(a[0], hbVars))
				electSites = append(electSites, k)
			}
		}
	}
	if len(elect) == 0 {
		fmt.Fprintln(os.Stderr, "astfacts: no election timer site (rtime.duration) found in follower/candidate")
		os.Exit(2)
	}
	fmt.Fprintf(sb, "/-- the minimum handed to randTime.duration at every election-timer site (%s) -/\n", strings.Join(electSites, ", "))
	fmt.Fprintf(sb, "def electionArgs : List (Nat → Nat) := [%s]\n\n", strings.Join(elect, ", "))

	// randTime.duration body: single return expression
	dfd := p.funcs["randTime.duration"]
	if dfd == nil || len(dfd.Body.List) != 1 {
		fmt.Fprintln(os.Stderr, "astfacts: randTime.duration is not a single return statement")
		os.Exit(2)
	}
	ret, ok := dfd.Body.List[0].(*ast.ReturnStmt)
	if !ok || len(ret.Results) != 1 {
		fmt.Fprintln(os.Stderr, "astfacts: randTime.duration is not a single return statement")
		os.Exit(2)
	}
	pname := dfd.Type.Params.List[0].Names[0].Name
	fmt.Fprintf(sb, "/-- randTime.duration(min) with the random draw `x` (rt.r.Int63()) made explicit -/\n")
	fmt.Fprintf(sb, "def randDuration (min x : Nat) : Nat := %s\n\n", p.leanExpr(ret.Results[0], map[string]string{pname: "min", "Int63()": "x"}))

	// write deadline: replication.deadlineSize
	df := p.findCalls("replication.deadlineSize", "durationFor")
	if len(df) != 1 || len(df[0]) != 2 {
		fmt.Fprintf(os.Stderr, "astfacts: expected exactly one durationFor(bandwidth, n) call in replication.deadlineSize, found %d\n", len(df))
		os.Exit(2)
	}
	dsfd := p.funcs["replication.deadlineSize"]
	sizeName := dsfd.Type.Params.List[0].Names[0].Name
	dv := map[string]string{".bandwidth": "bw", sizeName: "size", ".hbTimeout": "hb"}
	fmt.Fprintf(sb, "/-- replication.deadlineSize: the arguments handed to durationFor(bandwidth, n), as functions of the declared bandwidth and the payload size -/\n")
	fmt.Fprintf(sb, "def deadlineArgs (bw size : Nat) : Nat × Nat := (%s, %s)\n\n", p.leanExpr(df[0][0], dv), p.leanExpr(df[0][1], dv))
	// the floor: `if timeout < E { timeout = E }`
	floor := ""
	ast.Inspect(dsfd.Body, func(n ast.Node) bool {
		if is, ok := n.(*ast.IfStmt); ok && is.Else == nil && len(is.Body.List) == 1 {
			if be, ok := is.Cond.(*ast.BinaryExpr); ok && be.Op == token.LSS {
				if as, ok := is.Body.List[0].(*ast.AssignStmt); ok && len(as.Lhs) == 1 && len(as.Rhs) == 1 &&
					p.src(as.Lhs[0]) == p.src(be.X) && p.src(as.Rhs[0]) == p.src(be.Y) {
					floor = p.leanExpr(be.Y, dv)
				}
			}
		}
		return true
	})
	if floor == "" {
		fmt.Fprintln(os.Stderr, "astfacts: replication.deadlineSize has no `if timeout < E { timeout = E }` floor")
		os.Exit(2)
	}
	fmt.Fprintf(sb, "/-- replication.deadlineSize: the minimum write timeout -/\ndef deadlineFloor (hb : Nat) : Nat := %s\n\n", floor)
	fmt.Fprintf(sb, "/-- the whole body of replication.deadlineSize and of util.go durationFor, whitespace normalised -/\n")
	fmt.Fprintf(sb, "def deadlineSizeSrc : String := %s\n", strconv.Quote(p.src(dsfd.Body)))
	if p.funcs["durationFor"] == nil {
		fmt.Fprintln(os.Stderr, "astfacts: durationFor not found")
		os.Exit(2)
	}
	fmt.Fprintf(sb, "def durationForSrc : String := %s\n\n", strconv.Quote(p.src(p.funcs["durationFor"].Type)+" "+p.src(p.funcs["durationFor"].Body)))

	fmt.Fprintf(sb, "/-- util.go constants -/\ndef failureWait : Nat := %s\n", p.leanExpr(p.constExpr("failureWait"), nil))
	fmt.Fprintf(sb, "def maxFailureScale : Nat := %s\n\n", p.leanExpr(p.constExpr("maxFailureScale"), nil))

}

// ---------------------------------------------------------------------------------------------------------------
// safeTimer protocol facts

var wsRe = regexp.MustCompile(`\s+`)

func (p *pkg) src(n ast.Node) string {
	var b bytes.Buffer
	_ = printer.Fprint(&b, p.fset, n)
	return strings.TrimSpace(wsRe.ReplaceAllString(b.String(), " "))
}

// timerFacts: every receive from a safeTimer channel (`X.C`, or an alias variable assigned from `X.C`) that is the
// communication of a select clause or a statement of its own, with whether the statement that follows at once is
// `X.active = false`; and the source text of safeTimer.stop / reset / newSafeTimer.
// orderFacts: the order in which candidate.startElection persists its self vote, builds the vote request and starts
// the goroutines that send it (C05: "whenever a vote ... is already durable"; a candidate must not ask for votes in a
// term its disk does not hold yet). Events in source order: persist k = setVotedFor(c.term+k, ..) / setTerm(c.term+k);
// mkreq k = voteReq{req: req{c.term+k, ..}}; spawn = a go statement.
func (p *pkg) orderFacts(sb *strings.Builder) {
	fd := p.funcs["candidate.startElection"]
	if fd == nil {
		fmt.Fprintln(os.Stderr, "astfacts: candidate.startElection not found")
		os.Exit(2)
	}
	rel := func(e ast.Expr) int {
		t := strings.ReplaceAll(p.src(e), " ", "")
		switch t {
		case "c.term":
			return 0
		case "c.term+1":
			return 1
		}
		fmt.Fprintf(os.Stderr, "astfacts: order: term expression %q is not c.term or c.term+1\n", t)
		os.Exit(2)
		return 0
	}
	var evs []string
	ast.Inspect(fd.Body, func(n ast.Node) bool {
		switch x := n.(type) {
		case *ast.GoStmt:
			evs = append(evs, ".spawn")
			return false
		case *ast.CallExpr:
			nm := calleeName(x)
			if (nm == "setVotedFor" || nm == "setTerm") && len(x.Args) >= 1 {
				evs = append(evs, fmt.Sprintf(".persist %d", rel(x.Args[0])))
			}
		case *ast.CompositeLit:
			if id, ok := x.Type.(*ast.Ident); ok && id.Name == "voteReq" {
				found := false
				for _, el := range x.Elts {
					if kv, ok := el.(*ast.KeyValueExpr); ok && p.src(kv.Key) == "req" {
						if cl, ok := kv.Value.(*ast.CompositeLit); ok && len(cl.Elts) >= 1 {
							evs = append(evs, fmt.Sprintf(".mkreq %d", rel(cl.Elts[0])))
							found = true
						}
					}
				}
				if !found {
					fmt.Fprintln(os.Stderr, "astfacts: order: voteReq literal without req{term, src}")
					os.Exit(2)
				}
			}
		}
		return true
	})
	sb.WriteString("inductive ElectEv where\n  | persist (k : Nat) | mkreq (k : Nat) | spawn\n  deriving DecidableEq, Repr\n\n")
	sb.WriteString("/-- candidate.startElection in source order: persist k = setVotedFor/setTerm(c.term+k); mkreq k = voteReq{req{c.term+k, ..}}; spawn = a go statement -/\n")
	sb.WriteString("def startElectionEvents : List ElectEv := [" + strings.Join(evs, ", ") + "]\n\n")
}

func (p *pkg) timerFacts(sb *strings.Builder) {
	type site struct {
		fn, timer string
		clears    bool
		line      int
	}
	var sites []site
	keys := make([]string, 0, len(p.funcs))
	for k := range p.funcs {
		keys = append(keys, k)
	}
	sort.Strings(keys)
	isTimerChan := func(fd *ast.FuncDecl, e ast.Expr) (string, bool) {
		switch x := e.(type) {
		case *ast.SelectorExpr:
			if x.Sel.Name == "C" {
				return p.src(x.X), true
			}
		case *ast.Ident:
			// alias: some assignment `x = Y.C` in the same function
			timer := ""
			ast.Inspect(fd.Body, func(n ast.Node) bool {
				if as, ok := n.(*ast.AssignStmt); ok && len(as.Lhs) == 1 && len(as.Rhs) == 1 {
					if id, ok := as.Lhs[0].(*ast.Ident); ok && id.Name == x.Name {
						if se, ok := as.Rhs[0].(*ast.SelectorExpr); ok && se.Sel.Name == "C" {
							timer = p.src(se.X)
						}
					}
				}
				return true
			})
			if timer != "" {
				return timer, true
			}
		}
		return "", false
	}
	clearsActive := func(timer string, st ast.Stmt) bool {
		as, ok := st.(*ast.AssignStmt)
		if !ok || len(as.Lhs) != 1 || len(as.Rhs) != 1 {
			return false
		}
		return p.src(as.Lhs[0]) == timer+".active" && p.src(as.Rhs[0]) == "false"
	}
	recvOf := func(st ast.Stmt) ast.Expr {
		switch x := st.(type) {
		case *ast.ExprStmt:
			if u, ok := x.X.(*ast.UnaryExpr); ok && u.Op == token.ARROW {
				return u.X
			}
		case *ast.AssignStmt:
			if len(x.Rhs) == 1 {
				if u, ok := x.Rhs[0].(*ast.UnaryExpr); ok && u.Op == token.ARROW {
					return u.X
				}
			}
		}
		return nil
	}
	for _, key := range keys {
		if strings.HasPrefix(key, "safeTimer.") || key == "newSafeTimer" {
			continue // the implementation of the protocol itself, given as source text below
		}
		fd := p.funcs[key]
		ast.Inspect(fd.Body, func(n ast.Node) bool {
			switch x := n.(type) {
			case *ast.CommClause:
				if x.Comm == nil {
					return true
				}
				if ch := recvOf(x.Comm); ch != nil {
					if timer, ok := isTimerChan(fd, ch); ok {
						sites = append(sites, site{key, timer, len(x.Body) > 0 && clearsActive(timer, x.Body[0]), p.fset.Position(x.Pos()).Line})
					}
				}
			case *ast.BlockStmt:
				for i, st := range x.List {
					if ch := recvOf(st); ch != nil {
						if timer, ok := isTimerChan(fd, ch); ok {
							sites = append(sites, site{key, timer, i+1 < len(x.List) && clearsActive(timer, x.List[i+1]), p.fset.Position(st.Pos()).Line})
						}
					}
				}
			}
			return true
		})
	}
	// is `timer` a safeTimer at all? time.After(...) and plain *time.Timer values have no `active` flag: keep only
	// receivers whose `.active` field is used somewhere in the package
	usesActive := map[string]bool{}
	for _, f := range p.files {
		ast.Inspect(f, func(n ast.Node) bool {
			if se, ok := n.(*ast.SelectorExpr); ok && se.Sel.Name == "active" {
				usesActive[p.src(se.X)] = true
			}
			return true
		})
	}
	sb.WriteString("/-- every receive from a safeTimer's channel outside safeTimer itself: (function, timer, is the next statement `timer.active = false`) -/\n")
	sb.WriteString("def timerRecvSites : List (String × String × Bool) := [\n")
	first := true
	for _, s := range sites {
		if !usesActive[s.timer] {
			continue
		}
		if !first {
			sb.WriteString(",\n")
		}
		first = false
		fmt.Fprintf(sb, "    (%s, %s, %v)", strconv.Quote(s.fn), strconv.Quote(s.timer), s.clears)
	}
	sb.WriteString("\n  ]\n\n")
	for _, fn := range []struct{ lean, key string }{{"safeTimerStopSrc", "safeTimer.stop"}, {"safeTimerResetSrc", "safeTimer.reset"}, {"newSafeTimerSrc", "newSafeTimer"}} {
		fd := p.funcs[fn.key]
		if fd == nil {
			fmt.Fprintf(os.Stderr, "astfacts: %s not found\n", fn.key)
			os.Exit(2)
		}
		fmt.Fprintf(sb, "/-- the body of `%s`, whitespace normalised -/\ndef %s : String := %s\n\n", fn.key, fn.lean, strconv.Quote(p.src(fd.Body)))
	}
}

// ---------------------------------------------------------------------------------------------------------------
// multi-goroutine targets: one episode of a function that starts goroutines (go), defers, ranges over channels,
// declares local channels and calls local closures

type pipeTarget struct {
	Name    string   // Lean prefix of the channel names
	Func    string   // recv.func
	From    string   // the episode starts at the statement (of the body of the outer `for`) that declares this local channel
	Main    string   // Lean name of the process of the calling goroutine
	GoNames []string // Lean names of the processes of the go statements, in source order (call-site path)
	Inline  []string
	Marks   []mark
	PanicAt []string  // variant P: calls to these functions may panic
	Tags    []tagSpec // messages of these local channels carry (or are) an error that sender and receiver branch on
	Forks   []string  // statements `v := …` after which the truth value of `v != nil` is tracked
	NilMark string    // name of a marker node put on the `v == nil` side of every fork ("" = none)
}

var pipeTargets = []pipeTarget{{
	Name: "pipe", Func: "replication.replicate", From: "resultCh",
	Main: "pipeReader", GoNames: []string{"pipeWriter", "pipeDrainerStop", "pipeDrainerStale"},
	Inline: []string{"checkLeaderUpdate", "onLeaderUpdate", "notifyLdr", "onAppendEntriesResp"},
	Marks: []mark{
		{"write", "err := r.writeAppendEntriesReq(c, req, true)", false},
		{"recoverSend", "resultCh <- result{0, recoverErr(v)}", true},
	},
	PanicAt: []string{"writeAppendEntriesReq"},
	Tags:    []tagSpec{{Chan: "resultCh", Field: "err"}, {Chan: "drained", Field: ""}},
	Forks:   []string{"err := r.writeAppendEntriesReq(c, req, true)"},
	NilMark: "written",
}}

// reaches: the functions that can reach a call of the builtin `name` (by callee name, over-approximation)
func (p *pkg) reaches(name string) map[string]bool {
	direct := map[string]bool{}
	calls := map[string]map[string]bool{}
	for key, fd := range p.funcs {
		calls[key] = map[string]bool{}
		ast.Inspect(fd.Body, func(n ast.Node) bool {
			if x, ok := n.(*ast.CallExpr); ok {
				if id, ok := x.Fun.(*ast.Ident); ok && id.Name == name {
					direct[key] = true
				}
				if nm := localCallee(x); nm != "" {
					calls[key][nm] = true
				}
			}
			return true
		})
	}
	out := map[string]bool{}
	for k := range direct {
		out[k] = true
	}
	for changed := true; changed; {
		changed = false
		for key := range p.funcs {
			if out[key] {
				continue
			}
			for nm := range calls[key] {
				for _, ck := range p.byNm[nm] {
					if out[ck] {
						out[key] = true
						changed = true
					}
				}
			}
		}
	}
	return out
}

type pipeProc struct {
	lean, title string
	nodes       []node
	entry       int
	marks       map[string][]int
	halts       []int
	plain       []node // the same control-flow graph before the data-dependent branches are fused (for the reader of the file)
	plainEntry  int
}

// prettyNode: a node with channel names, for the readable listing
func prettyNode(n node, names []string) string {
	nm := func(c int) string {
		if c >= 0 && c < len(names) {
			return names[c]
		}
		return strconv.Itoa(c)
	}
	switch n.kind {
	case "comm":
		var cs []string
		for _, c := range n.cases {
			op := "recv "
			if c.send {
				op = "send "
			}
			cs = append(cs, fmt.Sprintf("%s%s → %d", op, nm(c.ch), c.next))
		}
		if n.dflt >= 0 {
			cs = append(cs, fmt.Sprintf("default → %d", n.dflt))
		}
		return "select { " + strings.Join(cs, " | ") + " }"
	case "close":
		return fmt.Sprintf("close %s → %d", nm(n.ch), n.next)
	case "range":
		return fmt.Sprintf("range %s: item → %d, closed and empty → %d", nm(n.ch), n.next, n.next2)
	case "choice":
		var ns []string
		for _, x := range n.nexts {
			ns = append(ns, strconv.Itoa(x))
		}
		return "branch → " + strings.Join(ns, " | ")
	}
	return "return"
}

func cloneNodes(ns []node) []node {
	out := make([]node, len(ns))
	for i, n := range ns {
		n.cases = append([]comm{}, n.cases...)
		n.nexts = append([]int{}, n.nexts...)
		out[i] = n
	}
	return out
}

type pipeVariant struct {
	procs  []pipeProc
	opaque []string
	starts []string // start channel of every spawned process, in the order of procs[1:]
}

type pipeOut struct {
	t          pipeTarget
	normal, pv pipeVariant
	prefix     []string
	localKinds map[string]string
	from, to   int // source lines of the episode
}

func pathKey(path string) []int {
	var out []int
	for _, m := range regexp.MustCompile(`[0-9]+`).FindAllString(path, -1) {
		n, _ := strconv.Atoi(m)
		out = append(out, n)
	}
	return out
}

func lessPath(a, b string) bool {
	ka, kb := pathKey(a), pathKey(b)
	for i := 0; i < len(ka) && i < len(kb); i++ {
		if ka[i] != kb[i] {
			return ka[i] < kb[i]
		}
	}
	return len(ka) < len(kb)
}

func (p *pkg) pipeline(t pipeTarget, eff, canPanic, known map[string]bool) *pipeOut {
	fd := p.funcs[t.Func]
	if fd == nil {
		fmt.Fprintf(os.Stderr, "astfacts: target %s not found\n", t.Func)
		os.Exit(2)
	}
	fset := p.fset
	// locate the outer loop and the first statement of the episode
	declares := func(st ast.Stmt, name string) bool {
		found := false
		switch x := st.(type) {
		case *ast.DeclStmt:
			if gd, ok := x.Decl.(*ast.GenDecl); ok && gd.Tok == token.VAR {
				for _, sp := range gd.Specs {
					vs := sp.(*ast.ValueSpec)
					for i, nm := range vs.Names {
						if nm.Name == name && i < len(vs.Values) {
							if _, ok := makeChanCap(vs.Values[i]); ok {
								found = true
							}
						}
					}
				}
			}
		case *ast.AssignStmt:
			if x.Tok == token.DEFINE && len(x.Lhs) == len(x.Rhs) {
				for i, l := range x.Lhs {
					if id, ok := l.(*ast.Ident); ok && id.Name == name {
						if _, ok := makeChanCap(x.Rhs[i]); ok {
							found = true
						}
					}
				}
			}
		}
		return found
	}
	var outer *ast.ForStmt
	outerIdx, fromIdx := -1, -1
	for i, st := range fd.Body.List {
		fs, ok := st.(*ast.ForStmt)
		if !ok {
			continue
		}
		for j, st2 := range fs.Body.List {
			if declares(st2, t.From) {
				if outer != nil {
					fail(fset, st2.Pos(), "second declaration of the local channel %s", t.From)
				}
				outer, outerIdx, fromIdx = fs, i, j
			}
		}
	}
	if outer == nil {
		fail(fset, fd.Pos(), "no `for` statement at the top level of %s declares the local channel %s in its body", t.Func, t.From)
	}
	if outer.Cond != nil || outer.Init != nil || outer.Post != nil {
		fail(fset, outer.Pos(), "the outer loop of %s is not `for {…}`", t.Func)
	}
	if outerIdx != len(fd.Body.List)-1 {
		fail(fset, fd.Body.List[outerIdx+1].Pos(), "statements after the outer loop of %s are not supported", t.Func)
	}
	// what precedes the episode: no channel operation except through calls (listed: `<Name>_prefix_calls`)
	var prefixStmts []ast.Stmt
	prefixStmts = append(prefixStmts, fd.Body.List[:outerIdx]...)
	prefixStmts = append(prefixStmts, outer.Body.List[:fromIdx]...)
	prefixCalls := map[string]bool{}
	for _, st := range prefixStmts {
		ast.Inspect(st, func(n ast.Node) bool {
			switch x := n.(type) {
			case *ast.SendStmt, *ast.SelectStmt, *ast.GoStmt, *ast.DeferStmt, *ast.FuncLit:
				fail(fset, n.Pos(), "before the episode of %s: %T is not supported there", t.Func, n)
			case *ast.UnaryExpr:
				if x.Op == token.ARROW {
					fail(fset, n.Pos(), "before the episode of %s: a receive is not supported there", t.Func)
				}
			case *ast.RangeStmt:
				if known[chanName(x.X)] {
					fail(fset, n.Pos(), "before the episode of %s: range over a channel is not supported there", t.Func)
				}
			case *ast.CallExpr:
				nm := localCallee(x)
				if id, ok := x.Fun.(*ast.Ident); ok && (id.Name == "close" || id.Name == "recover") {
					fail(fset, n.Pos(), "before the episode of %s: %s(…) is not supported there", t.Func, id.Name)
				}
				for _, key := range p.byNm[nm] {
					if eff[key] {
						prefixCalls[nm] = true
					}
				}
			}
			return true
		})
	}
	out := &pipeOut{t: t, localKinds: map[string]string{}}
	for k := range prefixCalls {
		out.prefix = append(out.prefix, k)
	}
	sort.Strings(out.prefix)
	out.from = fset.Position(outer.Body.List[fromIdx].Pos()).Line
	out.to = fset.Position(outer.Body.Rbrace).Line

	build := func(panicMode bool) pipeVariant {
		sh := &shared{allowGo: true, panicMode: panicMode, panicAt: map[string]bool{}, canPanic: canPanic, marks: t.Marks,
			localKinds: map[string]string{}, localIdent: map[string]bool{}, closIdent: map[string]bool{}, knownChans: known,
			declStmt: map[ast.Stmt]bool{}, usedPanic: map[string]bool{}, tags: t.Tags, tagged: map[string]*tagSpec{},
			forks: map[string]bool{}, usedFork: map[string]bool{}, fd: fd}
		for _, nm := range t.PanicAt {
			sh.panicAt[nm] = true
		}
		for _, f := range t.Forks {
			sh.forks[f] = true
		}
		sh.nilMark = t.NilMark
		b := &builder{p: p, eff: eff, inline: map[string]bool{}, opaque: map[string]bool{}, tname: t.Name, sh: sh, marks: map[string][]int{}}
		for _, i := range t.Inline {
			b.inline[i] = true
		}
		b.curLine = out.to
		haltRet := b.add(node{kind: "halt"})
		haltNext := b.add(node{kind: "halt"})
		c := newCtx(haltRet)
		c.cont = haltNext
		c.env = (*scope)(nil).child()
		c.fn = fd.Name.Name
		entry := b.block(outer.Body.List[fromIdx:], haltNext, c)

		// the local channels must not escape: every use of their identifiers is a channel operation, len/cap, or an
		// argument of an inlined function whose parameter is of channel type (checked at the binding)
		var stack []ast.Node
		ast.Inspect(fd.Body, func(n ast.Node) bool {
			if n == nil {
				stack = stack[:len(stack)-1]
				return true
			}
			if id, ok := n.(*ast.Ident); ok && sh.localIdent[id.Name] && len(stack) > 0 {
				good := false
				switch pa := stack[len(stack)-1].(type) {
				case *ast.SelectorExpr:
					good = pa.Sel == id
				case *ast.UnaryExpr:
					good = pa.Op == token.ARROW
				case *ast.SendStmt:
					good = pa.Chan == ast.Expr(id)
				case *ast.RangeStmt:
					good = pa.X == ast.Expr(id)
				case *ast.ValueSpec:
					for i, nm := range pa.Names {
						if nm == id && i < len(pa.Values) {
							_, good = makeChanCap(pa.Values[i])
						}
					}
				case *ast.AssignStmt:
					for i, l := range pa.Lhs {
						if l == ast.Expr(id) && pa.Tok == token.DEFINE && i < len(pa.Rhs) && len(pa.Lhs) == len(pa.Rhs) {
							_, good = makeChanCap(pa.Rhs[i])
						}
					}
				case *ast.CallExpr:
					nm := calleeName(pa)
					if fid, ok := pa.Fun.(*ast.Ident); ok && (fid.Name == "close" || fid.Name == "len" || fid.Name == "cap") {
						good = true
					} else if fid, ok := pa.Fun.(*ast.Ident); ok && sh.closIdent[fid.Name] {
						good = true
					} else if b.inline[nm] {
						good = true
					}
				}
				if !good {
					fail(fset, id.Pos(), "local channel %s escapes (used in a way the translator does not track)", id.Name)
				}
			}
			stack = append(stack, n)
			return true
		})
		for _, nm := range t.PanicAt {
			if !sh.usedPanic[nm] {
				fmt.Fprintf(os.Stderr, "astfacts: declared panic site %s is not called in the episode of %s\n", nm, t.Func)
				os.Exit(2)
			}
		}

		for _, f := range t.Forks {
			if !sh.usedFork[f] {
				fmt.Fprintf(os.Stderr, "astfacts: fork statement %q not found in the episode of %s\n", f, t.Func)
				os.Exit(2)
			}
		}
		for _, tg := range t.Tags {
			found := false
			for _, sp := range sh.tagged {
				if sp.Chan == tg.Chan {
					found = true
				}
			}
			if !found {
				fmt.Fprintf(os.Stderr, "astfacts: tagged channel %s not declared in the episode of %s\n", tg.Chan, t.Func)
				os.Exit(2)
			}
		}
		// code compiled once per truth value of a tracked condition may contain go statements: keep those whose go
		// statement can be reached; the same go statement (same inlining path) reachable twice is not supported
		reachOf := map[*builder]map[int]bool{}
		reachFrom := func(bb *builder, entry int) {
			r := map[int]bool{}
			work := []int{entry}
			for len(work) > 0 {
				x := work[len(work)-1]
				work = work[:len(work)-1]
				if x < 0 || r[x] {
					continue
				}
				r[x] = true
				work = append(work, succsOf(bb.nodes[x])...)
			}
			reachOf[bb] = r
		}
		reachFrom(b, entry)
		var live []*spawnOut
		for changed := true; changed; {
			changed = false
			for _, sp := range sh.spawned {
				if reachOf[sp.b] != nil {
					continue
				}
				if r := reachOf[sp.by]; r != nil && r[sp.at] {
					reachFrom(sp.b, sp.entry)
					live = append(live, sp)
					changed = true
				}
			}
		}
		seenPath := map[string]bool{}
		for _, sp := range live {
			if seenPath[sp.path] {
				fail(fset, sp.pos, "the go statement (inlining path %s) is reachable in two copies of code compiled per tracked condition: not supported", sp.path)
			}
			seenPath[sp.path] = true
		}
		sh.spawned = live
		sort.SliceStable(sh.spawned, func(i, j int) bool { return lessPath(sh.spawned[i].path, sh.spawned[j].path) })
		if len(sh.spawned) != len(t.GoNames) {
			fmt.Fprintf(os.Stderr, "astfacts: %s: %d go statements (after inlining) but %d names declared\n", t.Func, len(sh.spawned), len(t.GoNames))
			os.Exit(2)
		}
		var v pipeVariant
		suffix := ""
		if panicMode {
			suffix = "P"
		}
		type raw struct {
			lean, title string
			b           *builder
			entry       int
			halts       []int
		}
		raws := []raw{{t.Main + suffix, fmt.Sprintf("the goroutine that called `%s`, lines %d–%d", t.Func, out.from, out.to), b, entry, []int{haltRet, haltNext}}}
		for i, sp := range sh.spawned {
			raws = append(raws, raw{t.GoNames[i] + suffix, fmt.Sprintf("the goroutine started by the go statement at line %d of `%s` (inlining path %q)", fset.Position(sp.pos).Line, t.Func, sp.path), sp.b, sp.entry, []int{0}})
			v.starts = append(v.starts, sp.start)
		}
		for _, r := range raws {
			for i, n := range r.b.nodes {
				if n.once != "" && onCycle(r.b.nodes, i) {
					fmt.Fprintf(os.Stderr, "astfacts: %s: %s can run more than once in one episode (it lies on a cycle of the control-flow graph): one name would stand for several channels / goroutines\n", t.Func, n.once)
					os.Exit(2)
				}
			}
			saved := fuseBranches
			fuseBranches = false
			plain, plainEntry, _, _ := compress(cloneNodes(r.b.nodes), r.entry, r.b.marks, r.halts)
			fuseBranches = saved
			nodes, e, marks, halts := compress(cloneNodes(r.b.nodes), r.entry, r.b.marks, r.halts)
			v.procs = append(v.procs, pipeProc{r.lean, r.title, nodes, e, marks, halts, plain, plainEntry})
		}
		for _, m := range t.Marks {
			n := 0
			for _, pr := range v.procs {
				n += len(pr.marks[m.Name])
			}
			if n == 0 && !(m.Name == "recoverSend" && !panicMode) {
				fmt.Fprintf(os.Stderr, "astfacts: mark %s (%q) not found in the episode of %s\n", m.Name, m.Text, t.Func)
				os.Exit(2)
			}
		}
		if t.NilMark != "" {
			n := 0
			for _, pr := range v.procs {
				n += len(pr.marks[t.NilMark])
			}
			if n == 0 {
				fmt.Fprintf(os.Stderr, "astfacts: mark %s (nil side of a fork) not found in the episode of %s\n", t.NilMark, t.Func)
				os.Exit(2)
			}
		}
		for k := range b.opaque {
			v.opaque = append(v.opaque, k)
		}
		sort.Strings(v.opaque)
		for k, c := range sh.localKinds {
			out.localKinds[k] = c
		}
		return v
	}
	out.normal = build(false)
	out.pv = build(true)
	return out
}

func leanIdent(s string) string {
	var sb strings.Builder
	for _, r := range s {
		if r >= 'a' && r <= 'z' || r >= 'A' && r <= 'Z' || r >= '0' && r <= '9' || r == '_' {
			sb.WriteRune(r)
		} else {
			sb.WriteRune('_')
		}
	}
	return sb.String()
}

func (po *pipeOut) emit(sb *strings.Builder, p *pkg, allChans []string, makes map[string][]string) {
	t := po.t
	fmt.Fprintf(sb, "/-! ## one episode of `%s` (lines %d–%d): the statements from the declaration of the local channel `%s` to the end\n", t.Func, po.from, po.to, t.From)
	fmt.Fprintf(sb, "of the body of the outer `for`. What precedes them in the function contains no channel operation, go, defer or closure\n")
	fmt.Fprintf(sb, "(checked by the translator) except through the calls listed in `%s_prefix_calls`.\n", t.Name)
	sb.WriteString("* the calling goroutine: `halt` number 0 = `return`, `halt` number 1 = the end of the loop body / `continue` (next iteration);\n")
	sb.WriteString("* every go statement (per inlined call site of the closure that contains it) is a process of its own; it waits at its\n")
	sb.WriteString("  entry for the spawn signal: a private channel `start:…` that the spawner CLOSES at the go statement (a go statement\n")
	sb.WriteString("  executed twice would be a double close, i.e. `bad`); go statements and `make(chan)` sites were checked not to lie on a\n")
	sb.WriteString("  cycle of the control-flow graph, so one name stands for one channel / goroutine;\n")
	sb.WriteString("* deferred function literals run at every return of their function; `recover()` returns nil (variant without suffix);\n")
	sb.WriteString("  in variant `P` the calls marked as panic sites may instead jump into the deferred function with `recover() != nil`;\n")
	sb.WriteString("* `for range ch` is `recvOrClosed`; closures bound to local variables are inlined at every call;\n")
	sb.WriteString("* local channels are named `function.variable@call-site-line…`; channel parameters of inlined functions are bound to the\n")
	sb.WriteString("  channel the argument denotes; explicit `panic(…)` statements of inlined callees are treated as no-ops;\n")
	for _, tg := range t.Tags {
		what := fmt.Sprintf("carry an error (field `%s`)", tg.Field)
		if tg.Field == "" {
			what = "ARE an error (`ch <- f()` with f a local closure: its `return nil` / `return <non-nil>` decide)"
		}
		fmt.Fprintf(sb, "* the messages of the local channel `%s` %s that sender and receiver branch on: the channel is\n", tg.Chan, what)
		fmt.Fprintf(sb, "  split in two halves, `name` for a nil error and `name%s` for a non-nil one (same capacity each; the order between the\n", tg.suffix())
		fmt.Fprintf(sb, "  halves is lost: an over-approximation), `close` closes both, `for range` drains the first then the second;\n")
	}
	sb.WriteString("* tracked conditions (`x != nil` after a fork statement / a receive from a split channel / a call of a local closure that\n")
	sb.WriteString("  returns an error, and inside `if x != nil {…}`): the rest of the block is compiled once per truth value, so `if x != nil`\n")
	sb.WriteString("  takes the branch that matches; every other branch is a free choice;\n")
	for _, f := range t.Forks {
		fmt.Fprintf(sb, "  fork statement: `%s`;\n", f)
	}
	sb.WriteString("* skip nodes are removed and (flag -fuse, default) a data-dependent branch that follows a communication is fused into it:\n")
	sb.WriteString("  `comm [⟨recv c, n⟩]` with `n = choice [a, b]` becomes `comm [⟨recv c, a⟩, ⟨recv c, b⟩]` (the branch is local, invisible to the\n")
	sb.WriteString("  other goroutines; this halves the number of reachable states); the comment of a node gives its number and source line. -/\n\n")

	fmt.Fprintf(sb, "/-- channel numbering of the skeletons of this section (`chanNames` is a prefix) -/\n")
	fmt.Fprintf(sb, "def %sChanNames : List String := [", t.Name)
	for i, n := range allChans {
		if i > 0 {
			sb.WriteString(", ")
		}
		sb.WriteString(strconv.Quote(n))
	}
	sb.WriteString("]\n\n")
	fmt.Fprintf(sb, "/-- their kinds: `make(chan …)` sites; a `start:…` channel is only ever closed (by the go statement) -/\n")
	fmt.Fprintf(sb, "def %sKinds : List Kind := [", t.Name)
	for i, n := range allChans {
		if i > 0 {
			sb.WriteString(", ")
		}
		capStr, local := po.localKinds[n]
		switch {
		case n == "timer":
			sb.WriteString(".external")
			continue
		case local && capStr == "start":
			sb.WriteString(".sync")
			continue
		case !local:
			caps := makes[n]
			if len(caps) == 0 {
				fmt.Fprintf(os.Stderr, "astfacts: no make(chan) site found for channel %s\n", n)
				os.Exit(2)
			}
			capStr = caps[0]
			for _, c := range caps {
				if c != capStr {
					fmt.Fprintf(os.Stderr, "astfacts: channel %s is made with different capacities %v\n", n, caps)
					os.Exit(2)
				}
			}
		}
		switch capStr {
		case "0":
			sb.WriteString(".sync")
		case "dynamic":
			fmt.Fprintf(os.Stderr, "astfacts: channel %s has a non-constant capacity\n", n)
			os.Exit(2)
		default:
			sb.WriteString(".buffered " + capStr)
		}
	}
	sb.WriteString("]\n\n")

	// Lean names of the local channels
	startOf := map[string]string{}
	for i, st := range po.normal.starts {
		startOf[st] = t.GoNames[i]
	}
	groups := map[string][]string{}
	for n := range po.localKinds {
		if _, ok := startOf[n]; ok {
			continue
		}
		base := n
		if i := strings.Index(n, "@"); i >= 0 {
			base = n[:i]
		}
		groups[base] = append(groups[base], n)
	}
	leanOf := map[string]string{}
	for base, ns := range groups {
		sort.Slice(ns, func(i, j int) bool { return lessPath(ns[i], ns[j]) })
		short := base
		if i := strings.LastIndex(base, "."); i >= 0 {
			short = base[i+1:]
		}
		for i, n := range ns {
			if len(ns) == 1 {
				leanOf[n] = fmt.Sprintf("%sCh_%s", t.Name, leanIdent(short))
			} else {
				leanOf[n] = fmt.Sprintf("%sCh_%s_%d", t.Name, leanIdent(short), i+1)
			}
		}
	}
	for st, g := range startOf {
		leanOf[st] = fmt.Sprintf("%sCh_start_%s", t.Name, g)
	}
	for i, n := range allChans {
		if ln, ok := leanOf[n]; ok {
			fmt.Fprintf(sb, "/-- the channel `%s` -/\ndef %s : Nat := %d\n", n, ln, i)
		}
	}
	sb.WriteString("\n")

	emitVariant := func(v pipeVariant, what string) {
		for _, pr := range v.procs {
			fmt.Fprintf(sb, "/-- %s: %s", what, pr.title)
			if fuseBranches {
				fmt.Fprintf(sb, ".\nReadable form, before the data-dependent branches (`choice`) are fused into the communication that precedes them\n")
				fmt.Fprintf(sb, "(own numbering; entry := %d; `L` = source line):\n```\n", pr.plainEntry)
				for i, n := range pr.plain {
					extra := ""
					if n.mark != "" {
						extra = "  mark " + n.mark
					}
					txt := prettyNode(n, allChans)
					if len(pr.halts) == 2 && n.kind == "halt" && i == 1 {
						txt = "end of the body of the outer loop (next iteration)"
					}
					fmt.Fprintf(sb, "  %2d  L%-3d  %s%s\n", i, n.line, txt, extra)
				}
				sb.WriteString("```")
			}
			sb.WriteString(" -/\n")
			fmt.Fprintf(sb, "def %s : Proc := { name := %s, entry := %d, code := [\n", pr.lean, strconv.Quote(pr.lean), pr.entry)
			for i, n := range pr.nodes {
				sep := ","
				if i == len(pr.nodes)-1 {
					sep = ""
				}
				extra := ""
				if n.mark != "" {
					extra = "  mark " + n.mark
				}
				fmt.Fprintf(sb, "    %s%s  -- %d  L%d%s\n", leanNode(n), sep, i, n.line, extra)
			}
			sb.WriteString("  ] }\n")
			var mnames []string
			for m := range pr.marks {
				mnames = append(mnames, m)
			}
			sort.Strings(mnames)
			for _, m := range mnames {
				var text string
				if m == t.NilMark {
					text = "just after a fork statement (`" + strings.Join(t.Forks, "`, `") + "`) on the side where the variable is nil"
				}
				for _, mk := range t.Marks {
					if mk.Name == m {
						text = mk.Text
						if mk.After {
							text = "just after `" + text + "`"
						} else {
							text = "about to execute / executing `" + text + "`"
						}
					}
				}
				fmt.Fprintf(sb, "/-- program counters of `%s` %s -/\ndef %s_at_%s : List Nat := [", pr.lean, text, pr.lean, m)
				for i, x := range pr.marks[m] {
					if i > 0 {
						sb.WriteString(", ")
					}
					sb.WriteString(strconv.Itoa(x))
				}
				sb.WriteString("]\n")
			}
			if len(pr.halts) == 2 {
				fmt.Fprintf(sb, "/-- `%s` has returned from the function -/\ndef %s_ret : Nat := %d\n", pr.lean, pr.lean, pr.halts[0])
				fmt.Fprintf(sb, "/-- `%s` has reached the end of the body of the outer loop (next iteration) -/\ndef %s_next : Nat := %d\n", pr.lean, pr.lean, pr.halts[1])
			}
			sb.WriteString("\n")
		}
	}
	emitVariant(po.normal, "panic-free skeleton of "+t.Func)
	emitVariant(po.pv, "variant P (panic sites: "+strings.Join(t.PanicAt, ", ")+") of "+t.Func)

	strList := func(xs []string) string {
		var qs []string
		for _, x := range xs {
			qs = append(qs, strconv.Quote(x))
		}
		return "[" + strings.Join(qs, ", ") + "]"
	}
	fmt.Fprintf(sb, "/-- callees inside the episode that can reach a channel operation and are NOT inlined -/\n")
	fmt.Fprintf(sb, "def %s_opaque : List String := %s\n\n", t.Name, strList(po.normal.opaque))
	fmt.Fprintf(sb, "/-- callees BEFORE the episode (probe loop of `%s`) that can reach a channel operation; nothing else there can -/\n", t.Func)
	fmt.Fprintf(sb, "def %s_prefix_calls : List String := %s\n\n", t.Name, strList(po.prefix))
	fmt.Fprintf(sb, "/-- the calls that may panic in variant P (each can reach a `panic(…)` call: checked by the translator) -/\n")
	fmt.Fprintf(sb, "def %s_panic_sites : List String := %s\n\n", t.Name, strList(t.PanicAt))
}
