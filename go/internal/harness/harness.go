// Package harness holds what the correspondence engines share: the model driver process,
// canonical JSON comparison, reports, directory copies.
package harness

import (
	"bufio"
	"bytes"
	"encoding/json"
	"fmt"
	"io"
	"io/ioutil"
	"os"
	"os/exec"
	"path/filepath"
	"reflect"
	"sort"
	"sync"
)

// Driver is a running model driver (one JSON line in, one JSON line out).
type Driver struct {
	cmd *exec.Cmd
	in  io.WriteCloser
	out *bufio.Reader
	mu  sync.Mutex
}

func StartDriver(path string) (*Driver, error) {
	cmd := exec.Command(path)
	in, err := cmd.StdinPipe()
	if err != nil {
		return nil, err
	}
	out, err := cmd.StdoutPipe()
	if err != nil {
		return nil, err
	}
	cmd.Stderr = os.Stderr
	if err := cmd.Start(); err != nil {
		return nil, err
	}
	return &Driver{cmd: cmd, in: in, out: bufio.NewReaderSize(out, 1<<20)}, nil
}

// Ask sends one case and returns the parsed answer.
func (d *Driver) Ask(req interface{}) (map[string]interface{}, error) {
	b, err := json.Marshal(req)
	if err != nil {
		return nil, err
	}
	d.mu.Lock()
	defer d.mu.Unlock()
	if _, err := d.in.Write(append(b, '\n')); err != nil {
		return nil, err
	}
	line, err := d.out.ReadBytes('\n')
	if err != nil {
		return nil, fmt.Errorf("driver: %v", err)
	}
	v, err := Parse(line)
	if err != nil {
		return nil, err
	}
	m, ok := v.(map[string]interface{})
	if !ok {
		return nil, fmt.Errorf("driver: not an object: %s", line)
	}
	if e, ok := m["error"]; ok {
		return m, fmt.Errorf("driver error: %v", e)
	}
	return m, nil
}

func (d *Driver) Close() {
	_ = d.in.Close()
	_ = d.cmd.Wait()
}

// Parse decodes JSON keeping numbers exact.
func Parse(b []byte) (interface{}, error) {
	dec := json.NewDecoder(bytes.NewReader(b))
	dec.UseNumber()
	var v interface{}
	if err := dec.Decode(&v); err != nil {
		return nil, err
	}
	return Canon(v), nil
}

// ToCanon converts any Go value through JSON into canonical form.
func ToCanon(v interface{}) interface{} {
	b, err := json.Marshal(v)
	if err != nil {
		panic(err)
	}
	c, err := Parse(b)
	if err != nil {
		panic(err)
	}
	return c
}

// Canon drops null members and turns numbers into their decimal strings.
func Canon(v interface{}) interface{} {
	switch x := v.(type) {
	case map[string]interface{}:
		m := map[string]interface{}{}
		for k, e := range x {
			if e == nil {
				continue
			}
			m[k] = Canon(e)
		}
		return m
	case []interface{}:
		a := make([]interface{}, 0, len(x))
		for _, e := range x {
			a = append(a, Canon(e))
		}
		return a
	case json.Number:
		return "#" + x.String()
	}
	return v
}

func Equal(a, b interface{}) bool { return reflect.DeepEqual(a, b) }

// Diff lists paths at which a and b differ (bounded).
func Diff(a, b interface{}) []string {
	var out []string
	diff("", a, b, &out)
	return out
}

func diff(path string, a, b interface{}, out *[]string) {
	if len(*out) > 12 {
		return
	}
	switch x := a.(type) {
	case map[string]interface{}:
		y, ok := b.(map[string]interface{})
		if !ok {
			*out = append(*out, fmt.Sprintf("%s: %v vs %v", path, short(a), short(b)))
			return
		}
		keys := map[string]bool{}
		for k := range x {
			keys[k] = true
		}
		for k := range y {
			keys[k] = true
		}
		var ks []string
		for k := range keys {
			ks = append(ks, k)
		}
		sort.Strings(ks)
		for _, k := range ks {
			xv, xok := x[k]
			yv, yok := y[k]
			if !xok || !yok {
				*out = append(*out, fmt.Sprintf("%s.%s: %v vs %v", path, k, short(xv), short(yv)))
				continue
			}
			diff(path+"."+k, xv, yv, out)
		}
	case []interface{}:
		y, ok := b.([]interface{})
		if !ok || len(x) != len(y) {
			*out = append(*out, fmt.Sprintf("%s: %v vs %v", path, short(a), short(b)))
			return
		}
		for i := range x {
			diff(fmt.Sprintf("%s[%d]", path, i), x[i], y[i], out)
		}
	default:
		if !reflect.DeepEqual(a, b) {
			*out = append(*out, fmt.Sprintf("%s: %v vs %v", path, short(a), short(b)))
		}
	}
}

func short(v interface{}) string {
	b, _ := json.Marshal(v)
	if len(b) > 300 {
		return string(b[:300]) + "…"
	}
	return string(b)
}

// CopyDir copies a storage directory tree (regular files only).
func CopyDir(src, dst string) error {
	return filepath.Walk(src, func(p string, info os.FileInfo, err error) error {
		if err != nil {
			return err
		}
		rel, _ := filepath.Rel(src, p)
		target := filepath.Join(dst, rel)
		if info.IsDir() {
			return os.MkdirAll(target, 0700)
		}
		if !info.Mode().IsRegular() || info.Name() == "lock" {
			return nil
		}
		b, err := ioutil.ReadFile(p)
		if err != nil {
			if os.IsNotExist(err) {
				return nil
			}
			return err
		}
		return ioutil.WriteFile(target, b, 0600)
	})
}

// Report is what every engine writes (see CONVENTIONS.md).
type Report struct {
	Engine             string                   `json:"engine"`
	Seed               int64                    `json:"seed"`
	Tier               string                   `json:"tier"`
	Evaluations        int                      `json:"evaluations"`
	DistinctNontrivial int                      `json:"distinct_nontrivial"`
	Rule               string                   `json:"rule"`
	Histogram          map[string]int           `json:"histogram"`
	Samples            []interface{}            `json:"samples"`
	Disagreements      []map[string]interface{} `json:"disagreements"`
	WallS              float64                  `json:"wall_s"`
	Extra              map[string]interface{}   `json:"extra,omitempty"`
}

func (r *Report) Write(path string) error {
	if r.Histogram == nil {
		r.Histogram = map[string]int{}
	}
	if r.Samples == nil {
		r.Samples = []interface{}{}
	}
	if r.Disagreements == nil {
		r.Disagreements = []map[string]interface{}{}
	}
	b, err := json.MarshalIndent(r, "", " ")
	if err != nil {
		return err
	}
	return ioutil.WriteFile(path, b, 0644)
}
