// Package nodesim drives one real node through the verif hook API and validates every
// step against the Lean model (stateless step validation). Shared by nodediff and clustersim.
package nodesim

import (
	"fmt"
	"io/ioutil"
	"math/rand"
	"os"
	"path/filepath"
	"sort"
	"strings"
	"sync"
	"time"

	"github.com/santhosh-tekuri/raft"
	"verif/internal/harness"
)

// Op is one harness operation (replayable).
type Op struct {
	Kind      string             `json:"kind"`
	Vote      *raft.VVoteReq     `json:"vote,omitempty"`
	Append    *raft.VAppendReq   `json:"append,omitempty"`
	Install   *raft.VInstallReq  `json:"install,omitempty"`
	Term      uint64             `json:"term,omitempty"`
	Src       uint64             `json:"src,omitempty"`
	CID       uint64             `json:"cid,omitempty"`
	NID       uint64             `json:"nid,omitempty"`
	Batch     []raft.VNewEntry   `json:"batch,omitempty"`
	Task      uint64             `json:"task,omitempty"`
	Config    *raft.VConfig      `json:"config,omitempty"`
	Threshold uint64             `json:"threshold,omitempty"`
	Target    uint64             `json:"target,omitempty"`
	Err       bool               `json:"err,omitempty"`
	Result    uint64             `json:"result,omitempty"`
	Updates   []raft.VReplUpdate `json:"updates,omitempty"`
	ID        uint64             `json:"id,omitempty"`
	// Adv: a message/response no correct cluster can produce for this node state
	// (correspondence is still checked; property monitors stop for the rest of the sequence).
	Adv bool `json:"adv,omitempty"`
	// Elect (voteResult): term of the election whose request this reply answers; it travels over that
	// election's reply channel. 0 = not specified (delivered to onVoteResult directly).
	Elect uint64 `json:"elect,omitempty"`
	// Inner (snapAround): the operation the state loop performs between the moment the snapshot goroutine has
	// captured the FSM's state and the moment it writes the snapshot file. The model runs snapRun, then Inner.
	Inner *Op `json:"inner,omitempty"`
}

// model renders the op in the shape Driver/Node.lean parses.
func (op Op) model() map[string]interface{} {
	m := map[string]interface{}{"kind": op.Kind}
	switch op.Kind {
	case "vote":
		m["req"] = op.Vote
	case "append":
		m["req"] = op.Append
	case "install":
		m["req"] = op.Install
	case "identity":
		m["src"], m["cid"], m["nid"] = op.Src, op.CID, op.NID
	case "disconnected":
		m["nid"] = op.NID
	case "newEntries":
		batch := []raft.VQItem{}
		for _, b := range op.Batch {
			q := raft.VQItem{Typ: b.Typ, Task: b.Task}
			if b.Typ == 2 {
				q.Data = b.Data
			}
			batch = append(batch, q)
		}
		m["batch"] = batch
	case "changeConfig":
		m["task"], m["config"] = op.Task, op.Config
	case "takeSnapshot":
		m["task"], m["threshold"] = op.Task, op.Threshold
	case "waitStable":
		m["task"] = op.Task
	case "transfer":
		m["task"], m["target"] = op.Task, op.Target
	case "voteResult":
		m["err"], m["term"], m["result"] = op.Err, op.Term, op.Result
	case "replUpdates":
		m["updates"] = op.Updates
	case "timeoutNowResult":
		m["src"], m["err"], m["result"] = op.Src, op.Err, op.Result
	}
	return m
}

// Stats accumulates what a run covered.
type Stats struct {
	Steps         int
	Crash         int
	MonitorChecks int
	Hist          map[string]int
	Distinct      map[string]bool
	Samples       []interface{}
	Disagreements []map[string]interface{}
}

func NewStats() *Stats {
	return &Stats{Hist: map[string]int{}, Distinct: map[string]bool{}}
}

func (s *Stats) Merge(o *Stats) {
	if o == nil {
		return
	}
	s.Steps += o.Steps
	s.Crash += o.Crash
	s.MonitorChecks += o.MonitorChecks
	for k, v := range o.Hist {
		s.Hist[k] += v
	}
	for k := range o.Distinct {
		s.Distinct[k] = true
	}
	for _, x := range o.Samples {
		if len(s.Samples) < 5 {
			s.Samples = append(s.Samples, x)
		}
	}
	s.Disagreements = append(s.Disagreements, o.Disagreements...)
}

func (s *Stats) Fail(d map[string]interface{}) { s.Disagreements = append(s.Disagreements, d) }

// PropertyFailures counts recorded disagreements that are property failures of the implementation.
func (s *Stats) PropertyFailures() int {
	n := 0
	for _, d := range s.Disagreements {
		if d["property_failed"] != nil {
			n++
		}
	}
	return n
}

// Obs is an observation taken inside a handler at a verifPoint.
type Obs struct {
	Point string
	O     raft.VObs
}

// CrashState is the restart digest (canonical JSON value, or "fail") of a directory copy taken at a crash point.
type CrashState struct {
	Point   string
	Restart interface{}
}

type crashCopy struct {
	point string
	dir   string
}

// World is one node under test with its storage directory.
type World struct {
	Rng         *rand.Rand
	D           *harness.Driver
	St          *Stats
	Seed        int64
	Self        uint64
	CID         uint64
	Node        *raft.VerifNode
	Dir         string
	Base        string
	Opt         raft.Options
	Trail       []Op
	task        uint64
	copies      []crashCopy
	obs         []Obs
	crashStates []CrashState
	ncopy       int
	mon         *Monitor
	Quiet       bool // do not generate ops; used by clustersim
	Dirty       bool // an adversarial op happened: monitors are off
	// Broken: model and implementation disagreed earlier in this sequence. The sequence goes on in
	// search mode: no more comparisons, the property monitors keep evaluating the real execution,
	// looking for a concrete input on which a property fails.
	Broken bool
	voted  map[uint64]map[uint64]bool // term -> voters whose response was delivered
	// Calm: this sequence keeps the node leading (few disruptive requests): leader-side behaviour
	// (membership changes, rounds, transfers, commits, compaction) gets deep states
	Calm bool
	// late: a transfer ended while the answer to its timeout-now request was still outstanding (1: deliver that answer
	// now; 2: it was delivered, let the new-term timer behind it expire); prevResp: the previous digest showed such a request
	late     int
	prevResp bool
}

var worlds sync.Map // dir -> *World

// InstallPointFn routes verifPoint callbacks to the world owning the directory.
func InstallPointFn() {
	raft.VerifSetPointFn(func(name string, args ...interface{}) {
		if len(args) == 0 {
			return
		}
		dir, _ := args[0].(string)
		if name == "takeSnapshot.start" {
			if n := raft.VerifLookup(filepath.Dir(dir)); n != nil {
				n.VerifSnapGate()
			}
			return
		}
		if name == "value.set" && (len(args) < 2 || args[1] != ".term") {
			return
		}
		if name == "takeSnapshot.captured" {
			if n := raft.VerifLookup(filepath.Dir(dir)); n != nil {
				n.VerifSnapGate2()
			}
			return
		}
		if name == "timeoutNow" {
			// observation only: the leader designates args[1] as its successor
			if v, ok := worlds.Load(filepath.Dir(dir)); ok && len(args) >= 2 {
				w := v.(*World)
				if n := w.Node; n != nil {
					o := n.Observe()
					if x, ok := args[1].(uint64); ok {
						o.Arg = x
					}
					w.obs = append(w.obs, Obs{name, o})
				}
			}
			return
		}
		v, ok := worlds.Load(dir)
		if !ok {
			return
		}
		w := v.(*World)
		if name == "appendEntry" || name == "commitLog" {
			if n := w.Node; n != nil && len(args) >= 2 {
				o := n.Observe()
				if name == "appendEntry" {
					o.Entry = raft.VerifEntry(args[1])
				} else if x, ok := args[1].(uint64); ok {
					o.Arg = x
				}
				w.obs = append(w.obs, Obs{name, o})
			}
			if name == "appendEntry" {
				return
			}
		}
		w.ncopy++
		dst := filepath.Join(w.Base, fmt.Sprintf("crash%d", w.ncopy))
		if err := harness.CopyDir(dir, dst); err == nil {
			w.copies = append(w.copies, crashCopy{name, dst})
		}
	})
}

func Options(rng *rand.Rand) raft.Options {
	return raft.Options{
		HeartbeatTimeout:  time.Hour,
		PromoteThreshold:  time.Hour,
		SnapshotInterval:  0,
		SnapshotThreshold: 0,
		ShutdownOnRemove:  rng.Intn(2) == 0,
		Bandwidth:         1 << 20,
		LogSegmentSize:    1024 + 8*rng.Intn(64),
		SnapshotsRetain:   1 + rng.Intn(2),
	}
}

func NewWorld(rng *rand.Rand, d *harness.Driver, st *Stats) (*World, error) {
	return NewWorldID(rng, d, st, 1)
}

// NewWorldID creates the node with the given id (cluster id 7).
func NewWorldID(rng *rand.Rand, d *harness.Driver, st *Stats, self uint64) (*World, error) {
	base, err := ioutil.TempDir("", "nodediff")
	if err != nil {
		return nil, err
	}
	w := &World{Rng: rng, D: d, St: st, Self: self, CID: 7, Base: base, Dir: filepath.Join(base, "node"), Opt: Options(rng)}
	if err := os.MkdirAll(w.Dir, 0700); err != nil {
		return nil, err
	}
	if err := raft.SetIdentity(w.Dir, w.CID, w.Self); err != nil {
		return nil, err
	}
	n, err := raft.VerifOpen(w.Dir, w.Opt)
	if err != nil {
		return nil, err
	}
	w.Node = n
	w.mon = NewMonitor()
	worlds.Store(w.Dir, w)
	return w, nil
}

func (w *World) Destroy() {
	worlds.Delete(w.Dir)
	if w.Node != nil {
		w.Node.Close()
	}
	_ = os.RemoveAll(w.Base)
}

func (w *World) NextTask() uint64 { w.task++; return w.task }

// Obs returns the observations taken during the last step.
func (w *World) Obs() []Obs { return w.obs }

// Payload draws a fresh update payload.
// Payload returns a non-empty update payload that identifies its submission (clustersim's client ledger keys
// on payloads; the empty command is exercised by nodediff only).
func (w *World) Payload() string {
	for {
		if p := w.payload(); p != "" {
			return p
		}
	}
}

// AddrOf is the address convention for node ids.
func AddrOf(id uint64) string { return addrOf(id) }

// TermAt exposes termAt.
func TermAt(d *raft.VNode, i uint64) (uint64, bool) { return termAt(d, i) }

// apply performs op on the real node.
func (w *World) apply(op Op) {
	n := w.Node
	switch op.Kind {
	case "snapAround":
		parked := n.SnapRunCapture()
		if n.Panic != "" {
			return
		}
		if op.Inner != nil {
			w.apply(*op.Inner)
		}
		if parked && n.Panic == "" {
			n.SnapRunFinish()
		}
		return
	case "vote":
		n.Vote(*op.Vote)
	case "append":
		n.Append(*op.Append)
	case "install":
		n.Install(*op.Install)
	case "timeoutNow":
		n.TimeoutNow(op.Term, op.Src)
	case "identity":
		n.Identity(op.Src, op.CID, op.NID)
	case "disconnected":
		n.Disconnected(op.NID)
	case "timeout":
		n.Timeout()
	case "newEntries":
		n.NewEntries(op.Batch)
	case "changeConfig":
		n.ChangeConfig(op.Task, *op.Config)
	case "takeSnapshot":
		n.TakeSnapshot(op.Task, op.Threshold)
	case "snapRun":
		n.SnapRun()
	case "snapTaken":
		n.SnapTaken()
	case "waitStable":
		n.WaitStable(op.Task)
	case "transfer":
		n.Transfer(op.Task, op.Target)
	case "voteResult":
		if op.Elect != 0 {
			n.VoteResultVia(op.Elect, op.Src, op.Err, op.Term, op.Result)
		} else {
			n.VoteResult(op.Src, op.Err, op.Term, op.Result)
		}
	case "replUpdates":
		n.ReplUpdates(op.Updates)
	case "transferTimeout":
		n.TransferTimeout()
	case "timeoutNowResult":
		n.TimeoutNowResult(op.Src, op.Err, op.Result)
	case "newTermTimeout":
		n.NewTermTimeout()
	case "shutdown":
		n.Shutdown()
	default:
		panic("unknown op " + op.Kind)
	}
}

func (w *World) restartDigest(dir string) interface{} {
	n, err := raft.VerifOpen(dir, w.Opt)
	if err != nil {
		return "fail"
	}
	d := n.Digest()
	n.Close()
	return harness.ToCanon(d)
}

func (w *World) record(kind string, pre, real interface{}, model interface{}, op Op, note string, prop interface{}) {
	w.St.Fail(map[string]interface{}{
		"engine": "nodediff", "seed": w.Seed, "trail": append([]Op{}, w.Trail...),
		"kind": kind, "op": op, "pre": pre, "real": real, "model": model,
		"note": note, "property_failed": prop,
	})
}

// Step applies op, validates it against the model and the monitors. false: stop the sequence.
func (w *World) Step(op Op) bool {
	w.Trail = append(w.Trail, op)
	if op.Adv {
		w.Dirty = true
	}
	switch op.Kind {
	case "age":
		w.Node.AgeRound(op.ID)
		return true
	case "restart":
		return w.restart()
	}
	pre := w.Node.Digest()
	w.copies = nil
	w.obs = nil
	w.apply(op)
	w.St.Steps++

	var real map[string]interface{}
	var post raft.VNode
	if w.Node.Panic != "" {
		real = map[string]interface{}{"panic": w.Node.Panic}
	} else {
		post = w.Node.Digest()
		crash := []interface{}{}
		w.crashStates = nil
		for _, c := range w.copies {
			rd := w.restartDigest(c.dir)
			crash = append(crash, map[string]interface{}{"point": c.point, "restart": rd})
			w.crashStates = append(w.crashStates, CrashState{c.point, rd})
			w.St.Crash++
		}
		real = map[string]interface{}{"post": harness.ToCanon(post), "crash": crash}
		if op.Kind == "snapAround" {
			// what the three runs of the composite answered is not part of the comparison, nor are its crash images
			pm, _ := real["post"].(map[string]interface{})
			delete(pm, "replies")
			delete(pm, "rpcReply")
			real["crash"] = []interface{}{}
			w.crashStates = nil
		}
	}
	for _, c := range w.copies {
		_ = os.RemoveAll(c.dir)
	}
	w.copies = nil

	rollAt := []uint64{}
	if w.Node.Panic == "" {
		rollAt = post.Log.Segs
	}
	matched := false
	var models []interface{}
	mop := op.model()
	var preOp interface{}
	if op.Kind == "snapAround" {
		preOp = map[string]interface{}{"kind": "snapRun"}
		if op.Inner != nil {
			mop = op.Inner.model()
			if op.Inner.Kind == "voteResult" && op.Inner.Elect != 0 && op.Inner.Elect != pre.Term {
				mop["err"] = true
			}
		} else {
			mop, preOp = map[string]interface{}{"kind": "snapRun"}, nil
		}
	}
	staleReply := op.Kind == "voteResult" && op.Elect != 0 && op.Elect != pre.Term
	if staleReply {
		// the model: a reply of an election other than the running one is a lost reply (candidate.go
		// gives every election a fresh channel); the real node gets it over that election's channel
		mop["err"] = true
	}
	for level := 1; level <= 3 && !matched && !w.Broken; level++ {
		ans, err := w.D.Ask(map[string]interface{}{"engine": "node", "what": "step", "id": w.St.Steps,
			"pre": pre, "op": mop, "rollAt": rollAt, "level": level, "preOp": preOp})
		if err != nil {
			w.record("driver", pre, real, fmt.Sprint(err, ans), op, "driver error", nil)
			return false
		}
		outs, _ := ans["outcomes"].([]interface{})
		if preOp != nil {
			// the other linearisation of the composite: the event first, then the model's atomic snapRun (the
			// implementation captures the FSM state before the event and publishes the snapshot after it; a
			// correct implementation behaves like one of the two sequential orders)
			ans2, err2 := w.D.Ask(map[string]interface{}{"engine": "node", "what": "step", "id": w.St.Steps,
				"pre": pre, "op": mop, "rollAt": rollAt, "level": level, "postOp": preOp})
			if err2 == nil {
				o2, _ := ans2["outcomes"].([]interface{})
				outs = append(outs, o2...)
			}
		}
		models = nil
		for _, o := range outs {
			s, _ := o.(string)
			m, err := harness.Parse([]byte(s))
			if err != nil {
				continue
			}
			mm, _ := m.(map[string]interface{})
			if pc, ok := mm["panic"]; ok {
				// compare classes only: model site is "<class>.<site>"
				cls, _ := pc.(string)
				for i := 0; i < len(cls); i++ {
					if cls[i] == '.' {
						cls = cls[:i]
						break
					}
				}
				mm = map[string]interface{}{"panic": cls}
			}
			if op.Kind == "snapAround" {
				if pm, ok := mm["post"].(map[string]interface{}); ok {
					delete(pm, "replies")
					delete(pm, "rpcReply")
				}
				if _, ok := mm["crash"]; ok {
					mm["crash"] = []interface{}{}
				}
			}
			models = append(models, mm)
			if harness.Equal(harness.Canon(real), mm) {
				matched = true
			}
		}
		if len(outs) <= 1 {
			break // no iteration-order nondeterminism in this step
		}
		if level > 1 {
			w.St.Hist[fmt.Sprintf("order-level-%d", level)]++
		}
	}
	w.classify(pre, op, post, real)
	if !matched && !w.Broken {
		note := "no model outcome equals the real outcome"
		var diffs []string
		if len(models) > 0 {
			diffs = harness.Diff(harness.Canon(real), models[0])
		}
		var m0 interface{}
		if len(models) > 0 {
			m0 = models[0]
		}
		w.St.Hist["correspondence-breaks"]++
		if w.St.Hist["correspondence-breaks"] <= 4 {
			w.record("correspondence", pre, real, map[string]interface{}{"first": m0, "diff": diffs, "n": len(models)}, op, note, nil)
		}
		// keep going in search mode: the monitors look for a failing input on the implementation
		w.Broken = true
	}
	if w.Broken {
		w.St.Hist["search-mode-steps"]++
	}
	if w.Node.Panic != "" {
		if !w.Dirty {
			prop := "C15"
			if (op.Kind == "append" || op.Kind == "install") && pre.SnapIndex > 0 {
				// a follower that dies on a request of its leader can never be brought up to date
				prop = "C15/C09"
			}
			if w.Node.Panic == "fsm" {
				// the state-machine goroutine asserts that what it is asked to apply continues what it applied and
				// lies within the commit index: the orderings of C19 / the feed of C03 are broken
				prop += "/C19/C03"
			}
			note := "real node panicked (" + w.Node.Panic + ") on a request a correct cluster can send"
			if w.Node.Panic == "deadlock.snapshot" {
				note = "real node: the snapshot goroutine never handed its result to the state loop (" + w.Node.Panic + "): no `case t := <-r.snapTakenCh` will ever fire, the TakeSnapshot task never completes and Raft.release waits for ever at shutdown"
			} else if w.Node.Panic == "deadlock.shutdown" {
				note = "real node cannot shut down (" + w.Node.Panic + "): the state loop's way out (release of the role, then Raft.release, which waits for the result of a snapshot in flight) never returns within the watchdog: Shutdown never finishes and the pending tasks are never completed"
			} else if strings.HasPrefix(w.Node.Panic, "deadlock") {
				note = "real node is deadlocked (" + w.Node.Panic + "): after this operation the fsm goroutine never answers the state loop's lastApplied() — the call a GetInfo task makes — within the watchdog; the state loop waits for the fsm goroutine, which itself is blocked"
			}
			w.record("panic", pre, real, nil, op, note, prop)
		} else {
			w.St.Hist["panic-after-adversarial-input"]++
		}
		return false
	}
	if w.Dirty {
		return !w.Node.Dead
	}
	if bad := w.mon.Check(w, pre, op, post); bad != nil {
		w.record("monitor", pre, real, nil, op, bad.Note, bad.Prop)
		return false
	}
	return !w.Node.Dead
}

// restart: crash the process now (unflushed log tail is lost) and reopen.
func (w *World) restart() bool {
	pre := w.Node.Digest()
	w.ncopy++
	dst := filepath.Join(w.Base, fmt.Sprintf("restart%d", w.ncopy))
	if err := harness.CopyDir(w.Dir, dst); err != nil {
		return false
	}
	worlds.Delete(w.Dir)
	w.Node.Close()
	_ = os.RemoveAll(w.Dir)
	w.Dir = dst
	w.St.Steps++
	n, err := raft.VerifOpen(dst, w.Opt)
	var real interface{} = "fail"
	if err == nil {
		w.Node = n
		worlds.Store(w.Dir, w)
		real = harness.ToCanon(n.Digest())
	} else {
		w.Node = nil
	}
	ans, derr := w.D.Ask(map[string]interface{}{"engine": "node", "what": "crashRestart", "id": w.St.Steps, "pre": pre})
	op := Op{Kind: "restart"}
	if derr != nil {
		w.record("driver", pre, real, fmt.Sprint(derr), op, "driver error", nil)
		return false
	}
	w.St.Hist["op:restart"]++
	if !harness.Equal(ans["restart"], real) {
		w.record("correspondence", pre, real, map[string]interface{}{"first": ans["restart"], "diff": harness.Diff(real, ans["restart"])}, op, "restart differs", nil)
		return false
	}
	if err != nil {
		if !w.Dirty {
			w.record("monitor", pre, real, nil, op, "node does not restart after crash: "+err.Error(), "C10")
		}
		return false
	}
	if w.Dirty {
		return true
	}
	post := n.Digest()
	if bad := w.mon.CheckRestart(pre, post); bad != nil {
		w.record("monitor", pre, real, nil, op, bad.Note, bad.Prop)
		return false
	}
	return true
}

func (w *World) classify(pre raft.VNode, op Op, post raft.VNode, real map[string]interface{}) {
	w.St.Hist["op:"+op.Kind]++
	w.St.Hist["role:"+pre.Role]++
	res := ""
	if post.RpcReply != nil {
		res = fmt.Sprintf("r%d", post.RpcReply.Result)
		w.St.Hist[fmt.Sprintf("rpc:%s:%d", op.Kind, post.RpcReply.Result)]++
	}
	reps := []string{}
	for _, r := range post.Replies {
		k := r.Result
		for i := 0; i < len(k); i++ {
			if k[i] == ':' {
				k = k[:i]
				break
			}
		}
		reps = append(reps, k)
		w.St.Hist["reply:"+k]++
	}
	sort.Strings(reps)
	if _, ok := real["panic"]; ok {
		w.St.Hist["panic:"+w.Node.Panic]++
	}
	ncrash := 0
	if c, ok := real["crash"].([]interface{}); ok {
		ncrash = len(c)
	}
	flags := fmt.Sprintf("c%v s%v l%v q%d r%d", post.CommitIndex > pre.CommitIndex, post.SnapIndex != pre.SnapIndex,
		int(post.LastLogIndex)-int(pre.LastLogIndex), len(post.Ldr.Queue), len(post.Ldr.Repls))
	trivial := pre.Role == post.Role && len(post.Replies) == 0 && post.RpcReply == nil && ncrash == 0 &&
		post.LastLogIndex == pre.LastLogIndex && post.CommitIndex == pre.CommitIndex && post.Term == pre.Term
	if !trivial {
		key := fmt.Sprintf("%s|%s|%s|%v|%s|%d|%s|cfg%v", pre.Role, op.Kind, res, reps, post.Role, ncrash, flags,
			post.Configs.Latest.Index != pre.Configs.Latest.Index)
		if !w.St.Distinct[key] {
			w.St.Distinct[key] = true
			if len(w.St.Samples) < 5 && w.Rng.Intn(20) == 0 {
				w.St.Samples = append(w.St.Samples, map[string]interface{}{"op": op, "pre_role": pre.Role, "post_role": post.Role,
					"rpcReply": post.RpcReply, "replies": post.Replies, "crash_points": ncrash})
			}
		}
	}
}
