package nodesim

import (
	"fmt"

	"github.com/santhosh-tekuri/raft"
)

// Universe of node ids of the imaginary cluster around the node under test.
var universe = []uint64{1, 2, 3, 4, 5}

func addrOf(id uint64) string { return fmt.Sprintf("h%d:80%d", id, id) }

func (w *World) pick(xs ...uint64) uint64 { return xs[w.Rng.Intn(len(xs))] }

func (w *World) chance(pct int) bool { return w.Rng.Intn(100) < pct }

func sub(a, b uint64) uint64 {
	if a < b {
		return 0
	}
	return a - b
}

// termAt returns the term of the node's log/snapshot at index i (ok=false if unknown).
func termAt(d *raft.VNode, i uint64) (uint64, bool) {
	if i == 0 {
		return 0, true
	}
	if i == d.SnapIndex {
		return d.SnapTerm, true
	}
	if i > d.Log.Prev && i <= d.Log.Prev+uint64(len(d.Log.Entries)) {
		return d.Log.Entries[i-d.Log.Prev-1].Term, true
	}
	return 0, false
}

func voterIDs(c raft.VConfig) []uint64 {
	var vs []uint64
	for _, n := range c.Nodes {
		if n.Voter {
			vs = append(vs, n.ID)
		}
	}
	return vs
}

func isVoterIn(c *raft.VConfig, id uint64) bool {
	i := findNode(c, id)
	return i >= 0 && c.Nodes[i].Voter
}

func cloneConfig(c raft.VConfig) raft.VConfig {
	out := raft.VConfig{Index: c.Index, Term: c.Term, Nodes: append([]raft.VCNode{}, c.Nodes...)}
	return out
}

func findNode(c *raft.VConfig, id uint64) int {
	for i, n := range c.Nodes {
		if n.ID == id {
			return i
		}
	}
	return -1
}

func setNode(c *raft.VConfig, n raft.VCNode) {
	if i := findNode(c, n.ID); i >= 0 {
		c.Nodes[i] = n
		return
	}
	c.Nodes = append(c.Nodes, n)
	for i := len(c.Nodes) - 1; i > 0 && c.Nodes[i].ID < c.Nodes[i-1].ID; i-- {
		c.Nodes[i], c.Nodes[i-1] = c.Nodes[i-1], c.Nodes[i]
	}
}

func delNode(c *raft.VConfig, id uint64) {
	if i := findNode(c, id); i >= 0 {
		c.Nodes = append(c.Nodes[:i:i], c.Nodes[i+1:]...)
	}
}

// BootstrapConfig builds an initial configuration: self and some others as voters, maybe non-voters.
func (w *World) BootstrapConfig() raft.VConfig {
	c := raft.VConfig{Nodes: []raft.VCNode{}}
	nv := 1 + w.Rng.Intn(4)
	for _, id := range universe {
		if id == w.Self || nv > 1 && w.chance(60) {
			if id != w.Self {
				nv--
			}
			setNode(&c, raft.VCNode{ID: id, Addr: addrOf(id), Voter: true})
		}
	}
	// some clusters start with non-voting members (legal at bootstrap; self must be a voter)
	if w.chance(35) {
		for _, id := range universe {
			if findNode(&c, id) < 0 && w.chance(50) {
				setNode(&c, raft.VCNode{ID: id, Addr: addrOf(id)})
			}
		}
	}
	return c
}

// mutateConfig derives a submitted configuration from latest: mostly legal action requests, sometimes malformed.
func (w *World) mutateConfig(latest raft.VConfig) raft.VConfig {
	c := cloneConfig(latest)
	k := 1 + w.Rng.Intn(2)
	for ; k > 0; k-- {
		switch w.Rng.Intn(12) {
		case 0, 1: // add non-voter (with or without promote)
			for _, id := range universe {
				if findNode(&c, id) < 0 {
					act := uint64(0)
					if w.chance(70) {
						act = 1
					}
					setNode(&c, raft.VCNode{ID: id, Addr: addrOf(id), Action: act})
					break
				}
			}
		case 2, 3, 4, 5, 6: // set an action on an existing node
			if len(c.Nodes) > 0 {
				i := w.Rng.Intn(len(c.Nodes))
				n := c.Nodes[i]
				if n.Voter {
					n.Action = w.pick(2, 3, 4, 0)
				} else {
					n.Action = w.pick(1, 1, 3, 4, 0)
				}
				c.Nodes[i] = n
			}
		case 7: // change address / data
			if len(c.Nodes) > 0 {
				i := w.Rng.Intn(len(c.Nodes))
				c.Nodes[i].Data = fmt.Sprintf("d%d", w.Rng.Intn(3))
			}
		case 8: // malformed: flip voting right / add voter / remove node
			if len(c.Nodes) > 0 {
				i := w.Rng.Intn(len(c.Nodes))
				switch w.Rng.Intn(3) {
				case 0:
					c.Nodes[i].Voter = !c.Nodes[i].Voter
				case 1:
					delNode(&c, c.Nodes[i].ID)
				case 2:
					for _, id := range universe {
						if findNode(&c, id) < 0 {
							setNode(&c, raft.VCNode{ID: id, Addr: addrOf(id), Voter: true})
							break
						}
					}
				}
			}
		case 9: // malformed: stale index, bad address, invalid action combination, undefined action, all voters leaving
			switch w.Rng.Intn(5) {
			case 4:
				if len(c.Nodes) > 0 {
					i := w.Rng.Intn(len(c.Nodes))
					if w.chance(50) {
						i = findNode(&c, w.Self)
						if i < 0 {
							i = 0
						}
					}
					c.Nodes[i].Action = uint64(5 + w.Rng.Intn(5)) // not one of the five defined actions (finding F16)
				}
			case 0:
				c.Index = sub(c.Index, 1)
			case 1:
				if len(c.Nodes) > 0 {
					c.Nodes[w.Rng.Intn(len(c.Nodes))].Addr = []string{"", "nohost", "h:0", "h:x"}[w.Rng.Intn(4)]
				}
			case 2:
				if len(c.Nodes) > 0 {
					i := w.Rng.Intn(len(c.Nodes))
					if c.Nodes[i].Voter {
						c.Nodes[i].Action = 1
					} else {
						c.Nodes[i].Action = 2
					}
				}
			case 3:
				for i := range c.Nodes {
					if c.Nodes[i].Voter {
						c.Nodes[i].Action = w.pick(2, 3, 4)
					}
				}
			}
		case 10: // the leader demotes / removes itself (it keeps leading until that commits)
			if i := findNode(&c, w.Self); i >= 0 && c.Nodes[i].Voter {
				c.Nodes[i].Action = w.pick(2, 2, 3)
			}
		default:
		}
	}
	return c
}

func (w *World) payload() string {
	if w.chance(6) {
		return "" // an update command may be empty
	}
	n := 1 + w.Rng.Intn(40)
	if w.chance(15) {
		n = 100 + w.Rng.Intn(200)
	}
	b := make([]byte, n)
	for i := range b {
		b[i] = "abcdefghijklmnopqrstuvwxyz0123456789"[w.Rng.Intn(36)]
	}
	return fmt.Sprintf("u%d-%s", w.Rng.Intn(1000000), b)
}

func (w *World) otherVoter(d *raft.VNode) uint64 {
	var vs []uint64
	for _, n := range d.Configs.Latest.Nodes {
		if n.ID != w.Self && n.Voter {
			vs = append(vs, n.ID)
		}
	}
	if len(vs) == 0 || w.chance(10) {
		return w.pick(2, 3, 4, 5)
	}
	return vs[w.Rng.Intn(len(vs))]
}

func (w *World) genTerm(cur uint64) uint64 {
	switch r := w.Rng.Intn(100); {
	case r < 55:
		return cur
	case r < 80:
		return cur + 1
	case r < 88:
		return cur + 2
	case r < 96:
		return sub(cur, 1)
	default:
		return sub(cur, 2)
	}
}

func (w *World) genVote(d *raft.VNode) Op {
	q := &raft.VVoteReq{Term: w.genTerm(d.Term), Src: w.otherVoter(d), Transfer: w.chance(20)}
	if d.Leader != 0 && d.Leader != w.Self && w.chance(25) {
		q.Src = d.Leader
	}
	if d.VotedFor != 0 && d.VotedFor != w.Self && w.chance(25) {
		q.Src = d.VotedFor
	}
	switch w.Rng.Intn(6) {
	case 0: // same position
		q.LastLogIndex, q.LastLogTerm = d.LastLogIndex, d.LastLogTerm
	case 1: // longer
		q.LastLogIndex, q.LastLogTerm = d.LastLogIndex+uint64(1+w.Rng.Intn(3)), d.LastLogTerm
	case 2: // shorter
		q.LastLogIndex, q.LastLogTerm = sub(d.LastLogIndex, uint64(1+w.Rng.Intn(2))), d.LastLogTerm
	case 3: // higher term shorter
		q.LastLogIndex, q.LastLogTerm = sub(d.LastLogIndex, 1), d.LastLogTerm+1
	case 4: // lower term longer
		q.LastLogIndex, q.LastLogTerm = d.LastLogIndex+2, sub(d.LastLogTerm, 1)
	default:
		q.LastLogIndex, q.LastLogTerm = uint64(w.Rng.Intn(int(d.LastLogIndex)+3)), uint64(w.Rng.Intn(int(d.LastLogTerm)+2))
	}
	return Op{Kind: "vote", Vote: q}
}

func (w *World) genAppend(d *raft.VNode) Op {
	q := &raft.VAppendReq{Term: w.genTerm(d.Term), Src: w.otherVoter(d), Entries: []raft.VEntry{}}
	if d.Leader != 0 && d.Leader != w.Self && w.chance(80) {
		q.Src = d.Leader
	}
	last := d.LastLogIndex
	switch r := w.Rng.Intn(100); {
	case r < 45:
		q.PrevLogIndex = last
	case r < 60:
		q.PrevLogIndex = sub(last, uint64(1+w.Rng.Intn(3)))
	case r < 68:
		q.PrevLogIndex = last + uint64(1+w.Rng.Intn(2))
	case r < 76:
		q.PrevLogIndex = d.SnapIndex
	case r < 84:
		q.PrevLogIndex = d.CommitIndex
	case r < 90:
		q.PrevLogIndex = sub(d.SnapIndex, uint64(w.Rng.Intn(3)))
	case r < 95:
		q.PrevLogIndex = d.Log.Prev + uint64(w.Rng.Intn(len(d.Log.Entries)+1))
	default:
		q.PrevLogIndex = 0
	}
	if t, ok := termAt(d, q.PrevLogIndex); ok {
		q.PrevLogTerm = t
	} else {
		q.PrevLogTerm = d.LastLogTerm
	}
	if w.chance(10) {
		q.PrevLogTerm += uint64(1 + w.Rng.Intn(2))
	}
	n := 0
	if w.chance(75) {
		n = 1 + w.Rng.Intn(5)
	}
	term := q.PrevLogTerm
	conflict := w.chance(20)
	cfg := d.Configs.Latest
	if len(voterIDs(cfg)) == 0 {
		// a correct cluster's log starts with a bootstrap configuration that has voters
		cfg = w.BootstrapConfig()
	}
	for i := 0; i < n; i++ {
		idx := q.PrevLogIndex + uint64(i) + 1
		e := raft.VEntry{Index: idx, Typ: 2}
		if have, ok := termAt(d, idx); ok && idx > d.Log.Prev && idx <= last && !conflict {
			// resend what the node already has
			old := d.Log.Entries[idx-d.Log.Prev-1]
			e = old
			term = have
		} else {
			if q.Term > term && w.chance(60) {
				term = q.Term
			}
			if term == 0 {
				term = q.Term
			}
			e.Term = term
			switch r := w.Rng.Intn(100); {
			case r < 70:
				e.Typ, e.Data = 2, w.payload()
			case r < 80:
				e.Typ = 5
			default:
				c := w.legalSuccessor(cfg)
				c.Index, c.Term = 0, 0
				e.Typ, e.Cfg = 6, &c
				cfg = c
			}
		}
		q.Entries = append(q.Entries, e)
	}
	hi := q.PrevLogIndex + uint64(n)
	switch r := w.Rng.Intn(100); {
	case r < 35:
		q.LdrCommitIndex = hi
	case r < 55:
		q.LdrCommitIndex = d.CommitIndex
	case r < 70:
		q.LdrCommitIndex = hi + uint64(w.Rng.Intn(3))
	case r < 85:
		q.LdrCommitIndex = sub(hi, uint64(1+w.Rng.Intn(2)))
	default:
		q.LdrCommitIndex = uint64(w.Rng.Intn(int(hi) + 2))
	}
	op := Op{Kind: "append", Append: q}
	// a correct cluster has one leader per term and never contradicts committed entries
	if d.Role == "leader" && q.Term == d.Term {
		op.Adv = true
	}
	if q.Term == 0 {
		op.Adv = true // terms start at 1
	}
	prevT := q.PrevLogTerm
	// configuration entries the node holds, newest first: a second one is only ever appended
	// after the first is committed, so a correct leader never truncates the older of two
	var cfgIdx []uint64
	for i := len(d.Log.Entries) - 1; i >= 0; i-- {
		if d.Log.Entries[i].Typ == 6 {
			cfgIdx = append(cfgIdx, d.Log.Entries[i].Index)
		}
	}
	for _, e := range q.Entries {
		if t, ok := termAt(d, e.Index); ok && e.Index <= d.CommitIndex && t != e.Term {
			op.Adv = true
		}
		if t, ok := termAt(d, e.Index); ok && e.Index > d.Log.Prev && t != e.Term {
			// conflict: everything from e.Index on is truncated
			if t >= q.Term {
				op.Adv = true // a leader never overwrites entries of its own (or a later) term
			}
			if len(cfgIdx) >= 2 && e.Index <= cfgIdx[1] {
				op.Adv = true
			}
		}
		if e.Term > q.Term || e.Term < prevT {
			op.Adv = true
		}
		prevT = e.Term
	}
	if t, ok := termAt(d, q.PrevLogIndex); ok && q.PrevLogIndex <= d.CommitIndex && q.PrevLogIndex > 0 && t != q.PrevLogTerm && q.PrevLogIndex >= d.SnapIndex {
		// prev term contradicting a committed entry: the leader of a correct cluster holds that entry
		op.Adv = true
	}
	if q.PrevLogTerm > q.Term {
		op.Adv = true
	}
	return op
}

// legalSuccessor: what a correct leader could derive from c in one step (or c itself with tweaks).
func (w *World) legalSuccessor(c raft.VConfig) raft.VConfig {
	out := cloneConfig(c)
	switch w.Rng.Intn(5) {
	case 0:
		for _, id := range universe {
			if findNode(&out, id) < 0 {
				setNode(&out, raft.VCNode{ID: id, Addr: addrOf(id), Action: w.pick(0, 1)})
				break
			}
		}
	case 1:
		for i, n := range out.Nodes {
			if !n.Voter && n.ID != w.Self {
				out.Nodes[i].Voter, out.Nodes[i].Action = true, 0
				break
			}
		}
	case 2:
		nv := 0
		for _, n := range out.Nodes {
			if n.Voter {
				nv++
			}
		}
		for i, n := range out.Nodes {
			if n.Voter && nv > 1 && w.chance(50) {
				out.Nodes[i].Voter = false
				break
			}
		}
	case 3:
		for _, n := range out.Nodes {
			if !n.Voter {
				delNode(&out, n.ID)
				break
			}
		}
	default:
		if len(out.Nodes) > 0 {
			i := w.Rng.Intn(len(out.Nodes))
			if out.Nodes[i].Voter {
				out.Nodes[i].Action = w.pick(0, 2, 3)
			} else {
				out.Nodes[i].Action = w.pick(0, 1, 3)
			}
		}
	}
	// a correct leader only accepts configurations in which some voter stays (onChangeConfig)
	ok := false
	for _, n := range out.Nodes {
		if n.Voter && n.Action == 0 {
			ok = true
		}
	}
	if !ok {
		return cloneConfig(c)
	}
	return out
}

func (w *World) genInstall(d *raft.VNode) Op {
	q := &raft.VInstallReq{Term: w.genTerm(d.Term), Src: w.otherVoter(d)}
	if d.Leader != 0 && d.Leader != w.Self && w.chance(80) {
		q.Src = d.Leader
	}
	last := d.LastLogIndex
	switch r := w.Rng.Intn(100); {
	case r < 25:
		q.LastIndex = last + uint64(1+w.Rng.Intn(20))
	case r < 40:
		q.LastIndex = last
	case r < 55:
		q.LastIndex = d.CommitIndex
	case r < 70:
		q.LastIndex = d.Log.Prev + uint64(w.Rng.Intn(len(d.Log.Entries)+1))
	case r < 80:
		q.LastIndex = d.SnapIndex
	case r < 90:
		q.LastIndex = sub(d.SnapIndex, uint64(1+w.Rng.Intn(3)))
	default:
		q.LastIndex = uint64(1 + w.Rng.Intn(int(last)+5))
	}
	if q.LastIndex == 0 {
		q.LastIndex = 1
	}
	if t, ok := termAt(d, q.LastIndex); ok && t != 0 && w.chance(80) {
		q.LastTerm = t
	} else {
		q.LastTerm = d.LastLogTerm + uint64(w.Rng.Intn(2))
		if q.LastTerm == 0 {
			q.LastTerm = 1
		}
	}
	c := cloneConfig(d.Configs.Latest)
	if len(c.Nodes) == 0 || w.chance(30) {
		c = w.BootstrapConfig()
		if w.chance(30) {
			c = w.legalSuccessor(c)
		}
	}
	c.Index, c.Term = sub(q.LastIndex, uint64(w.Rng.Intn(3))), q.LastTerm
	if c.Index == 0 {
		c.Index = 1
	}
	q.LastConfig = c
	q.Data = []string{}
	for i := 0; i < w.Rng.Intn(4); i++ {
		q.Data = append(q.Data, w.payload())
	}
	op := Op{Kind: "install", Install: q}
	if d.Role == "leader" && q.Term == d.Term {
		op.Adv = true
	}
	if q.Term == 0 || len(voterIDs(q.LastConfig)) == 0 {
		op.Adv = true
	}
	if t, ok := termAt(d, q.LastIndex); ok && q.LastIndex > 0 {
		if q.LastIndex <= d.CommitIndex && t != q.LastTerm {
			op.Adv = true // a snapshot is a prefix of the committed sequence
		}

	}
	if q.LastTerm > q.Term {
		op.Adv = true
	}
	return op
}

func (w *World) genBatch() Op {
	n := 1 + w.Rng.Intn(4)
	op := Op{Kind: "newEntries"}
	for i := 0; i < n; i++ {
		b := raft.VNewEntry{Task: w.NextTask()}
		switch r := w.Rng.Intn(100); {
		case r < 65:
			b.Typ, b.Data = 2, w.payload()
		case r < 80:
			b.Typ = 3
		case r < 90:
			b.Typ = 4
		default:
			b.Typ = 1
		}
		op.Batch = append(op.Batch, b)
	}
	return op
}

func (w *World) genReplUpdates(d *raft.VNode) (Op, bool) {
	if len(d.Ldr.Repls) == 0 {
		return Op{}, false
	}
	n := 1
	if w.chance(25) {
		n = 2 + w.Rng.Intn(2)
	}
	op := Op{Kind: "replUpdates"}
	reported := map[uint64]uint64{} // a replication never reports a lower match index than before (Repl.match_index_sound)
	for i := 0; i < n; i++ {
		r := d.Ldr.Repls[w.Rng.Intn(len(d.Ldr.Repls))]
		if v, ok := reported[r.ID]; ok && v > r.MatchIndex {
			r.MatchIndex = v
		}
		u := raft.VReplUpdate{ID: r.ID}
		switch k := w.Rng.Intn(100); {
		case k < 70:
			u.Kind = "matchIndex"
			switch w.Rng.Intn(5) {
			case 0, 1:
				u.Val = d.LastLogIndex
			case 2:
				u.Val = r.MatchIndex + uint64(w.Rng.Intn(int(sub(d.LastLogIndex, r.MatchIndex))+1))
			case 3:
				u.Val = d.CommitIndex
			default:
				if r.Round != nil {
					u.Val = r.Round.LastIndex
				} else {
					u.Val = sub(d.LastLogIndex, 1)
				}
			}
			if u.Val < r.MatchIndex {
				u.Val = r.MatchIndex
			}
			reported[r.ID] = u.Val
		case k < 85:
			u.Kind, u.Flag = "noContact", !r.NoContact
		case k < 93:
			u.Kind = "removeLTE"
			u.Val = w.pick(d.Log.Prev, d.Ldr.RemoveLTE, r.RemoveLTE)
		default:
			u.Kind, u.Val = "newTerm", d.Term+uint64(1+w.Rng.Intn(2))
		}
		if !w.Node.CanReplUpdate(u) {
			continue
		}
		op.Updates = append(op.Updates, u)
		if u.Kind == "newTerm" {
			break
		}
	}
	return op, len(op.Updates) > 0
}

// genInner: an event of the state loop that may fall between the capture of the FSM state by the snapshot
// goroutine and the writing of the snapshot file.
func (w *World) genInner(d *raft.VNode) (Op, bool) {
	switch d.Role {
	case "leader":
		switch r := w.Rng.Intn(100); {
		case r < 45:
			return w.genBatch(), true
		case r < 75:
			return w.genReplUpdates(d)
		case r < 85:
			return w.genAppend(d), true
		default:
			return w.genInstall(d), true
		}
	default:
		switch r := w.Rng.Intn(100); {
		case r < 55:
			return w.genAppend(d), true
		case r < 85:
			return w.genInstall(d), true
		default:
			return w.genVote(d), true
		}
	}
}

// GenOp draws the next operation given the node's current state.
func (w *World) GenOp() Op {
	if len(w.Trail) == 0 {
		w.Calm = w.Rng.Intn(3) == 0
		if w.Calm {
			w.St.Hist["gen:calm-sequences"]++
		}
	}
	d := w.Node.Digest()
	boot := d.Configs.Latest.Index > 0
	if d.Closed != "" {
		// stateLoop returns at its next select once the node is closed
		return Op{Kind: "shutdown"}
	}
	// a transfer that ends (timeout, refused, leadership kept) while its timeout-now request is still unanswered: the
	// answer arrives afterwards, then the timer it would have started. On a healthy node both find a nil channel / a
	// stopped timer and do nothing
	if d.Role == "leader" && d.Closed == "" {
		if w.prevResp && !d.Ldr.Transfer.Active {
			w.late = 1
		}
		w.prevResp = d.Ldr.Transfer.Active && d.Ldr.Transfer.RespPending
		if w.late == 1 && !d.Ldr.Transfer.Active && len(d.Ldr.Repls) > 0 && w.chance(50) {
			w.late = 2
			return Op{Kind: "timeoutNowResult", Src: d.Ldr.Repls[w.Rng.Intn(len(d.Ldr.Repls))].ID, Result: 1}
		}
		if w.late == 2 && !d.Ldr.Transfer.Active && w.chance(50) {
			w.late = 0
			return Op{Kind: "newTermTimeout"}
		}
	} else {
		w.late, w.prevResp = 0, false
	}
	if w.Broken && d.Role == "leader" && len(d.Ldr.Repls) > 0 && w.chance(18) {
		// search mode: a late answer to an earlier timeout-now request, and the timer behind it. The state loop
		// listens on transfer.respCh / newTermTimer in every state; both are dead (nil / stopped) once the transfer
		// ended, so on a healthy node these are no-ops
		if w.chance(60) {
			return Op{Kind: "timeoutNowResult", Src: d.Ldr.Repls[w.Rng.Intn(len(d.Ldr.Repls))].ID, Result: 1}
		}
		return Op{Kind: "newTermTimeout"}
	}
	if w.Broken && w.chance(35) {
		// search mode (model and implementation disagreed earlier in this sequence): probe the state with the
		// operations whose results the monitors judge — snapshot + label, compaction, restart
		switch {
		case d.SnapResult != nil:
			return Op{Kind: "snapTaken"}
		case d.SnapPending != nil:
			return Op{Kind: "snapRun"}
		case w.chance(60):
			return Op{Kind: "takeSnapshot", Task: w.NextTask(), Threshold: 0}
		case w.chance(60):
			return Op{Kind: "restart"}
		default:
			return Op{Kind: "shutdown"}
		}
	}
	// pending snapshot machinery first, sometimes
	if d.SnapResult != nil && w.chance(50) {
		return Op{Kind: "snapTaken"}
	}
	if d.SnapPending != nil && w.chance(50) {
		if w.chance(35) && !w.Dirty {
			// the snapshot goroutine holds the FSM's state; before it writes the file the state loop handles
			// one more event (the interleaving the atomic snapRun of the model stands for)
			if in, ok := w.genInner(&d); ok && !in.Adv {
				return Op{Kind: "snapAround", Inner: &in}
			}
		}
		return Op{Kind: "snapRun"}
	}
	if !boot {
		switch r := w.Rng.Intn(100); {
		case r < 55 && d.LastLogIndex == 0 && d.Term == 0:
			// (bootstrapping a node that already holds entries or a term is API misuse that asserts: finding F12)
			c := w.BootstrapConfig()
			if w.chance(10) {
				c = w.mutateConfig(c)
			}
			return Op{Kind: "changeConfig", Task: w.NextTask(), Config: &c}
		case r < 70:
			return w.genAppend(&d)
		case r < 78:
			return w.genInstall(&d)
		case r < 85:
			return w.genVote(&d)
		case r < 90:
			return Op{Kind: "timeout"}
		case r < 94:
			return w.genBatch()
		default:
			return Op{Kind: "timeoutNow", Term: d.Term, Src: w.otherVoter(&d)}
		}
	}
	common := func() (Op, bool) {
		switch r := w.Rng.Intn(100); {
		case r < 8:
			return Op{Kind: "takeSnapshot", Task: w.NextTask(), Threshold: uint64(w.Rng.Intn(3) * w.Rng.Intn(4))}, true
		case r < 11:
			return Op{Kind: "restart"}, true
		case r < 13:
			return Op{Kind: "identity", Src: w.pick(2, 3, d.Leader), CID: w.pick(7, 7, 8), NID: w.pick(1, 1, 2)}, true
		case r < 15:
			return Op{Kind: "disconnected", NID: w.pick(d.Leader, 2, 3, 0)}, true
		case r < 16:
			return Op{Kind: "shutdown"}, true
		}
		return Op{}, false
	}
	if op, ok := common(); ok && !(w.Calm && (op.Kind == "restart" || op.Kind == "shutdown" || op.Kind == "disconnected")) {
		return op
	}
	if w.Calm && d.Role == "follower" && w.chance(35) {
		return Op{Kind: "timeout"}
	}
	if w.Calm && d.Role == "candidate" && w.chance(50) {
		src := w.otherVoter(&d)
		if w.voted == nil {
			w.voted = map[uint64]map[uint64]bool{}
		}
		if w.voted[d.Term] == nil {
			w.voted[d.Term] = map[uint64]bool{}
		}
		if !w.voted[d.Term][src] && isVoterIn(&d.Configs.Latest, src) {
			w.voted[d.Term][src] = true
			return Op{Kind: "voteResult", Src: src, Term: d.Term, Result: 1, Elect: d.Term}
		}
	}
	switch d.Role {
	case "follower":
		switch r := w.Rng.Intn(100); {
		case r < 50:
			return w.genAppend(&d)
		case r < 64:
			return w.genVote(&d)
		case r < 74:
			return Op{Kind: "timeout"}
		case r < 82:
			return w.genInstall(&d)
		case r < 87:
			return Op{Kind: "timeoutNow", Term: d.Term, Src: w.otherVoter(&d)}
		case r < 93:
			return w.genBatch()
		case r < 96:
			c := w.mutateConfig(d.Configs.Latest)
			return Op{Kind: "changeConfig", Task: w.NextTask(), Config: &c}
		case r < 98:
			return Op{Kind: "transfer", Task: w.NextTask(), Target: w.pick(0, 2, 3)}
		default:
			return Op{Kind: "waitStable", Task: w.NextTask()}
		}
	case "candidate":
		switch r := w.Rng.Intn(100); {
		case r < 55:
			res := w.pick(1, 1, 1, 4, 5, 6, 3)
			term := d.Term
			if w.chance(12) {
				term = d.Term + 1
			} else if w.chance(8) {
				term = sub(d.Term, 1)
			}
			op := Op{Kind: "voteResult", Src: w.otherVoter(&d), Err: w.chance(10), Term: term, Result: res, Elect: d.Term}
			if d.Term > 1 && w.chance(15) {
				// a late reply to the request of an earlier election round of this node (its term cannot be newer)
				op.Elect = d.Term - 1 - uint64(w.Rng.Intn(2))
				if op.Elect == 0 {
					op.Elect = 1
				}
				if op.Term > op.Elect {
					op.Term = op.Elect
				}
				return op
			}
			if w.voted == nil {
				w.voted = map[uint64]map[uint64]bool{}
			}
			if w.voted[d.Term] == nil {
				w.voted[d.Term] = map[uint64]bool{}
			}
			if !op.Err {
				if w.voted[d.Term][op.Src] || !isVoterIn(&d.Configs.Latest, op.Src) {
					op.Adv = true // one response per voter per election
				}
				w.voted[d.Term][op.Src] = true
			}
			return op
		case r < 65:
			return Op{Kind: "timeout"}
		case r < 78:
			return w.genVote(&d)
		case r < 92:
			return w.genAppend(&d)
		case r < 95:
			return w.genInstall(&d)
		default:
			return w.genBatch()
		}
	default: // leader
		if d.Ldr.Transfer.Active {
			w.St.Hist["gen:leader-with-transfer-active"]++
		}
		if d.Ldr.Transfer.NewTermTimer && w.chance(30) {
			return Op{Kind: "newTermTimeout"} // the target accepted timeout-now but no higher term showed up in time
		}
		if d.Ldr.Transfer.RespPending && w.chance(30) {
			src := d.Ldr.Transfer.Target
			if src == 0 && len(d.Ldr.Repls) > 0 {
				src = d.Ldr.Repls[w.Rng.Intn(len(d.Ldr.Repls))].ID
			}
			return Op{Kind: "timeoutNowResult", Src: src, Err: w.chance(20), Result: w.pick(1, 1, 1, 9)}
		}
		if d.SnapResult != nil && len(d.Ldr.Repls) > 1 && w.chance(35) {
			// a snapshot is about to be handled while one follower is out of contact and behind: the leader may only
			// compact later, when the replications have moved their views (leader.removeLTE / checkLogCompact)
			r0 := d.Ldr.Repls[w.Rng.Intn(len(d.Ldr.Repls))]
			us := []raft.VReplUpdate{}
			if !r0.NoContact {
				us = append(us, raft.VReplUpdate{ID: r0.ID, Kind: "noContact", Flag: true})
			}
			for _, r := range d.Ldr.Repls {
				if r.ID != r0.ID && r.MatchIndex < d.LastLogIndex {
					us = append(us, raft.VReplUpdate{ID: r.ID, Kind: "matchIndex", Val: d.LastLogIndex})
				}
			}
			ok := len(us) > 0
			for _, u := range us {
				ok = ok && w.Node.CanReplUpdate(u)
			}
			if ok {
				return Op{Kind: "replUpdates", Updates: us}
			}
		}
		if d.Ldr.RemoveLTE > d.Log.Prev && len(d.Ldr.Repls) > 0 && w.chance(50) {
			// the replications report that their views start at the leader's removeLTE: the delayed compaction can run
			us := []raft.VReplUpdate{}
			for _, r := range d.Ldr.Repls {
				if r.RemoveLTE < d.Ldr.RemoveLTE {
					u := raft.VReplUpdate{ID: r.ID, Kind: "removeLTE", Val: d.Ldr.RemoveLTE}
					if w.Node.CanReplUpdate(u) {
						us = append(us, u)
					}
				}
			}
			if len(us) > 0 {
				if w.chance(30) {
					us = us[:1+w.Rng.Intn(len(us))]
				}
				return Op{Kind: "replUpdates", Updates: us}
			}
		}
		pendingAct := false
		for _, n := range d.Configs.Latest.Nodes {
			if n.Action != 0 {
				pendingAct = true
			}
		}
		if pendingAct && !d.Ldr.Transfer.Active && len(d.Ldr.Repls) > 0 && w.chance(15) {
			// membership actions are still pending: a transfer that cannot complete at once holds them back
			tgt := uint64(0)
			for _, r := range d.Ldr.Repls {
				if r.Node.Voter && r.MatchIndex < d.LastLogIndex {
					tgt = r.ID
				}
			}
			if tgt != 0 {
				return Op{Kind: "transfer", Task: w.NextTask(), Target: tgt}
			}
		}
		if pendingAct && d.Ldr.Transfer.Active && d.Configs.Latest.Index != d.Configs.Committed.Index && w.chance(40) {
			// … the configuration in progress commits meanwhile (a quorum catches up, the transfer target does not)
			us := []raft.VReplUpdate{}
			for _, r := range d.Ldr.Repls {
				if r.ID != d.Ldr.Transfer.Target && r.MatchIndex < d.LastLogIndex {
					u := raft.VReplUpdate{ID: r.ID, Kind: "matchIndex", Val: d.LastLogIndex}
					if w.Node.CanReplUpdate(u) {
						us = append(us, u)
					}
				}
			}
			if len(us) > 0 {
				return Op{Kind: "replUpdates", Updates: us}
			}
		}
		if d.Ldr.Transfer.Active && w.chance(35) {
			// a non-voter finishes its promotion round while the transfer holds the promotion back
			for _, r := range d.Ldr.Repls {
				if r.Round != nil && r.MatchIndex < d.LastLogIndex {
					u := raft.VReplUpdate{ID: r.ID, Kind: "matchIndex", Val: d.LastLogIndex}
					if w.Node.CanReplUpdate(u) {
						return Op{Kind: "replUpdates", Updates: []raft.VReplUpdate{u}}
					}
				}
			}
		}
		if d.Ldr.Transfer.Active && !d.Ldr.Transfer.RespPending && !d.Ldr.Transfer.NewTermTimer && w.chance(12) {
			// the transfer does not complete in time: what was held back during it must resume
			return Op{Kind: "transferTimeout"}
		}
		if d.Ldr.Transfer.Active && !d.Ldr.Transfer.RespPending && len(d.Ldr.Repls) > 0 && w.chance(60) {
			// a transfer waits for a target: some follower (voter or not) catches up
			r := d.Ldr.Repls[w.Rng.Intn(len(d.Ldr.Repls))]
			u := raft.VReplUpdate{ID: r.ID, Kind: "matchIndex", Val: d.LastLogIndex}
			if w.Node.CanReplUpdate(u) && u.Val >= r.MatchIndex {
				return Op{Kind: "replUpdates", Updates: []raft.VReplUpdate{u}}
			}
		}
		switch r := w.Rng.Intn(100); {
		case r < 25:
			return w.genBatch()
		case r < 55:
			if op, ok := w.genReplUpdates(&d); ok {
				return op
			}
			return w.genBatch()
		case r < 67:
			c := w.mutateConfig(d.Configs.Latest)
			return Op{Kind: "changeConfig", Task: w.NextTask(), Config: &c}
		case r < 71:
			if len(d.Ldr.Repls) > 0 {
				return Op{Kind: "age", ID: d.Ldr.Repls[w.Rng.Intn(len(d.Ldr.Repls))].ID}
			}
			return w.genBatch()
		case r < 76:
			tgt := uint64(0)
			if w.chance(50) {
				tgt = w.pick(1, 2, 3, 4, 5)
				if len(d.Ldr.Repls) > 0 && w.chance(70) {
					tgt = d.Ldr.Repls[w.Rng.Intn(len(d.Ldr.Repls))].ID
				}
			}
			return Op{Kind: "transfer", Task: w.NextTask(), Target: tgt}
		case r < 80:
			if d.Ldr.Transfer.Active && (d.Ldr.Transfer.RespPending || d.Ldr.Transfer.NewTermTimer) && w.chance(25) {
				// the transfer times out while the target's answer (or the new term it promised) is still outstanding
				return Op{Kind: "transferTimeout"}
			}
			if d.Ldr.Transfer.RespPending {
				src := d.Ldr.Transfer.Target
				if src == 0 && len(d.Ldr.Repls) > 0 {
					src = d.Ldr.Repls[w.Rng.Intn(len(d.Ldr.Repls))].ID
				}
				return Op{Kind: "timeoutNowResult", Src: src, Err: w.chance(30), Result: w.pick(1, 1, 9)}
			}
			if d.Ldr.Transfer.NewTermTimer {
				return Op{Kind: "newTermTimeout"}
			}
			if d.Ldr.Transfer.Active {
				return Op{Kind: "transferTimeout"}
			}
			if len(d.Ldr.Repls) > 0 && w.chance(50) {
				// no transfer in progress: the state loop still listens on transfer.respCh and on the new-term timer in
				// every state. Both are dead once a transfer ended (nil channel / stopped timer), so the answer of an
				// earlier timeout-now request that arrives only now, or the timer behind it, must do nothing
				if w.chance(65) {
					return Op{Kind: "timeoutNowResult", Src: d.Ldr.Repls[w.Rng.Intn(len(d.Ldr.Repls))].ID, Result: 1}
				}
				return Op{Kind: "newTermTimeout"}
			}
			return w.genBatch()
		case r < 83:
			return Op{Kind: "waitStable", Task: w.NextTask()}
		case w.Calm && r < 97:
			// calm sequence: the leader keeps leading; followers report progress instead
			if op, ok := w.genReplUpdates(&d); ok {
				return op
			}
			return w.genBatch()
		case r < 86:
			return Op{Kind: "timeout"}
		case r < 92:
			return w.genVote(&d)
		case r < 97:
			return w.genAppend(&d)
		default:
			return w.genInstall(&d)
		}
	}
}
