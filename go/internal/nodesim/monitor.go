package nodesim

import (
	"fmt"

	"github.com/santhosh-tekuri/raft"
)

// Monitors evaluate the property predicates directly on what the REAL node did, so that a
// disagreement can be classified as a property failure of the implementation.

type Bad struct {
	Prop string
	Note string
}

type Monitor struct {
	granted  map[uint64]uint64 // term -> candidate granted by this node (across restarts)
	maxTerm  uint64            // highest term reported in a reply or digest
	ackVote  [2]uint64         // last acknowledged (term, vote)
}

func NewMonitor() *Monitor { return &Monitor{granted: map[uint64]uint64{}} }

func (m *Monitor) Check(w *World, pre raft.VNode, op Op, post raft.VNode) *Bad {
	w.St.MonitorChecks++
	// C05: one vote per term, grant durable, term monotone
	if op.Kind == "vote" && post.RpcReply != nil {
		if post.RpcReply.Result == 1 {
			t, c := op.Vote.Term, op.Vote.Src
			if prev, ok := m.granted[t]; ok && prev != c {
				return &Bad{"C05", fmt.Sprintf("vote granted to %d and to %d in term %d", prev, c, t)}
			}
			m.granted[t] = c
			if post.DurTerm != t || post.DurVote != c {
				return &Bad{"C05", fmt.Sprintf("vote for (%d,%d) acknowledged but durable value is (%d,%d)", t, c, post.DurTerm, post.DurVote)}
			}
		}
	}
	if post.Role == "candidate" || post.Role == "leader" {
		// self votes
		if post.VotedFor == w.Self && post.DurTerm == post.Term {
			if prev, ok := m.granted[post.Term]; ok && prev != w.Self {
				return &Bad{"C05", fmt.Sprintf("self vote in term %d after granting %d", post.Term, prev)}
			}
			m.granted[post.Term] = w.Self
		}
	}
	if post.RpcReply != nil && post.RpcReply.Term < m.maxTerm && op.Kind != "identity" {
		return &Bad{"C05", fmt.Sprintf("reply reports term %d after %d", post.RpcReply.Term, m.maxTerm)}
	}
	if post.Term < m.maxTerm {
		return &Bad{"C05", fmt.Sprintf("term went backwards %d -> %d", m.maxTerm, post.Term)}
	}
	if post.Term > m.maxTerm {
		m.maxTerm = post.Term
	}
	if post.DurTerm != post.Term || post.DurVote != post.VotedFor {
		return &Bad{"C05", "in-memory (term,vote) differs from the durable value"}
	}
	m.ackVote = [2]uint64{post.DurTerm, post.DurVote}
	return nil
}

func (m *Monitor) CheckRestart(pre, post raft.VNode) *Bad {
	if post.Term < m.maxTerm {
		return &Bad{"C10", fmt.Sprintf("term after restart %d < acknowledged %d", post.Term, m.maxTerm)}
	}
	if post.Term == m.ackVote[0] && post.VotedFor != m.ackVote[1] {
		return &Bad{"C10", "vote lost across restart"}
	}
	if post.LastLogIndex < post.SnapIndex {
		return &Bad{"C10", fmt.Sprintf("after restart log ends at %d below snapshot %d", post.LastLogIndex, post.SnapIndex)}
	}
	if post.LastLogIndex < pre.Log.Flushed {
		return &Bad{"C10", "flushed entries lost across restart"}
	}
	return nil
}
