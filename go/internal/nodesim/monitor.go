package nodesim

import (
	"fmt"
	"strings"

	"github.com/santhosh-tekuri/raft"
)

// Monitors evaluate the property predicates directly on what the REAL node did, so that a
// disagreement can be classified as a property failure of the implementation.

type Bad struct {
	Prop string
	Note string
}

type Monitor struct {
	granted map[uint64]uint64 // term -> candidate granted by this node (across restarts)
	maxTerm uint64            // highest term reported in a reply or digest
	ackVote [2]uint64         // last acknowledged (term, vote)
}

func NewMonitor() *Monitor { return &Monitor{granted: map[uint64]uint64{}} }

func (m *Monitor) Check(w *World, pre raft.VNode, op Op, post raft.VNode) *Bad {
	w.St.MonitorChecks++
	// C05: one vote per term, grant durable, term monotone
	if op.Kind == "vote" && post.RpcReply != nil {
		if post.RpcReply.Result == 1 {
			t, c := op.Vote.Term, op.Vote.Src
			if prev, ok := m.granted[t]; ok && prev != c {
				return &Bad{"C05", fmt.Sprintf("vote granted to %d and to %d in term %d", prev, c, t)}
			}
			m.granted[t] = c
			if post.DurTerm != t || post.DurVote != c {
				return &Bad{"C05", fmt.Sprintf("vote for (%d,%d) acknowledged but durable value is (%d,%d)", t, c, post.DurTerm, post.DurVote)}
			}
		}
	}
	if post.Role == "candidate" || post.Role == "leader" {
		// self votes
		if post.VotedFor == w.Self && post.DurTerm == post.Term {
			if prev, ok := m.granted[post.Term]; ok && prev != w.Self {
				return &Bad{"C05", fmt.Sprintf("self vote in term %d after granting %d", post.Term, prev)}
			}
			m.granted[post.Term] = w.Self
		}
	}
	if post.RpcReply != nil && post.RpcReply.Term < m.maxTerm && op.Kind != "identity" {
		return &Bad{"C05", fmt.Sprintf("reply reports term %d after %d", post.RpcReply.Term, m.maxTerm)}
	}
	if post.Term < m.maxTerm {
		return &Bad{"C05", fmt.Sprintf("term went backwards %d -> %d", m.maxTerm, post.Term)}
	}
	if post.Term > m.maxTerm {
		m.maxTerm = post.Term
	}
	if post.DurTerm != post.Term || post.DurVote != post.VotedFor {
		return &Bad{"C05", "in-memory (term,vote) differs from the durable value"}
	}
	m.ackVote = [2]uint64{post.DurTerm, post.DurVote}
	// C09/C15: when a leader finishes a snapshot it may discard AT ONCE — without telling its replication goroutines —
	// only what every one of them is past: the goroutines read their (older) log views at and above their match index;
	// anything further has to wait for their removeLTE reports (checkLogCompact)
	if op.Kind == "snapTaken" && pre.Role == "leader" && post.Role == "leader" && post.Log.Prev > pre.Log.Prev {
		for _, rp := range post.Ldr.Repls {
			if post.Log.Prev > rp.MatchIndex {
				return &Bad{"C09/C15", fmt.Sprintf("leader discarded its log up to %d right after a snapshot although the replication to node %d has match index %d and was not told: its goroutine still reads entries above %d through the log view it holds", post.Log.Prev, rp.ID, rp.MatchIndex, rp.MatchIndex)}
			}
		}
	}
	// C17: a follower that hears from the leader of its term postpones its election, whatever it answers — a refused
	// consistency check (prevEntryNotFound / prevTermMismatch while the leader probes a divergent tail) is still the live
	// leader talking; only a request of a stale term is not
	if (op.Kind == "append" || op.Kind == "install") && post.RpcReply != nil && post.Role == "follower" {
		reqTerm := uint64(0)
		if op.Append != nil {
			reqTerm = op.Append.Term
		} else if op.Install != nil {
			reqTerm = op.Install.Term
		}
		if reqTerm >= pre.Term && reqTerm == post.Term && !post.RpcReply.ResetTimer && post.RpcReply.Result != 3 && w.Node.Panic == "" {
			return &Bad{"C17", fmt.Sprintf("follower answered a request of the leader of its term %d with result %d and does NOT reset its election timer: it will time out and depose a live leader that is still talking to it", post.Term, post.RpcReply.Result)}
		}
	}
	// C01: a vote reply counts only in the election it was requested for
	if op.Kind == "voteResult" && op.Elect != 0 && op.Elect != pre.Term && pre.Role == "candidate" && !op.Err {
		if post.VotesNeeded != pre.VotesNeeded || (post.Role == "leader" && post.Term == pre.Term) {
			return &Bad{"C01", fmt.Sprintf("a vote reply of the election of term %d (from node %d) was counted in the election of term %d", op.Elect, op.Src, pre.Term)}
		}
	}
	// C16/C17: only a node that its leader told to time out now campaigns with the permission to disrupt a
	// live leader (voteReq.transfer)
	if pre.Role != "candidate" && post.Role == "candidate" && op.Kind != "timeoutNow" && post.CandTransfer {
		return &Bad{"C16/C17", fmt.Sprintf("node starts an election by itself (%s) with the leader's transfer permission set: no leader designated it", op.Kind)}
	}
	// C17 (and C11): a leader whose election timer fires while it cannot reach a quorum of the VOTERS of its latest
	// configuration (itself counted only if it is a voter) steps down, so that the connected majority can elect
	if op.Kind == "timeout" && pre.Role == "leader" && post.Role == "leader" && post.Term == pre.Term {
		vs := voters(pre.Configs.Latest)
		reach := 0
		for _, v := range vs {
			if v == w.Self {
				reach++
				continue
			}
			for _, r := range pre.Ldr.Repls {
				if r.ID == v && !r.NoContact {
					reach++
				}
			}
		}
		if len(vs) > 0 && reach < len(vs)/2+1 {
			return &Bad{"C17/C11", fmt.Sprintf("leader keeps leading after its timer fired although it reaches only %d of %d voters of its latest configuration", reach, len(vs))}
		}
	}
	// C06/C10: a follower that stored new entries flushes them before it acknowledges (what it acknowledged
	// survives a crash)
	if op.Kind == "append" && post.RpcReply != nil && post.RpcReply.Result == 1 && post.LastLogIndex > pre.LastLogIndex {
		if post.Log.Flushed < post.LastLogIndex {
			return &Bad{"C06/C10", fmt.Sprintf("follower acknowledged entries up to %d but its log is flushed only up to %d", post.LastLogIndex, post.Log.Flushed)}
		}
	}
	// C15: shutdown completes every pending task
	if op.Kind == "shutdown" && w.Node != nil && w.Node.Panic == "" {
		if ids := w.Node.PendingTasks(); len(ids) > 0 {
			return &Bad{"C15", fmt.Sprintf("the node shut down but %d submitted task(s) never completed (first: task %d)", len(ids), ids[0])}
		}
	}
	// the remaining groups are independent: report every property that fails on this step
	var all *Bad
	for _, f := range []func(*World, raft.VNode, Op, raft.VNode) *Bad{m.checkObs, m.checkCrash, m.checkSnapshotLabel, m.checkInfo} {
		if bad := f(w, pre, op, post); bad != nil {
			if all == nil {
				all = bad
				continue
			}
			for _, p := range strings.Split(bad.Prop, "/") {
				if !strings.Contains("/"+all.Prop+"/", "/"+p+"/") {
					all.Prop += "/" + p
				}
			}
			all.Note += "; " + bad.Note
		}
	}
	return all
}

// checkInfo: C19 on the state a status report would show after this step.
func (m *Monitor) checkInfo(w *World, pre raft.VNode, op Op, post raft.VNode) *Bad {
	if post.CommitIndex < pre.CommitIndex {
		return &Bad{"C19", fmt.Sprintf("commit index regressed %d -> %d", pre.CommitIndex, post.CommitIndex)}
	}
	if post.Fsm.Index < pre.Fsm.Index {
		return &Bad{"C19", fmt.Sprintf("last applied regressed %d -> %d", pre.Fsm.Index, post.Fsm.Index)}
	}
	if post.SnapIndex < pre.SnapIndex {
		return &Bad{"C19", fmt.Sprintf("snapshot index regressed %d -> %d", pre.SnapIndex, post.SnapIndex)}
	}
	if post.Fsm.Index > post.CommitIndex {
		// the state machine was fed entries beyond the commit index: also C03 (only committed commands are
		// applied) and C07 (a dirty read would expose an uncommitted update)
		return &Bad{"C19/C03/C07", fmt.Sprintf("last applied %d is beyond the commit index %d: uncommitted entries were applied", post.Fsm.Index, post.CommitIndex)}
	}
	if !(post.Fsm.Index <= post.CommitIndex && post.CommitIndex <= post.LastLogIndex) {
		return &Bad{"C19", fmt.Sprintf("ordering lastApplied %d <= committed %d <= lastLogIndex %d violated", post.Fsm.Index, post.CommitIndex, post.LastLogIndex)}
	}
	if !(post.Log.Prev <= post.SnapIndex && post.SnapIndex <= post.LastLogIndex) {
		// also C09: a log compacted beyond the newest snapshot can neither restart nor serve a lagging follower
		return &Bad{"C19/C09", fmt.Sprintf("ordering firstLogIndex-1 %d <= snapshotIndex %d <= lastLogIndex %d violated", post.Log.Prev, post.SnapIndex, post.LastLogIndex)}
	}
	if post.Configs.Committed.Index > post.Configs.Latest.Index {
		return &Bad{"C19", "committed configuration index above latest configuration index"}
	}
	// C03/C09 (node-local form): what the state machine holds is the replay of the node's own newest snapshot
	// plus the update entries of its own log up to the applied index — whatever mixture of applying from the
	// log, from the leader's queue, restoring and installing produced it
	if post.Fsm.Index >= post.SnapIndex && post.Fsm.Index <= post.LastLogIndex {
		var want []string
		ok := post.SnapIndex == 0
		for _, sf := range post.SnapsDisk {
			if sf.Index == post.SnapIndex && post.SnapIndex > 0 {
				want, ok = append(want, sf.Data...), true
			}
		}
		if ok && post.Log.Prev <= post.SnapIndex {
			for _, e := range post.Log.Entries {
				if e.Index > post.SnapIndex && e.Index <= post.Fsm.Index && e.Typ == 2 {
					want = append(want, e.Data)
				}
			}
			if fmt.Sprint(want) != fmt.Sprint(post.Fsm.Applied) {
				n := len(want)
				if len(post.Fsm.Applied) < n {
					n = len(post.Fsm.Applied)
				}
				k := 0
				for k < n && want[k] == post.Fsm.Applied[k] {
					k++
				}
				return &Bad{"C03/C09", fmt.Sprintf("state machine at applied index %d holds %d updates, replaying snapshot %d + own log gives %d (first difference at update %d)", post.Fsm.Index, len(post.Fsm.Applied), post.SnapIndex, len(want), k+1)}
			}
		}
	}
	// the configuration in force is the newest configuration entry the node holds (log, else snapshot label,
	// else none): a configuration whose entry was overwritten must be forgotten (C19; it is also what C08's
	// "every configuration adopted" refers to)
	want, _ := newestConfigAtOrBelow(&post, post.LastLogIndex)
	if want.Index != post.Configs.Latest.Index || (want.Index > 0 && fmt.Sprint(want.Nodes) != fmt.Sprint(post.Configs.Latest.Nodes)) {
		return &Bad{"C19/C08/C12", fmt.Sprintf("latest configuration (index %d) is not the newest configuration entry in log/snapshot (index %d)", post.Configs.Latest.Index, want.Index)}
	}
	return nil
}

func voters(c raft.VConfig) []uint64 {
	var vs []uint64
	for _, n := range c.Nodes {
		if n.Voter {
			vs = append(vs, n.ID)
		}
	}
	return vs
}

// checkObs evaluates the leader-side guards exactly where the real code acts.
func (m *Monitor) checkObs(w *World, pre raft.VNode, op Op, post raft.VNode) *Bad {
	for _, ob := range w.obs {
		o := ob.O
		if o.Role != "leader" {
			continue
		}
		w.St.Hist["obs:"+ob.Point]++
		switch ob.Point {
		case "timeoutNow":
			// C16: the designated successor is another voter of the latest configuration that holds
			// every entry the leader accepted
			isVoter := false
			for _, v := range voters(o.Latest) {
				if v == o.Arg {
					isVoter = true
				}
			}
			if nv := len(o.Latest.Nodes) - len(voters(o.Latest)); nv > 0 {
				w.St.Hist["obs:timeoutNow-with-nonvoters-present"]++
			}
			if !o.Transfer {
				return &Bad{"C16", fmt.Sprintf("leader designates node %d as its successor although no leadership transfer is in progress: client commands and membership changes are still accepted, the successor may lack entries the leader accepts from now on", o.Arg)}
			}
			if !isVoter || o.Arg == w.Self {
				return &Bad{"C16", fmt.Sprintf("leader designates node %d as its successor, which is not another voter of the latest configuration", o.Arg)}
			}
			if o.Match[o.Arg] != o.LastLogIndex {
				return &Bad{"C16", fmt.Sprintf("leader designates node %d as its successor at match index %d, its own log ends at %d", o.Arg, o.Match[o.Arg], o.LastLogIndex)}
			}
		case "commitLog":
			// C06: the leader advances its commit index to Arg: a majority of the voters of the
			// configuration in force (Latest) must hold it durably; self only if voter
			if o.Arg <= o.CommitIndex {
				continue
			}
			vs := voters(o.Latest)
			cnt := 0
			for _, v := range vs {
				if v == w.Self {
					if o.Flushed >= o.Arg {
						cnt++
					}
				} else if o.Match[v] >= o.Arg {
					cnt++
				}
			}
			if 2*cnt <= len(vs) {
				prop, who := "C06", ""
				selfVoter := false
				for _, v := range vs {
					if v == w.Self {
						selfVoter = true
					}
				}
				if !selfVoter {
					// only acknowledgements of non-voters (the leader's own included) can have carried this commit
					prop, who = "C06/C11", " (the leader is not a voter: a non-voter's acknowledgement counted)"
				}
				return &Bad{prop, fmt.Sprintf("leader commits index %d acknowledged by %d of %d voters of the latest configuration%s", o.Arg, cnt, len(vs), who)}
			}
		case "appendEntry":
			if o.Entry == nil || o.Entry.Typ != 6 || o.Entry.Cfg == nil {
				continue
			}
			// observation is taken right after the append, before changeConfig: Latest is still the predecessor
			prevC, newC := o.Latest, *o.Entry.Cfg
			// C08: one voter at a time, a voter remains
			pv, nv := map[uint64]bool{}, map[uint64]bool{}
			for _, v := range voters(prevC) {
				pv[v] = true
			}
			for _, v := range voters(newC) {
				nv[v] = true
			}
			diff := 0
			for v := range pv {
				if !nv[v] {
					diff++
				}
			}
			for v := range nv {
				if !pv[v] {
					diff++
				}
			}
			if diff > 1 || len(nv) == 0 {
				return &Bad{"C08", fmt.Sprintf("configuration appended at %d changes %d voters / leaves %d voters", o.Entry.Index, diff, len(nv))}
			}
			// C08: only when the previous configuration is committed, the leader has committed an entry of
			// its own term, and no transfer is in progress
			if o.Latest.Index != o.Committed.Index {
				return &Bad{"C08", fmt.Sprintf("configuration appended at %d while configuration %d is not committed", o.Entry.Index, o.Latest.Index)}
			}
			if o.CommitIndex < o.StartIndex {
				return &Bad{"C08", fmt.Sprintf("configuration appended at %d before the leader committed an entry of its term (commit %d < start %d)", o.Entry.Index, o.CommitIndex, o.StartIndex)}
			}
			// the same judged from the log itself, not from the leader's own bookkeeping: the entry at the commit
			// index is of the leader's term (a leader commits own-term entries only, and only those count)
			if t, ok := termAt(&post, o.CommitIndex); ok && o.CommitIndex > 0 && t != o.Term && o.Entry.Term == o.Term {
				return &Bad{"C08", fmt.Sprintf("leader of term %d appended configuration at %d while its commit index %d holds an entry of term %d: no entry of its own term is committed yet", o.Term, o.Entry.Index, o.CommitIndex, t)}
			}
			if o.Transfer {
				return &Bad{"C16", fmt.Sprintf("configuration appended at %d during leadership transfer", o.Entry.Index)}
			}
			// C11: promotion only after a completed round that caught up
			for v := range nv {
				if !pv[v] && v != w.Self {
					last, has := o.RoundLast[v]
					if !has {
						return &Bad{"C11", fmt.Sprintf("node %d promoted without a promotion round", v)}
					}
					if o.Match[v] < last {
						return &Bad{"C11", fmt.Sprintf("node %d promoted with matchIndex %d below its round's target %d", v, o.Match[v], last)}
					}
				}
			}
		}
	}
	return nil
}

// checkCrash: C10 on every crash point of the step.
func (m *Monitor) checkCrash(w *World, pre raft.VNode, op Op, post raft.VNode) *Bad {
	for _, c := range w.crashStates {
		mm, ok := c.Restart.(map[string]interface{})
		if !ok {
			return &Bad{"C10", "node does not restart from the directory as of crash point " + c.Point}
		}
		num := func(k string) uint64 {
			s, _ := mm[k].(string)
			var x uint64
			fmt.Sscanf(s, "#%d", &x)
			return x
		}
		lg, _ := mm["log"].(map[string]interface{})
		var prev uint64
		if lg != nil {
			s, _ := lg["prev"].(string)
			fmt.Sscanf(s, "#%d", &prev)
		}
		if num("lastLogIndex") < num("snapIndex") {
			return &Bad{"C10", fmt.Sprintf("crash at %s: restart has last log index %d below snapshot index %d", c.Point, num("lastLogIndex"), num("snapIndex"))}
		}
		if prev > num("snapIndex") {
			return &Bad{"C10", fmt.Sprintf("crash at %s: restart has log starting after %d but snapshot at %d", c.Point, prev, num("snapIndex"))}
		}
		if num("term") < pre.Term {
			return &Bad{"C10", fmt.Sprintf("crash at %s: restart has term %d below %d", c.Point, num("term"), pre.Term)}
		}
		// the log is contiguous with the snapshot in CONTENT too: an entry the log still holds at the snapshot
		// index is the entry the snapshot covers (same term); otherwise the log is a stale branch
		if si, st := num("snapIndex"), num("snapTerm"); si > 0 && lg != nil {
			if es, ok := lg["entries"].([]interface{}); ok {
				for _, x := range es {
					e, _ := x.(map[string]interface{})
					var ei, et uint64
					a, _ := e["index"].(string)
					b, _ := e["term"].(string)
					fmt.Sscanf(a, "#%d", &ei)
					fmt.Sscanf(b, "#%d", &et)
					if ei == si && et != st {
						return &Bad{"C10/C04/C09", fmt.Sprintf("crash at %s: restart has snapshot (%d,%d) but its log holds (%d,%d): the log is not the continuation of the snapshot", c.Point, si, st, ei, et)}
					}
				}
			}
		}
	}
	return nil
}

// newestConfigAtOrBelow: the newest configuration entry with index <= idx in the log, else the snapshot label.
func newestConfigAtOrBelow(d *raft.VNode, idx uint64) (raft.VConfig, bool) {
	for i := len(d.Log.Entries) - 1; i >= 0; i-- {
		e := d.Log.Entries[i]
		if e.Index <= idx && e.Typ == 6 && e.Cfg != nil {
			c := *e.Cfg
			c.Index, c.Term = e.Index, e.Term
			return c, true
		}
	}
	for _, s := range d.SnapsDisk {
		if s.Index == d.SnapIndex && s.Index <= idx {
			return s.Config, true
		}
	}
	return raft.VConfig{}, false
}

// checkSnapshotLabel: C12 when a snapshot was stored by this step.
func (m *Monitor) checkSnapshotLabel(w *World, pre raft.VNode, op Op, post raft.VNode) *Bad {
	if (op.Kind != "snapRun" && op.Kind != "snapAround") || post.SnapResult == nil || post.SnapResult.Err != "" {
		return nil
	}
	idx := post.SnapResult.Index
	var label *raft.VSnapFile
	for i := range post.SnapsDisk {
		if post.SnapsDisk[i].Index == idx {
			label = &post.SnapsDisk[i]
		}
	}
	if label == nil {
		// retention may have removed it at once when a newer snapshot (an installation that arrived while this
		// one was being written) is on disk: superseded, nothing to judge
		for i := range post.SnapsDisk {
			if post.SnapsDisk[i].Index > idx {
				return nil
			}
		}
		return &Bad{"C12", fmt.Sprintf("snapshot %d reported but not on disk", idx)}
	}
	if idx != pre.Fsm.Index || label.Term != pre.Fsm.Term {
		return &Bad{"C12", fmt.Sprintf("snapshot labelled (%d,%d) but the state machine was at (%d,%d)", idx, label.Term, pre.Fsm.Index, pre.Fsm.Term)}
	}
	want, ok := newestConfigAtOrBelow(&pre, idx)
	if ok && (want.Index != label.Config.Index || fmt.Sprint(want.Nodes) != fmt.Sprint(label.Config.Nodes)) {
		return &Bad{"C12", fmt.Sprintf("snapshot at %d labelled with configuration %d, the configuration in force there is %d", idx, label.Config.Index, want.Index)}
	}
	return nil
}

func (m *Monitor) CheckRestart(pre, post raft.VNode) *Bad {
	if post.Term < m.maxTerm {
		return &Bad{"C10", fmt.Sprintf("term after restart %d < acknowledged %d", post.Term, m.maxTerm)}
	}
	if post.Term == m.ackVote[0] && post.VotedFor != m.ackVote[1] {
		return &Bad{"C10", "vote lost across restart"}
	}
	if post.LastLogIndex < post.SnapIndex {
		return &Bad{"C10", fmt.Sprintf("after restart log ends at %d below snapshot %d", post.LastLogIndex, post.SnapIndex)}
	}
	if post.LastLogIndex < pre.Log.Flushed {
		return &Bad{"C10", "flushed entries lost across restart"}
	}
	return nil
}
