-- Root of the RaftVerif library: models, lemmas and property theorems.
import RaftVerif.Model.Config
import RaftVerif.Model.Log
import RaftVerif.Model.Node
import RaftVerif.Model.Handlers
import RaftVerif.Model.Step
import RaftVerif.Lemmas.Frame
import RaftVerif.Lemmas.Inv
import RaftVerif.Lemmas.StepInv
import RaftVerif.Lemmas.Majority
import RaftVerif.Props.C05
import RaftVerif.Props.C06
import RaftVerif.Props.C08
import RaftVerif.Props.C11
import RaftVerif.Props.C16
import RaftVerif.Props.C17
import RaftVerif.Props.C18
