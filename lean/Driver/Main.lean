import Lean.Data.Json
import Driver.Codec
import Driver.SegLog
import Driver.Node
import Driver.Conn
import Driver.Repl
open Lean

/-- Dispatch one JSON case to the engine named in its "engine" field; the "id" field is echoed. -/
def dispatch (j : Json) : Json :=
  let id := (j.getObjVal? "id").toOption.getD Json.null
  let ans :=
    match j.getObjValAs? String "engine" with
    | .ok "codec"  => Driver.Codec.handle j
    | .ok "seglog" => Driver.SegLog.handle j
    | .ok "node"   => Driver.Node.handle j
    | .ok "conn"   => Driver.Conn.handle j
    | .ok "repl"   => Driver.Repl.handle j
    | .ok e        => Json.mkObj [("error", Json.str s!"unknown engine {e}")]
    | .error e     => Json.mkObj [("error", Json.str e)]
  ans.setObjVal! "id" id

partial def loop (h : IO.FS.Stream) (out : IO.FS.Stream) : IO Unit := do
  let line ← h.getLine
  if line.isEmpty then return ()
  let ans := match Json.parse line with
    | .ok j => dispatch j
    | .error e => Json.mkObj [("error", Json.str s!"parse: {e}")]
  out.putStrLn ans.compress
  out.flush
  loop h out

def main : IO Unit := do loop (← IO.getStdin) (← IO.getStdout)
