import Lean.Data.Json
import RaftVerif.Model.Codec
open Lean
open RaftVerif.Codec

/-!
JSON glue for engine "codec" (property C18).

Request : `{"engine":"codec","op":…,"kind":…,…}`; answer: the model's bytes (hex), decoded
value (canonical JSON), consumed count, error kind.  Canonical JSON: uint64 as decimal
strings, bytes as hex strings, small enums as numbers, nil as null, maps as lists.

ops
* `encode`    `{kind,value}`                         → `{enc}` (+ `encPanics`)
* `decode`    `{kind,bytes[,pad]}`                   → `{value,consumed}` | `{err}` (+ `padded`)
* `full`      `{kind,value,bytes,tail,prefixes}`     → `{enc,encPanics,dec,pref}`: encode the value,
              decode `bytes ++ tail`, decode each listed proper prefix of `bytes`
* `buffered`  `{bytes}`                              → `{buffered}`
* `valuefile` `{a,b}`                                → `{name,parsed,signed}` (`signed` = pre-fix reader)
* `valueparse` `{name}`                              → `{parsed,signed}`

kinds: entry req timeoutNowReq identityReq voteReq appendReq installSnapReq resp (and
identityResp voteResp installSnapResp timeoutNowResp) appendResp node config snapshotMeta
replication info taskResp (value has `task`; decode kind `taskResp:<typ>`) adminReq msg
stream (value `{"msgs":[…]}`; decode kind `stream:<n>`).
-/

namespace Driver.Codec

/-! ## hex / decimal -/

def hexDigit (n : Nat) : Char :=
  if n < 10 then Char.ofNat (48 + n) else Char.ofNat (87 + n)

def toHex (b : Bytes) : String :=
  String.ofList (b.foldr (fun x acc => hexDigit (x.toNat / 16) :: hexDigit (x.toNat % 16) :: acc) [])

def hexVal (c : Char) : Option Nat :=
  if '0' ≤ c ∧ c ≤ '9' then some (c.toNat - 48)
  else if 'a' ≤ c ∧ c ≤ 'f' then some (c.toNat - 87)
  else if 'A' ≤ c ∧ c ≤ 'F' then some (c.toNat - 55)
  else none

def fromHexAux : List Char → List UInt8 → Except String Bytes
  | [], acc => .ok acc.reverse
  | [_], _ => .error "odd hex length"
  | a :: b :: rest, acc =>
    match hexVal a, hexVal b with
    | some x, some y => fromHexAux rest (UInt8.ofNat (x * 16 + y) :: acc)
    | _, _ => .error "bad hex digit"

def fromHex (s : String) : Except String Bytes := fromHexAux s.toList []

/-! ## JSON field access -/

def fld (j : Json) (k : String) : Except String Json := j.getObjVal? k

def fU64 (j : Json) (k : String) : Except String UInt64 := do
  let s ← (← fld j k).getStr?
  match s.toNat? with
  | some n => if n < 2 ^ 64 then pure (UInt64.ofNat n) else throw s!"{k}: out of range"
  | none => throw s!"{k}: not a decimal string"

def fU8 (j : Json) (k : String) : Except String UInt8 := do
  let n ← (← fld j k).getNat?
  if n < 256 then pure (UInt8.ofNat n) else throw s!"{k}: out of range"

def fBool (j : Json) (k : String) : Except String Bool := do (← fld j k).getBool?

def fBytes (j : Json) (k : String) : Except String Bytes := do
  fromHex (← (← fld j k).getStr?)

def fList (j : Json) (k : String) : Except String (List Json) := do
  let v ← fld j k
  if v.isNull then pure [] else
  let a ← v.getArr?
  pure a.toList

def fOpt (j : Json) (k : String) : Except String (Option Json) :=
  match j.getObjVal? k with
  | .ok v => if v.isNull then pure none else pure (some v)
  | .error _ => pure none

def jU64 (v : UInt64) : Json := Json.str (toString v.toNat)
def jU8 (v : UInt8) : Json := toJson v.toNat
def jBytes (b : Bytes) : Json := Json.str (toHex b)

/-! ## values -/

def pEntry (j : Json) : Except String Entry := do
  pure ⟨← fU64 j "index", ← fU64 j "term", ← fU8 j "typ", ← fBytes j "data"⟩
def jEntry (e : Entry) : Json :=
  Json.mkObj [("index", jU64 e.index), ("term", jU64 e.term), ("typ", jU8 e.typ), ("data", jBytes e.data)]

def pNode (j : Json) : Except String Node := do
  pure ⟨← fU64 j "id", ← fBytes j "addr", ← fBool j "voter", ← fBytes j "data", ← fU8 j "action"⟩
def jNode (n : Node) : Json :=
  Json.mkObj [("id", jU64 n.id), ("addr", jBytes n.addr), ("voter", Json.bool n.voter),
    ("data", jBytes n.data), ("action", jU8 n.action)]

def pConfig (j : Json) : Except String Config := do
  let ns ← (← fList j "nodes").mapM pNode
  pure ⟨ns, ← fU64 j "index", ← fU64 j "term"⟩
def jConfig (c : Config) : Json :=
  Json.mkObj [("index", jU64 c.index), ("term", jU64 c.term),
    ("nodes", Json.arr (c.nodes.map jNode).toArray)]

def pReq (j : Json) : Except String Req := do pure ⟨← fU64 j "term", ← fU64 j "src"⟩
def reqFields (r : Req) : List (String × Json) := [("term", jU64 r.term), ("src", jU64 r.src)]
def jReq (r : Req) : Json := Json.mkObj (reqFields r)

def pIdentityReq (j : Json) : Except String IdentityReq := do
  pure ⟨← pReq j, ← fU64 j "cid", ← fU64 j "nid"⟩
def jIdentityReq (r : IdentityReq) : Json :=
  Json.mkObj (reqFields r.req ++ [("cid", jU64 r.cid), ("nid", jU64 r.nid)])

def pVoteReq (j : Json) : Except String VoteReq := do
  pure ⟨← pReq j, ← fU64 j "lastLogIndex", ← fU64 j "lastLogTerm", ← fBool j "transfer"⟩
def jVoteReq (r : VoteReq) : Json :=
  Json.mkObj (reqFields r.req ++ [("lastLogIndex", jU64 r.lastLogIndex),
    ("lastLogTerm", jU64 r.lastLogTerm), ("transfer", Json.bool r.transfer)])

def pAppendReq (j : Json) : Except String AppendReq := do
  pure ⟨← pReq j, ← fU64 j "prevLogIndex", ← fU64 j "prevLogTerm", ← fU64 j "ldrCommitIndex",
    ← fU64 j "numEntries"⟩
def jAppendReq (r : AppendReq) : Json :=
  Json.mkObj (reqFields r.req ++ [("prevLogIndex", jU64 r.prevLogIndex),
    ("prevLogTerm", jU64 r.prevLogTerm), ("ldrCommitIndex", jU64 r.ldrCommitIndex),
    ("numEntries", jU64 r.numEntries)])

def pInstallSnapReq (j : Json) : Except String InstallSnapReq := do
  pure ⟨← pReq j, ← fU64 j "lastIndex", ← fU64 j "lastTerm", ← pConfig (← fld j "lastConfig"),
    ← fU64 j "size"⟩
def jInstallSnapReq (r : InstallSnapReq) : Json :=
  Json.mkObj (reqFields r.req ++ [("lastIndex", jU64 r.lastIndex), ("lastTerm", jU64 r.lastTerm),
    ("lastConfig", jConfig r.lastConfig), ("size", jU64 r.size)])

def pRespErr (j : Json) : Except String RespErr := do
  let text ← fBytes j "text"
  match ← fOpt j "op" with
  | none => pure (.plain text)
  | some o => pure (.op (← fromHex (← o.getStr?)) text)
def jRespErr : RespErr → Json
  | .plain t => Json.mkObj [("op", Json.null), ("text", jBytes t)]
  | .op o t => Json.mkObj [("op", jBytes o), ("text", jBytes t)]

def pResp (j : Json) : Except String Resp := do
  let e ← match ← fOpt j "err" with
    | none => pure none
    | some v => pure (some (← pRespErr v))
  pure ⟨← fU64 j "term", ← fU8 j "result", e⟩
def respFields (r : Resp) : List (String × Json) :=
  [("term", jU64 r.term), ("result", jU8 r.result),
   ("err", match r.err with | none => Json.null | some e => jRespErr e)]
def jResp (r : Resp) : Json := Json.mkObj (respFields r)

def pAppendResp (j : Json) : Except String AppendResp := do
  pure ⟨← pResp j, ← fU64 j "lastLogIndex"⟩
def jAppendResp (r : AppendResp) : Json :=
  Json.mkObj (respFields r.resp ++ [("lastLogIndex", jU64 r.lastLogIndex)])

def pSnapshotMeta (j : Json) : Except String SnapshotMeta := do
  pure ⟨← fU64 j "index", ← fU64 j "term", ← pConfig (← fld j "config"), ← fU64 j "size"⟩
def jSnapshotMeta (m : SnapshotMeta) : Json :=
  Json.mkObj [("index", jU64 m.index), ("term", jU64 m.term), ("config", jConfig m.config),
    ("size", jU64 m.size)]

def pReplication (j : Json) : Except String Replication := do
  let u ← match ← fOpt j "unreachable" with
    | none => pure none
    | some _ => pure (some (← fU64 j "unreachable"))
  let e ← match ← fOpt j "err" with
    | none => pure none
    | some _ => pure (some (← fBytes j "err"))
  pure ⟨← fU64 j "id", ← fU64 j "matchIndex", u, e, ← fBytes j "errMessage", ← fU64 j "round"⟩
def jReplication (r : Replication) : Json :=
  Json.mkObj [("id", jU64 r.id), ("matchIndex", jU64 r.matchIndex),
    ("unreachable", match r.unreachable with | none => Json.null | some v => jU64 v),
    ("err", match r.err with | none => Json.null | some v => jBytes v),
    ("errMessage", jBytes r.errMessage), ("round", jU64 r.round)]

def pInfo (j : Json) : Except String Info := do
  let fl ← (← fList j "followers").mapM pReplication
  pure ⟨← fU64 j "cid", ← fU64 j "nid", ← fBytes j "addr", ← fU64 j "term", ← fU8 j "state",
    ← fU64 j "leader", ← fU64 j "snapshotIndex", ← fU64 j "firstLogIndex", ← fU64 j "lastLogIndex",
    ← fU64 j "lastLogTerm", ← fU64 j "committed", ← fU64 j "lastApplied",
    ← pConfig (← fld j "cfgCommitted"), ← pConfig (← fld j "cfgLatest"), fl⟩
def jInfo (i : Info) : Json :=
  Json.mkObj [("cid", jU64 i.cid), ("nid", jU64 i.nid), ("addr", jBytes i.addr), ("term", jU64 i.term),
    ("state", jU8 i.state), ("leader", jU64 i.leader), ("snapshotIndex", jU64 i.snapshotIndex),
    ("firstLogIndex", jU64 i.firstLogIndex), ("lastLogIndex", jU64 i.lastLogIndex),
    ("lastLogTerm", jU64 i.lastLogTerm), ("committed", jU64 i.committed),
    ("lastApplied", jU64 i.lastApplied), ("cfgCommitted", jConfig i.cfgCommitted),
    ("cfgLatest", jConfig i.cfgLatest),
    ("followers", Json.arr (i.followers.map jReplication).toArray)]

def pTaskErr (j : Json) : Except String TaskErr := do
  let k ← (← fld j "kind").getStr?
  match k with
  | "notLeader" => pure (.notLeader (← pNode (← fld j "leader")) (← fBool j "lost"))
  | "plain" => pure (.plain (← fBytes j "s"))
  | "temporary" => pure (.temporary (← fBytes j "s"))
  | "inProgress" => pure (.inProgress (← fBytes j "s"))
  | "other" => pure (.other (← fBytes j "typeName") (← fBytes j "text"))
  | _ => throw s!"bad task error kind {k}"
def jTaskErr : TaskErr → Json
  | .notLeader n lost => Json.mkObj [("kind", "notLeader"), ("leader", jNode n), ("lost", Json.bool lost)]
  | .plain s => Json.mkObj [("kind", "plain"), ("s", jBytes s)]
  | .temporary s => Json.mkObj [("kind", "temporary"), ("s", jBytes s)]
  | .inProgress s => Json.mkObj [("kind", "inProgress"), ("s", jBytes s)]
  | .other tn t => Json.mkObj [("kind", "other"), ("typeName", jBytes tn), ("text", jBytes t)]

def pTaskResult (j : Json) : Except String TaskResult := do
  let k ← (← fld j "kind").getStr?
  match k with
  | "err" => pure (.err (← pTaskErr (← fld j "err")))
  | "none" => pure .none
  | "index" => pure (.index (← fU64 j "v"))
  | "config" => pure (.config (← pConfig (← fld j "c")))
  | "info" => pure (.info (← pInfo (← fld j "i")))
  | _ => throw s!"bad task result kind {k}"
def jTaskResult : TaskResult → Json
  | .err e => Json.mkObj [("kind", "err"), ("err", jTaskErr e)]
  | .none => Json.mkObj [("kind", "none")]
  | .index v => Json.mkObj [("kind", "index"), ("v", jU64 v)]
  | .config c => Json.mkObj [("kind", "config"), ("c", jConfig c)]
  | .info i => Json.mkObj [("kind", "info"), ("i", jInfo i)]

def pAdminReq (j : Json) : Except String AdminReq := do
  let k ← (← fld j "kind").getStr?
  match k with
  | "info" => pure .info
  | "changeConfig" => pure (.changeConfig (← pConfig (← fld j "c")))
  | "waitForStable" => pure .waitForStable
  | "takeSnapshot" => pure (.takeSnapshot (← fU64 j "threshold"))
  | "transferLdr" => pure (.transferLdr (← fU64 j "target") (← fU64 j "timeout"))
  | _ => throw s!"bad admin request kind {k}"
def jAdminReq : AdminReq → Json
  | .info => Json.mkObj [("kind", "info")]
  | .changeConfig c => Json.mkObj [("kind", "changeConfig"), ("c", jConfig c)]
  | .waitForStable => Json.mkObj [("kind", "waitForStable")]
  | .takeSnapshot th => Json.mkObj [("kind", "takeSnapshot"), ("threshold", jU64 th)]
  | .transferLdr t d => Json.mkObj [("kind", "transferLdr"), ("target", jU64 t), ("timeout", jU64 d)]

def pMsg (j : Json) : Except String Msg := do
  let k ← (← fld j "kind").getStr?
  match k with
  | "identity" => pure (.identity (← pIdentityReq (← fld j "r")))
  | "vote" => pure (.vote (← pVoteReq (← fld j "r")))
  | "append" => pure (.append (← pAppendReq (← fld j "h")) (← (← fList j "entries").mapM pEntry))
  | "installSnap" => pure (.installSnap (← pInstallSnapReq (← fld j "h")) (← fBytes j "body"))
  | "timeoutNow" => pure (.timeoutNow (← pReq (← fld j "r")))
  | "admin" => pure (.admin (← pAdminReq (← fld j "r")))
  | _ => throw s!"bad message kind {k}"
def jMsg : Msg → Json
  | .identity r => Json.mkObj [("kind", "identity"), ("r", jIdentityReq r)]
  | .vote r => Json.mkObj [("kind", "vote"), ("r", jVoteReq r)]
  | .append h es => Json.mkObj [("kind", "append"), ("h", jAppendReq h),
      ("entries", Json.arr (es.map jEntry).toArray)]
  | .installSnap h body => Json.mkObj [("kind", "installSnap"), ("h", jInstallSnapReq h),
      ("body", jBytes body)]
  | .timeoutNow r => Json.mkObj [("kind", "timeoutNow"), ("r", jReq r)]
  | .admin r => Json.mkObj [("kind", "admin"), ("r", jAdminReq r)]

/-! ## per-kind operations -/

/-- encoder result: bytes and whether the real encoder would panic on this value. -/
structure Enc where
  bytes : Bytes
  panics : Bool := false

def decWith {α : Type} (d : Decoder α) (f : α → Json) (s : Bytes) : Except DecErr (Json × Bytes) :=
  match d s with
  | .error e => .error e
  | .ok r => .ok (f r.1, r.2)

def splitKind (kind : String) : String × Option Nat :=
  match kind.splitOn ":" with
  | [k, n] => (k, n.toNat?)
  | _ => (kind, none)

def encodeKind (kind : String) (v : Json) : Except String Enc := do
  match (splitKind kind).1 with
  | "entry" => pure ⟨encEntry (← pEntry v), false⟩
  | "req" | "timeoutNowReq" => pure ⟨encReq (← pReq v), false⟩
  | "identityReq" => pure ⟨encIdentityReq (← pIdentityReq v), false⟩
  | "voteReq" => pure ⟨encVoteReq (← pVoteReq v), false⟩
  | "appendReq" => pure ⟨encAppendReq (← pAppendReq v), false⟩
  | "installSnapReq" => pure ⟨encInstallSnapReq (← pInstallSnapReq v), false⟩
  | "resp" | "identityResp" | "voteResp" | "installSnapResp" | "timeoutNowResp" =>
    let r ← pResp v
    pure ⟨encResp r, respEncPanics r⟩
  | "appendResp" =>
    let r ← pAppendResp v
    pure ⟨encAppendResp r, respEncPanics r.resp⟩
  | "node" => pure ⟨encNode (← pNode v), false⟩
  | "config" => pure ⟨encConfig (← pConfig v), false⟩
  | "snapshotMeta" => pure ⟨encSnapshotMeta (← pSnapshotMeta v), false⟩
  | "replication" => pure ⟨encReplication (← pReplication v), false⟩
  | "info" => pure ⟨encInfo (← pInfo v), false⟩
  | "taskResp" => pure ⟨encTaskResp (← pTaskResult (← fld v "result")), false⟩
  | "adminReq" => pure ⟨encAdminReq (← pAdminReq v), false⟩
  | "msg" => pure ⟨encMsg (← pMsg v), false⟩
  | "stream" => pure ⟨encStream (← (← fList v "msgs").mapM pMsg), false⟩
  | k => throw s!"unknown kind {k}"

def decodeKind (kind : String) (s : Bytes) : Except String (Except DecErr (Json × Bytes)) := do
  let (k, arg) := splitKind kind
  match k with
  | "entry" => pure (decWith decEntry jEntry s)
  | "req" | "timeoutNowReq" => pure (decWith decReq jReq s)
  | "identityReq" => pure (decWith decIdentityReq jIdentityReq s)
  | "voteReq" => pure (decWith decVoteReq jVoteReq s)
  | "appendReq" => pure (decWith decAppendReq jAppendReq s)
  | "installSnapReq" => pure (decWith decInstallSnapReq jInstallSnapReq s)
  | "resp" | "identityResp" | "voteResp" | "installSnapResp" | "timeoutNowResp" =>
    pure (decWith decResp jResp s)
  | "appendResp" => pure (decWith decAppendResp jAppendResp s)
  | "node" => pure (decWith decNode jNode s)
  | "config" => pure (decWith decConfig jConfig s)
  | "snapshotMeta" => pure (decWith decSnapshotMeta jSnapshotMeta s)
  | "replication" => pure (decWith decReplication jReplication s)
  | "info" => pure (decWith decInfo jInfo s)
  | "taskResp" =>
    match arg with
    | some t =>
      pure (decWith (decTaskResp (UInt8.ofNat t))
        (fun r => Json.mkObj [("task", toJson t), ("result", jTaskResult r)]) s)
    | none => throw "taskResp needs :<typ>"
  | "adminReq" => pure (decWith decAdminReq jAdminReq s)
  | "msg" => pure (decWith decMsg jMsg s)
  | "stream" =>
    match arg with
    | some n =>
      pure (decWith (decList decMsg n)
        (fun ms => Json.mkObj [("msgs", Json.arr (ms.map jMsg).toArray)]) s)
    | none => throw "stream needs :<n>"
  | k => throw s!"unknown kind {k}"

/-- the decode kind that goes with a value (taskResp and stream carry their argument). -/
def decodeKindOf (kind : String) (v : Json) : Except String String := do
  match kind with
  | "taskResp" => pure s!"taskResp:{← (← fld v "task").getNat?}"
  | "stream" => pure s!"stream:{(← fList v "msgs").length}"
  | k => pure k

def jDec (total : Nat) : Except DecErr (Json × Bytes) → Json
  | .error e => Json.mkObj [("err", e.name)]
  | .ok r => Json.mkObj [("value", r.1), ("consumed", toJson (total - r.2.length))]

def jValRes : Except ValErr (UInt64 × UInt64) → Json
  | .error _ => Json.mkObj [("err", "invalid")]
  | .ok r => Json.mkObj [("a", jU64 r.1), ("b", jU64 r.2)]

def run (j : Json) : Except String Json := do
  let op ← (← fld j "op").getStr?
  match op with
  | "encode" =>
    let e ← encodeKind (← (← fld j "kind").getStr?) (← fld j "value")
    pure (Json.mkObj [("enc", jBytes e.bytes), ("encPanics", Json.bool e.panics)])
  | "decode" =>
    let b ← fBytes j "bytes"
    let kind ← (← fld j "kind").getStr?
    let r ← decodeKind kind b
    -- optional "pad": n — also report the error kind (or "ok") of decoding bytes ++ n zero
    -- bytes; the engine uses it to recognise inputs on which the real decoder would
    -- allocate a huge buffer for a bogus length prefix before failing
    match ← fOpt j "pad" with
    | none => pure (jDec b.length r)
    | some p =>
      let n ← p.getNat?
      let rp ← decodeKind kind (b ++ List.replicate n 0)
      let padded := match rp with
        | .error e => e.name
        | .ok _ => "ok"
      pure ((jDec b.length r).setObjVal! "padded" (Json.str padded))
  | "full" =>
    let kind ← (← fld j "kind").getStr?
    let v ← fld j "value"
    let e ← encodeKind kind v
    let b ← fBytes j "bytes"
    let tail ← fBytes j "tail"
    let dk ← decodeKindOf kind v
    let d ← decodeKind dk (b ++ tail)
    let ps ← (← fList j "prefixes").mapM (fun p => p.getNat?)
    let pref ← ps.mapM (fun n => do
      let r ← decodeKind dk (b.take n)
      pure (match r with
        | .error err => Json.str err.name
        | .ok _ => Json.str "ok"))
    pure (Json.mkObj [("enc", jBytes e.bytes), ("encPanics", Json.bool e.panics),
      ("dec", jDec (b.length + tail.length) d), ("pref", Json.arr pref.toArray)])
  | "buffered" =>
    pure (Json.mkObj [("buffered", Json.bool (isEntryBuffered (← fBytes j "bytes")))])
  | "valuefile" =>
    let a ← fU64 j "a"
    let b ← fU64 j "b"
    let name := formatValue a b
    pure (Json.mkObj [("name", Json.str name), ("parsed", jValRes (parseValue name)),
      ("signed", jValRes (parseValueSigned name))])
  | "valueparse" =>
    let name ← (← fld j "name").getStr?
    pure (Json.mkObj [("parsed", jValRes (parseValue name)), ("signed", jValRes (parseValueSigned name))])
  | o => throw s!"unknown op {o}"

/-- one case in, one answer out. -/
def handle (j : Json) : Json :=
  match run j with
  | .ok r => r
  | .error e => Json.mkObj [("error", Json.str e)]

end Driver.Codec
