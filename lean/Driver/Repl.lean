import Lean.Data.Json
import RaftVerif.Model.Repl
import Driver.Node
open Lean Raft

namespace Driver.Repl
open Driver.Node

deriving instance FromJson, ToJson for Repl.State, Repl.Note

def outJson (o : Repl.Out) : Json :=
  Json.mkObj [("st", toJson o.st), ("err", Json.str o.err), ("panic", Json.str o.panic),
    ("append", match o.append with | some a => toJson a | none => Json.null),
    ("install", match o.install with | some a => toJson a | none => Json.null),
    ("notes", toJson o.notes)]

def handleE (j : Json) : Except String Json := do
  let what ← j.getObjValAs? String "what"
  let st ← j.getObjValAs? Repl.State "st"
  match what with
  | "writeAppend" => do
    let ldr ← j.getObjValAs? Raft.Node "leader"
    let send ← getBool j "sendEntries"
    let env : Repl.Env := { log := ldr.log, snapIndex := ldr.snapIndex, snapTerm := ldr.snapTerm,
                            snap := ldr.snapsDisk.find? (·.index == ldr.snapIndex) }
    pure (outJson (Repl.writeAppend st env send))
  | "onResp" => do
    pure (outJson (Repl.onAppendResp st (← getNat j "term") (← getNat j "result") (← getNat j "lastLogIndex") (← getNat j "reqLastIndex")))
  | "install" => do
    let ldr ← j.getObjValAs? Raft.Node "leader"
    let env : Repl.Env := { log := ldr.log, snapIndex := ldr.snapIndex, snapTerm := ldr.snapTerm,
                            snap := ldr.snapsDisk.find? (·.index == ldr.snapIndex) }
    pure (outJson (Repl.installSnap st env (← getNat j "term") (← getNat j "result")))
  | "leaderUpdate" => do
    let ldr ← j.getObjValAs? Raft.Node "leader"
    let withCfg ← getBool j "withConfig"
    let id ← getNat j "follower"
    let voter := if withCfg then some (ldr.configs.latest.get id).voter else none
    pure (outJson (Repl.onLeaderUpdate st ldr.ldr.removeLTE ldr.lastLogIndex ldr.commitIndex voter))
  | w => throw s!"unknown repl request {w}"

def handle (j : Json) : Json :=
  match handleE j with
  | .ok r => r
  | .error e => Json.mkObj [("error", Json.str e)]

end Driver.Repl
