import Lean.Data.Json
import RaftVerif.Model.Repl
import RaftVerif.Model.ReplProbe
import RaftVerif.Model.Timing
import Driver.Node
open Lean Raft

namespace Driver.Repl
open Driver.Node

deriving instance FromJson, ToJson for Repl.State, Repl.Note
deriving instance FromJson, ToJson for Repl.Follower, Repl.Resp, Repl.Upd, Repl.Tick

def outJson (o : Repl.Out) : Json :=
  Json.mkObj [("st", toJson o.st), ("err", Json.str o.err), ("panic", Json.str o.panic),
    ("append", match o.append with | some a => toJson a | none => Json.null),
    ("install", match o.install with | some a => toJson a | none => Json.null),
    ("notes", toJson o.notes)]

def optJson {α} [ToJson α] : Option α → Json
  | some a => toJson a
  | none => Json.null

def exchJson (x : Repl.Exch) : Json :=
  Json.mkObj [("kind", Json.str x.kind), ("pipelined", Json.bool x.pipelined), ("st", toJson x.st),
    ("append", optJson x.append), ("install", optJson x.install), ("resp", toJson x.resp)]

/-- the whole run of `replicate()` as compared by the engine probelive -/
def runJson (r : Repl.PR) : Json :=
  Json.mkObj [("trace", Json.arr (r.loop.trace.map exchJson).toArray), ("st", toJson r.loop.st),
    ("flr", toJson r.loop.flr), ("err", Json.str r.err), ("panic", Json.str r.panic),
    ("notes", toJson r.loop.notes), ("ending", Json.str r.ending)]

def handleE (j : Json) : Except String Json := do
  let what ← j.getObjValAs? String "what"
  if what == "durationFor" then
    let bw ← j.getObjValAs? Nat "bandwidth"
    let n ← j.getObjValAs? Nat "n"
    return Json.mkObj [("durationFor", toJson (Timing.durationFor bw n))]
  if what == "backOff" then
    let round ← j.getObjValAs? Nat "round"
    let max ← j.getObjValAs? Nat "max"
    return Json.mkObj [("backOff", toJson (Timing.backOff round max))]
  let st ← j.getObjValAs? Repl.State "st"
  match what with
  | "writeAppend" => do
    let ldr ← j.getObjValAs? Raft.Node "leader"
    let send ← getBool j "sendEntries"
    let env : Repl.Env := { log := ldr.log, snapIndex := ldr.snapIndex, snapTerm := ldr.snapTerm,
                            snap := ldr.snapsDisk.find? (·.index == ldr.snapIndex) }
    pure (outJson (Repl.writeAppend st env send))
  | "onResp" => do
    pure (outJson (Repl.onAppendResp st (← getNat j "term") (← getNat j "result") (← getNat j "lastLogIndex") (← getNat j "reqLastIndex")))
  | "install" => do
    let ldr ← j.getObjValAs? Raft.Node "leader"
    let env : Repl.Env := { log := ldr.log, snapIndex := ldr.snapIndex, snapTerm := ldr.snapTerm,
                            snap := ldr.snapsDisk.find? (·.index == ldr.snapIndex) }
    pure (outJson (Repl.installSnap st env (← getNat j "term") (← getNat j "result")))
  | "leaderUpdate" => do
    let ldr ← j.getObjValAs? Raft.Node "leader"
    let withCfg ← getBool j "withConfig"
    let id ← getNat j "follower"
    let voter := if withCfg then some (ldr.configs.latest.get id).voter else none
    pure (outJson (Repl.onLeaderUpdate st ldr.ldr.removeLTE ldr.lastLogIndex ldr.commitIndex voter))
  | "probe" => do
    -- the real replicate() loop: leader digest (after everything the leader did during the run), follower,
    -- ticks (leader updates delivered / follower faults per exchange), fuel for the outer loop
    let ldr ← j.getObjValAs? Raft.Node "leader"
    let env : Repl.Env := { log := ldr.log, snapIndex := ldr.snapIndex, snapTerm := ldr.snapTerm,
                            snap := ldr.snapsDisk.find? (·.index == ldr.snapIndex) }
    let flr ← j.getObjValAs? Repl.Follower "flr"
    let ticks ← j.getObjValAs? (List Repl.Tick) "ticks"
    let fuel ← getNat j "fuel"
    -- a leader update an earlier run left in the channel
    let pending ← j.getObjValAs? (Option Repl.Upd) "pending"
    pure (runJson (Repl.replicate env fuel { st := st, flr := flr, ticks := ticks, pending := pending }))
  | w => throw s!"unknown repl request {w}"

def handle (j : Json) : Json :=
  match handleE j with
  | .ok r => r
  | .error e => Json.mkObj [("error", Json.str e)]

end Driver.Repl
