import Lean.Data.Json
import RaftVerif.Model.Step
import RaftVerif.Model.ConfigEdit
open Lean Raft

namespace Driver.Node

deriving instance FromJson, ToJson for CNode, Config, Configs, Entry, NLog, Role, Round, Repl, QItem,
  Transfer, Leader, Fsm, SnapFile, SnapReq, SnapRes, Durable, Reply, RpcReply, Raft.Node,
  Node.VoteReq, Node.AppendReq, Node.InstallReq

def getNat (j : Json) (k : String) : Except String Nat := j.getObjValAs? Nat k
def getBool (j : Json) (k : String) : Except String Bool := j.getObjValAs? Bool k

def parseUpd (j : Json) : Except String Node.ReplUpdate := do
  let id ← getNat j "id"
  let removed ← getBool j "removed"
  let kind ← j.getObjValAs? String "kind"
  let upd ← match kind with
    | "matchIndex" => do pure (Node.ReplUpd.matchIndex (← getNat j "val"))
    | "removeLTE" => do pure (Node.ReplUpd.removeLTE (← getNat j "val"))
    | "noContact" => do pure (Node.ReplUpd.noContact (← getBool j "flag"))
    | "newTerm" => do pure (Node.ReplUpd.newTerm (← getNat j "val"))
    | k => throw s!"unknown update kind {k}"
  pure { id := id, removed := removed, upd := upd }

def parseOp (j : Json) : Except String Op := do
  let kind ← j.getObjValAs? String "kind"
  match kind with
  | "vote" => do pure (.vote (← j.getObjValAs? Node.VoteReq "req"))
  | "append" => do pure (.append (← j.getObjValAs? Node.AppendReq "req"))
  | "install" => do pure (.install (← j.getObjValAs? Node.InstallReq "req"))
  | "timeoutNow" => pure .timeoutNow
  | "identity" => do pure (.identity (← getNat j "src") (← getNat j "cid") (← getNat j "nid"))
  | "disconnected" => do pure (.disconnected (← getNat j "nid"))
  | "timeout" => pure .timeout
  | "newEntries" => do pure (.newEntries (← j.getObjValAs? (List QItem) "batch"))
  | "changeConfig" => do pure (.changeConfig (← getNat j "task") (← j.getObjValAs? Config "config"))
  | "takeSnapshot" => do pure (.takeSnapshot (← getNat j "task") (← getNat j "threshold"))
  | "snapRun" => pure .snapRun
  | "snapTaken" => pure .snapTaken
  | "waitStable" => do pure (.waitStable (← getNat j "task"))
  | "transfer" => do pure (.transfer (← getNat j "task") (← getNat j "target"))
  | "voteResult" => do pure (.voteResult (← getBool j "err") (← getNat j "term") (← getNat j "result"))
  | "replUpdates" => do
      let arr ← j.getObjValAs? (Array Json) "updates"
      let us ← arr.toList.mapM parseUpd
      pure (.replUpdates us)
  | "transferTimeout" => pure .transferTimeout
  | "timeoutNowResult" => do pure (.timeoutNowResult (← getNat j "src") (← getBool j "err") (← getNat j "result"))
  | "newTermTimeout" => pure .newTermTimeout
  | "shutdown" => pure .shutdown
  | k => throw s!"unknown op kind {k}"

/-- Outcome of a step in the shape compared with the implementation. -/
def outcome (s : Raft.Node) (retain : Nat) (sor : Bool) : Json :=
  let restarts := s.trace.map (fun (p : String × Durable) =>
    Json.mkObj [("point", Json.str p.1),
                ("restart", match Node.restart p.2 retain sor with
                  | some n => toJson n
                  | none => Json.str "fail")])
  match s.panicked with
  | some site => Json.mkObj [("panic", Json.str site)]
  | none =>
    Json.mkObj [("post", toJson s.canon),
                ("crash", Json.arr restarts.toArray)]

def perms : List Nat → List (List Nat)
  | [] => [[]]
  | xs => xs.flatMap (fun x => (perms (xs.erase x)).map (x :: ·))
termination_by xs => xs.length
decreasing_by
  simp_wf
  rename_i h
  have := List.length_pos_of_mem h
  rw [List.length_erase_of_mem h]; omega

def parseEdit (j : Json) : Except String Edit := do
  let kind ← j.getObjValAs? String "kind"
  match kind with
  | "addVoter" => do pure (.addVoter (← getNat j "id") (← j.getObjValAs? String "addr"))
  | "addNonvoter" => do pure (.addNonvoter (← getNat j "id") (← j.getObjValAs? String "addr") (← getBool j "promote"))
  | "setAction" => do pure (.setAction (← getNat j "id") (← getNat j "action"))
  | "setAddr" => do pure (.setAddr (← getNat j "id") (← j.getObjValAs? String "addr"))
  | "setData" => do pure (.setData (← getNat j "id") (← j.getObjValAs? String "data"))
  | k => throw s!"unknown edit kind {k}"

def editErrName : EditErr → String
  | .bootstrapped => "bootstrapped" | .invalid => "invalid" | .exists => "exists"
  | .notFound => "notFound" | .addrUsed => "addrUsed"

def handleE (j : Json) : Except String Json := do
  let what ← j.getObjValAs? String "what"
  match what with
  | "step" => do
    let pre0 ← j.getObjValAs? Raft.Node "pre"
    -- optional `preOp`: an operation the model performs first (composite steps: the model's atomic
    -- snapRun, then the event that in the implementation fell between capture and write)
    let preOp? : Option Op ← match (j.getObjVal? "preOp").toOption with
      | some Json.null => pure none
      | some jo => do pure (some (← parseOp jo))
      | none => pure none
    let mid := match preOp? with
      | some p => pre0.step p [] []
      | none => pre0
    if preOp?.isSome && mid.panicked.isSome then
      return Json.mkObj [("outcomes", Json.arr #[Json.str (outcome mid pre0.retain pre0.shutdownOnRemove).compress])]
    let pre := if preOp?.isSome then mid.canon else pre0
    let op ← parseOp (← j.getObjVal? "op")
    let rollAt ← j.getObjValAs? (List Nat) "rollAt"
    let ids := ((pre.configs.latest.ids ++ pre.ldr.repls.map (·.id)).eraseDups).filter (· != pre.nid)
    -- `level` = how many iterations over l.repls get an independent order (the rest repeat the last one)
    let level := (j.getObjValAs? Nat "level").toOption.getD 1
    let ps := if ids.length ≤ 4 then perms ids else [ids, ids.reverse]
    let orderss : List (List (List Nat)) :=
      if level ≤ 1 then ps.map (fun p => List.replicate 8 p)
      else if level = 2 then ps.flatMap (fun p => ps.map (fun q => p :: List.replicate 7 q))
      else ps.flatMap (fun p => ps.flatMap (fun q => ps.map (fun r => p :: q :: List.replicate 6 r)))
    -- optional `postOp`: an operation the model performs after the main one (the other linearisation of a
    -- composite step); crash images are those of the last operation only
    let postOp? : Option Op ← match (j.getObjVal? "postOp").toOption with
      | some Json.null => pure none
      | some jo => do pure (some (← parseOp jo))
      | none => pure none
    let fin := fun (s : Raft.Node) => match postOp? with
      | some p => if s.panicked.isSome then s else s.canon.step p [] []
      | none => s
    let outs := orderss.map (fun o => (outcome (fin (pre.step op rollAt o)) pre.retain pre.shutdownOnRemove).compress)
    pure (Json.mkObj [("outcomes", Json.arr ((outs.eraseDups.map Json.str).toArray))])
  | "crashRestart" => do
    let pre ← j.getObjValAs? Raft.Node "pre"
    pure (Json.mkObj [("restart", match Node.restart pre.durable pre.retain pre.shutdownOnRemove with
      | some n => toJson n.canon
      | none => Json.str "fail")])
  | "restart" => do
    let d ← j.getObjValAs? Durable "durable"
    let retain ← getNat j "retain"
    let sor ← getBool j "shutdownOnRemove"
    pure (Json.mkObj [("restart", match Node.restart d retain sor with
      | some n => toJson n
      | none => Json.str "fail")])
  | "cfgEdit" => do
    -- the public editing helpers of Config (Model/ConfigEdit.lean): error kind and the configuration afterwards
    let c ← j.getObjValAs? Config "config"
    let e ← parseEdit (← j.getObjVal? "edit")
    let err := match c.applyEdit e with
      | .ok _ => "ok"
      | .error k => editErrName k
    pure (Json.mkObj [("err", Json.str err), ("config", toJson (c.afterEdit e)),
      ("valid", toJson (Node.configValid (c.afterEdit e)))])
  | w => throw s!"unknown request {w}"

def handle (j : Json) : Json :=
  match handleE j with
  | .ok r => r
  | .error e => Json.mkObj [("error", Json.str e)]

end Driver.Node
