import Lean.Data.Json
open Lean

namespace Driver.Conn

/-- JSON glue for engine "Conn": one case in, one answer out. -/
def handle (j : Json) : Json :=
  Json.mkObj [("error", Json.str "engine Conn not implemented")]

end Driver.Conn
