import Lean.Data.Json
import RaftVerif.Model.Conn
open Lean Raft

/-!
JSON glue for engine "conn" (go/conndiff).  One whole scenario per case.

Connection part:
```
{"engine":"conn","id":N,"part":"conn",
 "listeners":[{"addr":A,"cid":C,"nid":I}...],            -- started in this order (pid = position)
 "dialers":[{"cid":C,"nid":I,"max":1}...],
 "ops":[{"op":"config","d":D,"binds":[[nid,addr]...]} | {"op":"resolver","d":D,"nid":I,"addr":A|-1}
       | {"op":"lookup","d":D,"nid":I}
       | {"op":"rpc","d":D,"dest":I,"kind":1..4} | {"op":"get","d":D,"dest":I} | {"op":"use","conn":K,"kind":1..4}
       | {"op":"put","conn":K} | {"op":"closeAll","d":D,"dest":I}
       | {"op":"start","addr":A,"cid":C,"nid":I} | {"op":"stop","addr":A}
       | {"op":"rawdial","addr":A} | {"op":"rawsend","conn":K,"kind":0..4,"src":S,"cid":C,"nid":I}]}
```
Answer: `{"steps":[{"out":…,"conn":K?,"conns":[{id,lib,pid,dclosed,lclosed,pooled}…],"nproc":n}…],"processed":[…]}`.

Lock part:
```
{"engine":"conn","id":N,"part":"lock","stored":[c,n],"locked":bool,
 "ops":[{"op":"lock","p":P} | {"op":"unlock","p":P} | {"op":"rogueUnlock"} | {"op":"setid","p":P,"cid":C,"nid":I}
       | {"op":"new"} | {"op":"serveStart","p":P} | {"op":"serveEnd","p":P}
       | {"op":"micro","evs":[["create"|"link"|"stat"|"cleanup"|"unlock",P]…],"procs":[P…]}]}
```
Answer: `{"steps":[{"out":…,"stored":[c,n],"locked":b,"holders":[P…]}…]}`.
-/
namespace Driver.Conn
open Raft.Conn

def getNat (j : Json) (k : String) : Except String Nat := j.getObjValAs? Nat k
def getInt (j : Json) (k : String) : Except String Int := j.getObjValAs? Int k

def kindOf : Nat → Except String Kind
  | 1 => pure .vote
  | 2 => pure .append
  | 3 => pure .installSnap
  | 4 => pure .timeoutNow
  | n => throw s!"bad kind {n}"

def kindNum : Kind → Nat
  | .vote => 1 | .append => 2 | .installSnap => 3 | .timeoutNow => 4

def errName : Err → String
  | .ok => "ok" | .dialErr => "dialErr" | .identityErr => "identityErr" | .ioErr => "ioErr" | .noConn => "noConn"

def connJson (i : Nat) (c : Raft.Conn.Conn) : Json :=
  Json.mkObj [("id", toJson i), ("lib", toJson c.lib), ("pid", toJson c.lpid),
    ("dclosed", toJson (decide (c.dstate = .closed))), ("lclosed", toJson (!c.lopen)), ("pooled", toJson c.pooled),
    ("dialer", toJson c.dialer), ("icid", toJson c.intended.cid), ("inid", toJson c.intended.nid)]

def connsJson (w : World) : Json :=
  Json.arr ((List.range w.conns.length).filterMap (fun i => (w.conns[i]?).map (connJson i))).toArray

def procJson (p : Processed) : Json :=
  Json.mkObj [("conn", toJson p.conn), ("lib", toJson p.lib), ("pid", toJson p.pid),
    ("lcid", toJson p.listener.cid), ("lnid", toJson p.listener.nid),
    ("icid", toJson p.intended.cid), ("inid", toJson p.intended.nid),
    ("scid", toJson p.src.cid), ("snid", toJson p.src.nid),
    ("kind", toJson (kindNum p.kind)), ("src", toJson p.srcField)]

def stepJson (w : World) (out : List (String × Json)) : Json :=
  Json.mkObj (out ++ [("conns", connsJson w), ("nproc", toJson w.processed.length)])

/-- one op: new world and the op's own outputs -/
def connOp (w : World) (j : Json) : Except String (World × List (String × Json)) := do
  let op ← j.getObjValAs? String "op"
  match op with
  | "config" => do
    let d ← getNat j "d"
    let binds ← j.getObjValAs? (List (List Nat)) "binds"
    let evs := binds.filterMap (fun b => match b with
      | [nid, a] => some (Ev.addrUpdate d nid a)
      | _ => none)
    pure (run w evs, [("out", Json.str "ok")])
  | "resolver" => do
    let d ← getNat j "d"
    let nid ← getNat j "nid"
    let a ← getInt j "addr"
    let oa : Option Addr := if a < 0 then none else some a.toNat
    pure (step w (.resolverSet d nid oa), [("out", Json.str "ok")])
  | "lookup" => do
    let d ← getNat j "d"
    let nid ← getNat j "nid"
    let r : Int := match w.dialers[d]? with
      | some dl => match dl.resolve nid with
        | some a => Int.ofNat a
        | none => -1
      | none => -1
    pure (w, [("out", Json.num (JsonNumber.fromInt r))])
  | "rpc" => do
    let d ← getNat j "d"
    let dest ← getNat j "dest"
    let k ← kindOf (← getNat j "kind")
    let r := doRPC w d dest k
    pure (r.world, [("out", Json.str (errName r.err))])
  | "get" => do
    let d ← getNat j "d"
    let dest ← getNat j "dest"
    let g := getConn w d dest
    let c : Int := match g.conn with
      | some c => Int.ofNat c
      | none => -1
    pure (g.world, [("out", Json.str (errName g.err)), ("conn", Json.num (JsonNumber.fromInt c))])
  | "use" => do
    let c ← getNat j "conn"
    let k ← kindOf (← getNat j "kind")
    let r := useConn w c k
    pure (r.world, [("out", Json.str (errName r.err))])
  | "put" => do
    let c ← getNat j "conn"
    pure (putConn w c, [("out", Json.str "ok")])
  | "closeAll" => do
    let d ← getNat j "d"
    let dest ← getNat j "dest"
    pure (closeAll w d dest, [("out", Json.str "ok")])
  | "start" => do
    let a ← getNat j "addr"
    let cid ← getNat j "cid"
    let nid ← getNat j "nid"
    pure (step w (.start a ⟨cid, nid⟩), [("out", Json.str "ok")])
  | "stop" => do
    let a ← getNat j "addr"
    pure (step w (.stop a), [("out", Json.str "ok")])
  | "rawdial" => do
    let a ← getNat j "addr"
    let w' := step w (.rawDial a)
    let c : Int := if w'.conns.length = w.conns.length then -1 else Int.ofNat w.conns.length
    pure (w', [("out", Json.str (if c < 0 then "dialErr" else "ok")), ("conn", Json.num (JsonNumber.fromInt c))])
  | "rawsend" => do
    let c ← getNat j "conn"
    let kn ← getNat j "kind"
    let src ← getNat j "src"
    let m ← if kn = 0 then do
        let cid ← getNat j "cid"
        let nid ← getNat j "nid"
        pure (Msg.identity src ⟨cid, nid⟩)
      else do pure (Msg.req (← kindOf kn) src)
    let lopenBefore := match w.conns[c]? with
      | some x => x.lopen
      | none => false
    let w1 := run w (rawSendEvs c m)
    let out := if lopenBefore then
        match w1.conns[c]? with
        | some x => match x.outbox with
          | Resp.idMismatch :: _ => "result:2"
          | _ :: _ => "result:1"
          | [] => "err"
        | none => "err"
      else "err"
    pure (step w1 (.rawRead c), [("out", Json.str out)])
  | o => throw s!"unknown op {o}"

def connScenario (j : Json) : Except String Json := do
  let ls ← j.getObjValAs? (Array Json) "listeners"
  let ds ← j.getObjValAs? (Array Json) "dialers"
  let ops ← j.getObjValAs? (Array Json) "ops"
  let dialers ← ds.toList.mapM (fun d => do
    pure ({ ident := ⟨← getNat d "cid", ← getNat d "nid"⟩, max := (← getNat d "max") } : Dialer))
  let mut w : World := { dialers := dialers }
  for l in ls do
    w := step w (.start (← getNat l "addr") ⟨← getNat l "cid", ← getNat l "nid"⟩)
  let mut steps : Array Json := #[]
  for o in ops do
    let r ← connOp w o
    w := r.1
    steps := steps.push (stepJson w r.2)
  pure (Json.mkObj [("steps", Json.arr steps), ("processed", Json.arr (w.processed.map procJson).toArray)])

/-! ### lock part -/
open Raft.Lock

def resName : Res → String
  | .ok => "ok" | .lockExists => "lockExists" | .ioErr => "ioErr" | .cidZero => "cidZero" | .nidZero => "nidZero"
  | .alreadySet => "alreadySet" | .identityNotSet => "identityNotSet"

def lastOf (s : State) (p : Nat) : String :=
  match (s.procs p).last with
  | some r => resName r
  | none => "none"

def lockStepJson (s : State) (known : List Nat) (out : List (String × Json)) : Json :=
  Json.mkObj (out ++ [("stored", toJson [s.stored.1, s.stored.2]), ("locked", toJson s.lock.isSome),
    ("holders", toJson (known.filter (fun p => isHolding (s.procs p).pc)))])

def microEv (j : Json) : Except String Lock.Ev := do
  let a ← fromJson? (α := Array Json) j
  let name ← fromJson? (α := String) (a[0]?.getD Json.null)
  let p ← fromJson? (α := Nat) (a[1]?.getD Json.null)
  match name with
  | "create" => pure (.create p .serve)
  | "link" => pure (.link p)
  | "stat" => pure (.stat p)
  | "cleanup" => pure (.cleanup p)
  | "unlock" => pure (.unlock p)
  | n => throw s!"unknown micro event {n}"

def lockOp (s : State) (j : Json) : Except String (State × List (String × Json)) := do
  let op ← j.getObjValAs? String "op"
  match op with
  | "lock" => do
    let p ← getNat j "p"
    let s' := Lock.run s (lockDirEvs p .serve)
    pure (s', [("out", Json.str (lastOf s' p))])
  | "unlock" => do
    let p ← getNat j "p"
    pure (Lock.step s (.unlock p), [("out", Json.str "ok")])
  | "rogueUnlock" => pure (rogueUnlock s, [("out", Json.str "ok")])
  | "setid" => do
    let p ← getNat j "p"
    let r := setIdentity s p (← getNat j "cid") (← getNat j "nid")
    pure (r.state, [("out", Json.str (resName r.returned))])
  | "new" =>
    let r := newNode s
    pure (s, [("out", Json.str (resName r.1)), ("ident", toJson [r.2.cid, r.2.nid])])
  | "serveStart" => do
    let p ← getNat j "p"
    let r := newNode s
    if r.1 = .ok then
      let s' := serveStart s p
      pure (s', [("out", Json.str (lastOf s' p))])
    else pure (s, [("out", Json.str (resName r.1))])
  | "serveEnd" => do
    let p ← getNat j "p"
    pure (serveEnd s p, [("out", Json.str "ok")])
  | "micro" => do
    let evs ← (← j.getObjValAs? (Array Json) "evs").toList.mapM microEv
    let procs ← j.getObjValAs? (List Nat) "procs"
    let s' := Lock.run s evs
    pure (s', [("out", toJson (procs.map (lastOf s')))])
  | o => throw s!"unknown op {o}"

def lockScenario (j : Json) : Except String Json := do
  let st ← j.getObjValAs? (List Nat) "stored"
  let locked ← j.getObjValAs? Bool "locked"
  let ops ← j.getObjValAs? (Array Json) "ops"
  let known := (j.getObjValAs? (List Nat) "procs").toOption.getD [0, 1, 2, 3, 4, 5, 6, 7]
  -- a pre-existing lock file is a link to an inode nobody in this scenario owns
  let mut s : State := { stored := (st[0]?.getD 0, st[1]?.getD 0), lock := if locked then some 0 else none, next := 1 }
  let mut steps : Array Json := #[]
  for o in ops do
    let r ← lockOp s o
    s := r.1
    steps := steps.push (lockStepJson s known r.2)
  pure (Json.mkObj [("steps", Json.arr steps)])

def handleE (j : Json) : Except String Json := do
  match (← j.getObjValAs? String "part") with
  | "conn" => connScenario j
  | "lock" => lockScenario j
  | p => throw s!"unknown part {p}"

/-- JSON glue for engine "conn": one scenario in, one answer out. -/
def handle (j : Json) : Json :=
  match handleE j with
  | .ok r => r
  | .error e => Json.mkObj [("error", Json.str e)]

end Driver.Conn
