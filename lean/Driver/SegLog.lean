import Lean.Data.Json
import RaftVerif.Model.SegLog
open Lean
open Raft.SL

/-!
JSON glue for engine "seglog" (go/logdiff).

Request (one program per case):
```
{"engine":"seglog","id":N,"segmentSize":S,
 "ops":[{"op":"append","seed":K,"len":L} | {"op":"commitN","n":..} | {"op":"commit"}
       | {"op":"removeLTE","i":..} | {"op":"removeGTE","i":..} | {"op":"reset","i":..}
       | {"op":"reopen","segmentSize":..} | {"op":"canLTE","i":..}
       | {"op":"viewAt","p":..,"l":..,"slot":V} | {"op":"get","i":..,"view":V|-1}
       | {"op":"getN","i":..,"n":..,"view":V|-1} | {"op":"contains","i":..,"view":V|-1}],
 "crash":[{"at":opIndex,"k":microSteps,"ss":segmentSizeForReopen}, ...]}
```
Answer: `{"steps":[{"out":..,"script":[..],"state":{..}} per op], "crashes":[{"kill":outcome,"power":[outcome..]}]}`.
Entry payloads are generated on both sides from `(seed, len)` by `genBytes`; byte strings are compared
through `(len, fnv1a64)`.
-/
namespace Driver.SegLog

/-- Deterministic payload: 64-bit LCG, top byte of the state per output byte. -/
def genBytes (seed : Nat) (len : Nat) : Bytes :=
  let rec go (k : Nat) (st : UInt64) (acc : List UInt8) : List UInt8 :=
    match k with
    | 0 => acc.reverse
    | k + 1 =>
      let st' := st * 6364136223846793005 + 1442695040888963407
      go k st' ((st' >>> 56).toUInt8 :: acc)
  go len (UInt64.ofNat seed * 0x9E3779B97F4A7C15 + 0x632BE59BD9B4E019) []

def fnvByte (h : UInt64) (b : UInt8) : UInt64 := (h ^^^ b.toUInt64) * 1099511628211

def fnvLen (h : UInt64) (n : Nat) : UInt64 :=
  let n := UInt64.ofNat n
  fnvByte (fnvByte (fnvByte (fnvByte h (n &&& 255).toUInt8) ((n >>> 8) &&& 255).toUInt8)
    ((n >>> 16) &&& 255).toUInt8) ((n >>> 24) &&& 255).toUInt8

/-- Mix one byte string (length first) into a running hash. -/
def fnvEntry (h : UInt64) (b : Bytes) : UInt64 := b.foldl fnvByte (fnvLen h b.length)

def fnvInit : UInt64 := 14695981039346656037

def bytesDigest (b : Bytes) : Json :=
  Json.mkObj [("len", toJson b.length), ("h", Json.str (toString (fnvEntry fnvInit b).toNat))]

def intJson (i : Int) : Json := Json.num (JsonNumber.fromInt i)

def segJson (s : Seg) : Json :=
  Json.mkObj [("prev", toJson s.prev), ("n", toJson s.n), ("size", toJson s.size),
    ("synced", intJson s.synced), ("cap", toJson s.cap),
    ("h", Json.str (toString (s.entries.foldl fnvEntry fnvInit).toNat))]

def stateJson (l : SegLog) : Json :=
  Json.mkObj [("segs", Json.arr (l.segs.reverse.map segJson).toArray),
    ("prev", toJson l.prevIndex), ("last", toJson l.lastIndex), ("count", toJson l.count),
    ("segmentSize", toJson l.segmentSize)]

def panicName : PanicSite → String
  | .gtLastIndex => "gtLastIndex"
  | .lePrevIndex => "lePrevIndex"
  | .sliceBounds => "sliceBounds"
  | .nilDeref => "nilDeref"

def errName : Err → String
  | .notFound => "notFound"
  | .exceedsSegmentSize => "exceeds"
  | .panic s => "panic:" ++ panicName s
  | .openFail => "openFail"
  | .corrupt => "corrupt"

def stepName : Step → String
  | .store f n => s!"store {f} {n}"
  | .write f k _ => s!"write {f} {k}"
  | .msync f => s!"msync {f}"
  | .tmpCreate f => s!"tmpcreate {f}"
  | .tmpTruncate f n => s!"tmptruncate {f} {n}"
  | .tmpZero16 f => s!"tmpzero16 {f}"
  | .tmpFsync f => s!"tmpfsync {f}"
  | .rename f _ => s!"rename {f}"
  | .create f => s!"create {f}"
  | .truncate f n => s!"truncate {f} {n}"
  | .zero16 f => s!"zero16 {f}"
  | .fsync f => s!"fsync {f}"
  | .remove f => s!"remove {f}"

def natField (j : Json) (k : String) : Nat := (j.getObjValAs? Nat k).toOption.getD 0
def intField (j : Json) (k : String) : Int := (j.getObjValAs? Int k).toOption.getD 0

/-- Result of reopening an image. -/
def outcomeJson (r : Except Err (SegLog × Img)) : Json :=
  match r with
  | .error e => Json.mkObj [("err", Json.str (errName e))]
  | .ok (l, img) =>
    Json.mkObj [("ok", stateJson l), ("files", Json.arr ((img.reverse.map (fun pf => toJson pf.1)).toArray))]

/-- Longest prefix on which the durable and the volatile units agree. -/
def cleanPrefix : List Bytes → List Bytes → List Bytes
  | a :: as, b :: bs => if a = b then a :: cleanPrefix as bs else []
  | _, _ => []

/-- Representative power-loss images: every choice of durable/volatile header per file; unit
positions that differ between the two images are treated as lost (the adversarial choice). -/
def powerImgs : Disk → List Img
  | [] => [[]]
  | (p, f) :: rest =>
    let tails := powerImgs rest
    let hs := if f.dhdr = f.vhdr then [f.vhdr] else [f.dhdr, f.vhdr]
    hs.flatMap fun h => tails.map fun t =>
      (p, ({ cap := f.cap, hdr := h, units := cleanPrefix f.dunits f.vunits } : FileImg)) :: t

structure St where
  log : SegLog
  disk : Disk
  views : List (Nat × View) := []
  /-- pre-state of every op (for crash queries), newest first -/
  hist : List (SegLog × Disk × List Step) := []

def lookupView (st : St) (slot : Int) : Option View :=
  if slot < 0 then none else (st.views.find? (fun p => p.1 = slot.toNat)).map (·.2)

def exceptJson {α} (f : α → Json) : Except Err α → Json
  | .ok a => Json.mkObj [("ok", f a)]
  | .error e => Json.str (errName e)

def mutate (st : St) (op : Op) (dropViews : Bool) : St × Json × List Step :=
  let sc := script st.log op
  match st.log.apply op with
  | .ok l' =>
    ({ st with log := l', disk := runSteps st.disk sc, views := if dropViews then [] else st.views },
      Json.str "ok", sc)
  | .error e => (st, Json.str (errName e), sc)

def stepOp (st : St) (j : Json) : St × Json × List Step :=
  let name := (j.getObjValAs? String "op").toOption.getD ""
  let i := natField j "i"
  match name with
  | "append" => mutate st (.append (genBytes (natField j "seed") (natField j "len"))) false
  | "commitN" => mutate st (.commitN (natField j "n")) false
  | "commit" => mutate st .commit false
  | "removeLTE" => mutate st (.removeLTE i) true
  | "removeGTE" => mutate st (.removeGTE i) true
  | "reset" => mutate st (.reset i) true
  | "reopen" =>
    let ss := natField j "segmentSize"
    let (st', _, sc) := mutate st (.closeOpen ss) true
    -- cross-check: the disk-level reopen of the kill image must give the same log
    let agrees := match reopen (killImg st'.disk) ss with
      | .ok (l, img) => decide (l = st'.log) && decide (img = killImg st'.disk)
      | .error _ => false
    (st', Json.mkObj [("reopenAgrees", Json.bool agrees)], sc)
  | "canLTE" => (st, toJson (st.log.canLTE i), [])
  | "viewAt" =>
    let slot := natField j "slot"
    match st.log.viewAt (natField j "p") (natField j "l") with
    | .error e => (st, Json.str (errName e), [])
    | .ok none => (st, Json.str "nil", [])
    | .ok (some v) =>
      ({ st with views := (slot, v) :: st.views.filter (fun p => p.1 != slot) }, Json.str "ok", [])
  | "get" =>
    match lookupView st (intField j "view") with
    | some v => (st, exceptJson bytesDigest (v.get st.log i), [])
    | none => (st, exceptJson bytesDigest (st.log.get i), [])
  | "getN" =>
    let n := natField j "n"
    let f := fun (cs : List Bytes) => Json.arr (cs.map bytesDigest).toArray
    match lookupView st (intField j "view") with
    | some v => (st, exceptJson f (v.getN st.log i n), [])
    | none => (st, exceptJson f (st.log.getN i n), [])
  | "contains" =>
    match lookupView st (intField j "view") with
    | some v => (st, Json.mkObj [("contains", Json.bool (v.contains i)), ("prev", toJson v.p),
        ("last", toJson v.l), ("count", toJson v.count)], [])
    | none => (st, Json.mkObj [("contains", Json.bool (st.log.contains i)), ("prev", toJson st.log.prevIndex),
        ("last", toJson st.log.lastIndex), ("count", toJson st.log.count)], [])
  | other => (st, Json.str s!"unknown op {other}", [])

def runOps (st : St) : List Json → List Json → St × List Json
  | [], acc => (st, acc.reverse)
  | j :: js, acc =>
    let (st', out, sc) := stepOp st j
    let ans := Json.mkObj [("out", out), ("script", Json.arr (sc.map (Json.str ∘ stepName)).toArray),
      ("state", stateJson st'.log)]
    runOps { st' with hist := (st.log, st.disk, sc) :: st'.hist } js (ans :: acc)

def crashJson (hist : Array (SegLog × Disk × List Step)) (c : Json) : Json :=
  let at_ := natField c "at"
  let k := natField c "k"
  let ss := natField c "ss"
  match hist[at_]? with
  | none => Json.mkObj [("error", Json.str "bad op index")]
  | some (_, d, sc) =>
    let dk := runSteps d (sc.take k)
    Json.mkObj [("kill", outcomeJson (reopen (killImg dk) ss)),
      ("power", Json.arr ((powerImgs dk).map (fun img => outcomeJson (reopen img ss))).toArray),
      ("done", toJson (min k sc.length)), ("of", toJson sc.length)]

/-- `{"mode":"img","ss":S,"files":[{"name":N,"cap":C,"hdr":H,"units":[{"seed":K,"len":L},..]},..]}`:
reopen of an arbitrary directory image (any order of files; sorted here). -/
def handleImg (j : Json) : Json :=
  let ss := natField j "ss"
  let files := ((j.getObjValAs? (Array Json) "files").toOption.getD #[]).toList
  let img : Img := files.map fun f =>
    let us := ((f.getObjValAs? (Array Json) "units").toOption.getD #[]).toList
    let units := us.map (fun u => genBytes (natField u "seed") (natField u "len"))
    (natField f "name", FileImg.mk (natField f "cap") (natField f "hdr") units)
  let sorted := (img.toArray.qsort (fun a b => a.1 > b.1)).toList
  Json.mkObj [("reopen", outcomeJson (reopen sorted ss))]

/-- JSON glue for engine "seglog": one program in, per-op outputs/states and crash predictions out. -/
def handle (j : Json) : Json :=
  if (j.getObjValAs? String "mode").toOption == some "img" then handleImg j else
  let ss := natField j "segmentSize"
  let ops := ((j.getObjValAs? (Array Json) "ops").toOption.getD #[]).toList
  let crashes := ((j.getObjValAs? (Array Json) "crash").toOption.getD #[]).toList
  let st0 : St := { log := SegLog.empty ss, disk := (SegLog.empty ss).toDisk }
  let (st, outs) := runOps st0 ops []
  let hist := st.hist.reverse.toArray
  Json.mkObj [("steps", Json.arr outs.toArray),
    ("crashes", Json.arr (crashes.map (crashJson hist)).toArray)]

end Driver.SegLog
