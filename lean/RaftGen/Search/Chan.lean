import RaftGen.Chan.Explore
import RaftGen.Gen.Skel

/-!
Search for a model-level counterexample after `RaftGen/Props/C15Chan.lean` no longer builds: for every system of that file,
the shortest schedule (which goroutine moves, step by step) to a state that violates the property, printed with process
names and program counters. Imports the generated skeletons and the executable exploration only — not the theorems.
-/
open Raft Raft.Chan

def loopOf (p : Proc) : Proc :=
  { p with code := p.code.map (fun n => match n with | .halt => Node.choice [p.entry] | n => n) }
def receiver (c : Nat) : Proc :=
  Proc.mk "any receiver" [Node.choice [0, 1, 2], Node.comm [⟨false, c, 0⟩] none, Node.halt] 0
def leaderEnv : Proc :=
  Proc.mk "state loop" [Node.choice [0, 1, 2], Node.comm [⟨false, 2, 0⟩] none, Node.close 1 3, Node.halt] 0
def leaderEnv2 : Proc :=
  Proc.mk "state loop" [Node.choice [0, 1, 2, 4], Node.comm [⟨false, 2, 0⟩] none, Node.close 1 3, Node.halt,
    Node.comm [⟨true, 0, 0⟩] (some 0)] 0
def kinds2 : List Kind := Gen.kinds.set 2 (Kind.buffered 2)
def deliver (name : String) (c n : Nat) : Proc :=
  Proc.mk name ((List.range n).map (fun i => Node.comm [⟨true, c, i + 1⟩] none) ++ [Node.halt]) 0

def mailboxSys : Sys := Sys.mk [loopOf Gen.notifyFlr, receiver 0] Gen.kinds
def reportSys : Sys := Sys.mk [loopOf Gen.notifyLdr, leaderEnv] kinds2
def waitSys : Sys := Sys.mk [loopOf Gen.checkLeaderUpdate, leaderEnv2] kinds2
def resultSys (c n : Nat) : Sys := Sys.mk [deliver "deliver" c n, receiver c] Gen.kinds

def closingLoop : Proc :=
  Proc.mk "state loop" [Node.choice [1, 2], Node.comm [⟨false, 5, 4⟩] none, Node.close 6 3, Node.comm [⟨false, 5, 4⟩] none,
    Node.halt] 0
def snapSys : Sys := Sys.mk [Gen.snapGoroutine, closingLoop] Gen.kinds

def report (thm what : String) (y : Sys) (fuel : Nat) (P : State → Bool) : IO Bool := do
  match findBad y fuel P with
  | some tr =>
    IO.println s!"COUNTEREXAMPLE {thm} {what}: schedule of {tr.length} steps to the bad state:"
    IO.println (showResult y (some tr))
    return true
  | none => return false

def main : IO UInt32 := do
  let mut found := false
  if ← report "leader_never_blocks_in_notifyFlr" "leader.notifyFlr can block for ever (the state loop is deadlocked)"
      mailboxSys 2000 (enabledStrict mailboxSys · 0) then found := true
  if ← report "mailbox_no_panic" "Go panics in the mailbox protocol" mailboxSys 2000 noPanic then found := true
  if ← report "notifyLdr_returns_once_stopped" "replication.notifyLdr can block for ever after close(stopCh)"
      reportSys 2000 (fun s => !s.isClosed 1 || enabledStrict reportSys s 0) then found := true
  if ← report "report_no_panic" "Go panics in the report protocol" reportSys 2000 noPanic then found := true
  if ← report "checkLeaderUpdate_returns_once_stopped" "replication.checkLeaderUpdate can block for ever after close(stopCh)"
      waitSys 20000 (fun s => !s.isClosed 1 || enabledStrict waitSys s 0) then found := true
  if ← report "wait_no_panic" "Go panics in checkLeaderUpdate" waitSys 20000 noPanic then found := true
  if ← report "restore_result_never_blocks_partial" "the fsm goroutine can block for ever handing back a restore result (state loop waiting for it in lastApplied, or gone)"
      (resultSys 4 5) 2000 (enabledStrict (resultSys 4 5) · 0) then found := true
  if ← report "snapshot_result_never_blocks" "the snapshot goroutine can block for ever handing back its result"
      (resultSys 5 1) 2000 (enabledStrict (resultSys 5 1) · 0) then found := true
  if ← report "snapshot_result_always_delivered" "the snapshot goroutine has returned but Raft.release waits for its result for ever (shutdown never finishes)"
      snapSys 2000 (fun s => !halted snapSys s 0 || halted snapSys s 1 || enabledStrict snapSys s 1) then found := true
  if ← report "snapshot_goroutine_never_blocks" "the snapshot goroutine blocks on its hand-over, or Go panics"
      snapSys 2000 (fun s => enabledStrict snapSys s 0 && noPanic s) then found := true
  if Gen.notifyFlr_opaque ≠ [] ∨ Gen.notifyLdr_opaque ≠ [] ∨ Gen.checkLeaderUpdate_opaque ≠ ["reset"] then
    IO.println s!"COUNTEREXAMPLE closed_skeletons a target now calls something that reaches a channel operation outside its skeleton: notifyFlr {Gen.notifyFlr_opaque} notifyLdr {Gen.notifyLdr_opaque} checkLeaderUpdate {Gen.checkLeaderUpdate_opaque}"
    found := true
  IO.println s!"census leaderUpdateCh {Gen.ops_leaderUpdateCh}"
  IO.println s!"census fsmRestoredCh {Gen.ops_fsmRestoredCh} kinds {repr Gen.kinds}"
  if !found then IO.println "no counterexample found by the search"
  return (if found then 1 else 0)
