import RaftGen.Props.C05Order
open Raft.Gen Raft.C05Order

/-- first event at which a request leaves with a term that is not on disk -/
def firstBad : List ElectEv → St → Nat → Option (Nat × St)
  | [], _, _ => none
  | e :: es, s, i =>
    let s' := step s e
    if s'.bad then some (i, s) else firstBad es s' (i + 1)

def main : IO Unit := do
  match firstBad startElectionEvents {} 0 with
  | some (i, s) =>
    IO.println s!"COUNTEREXAMPLE: candidate.startElection, event {i} (a go statement sending the vote request): the request carries term entry+{s.req.getD 0} while the term on disk is entry+{s.durable}; crash here, restart, and the node grants its vote for that term to another candidate"
  | none =>
    let s := run startElectionEvents
    IO.println s!"no request leaves early; durable=entry+{s.durable} req={repr s.req} sent={s.sent}"
