import RaftGen.Chan.Explore
import RaftGen.Gen.Skel
import RaftGen.Props.C15PipeSys

/-!
Search for a model-level counterexample after `RaftGen/Props/C15Pipe.lean` no longer builds: for every system of that file, the
shortest schedule (which goroutine moves, step by step) to a state that violates the property, printed with process names and
program counters (the generated file gives the source line of every program counter). Also prints the two schedules that the
theorems `recover_path_sends_on_closed` and `writer_can_outlive_replicate` are about, and repeats the no-panic check with larger
capacities of `resultCh` (outside the kernel). Imports the generated skeletons, the executable exploration and the
definitions of the systems (`Props/C15PipeSys.lean`) only — not the theorems.
-/
open Raft Raft.Chan

namespace PipeSearch
open Raft.C15Pipe

def pipeSysN (cap capErr : Nat) : Sys :=
  Sys.mk [Gen.pipeReader, Gen.pipeWriter, Gen.pipeDrainerStop, Gen.pipeDrainerStale, leader]
    ((kinds cap).set resultChErr (Kind.buffered capErr))

def report (thm what : String) (y : Sys) (fuel : Nat) (P : State → Bool) : IO Bool := do
  match findBad y fuel P with
  | some tr =>
    IO.println s!"COUNTEREXAMPLE {thm} {what}: schedule of {tr.length} steps to the bad state:"
    IO.println (showResult y (some tr))
    return true
  | none => return false

/-- a schedule that a theorem asserts to exist: missing = counterexample to that theorem -/
def witness (thm what : String) (y : Sys) (fuel : Nat) (P : State → Bool) : IO Bool := do
  match findBad y fuel P with
  | some tr =>
    IO.println s!"WITNESS {thm} {what}: schedule of {tr.length} steps:"
    IO.println (showTrace y tr)
    return false
  | none =>
    IO.println s!"COUNTEREXAMPLE {thm}: the schedule the theorem asserts ({what}) no longer exists"
    return true

end PipeSearch
open PipeSearch Raft.C15Pipe

def main : IO UInt32 := do
  let mut found := false
  if ← report "pipeline_no_panic" "Go panics in a panic-free pipelining episode (send on closed resultCh, double close(stopCh), go statement run twice)"
      pipeSys 20000 noPanic then found := true
  if ← report "writer_closes_resultCh_on_every_exit" "the writer returned without closing resultCh"
      pipeSys 20000 (fun s => !halted pipeSys s writer || (s.isClosed resultCh && s.isClosed resultChErr)) then found := true
  if ← report "reader_never_stuck_after_writer_exit" "the writer has returned and the reader is stuck on resultCh / drained"
      pipeSys 20000 (fun s => !halted pipeSys s writer || halted pipeSys s reader || inNotifyLdr pipeSys s reader ||
        enabledStrict pipeSys s reader || live pipeSys s drainerStop || live pipeSys s drainerStale) then found := true
  if ← report "next_iteration_only_after_writer_exit" "the reader goes on to the next iteration while the old writer can still communicate"
      pipeSys 20000 (fun s => !Nat.beq (s.pc reader) Gen.pipeReader_next || onExitPath pipeSys s writer) then found := true
  if ← report "writer_terminates_once_stopped / episode_ends_with_writer_able_to_finish"
      "after close(stopCh) (or after the reader left) the writer cannot run to its return on its own"
      pipeSys 20000 (fun s => !((s.isClosed stopCh || readerLeft s) && !writerWaitsForLeader s) ||
        canReach pipeSys 100 [writer] (halted pipeSys · writer) s) then found := true
  if ← report "replication_can_finish_once_stopped" "r.stopCh is closed and the goroutines of the episode cannot all finish"
      pipeSys 20000 (fun s => !s.isClosed rStopCh || canReach pipeSys 300 goroutines allDone s) then found := true
  if ← report "recover_path_is_the_only_panic" "variant P panics somewhere else than in the send of the deferred function"
      pipeSysP 20000 (fun s => noPanic s || memNat (s.pc writer) Gen.pipeWriterP_at_recoverSend) then found := true
  if ← witness "recover_path_sends_on_closed" "writeAppendEntriesReq panics; the deferred function closes resultCh and then sends on it"
      pipeSysP 20000 (fun s => noPanic s || !memNat (s.pc writer) Gen.pipeWriterP_at_recoverSend) then found := true
  if ← witness "writer_can_outlive_replicate" "the reader has returned from replicate() while the writer is in writeAppendEntriesReq"
      pipeSys 20000 (fun s => !(Nat.beq (s.pc reader) Gen.pipeReader_ret && memNat (s.pc writer) Gen.pipeWriter_at_write)) then found := true
  -- larger capacities of resultCh (outside the kernel): no panic, the writer closes resultCh, the writer can finish once stopped
  for cap in [1, 3, 4, 8, 16] do
    let y := pipeSysN cap 2
    if ← report s!"pipeline_no_panic (cap(resultCh) = {cap})" "Go panics" y 2000000 noPanic then found := true
  if Gen.pipe_opaque ≠ ["reset"] ∨ Gen.pipe_prefix_calls ≠ ["checkLeaderUpdate", "onAppendEntriesResp", "sendInstallSnapReq"] then
    IO.println s!"COUNTEREXAMPLE episode_closed the episode now calls something that reaches a channel operation outside its skeleton: inside {Gen.pipe_opaque} before {Gen.pipe_prefix_calls}"
    found := true
  IO.println s!"states: pipeSys {(explore pipeSys 100000).map List.length} pipeSysP {(explore pipeSysP 100000).map List.length}"
  if !found then IO.println "no counterexample found by the search"
  return (if found then 1 else 0)
