import RaftGen.Chan.Explore
import RaftGen.Gen.Skel
import RaftGen.Props.C15PipeSys

/-!
Search for a model-level counterexample after `RaftGen/Props/C15Pipe.lean` no longer builds: for every system of that file, the
shortest schedule (which goroutine moves, step by step) to a state that violates the property, printed with process names and
program counters (the generated file gives the source line of every program counter). Also prints the schedule of the observation
`recover_path_sends_on_closed` (`Notes/PipeObservations.lean`; informative, not a failure when it is gone) and repeats the no-panic
check with larger capacities of `resultCh` (outside the kernel). Imports the generated skeletons, the executable exploration and the
definitions of the systems (`Props/C15PipeSys.lean`) only — not the theorems.
-/
open Raft Raft.Chan

namespace PipeSearch
open Raft.C15Pipe

def pipeSysN (cap capErr : Nat) : Sys :=
  Sys.mk [Gen.pipeReader, Gen.pipeWriter, Gen.pipeDrainerStop, Gen.pipeDrainerStale, leader]
    ((kinds cap).set resultChErr (Kind.buffered capErr))

def report (thm what : String) (y : Sys) (fuel : Nat) (P : State → Bool) : IO Bool := do
  match findBad y fuel P with
  | some tr =>
    IO.println s!"COUNTEREXAMPLE {thm} {what}: schedule of {tr.length} steps to the bad state:"
    IO.println (showResult y (some tr))
    return true
  | none => return false

/-- a schedule that documents an observation (not an obligation) -/
def observe (name what : String) (y : Sys) (fuel : Nat) (P : State → Bool) : IO Unit := do
  match findBad y fuel P with
  | some tr =>
    IO.println s!"OBSERVATION {name} {what}: schedule of {tr.length} steps:"
    IO.println (showTrace y tr)
  | none => IO.println s!"OBSERVATION {name}: no such schedule any more ({what})"

/-- successors of a node through an edge that is not a send on `c` (as in `C15Pipe.lean`) -/
def succAvoiding (c : Nat) : Node → List Nat
  | .comm cs d => (cs.filter fun k => !(k.send && Nat.beq k.chan c)).map (·.next) ++ d.toList
  | .close _ n => [n]
  | .choice ns => ns
  | .halt => []
  | .recvOrClosed _ a b => [a, b]
def reachAvoiding (p : Proc) (c : Nat) : Nat → List Nat → List Nat → Option (List Nat)
  | _, [], seen => some seen
  | 0, _ :: _, _ => none
  | fuel + 1, x :: work, seen =>
    bif memNat x seen then reachAvoiding p c fuel work seen
    else reachAvoiding p c fuel (succAvoiding c (p.code.getD x .halt) ++ work) (x :: seen)
def isExitNode : Node → Bool
  | .halt => true
  | .close _ _ => true
  | _ => false

end PipeSearch
open PipeSearch Raft.C15Pipe

def main : IO UInt32 := do
  let mut found := false
  if ← report "pipeline_no_panic" "Go panics in a panic-free pipelining episode (send on closed resultCh, double close(stopCh), go statement run twice)"
      pipeSys 20000 noPanic then found := true
  if ← report "writer_closes_resultCh_on_every_exit" "the writer returned without closing resultCh"
      pipeSys 20000 (fun s => !halted pipeSys s writer || (s.isClosed resultCh && s.isClosed resultChErr)) then found := true
  if ← report "reader_never_stuck_after_writer_exit" "the writer has returned and the reader is stuck on resultCh / drained"
      pipeSys 20000 (fun s => !halted pipeSys s writer || halted pipeSys s reader || inNotifyLdr pipeSys s reader ||
        enabledStrict pipeSys s reader || live pipeSys s drainerStop || live pipeSys s drainerStale) then found := true
  if ← report "reader_returns_only_after_writer_done" "the reader has left the episode (returned / next iteration) while the writer is not yet past its last communication"
      pipeSys 20000 (fun s => !readerLeft s || onExitPath pipeSys s writer) then found := true
  if ← report "writer_never_outlives_reader" "the reader has left the episode while the writer is about to execute / executing writeAppendEntriesReq"
      pipeSys 20000 (fun s => !readerLeft s || !memNat (s.pc writer) Gen.pipeWriter_at_write) then found := true
  if ← report "every_written_request_is_reported (dynamic part)" "the writer stands just after a successful writeAppendEntriesReq but the reader has left / resultCh is closed"
      pipeSys 20000 (fun s => !writerHasWritten s || (!readerLeft s && !s.isClosed resultCh)) then found := true
  match reachAvoiding Gen.pipeWriter resultCh 1000 Gen.pipeWriter_at_written [] with
  | some pcs =>
    let bad := pcs.filter fun pc => isExitNode (Gen.pipeWriter.code.getD pc .halt)
    if !bad.isEmpty then
      IO.println s!"COUNTEREXAMPLE every_written_request_is_reported: in the control-flow graph of pipeWriter the exit nodes {bad} can be reached from {Gen.pipeWriter_at_written} (just after a successful writeAppendEntriesReq) without a send on resultCh; nodes on the way: {pcs.reverse}"
      found := true
  | none => IO.println "every_written_request_is_reported: out of fuel"; found := true
  if ← report "writer_terminates_once_stopped"
      "after close(stopCh) the goroutines of the episode cannot bring the writer to its return (and it is not waiting for the leader)"
      pipeSys 20000 (fun s => !(s.isClosed stopCh && !writerWaitsForLeader s) || writerCanFinish s) then found := true
  if ← report "replication_can_finish_once_stopped" "r.stopCh is closed and the goroutines of the episode cannot all finish"
      pipeSys 20000 (fun s => !s.isClosed rStopCh || episodeCanFinish s) then found := true
  if ← report "recover_path_is_the_only_panic" "variant P panics somewhere else than in the send of the deferred function"
      pipeSysP 20000 (fun s => noPanic s || memNat (s.pc writer) Gen.pipeWriterP_at_recoverSend) then found := true
  observe "recover_path_sends_on_closed" "writeAppendEntriesReq panics; the deferred function closes resultCh and then sends on it"
      pipeSysP 20000 (fun s => noPanic s || !memNat (s.pc writer) Gen.pipeWriterP_at_recoverSend)
  -- larger capacities of resultCh (outside the kernel): no panic, the writer closes resultCh, the writer can finish once stopped
  for cap in [1, 3, 4, 8, 16] do
    let y := pipeSysN cap 2
    if ← report s!"pipeline_no_panic (cap(resultCh) = {cap})" "Go panics" y 2000000 noPanic then found := true
  if Gen.pipe_opaque ≠ ["reset"] ∨ Gen.pipe_prefix_calls ≠ ["checkLeaderUpdate", "onAppendEntriesResp", "sendInstallSnapReq"] then
    IO.println s!"COUNTEREXAMPLE episode_closed the episode now calls something that reaches a channel operation outside its skeleton: inside {Gen.pipe_opaque} before {Gen.pipe_prefix_calls}"
    found := true
  IO.println s!"states: pipeSys {(explore pipeSys 100000).map List.length} pipeSysP {(explore pipeSysP 100000).map List.length}"
  if !found then IO.println "no counterexample found by the search"
  return (if found then 1 else 0)
