import RaftVerif.Model.Timing
import RaftGen.Gen.Timing

/-!
Search for a concrete input on which a timing claim of `RaftGen/Props/C17Timing.lean` fails. Run by ./check (with
`lake env lean --run`) only after that file no longer builds. It imports the generated facts and the model, not the theorems.
-/
open Raft Raft.Timing

def hbs : List Nat := [1000000000, 100000000, 50000000, 20000000, 3000000000, 5000000, 1000, 10, 3, 2, 1]
def rounds : List Nat := List.range 16
def draws (hb : Nat) : List Nat := [0, 1, hb - 1, hb, 2 * hb + 1, 123456789012]

def findFirst {α} (xs : List α) (p : α → Option String) : Option String :=
  xs.foldl (fun acc x => match acc with | some s => some s | none => p x) none

def main : IO UInt32 := do
  let mut found := false
  -- claim 1: retry delay < every election timeout
  let c1 := findFirst hbs fun hb => findFirst rounds fun r => findFirst (draws hb) fun x =>
    findFirst Gen.electionArgs fun f =>
      if f hb = 0 then none else
      if backOff r (Gen.retryMax hb) < Gen.randDuration (f hb) x then none
      else some s!"retry: hbTimeout={hb}ns failures={r}: runLoop waits backOff({r}, {Gen.retryMax hb}) = {backOff r (Gen.retryMax hb)}ns, an election timeout a follower can draw is {Gen.randDuration (f hb) x}ns (draw x={x})"
  if let some s := c1 then IO.println s!"COUNTEREXAMPLE retry_before_election_timeout {s}"; found := true
  -- claim 2: two idle heartbeats per election timeout
  let c2 := findFirst hbs fun hb => findFirst (draws hb) fun x => findFirst Gen.electionArgs fun f =>
      if f hb = 0 then none else
      if 2 * Gen.heartbeatPeriod hb ≤ Gen.randDuration (f hb) x ∧ Gen.heartbeatPeriod hb < Gen.randDuration (f hb) x then none
      else some s!"heartbeat: hbTimeout={hb}ns: idle heartbeat period {Gen.heartbeatPeriod hb}ns, an election timeout a follower can draw is {Gen.randDuration (f hb) x}ns (draw x={x})"
  if let some s := c2 then IO.println s!"COUNTEREXAMPLE heartbeat_before_election_timeout {s}"; found := true
  -- claim 3: election timeout in [hb, 2hb)
  let c3 := findFirst hbs fun hb => findFirst (draws hb) fun x => findFirst Gen.electionArgs fun f =>
      let t := Gen.randDuration (f hb) x
      if hb ≤ t ∧ t < 2 * hb then none
      else some s!"election timeout: hbTimeout={hb}ns draw x={x}: timer armed with {t}ns, outside [{hb}, {2*hb})"
  if let some s := c3 then IO.println s!"COUNTEREXAMPLE election_timeout_range {s}"; found := true
  -- claim 5: the write deadline covers the declared bandwidth
  let sizes : List Nat := [262144, 1048576, 65536, 4096, 100000000]
  let bws : List Nat := [16384, 262144, 1048576, 268435456]
  let c5 := findFirst hbs fun hb => findFirst bws fun bw => findFirst sizes fun size =>
      let a := Gen.deadlineArgs bw size
      let t := durationFor a.1 a.2
      let w := if t < Gen.deadlineFloor hb then Gen.deadlineFloor hb else t
      if size * 1000000000 / bw ≤ w ∧ 2 * hb ≤ w then none
      else some s!"write deadline: Options.Bandwidth={bw}B/s payload={size}B hbTimeout={hb}ns: deadlineSize allows {w}ns, the declared bandwidth needs {size * 1000000000 / bw}ns"
  if let some s := c5 then IO.println s!"COUNTEREXAMPLE write_deadline_covers_declared_bandwidth {s}"; found := true
  -- claim 4: constants
  if Gen.failureWait ≠ failureWait ∨ Gen.maxFailureScale ≠ maxFailureScale then
    IO.println s!"COUNTEREXAMPLE constants_agree util.go failureWait={Gen.failureWait} maxFailureScale={Gen.maxFailureScale}, model {failureWait} {maxFailureScale}"
    found := true
  if !found then IO.println "no counterexample on the grid"
  return (if found then 1 else 0)
