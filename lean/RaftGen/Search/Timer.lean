import RaftGen.Gen.Timer

/-!
Search for a model-level counterexample after `RaftGen/Props/C15Timer.lean` no longer builds: names the receive sites that do
not clear `active`, and the functions of the wrapper whose source changed. Imports only the generated facts.
-/
open Raft

def expectedStop : String := "{ if !t.timer.Stop() { if t.active { <-t.C } } t.active = false }"
def expectedReset : String := "{ t.stop() t.timer.Reset(d) t.active = true }"
def expectedNew : String := "{ t := time.NewTimer(0) if !t.Stop() { <-t.C } return &safeTimer{t, t.C, false} }"

def main : IO UInt32 := do
  let mut found := false
  for s in Gen.timerRecvSites do
    if !s.2.2 then
      IO.println s!"COUNTEREXAMPLE all_sites_clear in {s.1} the receive from {s.2.1}.C is not followed by `{s.2.1}.active = false`: model run [reset, fire, recv, reset] ends stuck (unclear_receive_blocks): after the timer fired once and the value was received, the next reset/stop waits forever in `<-t.C`"
      found := true
  if Gen.safeTimerStopSrc ≠ expectedStop then
    IO.println s!"COUNTEREXAMPLE wrapper_source safeTimer.stop changed: {Gen.safeTimerStopSrc}"; found := true
  if Gen.safeTimerResetSrc ≠ expectedReset then
    IO.println s!"COUNTEREXAMPLE wrapper_source safeTimer.reset changed: {Gen.safeTimerResetSrc}"; found := true
  if Gen.newSafeTimerSrc ≠ expectedNew then
    IO.println s!"COUNTEREXAMPLE wrapper_source newSafeTimer changed: {Gen.newSafeTimerSrc}"; found := true
  if !found then IO.println "no counterexample found"
  return (if found then 1 else 0)
