/-
  Hand-written instances mirroring what the generator emits; regression tests for Model/Explore/Sound.
  Every `theorem` below is about ALL reachable states of ALL executions (any length); the finite exploration
  happens inside the kernel (`by decide`).
-/
import RaftGen.Chan.Sound

namespace Raft.Chan.Examples
open Raft.Chan

/-! ## 1. `leaderUpdateCh` (channel 0, `buffered 1`): the notify-with-replace idiom and its lost-wake-up mutant -/

/-- Go: `for { select { case ch <- u: case <-ch: ch <- u } }` -/
def senderOK : Proc :=
  Proc.mk "senderOK" [Node.comm [⟨true, 0, 0⟩, ⟨false, 0, 1⟩] none, Node.comm [⟨true, 0, 0⟩] none] 0

/-- Go: `for { select { case ch <- u: default: <-ch; ch <- u } }` -/
def senderMut : Proc :=
  Proc.mk "senderMut" [Node.comm [⟨true, 0, 0⟩] (some 1), Node.comm [⟨false, 0, 2⟩] none, Node.comm [⟨true, 0, 0⟩] none] 0

/-- the most general receiver: at any time takes an item, idles, or stops for good -/
def receiver : Proc :=
  Proc.mk "receiver" [Node.choice [0, 1, 2], Node.comm [⟨false, 0, 0⟩] none, Node.halt] 0

def sysOK : Sys := Sys.mk [senderOK, receiver] [Kind.buffered 1]
def sysMut : Sys := Sys.mk [senderMut, receiver] [Kind.buffered 1]

/-- the sender of `sysOK` never blocks: in every reachable state it can move without help from the receiver -/
theorem senderOK_never_blocks : ∀ s, Reachable sysOK s → enabledStrict sysOK s 0 = true :=
  checkAll_sound (fuel := 100) (by decide)

theorem senderOK_never_returns : ∀ s, Reachable sysOK s → (!halted sysOK s 0) = true :=
  checkAll_sound (fuel := 100) (by decide)

/-- … hence it always has a real step of its own (it never returns) -/
theorem senderOK_progress : ∀ s, Reachable sysOK s → ∃ t, (0, t) ∈ sysOK.next s := by
  intro s hs
  rcases enabledStrict_progress (senderOK_never_blocks s hs) with h | h
  · have := senderOK_never_returns s hs
    rw [h] at this
    exact nomatch this
  · exact h

/-- no panic either (nothing is ever closed) -/
theorem sysOK_noPanic : ∀ s, Reachable sysOK s → noPanic s = true :=
  checkAll_sound (fuel := 100) (by decide)

/-- the explored state space of `sysOK`: exactly 9 states -/
example : (explore sysOK 100).map List.length = some 9 := by decide

/-- same theorem through the certificate checker (the certificate is the explored list itself) -/
example : ∀ s, Reachable sysOK s → enabledStrict sysOK s 0 = true :=
  checkInv_sound (vs := (explore sysOK 100).getD []) (by decide)

/-- the mutant loses a wake-up: the search finds the shortest schedule to a state where the sender is stuck -/
example : findBad sysMut 100 (enabledStrict sysMut · 0) =
    some [(0, ⟨[0, 0], [1], [false], false⟩),   -- sender: ch <- u
          (0, ⟨[1, 0], [1], [false], false⟩),   -- sender: buffer full, takes `default`
          (1, ⟨[1, 1], [1], [false], false⟩),   -- receiver decides to receive
          (1, ⟨[1, 0], [0], [false], false⟩)]   -- receiver drains the item: sender now blocks in `<-ch` for ever
    := by decide

/-- the mutant's property is FALSE, as a theorem about reachable states -/
theorem senderMut_can_block : ∃ s, Reachable sysMut s ∧ enabledStrict sysMut s 0 = false :=
  findBad_reachable (fuel := 100) (P := (enabledStrict sysMut · 0))
    (tr := [(0, ⟨[0, 0], [1], [false], false⟩), (0, ⟨[1, 0], [1], [false], false⟩),
            (1, ⟨[1, 1], [1], [false], false⟩), (1, ⟨[1, 0], [0], [false], false⟩)]) (by decide)

example : checkAll sysMut 100 (enabledStrict sysMut · 0) = false := by decide

#eval IO.println (showResult sysMut (findBad sysMut 100 (enabledStrict sysMut · 0)))
#guard (findBad sysMut 100 (enabledStrict sysMut · 0)).isSome
#guard (findBad sysOK 100 (enabledStrict sysOK · 0)).isNone

/-! ## 2. A `sync` channel: rendezvous -/

/-- Go: `ch <- v; return` -/
def syncSender : Proc := Proc.mk "syncSender" [Node.comm [⟨true, 0, 1⟩] none, Node.halt] 0
/-- Go: `<-ch; return` -/
def syncReceiver : Proc := Proc.mk "syncReceiver" [Node.comm [⟨false, 0, 1⟩] none, Node.halt] 0
/-- Go: `select { case ch <- v: (delivered, pc 3)  default: }` in a loop, may give up (pc 2): a poller never parks -/
def syncPoller : Proc :=
  Proc.mk "syncPoller" [Node.comm [⟨true, 0, 3⟩] (some 1), Node.choice [0, 2], Node.halt, Node.halt] 0
/-- Go: `select { case <-ch: (pc 3)  default: }` in a loop, may give up (pc 2) -/
def syncPollRecv : Proc :=
  Proc.mk "syncPollRecv" [Node.comm [⟨false, 0, 3⟩] (some 1), Node.choice [0, 2], Node.halt, Node.halt] 0

def sysSync : Sys := Sys.mk [syncSender, syncReceiver] [Kind.sync]

/-- the two sides move together: exactly two reachable states -/
example : explore sysSync 10 = some [⟨[1, 1], [0], [false], false⟩, ⟨[0, 0], [0], [false], false⟩] := by decide

/-- both are at their communication, or both have returned -/
theorem sync_lockstep : ∀ s, Reachable sysSync s → (halted sysSync s 0 = halted sysSync s 1) := by
  intro s hs
  have := checkAll_sound (y := sysSync) (fuel := 10) (P := fun s => halted sysSync s 0 == halted sysSync s 1) (by decide) s hs
  simpa using this

/-- a rendezvous is NOT a strict move: the sender relies on the receiver -/
example : enabledStrict sysSync sysSync.init 0 = false := by decide
/-- … but the step exists in the system, labelled with the sender -/
example : sysSync.next sysSync.init = [(0, ⟨[1, 1], [0], [false], false⟩)] := by decide

/-- a sender without receiver blocks for ever (deadlock found) -/
def sysSyncAlone : Sys := Sys.mk [syncSender] [Kind.sync]
example : explore sysSyncAlone 10 = some [sysSyncAlone.init] := by decide
example : findBad sysSyncAlone 10 (enabledStrict sysSyncAlone · 0) = some [] := by decide

/-- a poller against a parked receiver: the rendezvous may happen, or the poll may come too early (default) -/
def sysPoll : Sys := Sys.mk [syncPoller, syncReceiver] [Kind.sync]
example : sysPoll.next sysPoll.init =
    [(0, ⟨[3, 1], [0], [false], false⟩), (0, ⟨[1, 0], [0], [false], false⟩)] := by decide
/-- the poller is always strictly enabled (it has a `default`) -/
theorem poller_never_blocks : ∀ s, Reachable sysPoll s → enabledStrict sysPoll s 0 = true :=
  checkAll_sound (fuel := 20) (by decide)

/-- two pollers never meet: neither ever parks, so no rendezvous is possible and nothing is ever delivered -/
def sysPollPoll : Sys := Sys.mk [syncPoller, syncPollRecv] [Kind.sync]
theorem pollers_never_meet : ∀ s, Reachable sysPollPoll s → (s.pc 0 != 3 && s.pc 1 != 3) = true :=
  checkAll_sound (fuel := 50) (by decide)
example : (sysPollPoll.next sysPollPoll.init).map (·.2.pcs) = [[1, 0], [0, 1]] := by decide
/-- whereas against the parked receiver the delivery is reachable -/
example : findBad sysPoll 20 (fun s => s.pc 0 != 3) = some [(0, ⟨[3, 1], [0], [false], false⟩)] := by decide

/-! ## 3. `close` -/

/-- Go: `close(ch); close(ch)` -/
def closeTwice : Proc := Proc.mk "closeTwice" [Node.close 0 1, Node.close 0 2, Node.halt] 0
def sysCloseTwice : Sys := Sys.mk [closeTwice] [Kind.buffered 1]

example : findBad sysCloseTwice 10 noPanic =
    some [(0, ⟨[1], [0], [true], false⟩), (0, ⟨[2], [0], [true], true⟩)] := by decide

theorem closeTwice_panics : ∃ s, Reachable sysCloseTwice s ∧ noPanic s = false :=
  findBad_reachable (fuel := 10) (tr := [(0, ⟨[1], [0], [true], false⟩), (0, ⟨[2], [0], [true], true⟩)]) (by decide)

/-- a panicked state has no successor -/
example : sysCloseTwice.next ⟨[2], [0], [true], true⟩ = [] := by decide

/-- Go: `close(stopCh)` at some point -/
def stopper : Proc := Proc.mk "stopper" [Node.choice [0, 1], Node.close 0 2, Node.halt] 0
/-- Go: `<-stopCh; return` -/
def waiter : Proc := Proc.mk "waiter" [Node.comm [⟨false, 0, 1⟩] none, Node.halt] 0
def sysCloseOnce : Sys := Sys.mk [stopper, waiter] [Kind.buffered 1]

/-- closing once, then receiving from the closed channel: fine -/
theorem closeOnce_noPanic : ∀ s, Reachable sysCloseOnce s → noPanic s = true :=
  checkAll_sound (fuel := 20) (by decide)

/-- the waiter blocks until the close (not strictly enabled initially) … -/
example : enabledStrict sysCloseOnce sysCloseOnce.init 1 = false := by decide
/-- … and once the channel is closed it can always run to completion on its own -/
theorem waiter_finishes_after_close :
    ∀ s, Reachable sysCloseOnce s → s.isClosed 0 = true →
      ∃ t, SoloReach sysCloseOnce 1 s t ∧ halted sysCloseOnce t 1 = true ∧ Reachable sysCloseOnce t :=
  canFinish_all (fuel := 20) (fuel' := 10) (G := fun s => s.isClosed 0) (by decide)

/-- a send on a closed channel panics -/
def lateSender : Proc := Proc.mk "lateSender" [Node.comm [⟨true, 0, 1⟩] none, Node.halt] 0
def sysSendClosed : Sys := Sys.mk [stopper, lateSender] [Kind.buffered 1]
example : (findBad sysSendClosed 20 noPanic).map (·.map (·.1)) = some [0, 0, 1] := by decide
#eval IO.println (showResult sysSendClosed (findBad sysSendClosed 20 noPanic))

/-! ## 4. An `external` timer: `for { select { case <-timer.C: work() ; case <-stopCh: return } }` -/

/-- channel 0 = `stopCh` (buffered, only ever closed), channel 1 = `timer.C` (external) -/
def ticker : Proc :=
  Proc.mk "ticker" [Node.comm [⟨false, 1, 1⟩, ⟨false, 0, 2⟩] none, Node.choice [0], Node.halt] 0
def sysTimer : Sys := Sys.mk [stopper, ticker] [Kind.buffered 1, Kind.external]

theorem timer_noPanic : ∀ s, Reachable sysTimer s → noPanic s = true :=
  checkAll_sound (fuel := 50) (by decide)

/-- the timer MAY fire (a step exists) but the ticker does not count as strictly enabled while it only waits
for the environment -/
example : sysTimer.next sysTimer.init =
    [(0, ⟨[0, 0], [0, 0], [false, false], false⟩), (0, ⟨[1, 0], [0, 0], [false, false], false⟩),
     (1, ⟨[0, 1], [0, 0], [false, false], false⟩)] := by decide
example : enabledStrict sysTimer sysTimer.init 1 = false := by decide

/-- once `stopCh` is closed the ticker can always finish without the timer ever firing -/
theorem ticker_finishes_after_stop :
    ∀ s, Reachable sysTimer s → s.isClosed 0 = true →
      ∃ t, SoloReach sysTimer 1 s t ∧ halted sysTimer t 1 = true ∧ Reachable sysTimer t :=
  canFinish_all (fuel := 50) (fuel' := 10) (G := fun s => s.isClosed 0) (by decide)

/-- and once it is closed the ticker is strictly enabled for ever -/
theorem ticker_enabled_after_stop : ∀ s, Reachable sysTimer s → s.isClosed 0 = true → enabledStrict sysTimer s 1 = true := by
  intro s hs hc
  have := checkAll_sound (y := sysTimer) (fuel := 50) (P := fun s => !s.isClosed 0 || enabledStrict sysTimer s 1) (by decide) s hs
  simpa [hc] using this

/-- with a `default` branch a select on an external channel never blocks, and both branches are possible -/
def pollTimer : Proc := Proc.mk "pollTimer" [Node.comm [⟨false, 0, 1⟩] (some 2), Node.halt, Node.halt] 0
def sysPollTimer : Sys := Sys.mk [pollTimer] [Kind.external]
example : sysPollTimer.next sysPollTimer.init = [(0, ⟨[1], [0], [false], false⟩), (0, ⟨[2], [0], [false], false⟩)] := by decide

/-! ## 5. A medium-size system evaluated by the kernel (`decide +kernel`): ring of 2 workers, 144 states -/

def worker (n i : Nat) : Proc :=
  Proc.mk s!"w{i}" [Node.choice [1, 2, 3], Node.comm [⟨true, i, 0⟩] (some 0),
    Node.comm [⟨false, (i + n - 1) % n, 0⟩] (some 0), Node.choice [4], Node.choice [5], Node.choice [0]] 0
def ring (n : Nat) : Sys := Sys.mk ((List.range n).map (worker n)) ((List.range n).map fun _ => Kind.buffered 1)

theorem ring2_all_enabled : ∀ s, Reachable (ring 2) s → (enabledStrict (ring 2) s 0 && enabledStrict (ring 2) s 1 && noPanic s) = true :=
  checkAll_sound (fuel := 200) (by decide +kernel)

example : (explore (ring 2) 200).map List.length = some 144 := by decide +kernel

end Raft.Chan.Examples

#print axioms Raft.Chan.Examples.senderOK_never_blocks
#print axioms Raft.Chan.Examples.senderOK_progress
#print axioms Raft.Chan.Examples.senderMut_can_block
#print axioms Raft.Chan.Examples.sync_lockstep
#print axioms Raft.Chan.Examples.poller_never_blocks
#print axioms Raft.Chan.Examples.pollers_never_meet
#print axioms Raft.Chan.Examples.closeTwice_panics
#print axioms Raft.Chan.Examples.closeOnce_noPanic
#print axioms Raft.Chan.Examples.waiter_finishes_after_close
#print axioms Raft.Chan.Examples.timer_noPanic
#print axioms Raft.Chan.Examples.ticker_finishes_after_stop
#print axioms Raft.Chan.Examples.ticker_enabled_after_stop
#print axioms Raft.Chan.Examples.ring2_all_enabled
