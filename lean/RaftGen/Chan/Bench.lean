/-
  Benchmark (NOT imported by `RaftGen.lean`; run with `lake env lean RaftGen/Chan/Bench.lean`):
  a leader goroutine with `n` replication goroutines, shaped like the skeleton the generator will emit.

  channel 0        : `stopCh`   (buffered, only ever closed by the leader)
  channel i (1..n) : `leaderUpdateCh` of replication goroutine i (buffered 1, notify-with-replace idiom)
  channel n+1      : `fromReplsCh` (sync: repl → leader)
  channel n+2      : a timer (external)
-/
import RaftGen.Chan.Sound

namespace Raft.Chan.Bench
open Raft.Chan

/-- `for { select { case <-stopCh: return; case <-updateCh: ; case <-timer.C: }; if news { select { case fromRepls <- m: ; case <-stopCh: return } } }` -/
def repl (n i : Nat) : Proc :=
  Proc.mk s!"repl{i}"
    [ Node.comm [⟨false, 0, 3⟩, ⟨false, i, 1⟩, ⟨false, n + 2, 1⟩] none,
      Node.choice [2, 0],
      Node.comm [⟨true, n + 1, 0⟩, ⟨false, 0, 3⟩] none,
      Node.halt ] 0

/-- nodes of the leader for follower `i` start at `4 + 2 * (i - 1)`:
`select { case ch_i <- u: ; case <-ch_i: ch_i <- u }` -/
def leaderNotify (i : Nat) : List Node :=
  [ Node.comm [⟨true, i, 0⟩, ⟨false, i, 4 + 2 * (i - 1) + 1⟩] none,
    Node.comm [⟨true, i, 0⟩] none ]

/-- `for { switch { notify follower i | poll fromRepls | shutdown: close(stopCh); return } }` -/
def leader (n : Nat) : Proc :=
  Proc.mk "leader"
    ([ Node.choice (1 :: 2 :: (List.range n).map fun j => 4 + 2 * j),
       Node.comm [⟨false, n + 1, 0⟩] (some 0),
       Node.close 0 3,
       Node.halt ] ++ (List.range n).flatMap fun j => leaderNotify (j + 1)) 0

def sys (n : Nat) : Sys :=
  Sys.mk (leader n :: (List.range n).map fun j => repl n (j + 1))
    (Kind.buffered 1 :: ((List.range n).map fun _ => Kind.buffered 1) ++ [Kind.sync, Kind.external])

/-- the property: no panic, the leader never blocks, and once `stopCh` is closed repl 1 can finish alone -/
def prop (n : Nat) (s : State) : Bool :=
  noPanic s && enabledStrict (sys n) s 0 && (!s.isClosed 0 || canFinish (sys n) 10 1 s)

/-- ring of `n` workers with 5 nodes each; worker `i` sends on channel `i` and receives from channel `i-1`
(both with `default`), `ring5 3` has exactly 5^3 * 2^3 = 1000 reachable states -/
def worker5 (n i : Nat) : Proc :=
  Proc.mk s!"w{i}" [Node.choice [1, 2, 3], Node.comm [⟨true, i, 0⟩] (some 0),
    Node.comm [⟨false, (i + n - 1) % n, 0⟩] (some 0), Node.choice [4], Node.choice [0]] 0
def ring5 (n : Nat) : Sys := Sys.mk ((List.range n).map (worker5 n)) ((List.range n).map fun _ => Kind.buffered 1)

/-! ## Measured (`decide +kernel`, Lean 4.33.0, user CPU time; wall time 1.3–2x that on the loaded build VM;
peak memory ≈ 1.5 MB per reachable state because the kernel keeps every intermediate term in its caches)

* `ring5_3`  : 3 processes,  1000 states:  ≈ 11 s,  1.4 GB
* `leader2`  : 3 processes,   280 states, with `canFinish` in every state:  ≈ 4.5 s, 1.0 GB
* `leader3`  : 4 processes,  2132 states:  ≈ 31 s,  3.6 GB
* `sys 4` (15760 states) is checked by `#eval checkAll …` in 3 s but is out of reach for the kernel (≈ 25 GB). -/

theorem ring5_3 : ∀ s, Reachable (ring5 3) s → (noPanic s && enabledStrict (ring5 3) s 0) = true :=
  checkAll_sound (fuel := 1100) (by decide +kernel)

theorem leader2 : ∀ s, Reachable (sys 2) s → prop 2 s = true :=
  checkAll_sound (fuel := 300) (by decide +kernel)

theorem leader3 : ∀ s, Reachable (sys 3) s → (noPanic s && enabledStrict (sys 3) s 0) = true :=
  checkAll_sound (fuel := 2200) (by decide +kernel)

#guard checkAll (sys 4) 20000 (prop 4)

end Raft.Chan.Bench

#print axioms Raft.Chan.Bench.ring5_3
#print axioms Raft.Chan.Bench.leader3
