/-
  Soundness of the exploration of `RaftGen/Chan/Explore.lean`.

  Main results (all generic in the system `y`, any fuel):
  * `explore_sound`, `explore_complete` : the list returned by `explore` is exactly the set of reachable states;
  * `checkAll_sound`, `checkInv_sound`  : a Bool check that evaluates to `true` proves `P` for EVERY reachable state;
  * `checkAllAny_sound`                 : … and, from the same exploration, that SOME reachable state satisfies `Q`;
  * `findBad_sound`                     : a schedule returned by `findBad` is a genuine run to a state violating `P`;
  * `canFinish_sound`, `canFinish_all`  : `canFinish` exhibits a solo run of process `i` to `halt`;
  * `canReach_sound`, `canReach_all`    : `canReach` exhibits a run of a GROUP of processes (strict moves only) to a goal;
  * `strictNext_sub_next`, `enabledStrict_iff`, `enabledStrict_progress` : meaning of the strict-enabledness predicate.
-/
import RaftGen.Chan.Explore

namespace Raft.Chan

/-! ## Fast equality, forcing -/

theorem natsBeq_eq : ∀ {a b : List Nat}, natsBeq a b = true → a = b
  | [], [], _ => rfl
  | x :: xs, y :: ys, h => by
    simp only [natsBeq, Bool.and_eq_true] at h
    rw [Nat.eq_of_beq_eq_true h.1, natsBeq_eq h.2]
  | [], _ :: _, h => by simp [natsBeq] at h
  | _ :: _, [], h => by simp [natsBeq] at h

theorem boolsBeq_eq : ∀ {a b : List Bool}, boolsBeq a b = true → a = b
  | [], [], _ => rfl
  | x :: xs, y :: ys, h => by
    simp only [boolsBeq, Bool.and_eq_true, beq_iff_eq] at h
    rw [h.1, boolsBeq_eq h.2]
  | [], _ :: _, h => by simp [boolsBeq] at h
  | _ :: _, [], h => by simp [boolsBeq] at h

theorem State.beqF_eq {a b : State} (h : a.beqF b = true) : a = b := by
  cases a; cases b
  simp only [State.beqF, Bool.and_eq_true, beq_iff_eq] at h
  obtain ⟨⟨⟨h1, h2⟩, h3⟩, h4⟩ := h
  simp only [State.mk.injEq]
  exact ⟨natsBeq_eq h1, natsBeq_eq h2, boolsBeq_eq h3, h4⟩

theorem natsBeq_refl : ∀ a : List Nat, natsBeq a a = true
  | [] => rfl
  | x :: xs => by simp [natsBeq, natsBeq_refl xs]

theorem boolsBeq_refl : ∀ a : List Bool, boolsBeq a a = true
  | [] => rfl
  | x :: xs => by simp [boolsBeq, boolsBeq_refl xs]

theorem State.beqF_refl (a : State) : a.beqF a = true := by
  simp [State.beqF, natsBeq_refl, boolsBeq_refl]

theorem canonNats_eq : ∀ xs : List Nat, canonNats xs = xs
  | [] => rfl
  | x :: xs => by
    have ih := canonNats_eq xs
    unfold canonNats
    rw [ih]
    cases x <;> cases xs <;> rfl

theorem canonBools_eq : ∀ xs : List Bool, canonBools xs = xs
  | [] => rfl
  | x :: xs => by
    have ih := canonBools_eq xs
    unfold canonBools
    rw [ih]
    cases x <;> cases xs <;> rfl

theorem withNats_eq {β : Type} (xs : List Nat) (k : List Nat → β) : withNats xs k = k xs := by
  unfold withNats
  rw [canonNats_eq]
  cases xs <;> rfl

theorem withBools_eq {β : Type} (xs : List Bool) (k : List Bool → β) : withBools xs k = k xs := by
  unfold withBools
  rw [canonBools_eq]
  cases xs <;> rfl

theorem withBool_eq {β : Type} (b : Bool) (k : Bool → β) : withBool b k = k b := by
  cases b <;> rfl

/-- forcing is the identity (it only changes the shape of the term the kernel sees) -/
theorem forceState_eq {β : Type} (s : State) (k : State → β) : forceState s k = k s := by
  simp only [forceState, withNats_eq, withBools_eq, withBool_eq]

/-! ## The trie is only ever asked "was this state inserted": what it answers `true` to was inserted -/

theorem Trie.contains_full : ∀ (d k0 k : Nat) (s : State), (Trie.full d).contains k0 k s = false
  | 0, _, _, _ => rfl
  | d + 1, k0, k, s => by
    simp only [Trie.full, Trie.contains]
    cases Nat.beq (Nat.mod k 2) 0 <;> simp only [cond] <;> exact Trie.contains_full d _ _ _

theorem Trie.contains_insert : ∀ (t : Trie) (k0 k k0' k' : Nat) (s s' : State),
    (t.insert k0 k s).contains k0' k' s' = true → s' = s ∨ t.contains k0' k' s' = true
  | .leaf xs, k0, k, k0', k', s, s', h => by
    simp only [Trie.insert, Trie.contains, List.any_cons, Bool.or_eq_true, Bool.and_eq_true] at h ⊢
    rcases h with h | h
    · exact Or.inl (State.beqF_eq h.2)
    · exact Or.inr h
  | .node l r, k0, k, k0', k', s, s', h => by
    simp only [Trie.insert] at h
    cases hk : Nat.beq (Nat.mod k 2) 0 <;> simp only [hk, cond] at h <;>
      simp only [Trie.contains] at h ⊢ <;>
      cases hk' : Nat.beq (Nat.mod k' 2) 0 <;> simp only [hk', cond] at h ⊢
    · exact Trie.contains_insert r _ _ _ _ _ _ h
    · exact Or.inr h
    · exact Or.inr h
    · exact Trie.contains_insert l _ _ _ _ _ _ h

theorem Trie.has_add {t : Trie} {s s' : State} (h : (t.add s).has s' = true) : s' = s ∨ t.has s' = true :=
  Trie.contains_insert t _ _ _ _ _ _ h

/-! ## Generic reachability and the worklist invariant -/

/-- reachability from a list of initial states through a successor function -/
inductive ReachG (succ : State → List State) (inits : List State) : State → Prop
  | init {s : State} : s ∈ inits → ReachG succ inits s
  | step {s t : State} : ReachG succ inits s → t ∈ succ s → ReachG succ inits t

/-- what the trie says is seen is in `vs`; what is still to expand is in `vs` -/
structure AccOK (a : Acc) : Prop where
  trie : ∀ k0 k s, a.tr.contains k0 k s = true → s ∈ a.vs
  work : ∀ s, s ∈ a.work → s ∈ a.vs

theorem addNew_spec : ∀ (ts : List State) (a : Acc), AccOK a →
    AccOK (addNew ts a) ∧
    (∀ s, s ∈ a.vs → s ∈ (addNew ts a).vs) ∧
    (∀ s, s ∈ a.work → s ∈ (addNew ts a).work) ∧
    (∀ s, s ∈ ts → s ∈ (addNew ts a).vs) ∧
    (∀ s, s ∈ (addNew ts a).vs → s ∈ a.vs ∨ (s ∈ ts ∧ s ∈ (addNew ts a).work))
  | [], a, h => ⟨h, fun _ h => h, fun _ h => h, fun _ h => absurd h List.not_mem_nil, fun _ h => Or.inl h⟩
  | t :: ts, a, h => by
    have hdef : addNew (t :: ts) a =
        bif a.tr.has t then addNew ts a
        else addNew ts { tr := a.tr.add t, vs := t :: a.vs, work := t :: a.work } := by
      simp only [addNew, forceState_eq]
    rw [hdef]
    cases hh : a.tr.has t
    · -- new state
      simp only [cond]
      have h' : AccOK { tr := a.tr.add t, vs := t :: a.vs, work := t :: a.work } := by
        refine ⟨?_, ?_⟩
        · intro k0 k s hs
          rcases Trie.contains_insert a.tr _ _ _ _ _ _ hs with rfl | hs'
          · exact List.mem_cons_self
          · exact List.mem_cons_of_mem _ (h.trie _ _ _ hs')
        · intro s hs
          rcases List.mem_cons.1 hs with rfl | hs'
          · exact List.mem_cons_self
          · exact List.mem_cons_of_mem _ (h.work _ hs')
      obtain ⟨i1, i2, i3, i4, i5⟩ := addNew_spec ts _ h'
      refine ⟨i1, fun s hs => i2 s (List.mem_cons_of_mem _ hs), fun s hs => i3 s (List.mem_cons_of_mem _ hs), ?_, ?_⟩
      · intro s hs
        rcases List.mem_cons.1 hs with rfl | hs'
        · exact i2 _ List.mem_cons_self
        · exact i4 s hs'
      · intro s hs
        rcases i5 s hs with h5 | ⟨h5, h6⟩
        · rcases List.mem_cons.1 h5 with rfl | h5'
          · exact Or.inr ⟨List.mem_cons_self, i3 _ List.mem_cons_self⟩
          · exact Or.inl h5'
        · exact Or.inr ⟨List.mem_cons_of_mem _ h5, h6⟩
    · -- already seen
      simp only [cond]
      obtain ⟨i1, i2, i3, i4, i5⟩ := addNew_spec ts a h
      refine ⟨i1, i2, i3, ?_, ?_⟩
      · intro s hs
        rcases List.mem_cons.1 hs with rfl | hs'
        · exact i2 _ (h.trie _ _ _ hh)
        · exact i4 s hs'
      · intro s hs
        rcases i5 s hs with h5 | ⟨h5, h6⟩
        · exact Or.inl h5
        · exact Or.inr ⟨List.mem_cons_of_mem _ h5, h6⟩

/-- invariant of the worklist loop -/
structure Inv (succ : State → List State) (inits : List State) (a : Acc) : Prop where
  ok : AccOK a
  hinit : ∀ s, s ∈ inits → s ∈ a.vs
  closed : ∀ s, s ∈ a.vs → s ∈ a.work ∨ ∀ t, t ∈ succ s → t ∈ a.vs
  reach : ∀ s, s ∈ a.vs → ReachG succ inits s

theorem Inv.start (succ : State → List State) (inits : List State) :
    Inv succ inits (addNew inits { tr := Trie.full trieDepth, vs := [], work := [] }) := by
  have h0 : AccOK { tr := Trie.full trieDepth, vs := [], work := [] } :=
    ⟨fun k0 k s h => by simp [Trie.contains_full] at h, fun s h => absurd h List.not_mem_nil⟩
  obtain ⟨i1, _, _, i4, i5⟩ := addNew_spec inits _ h0
  refine ⟨i1, i4, ?_, ?_⟩
  · intro s hs
    rcases i5 s hs with h | ⟨_, h⟩
    · exact absurd h List.not_mem_nil
    · exact Or.inl h
  · intro s hs
    rcases i5 s hs with h | ⟨h, _⟩
    · exact absurd h List.not_mem_nil
    · exact ReachG.init h

theorem Inv.expand {succ : State → List State} {inits : List State} {a : Acc} {s : State} {rest : List State}
    (h : Inv succ inits a) (hw : a.work = s :: rest) :
    Inv succ inits (addNew (succ s) { tr := a.tr, vs := a.vs, work := rest }) := by
  have hs : s ∈ a.vs := h.ok.work s (by rw [hw]; exact List.mem_cons_self)
  have h1 : AccOK { tr := a.tr, vs := a.vs, work := rest } :=
    ⟨h.ok.trie, fun x hx => h.ok.work x (by rw [hw]; exact List.mem_cons_of_mem _ hx)⟩
  obtain ⟨i1, i2, i3, i4, i5⟩ := addNew_spec (succ s) _ h1
  refine ⟨i1, fun x hx => i2 x (h.hinit x hx), ?_, ?_⟩
  · intro x hx
    rcases i5 x hx with h5 | ⟨_, h6⟩
    · rcases h.closed x h5 with hxw | hxc
      · rw [hw] at hxw
        rcases List.mem_cons.1 hxw with rfl | hxr
        · exact Or.inr fun t ht => i4 t ht
        · exact Or.inl (i3 x hxr)
      · exact Or.inr fun t ht => i2 t (hxc t ht)
    · exact Or.inl h6
  · intro x hx
    rcases i5 x hx with h5 | ⟨h5, _⟩
    · exact h.reach x h5
    · exact ReachG.step (h.reach s hs) h5

theorem exploreLoop_spec {succ : State → List State} {inits : List State} :
    ∀ (fuel : Nat) (a : Acc) (vs : List State), Inv succ inits a → exploreLoop succ fuel a = some vs →
      (∀ s, s ∈ inits → s ∈ vs) ∧ (∀ s, s ∈ vs → ∀ t, t ∈ succ s → t ∈ vs) ∧ (∀ s, s ∈ vs → ReachG succ inits s)
  | 0, a, vs, h, he => by
    simp only [exploreLoop] at he
    split at he
    · next hw =>
      cases he
      refine ⟨h.hinit, fun s hs => ?_, h.reach⟩
      rcases h.closed s hs with hx | hx
      · rw [hw] at hx; exact absurd hx List.not_mem_nil
      · exact hx
    · exact nomatch he
  | fuel + 1, a, vs, h, he => by
    simp only [exploreLoop] at he
    split at he
    · next hw =>
      cases he
      refine ⟨h.hinit, fun s hs => ?_, h.reach⟩
      rcases h.closed s hs with hx | hx
      · rw [hw] at hx; exact absurd hx List.not_mem_nil
      · exact hx
    · next s rest hw => exact exploreLoop_spec fuel _ vs (h.expand hw) he

/-- the result of `exploreG` contains the initial states, is closed under `succ`, and contains reachable states only -/
theorem exploreG_spec {succ : State → List State} {inits : List State} {fuel : Nat} {vs : List State}
    (h : exploreG succ inits fuel = some vs) :
    (∀ s, s ∈ inits → s ∈ vs) ∧ (∀ s, s ∈ vs → ∀ t, t ∈ succ s → t ∈ vs) ∧ (∀ s, s ∈ vs → ReachG succ inits s) :=
  exploreLoop_spec fuel _ vs (Inv.start succ inits) h

theorem exploreG_sound {succ : State → List State} {inits : List State} {fuel : Nat} {vs : List State}
    (h : exploreG succ inits fuel = some vs) : ∀ s, ReachG succ inits s → s ∈ vs := by
  obtain ⟨h1, h2, _⟩ := exploreG_spec h
  intro s hs
  induction hs with
  | init hi => exact h1 _ hi
  | step _ ht ih => exact h2 _ ih _ ht

theorem exploreG_complete {succ : State → List State} {inits : List State} {fuel : Nat} {vs : List State}
    (h : exploreG succ inits fuel = some vs) : ∀ s, s ∈ vs → ReachG succ inits s :=
  (exploreG_spec h).2.2

/-! ## Systems -/

theorem mem_succ {y : Sys} {s t : State} : t ∈ y.succ s ↔ ∃ i, (i, t) ∈ y.next s := by
  simp only [Sys.succ, List.mem_map]
  constructor
  · rintro ⟨⟨i, t'⟩, h, rfl⟩; exact ⟨i, h⟩
  · rintro ⟨i, h⟩; exact ⟨(i, t), h, rfl⟩

theorem reachable_iff_reachG {y : Sys} {s : State} : Reachable y s ↔ ReachG y.succ [y.init] s := by
  constructor
  · intro h
    induction h with
    | init => exact ReachG.init List.mem_cons_self
    | step _ ht ih => exact ReachG.step ih (mem_succ.2 ⟨_, ht⟩)
  · intro h
    induction h with
    | init hi => cases List.mem_singleton.1 hi; exact Reachable.init
    | step _ ht ih => obtain ⟨i, hi⟩ := mem_succ.1 ht; exact Reachable.step ih hi

/-- **Soundness of `explore`.**  If the exploration terminates within the fuel, every state reachable by an
execution of ANY length is in the returned list. -/
theorem explore_sound {y : Sys} {fuel : Nat} {vs : List State} (h : explore y fuel = some vs) :
    ∀ s, Reachable y s → s ∈ vs :=
  fun s hs => exploreG_sound h s (reachable_iff_reachG.1 hs)

/-- **Completeness of `explore`**: the returned list contains reachable states only. -/
theorem explore_complete {y : Sys} {fuel : Nat} {vs : List State} (h : explore y fuel = some vs) :
    ∀ s, s ∈ vs → Reachable y s :=
  fun s hs => reachable_iff_reachG.2 (exploreG_complete h s hs)

/-- **Soundness of `checkAll`.**  If `checkAll y fuel P` evaluates to `true` (e.g. `by decide`), then `P` holds in
every reachable state of `y`. -/
theorem checkAll_sound {y : Sys} {fuel : Nat} {P : State → Bool} (h : checkAll y fuel P = true) :
    ∀ s, Reachable y s → P s = true := by
  unfold checkAll at h
  split at h
  · next vs hv => exact fun s hs => List.all_eq_true.1 h s (explore_sound hv s hs)
  · exact nomatch h

/-- **Soundness of `checkAllAny`**: `P` holds in every reachable state, and some reachable state satisfies `Q`
(the explored list contains every reachable state, and reachable states only). -/
theorem checkAllAny_sound {y : Sys} {fuel : Nat} {P Q : State → Bool} (h : checkAllAny y fuel P Q = true) :
    (∀ s, Reachable y s → P s = true) ∧ (∃ s, Reachable y s ∧ Q s = true) := by
  unfold checkAllAny at h
  split at h
  · next vs hv =>
    simp only [Bool.and_eq_true] at h
    refine ⟨fun s hs => List.all_eq_true.1 h.1 s (explore_sound hv s hs), ?_⟩
    obtain ⟨t, ht, hq⟩ := List.any_eq_true.1 h.2
    exact ⟨t, explore_complete hv t ht, hq⟩
  · exact nomatch h

theorem trieOf_has : ∀ (vs : List State) (s : State), (trieOf vs).has s = true → s ∈ vs
  | [], s, h => by simp [trieOf, Trie.has, Trie.contains_full] at h
  | v :: vs, s, h => by
    rcases Trie.has_add (t := trieOf vs) h with rfl | h'
    · exact List.mem_cons_self
    · exact List.mem_cons_of_mem _ (trieOf_has vs s h')

/-- **Soundness of a certificate**: any list `vs` containing `init`, closed under `next`, on which `P` holds
(checked by the Bool function `checkInv`) proves `P` for every reachable state. -/
theorem checkInv_sound {y : Sys} {vs : List State} {P : State → Bool} (h : checkInv y vs P = true) :
    ∀ s, Reachable y s → P s = true := by
  simp only [checkInv, Bool.and_eq_true, List.all_eq_true, forceState_eq] at h
  obtain ⟨h0, hall⟩ := h
  have hmem : ∀ s, Reachable y s → s ∈ vs := by
    intro s hs
    induction hs with
    | init => exact trieOf_has vs _ h0
    | step _ ht ih => exact trieOf_has vs _ ((hall _ ih).2 _ (mem_succ.2 ⟨_, ht⟩))
  exact fun s hs => (hall s (hmem s hs)).1

/-- the reachable set IS a certificate: `checkAll` succeeding implies `checkInv` on the explored list would too
(stated as: the explored list is closed) -/
theorem explore_closed {y : Sys} {fuel : Nat} {vs : List State} (h : explore y fuel = some vs) :
    y.init ∈ vs ∧ ∀ s, s ∈ vs → ∀ i t, (i, t) ∈ y.next s → t ∈ vs := by
  obtain ⟨h1, h2, _⟩ := exploreG_spec h
  exact ⟨h1 _ List.mem_cons_self, fun s hs i t ht => h2 s hs t (mem_succ.2 ⟨i, ht⟩)⟩

/-! ## Runs and the counterexample search -/

/-- `tr` is a run of `y` starting in `s`: every entry `(i, t)` is a step of process `i` from the previous state -/
def IsRun (y : Sys) : State → List (Nat × State) → Prop
  | _, [] => True
  | s, (i, t) :: rest => (i, t) ∈ y.next s ∧ IsRun y t rest

/-- last state of a run starting in `s` -/
def lastState : State → List (Nat × State) → State
  | s, [] => s
  | _, (_, t) :: rest => lastState t rest

theorem lastState_snoc : ∀ (s : State) (tr : List (Nat × State)) (i : Nat) (t : State),
    lastState s (tr ++ [(i, t)]) = t
  | _, [], _, _ => rfl
  | _, (_, u) :: rest, i, t => lastState_snoc u rest i t

theorem isRun_snoc {y : Sys} : ∀ (s : State) (tr : List (Nat × State)) (i : Nat) (t : State),
    IsRun y s tr → (i, t) ∈ y.next (lastState s tr) → IsRun y s (tr ++ [(i, t)])
  | _, [], _, _, _, h => ⟨h, trivial⟩
  | _, (_, u) :: rest, i, t, h, h' => ⟨h.1, isRun_snoc u rest i t h.2 h'⟩

/-- the last state of a run from a reachable state is reachable -/
theorem reachable_of_isRun {y : Sys} : ∀ (s : State) (tr : List (Nat × State)),
    Reachable y s → IsRun y s tr → Reachable y (lastState s tr)
  | _, [], h, _ => h
  | _, (_, u) :: rest, h, hr => reachable_of_isRun u rest (Reachable.step h hr.1) hr.2

/-- a BFS item carries a genuine run from `init` to its state -/
def ItemOK (y : Sys) (it : Item) : Prop :=
  IsRun y y.init it.rtr.reverse ∧ lastState y.init it.rtr.reverse = it.st

theorem bfsAdd_spec {y : Sys} {P : State → Bool} {st : State} {rtr : List (Nat × State)}
    (hrun : IsRun y y.init rtr.reverse) (hlast : lastState y.init rtr.reverse = st) :
    ∀ (ts : List (Nat × State)) (tr : Trie) (nxt : List Item),
      (∀ p, p ∈ ts → p ∈ y.next st) → (∀ it, it ∈ nxt → ItemOK y it) →
      match bfsAdd P ts rtr tr nxt with
      | .bad t => IsRun y y.init t ∧ P (lastState y.init t) = false
      | .cont _ nxt' => ∀ it, it ∈ nxt' → ItemOK y it
  | [], tr, nxt, _, hn => by simpa only [bfsAdd] using hn
  | (i, t) :: ts, tr, nxt, hts, hn => by
    have hdef : bfsAdd P ((i, t) :: ts) rtr tr nxt =
        bif tr.has t then bfsAdd P ts rtr tr nxt
        else bif P t then bfsAdd P ts rtr (tr.add t) (⟨t, (i, t) :: rtr⟩ :: nxt)
        else .bad ((i, t) :: rtr).reverse := by
      simp only [bfsAdd, forceState_eq]
    have hts' : ∀ p, p ∈ ts → p ∈ y.next st := fun p hp => hts p (List.mem_cons_of_mem _ hp)
    have hstep : (i, t) ∈ y.next (lastState y.init rtr.reverse) := by
      rw [hlast]; exact hts _ List.mem_cons_self
    have hrun' : IsRun y y.init ((i, t) :: rtr).reverse := by
      rw [List.reverse_cons]; exact isRun_snoc _ _ _ _ hrun hstep
    have hlast' : lastState y.init ((i, t) :: rtr).reverse = t := by
      rw [List.reverse_cons]; exact lastState_snoc _ _ _ _
    rw [hdef]
    cases tr.has t
    · simp only [cond]
      cases hP : P t
      · simp only []
        exact ⟨hrun', by rw [hlast']; exact hP⟩
      · simp only []
        refine bfsAdd_spec hrun hlast ts _ _ hts' ?_
        intro it hit
        rcases List.mem_cons.1 hit with rfl | hit'
        · exact ⟨hrun', hlast'⟩
        · exact hn it hit'
    · simp only [cond]
      exact bfsAdd_spec hrun hlast ts _ _ hts' hn

theorem bfsLoop_spec {y : Sys} {P : State → Bool} :
    ∀ (fuel : Nat) (tr : Trie) (cur nxt : List Item) (res : List (Nat × State)),
      (∀ it, it ∈ cur → ItemOK y it) → (∀ it, it ∈ nxt → ItemOK y it) →
      bfsLoop y P fuel tr cur nxt = some res →
      IsRun y y.init res ∧ P (lastState y.init res) = false
  | 0, _, _, _, _, _, _, h => by simp [bfsLoop] at h
  | fuel + 1, tr, [], nxt, res, _, hn, h => by
    simp only [bfsLoop] at h
    split at h
    · exact nomatch h
    · next hd tl =>
      exact bfsLoop_spec fuel tr _ [] res (fun it hit => hn it (List.mem_reverse.1 hit))
        (fun it hit => absurd hit List.not_mem_nil) h
  | fuel + 1, tr, it :: cur, nxt, res, hc, hn, h => by
    simp only [bfsLoop] at h
    have hit := hc it List.mem_cons_self
    have hspec := bfsAdd_spec (P := P) hit.1 hit.2 (y.next it.st) tr nxt (fun p hp => hp) hn
    split at h
    · next t ht =>
      rw [ht] at hspec
      cases h
      exact hspec
    · next tr' nxt' ht =>
      rw [ht] at hspec
      exact bfsLoop_spec fuel tr' cur nxt' res (fun it' hit' => hc it' (List.mem_cons_of_mem _ hit')) hspec h

/-- **Soundness of `findBad`.**  A returned schedule is a genuine run of the system from `init`, and `P` is false
in its last state; in particular that state is reachable (`findBad_reachable`). -/
theorem findBad_sound {y : Sys} {fuel : Nat} {P : State → Bool} {tr : List (Nat × State)}
    (h : findBad y fuel P = some tr) : IsRun y y.init tr ∧ P (lastState y.init tr) = false := by
  unfold findBad at h
  cases hP : P y.init
  · rw [hP] at h
    cases h
    exact ⟨trivial, hP⟩
  · rw [hP] at h
    refine bfsLoop_spec fuel _ _ _ tr ?_ (fun it hit => absurd hit List.not_mem_nil) h
    intro it hit
    cases List.mem_singleton.1 hit
    exact ⟨trivial, rfl⟩

theorem findBad_reachable {y : Sys} {fuel : Nat} {P : State → Bool} {tr : List (Nat × State)}
    (h : findBad y fuel P = some tr) : ∃ s, Reachable y s ∧ P s = false :=
  ⟨_, reachable_of_isRun _ _ Reachable.init (findBad_sound h).1, (findBad_sound h).2⟩

/-- the form used by theorems that exhibit a counterexample: evaluate `(findBad y fuel P).isSome` (e.g. `by decide +kernel`) -/
theorem findBad_exists {y : Sys} {fuel : Nat} {P : State → Bool} (h : (findBad y fuel P).isSome = true) :
    ∃ s, Reachable y s ∧ P s = false := by
  cases hf : findBad y fuel P with
  | some tr => exact findBad_reachable hf
  | none => rw [hf] at h; exact nomatch h

/-! ## The semantics: panics, strict moves -/

/-- a panicked state has no successor -/
theorem next_of_bad {y : Sys} {s : State} (h : s.bad = true) : y.next s = [] := by
  simp only [Sys.next, h, cond]

theorem mem_next {y : Sys} {s : State} {p : Nat × State} :
    p ∈ y.next s ↔ s.bad = false ∧ ∃ i, i < y.procs.length ∧ p ∈ procNext y s i := by
  unfold Sys.next
  cases hb : s.bad
  · simp only [cond, List.mem_flatMap, List.mem_range, true_and]
  · simp only [cond, List.not_mem_nil, Bool.true_eq_false, false_and]

theorem node_of_ge {y : Sys} {i pc : Nat} (h : y.procs.length ≤ i) : y.node i pc = .halt := by
  unfold Sys.node
  rw [List.getElem?_eq_none h]

/-- every strict move is a move -/
theorem procStrict_sub {y : Sys} {s : State} {i : Nat} {p : Nat × State} (h : p ∈ procStrict y s i) :
    p ∈ procNext y s i := by
  unfold procStrict at h
  unfold procNext
  split at h
  · next cs d =>
    simp only [List.mem_append, List.mem_flatMap] at h ⊢
    rcases h with ⟨k, hk, hp⟩ | h
    · cases hr : caseReady y s k
      · simp [hr] at hp
      · simp only [hr, cond] at hp
        exact Or.inl ⟨k, hk, hp⟩
    · exact Or.inr h
  · exact h
  · exact h
  · exact h
  · revert h
    cases recvReady s _ <;> simp

theorem recvSucc_label {y : Sys} {s : State} {i : Nat} {k : Comm} {p : Nat × State}
    (h : p ∈ recvSucc y s i k) : p.1 = i := by
  unfold recvSucc at h
  simp only [Bool.cond_eq_ite] at h
  repeat' split at h
  all_goals first
    | exact absurd h List.not_mem_nil
    | (cases List.mem_singleton.1 h; rfl)

theorem partnerSucc_label {y : Sys} {s : State} {i j : Nat} {hasD : Bool} {k : Comm} {p : Nat × State}
    (h : p ∈ partnerSucc y s i hasD k j) : p.1 = i := by
  unfold partnerSucc at h
  simp only [Bool.cond_eq_ite] at h
  repeat' split at h
  all_goals first
    | exact absurd h List.not_mem_nil
    | (cases List.mem_singleton.1 h; rfl)
    | skip
  simp only [List.mem_filterMap] at h
  obtain ⟨k', _, hk'⟩ := h
  split at hk'
  · cases hk'; rfl
  · exact nomatch hk'

theorem sendSucc_label {y : Sys} {s : State} {i : Nat} {hasD : Bool} {k : Comm} {p : Nat × State}
    (h : p ∈ sendSucc y s i hasD k) : p.1 = i := by
  unfold sendSucc at h
  simp only [Bool.cond_eq_ite] at h
  repeat' split at h
  all_goals first
    | exact absurd h List.not_mem_nil
    | (cases List.mem_singleton.1 h; rfl)
    | skip
  simp only [List.mem_flatMap] at h
  obtain ⟨j', _, hk⟩ := h
  split at hk
  · exact absurd hk List.not_mem_nil
  · exact partnerSucc_label hk

theorem rangeSucc_label {y : Sys} {s : State} {i c nI nC : Nat} {p : Nat × State}
    (h : p ∈ rangeSucc y s i c nI nC) : p.1 = i := by
  unfold rangeSucc at h
  simp only [Bool.cond_eq_ite] at h
  repeat' split at h
  all_goals first
    | exact absurd h List.not_mem_nil
    | (cases List.mem_singleton.1 h; rfl)
    | (rcases List.mem_cons.1 h with h | h
       · cases h; rfl
       · cases List.mem_singleton.1 h; rfl)

theorem dfltSucc_label {y : Sys} {s : State} {i : Nat} {cs : List Comm} {d : Option Nat} {p : Nat × State}
    (h : p ∈ dfltSucc y s i cs d) : p.1 = i := by
  unfold dfltSucc at h
  simp only [Bool.cond_eq_ite] at h
  repeat' split at h
  all_goals first
    | exact absurd h List.not_mem_nil
    | (cases List.mem_singleton.1 h; rfl)

/-- every move generated for process `i` is labelled `i` -/
theorem procNext_label {y : Sys} {s : State} {i : Nat} {p : Nat × State} (h : p ∈ procNext y s i) : p.1 = i := by
  unfold procNext at h
  split at h
  · next cs d =>
    simp only [List.mem_append, List.mem_flatMap] at h
    rcases h with ⟨k, _, hk⟩ | hd
    · unfold caseSucc at hk
      cases hks : k.send
      · simp only [hks, cond] at hk; exact recvSucc_label hk
      · simp only [hks, cond] at hk; exact sendSucc_label hk
    · exact dfltSucc_label hd
  · cases List.mem_singleton.1 h; rfl
  · simp only [List.mem_map] at h
    obtain ⟨n, _, hn⟩ := h
    cases hn; rfl
  · exact absurd h List.not_mem_nil
  · exact rangeSucc_label h

theorem procNext_of_ge {y : Sys} {s : State} {i : Nat} (h : y.procs.length ≤ i) : procNext y s i = [] := by
  unfold procNext Sys.nodeAt
  rw [node_of_ge h]

/-- **Strict moves are real moves**: a state in `strictNext y s i` is a successor of `s` by a step of process `i`. -/
theorem strictNext_sub_next {y : Sys} {s t : State} {i : Nat} (h : t ∈ strictNext y s i) : (i, t) ∈ y.next s := by
  unfold strictNext at h
  cases hb : s.bad
  · simp only [hb, cond, List.mem_map] at h
    obtain ⟨⟨j, t'⟩, hp, rfl⟩ := h
    have hp' := procStrict_sub hp
    have hlt : i < y.procs.length := by
      rcases Nat.lt_or_ge i y.procs.length with h | h
      · exact h
      · rw [procNext_of_ge h] at hp'
        exact absurd hp' List.not_mem_nil
    have hj : j = i := procNext_label hp'
    subst hj
    exact mem_next.2 ⟨hb, j, hlt, hp'⟩
  · simp [hb] at h

/-- a definitely-ready case has a successor -/
theorem caseSucc_ne_nil {y : Sys} {s : State} {i : Nat} {hasD : Bool} {k : Comm}
    (h : caseReady y s k = true) : caseSucc y s i hasD k ≠ [] := by
  unfold caseReady at h
  unfold caseSucc
  cases hs : k.send
  · simp only [hs, cond] at h ⊢
    unfold recvReady at h
    unfold recvSucc
    cases h1 : Nat.blt 0 (s.buf k.chan)
    · simp only [h1, Bool.false_or] at h
      simp only [h, cond]
      exact List.cons_ne_nil _ _
    · simp only [cond]
      exact List.cons_ne_nil _ _
  · simp only [hs, cond] at h ⊢
    unfold sendReady at h
    unfold sendSucc
    cases h1 : s.isClosed k.chan
    · simp only [h1, Bool.false_or] at h
      simp only [cond]
      split at h
      · next cap hk =>
        simp only [hk, h]
        exact List.cons_ne_nil _ _
      · exact nomatch h
    · simp only [cond]
      exact List.cons_ne_nil _ _

/-- a `recvOrClosed` on a non-empty or closed channel has a successor -/
theorem rangeSucc_ne_nil {y : Sys} {s : State} {i c nI nC : Nat}
    (h : recvReady s c = true) : rangeSucc y s i c nI nC ≠ [] := by
  unfold recvReady at h
  unfold rangeSucc
  cases h1 : Nat.blt 0 (s.buf c)
  · simp only [h1, Bool.false_or] at h
    simp only [h, cond]
    exact List.cons_ne_nil _ _
  · simp only [cond]
    exact List.cons_ne_nil _ _

/-- **Meaning of `enabledStrict`**: process `i` has returned, or has at least one strict move. -/
theorem enabledStrict_iff {y : Sys} {s : State} {i : Nat} :
    enabledStrict y s i = true ↔ (halted y s i = true ∨ strictNext y s i ≠ []) := by
  unfold enabledStrict halted strictNext procStrict
  generalize y.nodeAt s i = nd
  cases nd with
  | halt => simp
  | close c n => cases hb : s.bad <;> simp
  | choice ns => cases hb : s.bad <;> simp
  | recvOrClosed c nI nC =>
    cases hb : s.bad
    · cases hr : recvReady s c
      · simp [hr]
      · simpa [hr] using rangeSucc_ne_nil (y := y) (i := i) (nI := nI) (nC := nC) hr
    · simp
  | comm cs d =>
    cases hb : s.bad
    · simp only [Bool.not_false, Bool.true_and, cond, Bool.false_eq_true, false_or, Bool.or_eq_true,
        List.any_eq_true, ne_eq, List.map_eq_nil_iff, List.append_eq_nil_iff, not_and]
      constructor
      · rintro h hflat
        have hnone : ∀ k, k ∈ cs → caseReady y s k = false := by
          intro k hk
          cases hr : caseReady y s k
          · rfl
          · exfalso
            have := List.flatMap_eq_nil_iff.1 hflat k hk
            simp only [hr] at this
            exact caseSucc_ne_nil hr this
        rcases h with h | ⟨k, hk, hr⟩
        · cases d with
          | none => exact nomatch h
          | some n =>
            have hany : cs.any (caseReady y s) = false := by
              rw [List.any_eq_false]
              intro k hk; rw [hnone k hk]; exact Bool.false_ne_true
            simp [dfltSucc, hany]
        · rw [hnone k hk] at hr; exact nomatch hr
      · intro h
        cases d with
        | some n => exact Or.inl rfl
        | none =>
          refine Or.inr ?_
          apply Classical.byContradiction
          intro hno
          apply h
          · rw [List.flatMap_eq_nil_iff]
            intro k hk
            cases hr : caseReady y s k
            · rfl
            · exact absurd ⟨k, hk, hr⟩ hno
          · rfl
    · simp

/-- **Progress**: a strictly enabled process is done or really has a step of its own in the system. -/
theorem enabledStrict_progress {y : Sys} {s : State} {i : Nat} (h : enabledStrict y s i = true) :
    halted y s i = true ∨ ∃ t, (i, t) ∈ y.next s := by
  rcases enabledStrict_iff.1 h with h | h
  · exact Or.inl h
  · cases hl : strictNext y s i with
    | nil => exact absurd hl h
    | cons t ts => exact Or.inr ⟨t, strictNext_sub_next (by rw [hl]; exact List.mem_cons_self)⟩

/-! ## Can a process finish on its own -/

/-- `t` is reachable from `s` by non-panicking strict moves of process `i` alone -/
def SoloReach (y : Sys) (i : Nat) (s t : State) : Prop := ReachG (soloNext y i) [s] t

theorem soloNext_sub_next {y : Sys} {i : Nat} {s t : State} (h : t ∈ soloNext y i s) : (i, t) ∈ y.next s :=
  strictNext_sub_next (List.mem_filter.1 h).1

/-- a solo run is a run of the system: what `i` reaches alone from a reachable state is reachable -/
theorem SoloReach.reachable {y : Sys} {i : Nat} {s t : State} (hs : Reachable y s) (h : SoloReach y i s t) :
    Reachable y t := by
  induction h with
  | init hi => cases List.mem_singleton.1 hi; exact hs
  | step _ ht ih => exact Reachable.step ih (soloNext_sub_next ht)

/-- a solo run never panics (beyond its start) -/
theorem SoloReach.noPanic {y : Sys} {i : Nat} {s t : State} (hs : noPanic s = true) (h : SoloReach y i s t) :
    noPanic t = true := by
  induction h with
  | init hi => cases List.mem_singleton.1 hi; exact hs
  | step _ ht _ => exact (List.mem_filter.1 ht).2

/-- **Soundness of `canFinish`**: there is a solo run of process `i` from `s` to a state where `i` has returned. -/
theorem canFinish_sound {y : Sys} {fuel i : Nat} {s : State} (h : canFinish y fuel i s = true) :
    ∃ t, SoloReach y i s t ∧ halted y t i = true := by
  unfold canFinish at h
  split at h
  · next vs hv =>
    obtain ⟨t, ht, hh⟩ := List.any_eq_true.1 h
    exact ⟨t, exploreG_complete hv t ht, hh⟩
  · exact nomatch h

/-- **Leads-to under a guard**: if the Bool check `G s → canFinish y fuel' i s` evaluates to `true` over the explored
state space, then from EVERY reachable state satisfying `G` process `i` can run to completion on its own
(strict moves only, nobody else moves, no panic), and the state it ends in is reachable. -/
theorem canFinish_all {y : Sys} {fuel fuel' i : Nat} {G : State → Bool}
    (h : checkAll y fuel (fun s => !G s || canFinish y fuel' i s) = true) :
    ∀ s, Reachable y s → G s = true → ∃ t, SoloReach y i s t ∧ halted y t i = true ∧ Reachable y t := by
  intro s hs hg
  have := checkAll_sound h s hs
  simp only [hg, Bool.not_true, Bool.false_or] at this
  obtain ⟨t, ht, hh⟩ := canFinish_sound this
  exact ⟨t, ht, hh, ht.reachable hs⟩

/-! ## Can a group of processes reach a goal on its own -/

theorem soloNext_label_sub {y : Sys} {g : List Nat} {s t : State} (h : t ∈ groupNext y g s) :
    ∃ i, i ∈ g ∧ (i, t) ∈ y.next s := by
  simp only [groupNext, List.mem_flatMap] at h
  obtain ⟨i, hi, ht⟩ := h
  exact ⟨i, hi, soloNext_sub_next ht⟩

/-- `t` is reachable from `s` by non-panicking strict moves of the processes of `g` alone -/
def GroupReach (y : Sys) (g : List Nat) (s t : State) : Prop := ReachG (groupNext y g) [s] t

/-- a run of the group is a run of the system -/
theorem GroupReach.reachable {y : Sys} {g : List Nat} {s t : State} (hs : Reachable y s) (h : GroupReach y g s t) :
    Reachable y t := by
  induction h with
  | init hi => cases List.mem_singleton.1 hi; exact hs
  | step _ ht ih =>
    obtain ⟨i, _, hi⟩ := soloNext_label_sub ht
    exact Reachable.step ih hi

/-- a run of the group never panics (beyond its start) -/
theorem GroupReach.noPanic {y : Sys} {g : List Nat} {s t : State} (hs : noPanic s = true) (h : GroupReach y g s t) :
    noPanic t = true := by
  induction h with
  | init hi => cases List.mem_singleton.1 hi; exact hs
  | step _ ht _ =>
    simp only [groupNext, List.mem_flatMap] at ht
    obtain ⟨i, _, ht⟩ := ht
    exact (List.mem_filter.1 ht).2

/-- a solo run is a run of the one-element group -/
theorem SoloReach.group {y : Sys} {i : Nat} {s t : State} (h : SoloReach y i s t) : GroupReach y [i] s t := by
  induction h with
  | init hi => exact ReachG.init hi
  | step _ ht ih => exact ReachG.step ih (by simpa [groupNext] using ht)

theorem searchLoop_spec {succ : State → List State} {inits : List State} {goal : State → Bool} :
    ∀ (fuel : Nat) (a : Acc), Inv succ inits a → searchLoop succ goal fuel a = true →
      ∃ t, ReachG succ inits t ∧ goal t = true
  | 0, _, _, he => by simp [searchLoop] at he
  | fuel + 1, a, h, he => by
    simp only [searchLoop] at he
    split at he
    · exact nomatch he
    · next s rest hw =>
      cases hg : goal s
      · simp only [hg, cond] at he
        exact searchLoop_spec fuel _ (h.expand hw) he
      · exact ⟨s, h.reach s (h.ok.work s (by rw [hw]; exact List.mem_cons_self)), hg⟩

/-- **Soundness of `canReach`**: there is a run of the group `g` alone (strict moves, no panic) from `s` to a goal state. -/
theorem canReach_sound {y : Sys} {fuel : Nat} {g : List Nat} {goal : State → Bool} {s : State}
    (h : canReach y fuel g goal s = true) : ∃ t, GroupReach y g s t ∧ goal t = true :=
  searchLoop_spec fuel _ (Inv.start _ _) h

/-- **Leads-to under a guard, for a group**: if the Bool check `G s → canReach y fuel' g goal s` evaluates to `true` over the
explored state space, then from EVERY reachable state satisfying `G` the processes of `g` can bring the system to a goal
state on their own (strict moves only, nobody else moves, no panic), and that state is reachable. -/
theorem canReach_all {y : Sys} {fuel fuel' : Nat} {g : List Nat} {G goal : State → Bool}
    (h : checkAll y fuel (fun s => !G s || canReach y fuel' g goal s) = true) :
    ∀ s, Reachable y s → G s = true → ∃ t, GroupReach y g s t ∧ goal t = true ∧ Reachable y t := by
  intro s hs hg
  have := checkAll_sound h s hs
  simp only [hg, Bool.not_true, Bool.false_or] at this
  obtain ⟨t, ht, hh⟩ := canReach_sound this
  exact ⟨t, ht, hh, ht.reachable hs⟩

#print axioms explore_sound
#print axioms explore_complete
#print axioms checkAll_sound
#print axioms checkAllAny_sound
#print axioms checkInv_sound
#print axioms findBad_sound
#print axioms findBad_reachable
#print axioms findBad_exists
#print axioms strictNext_sub_next
#print axioms enabledStrict_iff
#print axioms enabledStrict_progress
#print axioms canFinish_sound
#print axioms canFinish_all
#print axioms canReach_sound
#print axioms canReach_all

end Raft.Chan
