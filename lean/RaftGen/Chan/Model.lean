/-
  Channel skeletons of goroutines: types and executable semantics (core Lean only).

  A system is a fixed list of processes (goroutines), each a control-flow graph whose nodes are
  Go `select`s (`comm`), `close`, data-abstracted branches (`choice`), `halt` and `recvOrClosed` (a receive that
  tells an item from "closed and empty": `for range ch`), plus a list of channel kinds.  Data is erased: a state is the vector of program counters, the number of items
  in every buffered channel, the closed flags, and a sticky `bad` flag (Go would have panicked).

  Semantic choices (each errs on the side of MORE behaviours / FEWER "enabled" claims, so that a property
  proved for all reachable states of the model holds for all interleavings of the Go program):
  * A pc at a `select` means "about to execute it or parked in it"; the model cannot tell which.  Therefore a
    rendezvous on a `sync` channel is never *definitely ready*: a `select` with `default` that finds a partner
    standing at its `select` may rendezvous with it OR take `default` (the partner may not have parked yet:
    `j: ch1 <- x; <-ch2` / `i: <-ch1; select { case ch2 <- v: default: }` can take the default in Go).
  * No rendezvous when BOTH selects have a `default` (neither goroutine ever parks).
  * `external` channels: a receive/send on them MAY proceed at any time (a successor exists) but is never
    definitely ready and never counts for `enabledStrict`.
  * A send on a closed channel is definitely ready (Go selects it and panics): successor with `bad := true`.
  * A channel index outside `Sys.kinds` is a nil channel: send/receive block for ever, `close` panics.
  * A `bad` state has no successor.  `choice []` and `select {}` (`comm [] none`) block for ever.
-/
namespace Raft.Chan

/-- one communication offered by a `select` (a bare `ch <- v` / `<-ch` is a one-case select without default) -/
structure Comm where
  send : Bool      -- true: send on `chan`; false: receive from `chan`
  chan : Nat       -- index into `Sys.kinds`
  next : Nat       -- pc after this communication happened
deriving DecidableEq, Repr, Inhabited

inductive Node where
  | comm (cases : List Comm) (dflt : Option Nat)   -- Go `select`; `dflt = some pc`: the `default:` branch
  | close (chan next : Nat)                          -- `close(ch)`
  | choice (nexts : List Nat)                        -- data-dependent branch, or plain `skip` when one successor
  | halt                                             -- the goroutine returned
  | recvOrClosed (chan nextItem nextClosed : Nat)    -- `v, ok := <-ch` / one round of `for range ch`: an item → `nextItem`,
                                                     -- closed and empty → `nextClosed`
deriving DecidableEq, Repr, Inhabited

structure Proc where
  name : String
  code : List Node      -- indexed by pc; a pc outside the list behaves like `halt`
  entry : Nat
deriving Repr

inductive Kind where
  | buffered (cap : Nat)   -- `make(chan T, cap)`, cap ≥ 1
  | sync                   -- `make(chan T)`: a send needs a receiver waiting at the same time (rendezvous)
  | external               -- fired by the environment (timers, sockets): a receive MAY proceed at any time, or never
deriving DecidableEq, Repr

structure Sys where
  procs : List Proc
  kinds : List Kind
deriving Repr

structure State where
  pcs    : List Nat      -- one per process
  bufs   : List Nat      -- buffered items per channel (0 for sync/external)
  closed : List Bool
  bad    : Bool          -- Go would have panicked: send on a closed channel, or close of a closed channel
deriving DecidableEq, Repr

/-! ## State accessors -/

/-- program counter of process `i` (0 if `i` is not a process) -/
def State.pc (s : State) (i : Nat) : Nat := s.pcs.getD i 0
/-- number of items buffered in channel `c` -/
def State.buf (s : State) (c : Nat) : Nat := s.bufs.getD c 0
/-- has channel `c` been closed -/
def State.isClosed (s : State) (c : Nat) : Bool := s.closed.getD c false

def State.setPc (s : State) (i pc : Nat) : State :=
  { pcs := s.pcs.set i pc, bufs := s.bufs, closed := s.closed, bad := s.bad }
def State.setBuf (s : State) (c n : Nat) : State :=
  { pcs := s.pcs, bufs := s.bufs.set c n, closed := s.closed, bad := s.bad }
def State.setClosed (s : State) (c : Nat) : State :=
  { pcs := s.pcs, bufs := s.bufs, closed := s.closed.set c true, bad := s.bad }
def State.setBad (s : State) (b : Bool) : State :=
  { pcs := s.pcs, bufs := s.bufs, closed := s.closed, bad := b }

/-- `noPanic s`: Go has not panicked (no send on a closed channel, no double close so far) -/
def noPanic (s : State) : Bool := !s.bad

/-! ## System accessors -/

/-- the initial state: every process at its entry, all buffers empty, nothing closed -/
def Sys.init (y : Sys) : State :=
  { pcs := y.procs.map (·.entry), bufs := y.kinds.map (fun _ => 0),
    closed := y.kinds.map (fun _ => false), bad := false }

/-- node of process `i` at `pc`; out of range (process or pc) behaves like `halt` -/
def Sys.node (y : Sys) (i pc : Nat) : Node :=
  match y.procs[i]? with
  | some p => p.code.getD pc .halt
  | none => .halt

/-- the node process `i` is at in state `s` -/
def Sys.nodeAt (y : Sys) (s : State) (i : Nat) : Node := y.node i (s.pc i)

/-- process `i` has returned (or is not a process / ran off its code) -/
def halted (y : Sys) (s : State) (i : Nat) : Bool :=
  match y.nodeAt s i with
  | .halt => true
  | _ => false

/-! ## Readiness of one `select` case

*Definitely ready* = the case can fire NOW whatever the other processes and the environment do:
a receive from a non-empty or closed channel, a send on a buffered channel with room, a send on a
closed channel (Go selects it and panics).  NOT definitely ready: anything on an `external` channel
(the environment may never fire), and a rendezvous on a `sync` channel (the partner standing at its
`select` may not have parked yet, so a `select` with `default` polling the channel may miss it; see
`procNext`). -/

def recvReady (s : State) (c : Nat) : Bool := Nat.blt 0 (s.buf c) || s.isClosed c

def sendReady (y : Sys) (s : State) (c : Nat) : Bool :=
  s.isClosed c ||
    match y.kinds[c]? with
    | some (.buffered cap) => Nat.blt (s.buf c) cap
    | _ => false

def caseReady (y : Sys) (s : State) (k : Comm) : Bool :=
  bif k.send then sendReady y s k.chan else recvReady s k.chan

/-! ## Successors -/

/-- successors through the receive case `k` of process `i` (a rendezvous is generated from the sender's side) -/
def recvSucc (y : Sys) (s : State) (i : Nat) (k : Comm) : List (Nat × State) :=
  bif Nat.blt 0 (s.buf k.chan) then [(i, (s.setPc i k.next).setBuf k.chan (Nat.sub (s.buf k.chan) 1))]
  else bif s.isClosed k.chan then [(i, s.setPc i k.next)]
  else match y.kinds[k.chan]? with
    | some .external => [(i, s.setPc i k.next)]
    | _ => []

/-- successors of `recvOrClosed c nI nC` of process `i` (a rendezvous is generated from the sender's side): an item is
taken if there is one, EVEN IF the channel is closed (Go drains a closed channel first); closed and empty → `nC`.
On an `external` channel the environment may deliver an item or close at any time. -/
def rangeSucc (y : Sys) (s : State) (i c nI nC : Nat) : List (Nat × State) :=
  bif Nat.blt 0 (s.buf c) then [(i, (s.setPc i nI).setBuf c (Nat.sub (s.buf c) 1))]
  else bif s.isClosed c then [(i, s.setPc i nC)]
  else match y.kinds[c]? with
    | some .external => [(i, s.setPc i nI), (i, s.setPc i nC)]
    | _ => []

/-- rendezvous of sender `i` (case `k`, its select has a default iff `hasD`) with the receive cases of process `j`.
No rendezvous when BOTH selects have a `default`: neither goroutine ever parks, each polls and falls through. -/
def partnerSucc (y : Sys) (s : State) (i : Nat) (hasD : Bool) (k : Comm) (j : Nat) : List (Nat × State) :=
  match y.nodeAt s j with
  | .comm cs d =>
    bif hasD && d.isSome then []
    else cs.filterMap fun k' =>
      bif !k'.send && Nat.beq k'.chan k.chan then some (i, (s.setPc i k.next).setPc j k'.next) else none
  | .recvOrClosed c nI _ =>
    bif Nat.beq c k.chan then [(i, (s.setPc i k.next).setPc j nI)] else []
  | _ => []

/-- successors through the send case `k` of process `i` -/
def sendSucc (y : Sys) (s : State) (i : Nat) (hasD : Bool) (k : Comm) : List (Nat × State) :=
  bif s.isClosed k.chan then [(i, (s.setPc i k.next).setBad true)]
  else match y.kinds[k.chan]? with
    | some (.buffered cap) =>
      bif Nat.blt (s.buf k.chan) cap then [(i, (s.setPc i k.next).setBuf k.chan (Nat.succ (s.buf k.chan)))] else []
    | some .sync =>
      (List.range y.procs.length).flatMap fun j => bif Nat.beq j i then [] else partnerSucc y s i hasD k j
    | some .external => [(i, s.setPc i k.next)]
    | none => []     -- an unknown channel behaves like a nil channel: blocks forever

def caseSucc (y : Sys) (s : State) (i : Nat) (hasD : Bool) (k : Comm) : List (Nat × State) :=
  bif k.send then sendSucc y s i hasD k else recvSucc y s i k

/-- the `default:` branch: may be taken iff no case is definitely ready -/
def dfltSucc (y : Sys) (s : State) (i : Nat) (cs : List Comm) : Option Nat → List (Nat × State)
  | some d => bif cs.any (caseReady y s) then [] else [(i, s.setPc i d)]
  | none => []

/-- `close(c)`: panics (bad) if `c` is already closed or is not a channel (nil) -/
def closeSucc (y : Sys) (s : State) (i c n : Nat) : State :=
  ((s.setPc i n).setClosed c).setBad (s.bad || s.isClosed c || Nat.ble y.kinds.length c)

/-- all moves of process `i` (for a rendezvous: `i` is the sender) -/
def procNext (y : Sys) (s : State) (i : Nat) : List (Nat × State) :=
  match y.nodeAt s i with
  | .comm cs d => cs.flatMap (caseSucc y s i d.isSome) ++ dfltSucc y s i cs d
  | .close c n => [(i, closeSucc y s i c n)]
  | .choice ns => ns.map fun n => (i, s.setPc i n)
  | .halt => []
  | .recvOrClosed c nI nC => rangeSucc y s i c nI nC

/-- all one-step successors, labelled with the moving process (the sender for a rendezvous).
A `bad` state has no successor (the program panicked), so `bad` is trivially sticky. -/
def Sys.next (y : Sys) (s : State) : List (Nat × State) :=
  bif s.bad then [] else (List.range y.procs.length).flatMap (procNext y s)

/-- successor states without labels -/
def Sys.succ (y : Sys) (s : State) : List State := (y.next s).map (·.2)

/-- states reachable by executions of any length -/
inductive Reachable (y : Sys) : State → Prop
  | init : Reachable y y.init
  | step {s t : State} {i : Nat} : Reachable y s → (i, t) ∈ y.next s → Reachable y t

/-! ## Strict (solo) moves -/

/-- moves of process `i` that rely on nobody else: definitely-ready cases, default, close, choice -/
def procStrict (y : Sys) (s : State) (i : Nat) : List (Nat × State) :=
  match y.nodeAt s i with
  | .comm cs d =>
    cs.flatMap (fun k => bif caseReady y s k then caseSucc y s i d.isSome k else []) ++ dfltSucc y s i cs d
  | .close c n => [(i, closeSucc y s i c n)]
  | .choice ns => ns.map fun n => (i, s.setPc i n)
  | .halt => []
  | .recvOrClosed c nI nC => bif recvReady s c then rangeSucc y s i c nI nC else []

/-- the states process `i` can move to NOW without relying on any other process or the environment -/
def strictNext (y : Sys) (s : State) (i : Nat) : List State :=
  bif s.bad then [] else (procStrict y s i).map (·.2)

/-- process `i` is done, or can move now without relying on anyone else (fast form; see
`enabledStrict_iff` in Sound.lean: `= halted ∨ strictNext ≠ []`).  Not counted: external receives/sends,
sync rendezvous.  In a `bad` (panicked) state only halted processes count. -/
def enabledStrict (y : Sys) (s : State) (i : Nat) : Bool :=
  match y.nodeAt s i with
  | .halt => true
  | .comm cs d => !s.bad && (d.isSome || cs.any (caseReady y s))
  | .close _ _ => !s.bad
  | .choice ns => !s.bad && !ns.isEmpty
  | .recvOrClosed c _ _ => !s.bad && recvReady s c

end Raft.Chan
