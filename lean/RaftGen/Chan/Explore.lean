/-
  Executable exploration of the state space of a channel skeleton (core Lean only).
  Everything is structurally recursive so that the kernel (`decide`, `decide +kernel`) can evaluate it.
  The soundness theorems are in `RaftGen/Chan/Sound.lean`.
-/
import RaftGen.Chan.Model

namespace Raft.Chan

/-! ## Fast equality and a hash key of states -/

def natsBeq : List Nat → List Nat → Bool
  | [], [] => true
  | a :: as, b :: bs => Nat.beq a b && natsBeq as bs
  | _, _ => false

def boolsBeq : List Bool → List Bool → Bool
  | [], [] => true
  | a :: as, b :: bs => (a == b) && boolsBeq as bs
  | _, _ => false

/-- Bool-valued equality of states that the kernel evaluates quickly (GMP `Nat.beq`) -/
def State.beqF (a b : State) : Bool :=
  natsBeq a.pcs b.pcs && natsBeq a.bufs b.bufs && boolsBeq a.closed b.closed && (a.bad == b.bad)

/-- hash of a list, computed from the tail so that the kernel's cache shares the work between states that
have a common suffix (e.g. the unchanged `bufs`/`closed` of a successor) -/
def keyNats : List Nat → Nat
  | [] => 1
  | x :: xs => Nat.add (Nat.mul (keyNats xs) 41) (Nat.succ x)

def keyBools : List Bool → Nat
  | [] => 1
  | true :: xs => Nat.succ (Nat.mul (keyBools xs) 2)
  | false :: xs => Nat.mul (keyBools xs) 2

/-- hash key (need not be injective: it only selects the bucket of the trie) -/
def key (s : State) : Nat :=
  Nat.add (Nat.mul (Nat.add (Nat.mul (Nat.add (Nat.mul (keyNats s.pcs) 1000003) (keyNats s.bufs)) 4099)
    (keyBools s.closed)) 2) (bif s.bad then 1 else 0)

/-! ## A set of states: binary trie over the bits of the key, buckets at the leaves -/

inductive Trie where
  | leaf (xs : List (Nat × State))
  | node (l r : Trie)

/-- the empty set with `2^d` buckets -/
def Trie.full : Nat → Trie
  | 0 => .leaf []
  | d + 1 => .node (Trie.full d) (Trie.full d)

/-- `t.contains k0 k s`: `k0` is the full key (compared first, cheap), `k` the bits not yet consumed -/
def Trie.contains : Trie → Nat → Nat → State → Bool
  | .leaf xs, k0, _, s => xs.any fun p => Nat.beq p.1 k0 && s.beqF p.2
  | .node l r, k0, k, s =>
    bif Nat.beq (Nat.mod k 2) 0 then l.contains k0 (Nat.div k 2) s else r.contains k0 (Nat.div k 2) s

def Trie.insert : Trie → Nat → Nat → State → Trie
  | .leaf xs, k0, _, s => .leaf ((k0, s) :: xs)
  | .node l r, k0, k, s =>
    bif Nat.beq (Nat.mod k 2) 0 then .node (l.insert k0 (Nat.div k 2) s) r else .node l (r.insert k0 (Nat.div k 2) s)

def Trie.has (t : Trie) (s : State) : Bool := t.contains (key s) (key s) s
def Trie.add (t : Trie) (s : State) : Trie := t.insert (key s) (key s) s

/-- depth of the tries used below (1024 buckets) -/
def trieDepth : Nat := 10

/-! ## Forcing a state to canonical constructor form

The kernel evaluates lazily and never replaces a term by its value, so a successor state is a growing chain
of `setPc`/`setBuf` applications on its ancestors.  The functions below are identities (`canonNats xs = xs`,
`forceState s k = k s`, see Sound.lean), but evaluating them hands to `k` a term built from constructors and
numerals only: the match on the result of the recursive call makes the evaluation strict.  Canonical terms keep all
later projections O(1) and let the kernel's cache recognise repeated sub-computations (node lookups, keys and
canonical forms of unchanged suffixes, comparisons, …), so the work per successor is proportional to what changed. -/

def canonNats : List Nat → List Nat
  | [] => []
  | x :: xs =>
    match x, canonNats xs with
    | 0, [] => [0]
    | 0, y :: ys => 0 :: y :: ys
    | n + 1, [] => [Nat.succ n]
    | n + 1, y :: ys => Nat.succ n :: y :: ys

def canonBools : List Bool → List Bool
  | [] => []
  | x :: xs =>
    match x, canonBools xs with
    | true, [] => [true]
    | true, y :: ys => true :: y :: ys
    | false, [] => [false]
    | false, y :: ys => false :: y :: ys

def withNats {β : Type} (xs : List Nat) (k : List Nat → β) : β :=
  match canonNats xs with
  | [] => k []
  | y :: ys => k (y :: ys)

def withBools {β : Type} (xs : List Bool) (k : List Bool → β) : β :=
  match canonBools xs with
  | [] => k []
  | y :: ys => k (y :: ys)

def withBool {β : Type} (b : Bool) (k : Bool → β) : β :=
  match b with
  | true => k true
  | false => k false

def forceState {β : Type} (s : State) (k : State → β) : β :=
  withNats s.pcs fun p => withNats s.bufs fun b => withBools s.closed fun c => withBool s.bad fun d =>
    k ⟨p, b, c, d⟩

/-! ## Generic worklist exploration -/

/-- accumulator: set of seen states (`tr`, and the same as a list `vs`), and states still to expand -/
structure Acc where
  tr : Trie
  vs : List State
  work : List State

/-- add those of `ts` that were not seen yet -/
def addNew : List State → Acc → Acc
  | [], a => a
  | t :: ts, a => forceState t fun t =>
    bif a.tr.has t then addNew ts a
    else addNew ts { tr := a.tr.add t, vs := t :: a.vs, work := t :: a.work }

/-- worklist loop; one unit of fuel per expanded state -/
def exploreLoop (succ : State → List State) : Nat → Acc → Option (List State)
  | 0, a => match a.work with
    | [] => some a.vs
    | _ :: _ => none
  | fuel + 1, a => match a.work with
    | [] => some a.vs
    | s :: rest => exploreLoop succ fuel (addNew (succ s) { tr := a.tr, vs := a.vs, work := rest })

/-- all states reachable from `inits` through `succ`, or `none` if more than `fuel` states had to be expanded -/
def exploreG (succ : State → List State) (inits : List State) (fuel : Nat) : Option (List State) :=
  exploreLoop succ fuel (addNew inits { tr := Trie.full trieDepth, vs := [], work := [] })

/-- all reachable states of the system (`none`: fuel ran out; fuel = number of states that may be expanded) -/
def explore (y : Sys) (fuel : Nat) : Option (List State) := exploreG y.succ [y.init] fuel

/-- does `P` hold in every reachable state (false also when the fuel runs out) -/
def checkAll (y : Sys) (fuel : Nat) (P : State → Bool) : Bool :=
  match explore y fuel with
  | some vs => vs.all P
  | none => false

/-- one exploration for a universal and an existential claim: `P` holds in every reachable state and `Q` in some
(false also when the fuel runs out) -/
def checkAllAny (y : Sys) (fuel : Nat) (P Q : State → Bool) : Bool :=
  match explore y fuel with
  | some vs => vs.all P && vs.any Q
  | none => false

/-- the set of the states of a list -/
def trieOf : List State → Trie
  | [] => Trie.full trieDepth
  | s :: vs => (trieOf vs).add s

/-- certificate style: `vs` contains `init`, is closed under `next`, and `P` holds on all of it.
(`vs` can be any list, e.g. a literal emitted by the generator, or `(explore y fuel).getD []`.) -/
def checkInv (y : Sys) (vs : List State) (P : State → Bool) : Bool :=
  (trieOf vs).has y.init &&
  vs.all (fun s => P s && (y.succ s).all fun t => forceState t (trieOf vs).has)

/-! ## Counterexample search: BFS with parents, returns a shortest schedule -/

/-- a state together with the (reversed) schedule that led to it from `init` -/
structure Item where
  st : State
  rtr : List (Nat × State)

inductive Found where
  | bad (tr : List (Nat × State))
  | cont (tr : Trie) (nxt : List Item)

def bfsAdd (P : State → Bool) : List (Nat × State) → List (Nat × State) → Trie → List Item → Found
  | [], _, tr, nxt => .cont tr nxt
  | (i, t) :: ts, rtr, tr, nxt => forceState t fun t =>
    bif tr.has t then bfsAdd P ts rtr tr nxt
    else bif P t then bfsAdd P ts rtr (tr.add t) (⟨t, (i, t) :: rtr⟩ :: nxt)
    else .bad ((i, t) :: rtr).reverse

/-- `cur`: current BFS layer still to expand, `nxt`: next layer (reversed) -/
def bfsLoop (y : Sys) (P : State → Bool) : Nat → Trie → List Item → List Item → Option (List (Nat × State))
  | 0, _, _, _ => none
  | fuel + 1, tr, [], nxt => match nxt with
    | [] => none
    | _ :: _ => bfsLoop y P fuel tr nxt.reverse []
  | fuel + 1, tr, it :: cur, nxt =>
    match bfsAdd P (y.next it.st) it.rtr tr nxt with
    | .bad t => some t
    | .cont tr' nxt' => bfsLoop y P fuel tr' cur nxt'

/-- a shortest schedule (moving process, state after the step) from `init` to a state violating `P`;
`none` if there is none within the fuel (use `checkAll` to prove there is none at all) -/
def findBad (y : Sys) (fuel : Nat) (P : State → Bool) : Option (List (Nat × State)) :=
  bif P y.init then bfsLoop y P fuel ((Trie.full trieDepth).add y.init) [⟨y.init, []⟩] []
  else some []

/-! ## Printing -/

def procName (y : Sys) (i : Nat) : String :=
  match y.procs[i]? with
  | some p => p.name
  | none => s!"#{i}"

def showState (y : Sys) (s : State) : String :=
  let pcs := (List.range y.procs.length).map fun i => s!"{procName y i}@{s.pc i}"
  s!"[{", ".intercalate pcs}] bufs={s.bufs} closed={s.closed}{if s.bad then " PANIC" else ""}"

/-- human-readable schedule: one line per step (`process: state after the step`) -/
def showTrace (y : Sys) (tr : List (Nat × State)) : String :=
  "\n".intercalate
    (s!"  init: {showState y y.init}" ::
      tr.map fun p => s!"  {procName y p.1} moves: {showState y p.2}")

def showResult (y : Sys) : Option (List (Nat × State)) → String
  | none => "no violation found"
  | some tr => s!"violation after {tr.length} steps:\n{showTrace y tr}"

/-! ## Can a process finish on its own -/

/-- strict moves of process `i` alone that do not panic -/
def soloNext (y : Sys) (i : Nat) (s : State) : List State := (strictNext y s i).filter noPanic

/-- from `s`, process `i` can reach `halt` moving ALONE through strict steps (all others frozen, no help
from the environment).  `fuel` bounds the number of solo-reachable states. -/
def canFinish (y : Sys) (fuel : Nat) (i : Nat) (s : State) : Bool :=
  match exploreG (soloNext y i) [s] fuel with
  | some vs => vs.any (halted y · i)
  | none => false

/-! ## Can a group of processes bring the system to a goal on its own -/

/-- non-panicking strict moves of the processes of the group `g` (everybody else frozen, no help from the environment) -/
def groupNext (y : Sys) (g : List Nat) (s : State) : List State := g.flatMap fun i => soloNext y i s

/-- depth-first search with early exit: is a state satisfying `goal` taken off the work list within `fuel` expansions -/
def searchLoop (succ : State → List State) (goal : State → Bool) : Nat → Acc → Bool
  | 0, _ => false
  | fuel + 1, a => match a.work with
    | [] => false
    | s :: rest =>
      bif goal s then true
      else searchLoop succ goal fuel (addNew (succ s) { tr := a.tr, vs := a.vs, work := rest })

/-- from `s`, the processes of `g` can reach a state satisfying `goal` moving through strict steps only (a depth-first
search that stops at the first goal state; `false` also when more than `fuel` states had to be expanded: the answer
`true` is what the soundness theorem `canReach_sound` is about).  `canFinish y fuel i` is the special case `g = [i]`,
`goal = halted y · i` with an exhaustive search. -/
def canReach (y : Sys) (fuel : Nat) (g : List Nat) (goal : State → Bool) (s : State) : Bool :=
  searchLoop (groupNext y g) goal fuel (addNew [s] { tr := Trie.full trieDepth, vs := [], work := [] })

end Raft.Chan
