import RaftGen.Chan.Sound
import RaftGen.Props.C15PipeSys

/-!
# Observations on the pipelining skeleton that are NOT obligations

Existence statements ("the skeleton has a state in which …"). They document a defect; they are not
part of any check (`lake build RaftGen` does not build this file: it is not imported by `RaftGen.lean`), because a statement
that a defect EXISTS must not turn into an alarm when the defect is repaired. Build by hand: `lake build RaftGen.Notes.PipeObservations`.
-/

namespace Raft.C15Pipe
open Raft.Chan

/-- OBSERVATION (e): with a panicking `writeAppendEntriesReq` the writer's deferred function sends on the channel it has just
    closed: a reachable panicked state with the writer just after that send -/
theorem recover_path_sends_on_closed :
    ∃ s, Reachable pipeSysP s ∧ (!noPanic s && memNat (s.pc writer) Gen.pipeWriterP_at_recoverSend) = true :=
  (checkAllAny_sound (y := pipeSysP) (fuel := 3500) (P := fun _ => true) (by decide +kernel)).2

end Raft.C15Pipe
