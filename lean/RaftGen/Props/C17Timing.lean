import RaftVerif.Model.Timing
import RaftGen.Gen.Timing

/-!
# C17 — the leader is heard often enough (timing facts regenerated from the Go source)

`Raft.Gen.*` (file `RaftGen/Gen/Timing.lean`) is written by the translator `go/astfacts` from the Go source on every run:
the bound `replication.runLoop` hands to `backOff` for its retry timer, the idle heartbeat period of
`replication.checkLeaderUpdate`, the argument of every election-timer site in follower.go / candidate.go, the body of
`randTime.duration`, and the constants of util.go. `Raft.Timing.backOff` is the hand-written model of util.go `backOff`, tied
to the code by the repldiff correspondence. All durations are nanoseconds (`time.Duration`).

What C17 needs from these numbers: "while followers keep hearing from a live leader" must be *achievable* — a leader that is
alive and connected reaches every follower more often than the shortest election timeout a follower can draw, when idle
(heartbeats) and after connection failures (retries); otherwise followers start needless elections and the bound "within a
bounded number of election timeouts" is lost. Network latency and scheduling delay are outside the model: the theorems
compare *requested* timer durations.
-/

namespace Raft.C17Timing
open Raft.Timing

/-- `backOff` never exceeds the bound it is given -/
theorem backOff_le_max (round max : Nat) : backOff round max ≤ max := by
  unfold backOff; dsimp only; split <;> omega

/-- … and never exceeds `failureWait · 2^(maxFailureScale-2)` (10.24 s), whatever the number of failures -/
theorem backOff_le_cap (round max : Nat) : backOff round max ≤ failureWait * 2 ^ (maxFailureScale - 2) := by
  unfold backOff; dsimp only
  have h : min round maxFailureScale - 2 ≤ maxFailureScale - 2 := by
    have := Nat.min_le_right round maxFailureScale; omega
  have h2 : failureWait * 2 ^ (min round maxFailureScale - 2) ≤ failureWait * 2 ^ (maxFailureScale - 2) :=
    Nat.mul_le_mul_left _ (Nat.pow_le_pow_right (by decide) h)
  split <;> omega

/-- more failures never shorten the delay -/
theorem backOff_mono (r₁ r₂ max : Nat) (h : r₁ ≤ r₂) : backOff r₁ max ≤ backOff r₂ max := by
  unfold backOff; dsimp only
  have hm : min r₁ maxFailureScale - 2 ≤ min r₂ maxFailureScale - 2 := by
    have : min r₁ maxFailureScale ≤ min r₂ maxFailureScale := by
      simp only [Nat.le_min]; constructor
      · exact Nat.le_trans (Nat.min_le_left _ _) h
      · exact Nat.min_le_right _ _
    omega
  have h2 : failureWait * 2 ^ (min r₁ maxFailureScale - 2) ≤ failureWait * 2 ^ (min r₂ maxFailureScale - 2) :=
    Nat.mul_le_mul_left _ (Nat.pow_le_pow_right (by decide) hm)
  split <;> split <;> omega

/-- the first two attempts wait `failureWait` (or the bound, if smaller) -/
theorem backOff_first (round max : Nat) (h : round ≤ 2) : backOff round max = min failureWait max := by
  unfold backOff; dsimp only
  have : min round maxFailureScale - 2 = 0 := by
    have := Nat.min_le_left round maxFailureScale; omega
  rw [this]; simp only [Nat.pow_zero, Nat.mul_one]
  split <;> omega

/-- the constants of the hand-written model are those of util.go -/
theorem constants_agree : Gen.failureWait = failureWait ∧ Gen.maxFailureScale = maxFailureScale := by decide

/-- every election-timer site arms its timer with `randTime.duration(hbTimeout)` -/
theorem election_sites (hb : Nat) : ∀ f ∈ Gen.electionArgs, f hb = hb := by
  simp [Gen.electionArgs]

/-- **the election timeout is drawn from `[hb, 2·hb)`**, whatever the random draw `x` -/
theorem election_timeout_range (hb x : Nat) (h : 0 < hb) :
    hb ≤ Gen.randDuration hb x ∧ Gen.randDuration hb x < 2 * hb := by
  unfold Gen.randDuration
  have := Nat.mod_lt x h
  omega

/-- two draws differ by less than `hb`, and every value of `[hb, 2·hb)` is drawn by some `x`: the randomisation that
    breaks split votes has the full range -/
theorem election_timeout_onto (hb t : Nat) (h1 : hb ≤ t) (h2 : t < 2 * hb) : ∃ x, Gen.randDuration hb x = t := by
  refine ⟨t - hb, ?_⟩
  unfold Gen.randDuration
  have : (t - hb) % hb = t - hb := Nat.mod_eq_of_lt (by omega)
  omega

/-- **C17 — retries.** However often the connection to a follower failed before, the leader's replication goroutine waits less
    than the shortest election timeout any follower can draw before it tries again. -/
theorem retry_before_election_timeout (hb round x : Nat) (h : 0 < hb) :
    ∀ f ∈ Gen.electionArgs, backOff round (Gen.retryMax hb) < Gen.randDuration (f hb) x := by
  intro f hf
  rw [election_sites hb f hf]
  have h1 := backOff_le_max round (Gen.retryMax hb)
  have h2 := (election_timeout_range hb x h).1
  have h3 : Gen.retryMax hb < hb := by unfold Gen.retryMax; omega
  omega

/-- **C17 — idle heartbeats.** An idle leader sends a heartbeat to every voter at least twice per shortest election timeout:
    one lost heartbeat does not make a follower time out. -/
theorem heartbeat_before_election_timeout (hb x : Nat) (h : 0 < hb) :
    ∀ f ∈ Gen.electionArgs, Gen.heartbeatPeriod hb < Gen.randDuration (f hb) x ∧
      2 * Gen.heartbeatPeriod hb ≤ Gen.randDuration (f hb) x := by
  intro f hf
  rw [election_sites hb f hf]
  have h2 := (election_timeout_range hb x h).1
  unfold Gen.heartbeatPeriod
  omega

/-- `replication.deadlineSize(size)` with the call-site facts of the source: the time `durationFor` computes for the declared
    bandwidth and the payload size, but at least the floor -/
def writeTimeout (bw size hb : Nat) : Nat :=
  let t := durationFor (Gen.deadlineArgs bw size).1 (Gen.deadlineArgs bw size).2
  if t < Gen.deadlineFloor hb then Gen.deadlineFloor hb else t

/-- **C17 — write deadlines.** A batch of entries or a snapshot of `size` bytes gets a write deadline that a link delivering
    the bandwidth DECLARED in `Options.Bandwidth` can meet: the deadline is at least `size / bandwidth` seconds (and at least
    two heartbeat timeouts). Otherwise a payload larger than bandwidth × floor could never be delivered: every attempt times
    out, the same batch is resent with the same deadline, and a lagging follower never catches up. -/
theorem write_deadline_covers_declared_bandwidth (bw size hb : Nat) :
    size * 1000000000 / bw ≤ writeTimeout bw size hb ∧ 2 * hb ≤ writeTimeout bw size hb := by
  unfold writeTimeout Gen.deadlineArgs Gen.deadlineFloor durationFor
  dsimp only
  split <;> omega

def expectedDurationFor : String :=
  "func(bandwidth int64, n int64) time.Duration { seconds := float64(n) / float64(bandwidth) return time.Duration(1e9 * seconds) }"

/-- **tie**: util.go `durationFor` takes (bandwidth, n) in this order and is the formula the model was written from -/
theorem durationFor_source : Gen.durationForSrc = expectedDurationFor := by decide +kernel

/-- EXAMPLE: 256 KiB over a link declared at 16 KiB/s with a 1 s heartbeat timeout: 16 s, not the 2 s floor -/
example : writeTimeout 16384 262144 1000000000 = 16000000000 := by decide

/-- EXAMPLE (hypotheses satisfiable, numbers of the default options: hbTimeout = 1 s): after the 9th failure the retry delay is
    the bound 500 ms, below the election timeout 1 s + (x mod 1 s). -/
example : backOff 9 (Gen.retryMax 1000000000) = 500000000 ∧ Gen.randDuration 1000000000 123456789012 = 1456789012 ∧
    backOff 3 (Gen.retryMax 1000000000) = 20000000 := by decide

end Raft.C17Timing

#print axioms Raft.C17Timing.backOff_le_max
#print axioms Raft.C17Timing.backOff_le_cap
#print axioms Raft.C17Timing.backOff_mono
#print axioms Raft.C17Timing.backOff_first
#print axioms Raft.C17Timing.constants_agree
#print axioms Raft.C17Timing.election_sites
#print axioms Raft.C17Timing.election_timeout_range
#print axioms Raft.C17Timing.election_timeout_onto
#print axioms Raft.C17Timing.retry_before_election_timeout
#print axioms Raft.C17Timing.heartbeat_before_election_timeout
#print axioms Raft.C17Timing.write_deadline_covers_declared_bandwidth
#print axioms Raft.C17Timing.durationFor_source
