import RaftGen.Chan.Sound
import RaftGen.Props.C15PipeSys

/-! Kernel evaluations for `RaftGen/Props/C15Pipe.lean`, safety part: one exploration of `pipeSys`, one of `pipeSysP`. -/

namespace Raft.C15Pipe
open Raft.Chan

/-- one exploration of `pipeSys` (2815 states): `inv` everywhere -/
theorem pipeSys_explored : ∀ s, Reachable pipeSys s → inv s = true :=
  checkAll_sound (fuel := 3500) (by decide +kernel)

/-- one exploration of `pipeSysP` (2503 states): every panicked state has the writer just after the send of its deferred function -/
theorem pipeSysP_explored :
    ∀ s, Reachable pipeSysP s → (noPanic s || memNat (s.pc writer) Gen.pipeWriterP_at_recoverSend) = true :=
  checkAll_sound (fuel := 3500) (by decide +kernel)

end Raft.C15Pipe
