import RaftGen.Chan.Sound
import RaftGen.Gen.Skel
import RaftGen.Props.C15Chan
import RaftGen.Props.C15PipeSys
import RaftGen.Props.C15PipeSafe
import RaftGen.Props.C15PipeLive

/-!
# C15 — the pipelining protocol of `replication.replicate`: goroutines terminate, no deadlock, no send on a closed channel

`Raft.Gen.pipeReader / pipeWriter / pipeDrainerStop / pipeDrainerStale` (file `RaftGen/Gen/Skel.lean`) are written by the
translator `go/astfacts` from the Go source on every run: ONE pipelining episode of `replicate()` — the statements from
`var ( resultCh = make(chan result, 128); stopCh = make(chan struct{}) )` to the end of the body of the outer loop — as one
process per goroutine:

* process 0 `pipeReader`: the goroutine that called `replicate` (the `select { <-r.stopCh | result = <-resultCh }` loop, the
  three `close(stopCh)` sites, the inlined closures `drainResps` / `drainRespsTimeout`); `halt` 0 = `return`, `halt` 1 = end
  of the loop body (`break` out of the pipeline loop: next iteration = probe again, possibly a NEW episode);
* process 1 `pipeWriter`: `go func() { defer func(){ close(resultCh); … }(); for { writeAppendEntriesReq; select {…} … } }()`;
* processes 2, 3 `pipeDrainerStop`, `pipeDrainerStale`: the `go func(){ drained <- drainResps() }()` of the two inlined calls of
  `drainRespsTimeout` (after the leader's stop signal / after a stale-term response), each with its own `drained` channel;
* process 4: the leader (hand-written, below).

Channels (`Gen.pipeChanNames`): 0 `r.leaderUpdateCh`, 1 `r.stopCh` (the FIELD), 2 `r.replUpdateCh`, 3 timers, then the LOCAL
ones: `replicate.resultCh` split in two halves by the translator (`pipeCh_resultCh`: results with `err == nil`,
`pipeCh_resultCh_err`: results with `err != nil` — so that the branch the reader takes on `result.err != nil` is the one the
writer took on `err != nil`; the order between the halves is lost: an over-approximation), `replicate.stopCh` (`pipeCh_stopCh`,
which SHADOWS the field), the two `drained`, each split in the same way (`pipeCh_drained_k`: `drainResps()` returned nil, i.e. its
`for range resultCh` ended because `resultCh` was closed; `pipeCh_drained_err_k`: it returned the error of a failed `readResp` — so
that the reader's `if err != nil` after `err := <-drained` takes the branch that matches), and one `start:…` channel per go
statement (closed by the spawner).

## Modelling assumptions

* **Leader = the most general environment.** `r.leaderUpdateCh` and `r.replUpdateCh` are given the kind `external`: a send or a
  receive on them MAY complete at any time, or never (the leader may or may not send updates, may or may not drain reports;
  their buffers may be full or not). Such an operation is never counted as "can move on its own". `r.stopCh` is closed by the
  leader at any time, at most once, and never sent on (`C15Chan.report_census`): process `leader`.
* **Timers are external** (`time.After`, `r.timer.C`). **Socket reads/writes carry deadlines** (`r.deadline()`), so they are
  terminating local steps of their goroutine (not channel operations; invisible in the skeleton). `safeTimer.reset` is opaque
  (`Gen.pipe_opaque`; its protocol is `C15Timer`).
* **Capacities are clamped**: `resultCh` 128 → 2 (half `err == nil`) and 1 (half `err != nil`: one such result is ever sent).
  For the never-stuck / can-finish theorems this is the HARDER case (a smaller buffer only makes the writer block earlier; receives
  are unaffected). For `pipeline_no_panic` it is a bounded check (the regimes empty / neither / full all occur);
  `Search/Pipe.lean` repeats it with larger capacities outside the kernel.
* **Data is erased** except four tracked conditions (`err != nil` in the writer, `result.err != nil` in the reader, the error
  result of `drainResps()`, the error delivered on `drained`): every other branch is a free choice, so every real execution is a
  path of the skeleton.
* **One episode.** Every channel of an episode other than 0–3 is a fresh local that does not escape (checked by the
  translator), so a later episode cannot touch it; `reader_returns_only_after_writer_done` shows that when the reader leaves the
  episode — returns from `replicate()` or goes on to the next iteration — the writer is past its last communication and its
  last use of the connection.
* **Explicit `panic(…)` statements** of inlined callees (`onAppendEntriesResp`: `[BUG]` default case) are no-ops; variant P
  models a panic of `writeAppendEntriesReq` (it reaches `panic(opError(…))` in `getEntryTerm` / `writeEntriesTo`).
-/

namespace Raft.C15Pipe
open Raft.Chan

/-! ## the three kernel evaluations (`C15PipeSafe.lean`, `C15PipeLive.lean`), taken apart -/

theorem inv_holds (s : State) (hs : Reachable pipeSys s) : inv s = true := pipeSys_explored s hs

theorem stopped_leadsTo (s : State) (hs : Reachable pipeSys s) (h1 : s.isClosed rStopCh = true) : episodeCanFinish s = true := by
  have h := pipeSys_live s hs
  simpa only [alwaysLive, h1, cond] using h

theorem writer_leadsTo (s : State) (hs : Reachable pipeSys s) (h1 : s.isClosed stopCh = true)
    (h2 : writerWaitsForLeader s = false) : ∃ t, GroupReach pipeSys goroutines s t ∧ halted pipeSys t writer = true := by
  have h := pipeSys_live s hs
  cases hr : s.isClosed rStopCh
  · simp only [alwaysLive, hr, cond, h1, h2, Bool.not_false, Bool.and_true, Bool.not_true, Bool.false_or] at h
    exact canReach_sound h
  · obtain ⟨t, ht, hg⟩ := canReach_sound (stopped_leadsTo s hs hr)
    simp only [allDone, Bool.and_eq_true] at hg
    exact ⟨t, ht, hg.1.1.2⟩

/-- **no panic in the panic-free episode**, in any interleaving, whatever the leader does: no send on the closed `resultCh`,
    no double `close(stopCh)` — of the reader's three `close(stopCh)` sites (`three_close_sites`) at most one executes per
    episode —, no go statement executed twice (a second start would be a double close of its `start:` channel) -/
theorem pipeline_no_panic : ∀ s, Reachable pipeSys s → noPanic s = true := by
  intro s hs
  have h := inv_holds s hs
  simp only [inv, Bool.and_eq_true] at h
  exact h.1.1.1.1.1

/-- **the writer closes `resultCh` on every exit path** (the deferred `close(resultCh)`): once it has returned, both halves are closed -/
theorem writer_closes_resultCh_on_every_exit :
    ∀ s, Reachable pipeSys s → halted pipeSys s writer = true → s.isClosed resultCh = true ∧ s.isClosed resultChErr = true := by
  intro s hs hw
  have h := inv_holds s hs
  simp only [inv, Bool.and_eq_true, hw, Bool.not_true, Bool.false_or] at h
  exact h.1.1.1.1.2

/-- **`for range resultCh` ends / the reader is never stuck on `resultCh` or `drained`**: once the writer has returned, the reader
    has left, or can move on its own (a receive from the closed `resultCh`, a `drained` that was delivered), or a drainer it waits
    for can move on its own — or it stands in `notifyLdr`, where it waits for the leader, not for the episode -/
theorem reader_never_stuck_after_writer_exit :
    ∀ s, Reachable pipeSys s → halted pipeSys s writer = true →
      (halted pipeSys s reader || inNotifyLdr pipeSys s reader || enabledStrict pipeSys s reader ||
        live pipeSys s drainerStop || live pipeSys s drainerStale) = true := by
  intro s hs hw
  have h := inv_holds s hs
  simp only [inv, Bool.and_eq_true, hw, Bool.not_true, Bool.false_or] at h
  exact h.1.1.1.2

/-- a process that stands at a `for range` over a closed and drained channel can leave the loop on its own -/
theorem range_terminates (y : Sys) (s : State) (i c nI nC : Nat) (h : y.nodeAt s i = .recvOrClosed c nI nC)
    (hb : s.bad = false) (hc : s.isClosed c = true) : enabledStrict y s i = true := by
  simp [enabledStrict, h, hb, recvReady, hc]

/-- **the reader leaves the episode only after the writer is done** (what finding F20 was about): in every reachable state in
    which the reader has returned from `replicate()` or has reached the end of the loop body (next iteration), the writer has
    returned or has only its deferred `close(resultCh)` left. It is past its last communication and past its last use of the
    connection, of `req`, `r.nextIndex`, `r.timer`, `leaderUpdateCh`: `runLoop` gets them back with nobody else using them, and a
    later episode starts with the old writer gone. -/
theorem reader_returns_only_after_writer_done :
    ∀ s, Reachable pipeSys s → readerLeft s = true → onExitPath pipeSys s writer = true := by
  intro s hs hl
  have h := inv_holds s hs
  simp only [inv, Bool.and_eq_true, hl, Bool.not_true, Bool.false_or] at h
  exact h.1.1.2

/-- … in particular no reachable state has the reader returned while the writer is about to execute / executing
    `writeAppendEntriesReq` (on the code as found there was one: F20) -/
theorem writer_never_outlives_reader :
    ∀ s, Reachable pipeSys s → readerLeft s = true → memNat (s.pc writer) Gen.pipeWriter_at_write = false := by
  intro s hs hl
  have h := inv_holds s hs
  simp only [inv, Bool.and_eq_true, hl, Bool.not_true, Bool.false_or, Bool.not_eq_true'] at h
  exact h.2

/-- the next iteration, separately (the statement that justifies modelling ONE episode) -/
theorem next_iteration_only_after_writer_exit :
    ∀ s, Reachable pipeSys s → s.pc reader = Gen.pipeReader_next → onExitPath pipeSys s writer = true := by
  intro s hs hp
  apply reader_returns_only_after_writer_done s hs
  simp only [readerLeft, halted, Sys.nodeAt, hp]
  decide

/-! ## every written request is reported (what finding F21 was about) -/

/-- successors of a node of a control-flow graph through an edge that is NOT a send on channel `c` -/
def succAvoiding (c : Nat) : Node → List Nat
  | .comm cs d => (cs.filter fun k => !(k.send && Nat.beq k.chan c)).map (·.next) ++ d.toList
  | .close _ n => [n]
  | .choice ns => ns
  | .halt => []
  | .recvOrClosed _ a b => [a, b]

/-- the program counters of `p` that can be reached from `work` without sending on `c` (`none`: out of fuel) -/
def reachAvoiding (p : Proc) (c : Nat) : Nat → List Nat → List Nat → Option (List Nat)
  | _, [], seen => some seen
  | 0, _ :: _, _ => none
  | fuel + 1, x :: work, seen =>
    bif memNat x seen then reachAvoiding p c fuel work seen
    else reachAvoiding p c fuel (succAvoiding c (p.code.getD x .halt) ++ work) (x :: seen)

/-- the node is on the way out of the goroutine: `close` (the deferred `close(resultCh)`) or the return -/
def isExitNode : Node → Bool
  | .halt => true
  | .close _ _ => true
  | _ => false

/-- the node is a `select` that offers a receive from `a` next to a send on `b` -/
def offersRecvAndSend (a b : Nat) : Node → Bool
  | .comm cs _ => (cs.any fun k => !k.send && Nat.beq k.chan a) && (cs.any fun k => k.send && Nat.beq k.chan b)
  | _ => false

/-- **every written request is reported**: in the control-flow graph of the writer, from the point just after
    `writeAppendEntriesReq` returned nil (`Gen.pipeWriter_at_written`: the request is on the wire and WILL be answered) there is no
    way to the writer's exit — its deferred `close(resultCh)`, its return — that does not pass through a send on `resultCh`; and no
    `select` of the writer offers `<-stopCh` next to that send (the code as found did: the report of a written request could be
    dropped when the pipeline was being stopped, its answer stayed unread). And when the writer stands at that point the
    reader is still in the episode to take the report, and `resultCh` is still open. -/
theorem every_written_request_is_reported :
    Gen.pipeWriter_at_written ≠ [] ∧
    (match reachAvoiding Gen.pipeWriter resultCh 100 Gen.pipeWriter_at_written [] with
      | some pcs => pcs.all fun pc => !isExitNode (Gen.pipeWriter.code.getD pc .halt)
      | none => false) = true ∧
    (Gen.pipeWriter.code.all fun n => !offersRecvAndSend stopCh resultCh n) = true ∧
    (∀ s, Reachable pipeSys s → writerHasWritten s = true → readerLeft s = false ∧ s.isClosed resultCh = false) := by
  refine ⟨by decide, by decide, by decide, ?_⟩
  intro s hs hw
  have h := inv_holds s hs
  simp only [inv, Bool.and_eq_true, hw, Bool.not_true, Bool.false_or, Bool.not_eq_true'] at h
  exact h.1.2

/-! ## the writer terminates -/

/-- **the writer terminates once stopped**: from EVERY reachable state in which the reader's `close(stopCh)` (the LOCAL one) has
    happened, the goroutines of the episode can bring the writer to its return on their own — strict steps only, no timer fires,
    the leader does nothing, no panic — unless the writer is blocked in `notifyLdr` with `r.stopCh` still open, where only the
    leader releases it (`C15Chan.notifyLdr_returns_once_stopped`). (The writer alone is not enough since the repair of F21: a request
    that is on the wire is always reported on `resultCh`, and the reader, which drains `resultCh` until it is closed on every exit,
    may have to take that report.) -/
theorem writer_terminates_once_stopped :
    ∀ s, Reachable pipeSys s → s.isClosed stopCh = true → writerWaitsForLeader s = false →
      ∃ t, GroupReach pipeSys goroutines s t ∧ halted pipeSys t writer = true :=
  writer_leadsTo

/-! ## once the leader closed `r.stopCh`, everything finishes -/

/-- **once `r.stopCh` is closed by the leader, the whole replication goroutine can finish**: in the probe loop
    `checkLeaderUpdate` returns (`C15Chan.checkLeaderUpdate_returns_once_stopped`), and from EVERY reachable state of a pipelining
    episode the goroutines of the episode can, on their own (strict steps: no timer fires, the leader does nothing more),
    reach the state where reader and writer have returned and every started drainer has returned. Since `r.stopCh` stays
    closed this holds again in every state they pass through: under a fair scheduler the episode ends. -/
theorem replication_can_finish_once_stopped :
    (∀ s, Reachable C15Chan.waitSys s → (!s.isClosed 1 || enabledStrict C15Chan.waitSys s 0) = true) ∧
    (∀ s, Reachable pipeSys s → s.isClosed rStopCh = true →
      ∃ t, GroupReach pipeSys goroutines s t ∧ allDone t = true ∧ Reachable pipeSys t) := by
  refine ⟨C15Chan.checkLeaderUpdate_returns_once_stopped, ?_⟩
  intro s hs h1
  obtain ⟨t, ht, hg⟩ := canReach_sound (stopped_leadsTo s hs h1)
  exact ⟨t, ht, hg, ht.reachable hs⟩

/-! ## the recover path (variant P) -/

/-! OBSERVATION (e) (not an obligation; proved as `recover_path_sends_on_closed` in `RaftGen/Notes/PipeObservations.lean`): if
`writeAppendEntriesReq` panics, the writer's deferred function first does `close(resultCh)` and then
`select { case <-stopCh: return; case resultCh <- result{0, recoverErr(v)}: }` — a send on the channel it has just closed: Go panics
inside the deferred function and the process dies instead of reporting the `OpError`. The obligation below says that this is the
ONLY way an episode can panic, also when `writeAppendEntriesReq` may panic; it stays true if the deferred function is repaired. -/

/-- with a panicking `writeAppendEntriesReq` (variant P) the ONLY way the episode can panic is that send: every reachable panicked
    state has the writer just after it -/
theorem recover_path_is_the_only_panic :
    ∀ s, Reachable pipeSysP s → (noPanic s || memNat (s.pc writer) Gen.pipeWriterP_at_recoverSend) = true :=
  pipeSysP_explored

/-! ## ties: who does what on the channels of the episode (computed from the generated skeletons) -/

def sendsOn (p : Proc) (c : Nat) : Bool :=
  p.code.any fun n => match n with
    | .comm cs _ => cs.any fun k => k.send && Nat.beq k.chan c
    | _ => false

def recvsOn (p : Proc) (c : Nat) : Bool :=
  p.code.any fun n => match n with
    | .comm cs _ => cs.any fun k => !k.send && Nat.beq k.chan c
    | .recvOrClosed c' _ _ => Nat.beq c' c
    | _ => false

def closeSites (p : Proc) (c : Nat) : Nat :=
  (p.code.filter fun n => match n with
    | .close c' _ => Nat.beq c' c
    | _ => false).length

/-- **tie**: only the writer sends on / closes `resultCh` (either half); only the reader closes the local `stopCh`, at three
    sites, and nobody sends on it; every `start:` channel is closed at one site of the reader and nowhere else; each `drained`
    is written by its drainer and read by the reader only; nobody in the episode closes or sends on `r.stopCh` -/
theorem episode_census :
    ([Gen.pipeReader, Gen.pipeDrainerStop, Gen.pipeDrainerStale].all fun p =>
      !sendsOn p resultCh && !sendsOn p resultChErr && closeSites p resultCh == 0 && closeSites p resultChErr == 0) = true ∧
    closeSites Gen.pipeReader stopCh = 3 ∧
    ([Gen.pipeWriter, Gen.pipeDrainerStop, Gen.pipeDrainerStale].all fun p => closeSites p stopCh == 0) = true ∧
    ([Gen.pipeReader, Gen.pipeWriter, Gen.pipeDrainerStop, Gen.pipeDrainerStale].all fun p =>
      !sendsOn p stopCh && !sendsOn p rStopCh && closeSites p rStopCh == 0) = true ∧
    ([Gen.pipeCh_start_pipeWriter, Gen.pipeCh_start_pipeDrainerStop, Gen.pipeCh_start_pipeDrainerStale].all fun c =>
      closeSites Gen.pipeReader c == 1 &&
      [Gen.pipeWriter, Gen.pipeDrainerStop, Gen.pipeDrainerStale].all fun p => closeSites p c == 0) = true ∧
    ([Gen.pipeCh_drained_1, Gen.pipeCh_drained_err_1].all fun c =>
      sendsOn Gen.pipeDrainerStop c && !sendsOn Gen.pipeDrainerStale c && !sendsOn Gen.pipeWriter c && !sendsOn Gen.pipeReader c) = true ∧
    ([Gen.pipeCh_drained_2, Gen.pipeCh_drained_err_2].all fun c =>
      sendsOn Gen.pipeDrainerStale c && !sendsOn Gen.pipeDrainerStop c && !sendsOn Gen.pipeWriter c && !sendsOn Gen.pipeReader c) = true ∧
    ([Gen.pipeCh_drained_1, Gen.pipeCh_drained_err_1, Gen.pipeCh_drained_2, Gen.pipeCh_drained_err_2].all fun c =>
      [Gen.pipeWriter, Gen.pipeDrainerStop, Gen.pipeDrainerStale].all fun p => !recvsOn p c) = true := by decide

/-- the three `close(stopCh)` sites of the reader -/
theorem three_close_sites : closeSites Gen.pipeReader stopCh = 3 := by decide

/-- **tie**: variant P differs from the panic-free skeleton in the writer only -/
theorem variantP_differs_in_writer_only :
    Gen.pipeReaderP.code = Gen.pipeReader.code ∧ Gen.pipeReaderP.entry = Gen.pipeReader.entry ∧
    Gen.pipeDrainerStopP.code = Gen.pipeDrainerStop.code ∧ Gen.pipeDrainerStaleP.code = Gen.pipeDrainerStale.code := by decide

/-- **tie**: the only callee inside the episode with channel operations that is not part of the skeleton is `safeTimer.reset`;
    before the episode (probe loop) `replicate` reaches channel operations only through these three calls (none of which can see
    the local channels of an episode); the panic site of variant P; `resultCh` / `drained` are names used in `replicate` only;
    kinds of the source -/
theorem episode_closed :
    Gen.pipe_opaque = ["reset"] ∧
    Gen.pipe_prefix_calls = ["checkLeaderUpdate", "onAppendEntriesResp", "sendInstallSnapReq"] ∧
    Gen.pipe_panic_sites = ["writeAppendEntriesReq"] ∧
    ((Gen.census.filter fun r => r.1 == "resultCh" || r.1 == "drained").all fun r => r.2.1 == "replication.replicate") = true ∧
    Gen.pipeKinds[resultCh]? = some (Kind.buffered 128) ∧ Gen.pipeKinds[stopCh]? = some Kind.sync ∧
    ([Gen.pipeCh_drained_1, Gen.pipeCh_drained_err_1, Gen.pipeCh_drained_2, Gen.pipeCh_drained_err_2].all fun c =>
      Gen.pipeKinds[c]? == some (Kind.buffered 1)) = true ∧
    Gen.pipeKinds[rStopCh]? = some Kind.sync := by decide

end Raft.C15Pipe

#print axioms Raft.C15Pipe.pipeline_no_panic
#print axioms Raft.C15Pipe.writer_closes_resultCh_on_every_exit
#print axioms Raft.C15Pipe.reader_never_stuck_after_writer_exit
#print axioms Raft.C15Pipe.range_terminates
#print axioms Raft.C15Pipe.reader_returns_only_after_writer_done
#print axioms Raft.C15Pipe.writer_never_outlives_reader
#print axioms Raft.C15Pipe.next_iteration_only_after_writer_exit
#print axioms Raft.C15Pipe.every_written_request_is_reported
#print axioms Raft.C15Pipe.writer_terminates_once_stopped
#print axioms Raft.C15Pipe.replication_can_finish_once_stopped
#print axioms Raft.C15Pipe.recover_path_is_the_only_panic
#print axioms Raft.C15Pipe.episode_census
#print axioms Raft.C15Pipe.variantP_differs_in_writer_only
#print axioms Raft.C15Pipe.episode_closed
