import RaftGen.Chan.Sound
import RaftGen.Props.C15PipeSys

/-! Kernel evaluation for `RaftGen/Props/C15Pipe.lean`, can-finish part: one exploration of `pipeSys` with a search (`canReach`)
from every state that satisfies a guard. -/

namespace Raft.C15Pipe
open Raft.Chan

theorem pipeSys_live : ∀ s, Reachable pipeSys s → alwaysLive s = true :=
  checkAll_sound (fuel := 3500) (by decide +kernel)

end Raft.C15Pipe
