import RaftGen.Chan.Explore
import RaftGen.Gen.Skel

/-!
Systems and state predicates of `RaftGen/Props/C15Pipe.lean` (the pipelining episode of `replication.replicate`); see that file
for the description, the modelling assumptions and the theorems. The kernel evaluations are in `C15PipeSafe.lean` and
`C15PipeLive.lean` (two modules, so that they are checked in parallel). Definitions only (imported by `Search/Pipe.lean` too).
-/

namespace Raft.C15Pipe
open Raft.Chan

/-! ## the systems -/

/-- process numbers -/
abbrev reader : Nat := 0
abbrev writer : Nat := 1
abbrev drainerStop : Nat := 2
abbrev drainerStale : Nat := 3
/-- the replication goroutine's side of the episode -/
abbrev goroutines : List Nat := [0, 1, 2, 3]

/-- channel numbers -/
abbrev rStopCh : Nat := 1
abbrev replUpdateCh : Nat := 2
abbrev stopCh : Nat := Gen.pipeCh_stopCh
abbrev resultCh : Nat := Gen.pipeCh_resultCh
abbrev resultChErr : Nat := Gen.pipeCh_resultCh_err

/-- the kinds of the source with the leader's channels made `external` and `resultCh` clamped to `cap` (+ 1 for the error half);
the two halves of each `drained` keep the capacity 1 of the source -/
def kinds (cap : Nat) : List Kind :=
  (((Gen.pipeKinds.set 0 Kind.external).set replUpdateCh Kind.external).set resultCh (Kind.buffered cap)).set resultChErr
    (Kind.buffered 1)

/-- the leader seen from the episode: at any time it may close `r.stopCh`, once (everything else it does is covered by the
`external` kind of `leaderUpdateCh` / `replUpdateCh`) -/
def leader : Proc := Proc.mk "leader" [Node.close rStopCh 1, Node.halt] 0

/-- one pipelining episode, panic-free -/
def pipeSys : Sys :=
  Sys.mk [Gen.pipeReader, Gen.pipeWriter, Gen.pipeDrainerStop, Gen.pipeDrainerStale, leader] (kinds 2)

/-- one pipelining episode in which `writeAppendEntriesReq` may panic (`getEntryTerm` / `writeEntriesTo` panic on a storage error) -/
def pipeSysP : Sys :=
  Sys.mk [Gen.pipeReaderP, Gen.pipeWriterP, Gen.pipeDrainerStopP, Gen.pipeDrainerStaleP, leader] (kinds 1)

/-! ## state predicates -/

def memNat (x : Nat) : List Nat → Bool
  | [] => false
  | y :: ys => Nat.beq x y || memNat x ys

/-- process `i` stands at the `select` of `notifyLdr` (`case <-r.stopCh: case r.replUpdateCh <- u:`): it waits for the LEADER -/
def inNotifyLdr (y : Sys) (s : State) (i : Nat) : Bool :=
  match y.nodeAt s i with
  | .comm cs _ => cs.any fun k => k.send && Nat.beq k.chan replUpdateCh
  | _ => false

/-- process `i` has work left and can do a step of it without anybody's help -/
def live (y : Sys) (s : State) (i : Nat) : Bool := !halted y s i && enabledStrict y s i

/-- process `i` is past its last communication: only `close`s (the deferred `close(resultCh)`) and the return are left -/
def onExitPath (y : Sys) (s : State) (i : Nat) : Bool :=
  match y.nodeAt s i with
  | .halt => true
  | .close _ _ => true
  | _ => false

/-- the go statement of a drainer has been executed (its `start:` channel is closed) -/
def spawnedStop (s : State) : Bool := s.isClosed Gen.pipeCh_start_pipeDrainerStop
def spawnedStale (s : State) : Bool := s.isClosed Gen.pipeCh_start_pipeDrainerStale

/-- the reader has left the episode (returned from `replicate`, or gone on to the next iteration) -/
def readerLeft (s : State) : Bool := halted pipeSys s reader

/-- every goroutine of the episode is done: reader and writer returned, each drainer returned or was never started -/
def allDone (s : State) : Bool :=
  halted pipeSys s reader && halted pipeSys s writer &&
  (halted pipeSys s drainerStop || !spawnedStop s) &&
  (halted pipeSys s drainerStale || !spawnedStale s)

/-- the writer is blocked in `notifyLdr` and the leader has not closed `r.stopCh`: only the leader can release it
(`C15Chan.notifyLdr_returns_once_stopped`: it does, by draining `replUpdateCh` or by `close(r.stopCh)`) -/
def writerWaitsForLeader (s : State) : Bool := inNotifyLdr pipeSys s writer && !s.isClosed rStopCh

/-! ## what is evaluated over the 2815 reachable states of `pipeSys` -/

/-- the writer stands just after `writeAppendEntriesReq` returned nil: its request is on the wire and will be answered -/
def writerHasWritten (s : State) : Bool := memNat (s.pc writer) Gen.pipeWriter_at_written

def inv (s : State) : Bool :=
  noPanic s &&
  (!halted pipeSys s writer || (s.isClosed resultCh && s.isClosed resultChErr)) &&
  (!halted pipeSys s writer || halted pipeSys s reader || inNotifyLdr pipeSys s reader || enabledStrict pipeSys s reader ||
    live pipeSys s drainerStop || live pipeSys s drainerStale) &&
  (!readerLeft s || onExitPath pipeSys s writer) &&
  (!writerHasWritten s || (!readerLeft s && !s.isClosed resultCh)) &&
  (!readerLeft s || !memNat (s.pc writer) Gen.pipeWriter_at_write)

/-- the goroutines of the episode can, on their own, bring the writer to its return. (Since the repair of finding F21 a
request that was written is ALWAYS reported on `resultCh`, also when the pipeline is being stopped — so the writer may have to wait
for the reader, which drains `resultCh` until it is closed on every exit: the writer does not finish alone any more.) -/
def writerCanFinish (s : State) : Bool := canReach pipeSys 300 goroutines (halted pipeSys · writer) s

/-- the goroutines of the episode can bring it to its end on their own -/
def episodeCanFinish (s : State) : Bool := canReach pipeSys 300 goroutines allDone s

/-- the can-finish claims, of EVERY reachable state: the whole episode once the leader closed `r.stopCh` (then in particular the
writer: one search serves both claims), otherwise the writer once the pipeline is stopped (unless only the leader can release it) -/
def alwaysLive (s : State) : Bool :=
  bif s.isClosed rStopCh then episodeCanFinish s
  else (!(s.isClosed stopCh && !writerWaitsForLeader s) || writerCanFinish s)

end Raft.C15Pipe
