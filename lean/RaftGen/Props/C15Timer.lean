import RaftGen.Gen.Timer

/-!
# C15 — the safeTimer protocol never blocks its goroutine (facts regenerated from the Go source)

util.go `safeTimer` wraps a `time.Timer` so that `reset` can be called at any time: `stop()` drains the channel when the
timer already fired — `if !t.timer.Stop() { if t.active { <-t.C } }` — and that receive is a *blocking* one. It returns only
if a value really is in the channel, which the flag `active` ("started, but not yet received from channel") is meant to
guarantee. The comment in util.go says: "NOTE: must be set to false, after receiving from channel". If one receive site
forgets to clear the flag, the next `reset`/`stop` on that timer blocks its goroutine forever — for the timers of
raft.go's `stateLoop` that is a deadlock of the node (C15).

`Raft.Gen.timerRecvSites`, `safeTimerStopSrc`, `safeTimerResetSrc`, `newSafeTimerSrc` are written by the translator
`go/astfacts` from the Go source on every run. This file has (1) a model of the protocol, parametrised by whether the
receive sites clear the flag, (2) the proof that with clearing sites `stop` never blocks in any reachable state, for any
number of operations in any order, and that without it a blocked state is reachable, (3) the tie: every receive site in the
source clears the flag, and the three function bodies are the ones the model was written from.
-/

namespace Raft.C15Timer

/-- the Go runtime timer + its channel (capacity 1) + the wrapper's flag -/
structure T where
  armed  : Bool   -- the runtime timer is running
  buf    : Bool   -- a value sits in the channel `C`
  active : Bool   -- safeTimer.active
  stuck  : Bool   -- the goroutine is blocked forever in `<-t.C` inside stop()
deriving DecidableEq, Repr

/-- what a goroutine (or the runtime) can do with the timer -/
inductive Op where
  | reset          -- safeTimer.reset(d)
  | stop           -- safeTimer.stop()
  | fire           -- the runtime timer expires: sends on `C` (non-blocking, capacity 1)
  | recv           -- a `case <-t.C:` of some select is taken (possible only when a value is there)
deriving DecidableEq, Repr

/-- `newSafeTimer`: a stopped timer with an empty channel -/
def init : T := ⟨false, false, false, false⟩

/-- `safeTimer.stop` -/
def stop (t : T) : T :=
  -- `t.timer.Stop()` reports whether the timer was running, and stops it
  let wasRunning := t.armed
  let t := { t with armed := false }
  if !wasRunning then
    if t.active then
      if t.buf then { t with buf := false, active := false }      -- `<-t.C` takes the value
      else { t with stuck := true }                                -- `<-t.C` on an empty channel nobody will fill
    else { t with active := false }
  else { t with active := false }

/-- one operation; `clears`: do the receive sites set `active = false`? -/
def step (clears : Bool) (t : T) : Op → T
  | .stop  => if t.stuck then t else stop t
  | .reset => if t.stuck then t else
      let t := stop t
      if t.stuck then t else { t with armed := true, active := true }
  | .fire  => if t.armed then { t with armed := false, buf := true } else t
  | .recv  => if t.stuck then t else if t.buf then { t with buf := false, active := if clears then false else t.active } else t

def run (clears : Bool) (t : T) (ops : List Op) : T := ops.foldl (step clears) t

/-- the protocol invariant: the flag says exactly "running, or fired and not yet received" -/
def Inv (t : T) : Bool := !t.stuck && (t.active == (t.armed || t.buf)) && !(t.armed && t.buf)

theorem inv_init : Inv init = true := by decide

theorem inv_step (t : T) (op : Op) (h : Inv t = true) : Inv (step true t op) = true := by
  rcases t with ⟨a, b, c, d⟩
  cases a <;> cases b <;> cases c <;> cases d <;> cases op <;> first | exact absurd h (by decide) | decide

/-- **with receive sites that clear the flag, `stop`/`reset` never block**: after ANY sequence of resets, stops, expiries and
    receives, in any order and number, the goroutine is not stuck -/
theorem stop_never_blocks (ops : List Op) : (run true init ops).stuck = false := by
  have h : ∀ (ops : List Op) (t : T), Inv t = true → Inv (run true t ops) = true := by
    intro ops
    induction ops with
    | nil => intro t h; exact h
    | cons o os ih => intro t h; exact ih _ (inv_step t o h)
  have := h ops init inv_init
  revert this
  generalize run true init ops = t
  rcases t with ⟨a, b, c, d⟩
  cases d <;> simp [Inv]

/-- **necessity**: with a receive site that does NOT clear the flag, four operations block the goroutine forever -/
theorem unclear_receive_blocks : (run false init [.reset, .fire, .recv, .reset]).stuck = true := by decide

/-- **the tie, 1**: every receive from a safeTimer's channel in the library is followed at once by `timer.active = false` -/
theorem all_sites_clear : ∀ s ∈ Gen.timerRecvSites, s.2.2 = true := by decide

/-- there are such sites (the statement above is not vacuous), among them the state loop's election/heartbeat timer -/
theorem sites_nonempty : ("Raft.stateLoop", "r.timer", true) ∈ Gen.timerRecvSites ∧ 4 ≤ Gen.timerRecvSites.length := by decide

def expectedStop : String := "{ if !t.timer.Stop() { if t.active { <-t.C } } t.active = false }"
def expectedReset : String := "{ t.stop() t.timer.Reset(d) t.active = true }"
def expectedNew : String := "{ t := time.NewTimer(0) if !t.Stop() { <-t.C } return &safeTimer{t, t.C, false} }"

/-- **the tie, 2**: `stop`, `reset` and `newSafeTimer` are the functions the model above was written from -/
theorem wrapper_source :
    Gen.safeTimerStopSrc = expectedStop ∧ Gen.safeTimerResetSrc = expectedReset ∧ Gen.newSafeTimerSrc = expectedNew := by decide

end Raft.C15Timer

#print axioms Raft.C15Timer.stop_never_blocks
#print axioms Raft.C15Timer.unclear_receive_blocks
#print axioms Raft.C15Timer.all_sites_clear
#print axioms Raft.C15Timer.sites_nonempty
#print axioms Raft.C15Timer.wrapper_source
