/-
C05 — the candidate's own vote: `candidate.startElection` must make its self vote for term T+1 durable BEFORE any
vote request for T+1 can leave the node.  Otherwise a crash between the two lets the restarted node (durable term T,
no vote) grant its vote to another candidate of T+1 although it has already asked — and possibly obtained — votes for
itself in that term: two votes of one node in one term, and a term reported lower than one it reported before.

`Gen.startElectionEvents` is regenerated from candidate.go on every run (go/astfacts -what order): the persist calls,
the construction of the request and the `go` statements that send it, in source order, terms relative to `c.term` at
entry.  The little machine below runs them; `requests_carry_durable_term` is the proof obligation that breaks when the
order (or the term the request carries) changes.  The node model's `startElection` (Model/Handlers.lean) is atomic —
persist, then answer — which is faithful only under this obligation.
-/
import RaftGen.Gen.Order

namespace Raft.C05Order
open Raft.Gen

/-- `cur` = c.term, `durable` = the term on disk (both relative to c.term at entry), `req` = the term the request
carries, `bad` = a request left the node with a term that is not on disk -/
structure St where
  cur : Nat := 0
  durable : Nat := 0
  req : Option Nat := none
  sent : Nat := 0
  bad : Bool := false
  deriving DecidableEq, Repr

def step (s : St) : ElectEv → St
  | .persist k => { s with cur := s.cur + k, durable := s.cur + k }
  | .mkreq k => { s with req := some (s.cur + k) }
  | .spawn => match s.req with
    | some t => { s with sent := s.sent + 1, bad := s.bad || decide (s.durable < t) }
    | none => { s with bad := true }

def run (evs : List ElectEv) : St := evs.foldl step {}

/-- `bad` is sticky, so the final flag speaks for every prefix: no request ever left with a term above the durable one -/
theorem bad_sticky (evs : List ElectEv) (s : St) (h : s.bad = true) : (evs.foldl step s).bad = true := by
  induction evs generalizing s with
  | nil => exact h
  | cons e es ih =>
    apply ih
    cases e <;> simp only [step]
    · exact h
    · exact h
    · split <;> simp [h]

/-- every vote request that startElection sends carries a term that is already on disk, with the node's own vote -/
theorem requests_carry_durable_term : (run startElectionEvents).bad = false := by decide

/-- and it is the new term that is requested: one persist of T+1, requests for T+1, at least one `go` -/
theorem election_is_for_next_term :
    (run startElectionEvents).durable = 1 ∧ (run startElectionEvents).req = some 1 ∧ 0 < (run startElectionEvents).sent := by
  decide

/-- the machine is not trivially happy: sending first is flagged -/
example : (run [.mkreq 1, .spawn, .persist 1]).bad = true := by decide

end Raft.C05Order

#print axioms Raft.C05Order.bad_sticky
#print axioms Raft.C05Order.requests_carry_durable_term
#print axioms Raft.C05Order.election_is_for_next_term
