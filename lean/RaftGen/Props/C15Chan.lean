import RaftGen.Chan.Sound
import RaftGen.Gen.Skel

/-!
# C15 — the leader ⇄ replication channel protocols cannot deadlock (skeletons regenerated from the Go source)

`Raft.Gen.*` (file `RaftGen/Gen/Skel.lean`) is written by the translator `go/astfacts` from the Go source on every run: the
channel skeleton of `leader.notifyFlr`, `replication.notifyLdr`, `replication.checkLeaderUpdate` as control-flow graphs
(data erased: every data-dependent branch is a free choice, so every real execution is a path of the skeleton), the channel
kinds from the `make(chan …)` sites, and a census of every channel operation of the package.

Every theorem below is about ALL reachable states of ALL interleavings of the processes of a small system, for any number of
calls (the functions are wrapped in `loopOf`: called again and again) — by the verified exploration of `RaftGen/Chan/Sound.lean`
evaluated in the kernel. Channels: 0 = `leaderUpdateCh` (one per follower; the system is the projection onto ONE follower, the
other iterations of the loop over `l.repls` are the `choice` at the loop head), 1 = `stopCh`, 2 = `replUpdateCh`, 3 = timers.
-/

namespace Raft.C15Chan
open Raft.Chan

/-- a function that is called again and again: `halt` (return) goes back to the entry -/
def loopOf (p : Proc) : Proc :=
  { p with code := p.code.map (fun n => match n with | .halt => Node.choice [p.entry] | n => n) }

/-- the most general receiver on channel `c`: at any time it takes an item, does something else, or stops for good.
    (Justified by the census: nobody but `leader.notifyFlr` sends on `leaderUpdateCh` — `mailbox_single_sender`.) -/
def receiver (c : Nat) : Proc :=
  Proc.mk "any receiver" [Node.choice [0, 1, 2], Node.comm [⟨false, c, 0⟩] none, Node.halt] 0

/-- the state loop seen from a replication goroutine: at any time it drains a report from `replUpdateCh`, does something
    else, or stops the replication (`close(stopCh)`, once) and then stops listening -/
def leaderEnv : Proc :=
  Proc.mk "state loop" [Node.choice [0, 1, 2], Node.comm [⟨false, 2, 0⟩] none, Node.close 1 3, Node.halt] 0

/-- … which in addition may put a new update into the mailbox at any time before it stops -/
def leaderEnv2 : Proc :=
  Proc.mk "state loop" [Node.choice [0, 1, 2, 4], Node.comm [⟨false, 2, 0⟩] none, Node.close 1 3, Node.halt,
    Node.comm [⟨true, 0, 0⟩] (some 0)] 0

/-- the kinds of the source, with the capacity of `replUpdateCh` (1024 in the source) clamped to 2: a smaller buffer only
    makes its senders block earlier, and keeps the state space small -/
def kinds2 : List Kind := Gen.kinds.set 2 (Kind.buffered 2)

/-! ## the mailbox `leaderUpdateCh`: leader → replication -/

def mailboxSys : Sys := Sys.mk [loopOf Gen.notifyFlr, receiver 0] Gen.kinds

/-- **the leader never blocks in `notifyFlr`**: in every reachable state — whatever the replication goroutine does, including
    never receiving again — the state loop can complete its current channel operation on its own. (The lost wake-up of a
    check-then-act variant — non-blocking send, then a blocking receive — is excluded here.) -/
theorem leader_never_blocks_in_notifyFlr : ∀ s, Reachable mailboxSys s → enabledStrict mailboxSys s 0 = true :=
  checkAll_sound (fuel := 400) (by decide)

/-- nothing in this protocol can make Go panic (no close, hence no send on a closed channel) -/
theorem mailbox_no_panic : ∀ s, Reachable mailboxSys s → noPanic s = true :=
  checkAll_sound (fuel := 400) (by decide)

/-- the mailbox never holds more than one update (the newest replaces the stale one) -/
theorem mailbox_at_most_one : ∀ s, Reachable mailboxSys s → (s.buf 0 ≤ 1) := by
  intro s hs
  have := checkAll_sound (y := mailboxSys) (fuel := 400) (P := fun s => decide (s.buf 0 ≤ 1)) (by decide) s hs
  simpa using this

/-- **tie**: in the whole package, the only function that sends on `leaderUpdateCh` is `leader.notifyFlr`, the channel is
    never closed, and it is made (once) with capacity 1 -/
theorem mailbox_single_sender :
    (Gen.ops_leaderUpdateCh.filter (·.2 == "send")).map (·.1) = ["leader.notifyFlr"] ∧
    Gen.ops_leaderUpdateCh.filter (·.2 == "close") = [] ∧
    (Gen.ops_leaderUpdateCh.filter (fun r => r.2 != "send" && r.2 != "recv")).map (·.2) = ["make 1"] ∧
    Gen.kinds[0]? = some (Kind.buffered 1) := by decide

/-- **tie**: `notifyFlr` calls nothing that can reach another channel operation -/
theorem notifyFlr_closed : Gen.notifyFlr_opaque = [] := by decide

/-! ## the report channel `replUpdateCh` and `stopCh`: replication → leader -/

def reportSys : Sys := Sys.mk [loopOf Gen.notifyLdr, leaderEnv] kinds2

/-- **a replication goroutine reporting to its leader never hangs once the leader stopped it**: after `close(stopCh)` — even if
    the leader never drains `replUpdateCh` again and its buffer is full — `notifyLdr` can always complete on its own -/
theorem notifyLdr_returns_once_stopped :
    ∀ s, Reachable reportSys s → (!s.isClosed 1 || enabledStrict reportSys s 0) = true :=
  checkAll_sound (fuel := 400) (by decide)

/-- `stopCh` is closed once, nobody sends on it: no panic -/
theorem report_no_panic : ∀ s, Reachable reportSys s → noPanic s = true :=
  checkAll_sound (fuel := 400) (by decide)

/-- **tie**: `replUpdateCh` is written by `replication.notifyLdr` only and never closed; nobody sends on a `stopCh` -/
theorem report_census :
    (Gen.ops_replUpdateCh.filter (·.2 == "send")).map (·.1) = ["replication.notifyLdr"] ∧
    Gen.ops_replUpdateCh.filter (·.2 == "close") = [] ∧
    Gen.ops_stopCh.filter (·.2 == "send") = [] := by decide

/-! ## `checkLeaderUpdate`: where the replication goroutine waits between two requests -/

def waitSys : Sys := Sys.mk [loopOf Gen.checkLeaderUpdate, leaderEnv2] kinds2

/-- **once stopped, a replication goroutine never hangs in `checkLeaderUpdate`** (the idle wait for a heartbeat timer, a leader
    update or the stop signal; the report it sends from `onLeaderUpdate`): after `close(stopCh)` it can always move on its own,
    whether or not timers fire and whether or not the leader still listens -/
theorem checkLeaderUpdate_returns_once_stopped :
    ∀ s, Reachable waitSys s → (!s.isClosed 1 || enabledStrict waitSys s 0) = true :=
  checkAll_sound (fuel := 2000) (by decide +kernel)

theorem wait_no_panic : ∀ s, Reachable waitSys s → noPanic s = true :=
  checkAll_sound (fuel := 2000) (by decide +kernel)

/-- **tie**: the only callee of `checkLeaderUpdate` with channel operations that is not part of the skeleton is
    `safeTimer.reset` (its protocol is `RaftGen/Props/C15Timer.lean`) -/
theorem checkLeaderUpdate_closed : Gen.checkLeaderUpdate_opaque = ["reset"] ∧ Gen.notifyLdr_opaque = [] := by decide

/-! ## the hand-offs back to the state loop: restore results (`fsmRestoredCh`) and snapshot results (`snapTakenCh`) -/

/-- a goroutine that delivers `n` results on channel `c`, one after the other, and returns -/
def deliver (name : String) (c n : Nat) : Proc :=
  Proc.mk name ((List.range n).map (fun i => Node.comm [⟨true, c, i + 1⟩] none) ++ [Node.halt]) 0

/-- the state loop as the receiver of results: it may take one at any time, be busy with something else — e.g. waiting for
    the fsm goroutine in `lastApplied()` — or have returned for good (shutdown) -/
def resultSys (c n : Nat) : Sys := Sys.mk [deliver "deliver" c n, receiver c] Gen.kinds

/-- **the fsm goroutine never blocks handing back a restore result**, for up to `cap(fsmRestoredCh)` = 5 results nobody has
    received yet: whatever the state loop does meanwhile — busy, waiting for the fsm goroutine itself (`lastApplied`, the
    GetInfo task), or gone (shutdown) — each `t.err <- err` completes on its own. So a snapshot installation whose restore is
    still running can deadlock neither GetInfo nor shutdown. PARTIAL: with MORE than 5 restores queued while the state loop
    receives none of the results the buffer is full and this guarantee ends (six snapshot installations accepted during one
    `FSM.Restore`, then a GetInfo: see DESIGN.md, observations). -/
theorem restore_result_never_blocks_partial :
    ∀ s, Reachable (resultSys 4 5) s → enabledStrict (resultSys 4 5) s 0 = true :=
  checkAll_sound (fuel := 400) (by decide)

/-- **tie**: the channel inside every restore request is `fsmRestoredCh`, made once with capacity 5, never closed -/
theorem restore_census :
    (Gen.restoreReqChans.all (· == "fsmRestoredCh")) = true ∧ Gen.restoreReqChans ≠ [] ∧
    (Gen.ops_fsmRestoredCh.filter (fun r => r.2 != "send" && r.2 != "recv")).map (·.2) = ["make 5"] ∧
    Gen.kinds[4]? = some (Kind.buffered 5) := by decide

/-- **the snapshot goroutine never blocks handing back its result**: `snapTakenCh` is made per snapshot with capacity 1 and
    receives exactly one result -/
theorem snapshot_result_never_blocks :
    ∀ s, Reachable (resultSys 5 1) s → enabledStrict (resultSys 5 1) s 0 = true :=
  checkAll_sound (fuel := 100) (by decide)

/-- **tie**: `snapTakenCh` is made in `onTakeSnapshot` with capacity 1, written there only, never closed -/
theorem snapshot_census :
    (Gen.ops_snapTakenCh.filter (·.2 == "send")).map (·.1) = ["Raft.onTakeSnapshot"] ∧
    (Gen.ops_snapTakenCh.filter (fun r => r.2 != "send" && r.2 != "recv" && r.2 != "nil")).map (·.2) = ["make 1"] ∧
    Gen.kinds[5]? = some (Kind.buffered 1) := by decide

/-- the state loop around a snapshot in flight: it takes the result when it comes (`case t := <-r.snapTakenCh`), or the node
    is closed first (`close(r.close)`) and `Raft.release` then WAITS for the result (`r.onSnapshotTaken(<-r.snapTakenCh)`) -/
def closingLoop : Proc :=
  Proc.mk "state loop" [Node.choice [1, 2], Node.comm [⟨false, 5, 4⟩] none, Node.close 6 3, Node.comm [⟨false, 5, 4⟩] none,
    Node.halt] 0

/-- the goroutine `onTakeSnapshot` starts (skeleton regenerated from the source) against that state loop -/
def snapSys : Sys := Sys.mk [Gen.snapGoroutine, closingLoop] Gen.kinds

/-- **shutdown with a snapshot in flight always finishes**: once the snapshot goroutine has returned, the state loop — whether
    it is still running or already in `Raft.release` waiting for the result — is never blocked: the result is in `snapTakenCh`
    or was received. (A hand-over that may be skipped when the node is closing would leave `release` waiting for ever.) -/
theorem snapshot_result_always_delivered :
    ∀ s, Reachable snapSys s → (!halted snapSys s 0 || halted snapSys s 1 || enabledStrict snapSys s 1) = true :=
  checkAll_sound (fuel := 200) (by decide)

/-- … and the goroutine itself never blocks on the hand-over, nor does anything panic -/
theorem snapshot_goroutine_never_blocks :
    ∀ s, Reachable snapSys s → (enabledStrict snapSys s 0 && noPanic s) = true :=
  checkAll_sound (fuel := 200) (by decide)

/-- **tie**: the only callee with channel operations inside that goroutine is `doTakeSnapshot` (it asks the fsm goroutine for
    its state and waits for the answer; it returns — C03/C09 model it as the `snapRun` step) -/
theorem snapGoroutine_closed : Gen.snapGoroutine_opaque = ["doTakeSnapshot"] := by decide

/-- NECESSITY (what the capacity is for): with an unbuffered channel the very first result can block for ever -/
example : checkAll (Sys.mk [deliver "deliver" 0 1, receiver 0] [Kind.sync]) 100
    (enabledStrict (Sys.mk [deliver "deliver" 0 1, receiver 0] [Kind.sync]) · 0) = false := by decide

/-- EXAMPLES (sizes of the explored state spaces; the statements above are about every one of these states) -/
example : (explore mailboxSys 400).map List.length = some 33 := by decide
example : (explore reportSys 400).map List.length = some 24 := by decide

end Raft.C15Chan

#print axioms Raft.C15Chan.leader_never_blocks_in_notifyFlr
#print axioms Raft.C15Chan.mailbox_no_panic
#print axioms Raft.C15Chan.mailbox_at_most_one
#print axioms Raft.C15Chan.mailbox_single_sender
#print axioms Raft.C15Chan.notifyFlr_closed
#print axioms Raft.C15Chan.notifyLdr_returns_once_stopped
#print axioms Raft.C15Chan.report_no_panic
#print axioms Raft.C15Chan.report_census
#print axioms Raft.C15Chan.checkLeaderUpdate_returns_once_stopped
#print axioms Raft.C15Chan.wait_no_panic
#print axioms Raft.C15Chan.checkLeaderUpdate_closed
#print axioms Raft.C15Chan.restore_result_never_blocks_partial
#print axioms Raft.C15Chan.restore_census
#print axioms Raft.C15Chan.snapshot_result_never_blocks
#print axioms Raft.C15Chan.snapshot_census
#print axioms Raft.C15Chan.snapshot_result_always_delivered
#print axioms Raft.C15Chan.snapshot_goroutine_never_blocks
#print axioms Raft.C15Chan.snapGoroutine_closed
