/-
C17 (first sentence) on the cluster-level transition system — **liveness as POSSIBILITY**: from EVERY reachable
state a live majority CAN elect a leader of a new term, commit an entry of that term and bring every node of the
majority up to date, with an explicit bound: at most two election timeouts per node and at most `6·|M| + 1`
transitions in all. (A model has no clocks and no fairness: what is proved is the absence of protocol-level
deadlock — a run EXISTS — not that every fair run gets there.)

The system: `Raft.Commit` (Sys/Commit.lean) with the assumptions of Props/C19Sys.lean (`SysInv.ReachableG`):
any node handles any enabled operation of the executable node model `Node.step`, dies at any storage point and
restarts, a leader puts on the wire requests read from its log. INHERITED RESTRICTIONS (`_partial`): fixed voter
list `V`, fixed stable configuration (`SideV`: no membership change), no snapshots / log compaction (`OpOK2`),
every node retains ≥ 1 snapshot (`SideG`), a good initial state (`GInv`: every node `NoPanic.Good true`, all nodes
bootstrapped with one configuration entry of at least two voters, one root). ADDED HYPOTHESES on the live
majority `M` (a duplicate-free list of node ids): `M ⊆ V`, `2·|M| > |V|`, no id is 0, every node of `M` is OPEN
(`closed = ""`: its state loop runs — it was not shut down or removed), and the member ids of the latest
configuration of every node of `M` are distinct (in Go the members are a map keyed by id; the model's association
list is not forced to have distinct ids by `Commit.Init`). Nothing is assumed about roles, terms, logs, commit
indexes of the nodes, nor about the nodes outside `M` (they may be closed, ahead, leaders of other terms …).

The constructed run (`Progress.Exec`: labelled transitions of `SysInv.TransG`, no crash; every label is an
operation of a node of `M`; the vote requests, counted vote responses and append requests it delivers were produced
by nodes of `M` in this run — recorded campaign, recorded grants, `sent` ledger; the term-carrying inputs of phases
A and B are inputs the system leaves unconstrained) — phases:
  A  every node of `M` is made a follower — a (stale) leader by the `newTerm` report of one of its replications
     carrying its own term (allowed by `EnabledG`), a candidate by a vote response carrying its term + 1 — and then
     its election timer fires ONCE: it is candidate of a higher term and knows no leader (`leader = 0`, so that it
     will not refuse a vote request with `leaderKnown`);
  B  the node `w` of `M` with the most up-to-date log ((lastLogTerm, lastLogIndex) maximal) receives, if its term
     is below the highest term `T0` in `M`, a vote response carrying `T0`; its election timer fires (for the SECOND
     time): candidate of `T = T0 + 1`;
  C  every other node of `M` receives `w`'s vote request (the recorded campaign) and grants;
  D  `w` counts `|V|/2` of these votes: leader of term `T`; **`leader.init` itself appends the no-op entry of term
     `T`** (`Model/Handlers.lean`, `leaderInit`: `storeEntry [{typ := etNop}]` — no client update is needed);
  E  `w` sends ONE append request with `prevLogIndex = 1` (the bootstrap entry, which every log holds) carrying its
     whole log above index 1; every other node of `M` accepts it (conflicting suffixes are removed) and answers
     `success`;
  F  `w` is told the match indexes (`replUpdates`): `majorityMatchIndex` reaches its last index `N`, it commits
     and applies;
  G  `w` sends a heartbeat (`prevLogIndex = N`, commit index `N`); every other node of `M` commits `N` and applies.

Stage 1 (node level, Lemmas/ProgressNode.lean, Lemmas/ProgressCommit.lean; all for `Node.step`):
`Progress.timeout_makes_candidate`, `timeout_candidate_again`, `voteResult_newer_term_steps_down`,
`newTerm_report_steps_down`, `vote_granted_when_uptodate`, `voteResult_counts`, `majority_of_grants_makes_leader`,
`append_all_entries_accepted` (+ `append_step_frame`), `ack_majority_commits`, `heartbeat_commits_follower`.
Stage 2: `election_possible_partial`. Stage 3: `progress_possible_partial`.
-/
import RaftVerif.Lemmas.ProgressFinal

namespace Raft
namespace C17Sys
open Node LogRel CommitRel Commit C02Sys NoPanic SysInv Progress

/-- **C17, election is always possible (partial: the restrictions and hypotheses of the file header).**
Let `V` be a duplicate-free voter list, `x` ANY reachable state of the cluster system (`SysInv.ReachableG V x`) and
`M` a live majority: a duplicate-free list of non-zero ids of voters, `2·|M| > |V|`, every node of `M` open, the
member ids of their latest configurations distinct. Then there is a run `ls` (`Progress.Exec`, hence a run of the
system, `SysInv.RunG V x y`) from `x` to a state `y` such that
* the run has at most `4·|M|` transitions, every one an operation of a node of `M`, and uses at most TWO election
  timeouts per node;
* a node `w ∈ M` is leader in `y`, open, of a term higher than the term every node of `M` had in `x`;
* every other node of `M` is a follower of that term;
* nothing changed outside `M`. -/
theorem election_possible_partial (V : List Nat) (hV : V.Nodup) (x : Commit.Sys) (hx : ReachableG V x)
    (M : List Nat) (hM : M.Nodup) (hMV : ∀ i ∈ M, i ∈ V) (hmaj : 2 * M.length > V.length)
    (h0 : ∀ i ∈ M, i ≠ 0) (hopen : ∀ i ∈ M, (x.node i).closed = "")
    (hids : ∀ i ∈ M, (x.node i).configs.latest.ids.Nodup) :
    ∃ (ls : List Lbl) (y : Commit.Sys) (w : Nat),
      Exec V x ls y ∧ RunG V x y ∧
      ls.length ≤ 4 * M.length ∧ (∀ l ∈ ls, l.actor ∈ M) ∧ (∀ i, (ls.filter (Lbl.isTimeoutOf i)).length ≤ 2) ∧
      w ∈ M ∧ (y.node w).role = .leader ∧ (y.node w).closed = "" ∧
      (∀ i ∈ M, (x.node i).term < (y.node w).term) ∧
      (∀ i ∈ M, i ≠ w → (y.node i).role = .follower ∧ (y.node i).term = (y.node w).term) ∧
      (∀ i, i ∉ M → y.node i = x.node i) := by
  obtain ⟨ls, y, w, T, ex, ok, el⟩ := election_run hV hx M hM hMV hmaj h0 hopen hids
  refine ⟨ls, y, w, ex, ex.runG hV hx, ok.len, ok.actors, fun i => ?_, el.wM, el.role, el.closed, ?_, ?_, el.outside⟩
  · refine Nat.le_trans (ok.timeouts i) ?_
    split <;> omega
  · intro i hi; rw [el.term]; exact el.termGt i hi
  · intro i hi hiw
    obtain ⟨_, r, t⟩ := el.others i hi hiw
    exact ⟨r, by rw [t, el.term]⟩

/-- **C17, progress is always possible (partial: the restrictions and hypotheses of the file header).**
Same hypotheses as `election_possible_partial`: `x` any reachable state, `M` a live majority. Then there is a run
`ls` from `x` to a state `y`, a node `w ∈ M`, and an index `N` such that
* the run has at most `6·|M| + 1` transitions, every one an operation of a node of `M` (or `w` putting a request
  on the wire), and uses at most TWO election timeouts per node;
* `w` is leader in `y` of a term `T` higher than the term every node of `M` had in `x`;
* `w`'s log extends the log it had in `x`, and holds at the index `N` beyond that old log an entry of its own
  term `T` (the no-op of `leader.init`); `w` has COMMITTED `N` (hence, by leader completeness — C02Sys — everything
  committed before) and its state machine has applied everything up to its commit index;
* every other node of `M` is a follower of term `T`, its log AGREES with the leader's up to `N` (entry by entry),
  its commit index is `N` and its state machine has applied everything up to `N`;
* nothing changed outside `M`; every node of `M` is still open with the same latest configuration (so the
  hypotheses hold again in `y`). -/
theorem progress_possible_partial (V : List Nat) (hV : V.Nodup) (x : Commit.Sys) (hx : ReachableG V x)
    (M : List Nat) (hM : M.Nodup) (hMV : ∀ i ∈ M, i ∈ V) (hmaj : 2 * M.length > V.length)
    (h0 : ∀ i ∈ M, i ≠ 0) (hopen : ∀ i ∈ M, (x.node i).closed = "")
    (hids : ∀ i ∈ M, (x.node i).configs.latest.ids.Nodup) :
    ∃ (ls : List Lbl) (y : Commit.Sys) (w N : Nat),
      Exec V x ls y ∧ RunG V x y ∧
      ls.length ≤ 6 * M.length + 1 ∧ (∀ l ∈ ls, l.actor ∈ M) ∧
      (∀ i, (ls.filter (Lbl.isTimeoutOf i)).length ≤ 2) ∧
      w ∈ M ∧ (y.node w).role = .leader ∧ (∀ i ∈ M, (x.node i).term < (y.node w).term) ∧
      (x.node w).log.entries <+: (y.node w).log.entries ∧ (x.node w).log.entries.length < N ∧
      N ≤ (y.node w).log.entries.length ∧ termAt (y.node w).log.entries N = (y.node w).term ∧
      N ≤ (y.node w).commitIndex ∧ (y.node w).fsm.index = (y.node w).commitIndex ∧
      (∀ i ∈ M, i ≠ w → (y.node i).role = .follower ∧ (y.node i).term = (y.node w).term ∧
        (y.node i).log.entries.take N = (y.node w).log.entries.take N ∧ (y.node i).commitIndex = N ∧
        (y.node i).fsm.index = N) ∧
      (∀ i, i ∉ M → y.node i = x.node i) ∧ (∀ i ∈ M, (y.node i).closed = "") ∧
      (∀ i ∈ M, (y.node i).configs.latest = (x.node i).configs.latest) := by
  obtain ⟨ls, y, w, T, N, ex, ok, pr⟩ := progress_run hV hx M hM hMV hmaj h0 hopen hids
  refine ⟨ls, y, w, N, ex, ex.runG hV hx, ok.len, ok.actors, fun i => ?_, pr.wM, pr.role, ?_, pr.oldLog.1,
    pr.oldLog.2, pr.ownEntry.2.1, by rw [pr.term]; exact pr.ownEntry.2.2, pr.commit, pr.applied, ?_, pr.outside,
    pr.openM, pr.cfgM⟩
  · refine Nat.le_trans (ok.timeouts i) ?_
    split <;> omega
  · intro i hi; rw [pr.term]; exact pr.termGt i hi
  · intro i hi hiw
    obtain ⟨r, t, l, c, f⟩ := pr.followers i hi hiw
    exact ⟨r, by rw [t, pr.term], l, c, f⟩

/-! ### Examples (non-vacuity) -/

/-- example: the hypotheses of both theorems hold in the reachable three-node state `C02Sys.ex1` (node 1 is a
candidate of term 2 that nobody has answered, nodes 2 and 3 are followers of term 1) for the live majority
`M = [2, 3]` — the candidate is NOT part of it — and for `M = [1, 2]`, which contains the stale candidate. -/
example : [1, 2, 3].Nodup ∧ ReachableG [1, 2, 3] C02Sys.ex1 ∧
    (∀ M ∈ [[2, 3], [1, 2]], M.Nodup ∧ (∀ i ∈ M, i ∈ [1, 2, 3]) ∧ 2 * M.length > [1, 2, 3].length ∧
      (∀ i ∈ M, i ≠ 0) ∧ (∀ i ∈ M, (C02Sys.ex1.node i).closed = "") ∧
      (∀ i ∈ M, (C02Sys.ex1.node i).configs.latest.ids.Nodup)) ∧
    (C02Sys.ex1.node 1).role = .candidate ∧ (C02Sys.ex1.node 1).term = 2 ∧ (C02Sys.ex1.node 2).term = 1 := by
  refine ⟨by decide, C19Sys.ex1_reachable, ?_, by decide, by decide, by decide⟩
  decide

/-- example (a reachable state with a STALE LEADER whose log is ahead of a live node's): by
`progress_possible_partial` itself, from the initial state `C02Sys.ex0` the majority `[1, 2]` reaches a state `y`
in which `w ∈ {1, 2}` is leader and has committed its no-op, while node 3 — which took no part — still has the
one-entry log and term 1. In `y` the hypotheses of the theorems hold for the live majority `M = [w, 3]`, which
consists of that (from now on stale) leader and the lagging node 3: the run from `y` deposes `w` (phase A, `newTerm`
report) and elects the node of `M` with the most up-to-date log. -/
example : ∃ (y : Commit.Sys) (w : Nat), ReachableG [1, 2, 3] y ∧ (y.node w).role = .leader ∧ (w = 1 ∨ w = 2) ∧
    (y.node 3).log.entries.length < (y.node w).log.entries.length ∧ (y.node 3).term < (y.node w).term ∧
    [w, 3].Nodup ∧ (∀ i ∈ [w, 3], i ∈ [1, 2, 3]) ∧ 2 * [w, 3].length > [1, 2, 3].length ∧
    (∀ i ∈ [w, 3], i ≠ 0) ∧ (∀ i ∈ [w, 3], (y.node i).closed = "") ∧
    (∀ i ∈ [w, 3], (y.node i).configs.latest.ids.Nodup) := by
  have hV : [1, 2, 3].Nodup := by decide
  obtain ⟨ls, y, w, N, ex, run, _, _, _, hw, hl, _, _, hlt, hN, _, _, _, _, hout, hop, hcfg⟩ :=
    progress_possible_partial [1, 2, 3] hV C02Sys.ex0 C19Sys.ex0_reachable [1, 2] (by decide) (by decide) (by decide)
      (by decide) (by decide) (by decide)
  have hy := run_reachableG C19Sys.ex0_reachable run
  have h3 : y.node 3 = C02Sys.ex0.node 3 := hout 3 (by decide)
  have hw12 : w = 1 ∨ w = 2 := by
    rcases List.mem_cons.mp hw with e | e
    · exact Or.inl e
    · exact Or.inr (List.mem_singleton.mp e)
  have hw3 : w ≠ 3 := by rcases hw12 with e | e <;> (rw [e]; decide)
  have hlen3 : (y.node 3).log.entries.length = 1 := by rw [h3]; rfl
  have hlenw : 1 ≤ (C02Sys.ex0.node w).log.entries.length := by rcases hw12 with e | e <;> (rw [e]; decide)
  obtain ⟨hI, _⟩ := inv_reachable hV (reachableG_V hy)
  have hterm : (y.node 3).term < (y.node w).term := by
    have h1 : (y.node 3).term = 1 := by rw [h3]; rfl
    have h2 : (C02Sys.ex0.node w).term = 1 := by rcases hw12 with e | e <;> (rw [e]; rfl)
    have := ‹∀ i ∈ [1, 2], (C02Sys.ex0.node i).term < (y.node w).term› w hw
    omega
  refine ⟨y, w, hy, hl, hw12, by omega, hterm, ?_, ?_, (by show 2 * 2 > 3; omega), ?_, ?_, ?_⟩
  · exact List.nodup_cons.mpr ⟨by simpa using hw3, by simp⟩
  · intro i hi
    rcases List.mem_cons.mp hi with e | e
    · rcases hw12 with e' | e' <;> (rw [e, e']; decide)
    · rw [List.mem_singleton.mp e]; decide
  · intro i hi
    rcases List.mem_cons.mp hi with e | e
    · rcases hw12 with e' | e' <;> (rw [e, e']; decide)
    · rw [List.mem_singleton.mp e]; decide
  · intro i hi
    rcases List.mem_cons.mp hi with e | e
    · rw [e]; exact hop w hw
    · rw [List.mem_singleton.mp e, h3]; rfl
  · intro i hi
    rcases List.mem_cons.mp hi with e | e
    · rw [e, hcfg w hw]
      rcases hw12 with e' | e' <;> (rw [e']; decide)
    · rw [List.mem_singleton.mp e, h3]; decide

/-- example (`timeout_makes_candidate`): the hypotheses hold for node 2 of `ex0` — a follower, voter of its
bootstrapped configuration of three voters (quorum 2) -/
example : (C02Sys.ex0.node 2).role = .follower ∧ (C02Sys.ex0.node 2).configs.isBootstrapped = true ∧
    (C02Sys.ex0.node 2).configs.latest.isVoter (C02Sys.ex0.node 2).nid = true ∧
    (C02Sys.ex0.node 2).configs.latest.quorum ≠ 1 := by decide

/-- example (`vote_granted_when_uptodate`): the hypotheses hold for node 2 of `ex1` and the vote request of the
candidate 1 (term 2, last entry (1,1)): no leader known, lower term, log not more up to date -/
example : (C02Sys.ex1.node 2).leader = 0 ∧ 2 > (C02Sys.ex1.node 2).term ∧
    ¬ ((C02Sys.ex1.node 2).lastLogTerm > 1 ∨
      ((C02Sys.ex1.node 2).lastLogTerm = 1 ∧ (C02Sys.ex1.node 2).lastLogIndex > 1)) := by decide

/-- example (`majority_of_grants_makes_leader`): the hypotheses hold for the candidate 1 of `ex1` (it needs one
more vote): every one follows from reachability (`Progress.facts`) or by evaluation -/
example : (C02Sys.ex1.node 1).role = .candidate ∧ 2 ≤ (C02Sys.ex1.node 1).term ∧
    (C02Sys.ex1.node 1).votesNeeded - 1 = 0 ∧ NWF (C02Sys.ex1.node 1) ∧ C06.LogWF (C02Sys.ex1.node 1).log ∧
    C05.VoteWF (C02Sys.ex1.node 1) ∧ (C02Sys.ex1.node 1).configs.latest.isStable = true ∧
    (C02Sys.ex1.node 1).configs.latest.isVoter (C02Sys.ex1.node 1).nid = true ∧
    (C02Sys.ex1.node 1).configs.latest.voters.Nodup ∧ 2 ≤ (C02Sys.ex1.node 1).configs.latest.numVoters ∧
    (C02Sys.ex1.node 1).closed = "" := by
  have f := facts (by decide : [1, 2, 3].Nodup) C19Sys.ex1_reachable 1
  exact ⟨by decide, by decide, by decide, f.nwf, f.lwf, f.wf, f.stable, by decide, by decide, by decide, by decide⟩

/-- example (`append_all_entries_accepted`): the hypotheses hold for node 3 of `ex1` and an append request of term 2
from node 1 with previous entry `(1, 1)` and no entries: not stale, the previous entry is held, the step does not
fail (evaluated; in the system this is `C19Sys.reqok_in_sys_partial`) -/
example : ¬ (2 < (C02Sys.ex1.node 3).term) ∧ 1 ≤ (C02Sys.ex1.node 3).log.entries.length ∧
    termAt (C02Sys.ex1.node 3).log.entries 1 = 1 ∧
    ((C02Sys.ex1.node 3).step (.append { term := 2, src := 1, prevLogIndex := 1, prevLogTerm := 1 }) [] []).panicked
      = none := by decide

end C17Sys
end Raft

#print axioms Raft.C17Sys.election_possible_partial -- also C16
#print axioms Raft.C17Sys.progress_possible_partial -- also C16
#print axioms Raft.Progress.election_run
#print axioms Raft.Progress.progress_run
#print axioms Raft.Progress.timeout_makes_candidate
#print axioms Raft.Progress.timeout_candidate_again
#print axioms Raft.Progress.voteResult_newer_term_steps_down
#print axioms Raft.Progress.newTerm_report_steps_down
#print axioms Raft.Progress.vote_granted_when_uptodate
#print axioms Raft.Progress.voteResult_counts
#print axioms Raft.Progress.majority_of_grants_makes_leader
#print axioms Raft.Progress.append_all_entries_accepted
#print axioms Raft.Progress.append_step_frame
#print axioms Raft.Progress.heartbeat_commits_follower
#print axioms Raft.Progress.ack_majority_commits
