/-
C04 (log matching) on the cluster-level transition system WITH membership changes (`Raft.Member`) — the replication
layer of the joint induction, proved from ELECTION SAFETY of the states passed.

`RInv x E` generalises `Replication.Inv V`: every node is well formed and its log is a path in the tree `created`; the
tree holds at most one record per (index, term) (`Uniq`); every request on the wire is a slice of the tree; an entry
created by node `l` has an election record `k ∈ E` for its term with `l` backed by a majority of grants OF THE VOTERS OF
`k.cfg` (instead of a fixed `V`), …
`rinv_reachable`: `RInv` holds in every state reachable by runs whose states satisfy `Side`: every node bootstrapped; no
single-voter configuration (`quorum ≠ 1` — then a node is never elected by its own vote alone, which is the one case
in which the grant ledger of a crashed step is incomplete); and `ESafe`: two election records of one term that are both
backed by a majority of their own configuration name the same candidate (election safety; `esafe_of_overlap`: it
follows from `EInv` when the voter lists of such records are equal or adjacent).
Consequences: `log_matching_member_partial`; and, with NO hypothesis on elections,
`log_matching_one_change_partial`: log matching in every run in which the voters of every node's latest configuration
are `V` or an adjacent `V'` (both with at least two voters).
-/
import RaftVerif.Props.C08Sys

namespace Raft
namespace C04Member
open Node Election LogRel Replication C01 C01Sys Member C01Member QuorumRel C04Sys

/-- election safety of the records: two records of one term, each backed by a majority of grants of the voters of its
own configuration, name the same candidate -/
def ESafe (G : List Grant) (E : List ECfg) : Prop :=
  ∀ k ∈ E, ∀ k' ∈ E, k.term = k'.term → Backed G k.cfg.voters k.cand k.term →
    Backed G k'.cfg.voters k'.cand k'.term → k.cand = k'.cand

/-- it follows from grant uniqueness when the voter lists of backed records of one term are equal or adjacent -/
theorem esafe_of_overlap {G : List Grant} {E : List ECfg} (hu : GrantsUnique G)
    (hov : ∀ k ∈ E, ∀ k' ∈ E, k.term = k'.term → k.cfg.voters.Nodup ∧ k'.cfg.voters.Nodup ∧
      AdjLists k.cfg.voters k'.cfg.voters) : ESafe G E := by
  intro k hk k' hk' ht b b'
  obtain ⟨n1, n2, n3⟩ := hov k hk k' hk' ht
  rw [← ht] at b'
  exact election_safety_adjacent G _ _ n1 n2 n3 hu _ _ _ b b'

/-- **the replication invariant without a fixed voter set** -/
structure RInv (x : Replication.Sys) (E : List ECfg) : Prop where
  el : EInv x.el E
  nodes : ∀ i, NWF (x.el.node i) ∧ Chain x.created none (x.el.node i).log.entries
  uniq : Uniq x.created
  sent : ∀ q ∈ x.sent, ReqOK x.created q
  init0 : ∀ c ∈ x.created, c.cr = 0 → ∀ j, c.e.term ≤ (x.el.node j).term ∧
    ((x.el.node j).role ≠ .follower → c.e.term < (x.el.node j).term)
  own : ∀ c ∈ x.created, c.cr ≠ 0 →
    (∃ k ∈ E, k.cand = c.cr ∧ k.term = c.e.term ∧ Backed x.el.grants k.cfg.voters c.cr c.e.term) ∧
    c.e.term ≤ (x.el.node c.cr).term ∧
    ((x.el.node c.cr).role = .leader → c.e.term = (x.el.node c.cr).term →
      c.e.index ≤ (x.el.node c.cr).lastLogIndex) ∧
    ((x.el.node c.cr).role = .candidate → c.e.term < (x.el.node c.cr).term)

theorem rinv_init (x : Replication.Sys) (h : Replication.Init x) : RInv x [] := by
  refine ⟨einv_init x.el h.el, h.nodes, h.uniq, ?_, ?_, ?_⟩
  · rw [h.sent]; intro q hq; cases hq
  · intro c hc _ j
    exact ⟨h.terms c hc j, fun hr => absurd (h.el.1 j).2.2 hr⟩
  · intro c hc hne; exact absurd (h.cr0 c hc) hne

/-- a node that appends to its own log was elected for the entries' term: it has an election record and is backed by
a majority of grants (already in the ledger before the step) of the voters of that record's configuration — when
its quorum is not one -/
theorem story_backed {x : Replication.Sys} {E : List ECfg} (hI : RInv x E) (i : Nat) (op : Op) (src te : Nat)
    (hq1 : (x.el.node i).configs.latest.quorum ≠ 1)
    (hr : Counts (x.el.node i) op → RealReply x.el i src) (hs : Story (x.el.node i) op te) :
    ∃ k ∈ E, k.cand = i ∧ k.term = te ∧ Backed x.el.grants k.cfg.voters i te := by
  rcases hs with ⟨h, ht⟩ | ⟨h, h0, ht⟩ | ⟨_, hq, _⟩
  · obtain ⟨k, hk, k1, k2, _, k4⟩ := hI.el.backed _ _ (hI.el.recorded i h)
    rw [ht]
    exact ⟨k, hk, k1, k2, k4⟩
  · rw [ht]
    have ok := hI.el.cand i h.1
    obtain ⟨r1, r2, r3, r4⟩ := hr h
    have hnotin : src ∉ votersCounted x.el.counted i (x.el.node i).term :=
      fun hm => r4 ((C01Sys.mem_votersCounted _ _ _ _).mp hm)
    refine ⟨_, ok.recd, rfl, rfl, i :: src :: votersCounted x.el.counted i (x.el.node i).term, ?_, ?_, ?_, ?_⟩
    · refine List.nodup_cons.mpr ⟨?_, List.nodup_cons.mpr ⟨hnotin, ok.nodup⟩⟩
      intro hm
      rcases List.mem_cons.mp hm with hm | hm
      · exact r1 hm.symm
      · exact (ok.real i hm).2.1 rfl
    · intro v hv
      apply C01Sys.isVoter_mem_voters
      rcases List.mem_cons.mp hv with hv | hv
      · subst hv; exact ok.voter
      · rcases List.mem_cons.mp hv with hv | hv
        · subst hv; exact r2
        · exact (ok.real v hv).1
    · have := ok.count
      simp only [List.length_cons]
      omega
    · intro v hv
      rcases List.mem_cons.mp hv with hv | hv
      · subst hv; exact ok.self
      · rcases List.mem_cons.mp hv with hv | hv
        · subst hv; exact r3
        · exact (ok.real v hv).2.2
  · exact absurd hq hq1

/-- Node `i` (state `x.el.node i`) is replaced by `n'` after handling — completely, or until a crash and
restart — the operation `op`. (`C04Sys.Upd` without the clause about the fixed voter set.) -/
structure UpdM (x : Replication.Sys) (i : Nat) (op : Op) (n' : Node) : Prop where
  nwf : NWF n'
  term : (x.el.node i).term ≤ n'.term
  ldr : n'.role = .leader →
    ((x.el.node i).role = .leader ∧ n'.term = (x.el.node i).term ∧
      (x.el.node i).lastLogIndex ≤ n'.lastLogIndex) ∨
    ((x.el.node i).role = .candidate ∧ n'.term = (x.el.node i).term) ∨ (x.el.node i).term < n'.term
  cand : n'.role = .candidate →
    ((x.el.node i).role = .candidate ∧ n'.term = (x.el.node i).term) ∨ (x.el.node i).term < n'.term
  log : ((∃ q, op = .append q) ∧ Chain x.created none n'.log.entries) ∨
    ((∀ q, op ≠ .append q) ∧ (n'.log.entries <+: (x.el.node i).log.entries ∨
      ∃ es te, es ≠ [] ∧ n'.log.entries = (x.el.node i).log.entries ++ es ∧ (∀ e ∈ es, e.term = te) ∧
        te ≤ n'.term ∧ Story (x.el.node i) op te ∧ n'.role ≠ .candidate))

/-- the ledger update of a transition, described uniformly -/
theorem upd_add {x : Replication.Sys} {E : List ECfg} {i : Nat} {op : Op} {n' : Node} (hI : RInv x E)
    (hu : UpdM x i op n') :
    ∃ es te, newCreated i (x.el.node i).log.entries n'.log.entries op =
        chainOf i (lastTerm (x.el.node i).log.entries) es ∧
      Chain (chainOf i (lastTerm (x.el.node i).log.entries) es ++ x.created) none n'.log.entries ∧
      (∀ e ∈ es, e.term = te ∧ (x.el.node i).lastLogIndex < e.index ∧ e.index ≤ n'.lastLogIndex) ∧
      es.Pairwise (fun a b => a.index ≠ b.index) ∧
      (es ≠ [] → te ≤ n'.term ∧ Story (x.el.node i) op te ∧ n'.role ≠ .candidate) := by
  have hpre := hI.nodes i
  rcases hu.log with ⟨⟨q, hq⟩, hc⟩ | ⟨hna, hl⟩
  · subst hq
    exact ⟨[], 0, rfl, hc, (fun e he => by cases he), List.Pairwise.nil, fun h => absurd rfl h⟩
  · rw [newCreated_other _ _ _ _ hna]
    rcases hl with hp | ⟨es, te, hne, he, ht, hle, hs, hnc⟩
    · have : n'.log.entries.drop (x.el.node i).log.entries.length = [] :=
        List.drop_eq_nil_of_le hp.length_le
      rw [this]
      exact ⟨[], 0, rfl, hpre.2.prefix hp, (fun e he => by cases he), List.Pairwise.nil, fun h => absurd rfl h⟩
    · have hd : n'.log.entries.drop (x.el.node i).log.entries.length = es := by
        rw [he, List.drop_left]
      rw [hd]
      obtain ⟨d1, d2⟩ := contig_drop hu.nwf.contig (x.el.node i).log.entries.length
      rw [hd] at d1 d2
      refine ⟨es, te, rfl, ?_, fun e hem => ⟨ht e hem, ?_, ?_⟩, d1, fun _ => ⟨hle, hs, hnc⟩⟩
      · rw [he, chain_append]
        refine ⟨hpre.2.mono (fun c hc => List.mem_append_right _ hc), ?_⟩
        have hch := chain_chainOf i x.created (lastTerm (x.el.node i).log.entries) es _ (fun c hc => hc)
        by_cases hnil : (x.el.node i).log.entries = []
        · rw [hnil] at hch ⊢; exact hch.weaken
        · rw [endO_none_eq _ hnil]; exact hch
      · rw [hpre.1.last]; exact (d2 e hem).1
      · rw [hu.nwf.last]; exact (d2 e hem).2

/-- an entry just created by node `i` cannot collide with one already in the ledger -/
theorem new_old_absurd {x : Replication.Sys} {E : List ECfg} (hI : RInv x E) (hS : ESafe x.el.grants E) (i : Nat)
    (op : Op) (src te : Nat) (hq1 : (x.el.node i).configs.latest.quorum ≠ 1)
    (hr : Counts (x.el.node i) op → RealReply x.el i src)
    (hs : Story (x.el.node i) op te) (a b : CEntry) (hb : b ∈ x.created)
    (hat : a.e.term = te) (hai : (x.el.node i).lastLogIndex < a.e.index)
    (hidx : a.e.index = b.e.index) (hterm : a.e.term = b.e.term) : False := by
  by_cases h0 : b.cr = 0
  · obtain ⟨i1, i2⟩ := hI.init0 b hb h0 i
    rcases hs with ⟨h, ht⟩ | ⟨h, _, ht⟩ | ⟨hgt, _, _⟩
    · have := i2 (by rw [h]; decide); omega
    · have := i2 (by rw [h.1]; decide); omega
    · omega
  · obtain ⟨⟨kb, hkb, b1, b2, b3⟩, o3, o4, o5⟩ := hI.own b hb h0
    obtain ⟨ki, hki, i1, i2, i3⟩ := story_backed hI i op src te hq1 hr hs
    have hli : b.cr = i := by
      have := hS kb hkb ki hki (by rw [b2, i2, ← hterm, hat]) (by rw [b1, b2]; exact b3) (by rw [i1, i2]; exact i3)
      rw [b1, i1] at this
      exact this
    rw [hli] at o3 o4 o5
    rcases hs with ⟨h, ht⟩ | ⟨h, _, ht⟩ | ⟨hgt, _, _⟩
    · have := o4 h (by omega); omega
    · have := o5 h.1; omega
    · omega

/-- **a transition of one node preserves the invariant** when the node update satisfies `UpdM`, the election part
of the new state satisfies the election invariant and no grant or election record was lost -/
theorem rinv_upd {x : Replication.Sys} {E : List ECfg} (hI : RInv x E) (hS : ESafe x.el.grants E) (i : Nat) (op : Op)
    (src : Nat) (n' : Node) (hi : i ≠ 0) (hq1 : (x.el.node i).configs.latest.quorum ≠ 1)
    (hr : Counts (x.el.node i) op → RealReply x.el i src)
    (hu : UpdM x i op n') (el' : Election.Sys) (E' : List ECfg) (hnode : el'.node = setNode x.el.node i n')
    (hgr : ∀ g ∈ x.el.grants, g ∈ el'.grants) (hE : ∀ k ∈ E, k ∈ E') (hel : EInv el' E') :
    RInv { el := el', sent := x.sent,
           created := newCreated i (x.el.node i).log.entries n'.log.entries op ++ x.created } E' := by
  obtain ⟨es, te, hadd, hchain, hes, hpw, hstory⟩ := upd_add hI hu
  rw [hadd]
  have hni : el'.node i = n' := by rw [hnode, setNode_same]
  have hnj : ∀ j, j ≠ i → el'.node j = x.el.node j := fun j hj => by rw [hnode, setNode_other _ _ _ _ hj]
  have hsub : ∀ c ∈ x.created, c ∈ chainOf i (lastTerm (x.el.node i).log.entries) es ++ x.created :=
    fun c hc => List.mem_append_right _ hc
  have hne : ∀ c ∈ chainOf i (lastTerm (x.el.node i).log.entries) es, es ≠ [] :=
    fun c hc he => by rw [he] at hc; cases hc
  refine ⟨hel, fun j => ?_, fun a ha b hb hidx hterm => ?_, fun q hq => reqOK_mono hsub (hI.sent q hq),
    fun c hc hc0 j => ?_, fun c hc hc0 => ?_⟩
  · -- nodes
    show NWF (el'.node j) ∧ Chain _ none (el'.node j).log.entries
    by_cases hj : j = i
    · subst hj; rw [hni]; exact ⟨hu.nwf, hchain⟩
    · rw [hnj j hj]; exact ⟨(hI.nodes j).1, (hI.nodes j).2.mono hsub⟩
  · -- uniq
    rcases List.mem_append.mp ha with ha | ha <;> rcases List.mem_append.mp hb with hb | hb
    · exact chainOf_inj i _ es hpw a ha b hb hidx
    · exfalso
      obtain ⟨_, hae⟩ := mem_chainOf ha
      obtain ⟨t1, t2, _⟩ := hes _ hae
      exact new_old_absurd hI hS i op src te hq1 hr (hstory (hne a ha)).2.1 a b hb t1 t2 hidx hterm
    · exfalso
      obtain ⟨_, hbe⟩ := mem_chainOf hb
      obtain ⟨t1, t2, _⟩ := hes _ hbe
      exact new_old_absurd hI hS i op src te hq1 hr (hstory (hne b hb)).2.1 b a ha t1 t2 hidx.symm hterm.symm
    · exact hI.uniq a ha b hb hidx hterm
  · -- initial entries
    show c.e.term ≤ (el'.node j).term ∧ ((el'.node j).role ≠ .follower → c.e.term < (el'.node j).term)
    rcases List.mem_append.mp hc with hc | hc
    · exact absurd ((mem_chainOf hc).1.symm.trans hc0) hi
    · obtain ⟨i1, i2⟩ := hI.init0 c hc hc0 j
      by_cases hji : j = i
      · subst hji
        rw [hni]
        refine ⟨Nat.le_trans i1 hu.term, fun hrole => ?_⟩
        have ht := hu.term
        cases hr' : n'.role with
        | follower => exact absurd hr' hrole
        | leader =>
          rcases hu.ldr hr' with ⟨a, b, _⟩ | ⟨a, b⟩ | a
          · have := i2 (by rw [a]; decide); omega
          · have := i2 (by rw [a]; decide); omega
          · omega
        | candidate =>
          rcases hu.cand hr' with ⟨a, b⟩ | a
          · have := i2 (by rw [a]; decide); omega
          · omega
      · rw [hnj j hji]; exact ⟨i1, i2⟩
  · -- created entries
    show (∃ k ∈ E', k.cand = c.cr ∧ k.term = c.e.term ∧ Backed el'.grants k.cfg.voters c.cr c.e.term) ∧
      c.e.term ≤ (el'.node c.cr).term ∧
      ((el'.node c.cr).role = .leader → c.e.term = (el'.node c.cr).term → c.e.index ≤ (el'.node c.cr).lastLogIndex) ∧
      ((el'.node c.cr).role = .candidate → c.e.term < (el'.node c.cr).term)
    rcases List.mem_append.mp hc with hc | hc
    · obtain ⟨hcr, hce⟩ := mem_chainOf hc
      obtain ⟨t1, _, t3⟩ := hes _ hce
      obtain ⟨s1, s2, s3⟩ := hstory (hne c hc)
      obtain ⟨k, hk, k1, k2, k3⟩ := story_backed hI i op src te hq1 hr s2
      rw [hcr, hni, t1]
      exact ⟨⟨k, hE k hk, k1, k2, C01Sys.backed_mono hgr k3⟩, s1, fun _ _ => t3, fun h => absurd h s3⟩
    · obtain ⟨⟨k, hk, k1, k2, k3⟩, o3, o4, o5⟩ := hI.own c hc hc0
      refine ⟨⟨k, hE k hk, k1, k2, C01Sys.backed_mono hgr k3⟩, ?_⟩
      by_cases hji : c.cr = i
      · rw [hji] at o3 o4 o5 ⊢
        rw [hni]
        have ht := hu.term
        refine ⟨Nat.le_trans o3 ht, fun hl heq => ?_, fun hcd => ?_⟩
        · rcases hu.ldr hl with ⟨a, b, d⟩ | ⟨a, b⟩ | a
          · exact Nat.le_trans (o4 a (by omega)) d
          · have := o5 a; omega
          · omega
        · rcases hu.cand hcd with ⟨a, b⟩ | a
          · have := o5 a; omega
          · omega
      · rw [hnj _ hji]; exact ⟨o3, o4, o5⟩

/-! ### a completed step -/

theorem enabled_req {x : Replication.Sys} {E : List ECfg} (hI : RInv x E) {i : Nat} {q : AppendReq} {src : Nat}
    (he : Replication.Enabled x i (.append q) src) : q.term < (x.el.node i).term ∨ ReqOK x.created q :=
  (he.append q rfl).imp id (fun h => hI.sent q h)

theorem upd_step {x : Replication.Sys} {E : List ECfg} (hI : RInv x E)
    (i : Nat) (hboot : (x.el.node i).configs.isBootstrapped = true) (op : Op)
    (ra : List Nat) (ord : List (List Nat)) (src : Nat) (he : Replication.Enabled x i op src) :
    UpdM x i op ((x.el.node i).step op ra ord) := by
  have hwf := (hI.el.ids i).2
  have hc : (x.el.node i).role = .candidate → (x.el.node i).term ≠ 0 := fun h => (hI.el.cand i h).term_pos
  have rs := role_step (x.el.node i) op ra ord hc
  obtain ⟨hvs, _, _⟩ := C05.step_vote_stable (x.el.node i) op ra ord hwf
  -- the log part
  have hlog : NWF ((x.el.node i).step op ra ord) ∧
      (((x.el.node i).step op ra ord).role = .leader →
        (x.el.node i).lastLogIndex ≤ ((x.el.node i).step op ra ord).lastLogIndex) ∧
      (((∃ q, op = .append q) ∧ Chain x.created none ((x.el.node i).step op ra ord).log.entries) ∨
       ((∀ q, op ≠ .append q) ∧ (((x.el.node i).step op ra ord).log.entries <+: (x.el.node i).log.entries ∨
         ∃ es te, es ≠ [] ∧ ((x.el.node i).step op ra ord).log.entries = (x.el.node i).log.entries ++ es ∧
           (∀ e ∈ es, e.term = te) ∧ te ≤ ((x.el.node i).step op ra ord).term ∧
           Story (x.el.node i) op te ∧ ((x.el.node i).step op ra ord).role ≠ .candidate))) := by
    by_cases happ : ∃ q, op = .append q
    · obtain ⟨q, hq⟩ := happ
      subst hq
      have fi := follower_step (T := x.created) (x.el.node i) q ra ord (hI.nodes i).1 (hI.nodes i).2
        (enabled_req hI he)
      refine ⟨fi.nwf, fun hl => ?_, Or.inl ⟨⟨q, rfl⟩, fi.chain⟩⟩
      by_cases hst : q.term < (x.el.node i).term
      · have e := (append_step_stale (x.el.node i) q ra ord hst).1
        unfold LCore at e
        simp only [Prod.mk.injEq] at e
        rw [e.2.1]; exact Nat.le_refl _
      · rw [append_step_role (x.el.node i) q ra ord hst] at hl; cases hl
    · have hna : ∀ q, op ≠ .append q := fun q hq => happ ⟨q, hq⟩
      have ls := leader_step (x.el.node i) op ra ord (hI.nodes i).1 hwf hboot he.ok hna hc
      obtain ⟨es, te, h1, h2, h3, h4, _⟩ := ls.ext
      refine ⟨ls.nwf, fun _ => ?_, Or.inr ⟨hna, ?_⟩⟩
      · rw [ls.nwf.last, (hI.nodes i).1.last, h1, List.length_append]; omega
      · by_cases hes : es = []
        · left; rw [h1, hes, List.append_nil]; exact List.prefix_refl _
        · right; exact ⟨es, te, hes, h1, h2, h3, (h4 hes).1, (h4 hes).2⟩
  obtain ⟨l1, l2, l3⟩ := hlog
  refine ⟨l1, hvs.1, fun hl => ?_, fun hcd => ?_, l3⟩
  · rcases rs.leader hl with ⟨a, b⟩ | ⟨a, _, b⟩ | ne
    · exact Or.inl ⟨a, b, l2 hl⟩
    · exact Or.inr (Or.inl ⟨a.1, b⟩)
    · exact Or.inr (Or.inr ne.term_gt)
  · rcases rs.candidate hcd with ⟨a, b, _⟩ | ne
    · exact Or.inl ⟨a, b⟩
    · exact Or.inr ne.term_gt

/-! ### a crash during a step, and the restart -/

theorem upd_crash {x : Replication.Sys} {E : List ECfg} (hI : RInv x E)
    (i : Nat) (hboot : (x.el.node i).configs.isBootstrapped = true) (op : Op)
    (ra : List Nat) (ord : List (List Nat)) (src k retain : Nat) (sor : Bool) (n : Node)
    (he : Replication.Enabled x i op src)
    (hn : Node.restart (C05.crashDisk (x.el.node i) op ra ord k) retain sor = some n) :
    UpdM x i op n := by
  have hwf := (hI.el.ids i).2
  have hc : (x.el.node i).role = .candidate → (x.el.node i).term ≠ 0 := fun h => (hI.el.cand i h).term_pos
  obtain ⟨_, hwf', _⟩ := C05.step_vote_stable (x.el.node i) op ra ord hwf
  obtain ⟨r1, _, _⟩ := C05.restart_reads_durable _ _ _ _ hn
  have hdur := Election.crashDisk_durStep (x.el.node i) op ra ord k hwf
  have hcases := crashDisk_cases (x.el.node i) op ra ord k
  generalize C05.crashDisk (x.el.node i) op ra ord k = d at hn r1 hdur hcases
  -- the disk
  have hdisk : d.snaps = [] ∧ d.log.prev = 0 ∧ Contig d.log.entries ∧
      (((∃ q, op = .append q) ∧ Chain x.created none d.log.entries) ∨
       ((∀ q, op ≠ .append q) ∧ (d.log.entries <+: (x.el.node i).log.entries ∨
         ∃ es te, es ≠ [] ∧ d.log.entries = (x.el.node i).log.entries ++ es ∧ (∀ e ∈ es, e.term = te) ∧
           te ≤ d.term ∧ Story (x.el.node i) op te))) := by
    by_cases happ : ∃ q, op = .append q
    · obtain ⟨q, hq⟩ := happ
      subst hq
      have fi := follower_step (T := x.created) (x.el.node i) q ra ord (hI.nodes i).1 (hI.nodes i).2
        (enabled_req hI he)
      have hd : DiskOK x.created d := by
        rcases hcases with hd | ⟨p, hp, hd⟩ | hd
        · rw [hd]; exact diskOK_durable (hI.nodes i).1 (hI.nodes i).2
        · rw [hd]; exact fi.tr p hp
        · rw [hd]; exact diskOK_durable fi.nwf fi.chain
      exact ⟨hd.1, hd.2.1, hd.2.2.2, Or.inl ⟨⟨q, rfl⟩, hd.2.2.1⟩⟩
    · have hna : ∀ q, op ≠ .append q := fun q hq => happ ⟨q, hq⟩
      have ls := leader_step (x.el.node i) op ra ord (hI.nodes i).1 hwf hboot he.ok hna hc
      obtain ⟨a, b, c, e⟩ := crash_disk_other (hI.nodes i).1 hwf' ls d hcases
      exact ⟨a, b, c, Or.inr ⟨hna, e⟩⟩
  obtain ⟨d1, d2, d3, d4⟩ := hdisk
  obtain ⟨n1, n2, n3, _⟩ := restart_nwf d retain sor n hn d1 d2 d3
  have hnl : n.role = .leader → False := fun hl => by rw [n3] at hl; cases hl
  have hnc : n.role = .candidate → False := fun hl => by rw [n3] at hl; cases hl
  refine ⟨n1, (by rw [r1]; exact hdur.1), fun hl => (hnl hl).elim, fun hl => (hnc hl).elim, ?_⟩
  rw [n2]
  rcases d4 with ⟨a, b⟩ | ⟨a, b⟩
  · exact Or.inl ⟨a, b⟩
  · refine Or.inr ⟨a, b.imp id ?_⟩
    rintro ⟨es, te, e1, e2, e3, e4, e5⟩
    exact ⟨es, te, e1, e2, e3, (by rw [r1]; exact e4), e5, (by rw [n3]; decide)⟩

/-! ### the invariant in every reachable state -/

theorem rinv_send {x : Replication.Sys} {E : List ECfg} (hI : RInv x E) (i : Nat) (q : AppendReq)
    (hr : ReadFrom (x.el.node i) q) : RInv { x with sent := q :: x.sent } E := by
  refine ⟨hI.el, hI.nodes, hI.uniq, fun q' hq' => ?_, hI.init0, hI.own⟩
  rcases List.mem_cons.mp hq' with h | h
  · subst h; exact readFrom_reqOK (hI.nodes i).1 (hI.nodes i).2 hr
  · exact hI.sent q' h

/-- side condition on the states of a run: every node is bootstrapped, no node's latest configuration has a quorum
of one, and the election records are safe (`ESafe`) -/
def Side (x : Member.Sys) : Prop :=
  Boot x ∧ (∀ i, (x.node i).configs.latest.quorum ≠ 1) ∧ ESafe x.el.grants x.ecfg

/-- **the replication invariant holds in every reachable state of the system with membership changes** whose run
satisfies `Side` -/
theorem rinv_reachable (x : Member.Sys) (h : ReachableP Side x) : RInv x.cm.rp x.ecfg := by
  induction h with
  | init x hi _ =>
    rw [hi.ecfg]
    exact rinv_init x.cm.rp hi.cm.rp
  | next x y hx ht _ ih =>
    obtain ⟨hb, hq, hS⟩ := hx.side
    cases ht with
    | step i op ra ord src he =>
      exact rinv_upd ih hS i op src _ he.rp.id (hq i) he.rp.real (upd_step ih i (hb i) op ra ord src he.rp)
        (stepSys x.cm.rp.el i op ra ord src) _ rfl
        (fun g hg => List.mem_append_right _ (List.mem_append_right _ hg))
        (fun k hk => List.mem_append_right _ hk)
        (einv_step x.cm.rp.el x.ecfg ih.el i op ra ord src he.rp.id (hb i) he.rp.ok he.rp.voteSrc he.rp.real)
    | crash i op ra ord src k retain sor n he hn =>
      exact rinv_upd ih hS i op src n he.rp.id (hq i) he.rp.real
        (upd_crash ih i (hb i) op ra ord src k retain sor n he.rp hn)
        { x.cm.rp.el with node := setNode x.cm.rp.el.node i n } _ rfl (fun g hg => hg)
        (fun k hk => List.mem_append_right _ hk)
        (einv_crash x.cm.rp.el x.ecfg ih.el i op ra ord k retain sor n hn)
    | send i q _ _ hr _ => exact rinv_send ih i q hr

/-! ### the theorems -/

theorem log_seg {x : Replication.Sys} {E : List ECfg} (hI : RInv x E) (i : Nat) :
    Seg x.created 0 none (x.el.node i).log.entries :=
  ⟨(hI.nodes i).2, fun k h => by rw [(hI.nodes i).1.contig k h]; omega⟩

theorem log_get {x : Replication.Sys} {E : List ECfg} (hI : RInv x E) (i k : Nat) :
    (x.el.node i).log.get? k = segGet 0 (x.el.node i).log.entries k := by
  rw [(hI.nodes i).1.get?]
  unfold segGet
  rw [Nat.sub_zero]

/-- **C04, log matching, cluster level, WITH membership changes (partial).** Let `x` be any state of `Member`
(Sys/Member.lean: any node handling any enabled operation — `.changeConfig` requests and configuration entries
included —, crashes at any storage point and restarts, leaders sending append requests read from their logs; no
snapshots) reachable by runs whose states satisfy `Side`: every node is bootstrapped, no latest configuration has a
quorum of one, and **election safety of the election records holds in every state of the run** (`ESafe`: the
`_partial` restriction — it is what `esafe_of_overlap` derives when the configurations of one term's elections are
equal or adjacent). Then:
1. if the logs of nodes `i` and `j` hold entries with the same term at index `k`, then at every index `k' ≤ k` that
   both logs hold they hold the SAME entry — index, term, type, payload and configuration;
2. the tree of created entries holds at most one record per (index, term), and every log entry and every entry of a
   request on the wire is recorded in it. -/
theorem log_matching_member_partial (x : Member.Sys) (h : ReachableP Side x) :
    (∀ (i j k : Nat) (a b : Entry), (x.node i).log.get? k = some a → (x.node j).log.get? k = some b →
      a.term = b.term → ∀ k', k' ≤ k → ∀ a' b', (x.node i).log.get? k' = some a' → (x.node j).log.get? k' = some b' →
        a' = b') ∧
    Uniq x.cm.T ∧
    (∀ i k e, (x.node i).log.get? k = some e → ∃ c ∈ x.cm.T, c.e = e) ∧
    (∀ q ∈ x.cm.rp.sent, ReqOK x.cm.T q) := by
  have hI := rinv_reachable x h
  refine ⟨fun i j k a b ha hb ht k' hk a' b' ha' hb' => ?_, hI.uniq, fun i k e he => ?_, hI.sent⟩
  · have e1 : (x.node i).log.get? k = segGet 0 (x.node i).log.entries k := log_get hI i k
    have e2 : (x.node j).log.get? k = segGet 0 (x.node j).log.entries k := log_get hI j k
    have e3 : (x.node i).log.get? k' = segGet 0 (x.node i).log.entries k' := log_get hI i k'
    have e4 : (x.node j).log.get? k' = segGet 0 (x.node j).log.entries k' := log_get hI j k'
    rw [e1] at ha; rw [e2] at hb; rw [e3] at ha'; rw [e4] at hb'
    exact seg_match hI.uniq (log_seg hI i) (log_seg hI j) (k - k') k k' (by omega) a b ha hb ht a' b' ha' hb'
  · have e1 : (x.node i).log.get? k = _ := (hI.nodes i).1.get? k
    rw [e1] at he
    split at he
    · exact chain_mem (hI.nodes i).2 e (List.mem_of_getElem? he)
    · cases he

/-! ### one change of the voter set: no hypothesis on elections -/

/-- `TwoV` runs with at least two voters on either side satisfy `Side` -/
theorem side_of_twoV {V V' : List Nat} (hV : V.Nodup) (hV' : V'.Nodup) (hadj : AdjLists V V') (h2 : 2 ≤ V.length)
    (h2' : 2 ≤ V'.length) (x : Member.Sys) (h : ReachableP (C08Sys.TwoV V V') x) : Side x := by
  have hb : ReachableP Boot x := h.mono (fun _ hp => hp.1)
  have hI := einv_reachable x hb
  have hcf := C08Sys.ecfg_twoV x h
  refine ⟨h.side.1, fun i => ?_, esafe_of_overlap hI.unique (fun k hk k' hk' _ => ?_)⟩
  · rw [quorum_eq]
    rcases h.side.2 i with e | e <;> rw [e] <;> omega
  · rcases hcf k hk with e | e <;> rcases hcf k' hk' with e' | e' <;> rw [e, e']
    · exact ⟨hV, hV, AdjLists.refl V⟩
    · exact ⟨hV, hV', hadj⟩
    · exact ⟨hV', hV, hadj.symm⟩
    · exact ⟨hV', hV', AdjLists.refl V'⟩

theorem reachable_side_of_twoV {V V' : List Nat} (hV : V.Nodup) (hV' : V'.Nodup) (hadj : AdjLists V V')
    (h2 : 2 ≤ V.length) (h2' : 2 ≤ V'.length) (x : Member.Sys) (h : ReachableP (C08Sys.TwoV V V') x) :
    ReachableP Side x := by
  induction h with
  | init x hi hp => exact .init x hi (side_of_twoV hV hV' hadj h2 h2' x (.init x hi hp))
  | next x y hx ht hp ih => exact .next x y ih ht (side_of_twoV hV hV' hadj h2 h2' y (.next x y hx ht hp))

/-- **C04 across one membership change (no hypothesis on elections).** Let `V`, `V'` be duplicate-free voter lists
with at least two voters each that differ by at most one id. In every state of `Member` reachable by runs in which
every node is bootstrapped and the voters of every node's latest configuration are `V` or `V'` in every state (the
voter set changes from `V` to `V'` or back, at any time, node by node; any number of non-voter changes, crashes,
restarts): logs that hold entries of the same term at an index hold the same entries up to that index, and the tree
of created entries holds at most one record per (index, term). (`V' = V`: `C04Sys.log_matching_sys_partial`, there
without the two-voter restriction.) -/
theorem log_matching_one_change_partial (V V' : List Nat) (hV : V.Nodup) (hV' : V'.Nodup) (hadj : AdjLists V V')
    (h2 : 2 ≤ V.length) (h2' : 2 ≤ V'.length) (x : Member.Sys) (h : ReachableP (C08Sys.TwoV V V') x) :
    (∀ (i j k : Nat) (a b : Entry), (x.node i).log.get? k = some a → (x.node j).log.get? k = some b →
      a.term = b.term → ∀ k', k' ≤ k → ∀ a' b', (x.node i).log.get? k' = some a' → (x.node j).log.get? k' = some b' →
        a' = b') ∧
    Uniq x.cm.T :=
  let r := log_matching_member_partial x (reachable_side_of_twoV hV hV' hadj h2 h2' x h)
  ⟨r.1, r.2.1⟩

/-- EXAMPLE: the hypotheses of `log_matching_one_change_partial` (and hence `Side` in every state of the run,
`reachable_side_of_twoV`) hold for the reachable state `C08Sys.ex1` — node 1 is candidate of term 2 — with
`V = {1,2,3}` and `V' = {1,2,3,4}`, the voter sets before and after the promotion of node 4 in the scenario of
`C08Sys` -/
example : ReachableP Side C08Sys.ex1 ∧ Uniq C08Sys.ex1.cm.T :=
  have h := C08Sys.ex1_twoV
  ⟨reachable_side_of_twoV h.1 h.2.1 h.2.2.1 (by decide) (by decide) _ h.2.2.2,
   (log_matching_one_change_partial _ _ h.1 h.2.1 h.2.2.1 (by decide) (by decide) _ h.2.2.2).2⟩

end C04Member
end Raft

#print axioms Raft.C04Member.rinv_reachable
#print axioms Raft.C04Member.log_matching_member_partial
#print axioms Raft.C04Member.log_matching_one_change_partial
