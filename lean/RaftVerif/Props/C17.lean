/-
C17 — Availability and leader stability when a majority is healthy (the logic a theorem can carry;
real timers, bandwidth deadlines and "within a bounded number of election timeouts" are runtime
behaviour no model exhibits — see DESIGN.md).
-/
import RaftVerif.Lemmas.Majority
import RaftVerif.Lemmas.StepInv
import RaftVerif.Lemmas.ReplSteps

namespace Raft
namespace C17
open Node

/-- **disruptive vote requests are refused** (second sentence of the property; all inputs): while a
follower knows a leader, a vote request without the transfer permission from any OTHER node is answered
`leaderKnown` and changes nothing — neither the vote nor the term. -/
theorem disruptive_vote_refused (s : Node) (q : VoteReq)
    (hl : s.leader ≠ 0) (ht : q.transfer = false) (hsrc : q.src ≠ s.leader) :
    s.onVoteRequest q = s.ret rLeaderKnown := by
  unfold Node.onVoteRequest
  rw [if_pos (by simp [ht, hl, hsrc])]

theorem disruptive_vote_keeps_term_and_vote (s : Node) (q : VoteReq)
    (hl : s.leader ≠ 0) (ht : q.transfer = false) (hsrc : q.src ≠ s.leader) :
    (s.onVoteRequest q).term = s.term ∧ (s.onVoteRequest q).votedFor = s.votedFor ∧
    (s.onVoteRequest q).durTerm = s.durTerm ∧ (s.onVoteRequest q).role = s.role ∧
    (s.onVoteRequest q).result = rLeaderKnown := by
  rw [disruptive_vote_refused s q hl ht hsrc]
  exact ⟨rfl, rfl, rfl, rfl, rfl⟩

/-- **the election timer is reset exactly** on requests from a leader (append, install-snapshot,
timeout-now always report `resetTimer`) and on GRANTED votes. -/
theorem timer_reset_rule (x : Node) (isVote isAppend : Bool) (r : RpcReply)
    (h : (x.rpcDone isVote isAppend).rpcReply = some r) :
    r.resetTimer = (!isVote || x.result == rSuccess) := by
  rw [Node.rpcDone_reply] at h
  injection h with h
  rw [← h]; rfl

/-- a refused (non-granted) vote request does not reset the election timer -/
theorem refused_vote_no_timer_reset (x : Node) (r : RpcReply) (hne : x.result ≠ rSuccess)
    (h : (x.rpcDone true false).rpcReply = some r) : r.resetTimer = false := by
  rw [timer_reset_rule x true false r h]
  simp [hne]

/-- **commit is not stuck behind the caches** (general path): when more than half of the voters of the
latest configuration have acknowledged `N`, the leader's `majorityMatchIndex` is at least `N`;
hence with `N` above the commit index and `N ≥ startIndex`, `onMajorityCommit` advances. -/
theorem majority_commits (s : Node) (N : Nat)
    (hfast : ¬ (s.ldr.numVoters = 1 ∧ s.ldr.node.voter = true))
    (hmaj : 2 * (s.voterMatches.countP (fun m => decide (m ≥ N))) > s.voterMatches.length) :
    s.majorityMatchIndex.1 ≥ N := by
  unfold Node.majorityMatchIndex
  rw [if_neg hfast]
  show ((s.voterMatches.mergeSort geB)[s.voterMatches.length / 2 + 1 - 1]?).getD 0 ≥ N
  rw [Nat.add_sub_cancel]
  exact selected_ge_of_majority s.voterMatches N hmaj

/-- `onMajorityCommit` moves the commit index whenever the selected index is above it and in the
leader's term (`≥ startIndex`): the first thing it then does is `setCommitIndexL`. -/
theorem onMajorityCommit_advances (fuel : Nat) (s : Node)
    (h1 : s.majorityMatchIndex.2 = true)
    (h2 : s.majorityMatchIndex.1 > s.commitIndex) (h3 : s.majorityMatchIndex.1 ≥ s.ldr.startIndex) :
    onMajorityCommit (fuel + 1) s =
      ((setCommitIndexL fuel s s.majorityMatchIndex.1).applyCommittedL).notifyFlr := by
  unfold onMajorityCommit
  dsimp only
  rw [if_pos h1, if_pos ⟨h2, h3⟩]

/-- the single-voter case: a leader that is the only voter commits what it appends in the same step -/
theorem single_voter_commits (s : Node) (h : s.ldr.numVoters = 1 ∧ s.ldr.node.voter = true) :
    s.majorityMatchIndex = (s.lastLogIndex, true) := by
  unfold Node.majorityMatchIndex; rw [if_pos h]

/-- a follower with a known leader that times out forgets the leader and becomes candidate iff it may
vote: elections are possible exactly for voters of a bootstrapped configuration -/
theorem follower_timeout_starts_election (s : Node) (h : s.canStartElection = true) :
    s.followerTimeout.role = .candidate ∧ s.followerTimeout.leader = 0 := by
  unfold Node.followerTimeout
  dsimp only
  have : (s.setLeader 0).canStartElection = true := h
  rw [if_pos this]
  exact ⟨rfl, rfl⟩

end C17
end Raft

#print axioms Raft.C17.disruptive_vote_refused
#print axioms Raft.C17.disruptive_vote_keeps_term_and_vote
#print axioms Raft.C17.timer_reset_rule
#print axioms Raft.C17.refused_vote_no_timer_reset
#print axioms Raft.C17.majority_commits
#print axioms Raft.C17.onMajorityCommit_advances
#print axioms Raft.C17.single_voter_commits
#print axioms Raft.C17.follower_timeout_starts_election
#print axioms Raft.selected_ge_of_majority
#print axioms Raft.Repl.probe_decreases
#print axioms Raft.Repl.faulty_follower_detected
#print axioms Raft.Repl.match_index_sound
