/-
C02 (leader completeness, committed entries are never replaced) on the cluster-level transition system
`Raft.Commit` (Sys/Commit.lean) — fixed voter set, fixed stable configuration, no snapshots / compaction (the
`_partial` restrictions, see the header of Sys/Commit.lean).

Structure of the file:
* facts that follow from the invariant `Commit.CInv` in one state;
* `NewE`: what is known about the entries a node appends to its OWN log in a completed step or in a crash +
  restart, and the heart of the argument, `NewE.lc_core` / `NewE.lc_new`: a new entry of an elected leader
  descends from every committed entry (quorum intersection of the commit's acknowledgers with the electors, the
  up-to-date check seen from the tree, induction on the term);
* `SC` (a completed step) / `CC` (a crash + restart) / `cinv_send`: the invariant is preserved, group by group
  (`treeI`, `nodeI`, `sentI`, `ackI`, `voteI`, `cmtI`);
* `inv_reachable` and the obligation theorems `leader_completeness_sys_partial`,
  `leader_completeness_ever_partial`, `committed_never_replaced_sys_partial`, `reqok_in_sys_partial`;
* examples.
Everything is proved for every state of `Commit.ReachableV V` (`V` duplicate free); no hypothesis on the
schedule, on crashes or on the network beyond the enabling conditions of `Commit.Trans`.
-/
import RaftVerif.Sys.Commit
import RaftVerif.Props.C19Order

namespace Raft
namespace C02Sys
open Node LogRel CommitRel Commit C01
open Replication (Uniq ReadFrom newCreated chainOf)
open Election (FixedV RealReply setNode stepSys votersCounted setNode_same setNode_other)

/-! ### facts that follow from the invariant in one state -/

section derived
variable {V : List Nat} {x : Commit.Sys}

theorem nwf (hI : CInv V x) (i : Nat) : NWF (x.node i) := (hI.rp.nodes i).1

/-- every log is a root path of the tree -/
theorem log_path (hI : CInv V x) (i : Nat) : Path x.T (x.node i).log.entries :=
  ⟨(hI.rp.nodes i).2, (hI.rp.nodes i).1.contig⟩

theorem uniq (hI : CInv V x) : Uniq x.T := hI.rp.uniq

/-- a key the log holds is a record of the tree -/
theorem log_record (hI : CInv V x) (i : Nat) {k τ : Nat} (h : Holds (x.node i).log.entries k τ) :
    ∃ c ∈ x.T, key c = (k, τ) := by
  obtain ⟨c, hc, h1, h2, _⟩ := path_record (log_path hI i) h
  exact ⟨c, hc, by unfold key; rw [h1, h2]⟩

/-- what a log holds, it holds as ancestors of what it holds later -/
theorem log_anc (hI : CInv V x) (i : Nat) {a c : Nat × Nat} (ha : Holds (x.node i).log.entries a.1 a.2)
    (hc : Holds (x.node i).log.entries c.1 c.2) (h : a.1 ≤ c.1) : Anc x.T a c :=
  anc_of_path (log_path hI i) ha hc h

/-- a log that holds `c` holds its ancestors -/
theorem log_holds_anc (hI : CInv V x) (i : Nat) {a c : Nat × Nat} (h : Anc x.T a c)
    (hc : Holds (x.node i).log.entries c.1 c.2) : Holds (x.node i).log.entries a.1 a.2 :=
  h.on_path (uniq hI) (log_path hI i) hc

/-- the record of a key is unique -/
theorem key_inj (hI : CInv V x) {c d : CEntry} (hc : c ∈ x.T) (hd : d ∈ x.T) (h : key c = key d) : c = d := by
  unfold key at h
  simp only [Prod.mk.injEq] at h
  exact uniq hI c hc d hd h.1 h.2

/-- all entries of one term that a node created were created by one node -/
theorem one_creator (hV : V.Nodup) (hI : CInv V x) {c d : CEntry} (hc : c ∈ x.T) (hd : d ∈ x.T)
    (hc0 : c.cr ≠ 0) (hd0 : d.cr ≠ 0) (ht : c.e.term = d.e.term) : c.cr = d.cr := by
  obtain ⟨a1, a2, _⟩ := hI.rp.own c hc hc0
  obtain ⟨b1, b2, _⟩ := hI.rp.own d hd hd0
  rcases a2 with q | a2
  · exact C04Sys.mem_of_short q a1 b1
  · rcases b2 with q | b2
    · exact C04Sys.mem_of_short q a1 b1
    · rw [ht] at a2
      exact election_safety_partial x.rp.el.grants V hV hI.rp.el.unique _ _ _ a2 b2

/-- an entry of a term in which `l ∈ V` was (recorded as) leader was created by `l` -/
theorem creator_of_won (hV : V.Nodup) (hI : CInv V x) {l t : Nat} (hl : l ∈ V) (hw : (l, t) ∈ x.rp.el.won)
    {c : CEntry} (hc : c ∈ x.T) (hc0 : c.cr ≠ 0) (ht : c.e.term = t) : c.cr = l := by
  obtain ⟨a1, a2, _⟩ := hI.rp.own c hc hc0
  rcases a2 with q | a2
  · exact C04Sys.mem_of_short q a1 hl
  · rw [ht] at a2
    exact election_safety_partial x.rp.el.grants V hV hI.rp.el.unique _ _ _ a2 (hI.rp.el.backed l t hw)

/-- no initial entry carries the term of a current leader or candidate -/
theorem cr_ne_zero (hI : CInv V x) {i : Nat} (hl : (x.node i).role ≠ .follower)
    {c : CEntry} (hc : c ∈ x.T) (ht : c.e.term = (x.node i).term) : c.cr ≠ 0 := by
  intro h0
  have h : c.e.term < (x.node i).term := (hI.rp.init0 c hc h0 i).2 hl
  omega

/-- entries of the term of a current leader were created by that leader -/
theorem creator_is_leader (hV : V.Nodup) (hI : CInv V x) {i : Nat} (hl : (x.node i).role = .leader)
    {c : CEntry} (hc : c ∈ x.T) (ht : c.e.term = (x.node i).term) : c.cr = i :=
  creator_of_won hV hI (hI.rp.ldrV i hl) (hI.rp.el.recorded i hl) hc
    (cr_ne_zero hI (by rw [hl]; decide) hc ht) ht

/-- … and are in its log -/
theorem leader_holds_own (hV : V.Nodup) (hI : CInv V x) {i : Nat} (hl : (x.node i).role = .leader)
    {c : CEntry} (hc : c ∈ x.T) (ht : c.e.term = (x.node i).term) :
    Holds (x.node i).log.entries c.e.index c.e.term := by
  have hcr := creator_is_leader hV hI hl hc ht
  have := hI.tree.ownLog c hc (cr_ne_zero hI (by rw [hl]; decide) hc ht)
  rw [hcr] at this
  exact this hl ht.symm

/-- the leader of a request's term holds the request's coordinates -/
theorem leader_holds_sent (hV : V.Nodup) (hI : CInv V x) {i : Nat} (hl : (x.node i).role = .leader)
    {q : AppendReq} (hq : q ∈ x.rp.sent) (ht : q.term = (x.node i).term) :
    (∀ e ∈ q.entries, Holds (x.node i).log.entries e.index e.term) ∧
    (1 ≤ q.prevLogIndex → Holds (x.node i).log.entries q.prevLogIndex q.prevLogTerm) := by
  obtain ⟨c, hc, hct, he, hp⟩ := hI.sent.anc q hq
  have hh := leader_holds_own hV hI hl hc (hct.trans ht)
  exact ⟨fun e hem => log_holds_anc hI i (he e hem) hh, fun h1 => log_holds_anc hI i (hp h1) hh⟩

/-- **the leader of an acknowledgement's term holds what was acknowledged** -/
theorem ack_on_leader (hV : V.Nodup) (hI : CInv V x) {i : Nat} (hl : (x.node i).role = .leader)
    {a : Ack} (ha : a ∈ x.acks) (ht : a.term = (x.node i).term) :
    Holds (x.node i).log.entries a.index a.eterm := by
  rcases hI.ack.src a ha with ⟨q, hq, h1, _, h3, h4⟩ | ⟨he, c, hc, hk, _, _⟩
  · obtain ⟨he, hp⟩ := leader_holds_sent hV hI hl hq (h1.trans ht)
    rcases h4 with ⟨e, hem, e1, e2⟩ | ⟨hnil, e2⟩
    · rw [← e1, ← e2]; exact he e hem
    · have h1' := (hI.ack.wf a ha).1
      rw [hnil, List.length_nil, Nat.add_zero] at h3
      rw [h3, ← e2]; exact hp (by omega)
  · unfold key Ack.key at hk
    simp only [Prod.mk.injEq] at hk
    have hct : c.e.term = (x.node i).term := by rw [hk.2, he]; exact ht
    have := leader_holds_own hV hI hl hc hct
    rw [hk.1, hk.2] at this
    exact this

/-- the backing of a leader's match indexes stays within its log -/
theorem backed_le (hV : V.Nodup) (hI : CInv V x) {i : Nat} (hl : (x.node i).role = .leader) :
    ∀ j m, Backed x i j m → m ≤ (x.node i).log.entries.length := by
  rintro j m ⟨a, ha, _, h2, h3⟩
  have := (ack_on_leader hV hI hl ha h2).2.1
  omega

end derived



/-! ### new entries -/

theorem chainOf_pt {cr pt : Nat} {es : List Entry} {c : CEntry} (h : c ∈ chainOf cr pt es) :
    c.pt = pt ∨ ∃ e' ∈ es, c.pt = e'.term := by
  induction es generalizing pt with
  | nil => cases h
  | cons e es ih =>
    simp only [chainOf, List.mem_cons] at h
    rcases h with h | h
    · left; rw [h]
    · right
      rcases ih h with h' | ⟨e', he', h'⟩
      · exact ⟨e, List.mem_cons_self .., h'⟩
      · exact ⟨e', List.mem_cons_of_mem _ he', h'⟩

theorem chainOf_mem {cr pt : Nat} {es : List Entry} {e : Entry} (h : e ∈ es) :
    ∃ c ∈ chainOf cr pt es, c.e = e ∧ c.cr = cr := by
  induction es generalizing pt with
  | nil => cases h
  | cons x xs ih =>
    rcases List.mem_cons.mp h with h | h
    · exact ⟨⟨x, pt, cr⟩, by simp [chainOf], h.symm, rfl⟩
    · obtain ⟨c, hc, h1, h2⟩ := ih (pt := x.term) h
      exact ⟨c, by simp only [chainOf, List.mem_cons]; exact Or.inr hc, h1, h2⟩

/-- ancestry of an old record is decided in the old tree -/
theorem anc_reflect {x y : Commit.Sys} {i : Nat} (hE : Ext x y i) {b : Nat × Nat} {c : CEntry} (hc : c ∈ x.T)
    (h : Anc y.T b (key c)) : Anc x.T b (key c) :=
  Classical.byContradiction (fun hn => hE.not_anc hc hn h)

/-- `UpTo` survives a transition in which the new acknowledgements of the voter are made in a term at or above
the campaign's -/
theorem upTo_mono {x y : Commit.Sys} {i : Nat} (hE : Ext x y i) {k : Camp} {v : Nat}
    (hwf : ∀ a ∈ x.acks, ∃ c ∈ x.T, key c = a.key)
    (hacks : ∀ a ∈ y.acks, a ∈ x.acks ∨ (a.voter = v → k.term ≤ a.term)) (h : UpTo x k v) : UpTo y k v := by
  intro a ha hv hlt b hb hanc
  rcases hacks a ha with hx | hn
  · obtain ⟨c, hc, hk⟩ := hwf a hx
    rw [← hk] at hanc
    have hanc' := anc_reflect hE hc hanc
    rw [hk] at hanc'
    rcases h a hx hv hlt b hb hanc' with r | r | r
    · exact Or.inl (hE.anc r)
    · exact Or.inr (Or.inl (hE.unsafeS r))
    · exact Or.inr (Or.inr (hE.other_cr r))
  · have := hn hv; omega


/-! ### the log of a node as a path, from the replication invariant alone -/

theorem rpath {V : List Nat} {y : Commit.Sys} (hR : Replication.Inv V y.rp) (i : Nat) :
    Path y.T (y.node i).log.entries :=
  ⟨(hR.nodes i).2, (hR.nodes i).1.contig⟩

theorem ranc {V : List Nat} {y : Commit.Sys} (hR : Replication.Inv V y.rp) (i : Nat) {a c : Nat × Nat}
    (ha : Holds (y.node i).log.entries a.1 a.2) (hc : Holds (y.node i).log.entries c.1 c.2) (h : a.1 ≤ c.1) :
    Anc y.T a c := anc_of_path (rpath hR i) ha hc h

theorem rholds {V : List Nat} {y : Commit.Sys} (hR : Replication.Inv V y.rp) (i : Nat) {a c : Nat × Nat}
    (h : Anc y.T a c) (hc : Holds (y.node i).log.entries c.1 c.2) : Holds (y.node i).log.entries a.1 a.2 :=
  h.on_path hR.uniq (rpath hR i) hc

theorem rrecord {V : List Nat} {y : Commit.Sys} (hR : Replication.Inv V y.rp) (i : Nat) {k τ : Nat}
    (h : Holds (y.node i).log.entries k τ) : ∃ c ∈ y.T, key c = (k, τ) := by
  obtain ⟨c, hc, h1, h2, _⟩ := path_record (rpath hR i) h
  exact ⟨c, hc, by unfold key; rw [h1, h2]⟩

/-- the last entry of a non-empty log -/
theorem holds_last {s : Node} (hn : NWF s) (h : 1 ≤ s.log.entries.length) :
    Holds s.log.entries s.log.entries.length s.lastLogTerm :=
  ⟨h, Nat.le_refl _, by rw [termAt_length, hn.lastT]⟩

/-- a member of a contiguous list is held at its index -/
theorem holds_of_mem {es : List Entry} (hc : Contig es) {e : Entry} (h : e ∈ es) : Holds es e.index e.term := by
  obtain ⟨k, hk, rfl⟩ := List.getElem_of_mem h
  have := holds_of_lt k hk
  rw [hc k hk]
  exact this

/-! ### entries appended by a node to its own log (a completed step or a crash + restart; not an append request) -/

/-- Node `i` of `x` is replaced by `(y.node i)`; its log grew by `es` (all of term `te`), which are the new
records of the tree. -/
structure NewE (V : List Nat) (x y : Commit.Sys) (i : Nat) (op : Op) (src : Nat) (es : List Entry) (te : Nat) :
    Prop where
  hV : V.Nodup
  i0 : i ≠ 0
  inv : CInv V x
  side : SideV V x
  ext : Ext x y i
  ry : Replication.Inv V y.rp
  T : y.T = chainOf i (lastTerm (x.node i).log.entries) es ++ x.T
  log : es ≠ [] → (y.node i).log.entries = (x.node i).log.entries ++ es
  keepL : (y.node i).role = .leader → (x.node i).log.entries <+: (y.node i).log.entries
  ent : ∀ e ∈ es, e.term = te ∧ (x.node i).lastLogIndex < e.index
  story : es ≠ [] → te ≤ (y.node i).term ∧ Story (x.node i) op te ∧ (y.node i).role ≠ .candidate
  real : Counts (x.node i) op → RealReply x.rp.el i src
  acks : ∀ a ∈ y.acks, a ∈ x.acks ∨ (a.voter = i ∧ (x.node i).term ≤ a.term)
  acks3 : es ≠ [] → (x.node i).term < te → ∀ a ∈ y.acks, a ∈ x.acks ∨ (a.voter = i ∧ te ≤ a.term)
  camp3 : es ≠ [] → (x.node i).term < te → ∃ k ∈ y.camps, k.cand = i ∧ k.term = te ∧
    k.lastIndex = (x.node i).log.entries.length ∧ k.lastTerm = (x.node i).lastLogTerm
  ldr : (y.node i).role = .leader →
    ((x.node i).role = .leader ∧ (y.node i).term = (x.node i).term) ∨
    ((x.node i).role = .candidate ∧ (y.node i).term = (x.node i).term) ∨ (x.node i).term < (y.node i).term

namespace NewE
variable {V : List Nat} {x y : Commit.Sys} {i : Nat} {op : Op} {src : Nat} {es : List Entry} {te : Nat}

theorem mem_new (h : NewE V x y i op src es te) {c : CEntry}
    (hc : c ∈ chainOf i (lastTerm (x.node i).log.entries) es) :
    c.cr = i ∧ c.e ∈ es ∧ c.e.term = te ∧ (x.node i).log.entries.length < c.e.index ∧ es ≠ [] := by
  obtain ⟨h1, h2⟩ := C04Sys.mem_chainOf hc
  obtain ⟨h3, h4⟩ := h.ent _ h2
  rw [(nwf h.inv i).last] at h4
  exact ⟨h1, h2, h3, h4, fun e => by rw [e] at h2; cases h2⟩

theorem mem_T (h : NewE V x y i op src es te) {c : CEntry} (hc : c ∈ y.T) :
    c ∈ chainOf i (lastTerm (x.node i).log.entries) es ∨ c ∈ x.T := by
  rw [h.T] at hc; exact List.mem_append.mp hc

/-- a new record is held by the new log -/
theorem new_holds (h : NewE V x y i op src es te) {c : CEntry}
    (hc : c ∈ chainOf i (lastTerm (x.node i).log.entries) es) :
    Holds (y.node i).log.entries c.e.index c.e.term := by
  obtain ⟨_, h2, _, _, hne⟩ := h.mem_new hc
  apply holds_of_mem (h.ry.nodes i).1.contig
  rw [h.log hne]
  exact List.mem_append_right _ h2

/-- what the old log held the new log holds (when entries were appended) -/
theorem old_holds (h : NewE V x y i op src es te) (hne : es ≠ []) {k τ : Nat}
    (hk : Holds (x.node i).log.entries k τ) : Holds (y.node i).log.entries k τ := by
  rw [h.log hne]; exact holds_prefix (List.prefix_append _ _) hk

/-- the node is a voter, backed for the term of the new entries -/
theorem voter (h : NewE V x y i op src es te) (hne : es ≠ []) : i ∈ V :=
  C04Sys.story_voter h.inv.rp h.side.1 i op te (h.story hne).2.1

/-- unless the node was leader of `te` already, no old record carries the term `te` -/
theorem no_old (h : NewE V x y i op src es te) (hne : es ≠ [])
    (hnl : ¬ ((x.node i).role = .leader ∧ te = (x.node i).term)) {c : CEntry} (hc : c ∈ x.T)
    (ht : c.e.term = te) : False := by
  obtain ⟨_, hs, _⟩ := h.story hne
  have hI := h.inv
  by_cases h0 : c.cr = 0
  · obtain ⟨i1, i2⟩ := hI.rp.init0 c hc h0 i
    have i1' : c.e.term ≤ (x.node i).term := i1
    rcases hs with ⟨a, b⟩ | ⟨a, _, b⟩ | ⟨a, _, _⟩
    · exact hnl ⟨a, b⟩
    · have : c.e.term < (x.node i).term := i2 (by rw [show (x.rp.el.node i).role = _ from a.1]; decide)
      omega
    · omega
  · obtain ⟨o1, o2, o3, o4, o5⟩ := hI.rp.own c hc h0
    have hiV := h.voter hne
    have hib := C04Sys.story_backed hI.rp h.side.1 i op src te h.real hs
    have hli : c.cr = i := by
      rcases o2 with q1 | bk
      · exact C04Sys.mem_of_short q1 o1 hiV
      · rcases hib with q1 | bk'
        · exact C04Sys.mem_of_short q1 o1 hiV
        · rw [ht] at bk
          exact election_safety_partial x.rp.el.grants V h.hV hI.rp.el.unique _ _ te bk bk'
    rw [hli] at o3 o5
    have o3' : c.e.term ≤ (x.node i).term := o3
    rcases hs with ⟨a, b⟩ | ⟨a, _, b⟩ | ⟨a, _, _⟩
    · exact hnl ⟨a, b⟩
    · have : c.e.term < (x.node i).term := o5 a.1
      omega
    · omega

/-- when the node was leader of `te` already, the old records of term `te` are in its old log -/
theorem old_in_log (h : NewE V x y i op src es te) (hl : (x.node i).role = .leader) (ht : te = (x.node i).term)
    {c : CEntry} (hc : c ∈ x.T) (hct : c.e.term = te) : Holds (x.node i).log.entries c.e.index c.e.term :=
  leader_holds_own h.hV h.inv hl hc (hct.trans ht)


/-- the three cases of `Story`, with what each one brings -/
theorem story_cases (h : NewE V x y i op src es te) (hne : es ≠ []) :
    ((x.node i).role = .leader ∧ te = (x.node i).term) ∨
    (¬ ((x.node i).role = .leader ∧ te = (x.node i).term) ∧
      ((Counts (x.node i) op ∧ (x.node i).votesNeeded - 1 = 0 ∧ te = (x.node i).term) ∨
       (te > (x.node i).term ∧ (x.node i).configs.latest.quorum = 1))) := by
  by_cases hl : (x.node i).role = .leader ∧ te = (x.node i).term
  · exact Or.inl hl
  · right
    refine ⟨hl, ?_⟩
    rcases (h.story hne).2.1 with a | ⟨a, b, c⟩ | ⟨a, b, _⟩
    · exact absurd a hl
    · exact Or.inl ⟨a, b, c⟩
    · exact Or.inr ⟨a, b⟩

theorem treeOK (h : NewE V x y i op src es te) : TreeOK y.T := by
  have hI := h.inv
  have hpy := rpath h.ry i
  refine ⟨fun c hc => ?_, fun c hc => ?_, fun c hc d hd ht hle => ?_⟩
  · -- every record lies on a root path
    rcases h.mem_T hc with hn | ho
    · exact ⟨_, hpy, h.new_holds hn⟩
    · obtain ⟨p, hp, hh⟩ := hI.tree.ok.pathc c ho
      exact ⟨p, hp.mono h.ext.T, hh⟩
  · -- terms do not decrease
    rcases h.mem_T hc with hn | ho
    · obtain ⟨_, _, h3, _, hne⟩ := h.mem_new hn
      have hte : (x.node i).term ≤ te := by
        rcases (h.story hne).2.1 with ⟨_, b⟩ | ⟨_, _, b⟩ | ⟨a, _, _⟩ <;> omega
      rcases chainOf_pt hn with e | ⟨e', he', e⟩
      · rw [e, h3]
        refine Nat.le_trans ?_ hte
        unfold lastTerm
        cases hl : (x.node i).log.entries.getLast? with
        | none => exact Nat.zero_le _
        | some z => exact hI.node.termLe i z (List.mem_of_getLast? hl)
      · rw [e, (h.ent e' he').1, h3]; exact Nat.le_refl _
    · exact hI.tree.ok.tmono c ho
  · -- the entries of one term lie on one path
    rcases h.mem_T hc with hcn | hco <;> rcases h.mem_T hd with hdn | hdo
    · exact anc_of_path hpy (h.new_holds hcn) (h.new_holds hdn) hle
    · -- `c` new, `d` old: impossible
      exfalso
      obtain ⟨_, _, c3, c4, hne⟩ := h.mem_new hcn
      rcases h.story_cases hne with ⟨hl, hte⟩ | ⟨hnl, _⟩
      · have := (h.old_in_log hl hte hdo (by rw [← ht]; exact c3)).2.1
        show False
        have hle' : c.e.index ≤ d.e.index := hle
        omega
      · exact h.no_old hne hnl hdo (by rw [← ht]; exact c3)
    · obtain ⟨_, _, d3, _, hne⟩ := h.mem_new hdn
      rcases h.story_cases hne with ⟨hl, hte⟩ | ⟨hnl, _⟩
      · have hh := h.old_holds hne (h.old_in_log hl hte hco (by rw [ht]; exact d3))
        exact anc_of_path hpy hh (h.new_holds hdn) hle
      · exact (h.no_old hne hnl hco (by rw [ht]; exact d3)).elim
    · exact h.ext.anc (hI.tree.ok.tblock c hco d hdo ht hle)

theorem ownLog (h : NewE V x y i op src es te) : ∀ c ∈ y.T, c.cr ≠ 0 → (y.node c.cr).role = .leader →
    (y.node c.cr).term = c.e.term → Holds (y.node c.cr).log.entries c.e.index c.e.term := by
  intro c hc h0 hl ht
  have hI := h.inv
  rcases h.mem_T hc with hn | ho
  · rw [(h.mem_new hn).1] at hl ht ⊢; exact h.new_holds hn
  · by_cases hci : c.cr = i
    · rw [hci] at hl ht ⊢
      obtain ⟨_, _, o3, _, o5⟩ := hI.rp.own c ho h0
      rw [hci] at o3 o5
      have o3' : c.e.term ≤ (x.node i).term := o3
      rcases h.ldr hl with ⟨a, b⟩ | ⟨a, b⟩ | a
      · have := hI.tree.ownLog c ho h0
        rw [hci] at this
        exact holds_prefix (h.keepL hl) (this a (by rw [← b]; exact ht))
      · have : c.e.term < (x.node i).term := o5 a
        omega
      · omega
    · rw [h.ext.other _ hci] at hl ht ⊢
      exact hI.tree.ownLog c ho h0 hl ht


end NewE

/-- a voter that granted its vote has reached the term of the grant -/
theorem grant_term {V : List Nat} {x : Commit.Sys} (hI : CInv V x) {g : C01.Grant} (hg : g ∈ x.rp.el.grants) :
    g.term ≤ (x.node g.voter).term := by
  obtain ⟨_, h2⟩ := hI.rp.el.honoured g hg
  rcases h2 with h2 | ⟨h2, _⟩
  · exact Nat.le_of_lt h2
  · exact Nat.le_of_eq h2

/-- **from a grant to the strict form, for a node that is still candidate of the term**: an entry of the
campaign's term that does not extend `b` was created by somebody else -/
theorem upTo_of_grant {V : List Nat} {x : Commit.Sys} (hI : CInv V x) {i : Nat}
    (hc : (x.node i).role = .candidate) {k : Camp} (hk : k ∈ x.camps) (hki : k.cand = i)
    (hkt : k.term = (x.node i).term) {v : Nat}
    (hg : ({ voter := v, term := (x.node i).term, cand := i } : C01.Grant) ∈ x.rp.el.grants) : UpTo x k v := by
  intro a ha hv hlt b hb hanc
  rcases hI.vote.grantInv _ hg k hk hki hkt a ha hv hlt b hb hanc with r | ⟨c, hcT, c1, c2, c3⟩
  · exact Or.inl r
  · right
    by_cases hlt' : c.e.term < k.term
    · exact Or.inl ⟨c, hcT, c1, hlt', c3⟩
    · right
      have hct : c.e.term = (x.node i).term := by omega
      have h0 := cr_ne_zero hI (i := i) (by rw [hc]; decide) hcT hct
      refine ⟨c, hcT, by rw [hkt]; exact hct, h0, ?_⟩
      rw [hki]
      intro hci
      obtain ⟨_, _, _, _, o5⟩ := hI.rp.own c hcT h0
      rw [hci] at o5
      have : c.e.term < (x.node i).term := o5 hc
      omega

namespace NewE
variable {V : List Nat} {x y : Commit.Sys} {i : Nat} {op : Op} {src : Nat} {es : List Entry} {te : Nat}

/-- `UpTo` for old campaigns whose term the voter has reached carries over -/
theorem upTo_old (h : NewE V x y i op src es te) {k : Camp} {v : Nat} (hkv : k.term ≤ (x.node v).term)
    (hu : UpTo x k v) : UpTo y k v := by
  refine upTo_mono h.ext (fun a ha => (h.inv.ack.wf a ha).2.2.2) (fun a ha => ?_) hu
  rcases h.acks a ha with ho | ⟨a1, a2⟩
  · exact Or.inl ho
  · right
    intro hv
    rw [a1] at hv
    rw [← hv] at hkv
    omega

/-- closing step for the election record of a new entry -/
theorem elect_fin (h : NewE V x y i op src es te) {c : CEntry}
    (hc : c ∈ chainOf i (lastTerm (x.node i).log.entries) es) {k : Camp} (hk : k ∈ y.camps) (hki : k.cand = i)
    (hkt : k.term = te) (hkl : k.lastIndex ≤ (x.node i).log.entries.length)
    (hkh : k.lastIndex = 0 ∨ Holds (x.node i).log.entries k.lastIndex k.lastTerm)
    (Q : List Nat) (q1 : Q.Nodup) (q2 : ∀ v ∈ Q, v ∈ V) (q3 : 2 * Q.length > V.length)
    (q4 : ∀ v ∈ Q, te ≤ (y.node v).term ∧ UpTo y k v) :
    ∃ k ∈ y.camps, k.cand = c.cr ∧ k.term = c.e.term ∧ k.lastIndex < c.e.index ∧
      (k.lastIndex = 0 ∨ Anc y.T k.last (key c)) ∧
      ∃ Q : List Nat, Q.Nodup ∧ (∀ v ∈ Q, v ∈ V) ∧ 2 * Q.length > V.length ∧
        ∀ v ∈ Q, c.e.term ≤ (y.node v).term ∧ UpTo y k v := by
  obtain ⟨c1, _, c3, c4, hne⟩ := h.mem_new hc
  refine ⟨k, hk, by rw [c1]; exact hki, by rw [c3]; exact hkt, by omega, ?_, Q, q1, q2, q3, by rw [c3]; exact q4⟩
  rcases hkh with h0 | hh
  · exact Or.inl h0
  · right
    exact ranc h.ry i (a := k.last) (c := key c) (h.old_holds hne hh) (h.new_holds hc) (by show k.lastIndex ≤ c.e.index; omega)


/-- the election record of a new entry when the node was leader of the term already: that of its last entry -/
theorem elect1 (h : NewE V x y i op src es te) (hl : (x.node i).role = .leader) (hte : te = (x.node i).term)
    {c : CEntry} (hc : c ∈ chainOf i (lastTerm (x.node i).log.entries) es) :
    ∃ k ∈ y.camps, k.cand = c.cr ∧ k.term = c.e.term ∧ k.lastIndex < c.e.index ∧
      (k.lastIndex = 0 ∨ Anc y.T k.last (key c)) ∧
      ∃ Q : List Nat, Q.Nodup ∧ (∀ v ∈ Q, v ∈ V) ∧ 2 * Q.length > V.length ∧
        ∀ v ∈ Q, c.e.term ≤ (y.node v).term ∧ UpTo y k v := by
  have hI := h.inv
  have lo := hI.node.ldr i hl
  have hlen : 1 ≤ (x.node i).log.entries.length := Nat.le_trans lo.start lo.startLe
  have hz : Holds (x.node i).log.entries (x.node i).log.entries.length (x.node i).term :=
    ⟨hlen, Nat.le_refl _, lo.own _ lo.startLe (Nat.le_refl _)⟩
  obtain ⟨z, hzT, hzk⟩ := log_record hI i hz
  unfold key at hzk
  simp only [Prod.mk.injEq] at hzk
  have hz0 := cr_ne_zero hI (i := i) (by rw [hl]; decide) hzT hzk.2
  have hzi := creator_is_leader h.hV hI hl hzT hzk.2
  obtain ⟨k, hk, k1, k2, k3, k4, Q, q1, q2, q3, q4⟩ := hI.tree.crElect z hzT hz0
  rw [hzk.1] at k3
  rw [hzk.2] at k2 q4
  refine h.elect_fin hc (h.ext.camps k hk) (k1.trans hzi) (k2.trans hte.symm) (Nat.le_of_lt k3) ?_ Q q1 q2 q3
    (fun v hv => ⟨?_, h.upTo_old (by rw [k2]; exact (q4 v hv).1) (q4 v hv).2⟩)
  · rcases k4 with k4 | k4
    · exact Or.inl k4
    · right
      have : key z = ((x.node i).log.entries.length, (x.node i).term) := by unfold key; rw [hzk.1, hzk.2]
      rw [this] at k4
      exact log_holds_anc hI i k4 hz
  · rw [hte]; exact Nat.le_trans (q4 v hv).1 (h.ext.term v)

/-- … when the node counted the last missing vote in this step -/
theorem elect2 (h : NewE V x y i op src es te) (hcn : Counts (x.node i) op)
    (hte : te = (x.node i).term) {c : CEntry} (hc : c ∈ chainOf i (lastTerm (x.node i).log.entries) es)
    (hvn : (x.node i).votesNeeded - 1 = 0) :
    ∃ k ∈ y.camps, k.cand = c.cr ∧ k.term = c.e.term ∧ k.lastIndex < c.e.index ∧
      (k.lastIndex = 0 ∨ Anc y.T k.last (key c)) ∧
      ∃ Q : List Nat, Q.Nodup ∧ (∀ v ∈ Q, v ∈ V) ∧ 2 * Q.length > V.length ∧
        ∀ v ∈ Q, c.e.term ≤ (y.node v).term ∧ UpTo y k v := by
  have hI := h.inv
  have hcand : (x.node i).role = .candidate := hcn.1
  obtain ⟨k, hk, k1, k2, k3, k4, k5⟩ := hI.node.camp i (by rw [hcand]; decide)
  have ok := hI.rp.el.cand i hcand
  obtain ⟨r1, r2, r3, r4⟩ := h.real hcn
  have hsrcV : src ∈ V := by
    rw [← (h.side.1 i).2]; exact C01Sys.isVoter_mem_voters _ _ r2
  have hnotin : src ∉ votersCounted x.rp.el.counted i (x.node i).term :=
    fun hm => r4 ((C01Sys.mem_votersCounted _ _ _ _).mp hm)
  have ht : ∀ v, ({ voter := v, term := (x.node i).term, cand := i } : C01.Grant) ∈ x.rp.el.grants →
      (x.node i).term ≤ (x.node v).term := fun v hg => grant_term hI hg
  refine h.elect_fin hc (h.ext.camps k hk) k1 (k2.trans hte.symm) k3 ?_
    (i :: src :: votersCounted x.rp.el.counted i (x.node i).term) ?_ ?_ ?_ ?_
  · by_cases h0 : k.lastIndex = 0
    · exact Or.inl h0
    · exact Or.inr ⟨by omega, k3, k4 (by omega)⟩
  · refine List.nodup_cons.mpr ⟨?_, List.nodup_cons.mpr ⟨hnotin, ok.nodup⟩⟩
    intro hm
    rcases List.mem_cons.mp hm with hm | hm
    · exact r1 hm.symm
    · exact (ok.real i hm).2.1 rfl
  · intro v hv
    rcases List.mem_cons.mp hv with hv | hv
    · subst hv; exact ok.voter
    · rcases List.mem_cons.mp hv with hv | hv
      · subst hv; exact hsrcV
      · exact (ok.real v hv).1
  · have hcount : (x.node i).votesNeeded +
        ((votersCounted x.rp.el.counted i (x.node i).term).length : Int) + 1 = ((V.length / 2 + 1 : Nat) : Int) :=
      ok.count
    simp only [List.length_cons]
    omega
  · intro v hv
    rcases List.mem_cons.mp hv with hv | hv
    · subst hv
      refine ⟨by rw [hte]; exact h.ext.term v, h.upTo_old (by rw [k2]; exact Nat.le_refl _) ?_⟩
      exact hI.vote.electInv k hk v (Or.inl k1.symm)
    · rcases List.mem_cons.mp hv with hv | hv
      · subst hv
        refine ⟨by rw [hte]; exact Nat.le_trans (ht v r3) (h.ext.term v),
          h.upTo_old (by rw [k2]; exact ht v r3) (upTo_of_grant hI hcand hk k1 k2 r3)⟩
      · obtain ⟨_, _, hg⟩ := ok.real v hv
        refine ⟨by rw [hte]; exact Nat.le_trans (ht v hg) (h.ext.term v),
          h.upTo_old (by rw [k2]; exact ht v hg) (hI.vote.electInv k hk v (Or.inr ?_))⟩
        rw [k1, k2]
        exact (C01Sys.mem_votersCounted _ _ _ _).mp hv


/-- … when the node elected itself with a quorum of one in this step -/
theorem elect3 (h : NewE V x y i op src es te) (hgt : te > (x.node i).term)
    (hq : (x.node i).configs.latest.quorum = 1) {c : CEntry}
    (hc : c ∈ chainOf i (lastTerm (x.node i).log.entries) es) :
    ∃ k ∈ y.camps, k.cand = c.cr ∧ k.term = c.e.term ∧ k.lastIndex < c.e.index ∧
      (k.lastIndex = 0 ∨ Anc y.T k.last (key c)) ∧
      ∃ Q : List Nat, Q.Nodup ∧ (∀ v ∈ Q, v ∈ V) ∧ 2 * Q.length > V.length ∧
        ∀ v ∈ Q, c.e.term ≤ (y.node v).term ∧ UpTo y k v := by
  have hI := h.inv
  have hne := (h.mem_new hc).2.2.2.2
  obtain ⟨k, hk, k1, k2, k3, k4⟩ := h.camp3 hne hgt
  have hV1 : V.length / 2 + 1 = 1 := by
    rw [C01Sys.quorum_eq, (h.side.1 i).2] at hq; exact hq
  refine h.elect_fin hc hk k1 k2 (by rw [k3]; exact Nat.le_refl _) ?_ [i]
    (List.nodup_cons.mpr ⟨List.not_mem_nil, List.nodup_nil⟩)
    (fun v hv => by rw [List.mem_singleton.mp hv]; exact h.voter hne)
    (by simp only [List.length_singleton]; omega) ?_
  · by_cases h0 : k.lastIndex = 0
    · exact Or.inl h0
    · right
      rw [k3, k4]
      exact holds_last (nwf hI i) (by omega)
  · intro v hv
    rw [List.mem_singleton.mp hv]
    refine ⟨(h.story hne).1, ?_⟩
    intro a ha hav hlt b hb hanc
    rcases h.acks3 hne hgt a ha with ho | ⟨_, hn⟩
    · obtain ⟨ca, hca, hcak⟩ := (hI.ack.wf a ho).2.2.2
      rw [← hcak] at hanc
      have hanc' := anc_reflect h.ext hca hanc
      rw [hcak] at hanc'
      rcases hI.ack.stable a ho b hb hanc' with ⟨_, hd⟩ | ⟨c', hc', u1, u2, u3⟩
      · left
        rw [hav] at hd
        have hlen : 1 ≤ (x.node i).log.entries.length := by have := hd.1; have := hd.2.1; omega
        have : Anc x.T b ((x.node i).log.entries.length, (x.node i).lastLogTerm) :=
          log_anc hI i hd (holds_last (nwf hI i) hlen) hd.2.1
        have e : k.last = ((x.node i).log.entries.length, (x.node i).lastLogTerm) := by
          unfold Camp.last; rw [k3, k4]
        rw [e]; exact h.ext.anc this
      · right; left
        rw [hav] at u2
        exact ⟨c', h.ext.T c' hc', u1, by rw [k2]; omega, h.ext.not_anc hc' u3⟩
    · rw [k2] at hlt; omega

/-- **every created entry has its election record** -/
theorem crElect (h : NewE V x y i op src es te) : ∀ c ∈ y.T, c.cr ≠ 0 →
    ∃ k ∈ y.camps, k.cand = c.cr ∧ k.term = c.e.term ∧ k.lastIndex < c.e.index ∧
      (k.lastIndex = 0 ∨ Anc y.T k.last (key c)) ∧
      ∃ Q : List Nat, Q.Nodup ∧ (∀ v ∈ Q, v ∈ V) ∧ 2 * Q.length > V.length ∧
        ∀ v ∈ Q, c.e.term ≤ (y.node v).term ∧ UpTo y k v := by
  intro c hc h0
  rcases h.mem_T hc with hn | ho
  · have hne := (h.mem_new hn).2.2.2.2
    rcases h.story_cases hne with ⟨hl, hte⟩ | ⟨_, ⟨a, b, d⟩ | ⟨a, b⟩⟩
    · exact h.elect1 hl hte hn
    · exact h.elect2 a d hn b
    · exact h.elect3 a b hn
  · obtain ⟨k, hk, k1, k2, k3, k4, Q, q1, q2, q3, q4⟩ := h.inv.tree.crElect c ho h0
    refine ⟨k, h.ext.camps k hk, k1, k2, k3, k4.imp id h.ext.anc, Q, q1, q2, q3, fun v hv => ?_⟩
    exact ⟨Nat.le_trans (q4 v hv).1 (h.ext.term v), h.upTo_old (by rw [k2]; exact (q4 v hv).1) (q4 v hv).2⟩

theorem treeI (h : NewE V x y i op src es te) : TreeI V y := ⟨h.treeOK, h.crElect, h.ownLog⟩

end NewE

/-- **the intersection argument** (core of leader completeness): an entry `c` of a later term whose creator was
elected by a majority that passed the up-to-date check extends the entry `m` that a majority acknowledged in
`m`'s term — provided the entries of the terms in between do, and nobody else created entries of `c`'s term. -/
theorem lc_core {V : List Nat} (hV : V.Nodup) {y : Commit.Sys} (hU : Uniq y.T) {m : Nat × Nat} {c : CEntry}
    (hmc : m.2 < c.e.term)
    (hq : ∃ Q : List Nat, Q.Nodup ∧ (∀ v ∈ Q, v ∈ V) ∧ 2 * Q.length > V.length ∧
      ∀ v ∈ Q, ∃ a ∈ y.acks, a.voter = v ∧ a.term = m.2 ∧ Anc y.T m a.key)
    (he : ∃ k : Camp, k.cand = c.cr ∧ k.term = c.e.term ∧ (k.lastIndex = 0 ∨ Anc y.T k.last (key c)) ∧
      ∃ Q : List Nat, Q.Nodup ∧ (∀ v ∈ Q, v ∈ V) ∧ 2 * Q.length > V.length ∧ ∀ v ∈ Q, UpTo y k v)
    (hlow : ∀ c' ∈ y.T, m.2 < c'.e.term → c'.e.term < c.e.term → Anc y.T m (key c'))
    (hone : ∀ c' ∈ y.T, c'.e.term = c.e.term → c'.cr ≠ 0 → c'.cr = c.cr) : Anc y.T m (key c) := by
  obtain ⟨Q, q1, q2, q3, q4⟩ := hq
  obtain ⟨k, k1, k2, k3, Q', p1, p2, p3, p4⟩ := he
  obtain ⟨v, hv, hv'⟩ := quorums_intersect V Q Q' hV q1 p1 q2 p2 (by omega)
  obtain ⟨a, ha, a1, a2, a3⟩ := q4 v hv
  rcases p4 v hv' a ha a1 (by rw [a2, k2]; exact hmc) m a2.symm a3 with r | ⟨c', hc', u1, u2, u3⟩ |
    ⟨c', hc', u1, u2, u3⟩
  · rcases k3 with k0 | k3
    · have := r.index_pos.2
      have e : k.last.1 = k.lastIndex := rfl
      omega
    · exact r.trans hU k3
  · exact absurd (hlow c' hc' u1 (by rw [← k2]; exact u2)) u3
  · exact absurd (hone c' hc' (u1.trans k2) u2) (by rw [← k1]; exact u3)

namespace NewE
variable {V : List Nat} {x y : Commit.Sys} {i : Nat} {op : Op} {src : Nat} {es : List Entry} {te : Nat}

/-- **a new entry extends every entry committed in an earlier term** -/
theorem lc_new (h : NewE V x y i op src es te) {m : Nat × Nat} (hm : m ∈ x.committed) {c : CEntry}
    (hc : c ∈ chainOf i (lastTerm (x.node i).log.entries) es) (hlt : m.2 < c.e.term) :
    Anc y.T m (key c) := by
  have hI := h.inv
  obtain ⟨c1, _, c3, c4, hne⟩ := h.mem_new hc
  rcases h.story_cases hne with ⟨hl, hte⟩ | ⟨hnl, _⟩
  · -- the old last entry has the term of the new one
    have lo := hI.node.ldr i hl
    have hlen : 1 ≤ (x.node i).log.entries.length := Nat.le_trans lo.start lo.startLe
    have hz : Holds (x.node i).log.entries (x.node i).log.entries.length (x.node i).term :=
      ⟨hlen, Nat.le_refl _, lo.own _ lo.startLe (Nat.le_refl _)⟩
    obtain ⟨z, hzT, hzk⟩ := log_record hI i hz
    have hzt : z.e.term = (x.node i).term := by
      unfold key at hzk; simp only [Prod.mk.injEq] at hzk; exact hzk.2
    have h1 := hI.cmt.lc m hm z hzT (by rw [hzt, ← hte, ← c3]; exact hlt)
    rw [hzk] at h1
    have h2 : Anc y.T ((x.node i).log.entries.length, (x.node i).term) (key c) :=
      ranc h.ry i (h.old_holds hne hz) (h.new_holds hc) (by show _ ≤ c.e.index; omega)
    exact (h.ext.anc h1).trans h.ry.uniq h2
  · have hcy : c ∈ y.T := by rw [h.T]; exact List.mem_append_left _ hc
    obtain ⟨k, _, k1, k2, _, k4, Q, q1, q2, q3, q4⟩ := h.crElect c hcy (by rw [c1]; exact h.i0)
    obtain ⟨_, Qm, m1, m2, m3, m4⟩ := hI.cmt.quorum m hm
    refine lc_core h.hV h.ry.uniq hlt ⟨Qm, m1, m2, m3, fun v hv => ?_⟩
      ⟨k, k1, k2, k4, Q, q1, q2, q3, fun v hv => (q4 v hv).2⟩ (fun c' hc' l1 l2 => ?_) (fun c' hc' e1 e0 => ?_)
    · obtain ⟨a, ha, a1, a2, a3⟩ := m4 v hv
      exact ⟨a, h.ext.acks a ha, a1, a2, h.ext.anc a3⟩
    · rcases h.mem_T hc' with hn' | ho'
      · have := (h.mem_new hn').2.2.1; omega
      · exact h.ext.anc (hI.cmt.lc m hm c' ho' l1)
    · rcases h.mem_T hc' with hn' | ho'
      · rw [(h.mem_new hn').1, c1]
      · exact (h.no_old hne hnl ho' (e1.trans c3)).elim

end NewE

/-! ### a completed step: the new state and what is known about it -/

/-- the state after node `i` handled `op` (the target of `Commit.Trans.step`) -/
def stepC (x : Commit.Sys) (i : Nat) (op : Op) (ra : List Nat) (ord : List (List Nat)) (src : Nat) : Commit.Sys :=
  { rp := stepRp x i op ra ord src
    acks := ackOf i op ((x.node i).step op ra ord) ++
      (selfAck i op (x.node i) ((x.node i).step op ra ord) ++ x.acks)
    camps := campOf i (x.node i) ((x.node i).step op ra ord) ++ x.camps
    committed := newCommit op (x.node i) ((x.node i).step op ra ord) ++ x.committed }

/-- the hypotheses under which a step is analysed -/
structure SC (V : List Nat) (x : Commit.Sys) (i : Nat) (op : Op) (ra : List Nat) (ord : List (List Nat))
    (src : Nat) : Prop where
  hV : V.Nodup
  inv : CInv V x
  side : SideV V x
  en : Enabled x i op src

namespace SC
variable {V : List Nat} {x : Commit.Sys} {i : Nat} {op : Op} {ra : List Nat} {ord : List (List Nat)} {src : Nat}

theorem node_i (_h : SC V x i op ra ord src) : (stepC x i op ra ord src).node i = (x.node i).step op ra ord := by
  show setNode x.rp.el.node i _ i = _
  rw [setNode_same]

theorem node_j (_h : SC V x i op ra ord src) {j : Nat} (hj : j ≠ i) :
    (stepC x i op ra ord src).node j = x.node j := by
  show setNode x.rp.el.node i _ j = _
  rw [setNode_other _ _ _ _ hj]

theorem ry (h : SC V x i op ra ord src) : Replication.Inv V (stepC x i op ra ord src).rp :=
  C04Sys.inv_trans h.hV h.inv.rp h.side.1 (.step i op ra ord src h.en.rp)

theorem vstep (h : SC V x i op ra ord src) :
    C05.VoteStep (x.node i) ((x.node i).step op ra ord) ∧ C05.VoteWF ((x.node i).step op ra ord) := by
  obtain ⟨a, b, _⟩ := C05.step_vote_stable (x.node i) op ra ord (h.inv.rp.el.ids i).2
  exact ⟨a, b⟩

theorem ext (h : SC V x i op ra ord src) : Ext x (stepC x i op ra ord src) i := by
  refine ⟨fun j hj => h.node_j hj, fun j => ?_, fun c hc => List.mem_append_right _ hc, fun q hq => hq,
    fun a ha => List.mem_append_right _ (List.mem_append_right _ ha), fun k hk => List.mem_append_right _ hk,
    fun m hm => List.mem_append_right _ hm,
    fun g hg => List.mem_append_right _ (List.mem_append_right _ hg), fun e he => List.mem_append_right _ he,
    fun e he => List.mem_append_right _ he, h.ry.uniq, h.inv.tree.ok.pathc⟩
  by_cases hj : j = i
  · subst hj; rw [h.node_i]; exact h.vstep.1.1
  · rw [h.node_j hj]; exact Nat.le_refl _

theorem rstep (h : SC V x i op ra ord src) : RoleStep (x.node i) op ((x.node i).step op ra ord) :=
  role_step (x.node i) op ra ord (fun hc => (h.inv.rp.el.cand i hc).term_pos)

theorem upd (h : SC V x i op ra ord src) : C04Sys.Upd V x.rp i op ((x.node i).step op ra ord) :=
  C04Sys.upd_step h.inv.rp h.side.1 i op ra ord src h.en.rp

/-- the node-level summary of a step that is not an append request -/
theorem nst (h : SC V x i op ra ord src) (happ : ∀ q, op ≠ .append q) :
    NStep (x.node i) (AOp (x.node i) op) (Backed x i) ((x.node i).step op ra ord) := by
  have hI := h.inv
  refine nstep (x.node i) op ra ord (Backed x i) (nwf hI i) (hI.node.lwf i) (hI.rp.el.ids i).2 (h.side.2 i)
    (by rw [(h.side.1 i).2]; exact h.hV) h.en.ok2 happ (fun hc => (hI.rp.el.cand i hc).term_pos)
    (fun hr => ?_) (fun hl => ⟨hI.node.ldr i hl, backed_le h.hV hI hl⟩) h.en.upd
  have := hI.node.roleVoter i hr
  exact this

/-- the node-level summary of a step handling an append request that is not stale -/
theorem fst (h : SC V x i (.append q) ra ord src) (hns : ¬ q.term < (x.node i).term) :
    q ∈ x.rp.sent ∧ FStep (x.node i) q ((x.node i).step (.append q) ra ord) := by
  have hq : q ∈ x.rp.sent := (h.en.rp.append q rfl).resolve_left hns
  exact ⟨hq, fstep (x.node i) q ra ord (nwf h.inv i) (h.inv.node.lwf i) (h.inv.rp.el.ids i).2
    (h.inv.rp.sent q hq).idx⟩

theorem ackOf_nonappend (i : Nat) (op : Op) (post : Node) (happ : ∀ q, op ≠ .append q) : ackOf i op post = [] := by
  cases op <;> first | rfl | exact absurd rfl (happ _)

theorem isAppend_false (op : Op) (happ : ∀ q, op ≠ .append q) : isAppend op = false := by
  cases op <;> first | rfl | exact absurd rfl (happ _)

/-- the self acknowledgement and the ledger entry of a leader-side commit -/
theorem commit_ev (h : SC V x i op ra ord src) (happ : ∀ q, op ≠ .append q)
    (hlc : LeaderCommit op (x.node i) ((x.node i).step op ra ord)) :
    ∃ T, CEv (x.node i) (Backed x i) ((x.node i).step op ra ord) T ∧
      termAt ((x.node i).step op ra ord).log.entries ((x.node i).step op ra ord).commitIndex = T := by
  rcases (h.nst happ).ci with c | ⟨T, c⟩
  · have := hlc.2; omega
  · exact ⟨T, c, c.holds.2.2⟩

theorem cev_term_ge (h : SC V x i op ra ord src) {T : Nat}
    (c : CEv (x.node i) (Backed x i) ((x.node i).step op ra ord) T) :
    (x.node i).term ≤ T ∧ T ≤ ((x.node i).step op ra ord).term := by
  have := h.vstep.1.1
  rcases c.src with ⟨_, a, b, _⟩ | ⟨_, a⟩ <;> omega

/-- the new state, as new entries appended by node `i` (step that is not an append request) -/
theorem newE (h : SC V x i op ra ord src) (happ : ∀ q, op ≠ .append q) :
    ∃ es te, NewE V x (stepC x i op ra ord src) i op src es te ∧
      ((x.node i).step op ra ord).log.entries = (x.node i).log.entries ++ es := by
  have hI := h.inv
  have hpre := nwf hI i
  have ls := leader_step (x.node i) op ra ord hpre (hI.rp.el.ids i).2 (h.side.1 i).1 h.en.ok2.1 happ
    (fun hc => (hI.rp.el.cand i hc).term_pos)
  have ns := h.nst happ
  have rs := h.rstep
  obtain ⟨es, te, l1, l2, l3, l4, _⟩ := ls.ext
  have hni := h.node_i
  have hnid : (x.node i).nid = i := (hI.rp.el.ids i).1
  -- when entries of a higher term were appended, the node elected itself in this step
  have hnew : es ≠ [] → (x.node i).term < te →
      ((x.node i).step op ra ord).role = .leader ∧ ((x.node i).step op ra ord).term = te ∧
      ((x.node i).step op ra ord).votedFor = i := by
    intro hne hgt
    have hlt : lastTerm ((x.node i).step op ra ord).log.entries = te := by
      rw [l1]; unfold lastTerm
      rw [List.getLast?_append, List.getLast?_eq_some_getLast hne]
      exact l2 _ (List.getLast_mem hne)
    have hg : (x.node i).log.entries.length < ((x.node i).step op ra ord).log.entries.length := by
      rw [l1, List.length_append]
      have : 0 < es.length := List.length_pos_iff.mpr hne
      omega
    have hl : ((x.node i).step op ra ord).role = .leader := by
      rcases ns.grow hg with ⟨_, a⟩ | a
      · rw [hlt] at a; omega
      · exact a
    have ht : ((x.node i).step op ra ord).term = te := by
      rcases ns.ldr hl with ⟨_, _, lo⟩ | lo
      · rw [← lo.lastT, ls.nwf.lastT, hlt]
      · rw [← lo.lastT, ls.nwf.lastT, hlt]
    refine ⟨hl, ht, ?_⟩
    rcases rs.leader hl with ⟨_, a⟩ | ⟨_, _, a⟩ | ne
    · omega
    · omega
    · rw [ne.vote_self, hnid]
  refine ⟨es, te, ⟨h.hV, h.en.rp.id, hI, h.side, h.ext, h.ry, ?_, fun _ => by rw [hni]; exact l1,
    fun _ => by rw [hni, l1]; exact List.prefix_append _ _, ?_, fun hne => ?_, h.en.rp.real, ?_, ?_, ?_, ?_⟩, l1⟩
  · show newCreated i (x.node i).log.entries ((x.node i).step op ra ord).log.entries op ++ x.T = _
    rw [C04Sys.newCreated_other _ _ _ _ happ, l1, List.drop_left]
  · intro e he
    refine ⟨l2 e he, ?_⟩
    have := (C04Sys.contig_drop ls.nwf.contig (x.node i).log.entries.length).2 e (by rw [l1, List.drop_left]; exact he)
    rw [hpre.last]; exact this.1
  · rw [hni]; exact ⟨l3, (l4 hne).1, (l4 hne).2⟩
  · -- new acknowledgements
    intro a ha
    rcases List.mem_append.mp ha with ha | ha
    · rw [ackOf_nonappend _ _ _ happ] at ha; cases ha
    · rcases List.mem_append.mp ha with ha | ha
      · right
        unfold selfAck at ha
        split at ha
        · rename_i hlc
          obtain ⟨T, c, hT⟩ := h.commit_ev happ hlc
          rw [List.mem_singleton.mp ha]
          exact ⟨rfl, by show _ ≤ termAt _ _; rw [hT]; exact (h.cev_term_ge c).1⟩
        · cases ha
      · exact Or.inl ha
  · intro hne hgt a ha
    obtain ⟨hl, ht, hv⟩ := hnew hne hgt
    rcases List.mem_append.mp ha with ha | ha
    · rw [ackOf_nonappend _ _ _ happ] at ha; cases ha
    · rcases List.mem_append.mp ha with ha | ha
      · right
        unfold selfAck at ha
        split at ha
        · rename_i hlc
          obtain ⟨T, c, hT⟩ := h.commit_ev happ hlc
          rw [List.mem_singleton.mp ha]
          refine ⟨rfl, ?_⟩
          show te ≤ termAt _ _
          rw [hT]
          rcases c.src with ⟨_, a1, _, a3⟩ | ⟨_, a1⟩
          · rcases a3 with a3 | a3
            · omega
            · rw [hv] at a3; exact absurd a3 h.en.rp.id
          · omega
        · cases ha
      · exact Or.inl ha
  · intro hne hgt
    obtain ⟨hl, ht, hv⟩ := hnew hne hgt
    refine ⟨Camp.mk i ((x.node i).step op ra ord).term (x.node i).lastLogIndex (x.node i).lastLogTerm,
      ?_, rfl, ht, hpre.last, rfl⟩
    apply List.mem_append_left
    unfold campOf
    rw [if_pos ⟨by omega, hv⟩]
    exact List.mem_singleton.mpr rfl
  · rw [hni]
    intro hl
    rcases rs.leader hl with ⟨a, b⟩ | ⟨a, _, b⟩ | ne
    · exact Or.inl ⟨a, b⟩
    · exact Or.inr (Or.inl ⟨a.1, b⟩)
    · exact Or.inr (Or.inr ne.term_gt)

end SC



/-- node `i` (in state `s`) has a recorded campaign for its term whose coordinates its log still holds -/
def CampOK (y : Commit.Sys) (i : Nat) (s : Node) : Prop :=
  ∃ k ∈ y.camps, k.cand = i ∧ k.term = s.term ∧ k.lastIndex ≤ s.log.entries.length ∧
    (1 ≤ k.lastIndex → termAt s.log.entries k.lastIndex = k.lastTerm) ∧
    (s.role = .candidate → k.lastIndex = s.log.entries.length)

namespace SC
variable {V : List Nat} {x : Commit.Sys} {i : Nat} {op : Op} {ra : List Nat} {ord : List (List Nat)} {src : Nat}

/-! ### the nodes after a completed step -/

theorem nid_post (h : SC V x i op ra ord src) : ((x.node i).step op ra ord).nid = i := by
  have := (h.ry.el.ids i).1
  have e : (stepC x i op ra ord src).rp.el.node i = (x.node i).step op ra ord := h.node_i
  rw [e] at this; exact this

theorem lwf_post (h : SC V x i op ra ord src) : C06.LogWF ((x.node i).step op ra ord).log := by
  by_cases happ : ∀ q, op ≠ .append q
  · exact (h.nst happ).lwf
  · have : ∃ q, op = .append q := Classical.byContradiction (fun hn => happ (fun q hq => hn ⟨q, hq⟩))
    obtain ⟨q, rfl⟩ := this
    by_cases hst : q.term < (x.node i).term
    · rw [(append_stale _ q ra ord hst).1]; exact h.inv.node.lwf i
    · exact (h.fst hst).2.lwf

theorem termLe_post (h : SC V x i op ra ord src) :
    ∀ e ∈ ((x.node i).step op ra ord).log.entries, e.term ≤ ((x.node i).step op ra ord).term := by
  have hI := h.inv
  have hmono := h.vstep.1.1
  by_cases happ : ∀ q, op ≠ .append q
  · obtain ⟨es, te, hN, hl⟩ := h.newE happ
    intro e he
    rw [hl] at he
    rcases List.mem_append.mp he with he | he
    · exact Nat.le_trans (hI.node.termLe i e he) hmono
    · have hne : es ≠ [] := fun e0 => by rw [e0] at he; cases he
      rw [(hN.ent e he).1]
      have := (hN.story hne).1
      rw [h.node_i] at this; exact this
  · have : ∃ q, op = .append q := Classical.byContradiction (fun hn => happ (fun q hq => hn ⟨q, hq⟩))
    obtain ⟨q, rfl⟩ := this
    by_cases hst : q.term < (x.node i).term
    · obtain ⟨s1, s2, _⟩ := append_stale _ q ra ord hst
      rw [s1, s2]; exact hI.node.termLe i
    · obtain ⟨hq, fs⟩ := h.fst hst
      intro e he
      rcases fs.src e he with he | he
      · exact Nat.le_trans (hI.node.termLe i e he) hmono
      · rw [fs.term hst]; exact (hI.sent.term q hq).1 e he

theorem op_cases (op : Op) : (∀ q, op ≠ .append q) ∨ ∃ q, op = .append q := by
  by_cases happ : ∀ q, op ≠ .append q
  · exact Or.inl happ
  · exact Or.inr (Classical.byContradiction (fun hn => happ (fun q hq => hn ⟨q, hq⟩)))

theorem T_eq (_h : SC V x i op ra ord src) : (stepC x i op ra ord src).T =
    newCreated i (x.node i).log.entries ((x.node i).step op ra ord).log.entries op ++ x.T := rfl

theorem unfl_post (h : SC V x i op ra ord src) : ∀ k, ((x.node i).step op ra ord).log.flushed < k →
    k ≤ ((x.node i).step op ra ord).log.entries.length →
    ∃ c ∈ (stepC x i op ra ord src).T, c.e.index = k ∧
      c.e.term = termAt ((x.node i).step op ra ord).log.entries k ∧ c.cr = i := by
  have hI := h.inv
  intro k hk hk2
  rcases op_cases op with happ | ⟨q, rfl⟩
  · obtain ⟨es, te, hN, hl⟩ := h.newE happ
    have hfl := (h.nst happ).flush
    by_cases hkl : k ≤ (x.node i).log.entries.length
    · obtain ⟨c, hc, c1, c2, c3⟩ := hI.node.unfl i k (by omega) hkl
      refine ⟨c, h.ext.T c hc, c1, ?_, c3⟩
      rw [hl, termAt_append_left _ _ _ hkl]; exact c2
    · have hkl' : (x.node i).log.entries.length < k := by omega
      have hlt : k - 1 < ((x.node i).step op ra ord).log.entries.length := by omega
      have hpn : NWF ((x.node i).step op ra ord) := by
        have := (h.ry.nodes i).1
        rwa [show (stepC x i op ra ord src).rp.el.node i = _ from h.node_i] at this
      obtain ⟨e, hget⟩ : ∃ e, ((x.node i).step op ra ord).log.entries[k - 1]? = some e :=
        ⟨_, List.getElem?_eq_getElem hlt⟩
      have hidx : e.index = k := by
        obtain ⟨hh, he⟩ := List.getElem?_eq_some_iff.mp hget
        rw [← he, hpn.contig (k - 1) hh]; omega
      have hmem : e ∈ es := by
        have hg := hget
        rw [hl, List.getElem?_append_right (by omega)] at hg
        exact List.mem_of_getElem? hg
      obtain ⟨c, hc, c1, c2⟩ := chainOf_mem (cr := i) (pt := lastTerm (x.node i).log.entries) hmem
      refine ⟨c, by rw [hN.T]; exact List.mem_append_left _ hc, by rw [c1]; exact hidx, ?_, c2⟩
      rw [c1]
      unfold termAt
      rw [if_neg (by omega), hget]; rfl
  · by_cases hst : q.term < (x.node i).term
    · obtain ⟨s1, _⟩ := append_stale _ q ra ord hst
      rw [s1] at hk hk2 ⊢
      obtain ⟨c, hc, r⟩ := hI.node.unfl i k hk hk2
      exact ⟨c, h.ext.T c hc, r⟩
    · rcases (h.fst hst).2.dirty with d | d
      · rw [d] at hk hk2 ⊢
        obtain ⟨c, hc, r⟩ := hI.node.unfl i k hk hk2
        exact ⟨c, h.ext.T c hc, r⟩
      · omega

theorem roleVoter_post (h : SC V x i op ra ord src) : ((x.node i).step op ra ord).role ≠ .follower →
    ((x.node i).step op ra ord).configs.latest.isVoter ((x.node i).step op ra ord).nid = true := by
  have hI := h.inv
  have hnid : (x.node i).nid = i := (hI.rp.el.ids i).1
  intro hr
  rw [h.nid_post]
  rcases op_cases op with happ | ⟨q, rfl⟩
  · rw [(h.nst happ).cfg]
    have rs := h.rstep
    have old : (x.node i).role ≠ .follower → (x.node i).configs.latest.isVoter i = true := fun hp => by
      have := hI.node.roleVoter i hp; rw [hnid] at this; exact this
    have fromNE : NewElection (x.node i) ((x.node i).step op ra ord) →
        (x.node i).configs.latest.isVoter i = true := by
      intro ne
      obtain ⟨ec, e1, e2, _⟩ := ne.cfg
      rcases e2 with e2 | e2
      · exact old (by rw [e2]; decide)
      · rw [e1 (h.side.1 i).1, hnid] at e2; exact e2
    cases hrole : ((x.node i).step op ra ord).role with
    | follower => exact absurd hrole hr
    | leader =>
      rcases rs.leader hrole with ⟨a, _⟩ | ⟨a, _⟩ | ne
      · exact old (by rw [a]; decide)
      · exact old (by rw [a.1]; decide)
      · exact fromNE ne
    | candidate =>
      rcases rs.candidate hrole with ⟨a, _⟩ | ne
      · exact old (by rw [a]; decide)
      · exact fromNE ne
  · by_cases hst : q.term < (x.node i).term
    · obtain ⟨_, _, _, _, _, s6, s7, _⟩ := append_stale _ q ra ord hst
      rw [s7]
      have := hI.node.roleVoter i (by rw [← s6]; exact hr)
      rw [hnid] at this; exact this
    · exact absurd (append_step_role _ q ra ord hst) hr

theorem camp_post (h : SC V x i op ra ord src) : ((x.node i).step op ra ord).role ≠ .follower →
    CampOK (stepC x i op ra ord src) i ((x.node i).step op ra ord) := by
  have hI := h.inv
  have hnid : (x.node i).nid = i := (hI.rp.el.ids i).1
  have hpre := nwf hI i
  intro hr
  rcases op_cases op with happ | ⟨q, rfl⟩
  · obtain ⟨es, te, hN, hl⟩ := h.newE happ
    have rs := h.rstep
    have hcand : ((x.node i).step op ra ord).role = .candidate → es = [] := by
      intro hc
      apply Classical.byContradiction
      intro hne
      have := (hN.story hne).2.2
      rw [h.node_i] at this
      exact this hc
    -- the campaign the node had before the step
    have old : (x.node i).role ≠ .follower → ((x.node i).step op ra ord).term = (x.node i).term →
        (((x.node i).step op ra ord).role = .candidate → (x.node i).role = .candidate) →
        CampOK (stepC x i op ra ord src) i ((x.node i).step op ra ord) := by
      intro hp ht hcc
      obtain ⟨k, hk, k1, k2, k3, k4, k5⟩ := hI.node.camp i hp
      refine ⟨k, h.ext.camps k hk, k1, k2.trans ht.symm, by rw [hl, List.length_append]; omega, fun h1 => ?_,
        fun hc => ?_⟩
      · rw [hl, termAt_append_left _ _ _ k3]; exact k4 h1
      · rw [hl, hcand hc, List.append_nil]; exact k5 (hcc hc)
    -- a campaign started in this step
    have fromNE : NewElection (x.node i) ((x.node i).step op ra ord) →
        CampOK (stepC x i op ra ord src) i ((x.node i).step op ra ord) := by
      intro ne
      refine ⟨Camp.mk i ((x.node i).step op ra ord).term (x.node i).lastLogIndex (x.node i).lastLogTerm, ?_, rfl, rfl,
        ?_, fun h1 => ?_, fun hc => ?_⟩
      · apply List.mem_append_left
        unfold campOf
        rw [if_pos ⟨ne.term_gt, by rw [ne.vote_self, hnid]⟩]
        exact List.mem_singleton.mpr rfl
      · show (x.node i).lastLogIndex ≤ _
        rw [hpre.last, hl, List.length_append]; omega
      · show termAt _ (x.node i).lastLogIndex = (x.node i).lastLogTerm
        rw [hpre.last, hl, termAt_append_left _ _ _ (Nat.le_refl _), termAt_length, hpre.lastT]
      · show (x.node i).lastLogIndex = _
        rw [hpre.last, hl, hcand hc, List.append_nil]
    cases hrole : ((x.node i).step op ra ord).role with
    | follower => exact absurd hrole hr
    | leader =>
      rcases rs.leader hrole with ⟨a, b⟩ | ⟨a, _, b⟩ | ne
      · exact old (by rw [a]; decide) b (fun hc => by rw [hrole] at hc; cases hc)
      · exact old (by rw [a.1]; decide) b (fun _ => a.1)
      · exact fromNE ne
    | candidate =>
      rcases rs.candidate hrole with ⟨a, b, _⟩ | ne
      · exact old (by rw [a]; decide) b (fun _ => a)
      · exact fromNE ne
  · by_cases hst : q.term < (x.node i).term
    · obtain ⟨s1, s2, _, _, _, s6, _⟩ := append_stale _ q ra ord hst
      unfold CampOK
      rw [s1, s2, s6]
      obtain ⟨k, hk, r⟩ := hI.node.camp i (by rw [← s6]; exact hr)
      exact ⟨k, h.ext.camps k hk, r⟩
    · exact absurd (append_step_role _ q ra ord hst) hr

theorem ldr_post (h : SC V x i op ra ord src) : ((x.node i).step op ra ord).role = .leader →
    LeadOK (Backed (stepC x i op ra ord src) i) ((x.node i).step op ra ord) := by
  have hI := h.inv
  intro hl
  have hmono : ((x.node i).step op ra ord).term = (x.node i).term →
      ∀ j m, Backed x i j m → Backed (stepC x i op ra ord src) i j m := by
    rintro ht j m ⟨a, ha, a1, a2, a3⟩
    exact ⟨a, h.ext.acks a ha, a1, by rw [h.node_i, ht]; exact a2, a3⟩
  rcases op_cases op with happ | ⟨q, rfl⟩
  · rcases (h.nst happ).ldr hl with ⟨_, b, lo⟩ | lo
    · exact lo.mono (hmono b)
    · exact lo.mono (fun _ _ hf => hf.elim)
  · by_cases hst : q.term < (x.node i).term
    · obtain ⟨s1, s2, _, _, _, s6, s7, s8, s9, _⟩ := append_stale _ q ra ord hst
      have lo := hI.node.ldr i (by rw [← s6]; exact hl)
      exact (LeadOK.mono (hmono s2) (show LeadOK (Backed x i) _ from
        ⟨by rw [s8, s7]; exact lo.numVoters, by rw [s8]; exact lo.start, by rw [s8, s1, s2]; exact lo.own,
          by rw [s8]; exact lo.mi, by rw [s8, s1]; exact lo.startLe, by rw [s9, s2]; exact lo.lastT⟩))
    · rw [append_step_role _ q ra ord hst] at hl; cases hl

/-- **the nodes** after a completed step -/
theorem nodeI (h : SC V x i op ra ord src) : NodeI (stepC x i op ra ord src) := by
  have hI := h.inv
  have hE := h.ext
  have oth : ∀ j, j ≠ i → (stepC x i op ra ord src).node j = x.node j := fun j hj => h.node_j hj
  refine ⟨fun j => ?_, fun j => ?_, fun j k hk hk2 => ?_, fun j => ?_, fun j hr => ?_, fun j hl => ?_⟩
  · by_cases hj : j = i
    · subst hj; rw [h.node_i]; exact h.lwf_post
    · rw [oth j hj]; exact hI.node.lwf j
  · by_cases hj : j = i
    · subst hj; rw [h.node_i]; exact h.termLe_post
    · rw [oth j hj]; exact hI.node.termLe j
  · by_cases hj : j = i
    · subst hj; rw [h.node_i] at hk hk2 ⊢; exact h.unfl_post k hk hk2
    · rw [oth j hj] at hk hk2 ⊢
      obtain ⟨c, hc, r⟩ := hI.node.unfl j k hk hk2
      exact ⟨c, hE.T c hc, r⟩
  · by_cases hj : j = i
    · subst hj; rw [h.node_i]; exact h.roleVoter_post
    · rw [oth j hj]; exact hI.node.roleVoter j
  · by_cases hj : j = i
    · subst hj; rw [h.node_i] at hr ⊢; exact h.camp_post hr
    · rw [oth j hj] at hr ⊢
      obtain ⟨k, hk, r⟩ := hI.node.camp j hr
      exact ⟨k, hE.camps k hk, r⟩
  · by_cases hj : j = i
    · subst hj; rw [h.node_i] at hl ⊢; exact h.ldr_post hl
    · rw [oth j hj] at hl ⊢
      refine (hI.node.ldr j hl).mono ?_
      rintro v m ⟨a, ha, a1, a2, a3⟩
      exact ⟨a, hE.acks a ha, a1, by rw [oth j hj]; exact a2, a3⟩

/-- **requests on the wire** after a completed step -/
theorem sentI (h : SC V x i op ra ord src) : SentI V (stepC x i op ra ord src) := by
  have hI := h.inv
  have hE := h.ext
  refine ⟨fun q hq => ?_, fun q hq => hI.sent.term q hq, fun q hq => ?_, fun q hq => ?_⟩
  · obtain ⟨a1, a2, a3, a4, a5⟩ := hI.sent.won q hq
    refine ⟨a1, a2, hE.won _ a3, Nat.le_trans a4 (hE.term _), fun hc => ?_⟩
    by_cases hj : q.src = i
    · rw [hj, h.node_i] at hc ⊢
      rw [hj] at a4 a5
      rcases h.rstep.candidate hc with ⟨c1, c2, _⟩ | ne
      · rw [c2]; exact a5 c1
      · have := ne.term_gt; omega
    · rw [h.node_j hj] at hc ⊢; exact a5 hc
  · obtain ⟨c, hc, c1, c2, c3⟩ := hI.sent.anc q hq
    exact ⟨c, hE.T c hc, c1, fun e he => hE.anc (c2 e he), fun h1 => hE.anc (c3 h1)⟩
  · obtain ⟨c1, c2⟩ := hI.sent.cmt q hq
    exact ⟨fun e he hle => hE.cmt (Nat.le_refl _) (c1 e he hle), fun h1 h2 => hE.cmt (Nat.le_refl _) (c2 h1 h2)⟩

/-- the acknowledgements added by a step are the node's own, in a term at or above its old term -/
theorem new_acks (h : SC V x i op ra ord src) : ∀ a ∈ (stepC x i op ra ord src).acks,
    a ∈ x.acks ∨ (a.voter = i ∧ (x.node i).term ≤ a.term) := by
  intro a ha
  rcases op_cases op with happ | ⟨q, rfl⟩
  · obtain ⟨es, te, hN, _⟩ := h.newE happ
    exact hN.acks a ha
  · rcases List.mem_append.mp ha with ha | ha
    · right
      unfold ackOf at ha
      dsimp only at ha
      split at ha
      · rename_i hc
        rw [List.mem_singleton.mp ha]
        refine ⟨rfl, ?_⟩
        show (x.node i).term ≤ q.term
        by_cases hst : q.term < (x.node i).term
        · have := (append_stale _ q ra ord hst).2.2.2.2.2.2.2.2.2.2.2
          rw [this] at hc
          exact absurd hc.1 (by decide)
        · omega
      · cases ha
    · rcases List.mem_append.mp ha with ha | ha
      · unfold selfAck LeaderCommit isAppend at ha
        simp at ha
      · exact Or.inl ha

/-- **the tree** after a step handling an append request (no record is added) -/
theorem treeI_app {q : AppendReq} (h : SC V x i (.append q) ra ord src) :
    TreeI V (stepC x i (.append q) ra ord src) := by
  have hI := h.inv
  have hE := h.ext
  have hT : (stepC x i (.append q) ra ord src).T = x.T := rfl
  refine ⟨⟨?_, ?_, ?_⟩, fun c hc h0 => ?_, fun c hc h0 hl ht => ?_⟩
  · rw [hT]; exact hI.tree.ok.pathc
  · rw [hT]; exact hI.tree.ok.tmono
  · rw [hT]; exact hI.tree.ok.tblock
  · obtain ⟨k, hk, k1, k2, k3, k4, Q, q1, q2, q3, q4⟩ := hI.tree.crElect c hc h0
    refine ⟨k, hE.camps k hk, k1, k2, k3, k4, Q, q1, q2, q3, fun v hv => ?_⟩
    refine ⟨Nat.le_trans (q4 v hv).1 (hE.term v), ?_⟩
    refine upTo_mono hE (fun a ha => (hI.ack.wf a ha).2.2.2) (fun a ha => ?_) (q4 v hv).2
    rcases h.new_acks a ha with ho | ⟨a1, a2⟩
    · exact Or.inl ho
    · right
      intro hv'
      have := (q4 v hv).1
      rw [← hv', a1, ← k2] at this
      omega
  · by_cases hj : c.cr = i
    · rw [hj, h.node_i] at hl ht ⊢
      by_cases hst : q.term < (x.node i).term
      · obtain ⟨s1, s2, _, _, _, s6, _⟩ := append_stale _ q ra ord hst
        rw [s1]
        have := hI.tree.ownLog c hc h0
        rw [hj] at this
        exact this (by rw [← s6]; exact hl) (by rw [← s2]; exact ht)
      · rw [append_step_role _ q ra ord hst] at hl; cases hl
    · rw [h.node_j hj] at hl ht ⊢
      exact hI.tree.ownLog c hc h0 hl ht

/-- **the tree** after a completed step -/
theorem treeI (h : SC V x i op ra ord src) : TreeI V (stepC x i op ra ord src) := by
  rcases op_cases op with happ | ⟨q, rfl⟩
  · obtain ⟨es, te, hN, _⟩ := h.newE happ
    exact hN.treeI
  · exact h.treeI_app

end SC



/-! ### acknowledgements -/

/-- the creator of an entry of a current leader's term, from the replication invariant alone -/
theorem rcreator {V : List Nat} (hV : V.Nodup) {y : Commit.Sys} (hR : Replication.Inv V y.rp) {i : Nat}
    (hl : (y.node i).role = .leader) {c : CEntry} (hc : c ∈ y.T) (ht : c.e.term = (y.node i).term) :
    c.cr = i ∧ c.cr ≠ 0 := by
  have h0 : c.cr ≠ 0 := by
    intro h0
    have h : c.e.term < (y.node i).term := (hR.init0 c hc h0 i).2 (by rw [show (y.rp.el.node i).role = _ from hl]; decide)
    omega
  refine ⟨?_, h0⟩
  obtain ⟨a1, a2, _⟩ := hR.own c hc h0
  have hb := hR.el.backed i _ (hR.el.recorded i hl)
  rcases a2 with q | a2
  · exact C04Sys.mem_of_short q a1 (hR.ldrV i hl)
  · rw [ht] at a2
    exact election_safety_partial y.rp.el.grants V hV hR.el.unique _ _ _ a2 hb

/-- **a conflicting request exposes the acknowledged entry**: if a request that is not stale for the
voter carries an entry at or below `b` that differs from what the voter's log (which holds `b`) has there, then an
entry of the request's term does not extend `b` — and that term is above `b`'s. -/
theorem conflict_unsafe {V : List Nat} {x : Commit.Sys} (hI : CInv V x) {v : Nat} {a : Ack} (ha : a ∈ x.acks)
    (hv : a.voter = v) {b : Nat × Nat} (hb : b.2 = a.term) (hh : Holds (x.node v).log.entries b.1 b.2)
    {q : AppendReq} (hq : q ∈ x.rp.sent) (hns : ¬ q.term < (x.node v).term) {e : Entry} (he : e ∈ q.entries)
    (hle : e.index ≤ b.1) (hne : termAt (x.node v).log.entries e.index ≠ e.term) :
    Unsafe x.T b q.term := by
  obtain ⟨c, hc, c1, c2, _⟩ := hI.sent.anc q hq
  have hec := c2 e he
  have hat : a.term ≤ (x.node v).term := by rw [← hv]; exact (hI.ack.wf a ha).2.1
  -- `b` is not an ancestor of `c`, nor `c` of `b`
  have no1 : ¬ Anc x.T b (key c) := by
    intro hbc
    have := log_holds_anc hI v (hec.comparable (uniq hI) hbc hle) hh
    exact hne this.2.2
  by_cases hlt : b.2 < q.term
  · exact ⟨c, hc, by rw [c1]; exact hlt, by rw [c1]; exact Nat.le_refl _, no1⟩
  · exfalso
    have hbt : b.2 = c.e.term := by rw [c1]; omega
    obtain ⟨cb, hcb, hcbk⟩ := log_record hI v hh
    have e1 : cb.e.term = c.e.term := by
      have : cb.e.term = b.2 := by unfold key at hcbk; simp only [Prod.mk.injEq] at hcbk; exact hcbk.2
      rw [this, hbt]
    have e2 : cb.e.index = b.1 := by unfold key at hcbk; simp only [Prod.mk.injEq] at hcbk; exact hcbk.1
    by_cases hidx : cb.e.index ≤ c.e.index
    · have := hI.tree.ok.tblock cb hcb c hc e1 hidx
      rw [hcbk] at this
      exact no1 this
    · have := hI.tree.ok.tblock c hc cb hcb e1.symm (by omega)
      rw [hcbk] at this
      have h2 := log_holds_anc hI v (hec.trans (uniq hI) this) hh
      exact hne h2.2.2

namespace SC
variable {V : List Nat} {x : Commit.Sys} {i : Nat} {op : Op} {ra : List Nat} {ord : List (List Nat)} {src : Nat}

/-- what the acknowledgement recorded for a `success` reply to an append request says -/
theorem ack_facts {q : AppendReq} (h : SC V x i (.append q) ra ord src) {a : Ack}
    (ha : a ∈ ackOf i (.append q) ((x.node i).step (.append q) ra ord)) :
    q ∈ x.rp.sent ∧ ¬ q.term < (x.node i).term ∧ a.voter = i ∧ a.term = q.term ∧
    a.index = q.prevLogIndex + q.entries.length ∧ 1 ≤ a.index ∧
    Holds ((x.node i).step (.append q) ra ord).log.entries a.index a.eterm ∧
    ((x.node i).step (.append q) ra ord).term = q.term ∧
    ((∃ e ∈ q.entries, e.index = a.index ∧ e.term = a.eterm) ∨ (q.entries = [] ∧ q.prevLogTerm = a.eterm)) := by
  unfold ackOf at ha
  dsimp only at ha
  split at ha
  · rename_i hc
    have hst : ¬ q.term < (x.node i).term := by
      intro hst
      have := (append_stale _ q ra ord hst).2.2.2.2.2.2.2.2.2.2.2
      rw [this] at hc
      exact absurd hc.1 (by decide)
    obtain ⟨hq, fs⟩ := h.fst hst
    obtain ⟨_, f2, f3, f4⟩ := fs.ack hc.1
    have hidx := (h.inv.rp.sent q hq).idx
    rw [List.mem_singleton.mp ha]
    refine ⟨hq, hst, rfl, rfl, rfl, hc.2, ?_, fs.term hst, ?_⟩
    · exact ⟨hc.2, f4, rfl⟩
    · show (∃ e ∈ q.entries, e.index = q.prevLogIndex + q.entries.length ∧
          e.term = termAt _ (q.prevLogIndex + q.entries.length)) ∨
        (q.entries = [] ∧ q.prevLogTerm = termAt _ (q.prevLogIndex + q.entries.length))
      cases hqe : q.entries with
      | nil =>
        right
        refine ⟨rfl, ?_⟩
        rw [hqe] at hc
        simp only [List.length_nil, Nat.add_zero] at hc ⊢
        exact (f3 hc.2).2.2.symm
      | cons e0 es0 =>
        left
        have hlast : q.entries.length - 1 < q.entries.length := by rw [hqe]; simp
        refine ⟨q.entries[q.entries.length - 1], by rw [← hqe]; exact List.getElem_mem hlast, ?_, ?_⟩
        · rw [hidx _ hlast, ← hqe]; omega
        · have hh := f2 _ (List.getElem_mem hlast)
          rw [hidx _ hlast] at hh
          have e : q.prevLogIndex + (q.entries.length - 1) + 1 = q.prevLogIndex + q.entries.length := by omega
          rw [e] at hh
          rw [← hqe]
          exact hh.2.2.symm
  · cases ha

/-- what the self acknowledgement of a leader-side commit says -/
theorem selfAck_facts (h : SC V x i op ra ord src) {a : Ack}
    (ha : a ∈ selfAck i op (x.node i) ((x.node i).step op ra ord)) :
    (∀ q, op ≠ .append q) ∧ a.voter = i ∧ a.eterm = a.term ∧
    a.index = ((x.node i).step op ra ord).commitIndex ∧
    CEv (x.node i) (Backed x i) ((x.node i).step op ra ord) a.term := by
  unfold selfAck at ha
  split at ha
  · rename_i hlc
    have happ : ∀ q, op ≠ .append q := by
      intro q hq
      rw [hq] at hlc
      have := hlc.1
      simp [isAppend] at this
    obtain ⟨T, c, hT⟩ := h.commit_ev happ hlc
    rw [List.mem_singleton.mp ha]
    exact ⟨happ, rfl, rfl, rfl, by show CEv _ _ _ (termAt _ _); rw [hT]; exact c⟩
  · cases ha

/-- the log after the step is a root path of the new tree -/
theorem ppath (h : SC V x i op ra ord src) :
    Path (stepC x i op ra ord src).T ((x.node i).step op ra ord).log.entries := by
  have := rpath h.ry i
  rwa [h.node_i] at this

theorem precord (h : SC V x i op ra ord src) {k τ : Nat}
    (hh : Holds ((x.node i).step op ra ord).log.entries k τ) :
    ∃ c ∈ (stepC x i op ra ord src).T, key c = (k, τ) := by
  obtain ⟨c, hc, h1, h2, _⟩ := path_record h.ppath hh
  exact ⟨c, hc, by unfold key; rw [h1, h2]⟩

theorem pholds (h : SC V x i op ra ord src) {a c : Nat × Nat} (ha : Anc (stepC x i op ra ord src).T a c)
    (hc : Holds ((x.node i).step op ra ord).log.entries c.1 c.2) :
    Holds ((x.node i).step op ra ord).log.entries a.1 a.2 :=
  ha.on_path h.ry.uniq h.ppath hc

theorem panc (h : SC V x i op ra ord src) {a c : Nat × Nat}
    (ha : Holds ((x.node i).step op ra ord).log.entries a.1 a.2)
    (hc : Holds ((x.node i).step op ra ord).log.entries c.1 c.2) (hle : a.1 ≤ c.1) :
    Anc (stepC x i op ra ord src).T a c := anc_of_path h.ppath ha hc hle

/-- how a durably held entry of the node fares in the step -/
theorem dur_post (h : SC V x i op ra ord src) {a : Ack} (ha : a ∈ x.acks) (hv : a.voter = i) {b : Nat × Nat}
    (hb : b.2 = a.term) (hd : DurHolds (x.node i) b) :
    DurHolds ((x.node i).step op ra ord) b ∨ Unsafe x.T b ((x.node i).step op ra ord).term := by
  have hI := h.inv
  obtain ⟨d1, d2⟩ := hd
  rcases op_cases op with happ | ⟨q, rfl⟩
  · left
    obtain ⟨es, te, _, hl⟩ := h.newE happ
    exact ⟨Nat.le_trans d1 (h.nst happ).flush, by rw [hl]; exact holds_prefix (List.prefix_append _ _) d2⟩
  · by_cases hst : q.term < (x.node i).term
    · left
      unfold DurHolds
      rw [(append_stale _ q ra ord hst).1]
      exact ⟨d1, d2⟩
    · obtain ⟨hq, fs⟩ := h.fst hst
      by_cases hnc : NoConf (x.node i) q b.1
      · left
        obtain ⟨k1, k2⟩ := fs.keep b.1 d2.2.1 hnc
        exact ⟨k2 d1, holds_of_take_eq k1 d2 (Nat.le_refl _)⟩
      · right
        have : ∃ e ∈ q.entries, e.index ≤ b.1 ∧ termAt (x.node i).log.entries e.index ≠ e.term := by
          apply Classical.byContradiction
          intro hn
          apply hnc
          intro e he hle
          apply Classical.byContradiction
          intro hne
          exact hn ⟨e, he, hle, hne⟩
        obtain ⟨e, he, hle, hne⟩ := this
        have := conflict_unsafe hI ha hv hb d2 hq hst he hle hne
        rw [fs.term hst]
        exact this

theorem acks_cases (_h : SC V x i op ra ord src) {a : Ack} (ha : a ∈ (stepC x i op ra ord src).acks) :
    (∃ q, op = .append q ∧ a ∈ ackOf i op ((x.node i).step op ra ord)) ∨
    a ∈ selfAck i op (x.node i) ((x.node i).step op ra ord) ∨ a ∈ x.acks := by
  rcases List.mem_append.mp ha with ha | ha
  · left
    rcases op_cases op with happ | ⟨q, hq⟩
    · rw [ackOf_nonappend _ _ _ happ] at ha; cases ha
    · exact ⟨q, hq, ha⟩
  · exact Or.inr (List.mem_append.mp ha)

/-- **acknowledgements** after a completed step -/
theorem ackI (h : SC V x i op ra ord src) : AckI (stepC x i op ra ord src) := by
  have hI := h.inv
  have hE := h.ext
  have hR := h.ry
  have hni := h.node_i
  refine ⟨fun a ha => ?_, fun a ha => ?_, fun a ha b hb hanc => ?_⟩
  · -- well-formed
    rcases h.acks_cases ha with ⟨q, rfl, ha⟩ | ha | ha
    · obtain ⟨hq, _, a1, a2, _, a4, a5, a6, a7⟩ := h.ack_facts ha
      refine ⟨a4, by rw [a1, hni, a2, a6]; exact Nat.le_refl _, ?_, ?_⟩
      · rw [a2]
        rcases a7 with ⟨e, he, _, e2⟩ | ⟨_, e2⟩
        · rw [← e2]; exact (hI.sent.term q hq).1 e he
        · rw [← e2]; exact (hI.sent.term q hq).2
      · exact h.precord a5
    · obtain ⟨_, a1, a2, a3, c⟩ := h.selfAck_facts ha
      refine ⟨by rw [a3]; exact c.holds.1, by rw [a1, hni]; exact (h.cev_term_ge c).2, by rw [a2]; exact Nat.le_refl _, ?_⟩
      obtain ⟨r, hr, hk⟩ := h.precord c.holds
      exact ⟨r, hr, by rw [hk]; unfold Ack.key; rw [a2, a3]⟩
    · obtain ⟨a1, a2, a3, c, hc, hk⟩ := hI.ack.wf a ha
      exact ⟨a1, Nat.le_trans a2 (hE.term _), a3, c, hE.T c hc, hk⟩
  · -- origin
    rcases h.acks_cases ha with ⟨q, rfl, ha⟩ | ha | ha
    · obtain ⟨hq, _, a1, a2, a3, _, _, _, a7⟩ := h.ack_facts ha
      exact Or.inl ⟨q, hq, a2.symm, by rw [a1]; exact h.en.appendSrc q rfl, a3, a7⟩
    · right
      obtain ⟨happ, a1, a2, a3, c⟩ := h.selfAck_facts ha
      refine ⟨a2, ?_⟩
      obtain ⟨r, hr, hk⟩ := h.precord c.holds
      refine ⟨r, hr, by rw [hk]; unfold Ack.key; rw [a2, a3], ?_⟩
      have hrt : r.e.term = a.term := by unfold key at hk; simp only [Prod.mk.injEq] at hk; exact hk.2
      rw [a1]
      rcases c.src with ⟨s1, s2, _, _⟩ | ⟨s1, s2⟩
      · -- leader before the step: the record is new, or an old record of the leader's term
        obtain ⟨es, te, hN, _⟩ := h.newE happ
        rcases hN.mem_T hr with hn | ho
        · exact ⟨(hN.mem_new hn).1, by rw [(hN.mem_new hn).1]; exact h.en.rp.id⟩
        · exact ⟨creator_is_leader h.hV hI s1 ho (hrt.trans s2),
            cr_ne_zero hI (by rw [s1]; decide) ho (hrt.trans s2)⟩
      · exact rcreator h.hV hR (by rw [hni]; exact s1) hr (by rw [hni]; exact hrt.trans s2)
    · rcases hI.ack.src a ha with ⟨q, hq, r⟩ | ⟨e, c, hc, r⟩
      · exact Or.inl ⟨q, hq, r⟩
      · exact Or.inr ⟨e, c, hE.T c hc, r⟩
  · -- stability
    rcases h.acks_cases ha with ⟨q, rfl, ha⟩ | ha | ha
    · left
      obtain ⟨hq, hst, a1, a2, _, _, a5, _, _⟩ := h.ack_facts ha
      rw [a1, hni]
      have hbh := h.pholds hanc (show Holds _ a.key.1 a.key.2 from a5)
      refine ⟨?_, hbh⟩
      rcases (h.fst hst).2.dirty with d | d
      · -- nothing was written: an entry of the request's term is not among the node's own unflushed entries
        apply Nat.le_of_not_lt
        intro hlt
        rw [d] at hlt hbh
        obtain ⟨c, hc, c1, c2, c3⟩ := hI.node.unfl i b.1 hlt hbh.2.1
        obtain ⟨_, w2, w3, _⟩ := hI.sent.won q hq
        have := creator_of_won h.hV hI w2 w3 hc (by rw [c3]; exact h.en.rp.id)
          (by rw [c2, hbh.2.2, hb, a2])
        exact h.en.appendSrc q rfl (this.symm.trans c3)
      · rw [d]; exact hbh.2.1
    · left
      obtain ⟨_, a1, a2, a3, c⟩ := h.selfAck_facts ha
      rw [a1, hni]
      have hh : Holds ((x.node i).step op ra ord).log.entries a.key.1 a.key.2 := by
        unfold Ack.key; rw [a2, a3]; exact c.holds
      have hbh := h.pholds hanc hh
      refine ⟨?_, hbh⟩
      have := hanc.1
      have e : a.key.1 = a.index := rfl
      have := c.flushed
      omega
    · obtain ⟨c, hc, hk⟩ := (hI.ack.wf a ha).2.2.2
      rw [← hk] at hanc
      have hanc' := anc_reflect hE hc hanc
      rw [hk] at hanc'
      by_cases hv : a.voter = i
      · rw [hv, hni]
        rcases hI.ack.stable a ha b hb hanc' with d | u
        · rw [hv] at d
          rcases h.dur_post ha hv hb d with d' | u
          · exact Or.inl d'
          · exact Or.inr (hE.unsafeU (Nat.le_refl _) u)
        · rw [hv] at u
          exact Or.inr (hE.unsafeU h.vstep.1.1 u)
      · rw [h.node_j hv]
        exact (hI.ack.stable a ha b hb hanc').imp id (hE.unsafeU (Nat.le_refl _))

end SC



/-! ### votes, campaigns, elections -/

/-- the last log term of a node is not above its term -/
theorem lastLogTerm_le {V : List Nat} {x : Commit.Sys} (hI : CInv V x) (i : Nat) :
    (x.node i).lastLogTerm ≤ (x.node i).term := by
  rw [(nwf hI i).lastT]
  unfold lastTerm
  cases hl : (x.node i).log.entries.getLast? with
  | none => exact Nat.zero_le _
  | some z => exact hI.node.termLe i z (List.mem_of_getLast? hl)

/-- an elector has reached the term of the election -/
theorem elector_term {V : List Nat} {x : Commit.Sys} (hI : CInv V x) {k : Camp} (hk : k ∈ x.camps) {v : Nat}
    (he : Elector x k.cand k.term v) : k.term ≤ (x.node v).term := by
  rcases he with e | e
  · rw [e]; exact (hI.vote.campWf k hk).2.1
  · exact grant_term hI (hI.vote.countedGrant _ e)

/-- **the up-to-date check, on the tree**: a voter whose log holds `b` grants its vote only to a campaign whose
log extends `b` — unless the campaign's last entry is of a later term than the voter's and does not extend `b` -/
theorem uptodate_anc {V : List Nat} {x : Commit.Sys} (hI : CInv V x) {i : Nat} {b : Nat × Nat}
    (hh : Holds (x.node i).log.entries b.1 b.2) {k : Camp} (hk : k ∈ x.camps)
    (hup : ¬ ((x.node i).lastLogTerm > k.lastTerm ∨
      ((x.node i).lastLogTerm = k.lastTerm ∧ (x.node i).lastLogIndex > k.lastIndex))) :
    Anc x.T b k.last ∨ Unsafe x.T b k.term := by
  have hn := nwf hI i
  have hlen : 1 ≤ (x.node i).log.entries.length := by have := hh.1; have := hh.2.1; omega
  have hv := holds_last hn hlen
  have hbv : Anc x.T b ((x.node i).log.entries.length, (x.node i).lastLogTerm) := log_anc hI i hh hv hh.2.1
  have hle : b.2 ≤ (x.node i).lastLogTerm := hbv.term_le hI.tree.ok.tmono
  obtain ⟨_, _, w3, w4⟩ := hI.vote.campWf k hk
  rw [hn.last] at hup
  -- the campaign's last entry is a record
  have hrec : ∃ ck ∈ x.T, key ck = k.last := by
    rcases w4 with ⟨z1, z2⟩ | r
    · exfalso
      apply hup
      by_cases h0 : (x.node i).lastLogTerm = 0
      · right; rw [z1, z2]; exact ⟨h0, by omega⟩
      · left; rw [z2]; omega
    · exact r
  obtain ⟨ck, hck, hckk⟩ := hrec
  by_cases heq : (x.node i).lastLogTerm = k.lastTerm
  · left
    have hidx : (x.node i).log.entries.length ≤ k.lastIndex := by
      apply Nat.le_of_not_lt; intro hlt; exact hup (Or.inr ⟨heq, hlt⟩)
    obtain ⟨cv, hcv, hcvk⟩ := log_record hI i hv
    have hk1 : ck.e.index = k.lastIndex ∧ ck.e.term = k.lastTerm := by
      unfold key Camp.last at hckk; simp only [Prod.mk.injEq] at hckk; exact hckk
    have hv1 : cv.e.index = (x.node i).log.entries.length ∧ cv.e.term = (x.node i).lastLogTerm := by
      unfold key at hcvk; simp only [Prod.mk.injEq] at hcvk; exact hcvk
    have := hI.tree.ok.tblock cv hcv ck hck (by rw [hv1.2, hk1.2]; exact heq) (by rw [hv1.1, hk1.1]; exact hidx)
    rw [hcvk, hckk] at this
    exact hbv.trans (uniq hI) this
  · have hgt : (x.node i).lastLogTerm < k.lastTerm := by
      apply Nat.lt_of_le_of_ne
      · apply Nat.le_of_not_lt; intro hlt; exact hup (Or.inl hlt)
      · exact heq
    by_cases hanc : Anc x.T b k.last
    · exact Or.inl hanc
    · right
      have hk1 : ck.e.term = k.lastTerm := by
        unfold key Camp.last at hckk; simp only [Prod.mk.injEq] at hckk; exact hckk.2
      exact ⟨ck, hck, by rw [hk1]; omega, by rw [hk1]; omega, by rw [hckk]; exact hanc⟩

namespace SC
variable {V : List Nat} {x : Commit.Sys} {i : Nat} {op : Op} {ra : List Nat} {ord : List (List Nat)} {src : Nat}

/-- the (term, vote) pair after the step -/
theorem pair_post (h : SC V x i op ra ord src) :
    PairOK (x.node i) (AOp (x.node i) op) ((x.node i).step op ra ord).term ((x.node i).step op ra ord).votedFor := by
  rcases op_cases op with happ | ⟨q, rfl⟩
  · exact (h.nst happ).pair
  · by_cases hst : q.term < (x.node i).term
    · obtain ⟨_, s2, s3, _⟩ := append_stale _ q ra ord hst
      rw [s2, s3]; exact ⟨Nat.le_refl _, Or.inr (Or.inl ⟨rfl, rfl⟩)⟩
    · exact (h.fst hst).2.pair.mono (fun _ _ hf => hf.elim)

theorem camp_new (_h : SC V x i op ra ord src) {k : Camp}
    (hk : k ∈ campOf i (x.node i) ((x.node i).step op ra ord)) :
    ((x.node i).step op ra ord).term > (x.node i).term ∧ ((x.node i).step op ra ord).votedFor = i ∧
    k = Camp.mk i ((x.node i).step op ra ord).term (x.node i).lastLogIndex (x.node i).lastLogTerm := by
  unfold campOf at hk
  split at hk
  · rename_i hc
    exact ⟨hc.1, hc.2, List.mem_singleton.mp hk⟩
  · cases hk

theorem camp_cases (_h : SC V x i op ra ord src) {k : Camp} (hk : k ∈ (stepC x i op ra ord src).camps) :
    k ∈ campOf i (x.node i) ((x.node i).step op ra ord) ∨ k ∈ x.camps := List.mem_append.mp hk

/-- when the node holds a vote after the step, its new acknowledgements are of its new term -/
theorem new_acks_vote (h : SC V x i op ra ord src) (hv : ((x.node i).step op ra ord).votedFor ≠ 0) :
    ∀ a ∈ (stepC x i op ra ord src).acks, a ∈ x.acks ∨
      (a.voter = i ∧ ((x.node i).step op ra ord).term ≤ a.term) := by
  intro a ha
  have hmono := h.vstep.1.1
  rcases h.acks_cases ha with ⟨q, rfl, ha⟩ | ha | ha
  · obtain ⟨_, _, a1, a2, _, _, _, a6, _⟩ := h.ack_facts ha
    exact Or.inr ⟨a1, by rw [a2, a6]; exact Nat.le_refl _⟩
  · obtain ⟨_, a1, _, _, c⟩ := h.selfAck_facts ha
    right
    refine ⟨a1, ?_⟩
    rcases c.src with ⟨_, s2, _, s4⟩ | ⟨_, s2⟩
    · rcases s4 with s4 | s4
      · omega
      · exact absurd s4 hv
    · omega
  · exact Or.inl ha

theorem campUniq_post (h : SC V x i op ra ord src) : ∀ k ∈ (stepC x i op ra ord src).camps,
    ∀ k' ∈ (stepC x i op ra ord src).camps, k.cand = k'.cand → k.term = k'.term → k = k' := by
  have hI := h.inv
  intro k hk k' hk' hc ht
  have key : ∀ kn ∈ campOf i (x.node i) ((x.node i).step op ra ord), ∀ ko ∈ x.camps, kn.cand = ko.cand →
      kn.term = ko.term → False := by
    intro kn hkn ko hko e1 e2
    obtain ⟨n1, _, n3⟩ := h.camp_new hkn
    have := (hI.vote.campWf ko hko).2.1
    rw [← e1, ← e2, n3] at this
    have t : (x.node i).term < ((x.node i).step op ra ord).term := n1
    have this' : ((x.node i).step op ra ord).term ≤ (x.node i).term := this
    omega
  rcases h.camp_cases hk with hn | ho <;> rcases h.camp_cases hk' with hn' | ho'
  · rw [(h.camp_new hn).2.2, (h.camp_new hn').2.2]
  · exact (key k hn k' ho' hc ht).elim
  · exact (key k' hn' k ho hc.symm ht.symm).elim
  · exact hI.vote.campUniq k ho k' ho' hc ht

/-- **the up-to-date check for the vote the node holds after the step** -/
theorem vote_core (h : SC V x i op ra ord src) (hv0 : ((x.node i).step op ra ord).votedFor ≠ 0)
    {k : Camp} (hk : k ∈ (stepC x i op ra ord src).camps)
    (hkc : k.cand = ((x.node i).step op ra ord).votedFor) (hkt : k.term = ((x.node i).step op ra ord).term)
    {a : Ack} (ha : a ∈ (stepC x i op ra ord src).acks) (hav : a.voter = i) (hlt : a.term < k.term)
    {b : Nat × Nat} (hb : b.2 = a.term) (hanc : Anc (stepC x i op ra ord src).T b a.key) :
    Anc (stepC x i op ra ord src).T b k.last ∨ Unsafe (stepC x i op ra ord src).T b k.term := by
  have hI := h.inv
  have hE := h.ext
  have hnid : (x.node i).nid = i := (hI.rp.el.ids i).1
  -- the acknowledgement is an old one
  have hao : a ∈ x.acks := by
    rcases h.new_acks_vote hv0 a ha with ho | ⟨_, hn⟩
    · exact ho
    · omega
  obtain ⟨ca, hca, hcak⟩ := (hI.ack.wf a hao).2.2.2
  rw [← hcak] at hanc
  have hanc' := anc_reflect hE hca hanc
  rw [hcak] at hanc'
  have hst := hI.ack.stable a hao b hb hanc'
  rw [hav] at hst
  rcases h.pair_post.2 with p0 | ⟨p1, p2⟩ | ⟨q, rfl, p1, p2, p3, p4⟩ | ⟨p1, p2⟩
  · exact absurd p0 hv0
  · -- the vote the node held before
    have hko : k ∈ x.camps := by
      rcases h.camp_cases hk with hn | ho
      · have := (h.camp_new hn).1; omega
      · exact ho
    have hv0' : (x.node i).votedFor ≠ 0 := by rw [← p2]; exact hv0
    rcases hI.vote.voteInv i hv0' k hko (hkc.trans p2) (hkt.trans p1) a hao hav hlt b hb hanc' with r | r
    · exact Or.inl (hE.anc r)
    · exact Or.inr (hE.unsafeU (Nat.le_refl _) r)
  · -- a vote granted in this step: the request is a recorded campaign
    have hk0 : (Camp.mk q.src q.term q.lastLogIndex q.lastLogTerm) ∈ x.camps := by
      rcases h.en.vote q rfl with hs | hc
      · omega
      · exact hc
    have hkk : k = Camp.mk q.src q.term q.lastLogIndex q.lastLogTerm :=
      h.campUniq_post k hk _ (hE.camps _ hk0) (hkc.trans p2) (hkt.trans p1)
    rcases hst with ⟨_, hh⟩ | u
    · rcases uptodate_anc hI hh hk0 p4 with r | r
      · left; rw [hkk]; exact hE.anc r
      · right; rw [hkk]; exact hE.unsafeU (Nat.le_refl _) r
    · right
      rw [hkt, p1]
      exact hE.unsafeU p3 u
  · -- the self vote of an election started in this step
    have hcond : ((x.node i).step op ra ord).term > (x.node i).term ∧ ((x.node i).step op ra ord).votedFor = i :=
      ⟨p2, by rw [p1, hnid]⟩
    have hkn : (Camp.mk i ((x.node i).step op ra ord).term (x.node i).lastLogIndex (x.node i).lastLogTerm) ∈
        (stepC x i op ra ord src).camps := by
      apply List.mem_append_left
      unfold campOf
      rw [if_pos hcond]
      exact List.mem_singleton.mpr rfl
    have hkk := h.campUniq_post k hk _ hkn (hkc.trans hcond.2) hkt
    rcases hst with ⟨_, hh⟩ | u
    · left
      have hlen : 1 ≤ (x.node i).log.entries.length := by have := hh.1; have := hh.2.1; omega
      have := log_anc hI i (a := b) (c := ((x.node i).log.entries.length, (x.node i).lastLogTerm)) hh
        (holds_last (nwf hI i) hlen) hh.2.1
      rw [hkk]
      show Anc _ b ((x.node i).lastLogIndex, (x.node i).lastLogTerm)
      rw [(nwf hI i).last]
      exact hE.anc this
    · right
      rw [hkt]
      exact hE.unsafeU (Nat.le_of_lt p2) u

/-- a grant recorded in this step is the vote the node holds afterwards, and answers a recorded campaign -/
theorem grant_new (h : SC V x i op ra ord src) {g : C01.Grant}
    (hg : g ∈ Election.voteGrant i op ((x.node i).step op ra ord) ∨
      g ∈ Election.selfGrant i (x.node i) ((x.node i).step op ra ord)) :
    g.voter = i ∧ ((x.node i).step op ra ord).term = g.term ∧ ((x.node i).step op ra ord).votedFor = g.cand ∧
    g.cand ≠ 0 ∧ ∃ k ∈ (stepC x i op ra ord src).camps, k.cand = g.cand ∧ k.term = g.term := by
  have hI := h.inv
  have hwf := (hI.rp.el.ids i).2
  rcases hg with hg | hg
  · unfold Election.voteGrant at hg
    split at hg
    · rename_i z hz
      cases op with
      | vote q =>
        simp only [C05.grantOf] at hz
        split at hz
        · rename_i hs
          injection hz with hz
          subst hz
          rw [List.mem_singleton.mp hg]
          obtain ⟨p1, p2⟩ := vote_step_pair (x.node i) q ra ord hwf hs
          obtain ⟨g1, _⟩ := Election.vote_grant_agrees (x.node i) q ra ord hwf hs
          refine ⟨rfl, p1, p2, h.en.rp.voteSrc q rfl, ?_⟩
          rcases h.en.vote q rfl with hst | hc
          · omega
          · exact ⟨_, h.ext.camps _ hc, rfl, rfl⟩
        · cases hz
      | _ => simp [C05.grantOf] at hz
    · cases hg
  · obtain ⟨s1, s2, s3⟩ := C01Sys.mem_selfGrant hg
    rw [s3]
    refine ⟨rfl, rfl, s2, h.en.rp.id, Camp.mk i ((x.node i).step op ra ord).term (x.node i).lastLogIndex
      (x.node i).lastLogTerm, ?_, rfl, rfl⟩
    apply List.mem_append_left
    unfold campOf
    rw [if_pos ⟨s1, s2⟩]
    exact List.mem_singleton.mpr rfl

theorem grant_cases (_h : SC V x i op ra ord src) {g : C01.Grant}
    (hg : g ∈ (stepC x i op ra ord src).rp.el.grants) :
    (g ∈ Election.voteGrant i op ((x.node i).step op ra ord) ∨
      g ∈ Election.selfGrant i (x.node i) ((x.node i).step op ra ord)) ∨ g ∈ x.rp.el.grants := by
  have hg' : g ∈ Election.voteGrant i op ((x.node i).step op ra ord) ++
      (Election.selfGrant i (x.node i) ((x.node i).step op ra ord) ++ x.rp.el.grants) := hg
  rcases List.mem_append.mp hg' with a | a
  · exact Or.inl (Or.inl a)
  · rcases List.mem_append.mp a with a | a
    · exact Or.inl (Or.inr a)
    · exact Or.inr a

theorem counted_cases (_h : SC V x i op ra ord src) {e : Nat × Nat × Nat}
    (he : e ∈ (stepC x i op ra ord src).rp.el.counted) :
    (Counts (x.node i) op ∧ e = (i, (x.node i).term, src)) ∨ e ∈ x.rp.el.counted := by
  have he' : e ∈ Election.countedBy i (x.node i) op src ++ x.rp.el.counted := he
  rcases List.mem_append.mp he' with a | a
  · left
    by_cases hc : Counts (x.node i) op
    · exact ⟨hc, C01Sys.mem_countedBy a⟩
    · rw [Election.countedBy_not _ _ _ _ hc] at a; cases a
  · exact Or.inr a

/-- **campaigns, votes and elections** after a completed step -/
theorem voteI (h : SC V x i op ra ord src) : VoteI V (stepC x i op ra ord src) := by
  have hI := h.inv
  have hE := h.ext
  have hni := h.node_i
  have hnid : (x.node i).nid = i := (hI.rp.el.ids i).1
  have hmono := h.vstep.1.1
  have hwfa : ∀ a ∈ x.acks, ∃ c ∈ x.T, key c = a.key := fun a ha => (hI.ack.wf a ha).2.2.2
  -- a new campaign is for a term no old campaign, grant or counted vote of the node mentions
  have newk : ∀ k ∈ campOf i (x.node i) ((x.node i).step op ra ord),
      k.cand = i ∧ (x.node i).term < k.term ∧ k.term = ((x.node i).step op ra ord).term ∧
      ((x.node i).step op ra ord).votedFor = i ∧ k.last = ((x.node i).lastLogIndex, (x.node i).lastLogTerm) := by
    intro k hk
    obtain ⟨n1, n2, n3⟩ := h.camp_new hk
    rw [n3]; exact ⟨rfl, n1, rfl, n2, rfl⟩
  refine ⟨h.campUniq_post, fun k hk => ?_, fun v hv hvv => ?_, fun v hv k hk hkc hkt a ha hav hlt b hb hanc => ?_,
    fun g hg k hk hkc hkt a ha hav hlt b hb hanc => ?_, fun k hk v hel => ?_, fun e he => ?_, fun g hg => ?_⟩
  · -- campaigns are well formed
    rcases h.camp_cases hk with hn | ho
    · obtain ⟨n1, n2, n3, _, n5⟩ := newk k hn
      have hlt := lastLogTerm_le hI i
      refine ⟨by rw [n1]; exact h.en.rp.id, by rw [n1, hni, n3]; exact Nat.le_refl _, ?_, ?_⟩
      · have : k.lastTerm = (x.node i).lastLogTerm := congrArg Prod.snd n5
        omega
      · by_cases h0 : (x.node i).log.entries.length = 0
        · left
          have e1 : k.lastIndex = (x.node i).lastLogIndex := congrArg Prod.fst n5
          have e2 : k.lastTerm = (x.node i).lastLogTerm := congrArg Prod.snd n5
          refine ⟨by rw [e1, (nwf hI i).last]; exact h0, ?_⟩
          rw [e2, (nwf hI i).lastT, List.eq_nil_of_length_eq_zero h0]; rfl
        · right
          obtain ⟨c, hc, hck⟩ := log_record hI i (holds_last (nwf hI i) (by omega))
          exact ⟨c, hE.T c hc, by rw [hck, n5, (nwf hI i).last]⟩
    · obtain ⟨a1, a2, a3, a4⟩ := hI.vote.campWf k ho
      refine ⟨a1, Nat.le_trans a2 (hE.term _), a3, a4.imp id ?_⟩
      rintro ⟨c, hc, hck⟩
      exact ⟨c, hE.T c hc, hck⟩
  · -- a vote for somebody else answers a campaign
    by_cases hvi : v = i
    · subst hvi
      rw [hni] at hv hvv ⊢
      rcases h.pair_post.2 with p0 | ⟨p1, p2⟩ | ⟨q, rfl, p1, p2, p3, _⟩ | ⟨p1, _⟩
      · exact absurd p0 hv
      · obtain ⟨k, hk, k1, k2⟩ := hI.vote.voteCamp v (by rw [← p2]; exact hv) (by rw [← p2]; exact hvv)
        exact ⟨k, hE.camps k hk, by rw [k1, p2], by rw [k2, p1]⟩
      · rcases h.en.vote q rfl with hst | hc
        · omega
        · exact ⟨_, hE.camps _ hc, p2.symm, p1.symm⟩
      · rw [p1, hnid] at hvv; exact absurd rfl hvv
    · rw [h.node_j hvi] at hv hvv ⊢
      obtain ⟨k, hk, r⟩ := hI.vote.voteCamp v hv hvv
      exact ⟨k, hE.camps k hk, r⟩
  · -- the vote a node holds
    by_cases hvi : v = i
    · subst hvi
      rw [hni] at hv hkc hkt
      exact h.vote_core hv hk hkc hkt ha hav hlt hb hanc
    · rw [h.node_j hvi] at hv hkc hkt
      have hko : k ∈ x.camps := by
        rcases h.camp_cases hk with hn | ho
        · exfalso
          obtain ⟨n1, n2, _⟩ := newk k hn
          have hvv : (x.node v).votedFor ≠ v := by rw [← hkc, n1]; exact fun e => hvi e.symm
          obtain ⟨k', hk', k1, k2⟩ := hI.vote.voteCamp v hv hvv
          have := (hI.vote.campWf k' hk').2.1
          rw [k1, ← hkc, n1, k2, ← hkt] at this
          omega
        · exact ho
      have hao : a ∈ x.acks := by
        rcases h.new_acks a ha with ho | ⟨hn, _⟩
        · exact ho
        · exact absurd (hav.symm.trans hn) hvi
      obtain ⟨ca, hca, hcak⟩ := hwfa a hao
      rw [← hcak] at hanc
      have hanc' := anc_reflect hE hca hanc
      rw [hcak] at hanc'
      rcases hI.vote.voteInv v hv k hko hkc hkt a hao hav hlt b hb hanc' with r | r
      · exact Or.inl (hE.anc r)
      · exact Or.inr (hE.unsafeU (Nat.le_refl _) r)
  · -- every recorded grant
    rcases h.grant_cases hg with hn | ho
    · obtain ⟨g1, g2, g3, g4, _⟩ := h.grant_new hn
      exact h.vote_core (by rw [g3]; exact g4) hk (hkc.trans g3.symm) (hkt.trans g2.symm) ha (hav.trans g1) hlt hb hanc
    · have hgt := grant_term hI ho
      have hko : k ∈ x.camps := by
        rcases h.camp_cases hk with hn | ho'
        · exfalso
          obtain ⟨n1, n2, _⟩ := newk k hn
          obtain ⟨k', hk', k1, k2⟩ := hI.vote.grantCamp g ho
          have := (hI.vote.campWf k' hk').2.1
          rw [k1, ← hkc, n1, k2, ← hkt] at this
          omega
        · exact ho'
      have hao : a ∈ x.acks := by
        rcases h.new_acks a ha with ho' | ⟨hn, hn2⟩
        · exact ho'
        · exfalso
          rw [← hav, hn] at hgt
          omega
      obtain ⟨ca, hca, hcak⟩ := hwfa a hao
      rw [← hcak] at hanc
      have hanc' := anc_reflect hE hca hanc
      rw [hcak] at hanc'
      rcases hI.vote.grantInv g ho k hko hkc hkt a hao hav hlt b hb hanc' with r | r
      · exact Or.inl (hE.anc r)
      · exact Or.inr (hE.unsafeU (Nat.le_refl _) r)
  · -- the voters a candidate counted
    rcases h.camp_cases hk with hn | ho
    · -- a new campaign: only the candidate itself
      obtain ⟨n1, n2, n3, n4, n5⟩ := newk k hn
      have hvi : v = i := by
        rcases hel with e | e
        · exact e.trans n1
        · exfalso
          rcases h.counted_cases e with ⟨_, e'⟩ | e'
          · injection e' with _ e'; injection e' with e' _; omega
          · have := hI.rp.el.countedTerm _ e'
            have this' : k.term ≤ (x.node k.cand).term := this
            rw [n1] at this'; omega
      subst hvi
      intro a ha hav hlt b hb hanc
      have hv0 : ((x.node v).step op ra ord).votedFor ≠ 0 := by rw [n4]; exact h.en.rp.id
      have hao : a ∈ x.acks := by
        rcases h.new_acks_vote hv0 a ha with ho | ⟨_, hn⟩
        · exact ho
        · omega
      obtain ⟨ca, hca, hcak⟩ := hwfa a hao
      rw [← hcak] at hanc
      have hanc' := anc_reflect hE hca hanc
      rw [hcak] at hanc'
      have hst := hI.ack.stable a hao b hb hanc'
      rw [hav] at hst
      rcases hst with ⟨_, hh⟩ | ⟨c, hc, c1, c2, c3⟩
      · left
        have hlen : 1 ≤ (x.node v).log.entries.length := by have := hh.1; have := hh.2.1; omega
        have := log_anc hI v (a := b) (c := ((x.node v).log.entries.length, (x.node v).lastLogTerm)) hh
          (holds_last (nwf hI v) hlen) hh.2.1
        rw [n5, (nwf hI v).last]
        exact hE.anc this
      · right; left
        exact ⟨c, hE.T c hc, c1, by omega, hE.not_anc hc c3⟩
    · -- an old campaign
      have hup : ∀ u, Elector x k.cand k.term u → UpTo x k u → UpTo (stepC x i op ra ord src) k u := by
        intro u hu hux
        refine upTo_mono hE hwfa (fun a ha => ?_) hux
        rcases h.new_acks a ha with ho' | ⟨a1, a2⟩
        · exact Or.inl ho'
        · right
          intro hau
          have := elector_term hI ho hu
          rw [← hau, a1] at this
          omega
      rcases hel with e | e
      · exact hup v (Or.inl e) (hI.vote.electInv k ho v (Or.inl e))
      · rcases h.counted_cases e with ⟨hc, e'⟩ | e'
        · injection e' with e1 e'
          injection e' with e2 e3
          obtain ⟨r1, _, r3, _⟩ := h.en.rp.real hc
          have hux : UpTo x k v := by
            rw [e3]
            exact upTo_of_grant hI hc.1 ho e1 e2 r3
          refine upTo_mono hE hwfa (fun a ha => ?_) hux
          rcases h.new_acks a ha with ho' | ⟨a1, _⟩
          · exact Or.inl ho'
          · right
            intro hau
            rw [e3] at hau
            exact absurd (hau.symm.trans a1) r1
        · exact hup v (Or.inr e') (hI.vote.electInv k ho v (Or.inr e'))
  · rcases h.counted_cases he with ⟨hc, e'⟩ | e'
    · rw [e']
      exact hE.grants _ (h.en.rp.real hc).2.2.1
    · exact hE.grants _ (hI.vote.countedGrant e e')
  · rcases h.grant_cases hg with hn | ho
    · exact (h.grant_new hn).2.2.2.2
    · obtain ⟨k, hk, r⟩ := hI.vote.grantCamp g ho
      exact ⟨k, hE.camps k hk, r⟩

end SC



/-! ### commitment -/

theorem rone_creator {V : List Nat} (hV : V.Nodup) {y : Commit.Sys} (hR : Replication.Inv V y.rp) {c d : CEntry}
    (hc : c ∈ y.T) (hd : d ∈ y.T) (hc0 : c.cr ≠ 0) (hd0 : d.cr ≠ 0) (ht : c.e.term = d.e.term) : c.cr = d.cr := by
  obtain ⟨a1, a2, _⟩ := hR.own c hc hc0
  obtain ⟨b1, b2, _⟩ := hR.own d hd hd0
  rcases a2 with q | a2
  · exact C04Sys.mem_of_short q a1 b1
  · rcases b2 with q | b2
    · exact C04Sys.mem_of_short q a1 b1
    · rw [ht] at a2
      exact election_safety_partial y.rp.el.grants V hV hR.el.unique _ _ _ a2 b2

/-- **a request that is not stale does not conflict with what the receiver has committed** -/
theorem reqok {V : List Nat} {x : Commit.Sys} (hI : CInv V x) {i : Nat} {q : AppendReq} (hq : q ∈ x.rp.sent)
    (hns : ¬ q.term < (x.node i).term) : NoConf (x.node i) q (x.node i).commitIndex := by
  intro e he hle
  have hidx := (hI.rp.sent q hq).idx
  have h1 : 1 ≤ e.index := by
    obtain ⟨j, hj, rfl⟩ := List.getElem_of_mem he
    rw [hidx j hj]; omega
  obtain ⟨hlen, m, hm, m1, m2⟩ := hI.cmt.cc i e.index h1 hle
  obtain ⟨c, hc, c1, c2, _⟩ := hI.sent.anc q hq
  have hec := c2 e he
  -- `m` and `c` lie on one path, so the two keys with index `e.index` below them coincide
  have fin : ∀ z : Nat × Nat, Anc x.T (e.index, termAt (x.node i).log.entries e.index) z →
      Anc x.T (e.index, e.term) z → termAt (x.node i).log.entries e.index = e.term := by
    intro z h1 h2
    have := (h1.comparable (uniq hI) h2 (Nat.le_refl _)).eq_of_index rfl
    exact congrArg Prod.snd this
  by_cases hlt : m.2 < q.term
  · have hmc := hI.cmt.lc m hm c hc (by rw [c1]; exact hlt)
    exact fin (key c) (m2.trans (uniq hI) hmc) hec
  · have hmt : m.2 = c.e.term := by rw [c1]; omega
    obtain ⟨⟨cm, hcm, hcmk, _⟩, _⟩ := hI.cmt.quorum m hm
    have e1 : cm.e.term = c.e.term := by
      have : cm.e.term = m.2 := by unfold key at hcmk; rw [← hcmk]
      rw [this, hmt]
    by_cases hidx' : cm.e.index ≤ c.e.index
    · have := hI.tree.ok.tblock cm hcm c hc e1 hidx'
      rw [hcmk] at this
      exact fin (key c) (m2.trans (uniq hI) this) hec
    · have := hI.tree.ok.tblock c hc cm hcm e1.symm (by omega)
      rw [hcmk] at this
      exact fin m m2 (hec.trans (uniq hI) this)

namespace SC
variable {V : List Nat} {x : Commit.Sys} {i : Nat} {op : Op} {ra : List Nat} {ord : List (List Nat)} {src : Nat}

/-- the record of the entry a leader-side commit reached: created by the node itself -/
theorem commit_record (h : SC V x i op ra ord src) (happ : ∀ q, op ≠ .append q) {T : Nat}
    (c : CEv (x.node i) (Backed x i) ((x.node i).step op ra ord) T) :
    ∃ r ∈ (stepC x i op ra ord src).T, key r = (((x.node i).step op ra ord).commitIndex, T) ∧ r.cr = i := by
  have hI := h.inv
  obtain ⟨r, hr, hk⟩ := h.precord c.holds
  refine ⟨r, hr, hk, ?_⟩
  have hrt : r.e.term = T := by unfold key at hk; simp only [Prod.mk.injEq] at hk; exact hk.2
  rcases c.src with ⟨s1, s2, _, _⟩ | ⟨s1, s2⟩
  · obtain ⟨es, te, hN, _⟩ := h.newE happ
    rcases hN.mem_T hr with hn | ho
    · exact (hN.mem_new hn).1
    · exact creator_is_leader h.hV hI s1 ho (hrt.trans s2)
  · exact (rcreator h.hV h.ry (by rw [h.node_i]; exact s1) hr (by rw [h.node_i]; exact hrt.trans s2)).1

theorem commit_cases (_h : SC V x i op ra ord src) {m : Nat × Nat}
    (hm : m ∈ (stepC x i op ra ord src).committed) :
    (LeaderCommit op (x.node i) ((x.node i).step op ra ord) ∧
      m = (((x.node i).step op ra ord).commitIndex,
        termAt ((x.node i).step op ra ord).log.entries ((x.node i).step op ra ord).commitIndex)) ∨
    m ∈ x.committed := by
  rcases List.mem_append.mp hm with a | a
  · left
    unfold newCommit at a
    split at a
    · rename_i hlc; exact ⟨hlc, List.mem_singleton.mp a⟩
    · cases a
  · exact Or.inr a

theorem lc_happ {op : Op} {pre post : Node} (hlc : LeaderCommit op pre post) : ∀ q, op ≠ .append q := by
  intro q hq
  rw [hq] at hlc
  have := hlc.1
  simp [isAppend] at this

/-- the quorum behind a leader-side commit -/
theorem quorum_new (h : SC V x i op ra ord src) (hlc : LeaderCommit op (x.node i) ((x.node i).step op ra ord))
    {T : Nat} (c : CEv (x.node i) (Backed x i) ((x.node i).step op ra ord) T) :
    ∃ Q : List Nat, Q.Nodup ∧ (∀ v ∈ Q, v ∈ V) ∧ 2 * Q.length > V.length ∧
      ∀ v ∈ Q, ∃ a ∈ (stepC x i op ra ord src).acks, a.voter = v ∧ a.term = T ∧
        Anc (stepC x i op ra ord src).T (((x.node i).step op ra ord).commitIndex, T) a.key := by
  have hI := h.inv
  have happ := lc_happ hlc
  have hT : termAt ((x.node i).step op ra ord).log.entries ((x.node i).step op ra ord).commitIndex = T :=
    c.holds.2.2
  obtain ⟨Q, q1, q2, q3, q4⟩ := c.maj
  rw [(h.side.1 i).2] at q2 q3
  refine ⟨Q, q1, q2, q3, fun v hv => ?_⟩
  rcases q4 v hv with e | ⟨s1, s2, m', hm', a, ha, a1, a2, a3⟩
  · -- the leader itself: its self acknowledgement
    refine ⟨⟨i, T, ((x.node i).step op ra ord).commitIndex, T⟩, ?_, ?_, rfl, ?_⟩
    · apply List.mem_append_right
      apply List.mem_append_left
      unfold selfAck
      rw [if_pos hlc, hT]
      exact List.mem_singleton.mpr rfl
    · rw [e]; exact (hI.rp.el.ids i).1.symm
    · exact h.panc c.holds c.holds (Nat.le_refl _)
  · -- another voter: the acknowledgement backing its match index
    refine ⟨a, h.ext.acks a ha, a1, by rw [a2, s2], ?_⟩
    obtain ⟨es, te, _, hl⟩ := h.newE happ
    have hh := ack_on_leader h.hV hI s1 ha a2
    have hh' : Holds ((x.node i).step op ra ord).log.entries a.key.1 a.key.2 := by
      rw [hl]; exact holds_prefix (List.prefix_append _ _) hh
    exact h.panc c.holds hh' (by show _ ≤ a.index; omega)

/-- **commitment** after a completed step -/
theorem cmtI (h : SC V x i op ra ord src) : CmtI V (stepC x i op ra ord src) := by
  have hI := h.inv
  have hE := h.ext
  have hR := h.ry
  have hni := h.node_i
  have hTy := h.treeI
  -- the quorum of every ledger entry
  have hquo : ∀ m ∈ (stepC x i op ra ord src).committed,
      (∃ c ∈ (stepC x i op ra ord src).T, key c = m ∧ c.cr ≠ 0) ∧
      ∃ Q : List Nat, Q.Nodup ∧ (∀ v ∈ Q, v ∈ V) ∧ 2 * Q.length > V.length ∧
        ∀ v ∈ Q, ∃ a ∈ (stepC x i op ra ord src).acks, a.voter = v ∧ a.term = m.2 ∧
          Anc (stepC x i op ra ord src).T m a.key := by
    intro m hm
    rcases h.commit_cases hm with ⟨hlc, rfl⟩ | ho
    · obtain ⟨T, c, hT⟩ := h.commit_ev (lc_happ hlc) hlc
      rw [hT]
      obtain ⟨r, hr, hk, hcr⟩ := h.commit_record (lc_happ hlc) c
      exact ⟨⟨r, hr, hk, by rw [hcr]; exact h.en.rp.id⟩, h.quorum_new hlc c⟩
    · obtain ⟨⟨c, hc, hk, h0⟩, Q, q1, q2, q3, q4⟩ := hI.cmt.quorum m ho
      refine ⟨⟨c, hE.T c hc, hk, h0⟩, Q, q1, q2, q3, fun v hv => ?_⟩
      obtain ⟨a, ha, r1, r2, r3⟩ := q4 v hv
      exact ⟨a, hE.acks a ha, r1, r2, hE.anc r3⟩
  refine ⟨hquo, fun m hm c hc hlt => ?_, fun j k hk hk2 => ?_⟩
  · -- leader completeness
    rcases h.commit_cases hm with ⟨hlc, rfl⟩ | ho
    · -- a new ledger entry: induction on the term of `c`
      have happ := lc_happ hlc
      obtain ⟨T, cev, hT⟩ := h.commit_ev happ hlc
      have key : ∀ n, ∀ c ∈ (stepC x i op ra ord src).T, c.e.term = n → T < n →
          Anc (stepC x i op ra ord src).T (((x.node i).step op ra ord).commitIndex, T) (key c) := by
        intro n
        induction n using Nat.strongRecOn with
        | ind n ih =>
          intro c hc hcn hTn
          have h0 : c.cr ≠ 0 := by
            intro h0
            obtain ⟨es, te, hN, _⟩ := h.newE happ
            have hco : c ∈ x.T := by
              rcases hN.mem_T hc with hn | ho
              · exact absurd ((hN.mem_new hn).1.symm.trans h0) h.en.rp.id
              · exact ho
            rcases cev.src with ⟨s1, s2, _, _⟩ | ⟨s1, s2⟩
            · have : c.e.term < (x.node i).term :=
                (hI.rp.init0 c hco h0 i).2 (by rw [show (x.rp.el.node i).role = _ from s1]; decide)
              omega
            · have : c.e.term < ((stepC x i op ra ord src).node i).term :=
                (hR.init0 c hc h0 i).2 (by
                  rw [show ((stepC x i op ra ord src).rp.el.node i) = _ from hni, s1]; decide)
              rw [hni] at this
              omega
          obtain ⟨k, _, k1, k2, _, k4, Q, q1, q2, q3, q4⟩ := hTy.crElect c hc h0
          have hq := (hquo _ hm).2
          rw [hT] at hq
          refine lc_core h.hV hR.uniq (by show T < c.e.term; omega) hq
            ⟨k, k1, k2, k4, Q, q1, q2, q3, fun v hv => (q4 v hv).2⟩ (fun c' hc' l1 l2 => ?_)
            (fun c' hc' e1 e0 => rone_creator h.hV hR hc' hc e0 h0 e1)
          exact ih c'.e.term (by omega) c' hc' rfl l1
      rw [hT] at hlt ⊢
      exact key c.e.term c hc rfl hlt
    · rcases op_cases op with happ | ⟨q, rfl⟩
      · obtain ⟨es, te, hN, _⟩ := h.newE happ
        rcases hN.mem_T hc with hn | hco
        · exact hN.lc_new ho hn hlt
        · exact hE.anc (hI.cmt.lc m ho c hco hlt)
      · exact hE.anc (hI.cmt.lc m ho c hc hlt)
  · -- the commit index covers committed entries only
    by_cases hj : j = i
    · subst hj
      rw [hni] at hk2 ⊢
      have hmono := h.vstep.1.1
      -- what is known when the commit index did not move past `k`
      have old : k ≤ (x.node j).commitIndex →
          ((x.node j).step op ra ord).log.entries.take k = (x.node j).log.entries.take k →
          k ≤ ((x.node j).step op ra ord).log.entries.length ∧
          Cmt (stepC x j op ra ord src) (k, termAt ((x.node j).step op ra ord).log.entries k)
            ((x.node j).step op ra ord).term := by
        intro hle htk
        obtain ⟨c1, c2⟩ := hI.cmt.cc j k hk hle
        have hl := congrArg List.length htk
        simp only [List.length_take] at hl
        refine ⟨by omega, ?_⟩
        rw [termAt_of_take_eq htk (Nat.le_refl _)]
        exact hE.cmt hmono c2
      rcases op_cases op with happ | ⟨q, rfl⟩
      · obtain ⟨es, te, _, hl⟩ := h.newE happ
        rcases (h.nst happ).ci with c | ⟨T, cev⟩
        · rw [c] at hk2
          refine old hk2 ?_
          obtain ⟨c1, _⟩ := hI.cmt.cc j k hk hk2
          rw [hl, List.take_append_of_le_length c1]
        · have hkl : k ≤ ((x.node j).step op ra ord).log.entries.length := Nat.le_trans hk2 cev.holds.2.1
          refine ⟨hkl, (((x.node j).step op ra ord).commitIndex, T), ?_, (h.cev_term_ge cev).2, ?_⟩
          · apply List.mem_append_left
            unfold newCommit
            rw [if_pos ⟨isAppend_false op happ, cev.adv⟩, cev.holds.2.2]
            exact List.mem_singleton.mpr rfl
          · exact h.panc ⟨hk, hkl, rfl⟩ cev.holds hk2
      · by_cases hst : q.term < (x.node j).term
        · obtain ⟨s1, _, _, s4, _⟩ := append_stale _ q ra ord hst
          rw [s4] at hk2
          exact old hk2 (by rw [s1])
        · obtain ⟨hq, fs⟩ := h.fst hst
          have hnc := reqok hI (i := j) hq hst
          by_cases hle : k ≤ (x.node j).commitIndex
          · obtain ⟨c1, _⟩ := hI.cmt.cc j k hk hle
            exact old hle (fs.keep k c1 (fun e he hek => hnc e he (by omega))).1
          · rcases fs.ci with c | ⟨_, c2, _, c4, c5⟩
            · rw [c] at hk2; exact absurd hk2 hle
            · have hkl : k ≤ ((x.node j).step (.append q) ra ord).log.entries.length :=
                Nat.le_trans hk2 c4.2.1
              refine ⟨hkl, ?_⟩
              have hcm : Cmt x (((x.node j).step (.append q) ra ord).commitIndex, q.term) q.term := by
                obtain ⟨s1, s2⟩ := hI.sent.cmt q hq
                rcases c5 with ⟨e1, e2⟩ | ⟨e, he, e1, e2⟩
                · have h2 := s2 (by rw [← e1]; exact c4.1) (by rw [← e1]; exact c2)
                  rw [e2, ← e1] at h2
                  exact h2
                · have h1 := s1 e he (by rw [e1]; exact c2)
                  rw [e1, e2] at h1
                  exact h1
              obtain ⟨m, hm, m1, m2⟩ := hcm
              refine ⟨m, hE.committed m hm, by rw [fs.term hst]; exact m1, ?_⟩
              exact (h.panc ⟨hk, hkl, rfl⟩ c4 hk2).trans hR.uniq (hE.anc m2)
    · rw [h.node_j hj] at hk2 ⊢
      obtain ⟨c1, c2⟩ := hI.cmt.cc j k hk hk2
      exact ⟨c1, hE.cmt (Nat.le_refl _) c2⟩

/-- **the invariant is preserved by a completed step** -/
theorem cinv (h : SC V x i op ra ord src) : CInv V (stepC x i op ra ord src) :=
  ⟨h.ry, h.treeI, h.nodeI, h.sentI, h.ackI, h.voteI, h.cmtI⟩

end SC



/-! ### a crash during a step, and the restart -/

theorem lastTerm_append_ne (b es : List Entry) (hne : es ≠ []) : lastTerm (b ++ es) = (es.getLast hne).term := by
  unfold lastTerm
  rw [List.getLast?_append, List.getLast?_eq_some_getLast hne]
  rfl

/-- what is on disk when node `i` dies while handling `op` -/
structure DImg (x : Commit.Sys) (i : Nat) (op : Op) (post : Node) (d : Durable) : Prop where
  snaps : d.snaps = []
  prev : d.log.prev = 0
  dw : DW d
  pair : PairOK (x.node i) (AOp (x.node i) op) d.term d.vote
  termLe : ∀ e ∈ d.log.entries, e.term ≤ d.term
  dur : ∀ a ∈ x.acks, a.voter = i → ∀ b : Nat × Nat, b.2 = a.term → DurHolds (x.node i) b →
    (b.1 ≤ d.log.entries.length ∧ Holds d.log.entries b.1 b.2) ∨ Unsafe x.T b d.term
  within : (∀ q, op ≠ .append q) → d.log.entries <+: (x.node i).log.entries ∨ d.log.entries <+: post.log.entries
  growp : (∀ q, op ≠ .append q) → (x.node i).log.entries.length < d.log.entries.length →
    (d.term = post.term ∧ d.vote = post.votedFor) ∨
    ((x.node i).role = .leader ∧ lastTerm d.log.entries = (x.node i).term)

namespace SC
variable {V : List Nat} {x : Commit.Sys} {i : Nat} {op : Op} {ra : List Nat} {ord : List (List Nat)} {src : Nat}

theorem nwf_post (h : SC V x i op ra ord src) : NWF ((x.node i).step op ra ord) := by
  have := (h.ry.nodes i).1
  rwa [show (stepC x i op ra ord src).rp.el.node i = _ from h.node_i] at this

theorem img_pre (h : SC V x i op ra ord src) : DImg x i op ((x.node i).step op ra ord) (x.node i).durable := by
  have hI := h.inv
  have hn := nwf hI i
  have hwf := (hI.rp.el.ids i).2
  have hd : (x.node i).durable.log.entries = (x.node i).log.entries.take (x.node i).log.flushed :=
    durable_entries hn
  refine ⟨hn.snaps, hn.prev, durable_dw _ hn.prev (hI.node.lwf i), ?_, fun e he => ?_, fun a _ _ b _ hb => ?_,
    fun _ => Or.inl (by rw [hd]; exact List.take_prefix _ _), fun _ hg => ?_⟩
  · show PairOK _ _ (x.node i).durTerm (x.node i).durVote
    rw [hwf.1, hwf.2]; exact ⟨Nat.le_refl _, Or.inr (Or.inl ⟨rfl, rfl⟩)⟩
  · rw [hd] at he
    show e.term ≤ (x.node i).durTerm
    rw [hwf.1]; exact hI.node.termLe i e (List.mem_of_mem_take he)
  · left
    rw [hd, List.length_take]
    have := hb.2.2.1
    refine ⟨by have := hb.1; omega, holds_of_take_eq (k := (x.node i).log.flushed) ?_ hb.2 hb.1⟩
    rw [List.take_take, Nat.min_self]
  · rw [hd, List.length_take] at hg; omega

theorem img_post (h : SC V x i op ra ord src) :
    DImg x i op ((x.node i).step op ra ord) ((x.node i).step op ra ord).durable := by
  have hI := h.inv
  have hn := h.nwf_post
  have hwf := h.vstep.2
  have hd : ((x.node i).step op ra ord).durable.log.entries =
      ((x.node i).step op ra ord).log.entries.take ((x.node i).step op ra ord).log.flushed := durable_entries hn
  refine ⟨hn.snaps, hn.prev, durable_dw _ hn.prev h.lwf_post, ?_, fun e he => ?_, fun a ha hv b hb hdur => ?_,
    fun _ => Or.inr (by rw [hd]; exact List.take_prefix _ _), fun _ _ => Or.inl ⟨hwf.1, hwf.2⟩⟩
  · show PairOK _ _ ((x.node i).step op ra ord).durTerm ((x.node i).step op ra ord).durVote
    rw [hwf.1, hwf.2]; exact h.pair_post
  · rw [hd] at he
    show e.term ≤ ((x.node i).step op ra ord).durTerm
    rw [hwf.1]; exact h.termLe_post e (List.mem_of_mem_take he)
  · rcases h.dur_post ha hv hb hdur with ⟨d1, d2⟩ | u
    · left
      rw [hd, List.length_take]
      have := d2.2.1
      refine ⟨by omega, holds_of_take_eq (k := ((x.node i).step op ra ord).log.flushed) ?_ d2 d1⟩
      rw [List.take_take, Nat.min_self]
    · right
      show Unsafe x.T b ((x.node i).step op ra ord).durTerm
      rw [hwf.1]; exact u

theorem img_trace (h : SC V x i op ra ord src) {p : String × Durable}
    (hp : p ∈ ((x.node i).step op ra ord).trace) : DImg x i op ((x.node i).step op ra ord) p.2 := by
  have hI := h.inv
  have hn := nwf hI i
  rcases op_cases op with happ | ⟨q, rfl⟩
  · have ns := h.nst happ
    have ls := leader_step (x.node i) op ra ord hn (hI.rp.el.ids i).2 (h.side.1 i).1 h.en.ok2.1 happ
      (fun hc => (hI.rp.el.cand i hc).term_pos)
    obtain ⟨es, te, l1, l2, _, _, l5⟩ := ls.ext
    obtain ⟨t1, t2, t3⟩ := ns.tr p hp
    obtain ⟨o1, o2, o3⟩ := l5 p hp
    refine ⟨o1, o2, t3, t2, fun e he => ?_, fun a _ _ b _ hb => ?_, fun _ => o3.imp id (fun z => z.1),
      fun _ hg => ns.trgrow p hp hg⟩
    · rcases o3 with o3 | ⟨o3, o4⟩
      · exact Nat.le_trans (hI.node.termLe i e (o3.subset he)) t2.1
      · have := o3.subset he
        rw [l1] at this
        rcases List.mem_append.mp this with m | m
        · exact Nat.le_trans (hI.node.termLe i e m) t2.1
        · rw [l2 e m]; exact o4
    · left
      have hh : Holds ((x.node i).log.entries.take (x.node i).log.flushed) b.1 b.2 := by
        have := hb.2.2.1
        refine holds_of_take_eq (k := (x.node i).log.flushed) ?_ hb.2 hb.1
        rw [List.take_take, Nat.min_self]
      have := holds_prefix t1 hh
      exact ⟨this.2.1, this⟩
  · by_cases hst : q.term < (x.node i).term
    · rw [(append_stale _ q ra ord hst).2.2.2.2.1] at hp; cases hp
    · obtain ⟨hq, fs⟩ := h.fst hst
      have pf := fs.tr p hp
      have hge : (x.node i).term ≤ q.term := Nat.le_of_not_lt hst
      refine ⟨pf.snaps, pf.prev, pf.segs, pf.pair.mono (fun _ _ hf => hf.elim), fun e he => ?_,
        fun a ha hv b hb hdur => ?_, fun hna => absurd rfl (hna q), fun hna => absurd rfl (hna q)⟩
      · rw [pf.term hge]
        rcases pf.src e he with m | m
        · exact Nat.le_trans (hI.node.termLe i e m) hge
        · exact (hI.sent.term q hq).1 e m
      · by_cases hnc : NoConf (x.node i) q b.1
        · left
          obtain ⟨k1, k2⟩ := pf.keep b.1 hdur.1 hdur.2.2.1 hnc
          exact ⟨k2, holds_of_take_eq k1 hdur.2 (Nat.le_refl _)⟩
        · right
          have : ∃ e ∈ q.entries, e.index ≤ b.1 ∧ termAt (x.node i).log.entries e.index ≠ e.term := by
            apply Classical.byContradiction
            intro hn'
            apply hnc
            intro e he hle
            apply Classical.byContradiction
            intro hne
            exact hn' ⟨e, he, hle, hne⟩
          obtain ⟨e, he, hle, hne⟩ := this
          rw [pf.term hge]
          exact conflict_unsafe hI ha hv hb hdur.2 hq hst he hle hne

/-- what is on disk at any moment the process may die -/
theorem img (h : SC V x i op ra ord src) (k : Nat) :
    DImg x i op ((x.node i).step op ra ord) (C05.crashDisk (x.node i) op ra ord k) := by
  rcases C04Sys.crashDisk_cases (x.node i) op ra ord k with e | ⟨p, hp, e⟩ | e
  · rw [e]; exact h.img_pre
  · rw [e]; exact h.img_trace hp
  · rw [e]; exact h.img_post

/-- a node whose log grew by entries of a term above its old term elected itself in this step -/
theorem elected (h : SC V x i op ra ord src) (happ : ∀ q, op ≠ .append q)
    (hg : (x.node i).log.entries.length < ((x.node i).step op ra ord).log.entries.length)
    (ht : (x.node i).term < lastTerm ((x.node i).step op ra ord).log.entries) :
    ((x.node i).step op ra ord).role = .leader ∧
    ((x.node i).step op ra ord).term = lastTerm ((x.node i).step op ra ord).log.entries ∧
    ((x.node i).step op ra ord).votedFor = i := by
  have ns := h.nst happ
  have hl : ((x.node i).step op ra ord).role = .leader := by
    rcases ns.grow hg with ⟨_, a⟩ | a
    · omega
    · exact a
  have htm : ((x.node i).step op ra ord).term = lastTerm ((x.node i).step op ra ord).log.entries := by
    rcases ns.ldr hl with ⟨_, _, lo⟩ | lo
    · rw [← lo.lastT, h.nwf_post.lastT]
    · rw [← lo.lastT, h.nwf_post.lastT]
  refine ⟨hl, htm, ?_⟩
  rcases h.rstep.leader hl with ⟨_, a⟩ | ⟨_, _, a⟩ | ne
  · omega
  · omega
  · rw [ne.vote_self, (h.inv.rp.el.ids i).1]

end SC

/-- the state after node `i` died while handling `op` and restarted as `n` (the target of `Commit.Trans.crash`) -/
def crashC (x : Commit.Sys) (i : Nat) (op : Op) (n : Node) : Commit.Sys :=
  { x with rp := crashRp x i op n, camps := campOf i (x.node i) n ++ x.camps }

/-- the hypotheses under which a crash is analysed -/
structure CC (V : List Nat) (x : Commit.Sys) (i : Nat) (op : Op) (ra : List Nat) (ord : List (List Nat))
    (src k retain : Nat) (sor : Bool) (n : Node) : Prop where
  sc : SC V x i op ra ord src
  hn : Node.restart (C05.crashDisk (x.node i) op ra ord k) retain sor = some n

namespace CC
variable {V : List Nat} {x : Commit.Sys} {i : Nat} {op : Op} {ra : List Nat} {ord : List (List Nat)}
  {src k retain : Nat} {sor : Bool} {n : Node}

theorem node_i (_h : CC V x i op ra ord src k retain sor n) : (crashC x i op n).node i = n := by
  show setNode x.rp.el.node i n i = _
  rw [setNode_same]

theorem node_j (_h : CC V x i op ra ord src k retain sor n) {j : Nat} (hj : j ≠ i) :
    (crashC x i op n).node j = x.node j := by
  show setNode x.rp.el.node i n j = _
  rw [setNode_other _ _ _ _ hj]

theorem ry (h : CC V x i op ra ord src k retain sor n) : Replication.Inv V (crashC x i op n).rp :=
  C04Sys.inv_trans h.sc.hV h.sc.inv.rp h.sc.side.1 (.crash i op ra ord src k retain sor n h.sc.en.rp h.hn)

/-- the restarted node -/
theorem facts (h : CC V x i op ra ord src k retain sor n) :
    n.term = (C05.crashDisk (x.node i) op ra ord k).term ∧
    n.votedFor = (C05.crashDisk (x.node i) op ra ord k).vote ∧ C05.VoteWF n ∧ n.role = .follower ∧
    n.commitIndex = 0 ∧ n.fsm = {} ∧ n.log.flushed = n.log.entries.length ∧ C06.LogWF n.log ∧
    n.log.entries = (C05.crashDisk (x.node i) op ra ord k).log.entries := by
  have im := h.sc.img k
  obtain ⟨r1, r2, r3⟩ := C05.restart_reads_durable _ _ _ _ h.hn
  obtain ⟨r4, _⟩ := Election.restart_role_nid _ _ _ _ h.hn
  obtain ⟨f1, f2, f3, f4, f5⟩ := restart_facts _ retain sor n h.hn im.snaps im.prev im.dw
  exact ⟨r1, r2, r3, r4, f1, f2, f3, f4, f5⟩

theorem ext (h : CC V x i op ra ord src k retain sor n) : Ext x (crashC x i op n) i := by
  refine ⟨fun j hj => h.node_j hj, fun j => ?_, fun c hc => List.mem_append_right _ hc, fun q hq => hq,
    fun a ha => ha, fun k hk => List.mem_append_right _ hk, fun m hm => hm, fun g hg => hg, fun e he => he,
    fun e he => he, h.ry.uniq, h.sc.inv.tree.ok.pathc⟩
  by_cases hj : j = i
  · subst hj
    rw [h.node_i, h.facts.1]
    exact (h.sc.img k).pair.1
  · rw [h.node_j hj]; exact Nat.le_refl _

/-- the new state, as new entries appended by node `i` that reached the disk -/
theorem newE (h : CC V x i op ra ord src k retain sor n) :
    ∃ es te, NewE V x (crashC x i op n) i op src es te := by
  have sc := h.sc
  have hI := sc.inv
  have hpre := nwf hI i
  have upd := C04Sys.upd_crash hI.rp sc.side.1 i op ra ord src k retain sor n sc.en.rp h.hn
  obtain ⟨f1, f2, _, f4, _, _, _, _, f9⟩ := h.facts
  have hni := h.node_i
  have hfol : ((crashC x i op n).node i).role = .leader → False := by
    rw [hni, f4]; intro e; cases e
  -- the trivial instance: nothing was created
  have triv : (crashC x i op n).T = chainOf i (lastTerm (x.node i).log.entries) [] ++ x.T →
      NewE V x (crashC x i op n) i op src [] 0 := fun hT =>
    ⟨sc.hV, sc.en.rp.id, hI, sc.side, h.ext, h.ry, hT, fun hne => absurd rfl hne, fun hl => (hfol hl).elim,
      fun e he => absurd he List.not_mem_nil, fun hne => absurd rfl hne, sc.en.rp.real, fun a ha => Or.inl ha,
      fun hne => absurd rfl hne, fun hne => absurd rfl hne, fun hl => (hfol hl).elim⟩
  rcases upd.log with ⟨⟨q, hq⟩, _⟩ | ⟨hna, hl⟩
  · subst hq
    exact ⟨[], 0, triv rfl⟩
  · rcases hl with hp | ⟨es, te, e1, e2', e3, e4, e5, e6⟩
    · refine ⟨[], 0, triv ?_⟩
      show newCreated i (x.node i).log.entries n.log.entries op ++ x.T = _
      rw [C04Sys.newCreated_other _ _ _ _ hna, List.drop_eq_nil_of_le hp.length_le]
    · have im := sc.img k
      have e2 : n.log.entries = (x.node i).log.entries ++ es := e2'
      refine ⟨es, te, ⟨sc.hV, sc.en.rp.id, hI, sc.side, h.ext, h.ry, ?_, fun _ => by rw [hni]; exact e2,
        fun hl => (hfol hl).elim, fun e he => ⟨e3 e he, ?_⟩, fun _ => by rw [hni]; exact ⟨e4, e5, e6⟩,
        sc.en.rp.real, fun a ha => Or.inl ha, fun _ _ a ha => Or.inl ha, fun _ hgt => ?_,
        fun hl => (hfol hl).elim⟩⟩
      · show newCreated i (x.node i).log.entries n.log.entries op ++ x.T = _
        rw [C04Sys.newCreated_other _ _ _ _ hna, e2, List.drop_left]
      · have := (C04Sys.contig_drop upd.nwf.contig (x.node i).log.entries.length).2 e
          (by rw [e2, List.drop_left]; exact he)
        rw [hpre.last]; exact this.1
      · -- the election of this step reached the disk: term and self vote are the new ones
        have hdl : (x.node i).log.entries.length < (C05.crashDisk (x.node i) op ra ord k).log.entries.length := by
          rw [← f9, e2, List.length_append]
          have : 0 < es.length := List.length_pos_iff.mpr e1
          omega
        have hlt : lastTerm (C05.crashDisk (x.node i) op ra ord k).log.entries = te := by
          rw [← f9, e2, lastTerm_append_ne _ _ e1]
          exact e3 _ (List.getLast_mem e1)
        -- the log after the completed step extends what is on disk
        have hsub : (C05.crashDisk (x.node i) op ra ord k).log.entries <+:
            ((x.node i).step op ra ord).log.entries := by
          rcases im.within hna with w | w
          · have := w.length_le; omega
          · exact w
        obtain ⟨esp, tep, hN, hlp⟩ := sc.newE hna
        have hg : (x.node i).log.entries.length < ((x.node i).step op ra ord).log.entries.length := by
          have := hsub.length_le; omega
        have hltp : lastTerm ((x.node i).step op ra ord).log.entries = te := by
          rw [← f9, e2, hlp] at hsub
          have hsub' : es <+: esp := (List.prefix_append_right_inj _).mp hsub
          have hnep : esp ≠ [] := by
            intro e0; rw [e0] at hsub'; exact e1 (List.prefix_nil.mp hsub')
          rw [hlp, lastTerm_append_ne _ _ hnep]
          rw [(hN.ent _ (List.getLast_mem hnep)).1]
          obtain ⟨z, hz⟩ := List.exists_mem_of_ne_nil es e1
          rw [← (hN.ent z (hsub'.subset hz)).1, e3 z hz]
        obtain ⟨p1, p2, p3⟩ := sc.elected hna hg (by rw [hltp]; exact hgt)
        have hpair : (C05.crashDisk (x.node i) op ra ord k).term = te ∧
            (C05.crashDisk (x.node i) op ra ord k).vote = i := by
          rcases im.growp hna hdl with ⟨g1, g2⟩ | ⟨_, g2⟩
          · rw [g1, g2, p2, hltp]; exact ⟨rfl, p3⟩
          · rw [hlt] at g2; omega
        refine ⟨Camp.mk i n.term (x.node i).lastLogIndex (x.node i).lastLogTerm, ?_, rfl,
          by show n.term = te; rw [f1]; exact hpair.1, hpre.last, rfl⟩
        apply List.mem_append_left
        unfold campOf
        rw [if_pos ⟨by rw [f1, hpair.1]; exact hgt, by rw [f2]; exact hpair.2⟩]
        exact List.mem_singleton.mpr rfl

end CC



namespace CC
variable {V : List Nat} {x : Commit.Sys} {i : Nat} {op : Op} {ra : List Nat} {ord : List (List Nat)}
  {src k retain : Nat} {sor : Bool} {n : Node}

theorem treeI (h : CC V x i op ra ord src k retain sor n) : TreeI V (crashC x i op n) := by
  obtain ⟨es, te, hN⟩ := h.newE
  exact hN.treeI

theorem nodeI (h : CC V x i op ra ord src k retain sor n) : NodeI (crashC x i op n) := by
  have hI := h.sc.inv
  have hE := h.ext
  obtain ⟨f1, _, _, f4, _, _, f7, f8, f9⟩ := h.facts
  have im := h.sc.img k
  have hfol : ((crashC x i op n).node i).role = .follower := by rw [h.node_i]; exact f4
  refine ⟨fun j => ?_, fun j => ?_, fun j k' hk hk2 => ?_, fun j hr => ?_, fun j hr => ?_, fun j hl => ?_⟩
  · by_cases hj : j = i
    · subst hj; rw [h.node_i]; exact f8
    · rw [h.node_j hj]; exact hI.node.lwf j
  · by_cases hj : j = i
    · subst hj; rw [h.node_i, f9, f1]; exact im.termLe
    · rw [h.node_j hj]; exact hI.node.termLe j
  · by_cases hj : j = i
    · subst hj; rw [h.node_i] at hk hk2; omega
    · rw [h.node_j hj] at hk hk2 ⊢
      obtain ⟨c, hc, r⟩ := hI.node.unfl j k' hk hk2
      exact ⟨c, hE.T c hc, r⟩
  · by_cases hj : j = i
    · subst hj; exact absurd hfol hr
    · rw [h.node_j hj] at hr ⊢; exact hI.node.roleVoter j hr
  · by_cases hj : j = i
    · subst hj; exact absurd hfol hr
    · rw [h.node_j hj] at hr ⊢
      obtain ⟨c, hc, r⟩ := hI.node.camp j hr
      exact ⟨c, hE.camps c hc, r⟩
  · by_cases hj : j = i
    · subst hj; rw [hfol] at hl; cases hl
    · rw [h.node_j hj] at hl ⊢
      refine (hI.node.ldr j hl).mono ?_
      rintro v m ⟨a, ha, a1, a2, a3⟩
      exact ⟨a, ha, a1, by rw [h.node_j hj]; exact a2, a3⟩

theorem sentI (h : CC V x i op ra ord src k retain sor n) : SentI V (crashC x i op n) := by
  have hI := h.sc.inv
  have hE := h.ext
  refine ⟨fun q hq => ?_, fun q hq => hI.sent.term q hq, fun q hq => ?_, fun q hq => ?_⟩
  · obtain ⟨a1, a2, a3, a4, a5⟩ := hI.sent.won q hq
    refine ⟨a1, a2, a3, Nat.le_trans a4 (hE.term _), fun hc => ?_⟩
    by_cases hj : q.src = i
    · rw [hj, h.node_i, h.facts.2.2.2.1] at hc; cases hc
    · rw [h.node_j hj] at hc ⊢; exact a5 hc
  · obtain ⟨c, hc, c1, c2, c3⟩ := hI.sent.anc q hq
    exact ⟨c, hE.T c hc, c1, fun e he => hE.anc (c2 e he), fun h1 => hE.anc (c3 h1)⟩
  · obtain ⟨c1, c2⟩ := hI.sent.cmt q hq
    exact ⟨fun e he hle => hE.cmt (Nat.le_refl _) (c1 e he hle), fun h1 h2 => hE.cmt (Nat.le_refl _) (c2 h1 h2)⟩

theorem ackI (h : CC V x i op ra ord src k retain sor n) : AckI (crashC x i op n) := by
  have hI := h.sc.inv
  have hE := h.ext
  obtain ⟨f1, _, _, _, _, _, f7, _, f9⟩ := h.facts
  have im := h.sc.img k
  refine ⟨fun a ha => ?_, fun a ha => ?_, fun a ha b hb hanc => ?_⟩
  · obtain ⟨a1, a2, a3, c, hc, hk⟩ := hI.ack.wf a ha
    exact ⟨a1, Nat.le_trans a2 (hE.term _), a3, c, hE.T c hc, hk⟩
  · rcases hI.ack.src a ha with ⟨q, hq, r⟩ | ⟨e, c, hc, r⟩
    · exact Or.inl ⟨q, hq, r⟩
    · exact Or.inr ⟨e, c, hE.T c hc, r⟩
  · obtain ⟨c, hc, hk⟩ := (hI.ack.wf a ha).2.2.2
    rw [← hk] at hanc
    have hanc' := anc_reflect hE hc hanc
    rw [hk] at hanc'
    by_cases hv : a.voter = i
    · rw [hv, h.node_i]
      rcases hI.ack.stable a ha b hb hanc' with d | u
      · rw [hv] at d
        rcases im.dur a ha hv b hb d with ⟨d1, d2⟩ | u
        · left
          exact ⟨by rw [f7, f9]; exact d1, by rw [f9]; exact d2⟩
        · right; rw [f1]; exact hE.unsafeU (Nat.le_refl _) u
      · rw [hv] at u
        right
        exact hE.unsafeU (by rw [f1]; exact im.pair.1) u
    · rw [h.node_j hv]
      exact (hI.ack.stable a ha b hb hanc').imp id (hE.unsafeU (Nat.le_refl _))

theorem pair_n (h : CC V x i op ra ord src k retain sor n) :
    PairOK (x.node i) (AOp (x.node i) op) n.term n.votedFor := by
  rw [h.facts.1, h.facts.2.1]; exact (h.sc.img k).pair

theorem camp_new (_h : CC V x i op ra ord src k retain sor n) {c : Camp} (hc : c ∈ campOf i (x.node i) n) :
    n.term > (x.node i).term ∧ n.votedFor = i ∧
    c = Camp.mk i n.term (x.node i).lastLogIndex (x.node i).lastLogTerm := by
  unfold campOf at hc
  split at hc
  · rename_i hcond
    exact ⟨hcond.1, hcond.2, List.mem_singleton.mp hc⟩
  · cases hc

theorem camp_cases (_h : CC V x i op ra ord src k retain sor n) {c : Camp} (hc : c ∈ (crashC x i op n).camps) :
    c ∈ campOf i (x.node i) n ∨ c ∈ x.camps := List.mem_append.mp hc

theorem campUniq_n (h : CC V x i op ra ord src k retain sor n) : ∀ c ∈ (crashC x i op n).camps,
    ∀ c' ∈ (crashC x i op n).camps, c.cand = c'.cand → c.term = c'.term → c = c' := by
  have hI := h.sc.inv
  intro c hc c' hc' e1 e2
  have key : ∀ kn ∈ campOf i (x.node i) n, ∀ ko ∈ x.camps, kn.cand = ko.cand → kn.term = ko.term → False := by
    intro kn hkn ko hko a1 a2
    obtain ⟨n1, _, n3⟩ := h.camp_new hkn
    have := (hI.vote.campWf ko hko).2.1
    rw [← a1, ← a2, n3] at this
    have this' : n.term ≤ (x.node i).term := this
    omega
  rcases h.camp_cases hc with hn | ho <;> rcases h.camp_cases hc' with hn' | ho'
  · rw [(h.camp_new hn).2.2, (h.camp_new hn').2.2]
  · exact (key c hn c' ho' e1 e2).elim
  · exact (key c' hn' c ho e1.symm e2.symm).elim
  · exact hI.vote.campUniq c ho c' ho' e1 e2

/-- **the up-to-date check for the vote found on disk** -/
theorem vote_core (h : CC V x i op ra ord src k retain sor n) (hv0 : n.votedFor ≠ 0)
    {c : Camp} (hc : c ∈ (crashC x i op n).camps) (hcc : c.cand = n.votedFor) (hct : c.term = n.term)
    {a : Ack} (ha : a ∈ x.acks) (hav : a.voter = i) (hlt : a.term < c.term)
    {b : Nat × Nat} (hb : b.2 = a.term) (hanc : Anc (crashC x i op n).T b a.key) :
    Anc (crashC x i op n).T b c.last ∨ Unsafe (crashC x i op n).T b c.term := by
  have sc := h.sc
  have hI := sc.inv
  have hE := h.ext
  have hnid : (x.node i).nid = i := (hI.rp.el.ids i).1
  obtain ⟨ca, hca, hcak⟩ := (hI.ack.wf a ha).2.2.2
  rw [← hcak] at hanc
  have hanc' := anc_reflect hE hca hanc
  rw [hcak] at hanc'
  have hst := hI.ack.stable a ha b hb hanc'
  rw [hav] at hst
  rcases h.pair_n.2 with p0 | ⟨p1, p2⟩ | ⟨q, rfl, p1, p2, p3, p4⟩ | ⟨p1, p2⟩
  · exact absurd p0 hv0
  · have hko : c ∈ x.camps := by
      rcases h.camp_cases hc with hn | ho
      · have := (h.camp_new hn).1; omega
      · exact ho
    have hv0' : (x.node i).votedFor ≠ 0 := by rw [← p2]; exact hv0
    rcases hI.vote.voteInv i hv0' c hko (hcc.trans p2) (hct.trans p1) a ha hav hlt b hb hanc' with r | r
    · exact Or.inl (hE.anc r)
    · exact Or.inr (hE.unsafeU (Nat.le_refl _) r)
  · have hk0 : (Camp.mk q.src q.term q.lastLogIndex q.lastLogTerm) ∈ x.camps := by
      rcases sc.en.vote q rfl with hs | hc'
      · omega
      · exact hc'
    have hkk : c = Camp.mk q.src q.term q.lastLogIndex q.lastLogTerm :=
      h.campUniq_n c hc _ (hE.camps _ hk0) (hcc.trans p2) (hct.trans p1)
    rcases hst with ⟨_, hh⟩ | u
    · rcases uptodate_anc hI hh hk0 p4 with r | r
      · left; rw [hkk]; exact hE.anc r
      · right; rw [hkk]; exact hE.unsafeU (Nat.le_refl _) r
    · right
      rw [hct, p1]
      exact hE.unsafeU p3 u
  · have hcond : n.term > (x.node i).term ∧ n.votedFor = i := ⟨p2, by rw [p1, hnid]⟩
    have hkn : (Camp.mk i n.term (x.node i).lastLogIndex (x.node i).lastLogTerm) ∈ (crashC x i op n).camps := by
      apply List.mem_append_left
      unfold campOf
      rw [if_pos hcond]
      exact List.mem_singleton.mpr rfl
    have hkk := h.campUniq_n c hc _ hkn (hcc.trans hcond.2) hct
    rcases hst with ⟨_, hh⟩ | u
    · left
      have hlen : 1 ≤ (x.node i).log.entries.length := by have := hh.1; have := hh.2.1; omega
      have := log_anc hI i (a := b) (c := ((x.node i).log.entries.length, (x.node i).lastLogTerm)) hh
        (holds_last (nwf hI i) hlen) hh.2.1
      rw [hkk]
      show Anc _ b ((x.node i).lastLogIndex, (x.node i).lastLogTerm)
      rw [(nwf hI i).last]
      exact hE.anc this
    · right
      rw [hct]
      exact hE.unsafeU (Nat.le_of_lt p2) u

theorem voteI (h : CC V x i op ra ord src k retain sor n) : VoteI V (crashC x i op n) := by
  have sc := h.sc
  have hI := sc.inv
  have hE := h.ext
  have hni := h.node_i
  have hnid : (x.node i).nid = i := (hI.rp.el.ids i).1
  have hwfa : ∀ a ∈ x.acks, ∃ c ∈ x.T, key c = a.key := fun a ha => (hI.ack.wf a ha).2.2.2
  have newk : ∀ c ∈ campOf i (x.node i) n, c.cand = i ∧ (x.node i).term < c.term ∧ c.term = n.term ∧
      n.votedFor = i ∧ c.last = ((x.node i).lastLogIndex, (x.node i).lastLogTerm) := by
    intro c hc
    obtain ⟨n1, n2, n3⟩ := h.camp_new hc
    rw [n3]; exact ⟨rfl, n1, rfl, n2, rfl⟩
  -- with the ledgers of acknowledgements, grants and counted votes unchanged, an old statement about them carries over
  have oldv : ∀ {c : Camp} {a : Ack} {b : Nat × Nat}, a ∈ x.acks → Anc (crashC x i op n).T b a.key →
      Anc x.T b a.key := by
    intro c a b ha hanc
    obtain ⟨ca, hca, hcak⟩ := hwfa a ha
    rw [← hcak] at hanc
    have := anc_reflect hE hca hanc
    rw [hcak] at this
    exact this
  refine ⟨h.campUniq_n, fun c hc => ?_, fun v hv hvv => ?_, fun v hv c hc hcc hct a ha hav hlt b hb hanc => ?_,
    fun g hg c hc hcc hct a ha hav hlt b hb hanc => ?_, fun c hc v hel => ?_, fun e he => hI.vote.countedGrant e he,
    fun g hg => ?_⟩
  · rcases h.camp_cases hc with hn | ho
    · obtain ⟨n1, n2, n3, _, n5⟩ := newk c hn
      have hlt := lastLogTerm_le hI i
      refine ⟨by rw [n1]; exact sc.en.rp.id, by rw [n1, hni, n3]; exact Nat.le_refl _, ?_, ?_⟩
      · have : c.lastTerm = (x.node i).lastLogTerm := congrArg Prod.snd n5
        omega
      · by_cases h0 : (x.node i).log.entries.length = 0
        · left
          have e1 : c.lastIndex = (x.node i).lastLogIndex := congrArg Prod.fst n5
          have e2 : c.lastTerm = (x.node i).lastLogTerm := congrArg Prod.snd n5
          refine ⟨by rw [e1, (nwf hI i).last]; exact h0, ?_⟩
          rw [e2, (nwf hI i).lastT, List.eq_nil_of_length_eq_zero h0]; rfl
        · right
          obtain ⟨r, hr, hrk⟩ := log_record hI i (holds_last (nwf hI i) (by omega))
          exact ⟨r, hE.T r hr, by rw [hrk, n5, (nwf hI i).last]⟩
    · obtain ⟨a1, a2, a3, a4⟩ := hI.vote.campWf c ho
      refine ⟨a1, Nat.le_trans a2 (hE.term _), a3, a4.imp id ?_⟩
      rintro ⟨r, hr, hrk⟩
      exact ⟨r, hE.T r hr, hrk⟩
  · by_cases hvi : v = i
    · subst hvi
      rw [hni] at hv hvv ⊢
      rcases h.pair_n.2 with p0 | ⟨p1, p2⟩ | ⟨q, rfl, p1, p2, p3, _⟩ | ⟨p1, _⟩
      · exact absurd p0 hv
      · obtain ⟨c, hc, k1, k2⟩ := hI.vote.voteCamp v (by rw [← p2]; exact hv) (by rw [← p2]; exact hvv)
        exact ⟨c, hE.camps c hc, by rw [k1, p2], by rw [k2, p1]⟩
      · rcases sc.en.vote q rfl with hst | hc
        · omega
        · exact ⟨_, hE.camps _ hc, p2.symm, p1.symm⟩
      · rw [p1, hnid] at hvv; exact absurd rfl hvv
    · rw [h.node_j hvi] at hv hvv ⊢
      obtain ⟨c, hc, r⟩ := hI.vote.voteCamp v hv hvv
      exact ⟨c, hE.camps c hc, r⟩
  · by_cases hvi : v = i
    · subst hvi
      rw [hni] at hv hcc hct
      exact h.vote_core hv hc hcc hct ha hav hlt hb hanc
    · rw [h.node_j hvi] at hv hcc hct
      have hko : c ∈ x.camps := by
        rcases h.camp_cases hc with hn | ho
        · exfalso
          obtain ⟨n1, n2, _⟩ := newk c hn
          have hvv : (x.node v).votedFor ≠ v := by rw [← hcc, n1]; exact fun e => hvi e.symm
          obtain ⟨c', hc', k1, k2⟩ := hI.vote.voteCamp v hv hvv
          have := (hI.vote.campWf c' hc').2.1
          rw [k1, ← hcc, n1, k2, ← hct] at this
          omega
        · exact ho
      rcases hI.vote.voteInv v hv c hko hcc hct a ha hav hlt b hb (oldv (c := c) ha hanc) with r | r
      · exact Or.inl (hE.anc r)
      · exact Or.inr (hE.unsafeU (Nat.le_refl _) r)
  · have hko : c ∈ x.camps := by
      rcases h.camp_cases hc with hn | ho'
      · exfalso
        obtain ⟨n1, n2, _⟩ := newk c hn
        obtain ⟨c', hc', k1, k2⟩ := hI.vote.grantCamp g hg
        have := (hI.vote.campWf c' hc').2.1
        rw [k1, ← hcc, n1, k2, ← hct] at this
        omega
      · exact ho'
    rcases hI.vote.grantInv g hg c hko hcc hct a ha hav hlt b hb (oldv (c := c) ha hanc) with r | r
    · exact Or.inl (hE.anc r)
    · exact Or.inr (hE.unsafeU (Nat.le_refl _) r)
  · rcases h.camp_cases hc with hn | ho
    · obtain ⟨n1, n2, n3, n4, n5⟩ := newk c hn
      have hvi : v = i := by
        rcases hel with e | e
        · exact e.trans n1
        · exfalso
          have := hI.rp.el.countedTerm _ e
          have this' : c.term ≤ (x.node c.cand).term := this
          rw [n1] at this'; omega
      subst hvi
      intro a ha hav hlt b hb hanc
      have hst := hI.ack.stable a ha b hb (oldv (c := c) ha hanc)
      rw [hav] at hst
      rcases hst with ⟨_, hh⟩ | ⟨r, hr, c1, c2, c3⟩
      · left
        have hlen : 1 ≤ (x.node v).log.entries.length := by have := hh.1; have := hh.2.1; omega
        have := log_anc hI v (a := b) (c := ((x.node v).log.entries.length, (x.node v).lastLogTerm)) hh
          (holds_last (nwf hI v) hlen) hh.2.1
        rw [n5, (nwf hI v).last]
        exact hE.anc this
      · right; left
        exact ⟨r, hE.T r hr, c1, by omega, hE.not_anc hr c3⟩
    · exact upTo_mono hE hwfa (fun a ha => Or.inl ha) (hI.vote.electInv c ho v hel)
  · obtain ⟨c, hc, r⟩ := hI.vote.grantCamp g hg
    exact ⟨c, hE.camps c hc, r⟩

theorem cmtI (h : CC V x i op ra ord src k retain sor n) : CmtI V (crashC x i op n) := by
  have hI := h.sc.inv
  have hE := h.ext
  refine ⟨fun m hm => ?_, fun m hm c hc hlt => ?_, fun j k' hk hk2 => ?_⟩
  · obtain ⟨⟨c, hc, hk, h0⟩, Q, q1, q2, q3, q4⟩ := hI.cmt.quorum m hm
    refine ⟨⟨c, hE.T c hc, hk, h0⟩, Q, q1, q2, q3, fun v hv => ?_⟩
    obtain ⟨a, ha, r1, r2, r3⟩ := q4 v hv
    exact ⟨a, ha, r1, r2, hE.anc r3⟩
  · obtain ⟨es, te, hN⟩ := h.newE
    rcases hN.mem_T hc with hn | hco
    · exact hN.lc_new hm hn hlt
    · exact hE.anc (hI.cmt.lc m hm c hco hlt)
  · by_cases hj : j = i
    · subst hj
      rw [h.node_i, h.facts.2.2.2.2.1] at hk2
      omega
    · rw [h.node_j hj] at hk2 ⊢
      obtain ⟨c1, c2⟩ := hI.cmt.cc j k' hk hk2
      exact ⟨c1, hE.cmt (Nat.le_refl _) c2⟩

/-- **the invariant is preserved by a crash and restart** -/
theorem cinv (h : CC V x i op ra ord src k retain sor n) : CInv V (crashC x i op n) :=
  ⟨h.ry, h.treeI, h.nodeI, h.sentI, h.ackI, h.voteI, h.cmtI⟩

end CC



/-! ### a leader puts a request on the wire -/

/-- the state after request `q` was put on the wire (the target of `Commit.Trans.send`) -/
def sendC (x : Commit.Sys) (q : AppendReq) : Commit.Sys := { x with rp := { x.rp with sent := q :: x.rp.sent } }

theorem cinv_send {V : List Nat} (_hV : V.Nodup) {x : Commit.Sys} (hI : CInv V x) {i : Nat} {q : AppendReq}
    (hi : i ≠ 0) (hl : (x.node i).role = .leader) (hr : ReadFrom (x.node i) q)
    (hc : q.ldrCommitIndex ≤ (x.node i).commitIndex) : CInv V (sendC x q) := by
  have hn := nwf hI i
  have lo := hI.node.ldr i hl
  have hlen : 1 ≤ (x.node i).log.entries.length := Nat.le_trans lo.start lo.startLe
  have hz : Holds (x.node i).log.entries (x.node i).log.entries.length (x.node i).term :=
    ⟨hlen, Nat.le_refl _, lo.own _ lo.startLe (Nat.le_refl _)⟩
  obtain ⟨n', hq'⟩ := hr.entries
  -- the entries of the request are entries of the leader's log
  have hmem : ∀ e ∈ q.entries, Holds (x.node i).log.entries e.index e.term := by
    intro e he
    rw [hq'] at he
    exact holds_of_mem hn.contig (List.mem_of_mem_drop (List.mem_of_mem_take he))
  have hprev : 1 ≤ q.prevLogIndex → Holds (x.node i).log.entries q.prevLogIndex q.prevLogTerm :=
    fun h1 => ⟨h1, hr.prev, hr.prevTerm.symm⟩
  have hsent : SentI V (sendC x q) := by
    refine ⟨fun q' hq'' => ?_, fun q' hq'' => ?_, fun q' hq'' => ?_, fun q' hq'' => ?_⟩
    · rcases List.mem_cons.mp hq'' with e | e
      · subst e
        rw [hr.src, (hI.rp.el.ids i).1, hr.term]
        exact ⟨hi, hI.rp.ldrV i hl, hI.rp.el.recorded i hl, Nat.le_refl _,
          fun hcd => by
            have hcd' : (x.node i).role = .candidate := hcd
            rw [hl] at hcd'; cases hcd'⟩
      · exact hI.sent.won q' e
    · rcases List.mem_cons.mp hq'' with e | e
      · subst e
        rw [hr.term]
        refine ⟨fun e he => ?_, ?_⟩
        · obtain ⟨z, hz1, hz2⟩ := holds_get (hmem e he)
          rw [← hz2]; exact hI.node.termLe i z (List.mem_of_getElem? hz1)
        · rw [hr.prevTerm]
          unfold termAt
          split
          · exact Nat.zero_le _
          · cases hg : (x.node i).log.entries[q'.prevLogIndex - 1]? with
            | none => exact Nat.zero_le _
            | some z => exact hI.node.termLe i z (List.mem_of_getElem? hg)
      · exact hI.sent.term q' e
    · rcases List.mem_cons.mp hq'' with e | e
      · subst e
        obtain ⟨c, hcT, hck⟩ := log_record hI i hz
        have hct : c.e.term = q'.term := by
          unfold key at hck; simp only [Prod.mk.injEq] at hck; rw [hck.2, hr.term]
        refine ⟨c, hcT, hct, fun e he => ?_, fun h1 => ?_⟩
        · rw [hck]; exact log_anc hI i (hmem e he) hz (hmem e he).2.1
        · rw [hck]; exact log_anc hI i (hprev h1) hz hr.prev
      · exact hI.sent.anc q' e
    · rcases List.mem_cons.mp hq'' with e | e
      · subst e
        refine ⟨fun e he hle => ?_, fun h1 h2 => ?_⟩
        · have hh := hmem e he
          obtain ⟨_, c2⟩ := hI.cmt.cc i e.index hh.1 (Nat.le_trans hle hc)
          rw [hh.2.2, ← hr.term] at c2
          exact c2
        · have hh := hprev h1
          obtain ⟨_, c2⟩ := hI.cmt.cc i q'.prevLogIndex h1 (Nat.le_trans h2 hc)
          rw [hh.2.2, ← hr.term] at c2
          exact c2
      · exact hI.sent.cmt q' e
  refine ⟨C04Sys.inv_send hI.rp i q hr, ⟨hI.tree.ok, hI.tree.crElect, hI.tree.ownLog⟩,
    ⟨hI.node.lwf, hI.node.termLe, hI.node.unfl, hI.node.roleVoter, hI.node.camp, hI.node.ldr⟩, hsent,
    ⟨hI.ack.wf, fun a ha => ?_, hI.ack.stable⟩,
    ⟨hI.vote.campUniq, hI.vote.campWf, hI.vote.voteCamp, hI.vote.voteInv, hI.vote.grantInv, hI.vote.electInv,
      hI.vote.countedGrant, hI.vote.grantCamp⟩,
    ⟨hI.cmt.quorum, hI.cmt.lc, hI.cmt.cc⟩⟩
  rcases hI.ack.src a ha with ⟨q', hq'', r⟩ | r
  · exact Or.inl ⟨q', List.mem_cons_of_mem _ hq'', r⟩
  · exact Or.inr r



/-! ### the invariant in every reachable state -/

theorem inv_trans {V : List Nat} (hV : V.Nodup) {x y : Commit.Sys} (hI : CInv V x) (hS : SideV V x)
    (ht : Commit.Trans x y) : CInv V y := by
  cases ht with
  | step i op ra ord src he => exact (SC.mk hV hI hS he).cinv
  | crash i op ra ord src k retain sor n he hn => exact (CC.mk (SC.mk hV hI hS he) hn).cinv
  | send i q hi hl hr hc => exact cinv_send hV hI hi hl hr hc

theorem inv_reachable {V : List Nat} (hV : V.Nodup) {x : Commit.Sys} (h : Commit.ReachableV V x) :
    CInv V x ∧ SideV V x := by
  induction h with
  | init x hi hs => exact ⟨inv_init V x hi, hs⟩
  | next x y _ ht hs ih => exact ⟨inv_trans hV ih.1 ih.2 ht, hs⟩

/-! ### consequences of the invariant -/

section cons
variable {V : List Nat} {x : Commit.Sys}

/-- the entries of the ledger `committed` lie on one path of the tree -/
theorem committed_chain (hI : CInv V x) {m m' : Nat × Nat} (hm : m ∈ x.committed) (hm' : m' ∈ x.committed) :
    Anc x.T m m' ∨ Anc x.T m' m := by
  obtain ⟨⟨c, hc, hck, _⟩, _⟩ := hI.cmt.quorum m hm
  obtain ⟨⟨c', hc', hck', _⟩, _⟩ := hI.cmt.quorum m' hm'
  have e1 : c.e.term = m.2 := by rw [← hck]; rfl
  have e2 : c'.e.term = m'.2 := by rw [← hck']; rfl
  rcases Nat.lt_trichotomy m.2 m'.2 with h | h | h
  · left
    have := hI.cmt.lc m hm c' hc' (by rw [e2]; exact h)
    rw [hck'] at this; exact this
  · by_cases hi : c.e.index ≤ c'.e.index
    · left
      have := hI.tree.ok.tblock c hc c' hc' (by rw [e1, e2]; exact h) hi
      rw [hck, hck'] at this; exact this
    · right
      have := hI.tree.ok.tblock c' hc' c hc (by rw [e1, e2]; exact h.symm) (by omega)
      rw [hck, hck'] at this; exact this
  · right
    have := hI.cmt.lc m' hm' c hc (by rw [e1]; exact h)
    rw [hck] at this; exact this

/-- two committed keys with the same index are the same key -/
theorem committed_unique (hI : CInv V x) {a a' : Nat × Nat} (ha : Committed x a) (ha' : Committed x a')
    (hi : a.1 = a'.1) : a = a' := by
  obtain ⟨m, hm, h1⟩ := ha
  obtain ⟨m', hm', h1'⟩ := ha'
  rcases committed_chain hI hm hm' with c | c
  · exact ((h1.trans (uniq hI) c).comparable (uniq hI) h1' (Nat.le_of_eq hi)).eq_of_index hi
  · exact ((h1.comparable (uniq hI) (h1'.trans (uniq hI) c) (Nat.le_of_eq hi))).eq_of_index hi

/-- a leader holds every ledger entry of a term not above its own -/
theorem leader_holds_committed (hV : V.Nodup) (hI : CInv V x) {i : Nat} (hl : (x.node i).role = .leader)
    {m : Nat × Nat} (hm : m ∈ x.committed) (hle : m.2 ≤ (x.node i).term) :
    Holds (x.node i).log.entries m.1 m.2 := by
  obtain ⟨⟨c, hc, hck, _⟩, _⟩ := hI.cmt.quorum m hm
  have e1 : c.e.term = m.2 := by rw [← hck]; rfl
  rcases Nat.lt_or_ge m.2 (x.node i).term with h | h
  · have lo := hI.node.ldr i hl
    have hlen : 1 ≤ (x.node i).log.entries.length := Nat.le_trans lo.start lo.startLe
    have hz : Holds (x.node i).log.entries (x.node i).log.entries.length (x.node i).term :=
      ⟨hlen, Nat.le_refl _, lo.own _ lo.startLe (Nat.le_refl _)⟩
    obtain ⟨z, hzT, hzk⟩ := log_record hI i hz
    have hzt : z.e.term = (x.node i).term := by rw [show z.e.term = (key z).2 from rfl, hzk]
    have := hI.cmt.lc m hm z hzT (by rw [hzt]; exact h)
    rw [hzk] at this
    exact log_holds_anc hI i this hz
  · have := leader_holds_own hV hI hl hc (by rw [e1]; omega)
    have hk : c.e.index = m.1 := by rw [← hck]; rfl
    rw [hk, e1] at this
    exact this

/-- what is within a node's commit index is committed -/
theorem covered_committed (hI : CInv V x) {j k : Nat} (hk : 1 ≤ k) (hkc : k ≤ (x.node j).commitIndex) :
    Holds (x.node j).log.entries k (termAt (x.node j).log.entries k) ∧
    ∃ m ∈ x.committed, m.2 ≤ (x.node j).term ∧ Anc x.T (k, termAt (x.node j).log.entries k) m := by
  obtain ⟨c1, c2⟩ := hI.cmt.cc j k hk hkc
  exact ⟨⟨hk, c1, rfl⟩, c2⟩

/-- two logs that hold the same key hold the same entry at every index up to it -/
theorem same_entries (hI : CInv V x) {i j k τ : Nat} (hi : Holds (x.node i).log.entries k τ)
    (hj : Holds (x.node j).log.entries k τ) {k' : Nat} (h1 : 1 ≤ k') (hle : k' ≤ k) :
    (x.node i).log.get? k' = (x.node j).log.get? k' := by
  rw [(nwf hI i).get?, (nwf hI j).get?, if_pos (by omega), if_pos (by omega)]
  exact path_agree (uniq hI) (log_path hI i) (log_path hI j) hi hj k' h1 hle

end cons

/-! ### the theorems -/

/-- **C02, leader completeness, cluster level — fixed voter set, fixed stable configuration, no snapshots
(partial).** Let `V` be a duplicate-free list of node ids and `x` any state of the cluster reachable in the
transition system `Raft.Commit` (Sys/Commit.lean): from an initial state (`Commit.Init`: nothing committed, logs
pairwise matching and completely flushed) by ANY sequence of: a node handling any enabled operation with any
content and oracle (`Node.step`); a node dying at any storage point of such a step and restarting from disk; a
leader putting on the wire an append request read from its log and stamped with a commit index not above its
own — where "enabled" means: append requests that are not refused as stale were really sent (any sent request
may be delivered to any node other than its sender, any number of times, in any order, or never); vote requests
that are not stale are real campaigns; counted vote responses are real replies; a reported match index is
backed by a `success` response for the leader's term; **restrictions (`_partial`)**: in every state every node's
latest configuration is stable (no pending action) with voter list `V`, no operation asks for a configuration
change, and no snapshot is ever installed, taken or published and no log is compacted (`SideV`, `OpOK2`).
Then:
1. every leader holds every entry of the ledger `committed` (the entries a leader's commit index reached by the
   majority rule) whose term is not above the leader's term — at the same index, with the same term;
2. every leader `i` whose term is at least the term of a node `j` holds, at every index `k` within `j`'s commit
   index, the very entry `j` holds there (index, term, type, payload, configuration);
3. every entry of the tree of created entries whose term is above a ledger entry's term extends that ledger
   entry (every root path through it passes through the ledger entry): entries of later terms are only ever
   created on top of what was committed before. -/
theorem leader_completeness_sys_partial (V : List Nat) (hV : V.Nodup) (x : Commit.Sys)
    (h : Commit.ReachableV V x) :
    (∀ i, (x.node i).role = .leader → ∀ m ∈ x.committed, m.2 ≤ (x.node i).term →
      ∃ e, (x.node i).log.get? m.1 = some e ∧ e.term = m.2) ∧
    (∀ i j k, (x.node i).role = .leader → (x.node j).term ≤ (x.node i).term → 1 ≤ k →
      k ≤ (x.node j).commitIndex →
      (x.node i).log.get? k = (x.node j).log.get? k ∧ ((x.node j).log.get? k).isSome = true) ∧
    (∀ m ∈ x.committed, ∀ c ∈ x.T, m.2 < c.e.term → Anc x.T m (key c)) := by
  obtain ⟨hI, _⟩ := inv_reachable hV h
  refine ⟨fun i hl m hm hle => ?_, fun i j k hl hij hk hkc => ?_, hI.cmt.lc⟩
  · have hh := leader_holds_committed hV hI hl hm hle
    obtain ⟨e, he, het⟩ := holds_get hh
    exact ⟨e, by rw [(nwf hI i).get?, if_pos (show 0 < m.1 from hh.1)]; exact he, het⟩
  · obtain ⟨hj, m, hm, m1, m2⟩ := covered_committed hI hk hkc
    have hmi := leader_holds_committed hV hI hl hm (Nat.le_trans m1 hij)
    have hki := log_holds_anc hI i m2 hmi
    refine ⟨same_entries hI hki hj hk (Nat.le_refl _), ?_⟩
    obtain ⟨e, he, _⟩ := holds_get hj
    rw [(nwf hI j).get?, if_pos (show 0 < k from hk), he]; rfl

/-- **C02, committed entries are never replaced (partial; same assumptions).**
1. Two nodes whose commit indexes cover index `k` hold the same entry at `k`.
2. When a node handles an operation to completion, every index `k` within its commit index still holds the
   same entry afterwards, and is still within the commit index. (A crash resets the volatile commit index to 0.)
3. The ledger `committed` and the tree only grow, so an entry once committed stays committed (`Committed`). -/
theorem committed_never_replaced_sys_partial (V : List Nat) (hV : V.Nodup) (x : Commit.Sys)
    (h : Commit.ReachableV V x) :
    (∀ i j k, 1 ≤ k → k ≤ (x.node i).commitIndex → k ≤ (x.node j).commitIndex →
      (x.node i).log.get? k = (x.node j).log.get? k ∧ ((x.node i).log.get? k).isSome = true) ∧
    (∀ i op ra ord src, Commit.Enabled x i op src → ∀ k, 1 ≤ k → k ≤ (x.node i).commitIndex →
      ((x.node i).step op ra ord).log.get? k = (x.node i).log.get? k ∧
      k ≤ ((x.node i).step op ra ord).commitIndex) ∧
    (∀ y, Commit.Trans x y → ∀ a, Committed x a → Committed y a) := by
  obtain ⟨hI, hS⟩ := inv_reachable hV h
  refine ⟨fun i j k hk hi hj => ?_, fun i op ra ord src he k hk hkc => ?_, fun y ht a ha => ?_⟩
  · obtain ⟨hhi, m, hm, _, m2⟩ := covered_committed hI hk hi
    obtain ⟨hhj, m', hm', _, m2'⟩ := covered_committed hI hk hj
    have := committed_unique hI ⟨m, hm, m2⟩ ⟨m', hm', m2'⟩ rfl
    have ht : termAt (x.node i).log.entries k = termAt (x.node j).log.entries k := congrArg Prod.snd this
    rw [← ht] at hhj
    refine ⟨same_entries hI hhi hhj hk (Nat.le_refl _), ?_⟩
    obtain ⟨e, he, _⟩ := holds_get hhi
    rw [(nwf hI i).get?, if_pos (show 0 < k from hk), he]; rfl
  · have sc : SC V x i op ra ord src := ⟨hV, hI, hS, he⟩
    obtain ⟨c1, _⟩ := hI.cmt.cc i k hk hkc
    have hpn := sc.nwf_post
    -- the entries up to `k` are untouched
    have key : ((x.node i).step op ra ord).log.entries.take k = (x.node i).log.entries.take k ∧
        k ≤ ((x.node i).step op ra ord).commitIndex := by
      rcases SC.op_cases op with happ | ⟨q, rfl⟩
      · obtain ⟨es, te, _, hl⟩ := sc.newE happ
        refine ⟨by rw [hl, List.take_append_of_le_length c1], ?_⟩
        rcases (sc.nst happ).ci with c | ⟨T, c⟩
        · rw [c]; exact hkc
        · have := c.adv; omega
      · by_cases hst : q.term < (x.node i).term
        · obtain ⟨s1, _, _, s4, _⟩ := append_stale _ q ra ord hst
          rw [s1, s4]; exact ⟨rfl, hkc⟩
        · obtain ⟨hq, fs⟩ := sc.fst hst
          have hnc := reqok hI (i := i) hq hst
          refine ⟨(fs.keep k c1 (fun e he' hek => hnc e he' (by omega))).1, ?_⟩
          rcases fs.ci with c | ⟨c, _⟩
          · rw [c]; exact hkc
          · omega
    refine ⟨?_, key.2⟩
    rw [hpn.get?, (nwf hI i).get?, if_pos (show 0 < k from hk), if_pos (show 0 < k from hk)]
    have := congrArg (fun l => l[k - 1]?) key.1
    simp only [List.getElem?_take] at this
    rw [if_pos (by omega), if_pos (by omega)] at this
    exact this
  · have hI' := inv_trans hV hI hS ht
    obtain ⟨m, hm, hanc⟩ := ha
    cases ht with
    | step i op ra ord src he =>
      exact ⟨m, List.mem_append_right _ hm, hanc.mono (fun c hc => List.mem_append_right _ hc)⟩
    | crash i op ra ord src k retain sor n he hn =>
      exact ⟨m, hm, hanc.mono (fun c hc => List.mem_append_right _ hc)⟩
    | send i q hi hl hr hc => exact ⟨m, hm, hanc⟩

/-- a run from `x` to `y` with the side condition in every state passed -/
inductive RunV (V : List Nat) (x : Commit.Sys) : Commit.Sys → Prop
  | refl : RunV V x x
  | next (y z : Commit.Sys) : RunV V x y → Commit.Trans y z → SideV V z → RunV V x z

theorem trans_mono {x y : Commit.Sys} (h : Commit.Trans x y) :
    (∀ c ∈ x.T, c ∈ y.T) ∧ (∀ m ∈ x.committed, m ∈ y.committed) := by
  cases h with
  | step i op ra ord src he => exact ⟨fun c hc => List.mem_append_right _ hc, fun m hm => List.mem_append_right _ hm⟩
  | crash i op ra ord src k retain sor n he hn => exact ⟨fun c hc => List.mem_append_right _ hc, fun m hm => hm⟩
  | send i q hi hl hr hc => exact ⟨fun c hc => hc, fun m hm => hm⟩

theorem run_reachable {V : List Nat} {x y : Commit.Sys} (hx : Commit.ReachableV V x) (h : RunV V x y) :
    Commit.ReachableV V y ∧ (∀ c ∈ x.T, c ∈ y.T) ∧ (∀ m ∈ x.committed, m ∈ y.committed) := by
  induction h with
  | refl => exact ⟨hx, fun c hc => hc, fun m hm => hm⟩
  | next y z _ ht hs ih =>
    obtain ⟨t1, t2⟩ := trans_mono ht
    exact ⟨.next y z ih.1 ht hs, fun c hc => t1 c (ih.2.1 c hc), fun m hm => t2 m (ih.2.2 m hm)⟩

/-- **…every node that LATER becomes leader** (same assumptions): let `x` be reachable, `k` an index within the
commit index of node `j` in `x`, and `y` any later state of the run (crashes, restarts, elections in between).
Every node `i` that is leader in `y` with a term at least `j`'s term in `x` holds at index `k` the very entry
`j` held there in `x` — whatever happened to `j` meanwhile. -/
theorem leader_completeness_ever_partial (V : List Nat) (hV : V.Nodup) (x y : Commit.Sys)
    (hx : Commit.ReachableV V x) (hrun : RunV V x y) (i j k : Nat) (hk : 1 ≤ k)
    (hkc : k ≤ (x.node j).commitIndex) (hl : (y.node i).role = .leader)
    (ht : (x.node j).term ≤ (y.node i).term) :
    (y.node i).log.get? k = (x.node j).log.get? k ∧ ((x.node j).log.get? k).isSome = true := by
  obtain ⟨hy, hT, hC⟩ := run_reachable hx hrun
  obtain ⟨hIx, _⟩ := inv_reachable hV hx
  obtain ⟨hIy, _⟩ := inv_reachable hV hy
  obtain ⟨hj, m, hm, m1, m2⟩ := covered_committed hIx hk hkc
  have hmi := leader_holds_committed hV hIy hl (hC m hm) (Nat.le_trans m1 ht)
  have hki := log_holds_anc hIy i (m2.mono hT) hmi
  have hpj : Path y.T (x.node j).log.entries := (log_path hIx j).mono hT
  refine ⟨?_, ?_⟩
  · rw [(nwf hIy i).get?, (nwf hIx j).get?, if_pos (show 0 < k from hk), if_pos (show 0 < k from hk)]
    exact path_agree (uniq hIy) (log_path hIy i) hpj hki hj k hk (Nat.le_refl _)
  · obtain ⟨e, he, _⟩ := holds_get hj
    rw [(nwf hIx j).get?, if_pos (show 0 < k from hk), he]; rfl

theorem chainB_of_idx : ∀ (es : List Entry) (p : Nat),
    (∀ k (h : k < es.length), es[k].index = p + k + 1) → Order.chainB p es = true := by
  intro es
  induction es with
  | nil => intro p _; rfl
  | cons e es ih =>
    intro p h
    have h0 : e.index = p + 1 := h 0 (by simp)
    simp only [Order.chainB, Bool.and_eq_true, beq_iff_eq]
    refine ⟨h0, ih e.index (fun k hk => ?_)⟩
    have := h (k + 1) (by simp; omega)
    simp only [List.getElem_cons_succ] at this
    rw [this, h0]; omega

/-- **every request delivered in this system is acceptable at its receiver** (same assumptions as
`leader_completeness_sys_partial`): an append request that is not stale carries contiguous indexes and conflicts
with the receiver's log only ABOVE the receiver's commit index — this is the hypothesis `Order.ReqOk` of
`C19Order.ordered_step`, discharged inside the system. One part of `Order.AppendOk` is about configurations and
is assumed here (`hcfg`; membership is fixed in this model, configurations are not tracked by the invariant): the
index of the receiver's committed configuration is not above its commit index, or the tree never branched at
or below that index (e.g. the bootstrap entry (1,1), which all nodes start with). -/
theorem reqok_in_sys_partial (V : List Nat) (hV : V.Nodup) (x : Commit.Sys) (h : Commit.ReachableV V x)
    (i : Nat) (op : Op) (src : Nat) (he : Commit.Enabled x i op src)
    (hcfg : (x.node i).configs.committed.index ≤ (x.node i).commitIndex ∨
      ∀ c ∈ x.T, ∀ d ∈ x.T, c.e.index = d.e.index → c.e.index ≤ (x.node i).configs.committed.index →
        c.e.term = d.e.term) : Order.ReqOk (x.node i) op := by
  obtain ⟨hI, _⟩ := inv_reachable hV h
  cases op with
  | append q =>
    show q.term < (x.node i).term ∨ Order.AppendOk (x.node i) q
    by_cases hst : q.term < (x.node i).term
    · exact Or.inl hst
    · right
      have hq : q ∈ x.rp.sent := (he.rp.append q rfl).resolve_left hst
      have hnc := reqok hI (i := i) hq hst
      have hn := nwf hI i
      refine ⟨chainB_of_idx _ _ (hI.rp.sent q hq).idx, fun ne hne hle _ hdiff => ?_⟩
      have : (x.node i).commitIndex < ne.index := by
        apply Nat.lt_of_not_le
        intro hle'
        apply hdiff
        have h1 : 1 ≤ ne.index := by
          obtain ⟨j, hj, rfl⟩ := List.getElem_of_mem hne
          rw [(hI.rp.sent q hq).idx j hj]; omega
        rw [hn.entryTerm ne.index h1 (by rw [← hn.last]; exact hle), hnc ne hne hle']
      refine ⟨this, ?_⟩
      rcases hcfg with hcfg | hcfg
      · omega
      · apply Nat.lt_of_not_le
        intro hle'
        apply hdiff
        have h1 : 1 ≤ ne.index := by
          obtain ⟨j, hj, rfl⟩ := List.getElem_of_mem hne
          rw [(hI.rp.sent q hq).idx j hj]; omega
        have hlen : ne.index ≤ (x.node i).log.entries.length := by rw [← hn.last]; exact hle
        rw [hn.entryTerm ne.index h1 hlen]
        obtain ⟨c, hc, ck⟩ := log_record hI i (k := ne.index) (τ := termAt (x.node i).log.entries ne.index)
          ⟨h1, hlen, rfl⟩
        obtain ⟨c', hc', _, c2, _⟩ := hI.sent.anc q hq
        obtain ⟨_, es, hp, _, ha⟩ := c2 ne hne
        obtain ⟨d, hd, d1, d2, _⟩ := path_record hp ha
        unfold key at ck
        simp only [Prod.mk.injEq] at ck
        have := hcfg c hc d hd (by rw [ck.1, d1]) (by rw [ck.1]; exact hle')
        rw [← ck.2, this, d2]
  | install q => exact absurd he.rp.ok (by simp [OpOK])
  | _ => trivial

/-! ### Examples (non-vacuity): three voters, every node bootstrapped with the same configuration entry (1,1).
(States in which a node has run `leader.init` are evaluated with `#guard` — tests, not proofs — because the
mutually recursive leader block is defined by well-founded recursion and does not reduce in the kernel.) -/

/-- example initial state: the replication example `C04Sys.ex0` with empty ledgers -/
def ex0 : Commit.Sys := { rp := C04Sys.ex0, acks := [], camps := [], committed := [] }

/-- node 1: election timeout -/
def ex1 : Commit.Sys := stepC ex0 1 .timeout [] [] 0

/-- example: `ex0` is an initial state satisfying the side condition with voters `[1, 2, 3]` -/
theorem ex0_init : Commit.Init ex0 ∧ SideV [1, 2, 3] ex0 := by
  have hp : Path ex0.T [C04Sys.exE] :=
    ⟨⟨⟨⟨C04Sys.exE, 0, 0⟩, List.mem_singleton.mpr rfl, rfl, fun pt h => by cases h⟩, trivial⟩,
      fun k hk => by
        have : k = 0 := by have : k < 1 := hk; omega
        subst this; rfl⟩
  have hh : Holds [C04Sys.exE] 1 1 := ⟨Nat.le_refl _, Nat.le_refl _, rfl⟩
  refine ⟨⟨C04Sys.ex0_init.1, ⟨fun c hc => ?_, fun c hc => ?_, fun c hc d hd _ _ => ?_⟩,
    fun i => ⟨?_, rfl, rfl, rfl, rfl⟩, rfl, rfl, rfl⟩, C04Sys.ex0_init.2, fun i => ?_⟩
  · rw [List.mem_singleton.mp hc]; exact ⟨_, hp, hh⟩
  · rw [List.mem_singleton.mp hc]; decide
  · rw [List.mem_singleton.mp hc, List.mem_singleton.mp hd]
    exact anc_of_path hp hh hh (Nat.le_refl _)
  · show C06.LogWF ({ entries := [C04Sys.exE], flushed := 1 } : NLog)
    exact ⟨by decide, by decide⟩
  · show C04Sys.exCfg.isStable = true
    decide

/-- the side condition holds in `ex1` -/
theorem ex1_side : SideV [1, 2, 3] ex1 := by
  constructor
  · intro i
    by_cases h : i = 1
    · subst h; decide
    · show (setNode C04Sys.exNode 1 _ i).configs.isBootstrapped = true ∧
        (setNode C04Sys.exNode 1 _ i).configs.latest.voters = _
      rw [setNode_other _ _ _ _ h]; exact ⟨rfl, rfl⟩
  · intro i
    by_cases h : i = 1
    · subst h; decide
    · show (setNode C04Sys.exNode 1 _ i).configs.latest.isStable = true
      rw [setNode_other _ _ _ _ h]; rfl

/-- the election timeout of node 1 is a transition from `ex0` to `ex1` -/
theorem ex1_trans : Commit.Trans ex0 ex1 :=
  .step 1 .timeout [] [] 0
    ⟨⟨by decide, (fun q h => by cases h), (fun ⟨_, _, _, h⟩ => by cases h), trivial, (fun q h => by cases h)⟩,
     ⟨trivial, (fun b h => by cases h), (fun t c h => by cases h)⟩, (fun q h => by cases h),
     (fun q h => by cases h), (fun us h => by cases h)⟩

set_option maxRecDepth 100000 in
/-- example: `ex1` (node 1 is candidate of term 2, its campaign is recorded) is reachable — the hypotheses of the
theorems hold for a non-initial state -/
example : [1, 2, 3].Nodup ∧ Commit.ReachableV [1, 2, 3] ex1 ∧ (ex1.node 1).role = .candidate ∧
    ex1.camps = [{ cand := 1, term := 2, lastIndex := 1, lastTerm := 1 }] :=
  ⟨by decide, .next ex0 ex1 (.init ex0 ex0_init.1 ex0_init.2) ex1_trans ex1_side, by decide, by decide⟩

/-- example: the hypotheses of `reqok_in_sys_partial` hold in `ex1` for node 2 and the vote request of node 1
(the tree is `[(1,1)]`, it has no branch) -/
example : Commit.Enabled ex1 2 (.vote { term := 2, src := 1, lastLogIndex := 1, lastLogTerm := 1 }) 0 ∧
    (∀ c ∈ ex1.T, ∀ d ∈ ex1.T, c.e.index = d.e.index → c.e.index ≤ (ex1.node 2).configs.committed.index →
      c.e.term = d.e.term) := by
  refine ⟨⟨⟨by decide, (fun q h => by cases h; decide), (fun ⟨_, _, _, h⟩ => by cases h), trivial,
      (fun q h => by cases h)⟩,
    ⟨trivial, (fun b h => by cases h), (fun t c h => by cases h)⟩, (fun q h => by cases h; exact Or.inr (by decide)),
    (fun q h => by cases h), (fun us h => by cases h)⟩, ?_⟩
  intro c hc d hd _ _
  have e : ex1.T = [⟨C04Sys.exE, 0, 0⟩] := by decide
  rw [e] at hc hd
  rw [List.mem_singleton.mp hc, List.mem_singleton.mp hd]

/-- node 2 grants its vote; node 1 counts it, becomes leader of term 2 and appends its no-op (2,2); the request
carrying it reaches nodes 2 and 3; node 1 learns the two acknowledgements and commits index 2 -/
def ex2 : Commit.Sys := stepC ex1 2 (.vote { term := 2, src := 1, lastLogIndex := 1, lastLogTerm := 1 }) [] [] 0
def ex3 : Commit.Sys := stepC ex2 1 (.voteResult false 2 rSuccess) [] [] 2
def exReq : AppendReq :=
  { term := 2, src := 1, prevLogIndex := 1, prevLogTerm := 1, entries := (ex3.node 1).log.entries.drop 1 }
def ex4 : Commit.Sys := sendC ex3 exReq
def ex5 : Commit.Sys := stepC ex4 2 (.append exReq) [] [] 0
def ex6 : Commit.Sys := stepC ex5 3 (.append exReq) [] [] 0
def ex7 : Commit.Sys :=
  stepC ex6 1 (.replUpdates [{ id := 2, upd := .matchIndex 2 }, { id := 3, upd := .matchIndex 2 }]) [] [] 0

-- evaluation (tests, not proofs) of the scenario: the acknowledgements of nodes 2 and 3 are recorded, the
-- leader's commit of index 2 enters the ledger together with its self acknowledgement, nobody panicked
#guard (ex3.node 1).role == .leader && (ex3.node 1).term == 2 && (ex3.node 1).panicked.isNone
#guard ex5.acks.map (fun a => (a.voter, a.term, a.index, a.eterm)) == [(2, 2, 2, 2)]
#guard ex6.acks.map (fun a => (a.voter, a.term, a.index, a.eterm)) == [(3, 2, 2, 2), (2, 2, 2, 2)]
#guard (ex7.node 1).commitIndex == 2 && (ex7.node 1).panicked.isNone && ex7.committed == [(2, 2)]
#guard ex7.acks.map (fun a => (a.voter, a.term, a.index, a.eterm)) == [(1, 2, 2, 2), (3, 2, 2, 2), (2, 2, 2, 2)]

end C02Sys
end Raft

#print axioms Raft.C02Sys.inv_reachable
#print axioms Raft.C02Sys.leader_completeness_sys_partial
#print axioms Raft.C02Sys.leader_completeness_ever_partial
#print axioms Raft.C02Sys.committed_never_replaced_sys_partial
#print axioms Raft.C02Sys.reqok_in_sys_partial
