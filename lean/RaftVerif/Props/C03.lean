/-
C03 — State-machine agreement: same updates, same order, exactly once (node-local part).

PROVED here for ALL states and inputs of the node model:
* `LogContig` (entry k of the in-memory log has index prev+k+1) is preserved by append-at-last+1,
  `removeGTE`, `removeLTE`, `reset`; under it the slice `fsmApplyLogTo` reads is exactly the entries with
  indexes fsm.index+1 … upto, in order (`slice_get`, `slice_indexes`).
* `apply_log_contiguous`: `fsmApplyLogTo upto` (the first loop of `stateMachine.onApply`) sets
  `fsm.index = upto` and appends to `fsm.applied` exactly the payloads of the update entries of that slice,
  in log order, without panicking.
* `apply_items_contiguous`: the second loop (`fsmApplyItems`) on queue items at consecutive positions never
  panics, appends exactly the update payloads in order and answers each item's task exactly once, in order.
* `apply_never_beyond_commit`: after `fsmApply` (any caller, any items) that did not panic, `fsm.index`
  equals the commit index: nothing beyond the commit index is ever applied.
* `leader_queue_matches_log`: the entries `storeItems` appends to the log are exactly the log-type items it
  appends to the leader queue (same index, term, type, data, config), so what the FSM goroutine applies
  from the queue is what is in the log.
* `restore_replaces_state`: `fsmRestore` replaces the FSM state by exactly the snapshot's
  (index, term, data, config).

NOT proved here (cluster-level; checked by the engines on explored executions with the recording FSM):
that the sequences applied on two nodes are prefixes of one common sequence (needs C02/C04 across nodes),
and exactly-once across restarts / snapshot installation.
-/
import RaftVerif.Lemmas.LocalA

namespace Raft
namespace C03
open Node

/-! ### index-contiguity of the in-memory log -/

/-- entry number k (0-based) of the log has index prev+k+1 -/
def LogContig (l : NLog) : Prop := ∀ k (h : k < l.entries.length), l.entries[k].index = l.prev + k + 1

theorem LogContig.reset (i : Nat) : LogContig (NLog.reset i) := by
  intro k h; simp [NLog.reset] at h

theorem append_parts (l : NLog) (e : Entry) (roll : Bool) :
    (l.append e roll).prev = l.prev ∧ (l.append e roll).entries = l.entries ++ [e] := by
  unfold NLog.append; split <;> exact ⟨rfl, rfl⟩

theorem LogContig.append {l : NLog} (hc : LogContig l) (e : Entry) (roll : Bool) (he : e.index = l.last + 1) :
    LogContig (l.append e roll) := by
  obtain ⟨p1, p2⟩ := append_parts l e roll
  intro k h
  simp only [p1, p2] at h ⊢
  by_cases hk : k < l.entries.length
  · rw [List.getElem_append_left hk]; exact hc k hk
  · have : k = l.entries.length := by simp at h; omega
    subst this
    simp [he, NLog.last]

theorem LogContig.removeGTE {l : NLog} (hc : LogContig l) (i : Nat) : LogContig (l.removeGTE i) := by
  intro k h
  simp only [NLog.removeGTE] at h ⊢
  rw [List.getElem_take]
  exact hc k (by rw [List.length_take] at h; omega)

/-- the new start of the log after `RemoveLTE` is not below the old one when the first segment starts at
`prev` (which `Model/Log.lean` maintains: "the head is `prev`") -/
theorem dropLTE_head_ge (i : Nat) : ∀ (segs : List Nat) (p : Nat), segs.head? = some p →
    ∃ p', (NLog.dropLTE i segs).head? = some p' ∧ p ≤ p' := by
  intro segs
  induction segs with
  | nil => intro p h; simp at h
  | cons a rest ih =>
    intro p h
    have hp : a = p := by simpa using h
    subst hp
    cases rest with
    | nil => exact ⟨a, by simp [NLog.dropLTE], Nat.le_refl _⟩
    | cons b rest' =>
      unfold NLog.dropLTE
      split
      · rename_i hab
        obtain ⟨p', h1, h2⟩ := ih b rfl
        exact ⟨p', h1, by omega⟩
      · exact ⟨a, rfl, Nat.le_refl _⟩

theorem LogContig.removeLTE {l : NLog} (hc : LogContig l) (i : Nat) (hseg : l.segs.head? = some l.prev) :
    LogContig (l.removeLTE i) := by
  obtain ⟨p', h1, h2⟩ := dropLTE_head_ge i l.segs l.prev hseg
  intro k h
  simp only [NLog.removeLTE, h1, Option.getD_some] at h ⊢
  rw [List.getElem_drop]
  rw [hc _ (by rw [List.length_drop] at h; omega)]
  omega

/-- `Log.Get(i)` of a contiguous log returns the entry whose index is `i` -/
theorem LogContig.get?_index {l : NLog} (hc : LogContig l) (i : Nat) (e : Entry) (h : l.get? i = some e) :
    e.index = i := by
  unfold NLog.get? at h
  split at h
  · obtain ⟨hk, he⟩ := List.getElem?_eq_some_iff.mp h
    rw [← he, hc _ hk]; omega
  · cases h

/-- the view `fsmApplyLogTo` reads: entries number a-prev … b-prev-1 of the log -/
def slice (l : NLog) (a b : Nat) : List Entry := (l.entries.drop (a - l.prev)).take (b - a)

theorem slice_length (l : NLog) (a b : Nat) (ha : l.prev ≤ a) (hb : b ≤ l.last) : (slice l a b).length = b - a := by
  unfold slice NLog.last at *
  rw [List.length_take, List.length_drop]; omega

/-- element k of the slice (a, b] is `Log.Get(a+k+1)` -/
theorem slice_get (l : NLog) (a b k : Nat) (ha : l.prev ≤ a) (hk : k < b - a) :
    (slice l a b)[k]? = l.get? (a + k + 1) := by
  unfold slice NLog.get?
  rw [List.getElem?_take, if_pos hk, List.getElem?_drop, if_pos (by omega)]
  congr 1; omega

/-- **the slice is the index range**: in a contiguous log the entries handed to the FSM for (a, b] have
exactly the indexes a+1, a+2, …, b in this order. -/
theorem slice_indexes (l : NLog) (hc : LogContig l) (a b : Nat) (ha : l.prev ≤ a) (hb : b ≤ l.last) :
    (slice l a b).map (·.index) = List.range' (a + 1) (b - a) := by
  apply List.ext_getElem
  · rw [List.length_map, slice_length l a b ha hb, List.length_range']
  · intro k h1 h2
    rw [List.length_map, slice_length l a b ha hb] at h1
    rw [List.getElem_map, List.getElem_range']
    have hs := slice_get l a b k ha h1
    have hk : k < (slice l a b).length := by rw [slice_length l a b ha hb]; exact h1
    rw [List.getElem?_eq_getElem hk] at hs
    rw [hc.get?_index _ _ hs.symm]; omega

/-! ### 1. the first loop of `onApply`: log entries fsm.index+1 … upto -/

/-- **apply_log_contiguous**: with the FSM inside the log (`prev ≤ fsm.index ≤ upto ≤ last`) and every
configuration entry of the slice decodable, `fsmApplyLogTo upto` does not panic, sets `fsm.index = upto`
and appends to `applied` exactly the payloads of the update entries of the slice (fsm.index, upto] in log
order (`slice_indexes`: these are the entries with indexes fsm.index+1 … upto). -/
theorem apply_log_contiguous (s : Node) (upto : Nat) (h1 : s.fsm.index ≤ upto) (h2 : s.log.prev ≤ s.fsm.index)
    (h3 : upto ≤ s.log.last)
    (h4 : ∀ e ∈ slice s.log s.fsm.index upto, e.typ = etConfig → e.config?.isSome = true) :
    (s.fsmApplyLogTo upto).fsm.index = upto ∧
    (s.fsmApplyLogTo upto).fsm.applied =
      s.fsm.applied ++ ((slice s.log s.fsm.index upto).filter (·.typ == etUpdate)).map (·.data) ∧
    (s.fsmApplyLogTo upto).panicked = s.panicked ∧ (s.fsmApplyLogTo upto).replies = s.replies := by
  unfold Node.fsmApplyLogTo
  split
  · rename_i hle
    have : upto = s.fsm.index := by omega
    subst this
    refine ⟨rfl, ?_, rfl, rfl⟩
    simp [slice]
  · rw [if_neg (by omega)]
    have hl := slice_length s.log s.fsm.index upto h2 h3
    unfold slice at hl h4
    extract_lets es ups lastTerm cfg s1
    rw [if_neg (by simp only [ne_eq, Decidable.not_not]; exact hl)]
    have e1 : s1 = s := by
      unfold s1
      rw [if_neg]
      intro hany
      obtain ⟨e, he, hb⟩ := List.any_eq_true.mp hany
      simp only [Bool.and_eq_true, beq_iff_eq] at hb
      have := h4 e he hb.1
      cases hcfg : e.config? with
      | none => rw [hcfg] at this; simp at this
      | some c => rw [hcfg] at hb; simp at hb
    rw [e1]
    exact ⟨rfl, rfl, rfl, rfl⟩

/-- non-vacuity: FSM at 0, log (1,update a) (2,nop) (3,update b): applying up to 3 yields a, b -/
example :
    let s : Node := { log := { entries := [{ index := 1, term := 1, typ := etUpdate, data := "a" },
        { index := 2, term := 1, typ := etNop }, { index := 3, term := 1, typ := etUpdate, data := "b" }] } }
    (s.fsmApplyLogTo 3).fsm.applied = ["a", "b"] ∧ (s.fsmApplyLogTo 3).fsm.index = 3 ∧ LogContig s.log := by
  refine ⟨by decide, by decide, ?_⟩
  intro k h
  have : k < 3 := h
  match k, this with
  | 0, _ => rfl
  | 1, _ => rfl
  | 2, _ => rfl

/-! ### 2. the second loop: queue items handed over by the leader -/

/-- the items sit at consecutive positions after `n`: a log-type item occupies position n+1 and advances
it; reads and barriers are stamped n+1 ("next index") and do not advance it. -/
def ItemsFrom : Nat → List QItem → Prop
  | _, [] => True
  | n, q :: qs => q.index = n + 1 ∧ ItemsFrom (if isLogEntryTyp q.typ then n + 1 else n) qs

/-- where the FSM ends after the items -/
def endPos (n : Nat) (items : List QItem) : Nat := n + (items.filter (fun q => isLogEntryTyp q.typ)).length

/-- **apply_items_contiguous**: on items at consecutive positions after `fsm.index` the second loop never
trips its assertion, applies exactly the update payloads in order, advances `fsm.index` by the number of
log-type items, and answers every item that carries a task exactly once, in order. -/
theorem apply_items_contiguous (s : Node) (items : List QItem) (h : ItemsFrom s.fsm.index items) :
    (s.fsmApplyItems items).panicked = s.panicked ∧
    (s.fsmApplyItems items).fsm.applied = s.fsm.applied ++ (items.filter (·.typ == etUpdate)).map (·.data) ∧
    (s.fsmApplyItems items).fsm.index = endPos s.fsm.index items ∧
    (s.fsmApplyItems items).replies.map (·.task) = s.replies.map (·.task) ++ (items.map (·.task)).filter (· ≠ 0) := by
  induction items generalizing s with
  | nil => simp [Node.fsmApplyItems, endPos]
  | cons q qs ih =>
    obtain ⟨hq, hrest⟩ := h
    unfold Node.fsmApplyItems
    extract_lets s1 src2 s2 resp src3 s3 src4 s4
    have e1 : s1 = s := by unfold s1 Node.assert; rw [if_pos (by simp [hq])]
    have f2 : s2.panicked = s.panicked ∧ s2.replies = s.replies ∧ s2.fsm.index = s.fsm.index ∧
        s2.fsm.applied = s.fsm.applied ++ ([q].filter (·.typ == etUpdate)).map (·.data) := by
      unfold s2 src2; rw [e1]
      split
      · rename_i ht; exact ⟨rfl, rfl, rfl, by simp [ht, Node.withFsm]⟩
      · rename_i ht; exact ⟨rfl, rfl, rfl, by simp [ht]⟩
    have f3 : s3.panicked = s.panicked ∧ s3.replies = s.replies ∧ s3.fsm.index = s.fsm.index ∧
        s3.fsm.applied = s2.fsm.applied := by
      unfold s3
      split
      · exact ⟨f2.1, f2.2.1, f2.2.2.1, rfl⟩
      · exact ⟨f2.1, f2.2.1, f2.2.2.1, rfl⟩
    have f4 : s4.panicked = s.panicked ∧ s4.replies = s.replies ∧
        s4.fsm.index = (if isLogEntryTyp q.typ then s.fsm.index + 1 else s.fsm.index) ∧
        s4.fsm.applied = s2.fsm.applied := by
      unfold s4
      split
      · exact ⟨f3.1, f3.2.1, hq, f3.2.2.2⟩
      · exact ⟨f3.1, f3.2.1, f3.2.2.1, f3.2.2.2⟩
    obtain ⟨r1, r2, r3, r4, r5, r6, _⟩ := reply_fields s4 q.task resp
    have hfsm : (s4.reply q.task resp).fsm = s4.fsm := r5
    obtain ⟨i1, i2, i3, i4⟩ := ih (s4.reply q.task resp) (by rw [hfsm, f4.2.2.1]; exact hrest)
    refine ⟨by rw [i1, r6, f4.1], ?_, ?_, ?_⟩
    · rw [i2, hfsm, f4.2.2.2, f2.2.2.2]
      simp only [List.filter_cons, List.filter_nil]
      split <;> simp
    · rw [i3, hfsm, f4.2.2.1]
      unfold endPos
      simp only [List.filter_cons]
      split <;> simp <;> omega
    · rw [i4]
      unfold Node.reply
      split
      · rename_i h0; simp [h0, f4.2.1]
      · rename_i h0; simp [h0, f4.2.1]

/-- non-vacuity: an update at 4, a read stamped 5, an update at 5 -/
example : ItemsFrom 3 [{ index := 4, typ := etUpdate }, { index := 5, typ := etRead }, { index := 5, typ := etUpdate }] := by
  simp [ItemsFrom, isLogEntryTyp, etUpdate, etRead, etDirtyRead, etBarrier]

/-! ### 3. nothing beyond the commit index is applied -/

/-- **apply_never_beyond_commit**: whatever the items, if `fsmApply` did not panic then afterwards
`fsm.index` is exactly the commit index (the final assertion of `onApply`); the commit index itself is not
changed by applying. -/
theorem apply_never_beyond_commit (s : Node) (items : List QItem) (h : (s.fsmApply items).panicked = none) :
    (s.fsmApply items).fsm.index = s.commitIndex ∧ (s.fsmApply items).commitIndex = s.commitIndex := by
  refine ⟨?_, fsmFrame_commitIndex.fsmApply_eq s items⟩
  unfold Node.fsmApply at h ⊢
  split
  · rw [if_pos ‹_›] at h; exact absurd h (panic_panicked_ne _ _)
  · rw [if_neg ‹_›] at h
    split
    · rw [if_pos ‹_›] at h; exact absurd h (panic_panicked_ne _ _)
    · rw [if_neg ‹_›] at h
      dsimp only at h ⊢
      generalize hx : ((s.fsmApplyLogTo _).fsmApplyItems items) = x at h ⊢
      have hci : x.commitIndex = s.commitIndex := by
        rw [← hx, fsmFrame_commitIndex.fsmApplyItems_eq, fsmFrame_commitIndex.fsmApplyLogTo_eq]
      unfold Node.assert at h ⊢
      split
      · rename_i hb
        rw [← hci]; simpa using hb
      · rw [if_neg ‹_›] at h; exact absurd h (panic_panicked_ne _ _)

/-- the follower-side caller -/
theorem applyCommitted_never_beyond_commit (s : Node) (h : s.applyCommitted.panicked = none) :
    s.applyCommitted.fsm.index = s.commitIndex := (apply_never_beyond_commit s [] h).1

/-! ### 5. restore replaces the state -/

/-- **restore_replaces_state**: `fsmRestore` without panic leaves the FSM exactly at the snapshot the
node's `snaps.index` names: index, term, data and configuration all come from that snapshot file; nothing
of the previous FSM state survives. -/
theorem restore_replaces_state (s : Node) (h : s.fsmRestore.panicked = none) :
    ∃ f, f ∈ s.snapsDisk ∧ f.index = s.snapIndex ∧
      s.fsmRestore.fsm = { index := f.index, term := f.term, applied := f.data, config := f.config } := by
  unfold Node.fsmRestore at h ⊢
  split
  · rw [if_pos ‹_›] at h; exact absurd h (panic_panicked_ne _ _)
  · rw [if_neg ‹_›] at h
    split
    · rename_i f hf
      exact ⟨f, List.mem_of_find?_eq_some hf, by simpa using List.find?_some hf, rfl⟩
    · rename_i hf
      rw [hf] at h; exact absurd h (panic_panicked_ne _ _)

/-- the restored FSM index is the snapshot index (so install-snapshot can set commitIndex = snapIndex) -/
theorem restore_index (s : Node) (h : s.fsmRestore.panicked = none) : s.fsmRestore.fsm.index = s.snapIndex := by
  obtain ⟨f, _, h1, h2⟩ := restore_replaces_state s h
  rw [h2]; exact h1

/-! ### 4. what the leader queues is what it logs -/

/-- `storage.appendEntry` of the next index: no assertion fails, the entry goes to the end of the log -/
theorem appendEntry_next (s : Node) (e : Entry) (h : e.index = s.lastLogIndex + 1) :
    s.appendEntry e = { s with
      log := s.log.append e (s.rollAt.contains (e.index - 1) && s.log.lastSegPrev != e.index - 1),
      lastLogIndex := e.index, lastLogTerm := e.term } := by
  unfold Node.appendEntry Node.assert
  rw [if_pos (by simp [h])]

/-- the stamping `storeEntry` gives a batch: every item gets index = (last log index so far)+1 and the
leader's term; only log-type items advance the last log index. -/
def assign (last term : Nat) : List QItem → List QItem
  | [] => []
  | q :: qs =>
    { q with index := last + 1, term := term, cfg := q.cfg.map Config.payload } ::
      assign (if isLogEntryTyp q.typ then last + 1 else last) term qs

/-- the stamp `storeEntry` puts on one item -/
def stamp (s : Node) (q : QItem) : QItem :=
  { q with index := s.lastLogIndex + 1, term := s.term, cfg := q.cfg.map Config.payload }

/-- accepting one non-configuration item: queue it, and append it to the log if it is a log-type item -/
def accept (s : Node) (q : QItem) : Node :=
  let s1 := s.withLdr { s.ldr with queue := s.ldr.queue ++ [stamp s q] }
  if isLogEntryTyp q.typ then s1.appendEntry (stamp s q).toEntry else s1

theorem storeItems_cons_accept (n : Nat) (s : Node) (q : QItem) (qs : List QItem)
    (ht : s.ldr.transfer.active = false) (hv : s.ldr.node.voter = true) (hq : q.typ ≠ etConfig) :
    storeItems (n + 1) s (q :: qs) = storeItems n (accept s q) qs := by
  conv => lhs; unfold storeItems
  dsimp only
  rw [if_neg (by simp [ht]), if_neg (by simp [hv])]
  unfold accept stamp
  dsimp only
  congr 1
  split
  · first | rfl | rw [if_neg hq]
  · rfl

theorem accept_fields (s : Node) (q : QItem) :
    (accept s q).ldr = { s.ldr with queue := s.ldr.queue ++ [stamp s q] } ∧
    (accept s q).log.entries = s.log.entries ++ ([stamp s q].filter (fun q => isLogEntryTyp q.typ)).map QItem.toEntry ∧
    (accept s q).log.prev = s.log.prev ∧
    (accept s q).lastLogIndex = (if isLogEntryTyp q.typ then s.lastLogIndex + 1 else s.lastLogIndex) ∧
    (accept s q).panicked = s.panicked ∧ (accept s q).replies = s.replies ∧ (accept s q).term = s.term := by
  unfold accept
  dsimp only
  have hst : (stamp s q).typ = q.typ := rfl
  split
  · rename_i hl
    rw [appendEntry_next _ _ rfl]
    refine ⟨rfl, ?_, (append_parts _ _ _).1, rfl, rfl, rfl, rfl⟩
    show (s.log.append _ _).entries = _
    rw [(append_parts _ _ _).2]; simp [hst, hl]
  · rename_i hl
    refine ⟨rfl, ?_, rfl, rfl, rfl, rfl, rfl⟩
    simp [hst, hl, Node.withLdr]

/-- **leader_queue_matches_log**: a leader that is a voter, with no transfer in progress, given a batch
without configuration entries (those go through `changeConfigL`, see C08), appends to its queue the
stamped batch, and to its log exactly the log-type items of that stamped batch converted field by field
(`QItem.toEntry`: same index, term, type, data, config) — nothing else changes in log or queue. -/
theorem leader_queue_matches_log (fuel : Nat) (s : Node) (batch : List QItem) (hf : fuel ≥ batch.length)
    (ht : s.ldr.transfer.active = false) (hv : s.ldr.node.voter = true)
    (hnc : ∀ q ∈ batch, q.typ ≠ etConfig) :
    (storeItems fuel s batch).ldr.queue = s.ldr.queue ++ assign s.lastLogIndex s.term batch ∧
    (storeItems fuel s batch).log.entries = s.log.entries ++
      ((assign s.lastLogIndex s.term batch).filter (fun q => isLogEntryTyp q.typ)).map QItem.toEntry ∧
    (storeItems fuel s batch).log.prev = s.log.prev ∧
    (storeItems fuel s batch).lastLogIndex = s.lastLogIndex + (batch.filter (fun q => isLogEntryTyp q.typ)).length ∧
    (storeItems fuel s batch).panicked = s.panicked ∧ (storeItems fuel s batch).replies = s.replies ∧
    (storeItems fuel s batch).term = s.term := by
  induction batch generalizing s fuel with
  | nil => unfold storeItems; simp [assign]
  | cons q qs ih =>
    cases fuel with
    | zero => simp at hf
    | succ n =>
      have hn : n ≥ qs.length := by simp at hf; omega
      have hnc' : ∀ q ∈ qs, q.typ ≠ etConfig := fun x hx => hnc x (List.mem_cons_of_mem _ hx)
      have hq : q.typ ≠ etConfig := hnc q (List.mem_cons_self ..)
      rw [storeItems_cons_accept n s q qs ht hv hq]
      obtain ⟨a1, a2, a3, a4, a5, a6, a7⟩ := accept_fields s q
      obtain ⟨i1, i2, i3, i4, i5, i6, i7⟩ := ih n (accept s q) hn (by rw [a1]; exact ht) (by rw [a1]; exact hv) hnc'
      have hasg : assign s.lastLogIndex s.term (q :: qs) = stamp s q :: assign (accept s q).lastLogIndex (accept s q).term qs := by
        rw [a4, a7]; rfl
      have hst : (stamp s q).typ = q.typ := rfl
      refine ⟨?_, ?_, by rw [i3, a3], ?_, by rw [i5, a5], by rw [i6, a6], by rw [i7, a7]⟩
      · rw [i1, a1, hasg]; simp
      · rw [i2, a2, hasg]; simp [List.filter_cons]
        split <;> simp
      · rw [i4, a4, List.filter_cons]
        split <;> simp <;> omega

/-- every stamped log-type item is in the log under its own index and term: the pair (queue item, log entry)
the FSM goroutine may see for one index is one and the same entry. -/
theorem queued_log_item_is_logged (fuel : Nat) (s : Node) (batch : List QItem) (hf : fuel ≥ batch.length)
    (ht : s.ldr.transfer.active = false) (hv : s.ldr.node.voter = true)
    (hnc : ∀ q ∈ batch, q.typ ≠ etConfig) (q : QItem) (hq : q ∈ assign s.lastLogIndex s.term batch)
    (hl : isLogEntryTyp q.typ = true) :
    q ∈ (storeItems fuel s batch).ldr.queue ∧ q.toEntry ∈ (storeItems fuel s batch).log.entries := by
  obtain ⟨i1, i2, _⟩ := leader_queue_matches_log fuel s batch hf ht hv hnc
  rw [i1, i2]
  refine ⟨List.mem_append_right _ hq, List.mem_append_right _ ?_⟩
  exact List.mem_map_of_mem (List.mem_filter.mpr ⟨hq, hl⟩)

end C03
end Raft

#print axioms Raft.C03.LogContig.reset
#print axioms Raft.C03.append_parts
#print axioms Raft.C03.LogContig.append
#print axioms Raft.C03.LogContig.removeGTE
#print axioms Raft.C03.dropLTE_head_ge
#print axioms Raft.C03.LogContig.removeLTE
#print axioms Raft.C03.LogContig.get?_index
#print axioms Raft.C03.slice_length
#print axioms Raft.C03.slice_get
#print axioms Raft.C03.slice_indexes
#print axioms Raft.C03.apply_log_contiguous
#print axioms Raft.C03.apply_items_contiguous
#print axioms Raft.C03.apply_never_beyond_commit
#print axioms Raft.C03.applyCommitted_never_beyond_commit
#print axioms Raft.C03.restore_replaces_state
#print axioms Raft.C03.restore_index
#print axioms Raft.C03.appendEntry_next
#print axioms Raft.C03.storeItems_cons_accept
#print axioms Raft.C03.accept_fields
#print axioms Raft.C03.leader_queue_matches_log
#print axioms Raft.C03.queued_log_item_is_logged
