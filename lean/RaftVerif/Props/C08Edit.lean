/-
C08 — Membership changes preserve safety: the public editing helpers of `Config` (config.go `AddVoter`,
`AddNonvoter`, `SetAction`, `SetAddr`, `SetData`), with which a user derives the configuration handed to
`ChangeConfig` from the latest one.

Proved for EVERY bootstrapped configuration and EVERY sequence of edits with any arguments, failed calls included
(a failed call leaves the configuration as it was — compared on the real code by engine `nodediff`, part `cfgEdit`):
* the voting rights are those of the starting configuration (`edits_keep_voters`): the editing interface cannot hand
  out or take away a vote, so the only way to a new voter is the leader's promotion round, and `AddVoter` is refused
  on a bootstrapped configuration (`addVoter_bootstrapped`);
* no node disappears and `Index`/`Term` are untouched (`edits_keep_nodes`, `edits_keep_index`), so `ChangeConfig`
  recognises the result as derived from the latest configuration;
* every node still passes `Node.validate` (`edits_keep_valid`);
* hence `leader.onChangeConfig`'s test "a node of the latest configuration is missing or has another voting right"
  never rejects what the editing interface produced, and neither does the test "a voter the latest configuration does
  not know" (`edits_pass_voter_check`, `edits_pass_new_voter_check`; ids stay sorted keys: `edits_keep_sorted`).
What the interface does NOT guarantee, and the model says so: addresses may collide after `AddNonvoter`
(`addNode_ignores_addresses`) — `Config.validate` inside `ChangeConfig` is what refuses that.
-/
import RaftVerif.Model.ConfigEdit
import RaftVerif.Lemmas.ConfigRel

namespace Raft
namespace C08Edit
open Node CfgRel Config

/-- every node, as the library looks it up, passes `Node.validate` -/
def NodesValid (c : Config) : Prop := ∀ id n, c.find? id = some n → nodeValid n = true

theorem find?_id {c : Config} {id : Nat} {n : CNode} (h : c.find? id = some n) : n.id = id := by
  unfold Config.find? at h
  have := List.find?_some h
  simpa using this

theorem nodeValid_data (n : CNode) (d : String) : nodeValid { n with data := d } = nodeValid n := rfl

theorem addNode_ok {c c' : Config} {n : CNode} (h : c.addNode n = .ok c') :
    c' = c.set n ∧ c.find? n.id = none ∧ nodeValid n = true := by
  unfold addNode at h
  by_cases hv : nodeValid n = true
  · by_cases hh : c.has n.id = true
    · simp [hv, hh] at h
    · simp [hv, hh] at h
      refine ⟨h.symm, ?_, hv⟩
      unfold Config.has at hh
      simpa using hh
  · simp [hv] at h

/-- `addNode` looks at the id only: a valid node of a new id is added whatever addresses are in use — two nodes at one
address are possible until `Config.validate` (inside `ChangeConfig`) refuses them. -/
theorem addNode_ignores_addresses (c : Config) (n : CNode) (hv : nodeValid n = true) (hh : c.has n.id = false) :
    c.addNode n = .ok (c.set n) := by
  simp [addNode, hv, hh]

/-- A successful edit writes exactly one node `m`: either a new one, which is a non-voter unless the configuration is
not bootstrapped, or a replacement of the node of that id with the same voting right; validity is that of the
call's own `validate`. -/
theorem applyEdit_ok {c c' : Config} {e : Edit} (h : c.applyEdit e = .ok c') :
    ∃ m, c' = c.set m ∧
      ((c.find? m.id = none ∧ (m.voter = false ∨ c.isBootstrapped = false) ∧ nodeValid m = true) ∨
       (∃ n, c.find? m.id = some n ∧ m.voter = n.voter ∧ (nodeValid n = true → nodeValid m = true))) := by
  cases e with
  | addVoter id addr =>
    simp only [applyEdit, addVoter] at h
    by_cases hb : c.isBootstrapped = true
    · simp [hb] at h
    · simp only [hb] at h
      obtain ⟨h1, h2, h3⟩ := addNode_ok h
      exact ⟨_, h1, Or.inl ⟨h2, Or.inr (by simpa using hb), h3⟩⟩
  | addNonvoter id addr p =>
    simp only [applyEdit, addNonvoter] at h
    obtain ⟨h1, h2, h3⟩ := addNode_ok h
    exact ⟨_, h1, Or.inl ⟨h2, Or.inl rfl, h3⟩⟩
  | setAction id a =>
    simp only [applyEdit, setAction] at h
    split at h
    · cases h
    · rename_i n hn
      split at h
      · cases h
      · rename_i hv
        injection h with h
        have hid := find?_id hn
        refine ⟨_, h.symm, Or.inr ⟨n, ?_, rfl, fun _ => by simpa using hv⟩⟩
        show c.find? n.id = some n
        rw [hid]; exact hn
  | setAddr id addr =>
    simp only [applyEdit, setAddr] at h
    split at h
    · cases h
    · rename_i n hn
      split at h
      · cases h
      · rename_i hv
        split at h
        · cases h
        · injection h with h
          have hid := find?_id hn
          refine ⟨_, h.symm, Or.inr ⟨n, ?_, rfl, fun _ => by simpa using hv⟩⟩
          show c.find? n.id = some n
          rw [hid]; exact hn
  | setData id d =>
    simp only [applyEdit, setData] at h
    split at h
    · cases h
    · rename_i n hn
      injection h with h
      have hid := find?_id hn
      refine ⟨_, h.symm, Or.inr ⟨n, ?_, rfl, fun hv => by rw [nodeValid_data]; exact hv⟩⟩
      show c.find? n.id = some n
      rw [hid]; exact hn

theorem set_index (c : Config) (m : CNode) : (c.set m).index = c.index ∧ (c.set m).term = c.term := ⟨rfl, rfl⟩

/-! ### one call -/

theorem afterEdit_index (c : Config) (e : Edit) : (c.afterEdit e).index = c.index ∧ (c.afterEdit e).term = c.term := by
  unfold afterEdit
  split
  · rename_i c' h
    obtain ⟨m, hm, _⟩ := applyEdit_ok h
    rw [hm]; exact set_index c m
  · exact ⟨rfl, rfl⟩

theorem afterEdit_voters (c : Config) (e : Edit) (hb : c.isBootstrapped = true) : SameVoters (c.afterEdit e) c := by
  unfold afterEdit
  split
  · rename_i c' h
    obtain ⟨m, hm, hc⟩ := applyEdit_ok h
    subst hm
    intro x
    unfold Config.isVoter
    by_cases hx : x = m.id
    · subst hx
      rw [find?_set_self]
      rcases hc with ⟨hn, hv, _⟩ | ⟨n, hn, hv, _⟩
      · rw [hn]
        rcases hv with hv | hv
        · exact hv
        · rw [hb] at hv; cases hv
      · rw [hn]; exact hv
    · rw [find?_set_ne c m x hx]
  · intro x; rfl

theorem afterEdit_nodes (c : Config) (e : Edit) (x : Nat) (h : (c.find? x).isSome = true) :
    ((c.afterEdit e).find? x).isSome = true := by
  unfold afterEdit
  split
  · rename_i c' he
    obtain ⟨m, hm, _⟩ := applyEdit_ok he
    subst hm
    by_cases hx : x = m.id
    · subst hx; rw [find?_set_self]; rfl
    · rw [find?_set_ne c m x hx]; exact h
  · exact h

theorem afterEdit_valid (c : Config) (e : Edit) (h : NodesValid c) : NodesValid (c.afterEdit e) := by
  unfold afterEdit
  split
  · rename_i c' he
    obtain ⟨m, hm, hc⟩ := applyEdit_ok he
    subst hm
    intro x n hn
    by_cases hx : x = m.id
    · subst hx
      rw [find?_set_self] at hn
      injection hn with hn
      subst hn
      rcases hc with ⟨_, _, hv⟩ | ⟨n', hn', _, hv⟩
      · exact hv
      · exact hv (h _ _ hn')
    · rw [find?_set_ne c m x hx] at hn
      exact h x n hn
  · exact h

/-- `AddVoter` is refused once the cluster is bootstrapped. -/
theorem addVoter_bootstrapped (c : Config) (id : Nat) (addr : String) (hb : c.isBootstrapped = true) :
    c.applyEdit (.addVoter id addr) = .error .bootstrapped := by
  simp [applyEdit, addVoter, hb]

/-! ### a whole editing session -/

theorem edits_keep_index (c : Config) (es : List Edit) :
    (c.afterEdits es).index = c.index ∧ (c.afterEdits es).term = c.term := by
  unfold afterEdits
  induction es generalizing c with
  | nil => exact ⟨rfl, rfl⟩
  | cons e es ih =>
    simp only [List.foldl]
    have h1 := ih (c.afterEdit e)
    have h2 := afterEdit_index c e
    exact ⟨h1.1.trans h2.1, h1.2.trans h2.2⟩

/-- The editing interface cannot hand out or take away a vote: after any sequence of calls on a bootstrapped
configuration, failed ones included, exactly the same ids are voters. -/
theorem edits_keep_voters (c : Config) (es : List Edit) (hb : c.isBootstrapped = true) :
    SameVoters (c.afterEdits es) c := by
  unfold afterEdits
  induction es generalizing c with
  | nil => intro x; rfl
  | cons e es ih =>
    simp only [List.foldl]
    have hb' : (c.afterEdit e).isBootstrapped = true := by
      unfold Config.isBootstrapped at *
      rw [(afterEdit_index c e).1]; exact hb
    exact (ih (c.afterEdit e) hb').trans (afterEdit_voters c e hb)

/-- No node disappears. -/
theorem edits_keep_nodes (c : Config) (es : List Edit) (x : Nat) (h : (c.find? x).isSome = true) :
    ((c.afterEdits es).find? x).isSome = true := by
  unfold afterEdits
  induction es generalizing c with
  | nil => exact h
  | cons e es ih =>
    simp only [List.foldl]
    exact ih (c.afterEdit e) (afterEdit_nodes c e x h)

/-- Every node still passes `Node.validate`. -/
theorem edits_keep_valid (c : Config) (es : List Edit) (h : NodesValid c) : NodesValid (c.afterEdits es) := by
  unfold afterEdits
  induction es generalizing c with
  | nil => exact h
  | cons e es ih =>
    simp only [List.foldl]
    exact ih (c.afterEdit e) (afterEdit_valid c e h)

/-- ids are keys: looking a listed node up by its id returns that node (true of every configuration that came out of
a Go map: `Config.decode`, `clone`) -/
def Keyed (c : Config) : Prop := ∀ n ∈ c.nodes, c.find? n.id = some n

/-- `leader.onChangeConfig` rejects a configuration in which a node of the latest one is missing or votes
differently.  That test never fires on what the editing interface made of the latest configuration. -/
theorem edits_pass_voter_check (latest : Config) (es : List Edit) (hb : latest.isBootstrapped = true)
    (hk : Keyed latest) :
    latest.nodes.any (fun n => match (latest.afterEdits es).find? n.id with
      | none => true
      | some nn => n.voter != nn.voter) = false := by
  rw [List.any_eq_false]
  intro n hn
  have hf := hk n hn
  have hs := edits_keep_nodes latest es n.id (by rw [hf]; rfl)
  have hv := edits_keep_voters latest es hb n.id
  unfold Config.isVoter at hv
  rw [hf] at hv
  cases hq : (latest.afterEdits es).find? n.id with
  | none => rw [hq] at hs; cases hs
  | some nn =>
    rw [hq] at hv
    simp only at hv ⊢
    rw [hv]; simp

/-! ### ids stay sorted keys, and the second voter test of `onChangeConfig` -/

/-- nodes in strictly ascending id order: how the harness, the codec model and `Config.set` keep a Go map -/
def Sorted (c : Config) : Prop := c.nodes.Pairwise (fun a b => a.id < b.id)

theorem mem_insertSorted' {m x : CNode} {l : List CNode} (h : x ∈ Config.insertSorted m l) : x = m ∨ x ∈ l := by
  induction l with
  | nil => simp [Config.insertSorted] at h; exact Or.inl h
  | cons a as ih =>
    unfold Config.insertSorted at h
    split at h
    · rcases List.mem_cons.mp h with h | h
      · exact Or.inl h
      · exact Or.inr h
    · split at h
      · rcases List.mem_cons.mp h with h | h
        · exact Or.inl h
        · exact Or.inr (List.mem_cons_of_mem _ h)
      · rcases List.mem_cons.mp h with h | h
        · exact Or.inr (by rw [h]; exact List.mem_cons_self)
        · rcases ih h with h | h
          · exact Or.inl h
          · exact Or.inr (List.mem_cons_of_mem _ h)

theorem sorted_insert (m : CNode) (l : List CNode) (h : l.Pairwise (fun a b => a.id < b.id)) :
    (Config.insertSorted m l).Pairwise (fun a b => a.id < b.id) := by
  induction l with
  | nil => simp [Config.insertSorted]
  | cons a as ih =>
    have ha := List.pairwise_cons.mp h
    unfold Config.insertSorted
    split
    · rename_i hlt
      refine List.pairwise_cons.mpr ⟨?_, h⟩
      intro x hx
      rcases List.mem_cons.mp hx with hx | hx
      · rw [hx]; exact hlt
      · exact Nat.lt_trans hlt (ha.1 x hx)
    · split
      · rename_i heq
        refine List.pairwise_cons.mpr ⟨?_, ha.2⟩
        intro x hx
        rw [heq]; exact ha.1 x hx
      · rename_i hnl hne
        refine List.pairwise_cons.mpr ⟨?_, ih ha.2⟩
        intro x hx
        rcases mem_insertSorted' hx with hx | hx
        · rw [hx]; omega
        · exact ha.1 x hx

theorem keyed_of_sorted {c : Config} (h : Sorted c) : Keyed c := by
  unfold Sorted at h
  unfold Keyed Config.find?
  generalize c.nodes = l at h
  induction l with
  | nil => intro n hn; cases hn
  | cons a as ih =>
    have ha := List.pairwise_cons.mp h
    intro n hn
    rcases List.mem_cons.mp hn with hn | hn
    · subst hn; simp [List.find?]
    · have hlt := ha.1 n hn
      have : (a.id == n.id) = false := by simp; omega
      simp only [List.find?, this]
      exact ih ha.2 n hn

theorem afterEdit_sorted (c : Config) (e : Edit) (h : Sorted c) : Sorted (c.afterEdit e) := by
  unfold afterEdit
  split
  · rename_i c' he
    obtain ⟨m, hm, _⟩ := applyEdit_ok he
    subst hm
    exact sorted_insert m c.nodes h
  · exact h

theorem edits_keep_sorted (c : Config) (es : List Edit) (h : Sorted c) : Sorted (c.afterEdits es) := by
  unfold afterEdits
  induction es generalizing c with
  | nil => exact h
  | cons e es ih =>
    simp only [List.foldl]
    exact ih (c.afterEdit e) (afterEdit_sorted c e h)

/-- `leader.onChangeConfig` also rejects a configuration with a voter that the latest one does not know.  That test
never fires either: every voter of an edited configuration is a node — a voter — of the latest one. -/
theorem edits_pass_new_voter_check (latest : Config) (es : List Edit) (hb : latest.isBootstrapped = true)
    (hs : Sorted latest) :
    (latest.afterEdits es).nodes.any (fun n => !latest.has n.id && n.voter) = false := by
  rw [List.any_eq_false]
  intro n hn
  have hk := keyed_of_sorted (edits_keep_sorted latest es hs) n hn
  have hv := edits_keep_voters latest es hb n.id
  unfold Config.isVoter at hv
  rw [hk] at hv
  simp only [Bool.and_eq_true, Bool.not_eq_true', not_and, Bool.not_eq_true]
  intro hh
  unfold Config.has at hh
  cases hq : latest.find? n.id with
  | none => rw [hq] at hv; exact hv
  | some x => rw [hq] at hh; cases hh

/-! ### what the interface does not promise, and non-vacuity -/

def ex : Config :=
  { nodes := [{ id := 1, addr := "a:1", voter := true }, { id := 2, addr := "b:2", voter := true },
              { id := 3, addr := "c:3" }], index := 5, term := 2 }

/-- the hypotheses of the theorems above are met by a configuration with voters and a non-voter, and a session in
which calls succeed and fail -/
example : ex.isBootstrapped = true ∧ Sorted ex ∧ Keyed ex ∧
    (ex.afterEdits [.setData 1 "x", .setAction 7 0, .addVoter 9 "z:9", .setData 3 "y"]).nodes.length = 3 ∧
    ((ex.afterEdits [.setData 1 "x", .setAction 7 0, .addVoter 9 "z:9", .setData 3 "y"]).get 3).data = "y" := by
  refine ⟨rfl, by unfold Sorted; decide, ?_, by decide, by decide⟩
  intro n hn
  simp only [ex, List.mem_cons, List.mem_nil_iff, or_false] at hn
  rcases hn with rfl | rfl | rfl <;> rfl

end C08Edit
end Raft

#print axioms Raft.C08Edit.applyEdit_ok
#print axioms Raft.C08Edit.addVoter_bootstrapped
#print axioms Raft.C08Edit.edits_keep_index
#print axioms Raft.C08Edit.edits_keep_voters
#print axioms Raft.C08Edit.edits_keep_nodes
#print axioms Raft.C08Edit.edits_keep_valid
#print axioms Raft.C08Edit.edits_pass_voter_check
#print axioms Raft.C08Edit.edits_keep_sorted
#print axioms Raft.C08Edit.keyed_of_sorted
#print axioms Raft.C08Edit.edits_pass_new_voter_check
#print axioms Raft.C08Edit.addNode_ignores_addresses
